/-
  mwpdrv: JSON-lines server.  One request object per input line, one response
  object per output line.  `model.*` ops run the executable model, `spec.*`
  the reference semantics, `check.*` evaluate a property's specification-side
  predicate on observations made on the real implementation.
-/
import Mwp.Wire
import Mwp.Model.Bound
import Mwp.Model.DeltaGraph
import Mwp.Model.Choices
import Mwp.WireAst
import Mwp.Model.Analysis
import Mwp.Model.Run
import Mwp.Spec.Calculus
import Mwp.Lemmas.RelDefs
import Mwp.Spec.Syntax
import Mwp.Spec.CalculusInf
import Mwp.Model.Cli
import Mwp.Spec.Exec
import Mwp.WireResult
import Mwp.Spec.BoundText
open Lean Mwp Mwp.Wire

def ok (v : Json) : Json := Json.mkObj [("ok", v)]
def viol (kind : String) (extra : List (String × Json)) : Json :=
  Json.mkObj [("violation", Json.mkObj (("kind", Json.str kind) :: extra))]

namespace Ops

def polyAdd (j : Json) : R Json := do
  let p ← polyOf (← field j "p"); let q ← polyOf (← field j "q")
  pure (ok (jPoly (Poly.add p q)))

def polyTimes (j : Json) : R Json := do
  let p ← polyOf (← field j "p"); let q ← polyOf (← field j "q")
  pure (ok (jPoly (Poly.times p q)))

def polyTable (j : Json) : R Json := do
  let p ← polyOf (← field j "p"); let n ← fNat j "n"
  pure (ok (jList (fun c => jOptScalar (p.eval? c)) (allChoices 3 n)))

def monoProd (j : Json) : R Json := do
  let a ← monoOf (← field j "a"); let b ← monoOf (← field j "b")
  pure (ok (jMono (a.prod b)))

def monoNew (j : Json) : R Json := do
  let a ← monoOf (← field j "a")
  pure (ok (jMono (Mono.new a.scalar a.deltas)))

/-- structural clause of C09: no two terms with the same delta list, no zero term alongside others -/
def structOk (p : Poly) : Option String :=
  let ds := p.map (·.deltas)
  if ds.eraseDups.length != ds.length then some "duplicate-delta-list"
  else if p.length > 1 && p.any (fun m => m.scalar == .o) then some "zero-term-alongside-others"
  else none

/-- C09 predicate on implementation observations: p, q operands; s = p+q, t = p*q as
    returned by pymwp; n = number of indices. -/
def checkC09 (j : Json) : R Json := do
  let p ← polyOf (← field j "p"); let q ← polyOf (← field j "q")
  let s ← polyOf (← field j "sum"); let t ← polyOf (← field j "prod")
  let n ← fNat j "n"
  for c in allChoices 3 n do
    let vp := p.evalD c; let vq := q.evalD c
    if s.evalD c != vp + vq then
      return viol "sum-not-pointwise" [("choice", jList jNat c), ("got", jScalar (s.evalD c)), ("want", jScalar (vp + vq))]
    let want := match p.eval? c, q.eval? c with
      | some a, some b => a * b
      | _, _ => Scalar.o
    if t.evalD c != want then
      return viol "prod-not-pointwise" [("choice", jList jNat c), ("got", jScalar (t.evalD c)), ("want", jScalar want)]
  match structOk s with
  | some k => return viol k [("in", Json.str "sum")]
  | none => pure ()
  match structOk t with
  | some k => return viol k [("in", Json.str "prod")]
  | none => pure ()
  pure (ok Json.null)


-- ---------------------------------------------------------------- C20
def triple (j : Json) : R (List String × List String × List String) := do
  pure (← strListOf (← field j "x"), ← strListOf (← field j "y"), ← strListOf (← field j "z"))

def rhoOf (j : Json) : R (String → Nat) := do
  let kvs ← (← fArr j "rho").mapM fun kv => do
    match ← arrOf kv with
    | [k, v] => pure (← strOf k, ← natOf v)
    | _ => throw "bad rho"
  pure fun n => (kvs.lookup n).getD 0

def boundPolyOp (j : Json) : R Json := do
  let (x, y, z) ← triple j
  let compact ← fBool j "compact"
  let e := Bound.boundPoly (Bound.normNames x) (Bound.normNames y) (Bound.normNames z) compact
  pure (ok (Json.mkObj [("text", Json.str (String.ofList e.render)),
    ("str", Json.str (String.ofList (Bound.boundStr (Bound.normNames x) (Bound.normNames y) (Bound.normNames z)))),
    ("significant", Json.bool (Bound.significantShown ((← fStr j "k")) (Bound.normNames x) (Bound.normNames y) (Bound.normNames z)))]))

def boundParseOp (j : Json) : R Json := do
  let s ← fStr j "s"
  pure (ok (jList (jList (fun cs => Json.str (String.ofList cs))) (Bound.parse s.toList)))

/-- C20 predicate: `text` (printed by pymwp for lists x,y,z) must denote max(x⃗,Σy⃗)+Πz⃗ at every given valuation. -/
def checkC20 (j : Json) : R Json := do
  let (x, y, z) ← triple j
  let text ← fStr j "text"
  let rhos ← fArr j "rhos"
  for rj in rhos do
    let ρ ← rhoOf (Json.mkObj [("rho", rj)])
    match Spec.BoundText.evalText text ρ with
    | none => return viol "not-an-expression" [("text", Json.str text)]
    | some v =>
      let want := Spec.BoundText.specValue x y z ρ
      if v != want then
        return viol "wrong-value" [("text", Json.str text), ("rho", rj), ("got", jNat v), ("want", jNat want)]
  pure (ok Json.null)


-- ---------------------------------------------------------------- C11
def nodeOf (j : Json) : R DG.Node := do (← arrOf j).mapM deltaOf
def jNode (n : DG.Node) : Json := jList jDelta n
def jGraph (g : DG.Graph) : Json :=
  jList (fun (sz, lvl) => Json.arr #[jNat sz,
    jList (fun (n, adj) => Json.arr #[jNode n, jList (fun (m, l) => Json.arr #[jNode m, jNat l]) adj]) lvl]) g

def dgOpOf (j : Json) : R DG.Op := do
  match ← arrOf j with
  | [k] => if (← strOf k) == "f" then pure .fuse else throw "bad op"
  | [k, n] => if (← strOf k) == "i" then pure (.insert (← nodeOf n)) else throw "bad op"
  | _ => throw "bad op"

/-- run a history; report state after every op (or the error kind, after which the history stops) -/
def dgHistory (j : Json) : R Json := do
  let ops ← (← fArr j "ops").mapM dgOpOf
  let mut g : DG.Graph := []
  let mut outs : Array Json := #[]
  for op in ops do
    match DG.step g op with
    | .ok g' =>
      g := g'
      outs := outs.push (Json.mkObj [("graph", jGraph g), ("empty", Json.bool (DG.isEmpty g))])
    | .error e =>
      outs := outs.push (Json.mkObj [("raised", Json.str e)])
      break
  pure (ok (Json.arr outs))

/-- C11 predicate: given the inserted tuples and the number of indices, is every choice
    vector in {0,1,2}^n matched by some inserted tuple?  Returns an unmatched vector if not. -/
def checkC11 (j : Json) : R Json := do
  let tuples ← (← fArr j "tuples").mapM nodeOf
  let n ← fNat j "n"
  for c in allChoices 3 n do
    if !(tuples.any fun t => t.all fun d => c[d.2]? == some d.1) then
      return viol "collapsed-but-valid-choice-remains" [("choice", jList jNat c)]
  pure (ok Json.null)


-- ---------------------------------------------------------------- C04
def allVectors (domain : List Nat) : Nat → List (List Nat)
  | 0 => [[]]
  | n + 1 => domain.flatMap fun v => (allVectors domain n).map (v :: ·)

def seqsOf (j : Json) : R (List Choices.Seq) := do (← arrOf j).mapM nodeOf
def jVects (vs : List Choices.Vect) : Json := jList (jList (jList jNat)) vs
def vectsOf (j : Json) : R (List Choices.Vect) := do
  (← arrOf j).mapM fun v => do (← arrOf v).mapM natListOf

/-- brute-force complement: vectors of domain^index matching none of the sequences -/
def avoidSet (domain : List Nat) (index : Nat) (inf : List Choices.Seq) : List (List Nat) :=
  (allVectors domain index).filter fun v => !(inf.any (Choices.matchesSeq · v))

def choicesModel (j : Json) : R Json := do
  let domain ← natListOf (← field j "domain"); let index ← fNat j "index"
  let inf ← seqsOf (← field j "inf")
  match Choices.generate domain index inf with
  | .error e => pure (ok (Json.mkObj [("raised", Json.str e)]))
  | .ok c =>
    let accepted := (allVectors domain index).filter (Choices.isValid c)
    let first := match Choices.first c with
      | .error e => Json.mkObj [("raised", Json.str e)]
      | .ok none => Json.null
      | .ok (some f) => jList jNat f
    pure (ok (Json.mkObj [("valid", jVects c.valid), ("accepted", jList (jList jNat) accepted),
      ("infinite", Json.bool (Choices.infinite c)), ("first", first),
      ("all", jList (jList jNat) (Choices.all c))]))

def choicesIntersect (j : Json) : R Json := do
  let domain ← natListOf (← field j "domain"); let index ← fNat j "index"
  let a ← vectsOf (← field j "a"); let b ← vectsOf (← field j "b")
  let c := Choices.intersection (Choices.mk a index) (Choices.mk b index)
  pure (ok (Json.mkObj [("valid", jVects c.valid),
    ("accepted", jList (jList jNat) ((allVectors domain index).filter (Choices.isValid c)))]))

/-- C04 predicate on implementation observations (all lists of vectors sorted by the harness). -/
def checkC04 (j : Json) : R Json := do
  let domain ← natListOf (← field j "domain"); let index ← fNat j "index"
  let inf ← seqsOf (← field j "inf")
  let want := avoidSet domain index inf
  let acc ← (← fArr j "accepted").mapM natListOf
  let alls ← (← fArr j "all").mapM natListOf
  let infinite ← fBool j "infinite"
  let missing := want.filter (fun v => !acc.contains v)
  let extra := acc.filter (fun v => !want.contains v)
  if let v :: _ := missing then return viol "valid-vector-rejected" [("vector", jList jNat v), ("by", Json.str "is_valid")]
  if let v :: _ := extra then return viol "failing-vector-accepted" [("vector", jList jNat v), ("by", Json.str "is_valid")]
  if let v :: _ := want.filter (fun v => !alls.contains v) then
    return viol "valid-vector-rejected" [("vector", jList jNat v), ("by", Json.str "all")]
  if let v :: _ := alls.filter (fun v => !want.contains v) then
    return viol "failing-vector-accepted" [("vector", jList jNat v), ("by", Json.str "all")]
  if infinite != want.isEmpty then
    return viol "infinite-flag-wrong" [("infinite", Json.bool infinite), ("n_valid", jNat want.length)]
  match fOpt j "first" with
  | some f =>
    let fv ← natListOf f
    if !want.contains fv then return viol "first-not-valid" [("first", f)]
  | none =>
    if !want.isEmpty then return viol "first-missing" []
  pure (ok (Json.mkObj [("n_valid", jNat want.length)]))


-- ---------------------------------------------------------------- syntax / analysis
def jStrs (l : List String) : Json := jList Json.str l
def jRaised (e : String) : Json := ok (Json.mkObj [("raised", Json.str e)])
def jMatrix (m : Matrix) : Json := jList (jList jPoly) m
def jRelation (r : Relation) : Json := Json.mkObj [("vars", jStrs r.vars), ("mat", jMatrix r.mat)]
def relationOf (j : Json) : R Relation := do
  let vars ← strListOf (← field j "vars")
  let mat ← (← fArr j "mat").mapM fun row => do (← arrOf row).mapM polyOf
  pure ⟨vars, mat⟩
def jSMat (m : List (List Scalar)) : Json := jList (fun row => Json.str (String.join (row.map Scalar.toStr))) m
def smatOf (j : Json) : R (List (List Scalar)) := do
  (← arrOf j).mapM fun row => do
    let s ← strOf row
    s.toList.mapM fun ch => match Scalar.ofStr? (String.singleton ch) with
      | some x => pure x
      | none => throw "bad scalar char"

def variablesOp (j : Json) : R Json := do
  let n ← nodeOfJson (← field j "ast")
  match Syntax.variables n with
  | .ok vs => pure (ok (jStrs vs))
  | .error e => pure (jRaised e)

def coverageOp (j : Json) : R Json := do
  let n ← nodeOfJson (← field j "ast")
  match Syntax.coverage n with
  | .ok (k, m) => pure (ok (Json.mkObj [("omit", jNat k), ("mod", jNodeAst m)]))
  | .error e => pure (jRaised e)

def findLoopsOp (j : Json) : R Json := do
  let n ← nodeOfJson (← field j "ast")
  match Syntax.loopsN n with
  | .ok ls => pure (ok (jList jNodeAst ls))
  | .error e => pure (jRaised e)

def loopCompatOp (j : Json) : R Json := do
  let n ← nodeOfJson (← field j "ast")
  match Syntax.loopCompat n with
  | .ok (b, x) => pure (ok (Json.arr #[Json.bool b, match x with | some s => Json.str s | none => Json.null]))
  | .error e => pure (jRaised e)

/-- accepted choice vectors of a Choices object, all of 3^index (callers keep index small) -/
def acceptedOf (c : Choices.T) (index : Nat) : List (List Nat) :=
  (allVectors Gen.domain index).filter (Choices.isValid c)

def funcResJson (r : Analysis.FuncRes) (tabulate : Bool) : Json :=
  let acc := match r.choices with
    | some c => if tabulate && r.index ≤ 7 then jList (jList jNat) (acceptedOf c r.index) else Json.null
    | none => Json.null
  Json.mkObj [
    ("name", Json.str r.name), ("infinite", Json.bool r.infinite), ("variables", jStrs r.variables),
    ("relation", match r.relation with | some rel => jRelation rel | none => Json.null),
    ("has_choices", Json.bool r.choices.isSome), ("accepted", acc),
    ("index", jNat r.index),
    ("inf_flows", match r.infFlows with | some s => Json.str s | none => Json.null),
    ("skipped", jStrs r.skipped)]

def funcOp (j : Json) : R Json := do
  let n ← nodeOfJson (← field j "ast")
  let stop ← fBool j "stop"
  let tabulate := (fOpt j "tabulate").isSome
  match Analysis.func n stop with
  | .error e => pure (jRaised e)
  | .ok r => pure (ok (funcResJson r tabulate))

/-- file level: `Analysis.run` over the function definitions of a file -/
def runFileOp (j : Json) : R Json := do
  let fs ← (← arrOf (← field j "asts")).mapM nodeOfJson
  let fin ← fBool j "fin"
  let strict ← fBool j "strict"
  match Run.run fs fin strict with
  | .error e => pure (jRaised e)
  | .ok rs => pure (ok (jList (fun (e : String × Analysis.FuncRes) => Json.arr #[Json.str e.1, funcResJson e.2 true]) rs))

def boundAtOp (j : Json) : R Json := do
  let r ← relationOf (← field j "relation")
  let c ← natListOf (← field j "choice")
  pure (ok (jList (fun (v, x, y, z) => Json.arr #[Json.str v, jStrs x, jStrs y, jStrs z]) (Analysis.boundAt r c)))

def applyChoiceOp (j : Json) : R Json := do
  let r ← relationOf (← field j "relation")
  let c ← natListOf (← field j "choice")
  pure (ok (jSMat (r.applyChoice c)))

/-- spec: desugar + table of sem over all 3^arity choices -/
def semTableOp (j : Json) : R Json := do
  let n ← nodeOfJson (← field j "ast")
  let U ← strListOf (← field j "vars")
  match Spec.desugarFunc n with
  | none => pure (ok (Json.mkObj [("supported", Json.bool false)]))
  | some cmd =>
    let k := cmd.arity
    let table := (Spec.allChoices k).map fun c =>
      match Spec.sem U cmd 0 c with
      | some (_, m) => jSMat m
      | none => Json.null
    pure (ok (Json.mkObj [("supported", Json.bool true), ("arity", jNat k), ("table", Json.arr table.toArray)]))

def columnsOf (U : List String) (m : List (List Scalar)) : List (String × List String × List String × List String) :=
  (U.zipIdx).map fun (name, col) =>
    (name, Bound.columnTriple ((U.zipIdx).map fun (rv, row) => (rv, (m.getD row []).getD col .o)))

/-- C01/C02/C15 predicate on what the implementation reported for one function.
    Fields: ast, vars (reported variables), infinite, index, and when not infinite:
    valid = string over '0'/'1' for all 3^index choices (lexicographic), mats = list of
    [choice, matrix] pairs obtained with the implementation's apply_choice, first, bound. -/
def checkFunc (j : Json) : R Json := do
  let n ← nodeOfJson (← field j "ast")
  let U ← strListOf (← field j "vars")
  let infinite ← fBool j "infinite"
  let index ← fNat j "index"
  match Spec.desugarFunc n with
  | none => pure (ok (Json.mkObj [("supported", Json.bool false)]))
  | some cmd =>
    let k := cmd.arity
    let early := (fOpt j "early_exit").isSome
    if !early && k != index then
      return viol "index-differs" [("reported", jNat index), ("binary_operations", jNat k)]
    let cs := Spec.allChoices k
    let table := cs.map fun c => (c, Spec.sem U cmd 0 (Spec.relabel cmd c))
    let derivable := table.filter (fun x => x.2.isSome)
    if infinite then
      match derivable with
      | (c, _) :: _ => return viol "reported-infinite-but-derivation-exists" [("choice", jList jNat c)]
      | [] => return ok (Json.mkObj [("supported", Json.bool true), ("n_derivable", jNat 0), ("arity", jNat k)])
    if derivable.isEmpty then
      return viol "reported-finite-but-no-derivation" []
    let valid ← fStr j "valid"
    let flags := valid.toList
    if flags.length != cs.length then throw "valid string has wrong length"
    for ((c, m), f) in table.zip flags do
      if f == '1' && m.isNone then
        return viol "valid-choice-not-derivable" [("choice", jList jNat c)]
      if f == '0' && m.isSome then
        return viol "derivable-choice-rejected" [("choice", jList jNat c)]
    for pair in ← fArr j "mats" do
      match ← arrOf pair with
      | [cj, mj] =>
        let c ← natListOf cj
        let got ← smatOf mj
        match Spec.sem U cmd 0 (Spec.relabel cmd c) with
        | some (_, want) =>
          if got != want then
            return viol "matrix-differs" [("choice", cj), ("got", jSMat got), ("want", jSMat want)]
        | none => pure ()
      | _ => throw "bad mats entry"
    match fOpt j "first", fOpt j "bound" with
    | some fj, some bj =>
      let f ← natListOf fj
      match Spec.sem U cmd 0 (Spec.relabel cmd f) with
      | none => return viol "first-choice-not-derivable" [("choice", fj)]
      | some (_, m) =>
        let want := columnsOf U m
        let got ← (← arrOf bj).mapM fun e => do
          match ← arrOf e with
          | [v, x, y, z] => pure (← strOf v, ← strListOf x, ← strListOf y, ← strListOf z)
          | _ => throw "bad bound entry"
        if got != want then
          return viol "bound-differs" [("first", fj),
            ("want", jList (fun (v, x, y, z) => Json.arr #[Json.str v, jStrs x, jStrs y, jStrs z]) want)]
    | _, _ => pure ()
    pure (ok (Json.mkObj [("supported", Json.bool true), ("n_derivable", jNat derivable.length), ("arity", jNat k)]))


/-- C15 predicate: the choice object accepts exactly the vectors at which the reported relation
    has no ∞ (relation and flags as reported by the implementation). -/
def checkC15 (j : Json) : R Json := do
  let r ← relationOf (← field j "relation")
  let index ← fNat j "index"
  let flags := (← fStr j "valid").toList
  let cs := Spec.allChoices index
  if flags.length != cs.length then throw "valid string has wrong length"
  for (c, f) in cs.zip flags do
    let inf := r.mat.any fun row => row.any fun p => p.evalD c == .i
    if f == '1' && inf then return viol "accepted-choice-has-infinity" [("choice", jList jNat c)]
    if f == '0' && !inf then return viol "rejected-choice-has-no-infinity" [("choice", jList jNat c)]
  -- inf_flows names only pairs whose cell can be infinite
  match fOpt j "flow_pairs" with
  | some fp =>
    for pr in ← arrOf fp do
      match ← arrOf pr with
      | [a, b] =>
        let x ← strOf a; let y ← strOf b
        match r.vars.idxOf? x, r.vars.idxOf? y with
        | some i, some k =>
          if !(Matrix.get r.mat i k).someInfty then
            return viol "flow-pair-without-infinity" [("src", a), ("tgt", b)]
        | _, _ => return viol "flow-pair-unknown-variable" [("src", a), ("tgt", b)]
      | _ => throw "bad pair"
  | none => pure ()
  pure (ok Json.null)


-- ---------------------------------------------------------------- C10
def relOps (j : Json) : R Json := do
  let r1 ← relationOf (← field j "r1"); let r2 ← relationOf (← field j "r2")
  let fx := match Relation.fixpoint r1 with
    | .ok f => jRelation f
    | .error e => Json.mkObj [("raised", Json.str e)]
  pure (ok (Json.mkObj [("sum", jRelation (Relation.sum r1 r2)),
    ("composition", jRelation (Relation.composition r1 r2)), ("fixpoint", fx)]))

/-- C10 predicate on implementation results: s = r1 + r2, t = r1 * r2, f = fixpoint(r1),
    tabulated over all 3^n choice vectors with the DOCUMENTED semiring tables. -/
def checkC10 (j : Json) : R Json := do
  let r1 ← relationOf (← field j "r1"); let r2 ← relationOf (← field j "r2")
  let s ← relationOf (← field j "sum"); let t ← relationOf (← field j "composition")
  let n ← fNat j "n"
  let U := r1.vars ++ r2.vars.filter (fun v => !r1.vars.contains v)
  for c in Spec.allChoices n do
    let inf1 := U.any fun x => U.any fun y => r1.den c x y == .i
    let inf2 := U.any fun x => U.any fun y => r2.den c x y == .i
    for x in U do
      for y in U do
        let ws := Spec.docSum (r1.den c x y) (r2.den c x y)
        if s.den c x y != ws then
          return viol "sum-differs" [("choice", jList jNat c), ("x", Json.str x), ("y", Json.str y),
            ("got", jScalar (s.den c x y)), ("want", jScalar ws)]
        let wt := Spec.SMat.sumS (U.map fun k => Spec.docProd (r1.den c x k) (r2.den c k y))
        if t.den c x y != wt then
          return viol (if inf1 || inf2 then "composition-differs-at-infinite-choice" else "composition-differs")
            [("choice", jList jNat c), ("x", Json.str x), ("y", Json.str y),
             ("got", jScalar (t.den c x y)), ("want", jScalar wt)]
    if (inf1 || inf2) && !(U.any fun x => U.any fun y => t.den c x y == .i) then
      return viol "composition-loses-infinity" [("choice", jList jNat c)]
    if (inf1 || inf2) && !(U.any fun x => U.any fun y => s.den c x y == .i) then
      return viol "sum-loses-infinity" [("choice", jList jNat c)]
  match fOpt j "fixpoint" with
  | some fj =>
    let f ← relationOf fj
    if f.vars != r1.vars then return viol "fixpoint-variables-differ" []
    for c in Spec.allChoices n do
      let want := Spec.SMat.closure (r1.toSMat c)
      if f.toSMat c != want then
        return viol "fixpoint-is-not-closure" [("choice", jList jNat c), ("got", jSMat (f.toSMat c)), ("want", jSMat want)]
  | none => pure ()
  pure (ok Json.null)


/-- equal meaning of two relations: same ∞-status at every one of the 3^n choices and equal
    matrices at the ∞-free ones, over the union of their variables -/
def checkRelEq (j : Json) : R Json := do
  let a ← relationOf (← field j "a"); let b ← relationOf (← field j "b")
  let n ← fNat j "n"
  let U := a.vars ++ b.vars.filter (fun v => !a.vars.contains v)
  for c in Spec.allChoices n do
    let infA := U.any fun x => U.any fun y => a.den c x y == .i
    let infB := U.any fun x => U.any fun y => b.den c x y == .i
    if infA != infB then
      return viol "infinity-status-differs" [("choice", jList jNat c), ("a", Json.bool infA), ("b", Json.bool infB)]
    for x in U do
      for y in U do
        if !infA && a.den c x y != b.den c x y then
          return viol "meaning-differs" [("choice", jList jNat c), ("x", Json.str x), ("y", Json.str y),
            ("a", jScalar (a.den c x y)), ("b", jScalar (b.den c x y))]
  pure (ok Json.null)


-- ---------------------------------------------------------------- C05 / C07 / C19
def locOp (j : Json) : R Json := do
  let text ← fStr j "text"
  -- lexically closed C text: comments / literals terminated, no raw newline inside a literal
  let (final, nlInLit) := text.toList.foldl (fun (acc : (Spec.LexSt × Bool × Nat) × Bool) c =>
      let st := acc.1
      let inLit := st.1 == .str || st.1 == .chr || st.1 == .strEsc || st.1 == .chrEsc
      (Spec.locStep st.1 st.2.1 st.2.2 c, acc.2 || (inLit && c == '\n'))) ((.code, false, 0), false)
  let closed := (final.1 == .code || final.1 == .lineComment || final.1 == .slash) && !nlInLit
  pure (ok (Json.mkObj [("loc", jNat (Spec.loc text)), ("closed", Json.bool closed)]))

def countLoopsOp (j : Json) : R Json := do
  let ns ← (← fArr j "asts").mapM nodeOfJson
  pure (ok (jNat ((ns.map fun n => (Spec.allLoops Spec.countedFor n).length).foldl (· + ·) 0)))

def allLoopsOp (j : Json) : R Json := do
  let n ← nodeOfJson (← field j "ast")
  pure (ok (jList jNodeAst (Spec.allLoops Spec.countedFor n)))

/-- C05 predicate: `full` and `warnings` are what the implementation reported for this function
    (syntax check verdict; "Unsupported syntax" warnings of the analysis). -/
def checkC05 (j : Json) : R Json := do
  let n ← nodeOfJson (← field j "ast")
  let full ← fBool j "full"
  let warnings ← strListOf (← field j "warnings")
  if !full then return ok (Json.mkObj [("full", Json.bool false)])
  if let w :: _ := Spec.unmodellable n then
    return viol "fully-supported-but-not-modellable" [("construct", Json.str w)]
  if let w :: _ := Spec.effectfulConds n then
    return viol "side-effect-in-condition-treated-as-effect-free" [("in", Json.str w)]
  -- every statement is readable; the only statements the analysis may skip are effect-free
  -- expression statements (`x;`, `1;`, `x + y;`)
  if warnings.length > Spec.effectFreeStmts n then
    return viol "fully-supported-but-statement-skipped" [("warning", Json.str (warnings.headD "")),
      ("n_warnings", jNat warnings.length), ("n_effect_free_statements", jNat (Spec.effectFreeStmts n))]
  pure (ok (Json.mkObj [("full", Json.bool true)]))


-- ---------------------------------------------------------------- C08 (loop mode)
def loopInspectOp (j : Json) : R Json := do
  let n ← nodeOfJson (← field j "ast")
  let pick ← match fOpt j "pick" with
    | some p => pure (some (← natListOf p))
    | none => pure none
  match LoopAnalysis.inspectRel n with
  | .error e => pure (jRaised e)
  | .ok (rel, index, infty) =>
    match LoopAnalysis.inspect n pick with
    | .error e => pure (jRaised e)
    | .ok vs =>
      pure (ok (Json.mkObj [("index", jNat index), ("infty", Json.bool infty), ("relation", jRelation rel),
        ("vars", jList (fun (v : LoopAnalysis.VRes) => Json.mkObj [("name", Json.str v.name),
          ("flags", Json.arr #[Json.bool v.isM, Json.bool v.isW, Json.bool v.isP]),
          ("accepted", match v.choices with
            | some c => if index ≤ 6 then jList (jList jNat) (acceptedOf c index) else Json.null
            | none => Json.null)]) vs)]))

def vresJson (index : Nat) (v : LoopAnalysis.VRes) : Json :=
  Json.mkObj [("name", Json.str v.name),
    ("flags", Json.arr #[Json.bool v.isM, Json.bool v.isW, Json.bool v.isP]),
    ("accepted", match v.choices with
      | some c => if index ≤ 6 then jList (jList jNat) (acceptedOf c index) else Json.null
      | none => Json.null)]

/-- file level: `LoopAnalysis.run` over the function definitions of a file: which loops are
    analysed, on which tree -/
def runLoopsOp (j : Json) : R Json := do
  let fs ← (← arrOf (← field j "asts")).mapM nodeOfJson
  let strict ← fBool j "strict"
  match Run.runLoops fs strict with
  | .error e => pure (jRaised e)
  | .ok rs =>
    pure (ok (jList (fun (e : String × List Node) => Json.arr #[Json.str e.1, jList jNodeAst e.2]) rs))

def classOfColumn (col : List Scalar) : Scalar := col.foldl Spec.docSum .o

/-- C08 predicate on what loop mode reported for ONE loop (analysed on its own). -/
def checkC08 (j : Json) : R Json := do
  let n ← nodeOfJson (← field j "ast")
  let U ← strListOf (← field j "vars")
  let index ← fNat j "index"
  match Spec.desugar n with
  | none => pure (ok (Json.mkObj [("supported", Json.bool false)]))
  | some cmd =>
    if cmd.arity != index then return viol "index-differs" [("reported", jNat index), ("binary_operations", jNat cmd.arity)]
    let cs := Spec.allChoices index
    let mats := cs.map fun c => (c, (Spec.semI U cmd 0 (Spec.relabel cmd c)).2)
    for rj in ← fArr j "results" do
      let name ← fStr rj "name"
      let fl ← (← fArr rj "flags").mapM boolOf
      let (isM, isW, isP) := match fl with
        | [a, b, c] => (a, b, c)
        | _ => (false, false, false)
      if (isM && !isW) || (isW && !isP) then
        return viol "flags-not-nested" [("variable", Json.str name)]
      let vi := Spec.idxOf U name
      if isP then
        let flags := (← fStr rj "valid").toList
        if flags.length != cs.length then throw "valid string has wrong length"
        let bound ← match fOpt rj "bound" with
          | some b => match ← arrOf b with
            | [x, y, z] => pure (← strListOf x, ← strListOf y, ← strListOf z)
            | _ => throw "bad bound"
          | none => return viol "bounded-without-bound" [("variable", Json.str name)]
        let cls : Scalar := if isM then .m else if isW then .w else .p
        -- a reported choice whose derivation is failure-free for the variable and its ancestors,
        -- whose column is the reported bound and whose largest coefficient is the reported class
        let reported := (mats.zip flags).filter (fun x => x.2 == '1') |>.map (·.1)
        let good := reported.filter fun (_, m) =>
          Spec.okFor m vi &&
          (columnsOf U m).lookup name == some bound &&
          (let k := classOfColumn (Spec.SMat.column m vi); (if k == .o then Scalar.m else k) == cls)
        if good.isEmpty then
          let ownOk := reported.filter fun (_, m) => (Spec.SMat.column m vi).all (· != .i)
          let depOk := reported.filter fun (_, m) => Spec.okFor m vi
          let kind :=
            if reported.isEmpty then "bounded-without-reported-choice"
            else if ownOk.isEmpty then "bounded-but-column-fails-at-every-reported-choice"
            else if depOk.isEmpty then "bound-ignores-failing-dependency"
            else "bound-or-class-matches-no-valid-derivation"
          -- does the variable depend (at a reported choice) on a variable whose column fails at EVERY
          -- choice?  (that is what maybe_result's dependency test is there to exclude; a dependency on
          -- a variable that fails only at the chosen vector is the known get_result defect)
          let alwaysFails (u : Nat) : Bool := mats.all fun (_, m) => (Spec.SMat.column m u).any (· == .i)
          let ancAlways := reported.any fun (_, m) => (Spec.ancestors m vi).any alwaysFails
          return viol kind [("variable", Json.str name), ("ancestor_always_fails", Json.bool ancAlways),
            ("example_choice", match reported with | (c, _) :: _ => jList jNat c | [] => Json.null)]
    pure (ok (Json.mkObj [("supported", Json.bool true)]))


-- ---------------------------------------------------------------- C17
def cliOp (j : Json) : R Json := do
  let argv ← strListOf (← field j "argv")
  match Cli.plan argv with
  | .error e => pure (jRaised e)
  | .ok p => pure (ok (Json.mkObj [("input", Json.str p.input), ("loop_mode", Json.bool p.loopMode),
      ("fin", Json.bool p.fin), ("strict", Json.bool p.strict), ("use_cpp", Json.bool p.useCpp),
      ("save", match p.save with | some s => Json.str s | none => Json.null)]))


-- ---------------------------------------------------------------- C03
def jPolyN (q : Spec.PolyN) : Json := Json.str (" + ".intercalate (q.map fun m => if m.isEmpty then "1" else "*".intercalate m))

/-- C03 predicate: every reported bound (one list of (variable, max, weak, poly) per valid choice)
    must be respected, in the sense of `Spec.Shape`, by the exact final values along every path. -/
def checkC03 (j : Json) : R Json := do
  let n ← nodeOfJson (← field j "ast")
  match Spec.desugarFunc n with
  | none => pure (ok (Json.mkObj [("supported", Json.bool false)]))
  | some cmd =>
    let paths ← (← fArr j "paths").mapM natListOf
    let bounds ← (← fArr j "bounds").mapM fun b => do
      let choice ← natListOf (← field b "choice")
      let entries ← (← fArr b "bound").mapM fun e => do
        match ← arrOf e with
        | [v, x, y, z] => pure (← strOf v, ← strListOf x, ← strListOf y, ← strListOf z)
        | _ => throw "bad bound entry"
      pure (choice, entries)
    let mut executed := 0
    for path in paths do
      match Spec.exec 200 cmd path [] with
      | none => pure ()
      | some (_, store) =>
        executed := executed + 1
        for (choice, entries) in bounds do
          for (v, x, y, z) in entries do
            let q := Spec.Store.get store v
            if !Spec.Shape q x y z then
              return viol "execution-exceeds-bound" [("variable", Json.str v), ("choice", jList jNat choice),
                ("path", jList jNat path), ("final_value", jPolyN q),
                ("bound", Json.arr #[jStrs x, jStrs y, jStrs z])]
    pure (ok (Json.mkObj [("supported", Json.bool true), ("executed_paths", jNat executed)]))

/-- exact execution along one path: for each listed variable the number of monomials (with
    multiplicity) of its final value -- used to see which values keep growing with a loop count -/
def execSizes (j : Json) : R Json := do
  let n ← nodeOfJson (← field j "ast")
  let path ← natListOf (← field j "path")
  let vars ← strListOf (← field j "vars")
  match Spec.desugarFunc n with
  | none => pure (ok (Json.mkObj [("supported", Json.bool false)]))
  | some cmd =>
    match Spec.exec 400 cmd path [] with
    | none => pure (ok (Json.mkObj [("supported", Json.bool true), ("executed", Json.bool false)]))
    | some (_, store) =>
      pure (ok (Json.mkObj [("supported", Json.bool true), ("executed", Json.bool true),
        ("sizes", jList (fun v => Json.arr #[Json.str v, jNat (Spec.Store.get store v).length]) vars)]))

end Ops

def dispatch (op : String) (j : Json) : R Json :=
  match op with
  | "ping" => pure (ok (Json.str "pong"))
  | "model.poly_add" => Ops.polyAdd j
  | "model.poly_times" => Ops.polyTimes j
  | "model.poly_table" => Ops.polyTable j
  | "model.mono_prod" => Ops.monoProd j
  | "model.mono_new" => Ops.monoNew j
  | "check.C09" => Ops.checkC09 j
  | "model.variables" => Ops.variablesOp j
  | "model.coverage" => Ops.coverageOp j
  | "model.find_loops" => Ops.findLoopsOp j
  | "model.loop_compat" => Ops.loopCompatOp j
  | "model.func" => Ops.funcOp j
  | "model.run_file" => Ops.runFileOp j
  | "model.run_loops" => Ops.runLoopsOp j
  | "model.bound_at" => Ops.boundAtOp j
  | "model.apply_choice" => Ops.applyChoiceOp j
  | "spec.sem_table" => Ops.semTableOp j
  | "check.func" => Ops.checkFunc j
  | "check.C15" => Ops.checkC15 j
  | "model.rel_ops" => Ops.relOps j
  | "spec.loc" => Ops.locOp j
  | "spec.all_loops" => Ops.allLoopsOp j
  | "spec.count_loops" => Ops.countLoopsOp j
  | "check.C05" => Ops.checkC05 j
  | "model.loop_inspect" => Ops.loopInspectOp j
  | "check.C08" => Ops.checkC08 j
  | "model.cli" => Ops.cliOp j
  | "model.result_roundtrip" => Mwp.Wire.resultRoundtripOp j
  | "check.C03" => Ops.checkC03 j
  | "spec.exec_sizes" => Ops.execSizes j
  | "check.C10" => Ops.checkC10 j
  | "check.C10eq" => Ops.checkRelEq j
  | "model.choices" => Ops.choicesModel j
  | "model.choices_intersect" => Ops.choicesIntersect j
  | "check.C04" => Ops.checkC04 j
  | "model.dg_history" => Ops.dgHistory j
  | "check.C11" => Ops.checkC11 j
  | "model.bound_poly" => Ops.boundPolyOp j
  | "model.bound_parse" => Ops.boundParseOp j
  | "check.C20" => Ops.checkC20 j
  | _ => throw s!"unknown op {op}"

def handle (line : String) : String :=
  match Json.parse line with
  | .error e => (Json.mkObj [("error", Json.str s!"parse: {e}")]).compress
  | .ok j =>
    match (do let op ← fStr j "op"; dispatch op j) with
    | .ok r => r.compress
    | .error e => (Json.mkObj [("error", Json.str e)]).compress

partial def loop (h : IO.FS.Stream) (out : IO.FS.Stream) : IO Unit := do
  let line ← h.getLine
  if line.isEmpty then return ()
  let t := line.trimAscii.toString
  if !t.isEmpty then
    out.putStrLn (handle t)
    out.flush
  loop h out

def main : IO Unit := do loop (← IO.getStdin) (← IO.getStdout)
