/-
  mwpdrv: JSON-lines server.  One request object per input line, one response
  object per output line.  `model.*` ops run the executable model, `spec.*`
  the reference semantics, `check.*` evaluate a property's specification-side
  predicate on observations made on the real implementation.
-/
import Mwp.Wire
open Lean Mwp Mwp.Wire

def ok (v : Json) : Json := Json.mkObj [("ok", v)]
def viol (kind : String) (extra : List (String × Json)) : Json :=
  Json.mkObj [("violation", Json.mkObj (("kind", Json.str kind) :: extra))]

namespace Ops

def polyAdd (j : Json) : R Json := do
  let p ← polyOf (← field j "p"); let q ← polyOf (← field j "q")
  pure (ok (jPoly (Poly.add p q)))

def polyTimes (j : Json) : R Json := do
  let p ← polyOf (← field j "p"); let q ← polyOf (← field j "q")
  pure (ok (jPoly (Poly.times p q)))

def polyTable (j : Json) : R Json := do
  let p ← polyOf (← field j "p"); let n ← fNat j "n"
  pure (ok (jList (fun c => jOptScalar (p.eval? c)) (allChoices 3 n)))

def monoProd (j : Json) : R Json := do
  let a ← monoOf (← field j "a"); let b ← monoOf (← field j "b")
  pure (ok (jMono (a.prod b)))

def monoNew (j : Json) : R Json := do
  let a ← monoOf (← field j "a")
  pure (ok (jMono (Mono.new a.scalar a.deltas)))

/-- structural clause of C09: no two terms with the same delta list, no zero term alongside others -/
def structOk (p : Poly) : Option String :=
  let ds := p.map (·.deltas)
  if ds.eraseDups.length != ds.length then some "duplicate-delta-list"
  else if p.length > 1 && p.any (fun m => m.scalar == .o) then some "zero-term-alongside-others"
  else none

/-- C09 predicate on implementation observations: p, q operands; s = p+q, t = p*q as
    returned by pymwp; n = number of indices. -/
def checkC09 (j : Json) : R Json := do
  let p ← polyOf (← field j "p"); let q ← polyOf (← field j "q")
  let s ← polyOf (← field j "sum"); let t ← polyOf (← field j "prod")
  let n ← fNat j "n"
  for c in allChoices 3 n do
    let vp := p.evalD c; let vq := q.evalD c
    if s.evalD c != vp + vq then
      return viol "sum-not-pointwise" [("choice", jList jNat c), ("got", jScalar (s.evalD c)), ("want", jScalar (vp + vq))]
    let want := match p.eval? c, q.eval? c with
      | some a, some b => a * b
      | _, _ => Scalar.o
    if t.evalD c != want then
      return viol "prod-not-pointwise" [("choice", jList jNat c), ("got", jScalar (t.evalD c)), ("want", jScalar want)]
  match structOk s with
  | some k => return viol k [("in", Json.str "sum")]
  | none => pure ()
  match structOk t with
  | some k => return viol k [("in", Json.str "prod")]
  | none => pure ()
  pure (ok Json.null)

end Ops

def dispatch (op : String) (j : Json) : R Json :=
  match op with
  | "ping" => pure (ok (Json.str "pong"))
  | "model.poly_add" => Ops.polyAdd j
  | "model.poly_times" => Ops.polyTimes j
  | "model.poly_table" => Ops.polyTable j
  | "model.mono_prod" => Ops.monoProd j
  | "model.mono_new" => Ops.monoNew j
  | "check.C09" => Ops.checkC09 j
  | _ => throw s!"unknown op {op}"

def handle (line : String) : String :=
  match Json.parse line with
  | .error e => (Json.mkObj [("error", Json.str s!"parse: {e}")]).compress
  | .ok j =>
    match (do let op ← fStr j "op"; dispatch op j) with
    | .ok r => r.compress
    | .error e => (Json.mkObj [("error", Json.str e)]).compress

partial def loop (h : IO.FS.Stream) (out : IO.FS.Stream) : IO Unit := do
  let line ← h.getLine
  if line.isEmpty then return ()
  let t := line.trimAscii.toString
  if !t.isEmpty then
    out.putStrLn (handle t)
    out.flush
  loop h out

def main : IO Unit := do loop (← IO.getStdin) (← IO.getStdout)
