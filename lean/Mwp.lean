import Mwp.Base
import Mwp.Model.Semiring
import Mwp.Gen.Vector
import Mwp.Spec.Semiring
import Mwp.Props.C16
