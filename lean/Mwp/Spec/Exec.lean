/-
  Specification side of C03: exact symbolic execution of constant-free commands (copies, + and ×
  of variables, if/else, while, counted loops) along a path that fixes every branch outcome and
  every iteration count.  With only + and × over ℕ there is no cancellation: the multiset of
  monomials IS the polynomial.  `Shape` is the sentence of the property, verbatim.
-/
import Mwp.Spec.Calculus
namespace Mwp.Spec
open Mwp

/-- a monomial: its variables with multiplicity, sorted -/
abbrev Mon := List Var
/-- a polynomial with natural coefficients: the multiset of its monomials (coefficient = repetition) -/
abbrev PolyN := List Mon

def insertVar (v : Var) : Mon → Mon
  | [] => [v]
  | a :: as => if v ≤ a then v :: a :: as else a :: insertVar v as

def mulMon (a b : Mon) : Mon := a.foldr insertVar b
def addP (p q : PolyN) : PolyN := p ++ q
def mulP' (p q : PolyN) : PolyN := p.flatMap fun a => q.map fun b => mulMon a b

abbrev Store := List (Var × PolyN)
def Store.get (s : Store) (x : Var) : PolyN := (s.lookup x).getD [[x]]
def Store.set (s : Store) (x : Var) (p : PolyN) : Store := (x, p) :: s.filter (·.1 != x)

def atomVal (s : Store) : Atom → Option PolyN
  | .var y => some (s.get y)
  | .const => none     -- constants are outside this specification

/-- a path: the decisions consumed in execution order (branch: 0 = else, otherwise then;
    loop: the number of iterations) -/
abbrev Path := List Nat

mutual
/-- exact execution; `none`: the command leaves the constant-free fragment, or the path runs out.
    `fuel` bounds the unrolling depth. -/
def exec : Nat → Cmd → Path → Store → Option (Path × Store)
  | 0, _, _, _ => none
  | _ + 1, .skip, p, s => some (p, s)
  | _ + 1, .asgnVar x y, p, s => some (p, s.set x (s.get y))
  | _ + 1, .asgnConst _, _, _ => none
  | _ + 1, .bin op x a b, p, s =>
    match atomVal s a, atomVal s b with
    | some va, some vb =>
      if op == "+" then some (p, s.set x (addP va vb))
      else if op == "*" then some (p, s.set x (mulP' va vb))
      else none
    | _, _ => none
  | fuel + 1, .seq l, p, s => execSeq fuel l p s
  | fuel + 1, .ite t f, p, s =>
    match p with
    | [] => none
    | d :: p' => if d == 0 then exec fuel f p' s else exec fuel t p' s
  | fuel + 1, .while_ b, p, s =>
    match p with
    | [] => none
    | n :: p' => execIter fuel b n p' s
  | fuel + 1, .loop _ b, p, s =>
    match p with
    | [] => none
    | n :: p' => execIter fuel b n p' s
def execSeq : Nat → List Cmd → Path → Store → Option (Path × Store)
  | 0, _, _, _ => none
  | _ + 1, [], p, s => some (p, s)
  | fuel + 1, c :: cs, p, s =>
    match exec fuel c p s with
    | none => none
    | some (p', s') => execSeq fuel cs p' s'
def execIter : Nat → Cmd → Nat → Path → Store → Option (Path × Store)
  | 0, _, _, _, _ => none
  | _ + 1, _, 0, p, s => some (p, s)
  | fuel + 1, b, n + 1, p, s =>
    match exec fuel b p s with
    | none => none
    | some (p', s') => execIter fuel b n p' s'
end

/-- The property's sentence about the final value `q` of a variable and its bound `(M, W, P)`. -/
def Shape (q : PolyN) (M W P : List Var) : Bool :=
  -- mentions only variables listed in the bound
  q.all (fun mon => mon.all fun v => M.contains v || W.contains v || P.contains v) &&
  -- a max-listed variable occurs only as the monomial [v] (coefficient one is the next clause)
  q.all (fun mon => mon.all (fun v => !M.contains v) || (mon.length == 1)) &&
  -- never adds two max-listed variables (in particular none twice)
  (q.filter fun mon => mon.any M.contains).length ≤ 1 &&
  -- never adds a max-listed variable to a term containing a weak-listed variable
  ((q.filter fun mon => mon.any M.contains).isEmpty ||
    q.all (fun mon => mon.any M.contains || mon.all (fun v => !W.contains v)))

end Mwp.Spec
