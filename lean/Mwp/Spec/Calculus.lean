/-
  Reference semantics: the mwp flow calculus of Jones & Kristiansen as pymwp documents
  it, POINTWISE -- one plain scalar matrix per choice vector, or failure.  Nothing here
  knows about polynomials, deltas, delta graphs or choice objects.

  * one of three rule alternatives per binary-operation statement (alternative `c[idx]`),
  * composition for sequences, sum for if/else,
  * closure + side condition W for while / do-while (no `p` anywhere, no `w` on the diagonal),
  * closure + rule L for counted loops (diagonal all `m`; then X ->p j whenever some i ->p j).

  Matrices are dense over a fixed universe `U` of variable names; `none` = the derivation
  fails at this choice vector (the code's ∞).
-/
import Mwp.Spec.Semiring
import Mwp.Model.Ast
import Mwp.Model.Syntax
namespace Mwp.Spec
open Mwp

abbrev Var := String
abbrev SMat := List (List Scalar)

inductive Atom where
  | var (x : Var)
  | const
  deriving Repr, DecidableEq, Inhabited

inductive Cmd where
  | skip
  | asgnVar (x y : Var)
  | asgnConst (x : Var)
  | bin (op : String) (x : Var) (a b : Atom)
  | seq (l : List Cmd)
  | ite (t f : Cmd)
  | while_ (b : Cmd)
  | loop (X : Var) (b : Cmd)
  deriving Repr, Inhabited

namespace SMat

def identity (n : Nat) : SMat :=
  (List.range n).map fun i => (List.range n).map fun j => if i == j then Scalar.m else Scalar.o

def get (a : SMat) (i j : Nat) : Scalar := (a.getD i []).getD j .o

def sumS (l : List Scalar) : Scalar := l.foldl docSum .o

def add (a b : SMat) : SMat :=
  (List.range a.length).map fun i => (List.range a.length).map fun j => docSum (get a i j) (get b i j)

def mul (a b : SMat) : SMat :=
  let n := a.length
  (List.range n).map fun i => (List.range n).map fun j =>
    sumS ((List.range n).map fun k => docProd (get a i k) (get b k j))

/-- iterate `S ↦ I ⊕ A·S`, stopping as soon as a round changes nothing -/
def closureFrom (a : SMat) : Nat → SMat → SMat
  | 0, s => s
  | fuel + 1, s =>
    let s' := add (identity a.length) (mul a s)
    if s' == s then s else closureFrom a fuel s'

/-- `I ⊕ A ⊕ A² ⊕ …` : the chain `S₀ = I`, `Sₖ₊₁ = I ⊕ A·Sₖ` is increasing in a lattice of
    height `4·n²`, so `4·n²+1` rounds always reach the limit. -/
def closure (a : SMat) : SMat :=
  closureFrom a (4 * a.length * a.length + 1) (identity a.length)

/-- column `j` replaced by `col` (one scalar per row) -/
def setColumn (a : SMat) (j : Nat) (col : List Scalar) : SMat :=
  (a.zip col).map fun (row, s) => row.set j s

def column (a : SMat) (j : Nat) : List Scalar := a.map fun row => row.getD j .o

end SMat

/-- The three alternatives for `x = a op b`: scalar flowing from operand variable `v`. -/
def operandFlow (op : String) (a b : Atom) (alt : Nat) (v : Var) : Scalar :=
  match a, b with
  | .const, .const => .o
  | .var y, .const => if v == y then .m else .o
  | .const, .var z => if v == z then .m else .o
  | .var y, .var z =>
    if op == "*" then (if v == y || v == z then .w else .o)
    else -- "+" and "-"
      if y == z then (if v == y then (if alt == 2 then .w else .p) else .o)
      else if alt == 0 then (if v == y then .m else if v == z then .p else .o)
      else if alt == 1 then (if v == y then .p else if v == z then .m else .o)
      else (if v == y || v == z then .w else .o)

def idxOf (U : List Var) (x : Var) : Nat := (U.idxOf? x).getD U.length

mutual
/-- `sem U cmd idx c = some (idx', M)`: the matrix the calculus derives for `cmd` when the
    binary operations met from derivation index `idx` on take the alternatives listed in `c`;
    `none` when a loop side condition fails (or `c` is too short). -/
def sem (U : List Var) : Cmd → Nat → Choice → Option (Nat × SMat)
  | .skip, idx, _ => some (idx, SMat.identity U.length)
  | .asgnVar x y, idx, _ =>
    if x == y then some (idx, SMat.identity U.length)
    else some (idx, SMat.setColumn (SMat.identity U.length) (idxOf U x)
      (U.map fun v => if v == y then .m else .o))
  | .asgnConst x, idx, _ =>
    some (idx, SMat.setColumn (SMat.identity U.length) (idxOf U x) (U.map fun _ => .o))
  | .bin op x a b, idx, c =>
    match c[idx]? with
    | none => none
    | some alt =>
      if alt > 2 then none
      else some (idx + 1, SMat.setColumn (SMat.identity U.length) (idxOf U x)
        (U.map fun v => operandFlow op a b alt v))
  | .seq l, idx, c => semSeq U l idx c
  | .ite t f, idx, c =>
    match sem U t idx c with
    | none => none
    | some (i1, a) =>
      match sem U f i1 c with
      | none => none
      | some (i2, b) => some (i2, SMat.add a b)
  | .while_ b, idx, c =>
    match sem U b idx c with
    | none => none
    | some (i1, a) =>
      let s := SMat.closure a
      let n := U.length
      let bad := (List.range n).any fun i => (List.range n).any fun j =>
        SMat.get s i j == .p || (i == j && SMat.get s i j == .w)
      if bad then none else some (i1, s)
  | .loop X b, idx, c =>
    match sem U b idx c with
    | none => none
    | some (i1, a) =>
      let s := SMat.closure a
      let n := U.length
      let bad := (List.range n).any fun i => SMat.get s i i != .m
      if bad then none
      else
        let ell := idxOf U X
        -- X ->p j whenever some i ->p j
        let s' := (s.zipIdx).map fun (row, i) =>
          if i == ell then
            (row.zipIdx).map fun (v, j) =>
              if (List.range n).any (fun i' => SMat.get s i' j == .p) then docSum v .p else v
          else row
        some (i1, s')
def semSeq (U : List Var) : List Cmd → Nat → Choice → Option (Nat × SMat)
  | [], idx, _ => some (idx, SMat.identity U.length)
  | cmd :: rest, idx, c =>
    match sem U cmd idx c with
    | none => none
    | some (i1, a) =>
      match semSeq U rest i1 c with
      | none => none
      | some (i2, b) => some (i2, SMat.mul a b)
end

mutual
/-- number of binary-operation statements (= derivation indices consumed) -/
def Cmd.arity : Cmd → Nat
  | .bin .. => 1
  | .seq l => arityL l
  | .ite t f => t.arity + f.arity
  | .while_ b => b.arity
  | .loop _ b => b.arity
  | _ => 0
def arityL : List Cmd → Nat
  | [] => 0
  | c :: cs => c.arity + arityL cs
end

mutual
/-- For each binary-operation statement in derivation order: does pymwp number the two
    asymmetric alternatives the other way round?  (It lists the assigned variable first, so for
    `x = y ± x` with `y ≠ x` alternative 0 gives `m` to the SECOND operand.)  The numbering of the
    alternatives is a convention, not part of the calculus: `relabel` translates between the two. -/
def Cmd.swaps : Cmd → List Bool
  | .bin _ x a b =>
    [match a, b with
     | .var y, .var z => z == x && y != x
     | _, _ => false]
  | .seq l => swapsL l
  | .ite t f => t.swaps ++ f.swaps
  | .while_ b => b.swaps
  | .loop _ b => b.swaps
  | _ => []
def swapsL : List Cmd → List Bool
  | [] => []
  | c :: cs => c.swaps ++ swapsL cs
end

/-- implementation choice vector ↦ calculus choice vector (an involution on {0,1,2}ᵏ) -/
def relabel (cmd : Cmd) (c : Choice) : Choice :=
  (c.zip (cmd.swaps ++ List.replicate c.length false)).map fun (v, sw) =>
    if sw then (if v == 0 then 1 else if v == 1 then 0 else v) else v

mutual
/-- does evaluating this expression change a variable (or call something)? -/
def hasSideEffect : Node → Bool
  | .assign .. => true
  | .unop op e => op == "++" || op == "--" || op == "p++" || op == "p--" || hasSideEffect e
  | .funcCall .. => true
  | .binop _ l r => hasSideEffect l || hasSideEffect r
  | .cast e => hasSideEffect e
  | .ternary c t f => hasSideEffect c || hasSideEffect t || hasSideEffect f
  | .arrayRef n s => hasSideEffect n || hasSideEffect s
  | .exprList es => hasSideEffectL es
  | .other _ _ ks => hasSideEffectL ks
  | _ => false
def hasSideEffectL : List Node → Bool
  | [] => false
  | n :: ns => hasSideEffect n || hasSideEffectL ns
end

def hasSideEffectO : Option Node → Bool
  | none => false
  | some n => hasSideEffect n

mutual
/-- does evaluating this expression assign to a variable (`=`, `op=`, `++`, `--`)?  Calls are
    not counted: C passes by value, a call cannot change a local variable of the caller. -/
def changesVariable : Node → Bool
  | .assign .. => true
  | .unop op e => op == "++" || op == "--" || op == "p++" || op == "p--" || changesVariable e
  | .funcCall name args => changesVariable name || changesVariableO args
  | .binop _ l r => changesVariable l || changesVariable r
  | .cast e => changesVariable e
  | .ternary c t f => changesVariable c || changesVariable t || changesVariable f
  | .arrayRef n s => changesVariable n || changesVariable s
  | .exprList es => changesVariableL es
  | .other _ _ ks => changesVariableL ks
  -- the remaining constructors cannot sit inside a C expression (pycparser has no statement
  -- expressions); they are walked all the same so that the scan is the generic "any node below"
  | .decl _ ty init => changesVariable ty || changesVariableO init
  | .declList ds => changesVariableL ds
  | .compound (some l) => changesVariableL l
  | .ifs c t f => changesVariable c || changesVariableO t || changesVariableO f
  | .while_ c b => changesVariable c || changesVariable b
  | .doWhile c b => changesVariable c || changesVariable b
  | .for_ i c x b => changesVariableO i || changesVariableO c || changesVariableO x || changesVariable b
  | .ret e => changesVariableO e
  | .label _ st => changesVariable st
  | .switch c b => changesVariable c || changesVariable b
  | .case_ e ss => changesVariable e || changesVariableL ss
  | .default_ ss => changesVariableL ss
  | .paramList ps => changesVariableL ps
  | .funcDecl a => changesVariableO a
  | .funcDef d b => changesVariable d || changesVariable b
  | _ => false
def changesVariableL : List Node → Bool
  | [] => false
  | n :: ns => changesVariable n || changesVariableL ns
def changesVariableO : Option Node → Bool
  | none => false
  | some n => changesVariable n
end

/-- operand of a supported binary operation: identifier or constant, casts transparent -/
def atomOf (n : Node) : Option Atom :=
  match n.rmCast with
  | .id y => some (.var y)
  | .const .. => some .const
  | _ => none

mutual
/-- The documented reading of a supported C statement as a command of the calculus
    (pymwp docs "supported features" + `Analysis` docstrings): casts are transparent,
    `x++` is `x = x + 1`, `y = x++` is `y = x; x = x + 1`, `y = ++x` is `x = x + 1; y = x`,
    `y = -x` is `y = x * c`, `y = +x` is `y = x`, `y = !e`/`sizeof` assign a constant;
    declarations, return/break/continue, empty statements, assert/assume and other
    stand-alone expressions are no-ops.  `none`: outside the supported fragment. -/
def desugar : Node → Option Cmd
  | .ret e => if changesVariableO e then none else some .skip   -- `return x++;` changes x: not a skip
  | .brk => some .skip
  | .cont => some .skip
  | .empty => some .skip
  | .decl _ .typeDecl none => some .skip
  | .assign "=" (.id x) r =>
    match r.rmCast with
    | .id y => some (.asgnVar x y)
    | .const .. => some (.asgnConst x)
    | .binop op l rr =>
      if op == "+" || op == "-" || op == "*" then
        match atomOf l, atomOf rr with
        | some a, some b => some (.bin op x a b)
        | _, _ => none
      else none
    | .unop op e =>
      if op == "!" || op == "sizeof" then
        -- the operand's value is not needed, but it must not change anything itself
        if hasSideEffect e then none else some (.asgnConst x)
      else match e.rmCast with
        | .const .. => if op == "-" || op == "+" then some (.asgnConst x) else none
        | .id y =>
          if op == "-" then some (.bin "*" x (.var y) .const)
          else if op == "+" then some (.asgnVar x y)
          else if op == "p++" then some (.seq [.asgnVar x y, .bin "+" y (.var y) .const])
          else if op == "p--" then some (.seq [.asgnVar x y, .bin "-" y (.var y) .const])
          else if op == "++" then some (.seq [.bin "+" y (.var y) .const, .asgnVar x y])
          else if op == "--" then some (.seq [.bin "-" y (.var y) .const, .asgnVar x y])
          else none
        | _ => none
    | _ => none
  | .unop op e =>
    match e.rmCast with
    | .id y =>
      if op == "p++" || op == "++" then some (.bin "+" y (.var y) .const)
      else if op == "p--" || op == "--" then some (.bin "-" y (.var y) .const)
      else some .skip
    | r => if hasSideEffect r then none else some .skip
  | .funcCall name _ => if Syntax.isAssertAssume name then some .skip else none
  | .ifs c t f =>
    -- the calculus treats guards as pure: a condition that changes a variable has no reading
    if changesVariable c then none
    else match desugarO t, desugarO f with
      | some a, some b => some (.ite a b)
      | _, _ => none
  | .while_ c b => if changesVariable c then none else (desugar b).map .while_
  | .doWhile c b => if changesVariable c then none else (desugar b).map .while_
  | n@(.for_ _ _ _ b) =>
    match Syntax.loopCompat n with
    | .ok (true, some X) => (desugar b).map (.loop X)
    | _ => none
  | .compound none => some .skip
  | .compound (some l) => (desugarL l).map .seq
  | .label _ st => desugar st                  -- a label is only a marker
  | .exprList es => (desugarL es).map .seq     -- comma expression: evaluated in order
  | .cast e => desugar e                        -- a cast is transparent
  | .id _ => some .skip                         -- effect-free expression statements
  | .const .. => some .skip
  | n@(.binop ..) => if hasSideEffect n then none else some .skip
  | _ => none
def desugarL : List Node → Option (List Cmd)
  | [] => some []
  | n :: ns =>
    match desugar n, desugarL ns with
    | some c, some cs => some (c :: cs)
    | _, _ => none
def desugarO : Option Node → Option Cmd
  | none => some .skip
  | some n => desugar n
end

/-- a function definition as one command -/
def desugarFunc : Node → Option Cmd
  | .funcDef _ b => desugar b
  | _ => none

/-- All choice vectors of length `n` over the three alternatives. -/
def allChoices : Nat → List Choice
  | 0 => [[]]
  | n + 1 => [0, 1, 2].flatMap fun v => (allChoices n).map (v :: ·)

/-- the matrices the calculus derives for a command -/
def Derivable (U : List Var) (cmd : Cmd) (M : SMat) : Prop :=
  ∃ c, c.length = cmd.arity ∧ (∀ v ∈ c, v < 3) ∧ ∃ k, sem U cmd 0 c = some (k, M)

end Mwp.Spec
