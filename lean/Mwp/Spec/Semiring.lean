/-
  Specification side of C16: the documented tables of the coefficient
  semiring, transcribed ONCE by hand from the docstrings of `prod_mwp` /
  `sum_mwp` (pymwp/semiring.py) and from the paper's order 0 < m < w < p < ∞.
  Nothing here is generated.
-/
import Mwp.Base
namespace Mwp.Spec
open Mwp Scalar

/-- Documented sum: the maximum in the order `0 < m < w < p < ∞`. -/
def docSum (a b : Scalar) : Scalar := if a.rank ≤ b.rank then b else a

/-- Documented product table (docstring of `prod_mwp`). -/
def docProd : Scalar → Scalar → Scalar
  | .i, _ => .i
  | _, .i => .i
  | .o, _ => .o
  | _, .o => .o
  | .m, b => b
  | a, .m => a
  | .w, .w => .w
  | _, _ => .p

end Mwp.Spec
