/-
  Specification side of the syntax properties (C05, C07, C19): generic traversals that know
  nothing about pymwp's dispatch tables, and the source-line counter.
-/
import Mwp.Model.Ast
import Mwp.Model.Syntax
import Mwp.Spec.Calculus
namespace Mwp.Spec
open Mwp

mutual
/-- controlling expressions (if / while / do-while conditions, for-loop clauses) that have a
    side effect, anywhere in the statement -/
def effectfulConds : Node → List String
  | .ifs c t f => (if changesVariable c then ["If"] else []) ++ effectfulCondsO t ++ effectfulCondsO f
  | .while_ c b => (if changesVariable c then ["While"] else []) ++ effectfulConds b
  | .doWhile c b => (if changesVariable c then ["DoWhile"] else []) ++ effectfulConds b
  | .for_ _ c _ b => (if changesVariableO c then ["For"] else []) ++ effectfulConds b
  | .compound (some l) => effectfulCondsL l
  | .label _ s => effectfulConds s
  | .switch c b => (if changesVariable c then ["Switch"] else []) ++ effectfulConds b
  | .case_ _ ss => effectfulCondsL ss
  | .default_ ss => effectfulCondsL ss
  | .funcDef _ b => effectfulConds b
  | _ => []
def effectfulCondsL : List Node → List String
  | [] => []
  | n :: ns => effectfulConds n ++ effectfulCondsL ns
def effectfulCondsO : Option Node → List String
  | none => []
  | some n => effectfulConds n
end

mutual
/-- every loop statement of a function in source (pre-)order, through EVERY statement container:
    blocks, branches, loop bodies, switch bodies, cases, labels.  `counted` decides which `for`
    statements are loops of the calculus (pymwp: `Coverage.loop_compat`). -/
def allLoops (counted : Node → Bool) : Node → List Node
  | n@(.while_ _ b) => (if counted n then [n] else []) ++ allLoops counted b
  | n@(.doWhile _ b) => (if counted n then [n] else []) ++ allLoops counted b
  | n@(.for_ _ _ _ b) => (if counted n then [n] else []) ++ allLoops counted b
  | .ifs _ t f => allLoopsO counted t ++ allLoopsO counted f
  | .compound (some l) => allLoopsL counted l
  | .label _ s => allLoops counted s
  | .switch _ b => allLoops counted b
  | .case_ _ ss => allLoopsL counted ss
  | .default_ ss => allLoopsL counted ss
  | .funcDef _ b => allLoops counted b
  | .declList ds => allLoopsL counted ds       -- (no statement can sit in these three; kept so that
  | .exprList es => allLoopsL counted es       --  the traversal is total over every list of children)
  | .paramList ps => allLoopsL counted ps
  | _ => []
def allLoopsL (counted : Node → Bool) : List Node → List Node
  | [] => []
  | n :: ns => allLoops counted n ++ allLoopsL counted ns
def allLoopsO (counted : Node → Bool) : Option Node → List Node
  | none => []
  | some n => allLoops counted n
end

/-- the loop statements of the calculus: a `while` / `do-while` whose condition changes no variable,
    a `for` that reads as "repeat X times" (pymwp: `Coverage.loop_compat`, which also requires an
    effect-free condition) -/
def countedFor (n : Node) : Bool :=
  match n with
  | .while_ c _ => !changesVariable c
  | .doWhile c _ => !changesVariable c
  | _ =>
    match Syntax.loopCompat n with
    | .ok (true, some _) => true
    | _ => false

/-- short description of a statement the calculus reading (`desugar`) rejects -/
def describe : Node → String
  | .assign op (.id _) r =>
    if op != "=" then "Assignment(op " ++ op ++ ")"
    else match r.rmCast with
      | .unop uop e => "Assignment(rhs UnaryOp " ++ uop ++ " of " ++ e.rmCast.cls ++ ")"
      | .binop bop .. => "Assignment(rhs BinaryOp " ++ bop ++ ")"
      | e => "Assignment(rhs " ++ e.cls ++ ")"
  | .assign _ l _ => "Assignment(lvalue " ++ l.cls ++ ")"
  | .decl _ ty init => "Decl(" ++ ty.cls ++ (if init.isSome then ", initialised)" else ")")
  | n => n.cls

mutual
/-- the statements of a function that the calculus reading rejects, in source order -/
def unmodellable : Node → List String
  | .ifs _ t f => unmodellableO t ++ unmodellableO f
  | .while_ _ b => unmodellable b
  | .doWhile _ b => unmodellable b
  | n@(.for_ _ _ _ b) => if countedFor n then unmodellable b else ["For(not counted)"]
  | .compound none => []
  | .compound (some l) => unmodellableL l
  | .funcDef _ b => unmodellable b
  | n => if (desugar n).isSome then [] else [describe n]
def unmodellableL : List Node → List String
  | [] => []
  | n :: ns => unmodellable n ++ unmodellableL ns
def unmodellableO : Option Node → List String
  | none => []
  | some n => unmodellable n
end

mutual
/-- number of effect-free expression statements (`x;`, `1;`, `x + y;`): the only statements an
    analysis may pass over -/
def effectFreeStmts : Node → Nat
  | .ifs _ t f => effectFreeStmtsO t + effectFreeStmtsO f
  | .while_ _ b => effectFreeStmts b
  | .doWhile _ b => effectFreeStmts b
  | .for_ _ _ _ b => effectFreeStmts b
  | .compound (some l) => effectFreeStmtsL l
  | .label _ s => effectFreeStmts s
  | .exprList es => effectFreeStmtsL es
  | .cast e => effectFreeStmts e
  | .funcDef _ b => effectFreeStmts b
  | .id _ => 1
  | .const .. => 1
  | n@(.binop ..) => if hasSideEffect n then 0 else 1
  | _ => 0
def effectFreeStmtsL : List Node → Nat
  | [] => 0
  | n :: ns => effectFreeStmts n + effectFreeStmtsL ns
def effectFreeStmtsO : Option Node → Nat
  | none => 0
  | some n => effectFreeStmts n
end

/-! ### Source lines: a 5-state lexer for C comments and literals -/

inductive LexSt where
  | code | slash | lineComment | blockComment | blockStar | str | strEsc | chr | chrEsc
  deriving DecidableEq, Repr

def isBlank (c : Char) : Bool := c == ' ' || c == '\t' || c == '\r' || c == '\x0b' || c == '\x0c'

/-- One character of the C lexical grammar (`//…\n`, `/*…*/`, `"…"`, `'…'` with backslash
    escapes).  State: lexer state, "the current line has a non-blank character outside comments",
    lines counted so far. -/
def locStep (st : LexSt) (cur : Bool) (acc : Nat) (c : Char) : LexSt × Bool × Nat :=
  let nl := if cur then acc + 1 else acc
  match st with
  | .code =>
    if c == '\n' then (.code, false, nl)
    else if c == '/' then (.slash, cur, acc)
    else if c == '"' then (.str, true, acc)
    else if c == '\'' then (.chr, true, acc)
    else (.code, cur || !isBlank c, acc)
  | .slash =>   -- a '/' is pending
    if c == '/' then (.lineComment, cur, acc)
    else if c == '*' then (.blockComment, cur, acc)
    else if c == '\n' then (.code, false, acc + 1)        -- the pending '/' was code on that line
    else if c == '"' then (.str, true, acc)
    else if c == '\'' then (.chr, true, acc)
    else (.code, true, acc)
  | .lineComment => if c == '\n' then (.code, false, nl) else (.lineComment, cur, acc)
  | .blockComment =>
    if c == '\n' then (.blockComment, false, nl)
    else if c == '*' then (.blockStar, cur, acc)
    else (.blockComment, cur, acc)
  | .blockStar =>
    if c == '/' then (.code, cur, acc)
    else if c == '*' then (.blockStar, cur, acc)
    else if c == '\n' then (.blockComment, false, nl)
    else (.blockComment, cur, acc)
  | .str =>
    if c == '\\' then (.strEsc, true, acc)
    else if c == '"' then (.code, true, acc)
    else if c == '\n' then (.str, false, acc + 1)
    else (.str, true, acc)
  | .strEsc => if c == '\n' then (.str, false, acc + 1) else (.str, true, acc)
  | .chr =>
    if c == '\\' then (.chrEsc, true, acc)
    else if c == '\'' then (.code, true, acc)
    else if c == '\n' then (.chr, false, acc + 1)
    else (.chr, true, acc)
  | .chrEsc => if c == '\n' then (.chr, false, acc + 1) else (.chr, true, acc)

def locAux : List Char → LexSt → Bool → Nat → Nat
  | [], st, cur, acc => if cur || st == .slash then acc + 1 else acc
  | c :: cs, st, cur, acc =>
    let r := locStep st cur acc c
    locAux cs r.1 r.2.1 r.2.2

/-- number of non-blank, non-comment source lines -/
def loc (text : String) : Nat := locAux text.toList .code false 0

end Mwp.Spec
