/-
  Specification side of C20: an independent reader of the printed bound
  expression (what a user would understand by it) and the value the property
  says it must denote.  Grammar:  e := t ('+' t)* ;  t := f ('*' f)* ;
  f := numeral | identifier | 'max(' e (',' e)* ')'.
  A numeral denotes its value (a reader that took `1` for an unknown name worth 0 would accept `1` where
  the property demands 0).
-/
import Mwp.Base
namespace Mwp.Spec.BoundText

inductive Tok where
  | id (s : String) | num (n : Nat) | plus | star | comma | lpar | rpar | max
  deriving DecidableEq, Repr

def isIdChar (c : Char) : Bool := c.isAlphanum || c == '_'

def lexAux : List Char → List Char → List Tok → Option (List Tok)
  | [], cur, acc => some (flush cur acc).reverse
  | c :: cs, cur, acc =>
    if isIdChar c then lexAux cs (c :: cur) acc
    else
      let acc := flush cur acc
      match c with
      | '+' => lexAux cs [] (.plus :: acc)
      | '*' => lexAux cs [] (.star :: acc)
      | ',' => lexAux cs [] (.comma :: acc)
      | '(' => lexAux cs [] (.lpar :: acc)
      | ')' => lexAux cs [] (.rpar :: acc)
      | ' ' => lexAux cs [] acc
      | _ => none
where
  flush (cur : List Char) (acc : List Tok) : List Tok :=
    if cur.isEmpty then acc
    else
      let s := String.ofList cur.reverse
      if s.all Char.isDigit then .num s.toNat! :: acc else if s == "max" then .max :: acc else .id s :: acc

def lex (s : String) : Option (List Tok) := lexAux s.toList [] []

/-- Recursive descent with fuel; returns value and remaining tokens. -/
def parseE (ρ : String → Nat) : Nat → List Tok → Option (Nat × List Tok)
  | 0, _ => none
  | fuel + 1, ts => do
    let (v, rest) ← parseT ρ fuel ts
    sumLoop fuel v rest
where
  parseT (ρ : String → Nat) : Nat → List Tok → Option (Nat × List Tok)
    | 0, _ => none
    | fuel + 1, ts => do
      let (v, rest) ← parseF ρ fuel ts
      prodLoop ρ fuel v rest
  parseF (ρ : String → Nat) : Nat → List Tok → Option (Nat × List Tok)
    | 0, _ => none
    | fuel + 1, ts =>
      match ts with
      | .num n :: r => some (n, r)
      | .id s :: r => some (ρ s, r)
      | .max :: .lpar :: r => do
        let (v, rest) ← parseE ρ fuel r
        argLoop ρ fuel v rest
      | _ => none
  prodLoop (ρ : String → Nat) : Nat → Nat → List Tok → Option (Nat × List Tok)
    | 0, _, _ => none
    | fuel + 1, acc, ts =>
      match ts with
      | .star :: r => do
        let (v, rest) ← parseF ρ fuel r
        prodLoop ρ fuel (acc * v) rest
      | _ => some (acc, ts)
  sumLoop : Nat → Nat → List Tok → Option (Nat × List Tok)
    | 0, _, _ => none
    | fuel + 1, acc, ts =>
      match ts with
      | .plus :: r => do
        let (v, rest) ← parseT ρ fuel r
        sumLoop fuel (acc + v) rest
      | _ => some (acc, ts)
  argLoop (ρ : String → Nat) : Nat → Nat → List Tok → Option (Nat × List Tok)
    | 0, _, _ => none
    | fuel + 1, acc, ts =>
      match ts with
      | .comma :: r => do
        let (v, rest) ← parseE ρ fuel r
        argLoop ρ fuel (Nat.max acc v) rest
      | .rpar :: r => some (acc, r)
      | _ => none

/-- Value denoted by the printed expression, `none` if it is not an expression of the grammar. -/
def evalText (s : String) (ρ : String → Nat) : Option Nat := do
  let ts ← lex s
  let (v, rest) ← parseE ρ (4 * ts.length + 8) ts
  if rest.isEmpty then some v else none

/-- What C20 says the expression must denote. -/
def specValue (x y z : List String) (ρ : String → Nat) : Nat :=
  Nat.max ((x.map ρ).foldl Nat.max 0) ((y.map ρ).foldl (· + ·) 0)
    + (if z.isEmpty then 0 else (z.map ρ).foldl (· * ·) 1)

end Mwp.Spec.BoundText
