/-
  The calculus with failure recorded PER CELL as ∞ instead of aborting the derivation
  (what loop mode needs: "the derivation is failure-free for variable v").  Same rules as
  Spec.Calculus, dense matrices over a universe `U`; a failure travels along flows only
  (`pathProd`), so the result does not depend on which other variables are in scope.
-/
import Mwp.Spec.Calculus
namespace Mwp.Spec
open Mwp

/-- product of flow coefficients along a path when failure is a VALUE of the flow: no flow (0)
    composed with anything is no flow -- also with a failing one (contrast `docProd`, where
    0 × ∞ = ∞ makes a failure global).  This keeps a failure inside the columns of the variables
    that actually depend on the failing flow. -/
def pathProd (a b : Scalar) : Scalar := if a == .o || b == .o then .o else docProd a b

def mulP (a b : SMat) : SMat :=
  let n := a.length
  (List.range n).map fun i => (List.range n).map fun j =>
    SMat.sumS ((List.range n).map fun k => pathProd (SMat.get a i k) (SMat.get b k j))

def closureFromP (a : SMat) : Nat → SMat → SMat
  | 0, s => s
  | fuel + 1, s =>
    let s' := SMat.add (SMat.identity a.length) (mulP a s)
    if s' == s then s else closureFromP a fuel s'

def closureP (a : SMat) : SMat := closureFromP a (4 * a.length * a.length + 1) (SMat.identity a.length)

/-- rule W with failure as ∞ -/
def wInf (a : SMat) : SMat :=
  (a.zipIdx).map fun (row, i) => (row.zipIdx).map fun (v, j) =>
    if v == .p || v == .i || (i == j && v == .w) then .i else v

/-- rule L with failure as ∞: diagonal entries other than `m` fail; then X ->p j whenever some i ->p j -/
def lInf (ell : Nat) (a : SMat) : SMat :=
  let n := a.length
  let d := (a.zipIdx).map fun (row, i) => (row.zipIdx).map fun (v, j) => if i == j && v != .m then .i else v
  (d.zipIdx).map fun (row, i) =>
    if i == ell then
      (row.zipIdx).map fun (v, j) =>
        if (List.range n).any (fun i' => SMat.get d i' j == .p) then docSum v .p else v
    else row

mutual
def semI (U : List Var) : Cmd → Nat → Choice → Nat × SMat
  | .skip, idx, _ => (idx, SMat.identity U.length)
  | .asgnVar x y, idx, _ =>
    if x == y then (idx, SMat.identity U.length)
    else (idx, SMat.setColumn (SMat.identity U.length) (idxOf U x) (U.map fun v => if v == y then .m else .o))
  | .asgnConst x, idx, _ => (idx, SMat.setColumn (SMat.identity U.length) (idxOf U x) (U.map fun _ => .o))
  | .bin op x a b, idx, c =>
    let alt := (c[idx]?).getD 0
    (idx + 1, SMat.setColumn (SMat.identity U.length) (idxOf U x) (U.map fun v => operandFlow op a b alt v))
  | .seq l, idx, c => semISeq U l idx c
  | .ite t f, idx, c =>
    let (i1, a) := semI U t idx c
    let (i2, b) := semI U f i1 c
    (i2, SMat.add a b)
  | .while_ b, idx, c =>
    let (i1, a) := semI U b idx c
    (i1, wInf (closureP a))
  | .loop X b, idx, c =>
    let (i1, a) := semI U b idx c
    (i1, lInf (idxOf U X) (closureP a))
def semISeq (U : List Var) : List Cmd → Nat → Choice → Nat × SMat
  | [], idx, _ => (idx, SMat.identity U.length)
  | cmd :: rest, idx, c =>
    let (i1, a) := semI U cmd idx c
    let (i2, b) := semISeq U rest i1 c
    (i2, mulP a b)
end

/-- variables `u` with a non-zero path to `v` in matrix `m` (including `v`) -/
def ancestors (m : SMat) (v : Nat) : List Nat :=
  let n := m.length
  let step (s : List Nat) : List Nat :=
    (List.range n).filter fun u => s.contains u || s.any fun w => SMat.get m u w != .o
  (List.range n).foldl (fun s _ => step s) [v]

/-- the derivation at this matrix is failure-free for variable `v` and everything it depends on -/
def okFor (m : SMat) (v : Nat) : Bool :=
  (ancestors m v).all fun u => (SMat.column m u).all (· != .i)

end Mwp.Spec
