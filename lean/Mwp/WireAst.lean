/-
  JSON codec for syntax trees (harness/astwire.py produces it from the real pycparser tree).
-/
import Mwp.Wire
import Mwp.Model.Ast
namespace Mwp.Wire
open Lean Mwp

partial def nodeOfJson (j : Json) : R Node := do
  let k ← fStr j "k"
  let sub (key : String) : R Node := do nodeOfJson (← field j key)
  let subO (key : String) : R (Option Node) := do
    match fOpt j key with
    | none => pure none
    | some v => pure (some (← nodeOfJson v))
  let subL (key : String) : R (List Node) := do (← fArr j key).mapM nodeOfJson
  let strO (key : String) : R (Option String) := do
    match fOpt j key with
    | none => pure none
    | some v => pure (some (← strOf v))
  match k with
  | "id" => pure (.id (← fStr j "name"))
  | "const" => pure (.const (← fStr j "ty") (← fStr j "value"))
  | "binop" => pure (.binop (← fStr j "op") (← sub "l") (← sub "r"))
  | "unop" => pure (.unop (← fStr j "op") (← sub "e"))
  | "cast" => pure (.cast (← sub "e"))
  | "assign" => pure (.assign (← fStr j "op") (← sub "l") (← sub "r"))
  | "funcCall" => pure (.funcCall (← sub "name") (← subO "args"))
  | "exprList" => pure (.exprList (← subL "es"))
  | "ternary" => pure (.ternary (← sub "c") (← sub "t") (← sub "f"))
  | "arrayRef" => pure (.arrayRef (← sub "name") (← sub "sub"))
  | "decl" => pure (.decl (← strO "name") (← sub "ty") (← subO "init"))
  | "typeDecl" => pure .typeDecl
  | "declList" => pure (.declList (← subL "ds"))
  | "compound" =>
    match fOpt j "items" with
    | none => pure (.compound none)
    | some v => pure (.compound (some (← (← arrOf v).mapM nodeOfJson)))
  | "if" => pure (.ifs (← sub "cond") (← subO "t") (← subO "f"))
  | "while" => pure (.while_ (← sub "cond") (← sub "body"))
  | "doWhile" => pure (.doWhile (← sub "cond") (← sub "body"))
  | "for" => pure (.for_ (← subO "init") (← subO "cond") (← subO "next") (← sub "body"))
  | "return" => pure (.ret (← subO "e"))
  | "break" => pure .brk
  | "continue" => pure .cont
  | "empty" => pure .empty
  | "label" => pure (.label (← fStr j "name") (← sub "s"))
  | "goto" => pure (.goto (← fStr j "name"))
  | "switch" => pure (.switch (← sub "cond") (← sub "body"))
  | "case" => pure (.case_ (← sub "e") (← subL "stmts"))
  | "default" => pure (.default_ (← subL "stmts"))
  | "paramList" => pure (.paramList (← subL "ps"))
  | "funcDecl" => pure (.funcDecl (← subO "args"))
  | "funcDef" => pure (.funcDef (← sub "decl") (← sub "body"))
  | "other" => pure (.other (← fStr j "cls") (← strO "name") (← subL "kids"))
  | _ => throw s!"bad node kind {k}"

partial def jNodeAst : Node → Json
  | .id n => Json.mkObj [("k", "id"), ("name", n)]
  | .const t v => Json.mkObj [("k", "const"), ("ty", t), ("value", v)]
  | .binop op l r => Json.mkObj [("k", "binop"), ("op", op), ("l", jNodeAst l), ("r", jNodeAst r)]
  | .unop op e => Json.mkObj [("k", "unop"), ("op", op), ("e", jNodeAst e)]
  | .cast e => Json.mkObj [("k", "cast"), ("e", jNodeAst e)]
  | .assign op l r => Json.mkObj [("k", "assign"), ("op", op), ("l", jNodeAst l), ("r", jNodeAst r)]
  | .funcCall n a => Json.mkObj [("k", "funcCall"), ("name", jNodeAst n), ("args", jO a)]
  | .exprList es => Json.mkObj [("k", "exprList"), ("es", jL es)]
  | .ternary c t f => Json.mkObj [("k", "ternary"), ("c", jNodeAst c), ("t", jNodeAst t), ("f", jNodeAst f)]
  | .arrayRef n s => Json.mkObj [("k", "arrayRef"), ("name", jNodeAst n), ("sub", jNodeAst s)]
  | .decl n t i => Json.mkObj [("k", "decl"), ("name", match n with | some s => Json.str s | none => Json.null),
      ("ty", jNodeAst t), ("init", jO i)]
  | .typeDecl => Json.mkObj [("k", "typeDecl")]
  | .declList ds => Json.mkObj [("k", "declList"), ("ds", jL ds)]
  | .compound none => Json.mkObj [("k", "compound"), ("items", Json.null)]
  | .compound (some l) => Json.mkObj [("k", "compound"), ("items", jL l)]
  | .ifs c t f => Json.mkObj [("k", "if"), ("cond", jNodeAst c), ("t", jO t), ("f", jO f)]
  | .while_ c b => Json.mkObj [("k", "while"), ("cond", jNodeAst c), ("body", jNodeAst b)]
  | .doWhile c b => Json.mkObj [("k", "doWhile"), ("cond", jNodeAst c), ("body", jNodeAst b)]
  | .for_ i c n b => Json.mkObj [("k", "for"), ("init", jO i), ("cond", jO c), ("next", jO n), ("body", jNodeAst b)]
  | .ret e => Json.mkObj [("k", "return"), ("e", jO e)]
  | .brk => Json.mkObj [("k", "break")]
  | .cont => Json.mkObj [("k", "continue")]
  | .empty => Json.mkObj [("k", "empty")]
  | .label n s => Json.mkObj [("k", "label"), ("name", n), ("s", jNodeAst s)]
  | .goto n => Json.mkObj [("k", "goto"), ("name", n)]
  | .switch c b => Json.mkObj [("k", "switch"), ("cond", jNodeAst c), ("body", jNodeAst b)]
  | .case_ e ss => Json.mkObj [("k", "case"), ("e", jNodeAst e), ("stmts", jL ss)]
  | .default_ ss => Json.mkObj [("k", "default"), ("stmts", jL ss)]
  | .paramList ps => Json.mkObj [("k", "paramList"), ("ps", jL ps)]
  | .funcDecl a => Json.mkObj [("k", "funcDecl"), ("args", jO a)]
  | .funcDef d b => Json.mkObj [("k", "funcDef"), ("decl", jNodeAst d), ("body", jNodeAst b)]
  | .other c n ks => Json.mkObj [("k", "other"), ("cls", c),
      ("name", match n with | some s => Json.str s | none => Json.null), ("kids", jL ks)]
where
  jO : Option Node → Json
    | none => Json.null
    | some n => jNodeAst n
  jL (l : List Node) : Json := Json.arr (l.map jNodeAst).toArray

end Mwp.Wire
