/-
  JSON codec between `Lean.Json` and the model's `Mwp.JVal`, and the driver operation that runs
  the model's load-then-save on a whole `Result.to_dict()` document.  Nothing here is proved about.

  `Lean.Json.obj` is a key-ordered tree map, so a document read through `Lean.Json` reaches the
  model with its object keys in sorted order (not in the order of the file); the `JVal` itself
  keeps the order it is given, and the harness compares JSON values order-insensitively.
-/
import Lean.Data.Json
import Mwp.Wire
import Mwp.Model.Result
namespace Mwp.Wire
open Lean Mwp

/-- `Lean.Json → JVal`; numbers must be integers (pymwp results hold no floats). -/
partial def jvalOfJson : Json → R JVal
  | .null => pure .null
  | .bool b => pure (.bool b)
  | .num n =>
    if n.exponent = 0 then pure (.num n.mantissa)
    else
      -- `12.0` / `120e-1`: still an integer when the mantissa is a multiple of `10^exponent`
      let p : Int := (10 : Int) ^ n.exponent
      if n.mantissa % p = 0 then pure (.num (n.mantissa / p))
      else throw s!"non-integer number {n}"
  | .str s => pure (.str s)
  | .arr a => do
    let l ← a.toList.mapM jvalOfJson
    pure (.arr l)
  | .obj kvs => do
    let l ← kvs.toList.mapM fun (k, v) => do
      let v' ← jvalOfJson v
      pure (k, v')
    pure (.obj l)

/-- `JVal → Lean.Json` (a repeated key keeps its last value, as `dict` would). -/
partial def jsonOfJVal : JVal → Json
  | .null => .null
  | .bool b => .bool b
  | .num n => .num (JsonNumber.fromInt n)
  | .str s => .str s
  | .arr l => .arr (l.map jsonOfJVal).toArray
  | .obj kvs => Json.mkObj (kvs.map fun (k, v) => (k, jsonOfJVal v))

/-- `{"doc": <Result.to_dict() document>}` ↦ `{"ok": <the document after load-then-save in the model>}` -/
def resultRoundtripOp (j : Json) : Except String Json := do
  let doc ← jvalOfJson (← field j "doc")
  pure (Json.mkObj [("ok", jsonOfJVal (Mwp.Result.roundtrip .result doc))])

end Mwp.Wire
