/-
  Model of pymwp/delta_graphs.py (class DeltaGraph).  Import-free.

  `graph_dict` is a dict size -> node -> neighbour -> label.  Python dicts keep
  insertion order and the code only iterates dicts (never sets), so association
  lists in insertion order model it exactly.  Operations return `Except`: the
  error strings name the Python exception the code would raise at that point.
-/
import Mwp.Base
namespace Mwp
namespace DG

abbrev Node := List Delta
abbrev Adj := List (Node × Nat)
abbrev Level := List (Node × Adj)
abbrev Graph := List (Nat × Level)

abbrev M := Except String

/-- dict lookup -/
def get? {κ ν} [BEq κ] (d : List (κ × ν)) (k : κ) : Option ν := (d.find? (·.1 == k)).map (·.2)
def has {κ ν} [BEq κ] (d : List (κ × ν)) (k : κ) : Bool := d.any (·.1 == k)
/-- `d[k] = v`: replace in place or append at the end (Python dict order). -/
def set {κ ν} [BEq κ] : List (κ × ν) → κ → ν → List (κ × ν)
  | [], k, v => [(k, v)]
  | (k', v') :: t, k, v => if k' == k then (k', v) :: t else (k', v') :: set t k v
/-- `del d[k]` -/
def del {κ ν} [BEq κ] (d : List (κ × ν)) (k : κ) : List (κ × ν) := d.filter (fun e => !(e.1 == k))

def levelOf (g : Graph) (size : Nat) : M Level :=
  match get? g size with
  | some l => pure l
  | none => throw "KeyError"

/-- `DeltaGraph.insert_edge` -/
def insertEdge (g : Graph) (n1 n2 : Node) (label : Nat) : M Graph := do
  let size := n1.length
  let lvl ← levelOf g size
  let lvl := if has lvl n1 then lvl else set lvl n1 []
  let a1 := (get? lvl n1).getD []
  let lvl := set lvl n1 (set a1 n2 label)
  let lvl := if has lvl n2 then lvl else set lvl n2 []
  let a2 := (get? lvl n2).getD []
  let lvl := set lvl n2 (set a2 n1 label)
  pure (set g size lvl)

/-- `node_diff(node1, node2, index)` with `index` given: no recursion. State `found`. -/
def nodeDiffWith (n2 : Node) (index : Nat) : List Delta → Bool → Bool × Option Nat
  | [], found => (found, some index)
  | e :: es, found =>
    if n2.contains e then nodeDiffWith n2 index es found
    else if found then (false, some e.2)
    else if index != e.2 then (false, some index)
    else nodeDiffWith n2 index es true

/-- `node_diff(node1, node2)` with `index=None`; walks the elements of `node1`. -/
def nodeDiffNone (n1full n2 : Node) : List Delta → Bool × Option Nat
  | [] => (false, none)
  | e :: es =>
    if n2.contains e then nodeDiffNone n1full n2 es
    else
      -- first difference: does node2 differ from node1 in exactly one delta, of the same index?
      let r := nodeDiffWith n1full e.2 n2 false
      if r.1 then nodeDiffWith n2 e.2 es true
      else (false, some e.2)

/-- `DeltaGraph.node_diff(node1, node2)` -/
def nodeDiff (n1 n2 : Node) : Bool × Option Nat := nodeDiffNone n1 n2 n1

/-- one iteration of the `for node2 in keys` loop of `insert_node` -/
def insertNodeStep (node : Node) (st : Graph × Bool) (node2 : Node) : M (Graph × Bool) :=
  match nodeDiff node node2 with
  | (true, some i) => do pure (← insertEdge st.1 node node2 i, true)
  | (true, none) => throw "TypeError"   -- unreachable: diff=True always carries an index
  | _ => pure st

/-- `DeltaGraph.insert_node` -/
def insertNode (g : Graph) (node : Node) : M Graph := do
  let size := node.length
  match get? g size with
  | none => pure (set g size [(node, [])])
  | some lvl =>
    if has lvl node then pure g
    else
      let (g', inserted) ← (lvl.map (·.1)).foldlM (insertNodeStep node) (g, false)
      if inserted then pure g'
      else
        let lvl' ← levelOf g' size
        pure (set g' size (set lvl' node []))

/-- `DeltaGraph.remove_index` -/
def removeIndex (node : Node) (index : Nat) : Node := node.filter (fun d => d.2 != index)

/-- `DeltaGraph.remove_node`; the recursion removes one node per call, `fuel` bounds it. -/
def removeNode : Nat → Graph → Node → Nat → M Graph
  | 0, _, _, _ => throw "RecursionError"
  | fuel + 1, g, node, index => do
    let size := node.length
    let lvl ← levelOf g size
    match get? lvl node with
    | none => throw "KeyError"
    | some adj =>
      (adj.map (·.1)).foldlM (init := set g size (del lvl node)) fun g nb => do
        let lvl ← levelOf g size
        match get? lvl nb with
        | none => pure g
        | some nadj =>
          match get? nadj node with
          | none => throw "KeyError"
          | some label =>
            if label == index then removeNode fuel g nb index
            else pure (set g size (set lvl nb (del nadj node)))

/-- `DeltaGraph.is_full` -/
def isFull (g : Graph) (degree : Nat) (node : Node) (size index : Nat) : M Bool := do
  let lvl ← levelOf g size
  match get? lvl node with
  | none => throw "KeyError"
  | some adj => pure ((adj.filter (·.2 == index)).length == degree - 1)

/-- descending insertion sort of the level sizes (`sorted(graph_dict, reverse=True)`) -/
def sortDesc (l : List Nat) : List Nat :=
  l.foldr (fun x acc => let (a, b) := acc.span (· > x); a ++ x :: b) []

def nodeCount (g : Graph) : Nat := (g.map (·.2.length)).foldl (· + ·) 0

/-- body of the innermost loop of `fusion` (one index of one node) -/
def fuseIndex (degree size : Nat) (node : Node) (g : Graph) (index : Nat) : M Graph := do
  let lvlNow ← levelOf g size
  if has lvlNow node then
    if ← isFull g degree node size index then
      let g ← removeNode (nodeCount g + 1) g node index
      insertNode g (removeIndex node index)
    else pure g
  else pure g

/-- one node of one level: `for index in [delta[1] for delta in node]` -/
def fuseNode (degree size : Nat) (g : Graph) (node : Node) : M Graph :=
  (node.map (·.2)).foldlM (fuseIndex degree size node) g

/-- one level (snapshot of its nodes taken first) -/
def fuseLevel (degree : Nat) (g : Graph) (size : Nat) : M Graph := do
  let lvl ← levelOf g size
  (lvl.map (·.1)).foldlM (fuseNode degree size) g

/-- `DeltaGraph.fusion` (levels from the longest nodes to the shortest, snapshot of sizes) -/
def fusion (g : Graph) (degree : Nat := 3) : M Graph :=
  (sortDesc (g.map (·.1))).foldlM (fuseLevel degree) g

/-- `DeltaGraph.is_empty` -/
def isEmpty (g : Graph) : Bool :=
  match get? g 0 with
  | some [(n, a)] => n.isEmpty && a.isEmpty
  | _ => false

/-- Operations of a history. -/
inductive Op where
  | insert (t : Node)
  | fuse
  deriving Repr

def step (g : Graph) : Op → M Graph
  | .insert t => insertNode g t
  | .fuse => fusion g

def run (ops : List Op) : M Graph := ops.foldlM step []

def inserted : List Op → List Node
  | [] => []
  | .insert t :: r => t :: inserted r
  | .fuse :: r => inserted r

end DG
end Mwp
