/-
  Model of pymwp/analysis.py: Analysis.compute_relation and its handlers, cmds, func;
  LoopAnalysis.inspect / get_result / maybe_result.  Import-free.

  The delta graph is threaded explicitly; `skipped` records every node that reached
  `Analysis._unsupported` (the "Unsupported syntax" warning), which C05 is about.
-/
import Mwp.Model.Relation
import Mwp.Model.Syntax
import Mwp.Model.Bound
namespace Mwp
namespace Analysis

abbrev M := Except String

structure Out where
  index : Nat
  rels : RelList
  exit : Bool
  dg : DG.Graph
  skipped : List String
  deriving Repr

def skip (index : Nat) (dg : DG.Graph) (sk : List String := []) : Out :=
  ⟨index, RelList.empty, false, dg, sk⟩

/-- polynomial of one vector entry -/
def entryPoly (index : Nat) : Gen.VecEntry → Poly
  | .zero => Poly.const .o
  | .tri a b c => Poly.fromScalars index [a, b, c]

/-- `Analysis.create_vector`: identity classes of the operands select the table row -/
def createVector (index : Nat) (op : String) (x : String) (y z : Option String) : M (Nat × List Poly) :=
  if !Gen.binOps.contains op then throw "AssertionError"
  else
    let cy : Option Nat := y.map fun y => if y == x then 0 else 1
    let cz : Option Nat := z.map fun z =>
      if z == x then 0
      else match y with
        | some y => if z == y then 1 else if y == x then 1 else 2
        | none => 1
    pure (index + 1, (Gen.vectorTable op cy cz).map (entryPoly index))

/-- operand of a binary operation after `rm_cast`: must be a Constant or an ID -/
def operandName : Node → M (Option String)
  | .id n => pure (some n)
  | .const .. => pure none
  | _ => throw "AssertionError"

/-- `dict.fromkeys` order of `(x, y, z)` -/
def dedupOpt (l : List (Option String)) : List (Option String) :=
  l.foldl (fun acc v => if acc.contains v then acc else acc ++ [v]) []

/-- `Analysis.binary_op` for `x = l op r` (operands still possibly wrapped in casts) -/
def binaryOp (index : Nat) (x : String) (op : String) (l r : Node) : M (Nat × RelList) := do
  let y ← operandName l.rmCast
  let z ← operandName r.rmCast
  let (index', vector) ← createVector index op x y z
  let rels : RelList := [Relation.identityOpt (dedupOpt [some x, y, z])]
  let rels ← RelList.replaceColumn rels vector x
  pure (index', rels)

/-- `Analysis.id` for `x = y` -/
def idAsgn (x y : String) : M RelList :=
  if x == y then pure RelList.empty
  else RelList.replaceColumn (RelList.identity [x, y]) [Poly.const .o, Poly.const .m] x

/-- `Analysis.constant` -/
def constAsgn (x : String) : RelList := RelList.ofVars [x]

/-- `rewrite_id_inc_dec`: `(name, op)` of the rewritten `name = name op 1` -/
def incDecParts (op : String) (e : Node) : M (String × String) :=
  match e.rmCast with
  | .id n => pure (n, String.ofList (op.toList.drop (op.length - 1)))
  | _ => throw "AttributeError"

/-- `Analysis.compound` applied to a list of already analysed pieces: composition from the
    empty relation list -/
def composeAll (pieces : List RelList) : RelList :=
  pieces.foldl RelList.composition RelList.empty

/-- `Analysis.unary_asgn` for `x = op e`.  The code builds a fresh node and calls
    `compute_relation` on it; the rewritten nodes are shallow, so the model computes their
    relations directly.  Returns `none` for the `_unsupported` path. -/
def unaryAsgn (index : Nat) (x : String) (op : String) (e0 : Node) : M (Option (Nat × RelList)) := do
  let e := e0.rmCast    -- `right = Analysis.rm_cast(node.rvalue.expr)`
  let step1 : Option (Nat × RelList) := match e with
    | .const .. => some (index, constAsgn x)
    | _ => none
  let step2 : Option (Nat × RelList) ← match e with
    | .id r => do
      let mut res := step1
      if Gen.incDec.contains op then
        let (nm, bop) ← incDecParts op e
        let (i1, fst) ← binaryOp index nm bop (.id nm) (.const "int" "1")
        let snd ← idAsgn x r
        -- compound([fst, snd]) for a prefix operator, compound([snd, fst]) otherwise
        res := some (i1, if Gen.prefixOps.contains op then composeAll [fst, snd] else composeAll [snd, fst])
      if op == Gen.opMinus then
        let (i1, rl) ← binaryOp index x Gen.opMult (.id r) (.const "int" "-1")
        res := some (i1, rl)
      if op == Gen.opPlus then
        res := some (index, ← idAsgn x r)
      pure res
    | _ => pure step1
  let step3 := if op == Gen.opNeg then some (index, constAsgn x) else step2
  let step4 := if op == Gen.opSizeof then some (index, constAsgn x) else step3
  pure step4

/-- `Analysis.while_loop` (also do-while) once the single child `node.stmt` has been analysed.
    `q` = run to completion (`cmds(stop=False)`): the delta graph is a `_NoDeltaGraph`. -/
def whileFinish (q : Bool) (rb : Out) : M Out :=
  if rb.exit then pure rb
  else do
    let rels := RelList.composition RelList.empty rb.rels
    let rels ← RelList.fixpoint rels
    if q then
      -- run to completion: `_NoDeltaGraph` records nothing and never reports failure
      let (rels, _) ← RelList.whileCorrection rels []
      pure ⟨rb.index, rels, false, rb.dg, rb.skipped⟩
    else
      let (rels, dg') ← RelList.whileCorrection rels rb.dg
      let dg'' ← DG.fusion dg'
      pure ⟨rb.index, rels, DG.isEmpty dg'', dg'', rb.skipped⟩

/-- `Analysis.for_loop` once the body has been analysed (`x` = the loop guard variable) -/
def forFinish (q : Bool) (x : String) (rb : Out) : M Out :=
  if rb.exit then pure rb
  else do
    let rels := RelList.composition (RelList.ofVars [x]) rb.rels
    let rels ← RelList.fixpoint rels
    if q then
      let (rels, _) ← RelList.loopCorrection rels x []
      pure ⟨rb.index, rels, false, rb.dg, rb.skipped⟩
    else
      let (rels, dg') ← RelList.loopCorrection rels x rb.dg
      let dg'' ← DG.fusion dg'
      pure ⟨rb.index, rels, DG.isEmpty dg'', dg'', rb.skipped⟩

mutual
/-- `Analysis.compute_relation` -/
def compute (q : Bool) (index : Nat) (dg : DG.Graph) : Node → M Out
  | .ret _ => pure (skip index dg)
  | .brk => pure (skip index dg)
  | .cont => pure (skip index dg)
  | .empty => pure (skip index dg)
  | .decl .. => pure (skip index dg)
  | n@(.assign _ (.id x) r) => do
    match r.rmCast with          -- `rvalue = Analysis.rm_cast(node.rvalue)`
    | .binop op l rr =>
      let (i, rl) ← binaryOp index x op l rr
      pure ⟨i, rl, false, dg, []⟩
    | .const .. => pure ⟨index, constAsgn x, false, dg, []⟩
    | .unop op e =>
      match ← unaryAsgn index x op e with
      | some (i, rl) => pure ⟨i, rl, false, dg, []⟩
      | none => pure (skip index dg [n.cls])
    | .id y =>
      pure ⟨index, ← idAsgn x y, false, dg, []⟩
    | _ => pure (skip index dg [n.cls])
  | .unop op e =>
    if Gen.incDec.contains op && e.rmCast.isId then do
      let (nm, bop) ← incDecParts op e
      let (i, rl) ← binaryOp index nm bop (.id nm) (.const "int" "1")
      pure ⟨i, rl, false, dg, []⟩
    else pure (skip index dg)
  | .ifs _ t f => do
    let rt ← branch q index dg t
    if rt.exit then pure rt
    else
      let rf ← branch q rt.index rt.dg f
      if rf.exit then pure { rf with skipped := rt.skipped ++ rf.skipped }
      else pure ⟨rf.index, RelList.add rf.rels rt.rels, false, rf.dg, rt.skipped ++ rf.skipped⟩
  | .while_ _ b => do whileFinish q (← compute q index dg b)
  | .doWhile _ b => do whileFinish q (← compute q index dg b)
  | n@(.for_ _ _ _ b) => do
    let (comp, x) ← Syntax.loopCompat n
    match comp, x with
    | true, some x => do forFinish q x (← compute q index dg b)
    | _, _ => pure (skip index dg)
  | .compound none => pure (skip index dg)
  | .compound (some l) => computeList q index dg RelList.empty [] l
  | .label _ st => compute q index dg st                           -- a label is only a marker
  | .exprList es => computeList q index dg RelList.empty [] es     -- `compound(Compound(node.exprs))`
  | .cast e => compute q index dg e                                -- `(type) e;` has the effect of `e;`
  | n@(.funcCall name _) =>
    if Syntax.isAssertAssume name then pure (skip index dg) else pure (skip index dg [n.cls])
  | n => pure (skip index dg [n.cls])
/-- body of `Analysis.compound`: compose, THEN test the exit flag -/
def computeList (q : Bool) (index : Nat) (dg : DG.Graph) (acc : RelList) (sk : List String) : List Node → M Out
  | [] => pure ⟨index, acc, false, dg, sk⟩
  | n :: ns => do
    let r ← compute q index dg n
    let acc' := RelList.composition acc r.rels
    if r.exit then pure ⟨r.index, acc', true, r.dg, sk ++ r.skipped⟩
    else computeList q r.index r.dg acc' (sk ++ r.skipped) ns
/-- `Analysis.if_branch`: a Compound is walked item-wise (exit BEFORE composing), any other
    node is a single child, an absent branch is the empty relation list -/
def branch (q : Bool) (index : Nat) (dg : DG.Graph) : Option Node → M Out
  | none => pure (skip index dg)
  | some (.compound none) => pure (skip index dg)
  | some (.compound (some l)) => branchList q index dg RelList.empty [] l
  | some n => do
    let r ← compute q index dg n
    if r.exit then pure ⟨r.index, RelList.empty, true, r.dg, r.skipped⟩
    else pure ⟨r.index, RelList.composition RelList.empty r.rels, false, r.dg, r.skipped⟩
def branchList (q : Bool) (index : Nat) (dg : DG.Graph) (acc : RelList) (sk : List String) : List Node → M Out
  | [] => pure ⟨index, acc, false, dg, sk⟩
  | n :: ns => do
    let r ← compute q index dg n
    if r.exit then pure ⟨r.index, acc, true, r.dg, sk ++ r.skipped⟩
    else branchList q r.index r.dg (RelList.composition acc r.rels) (sk ++ r.skipped) ns
end

/-- `Analysis.cmds` -/
def cmds (rels : RelList) (index : Nat) (nodes : List Node) (stop : Bool) :
    M (Bool × Nat × RelList × List String) :=
  if nodes.isEmpty then pure (false, index, rels, [])
  else
    let rec go (rels : RelList) (index : Nat) (dg : DG.Graph) (inf : Bool) (sk : List String) :
        List Node → M (Bool × Nat × RelList × List String)
      | [] => pure (inf, index, rels, sk)
      | n :: ns => do
        let r ← compute (!stop) index dg n
        let inf' := inf || r.exit
        if stop && inf' then pure (inf', r.index, rels, sk ++ r.skipped)
        else go (RelList.composition rels r.rels) r.index r.dg inf' (sk ++ r.skipped) ns
    go rels index [] false [] nodes

/-- The observable part of a `FuncResult` (timestamps and `func_code` aside). -/
structure FuncRes where
  name : String
  infinite : Bool
  variables : List String
  relation : Option Relation
  choices : Option Choices.T
  index : Nat
  infFlows : Option String
  skipped : List String
  deriving Repr

def funcName : Node → String
  | .funcDef (.decl (some n) _ _) _ => n
  | _ => ""

/-- `Analysis.func` (the bound is computed from `choices.first`, see `boundAt`) -/
def func (node : Node) (stop : Bool) : M FuncRes := do
  let vars ← Syntax.variables node
  let body := match node with
    | .funcDef _ (.compound (some l)) => l
    | _ => []
  let (deltaInf, index, rels, sk) ← cmds (RelList.identity vars) 0 body stop
  let first := rels.headD (Relation.new [])
  let (evaluated, choices) ← (if !deltaInf then do
      let c ← first.eval Gen.domain index
      pure (true, some c)
    else pure (false, none))
  let chInf := match choices with
    | some c => Choices.infinite c
    | none => false
  let infinite := deltaInf || (evaluated && chInf)
  let infFlows ← (if infinite && !stop then do
      let failing ← first.vars.filterM fun v => do
        let c ← first.varEval Gen.domain index v
        pure (Choices.infinite c)
      pure (some (first.inftyPairs failing))
    else pure none)
  pure {
    name := funcName node, infinite := infinite, variables := first.vars,
    relation := if infinite && stop then none else some first,
    choices := if infinite then none else choices,
    index := index, infFlows := infFlows, skipped := sk }

/-- `Bound().calculate(relation.apply_choice(*choice))`: per variable the (m,w,p) name lists -/
def boundAt (r : Relation) (c : Choice) : List (String × List String × List String × List String) :=
  let mat := r.applyChoice c
  (r.vars.zipIdx).map fun (name, col) =>
    (name, Bound.columnTriple ((r.vars.zipIdx).map fun (rv, row) => (rv, (mat.getD row []).getD col .o)))

end Analysis
end Mwp

namespace Mwp
namespace LoopAnalysis
open Analysis

/-- observable part of a `VResult` -/
structure VRes where
  name : String
  isM : Bool
  isW : Bool
  isP : Bool
  choices : Option Choices.T
  deriving Repr

def VRes.unbounded (v : String) : VRes := ⟨v, false, false, false, none⟩

/-- the variables with a flow (a monomial `m`, `w` or `p`) into column `col`, other than the
    column's own variable -/
def sources (rel : Relation) (col : Nat) : List String :=
  rel.vars.zipIdx.filterMap fun (u, i) =>
    if i != col && (Matrix.get rel.mat i col).any (fun m => m.scalar == .m || m.scalar == .w || m.scalar == .p)
    then some u else none

/-- `Choices.choice_reduce(*c)` for a non-empty argument list -/
def choiceReduce : List Choices.T → Option Choices.T
  | [] => none
  | c :: cs => some (cs.foldl Choices.intersection c)

/-- `LoopAnalysis.get_result`: the three-rung ladder m / w / p over the column of `v`; a choice
    counts only if it is also valid for every variable that flows into `v`.  No rung: the
    variable stays without a bound. -/
def getResult (rel : Relation) (index : Nat) (v : String) : M VRes := do
  match rel.vars.idxOf? v with
  | none => throw "ValueError"
  | some col =>
    let srcs := sources rel col
    let valid ← (do
      let cs ← srcs.mapM (fun u => rel.varEval Gen.domain index u [])
      pure (choiceReduce cs) : M (Option Choices.T))
    let rung (scalars : List Scalar) : M Choices.T := do
      let c ← rel.varEval Gen.domain index v scalars
      pure (match valid with
        | some va => if !Choices.infinite c then Choices.intersection c va else c
        | none => c)
    let cm ← rung [.w, .p]
    if !Choices.infinite cm then pure ⟨v, true, true, true, some cm⟩
    else
      let cw ← rung [.p]
      if !Choices.infinite cw then pure ⟨v, false, true, true, some cw⟩
      else
        let cp ← rung []
        if !Choices.infinite cp then pure ⟨v, false, false, true, some cp⟩
        else pure (VRes.unbounded v)

/-- `LoopAnalysis.maybe_result`; `pick` is `red.first`, the choice the implementation drew from the
    intersection of the per-variable choice objects (its position in a hash-ordered set is not
    modelled; the harness observes it). -/
def maybeResult (rel : Relation) (index : Nat) (pick : Option (List Nat)) : M (List VRes) := do
  let flags ← rel.vars.mapM fun v => do
    let c ← rel.varEval Gen.domain index v
    pure (v, Choices.infinite c)
  let fail := (flags.filter (·.2)).map (·.1)
  let rest := (flags.filter (fun f => !f.2)).map (·.1)
  let failIdx := fail.filterMap fun v => rel.vars.idxOf? v
  let failRes := fail.map VRes.unbounded
  if rest.isEmpty then pure failRes
  else
    match pick with
    | none => throw "AssertionError"     -- `assert not red.infinite`
    | some ch =>
      let simple := rel.applyChoice ch
      let restRes ← rest.mapM fun v => do
        match rel.vars.idxOf? v with
        | none => throw "ValueError"
        | some idx =>
          let deps := failIdx.map fun fi => (simple.getD fi []).getD idx .o
          if !deps.isEmpty && deps.all (· == .o) then getResult rel index v
          else pure (VRes.unbounded v)
      pure (failRes ++ restRes)

/-- `LoopAnalysis.inspect` up to the point where results per variable are computed:
    relation, degree, "some variable fails" -/
def inspectRel (loop : Node) : M (Relation × Nat × Bool) := do
  let vars ← Syntax.variables loop
  let (inf, index, rels, _) ← cmds (RelList.identity vars) 0 [loop] false
  let first := rels.headD (Relation.new [])
  let c ← first.eval Gen.domain index
  pure (first, index, inf || Choices.infinite c)

def inspect (loop : Node) (pick : Option (List Nat)) : M (List VRes) := do
  let (rel, index, infty) ← inspectRel loop
  if !infty then rel.vars.mapM (getResult rel index)
  else maybeResult rel index pick

end LoopAnalysis
end Mwp
