/-
  pycparser-shaped syntax tree as pymwp sees it.  One constructor per c_ast class
  that some pymwp walker inspects; every other class is `other cls name kids`
  (its string-valued `name` attribute, if any, and all its children), so the model
  receives exactly the tree the implementation receives.  Import-free.
-/
import Mwp.Base
namespace Mwp

inductive Node where
  | id (name : String)
  | const (ty value : String)
  | binop (op : String) (l r : Node)
  | unop (op : String) (e : Node)
  | cast (e : Node)
  | assign (op : String) (l r : Node)
  | funcCall (name : Node) (args : Option Node)
  | exprList (es : List Node)
  | ternary (c t f : Node)
  | arrayRef (name sub : Node)
  | decl (name : Option String) (ty : Node) (init : Option Node)
  | typeDecl
  | declList (ds : List Node)
  | compound (items : Option (List Node))
  | ifs (cond : Node) (t f : Option Node)
  | while_ (cond body : Node)
  | doWhile (cond body : Node)
  | for_ (init cond next : Option Node) (body : Node)
  | ret (e : Option Node)
  | brk | cont | empty
  | label (name : String) (s : Node)
  | goto (name : String)
  | switch (cond body : Node)
  | case_ (e : Node) (stmts : List Node)
  | default_ (stmts : List Node)
  | paramList (ps : List Node)
  | funcDecl (args : Option Node)
  | funcDef (decl : Node) (body : Node)
  | other (cls : String) (name : Option String) (kids : List Node)
  deriving Repr, Inhabited, BEq

namespace Node

/-- pycparser class name -/
def cls : Node → String
  | id _ => "ID" | const .. => "Constant" | binop .. => "BinaryOp" | unop .. => "UnaryOp"
  | cast _ => "Cast" | assign .. => "Assignment" | funcCall .. => "FuncCall"
  | exprList _ => "ExprList" | ternary .. => "TernaryOp" | arrayRef .. => "ArrayRef"
  | decl .. => "Decl" | typeDecl => "TypeDecl" | declList _ => "DeclList"
  | compound _ => "Compound" | ifs .. => "If" | while_ .. => "While" | doWhile .. => "DoWhile"
  | for_ .. => "For" | ret _ => "Return" | brk => "Break" | cont => "Continue"
  | empty => "EmptyStatement" | label .. => "Label" | goto _ => "Goto" | switch .. => "Switch"
  | case_ .. => "Case" | default_ _ => "Default" | paramList _ => "ParamList"
  | funcDecl _ => "FuncDecl" | funcDef .. => "FuncDef" | other c _ _ => c

def isId : Node → Bool | id _ => true | _ => false
def isConst : Node → Bool | const .. => true | _ => false
def isCast : Node → Bool | cast _ => true | _ => false
def isBinop : Node → Bool | binop .. => true | _ => false
def isUnop : Node → Bool | unop .. => true | _ => false
def isCompound : Node → Bool | compound _ => true | _ => false
def isEmptyStmt : Node → Bool | empty => true | _ => false
def isLoop : Node → Bool | while_ .. => true | doWhile .. => true | for_ .. => true | _ => false

/-- `Parser.is_loop`: a loop statement whose body is present and not the empty statement -/
def isLoopNonEmpty : Node → Bool
  | while_ _ b => !b.isEmptyStmt
  | doWhile _ b => !b.isEmptyStmt
  | for_ _ _ _ b => !b.isEmptyStmt
  | _ => false

/-- `Parser.is_func` -/
def isFunc : Node → Bool
  | funcDef _ b => b.isCompound
  | _ => false

/-- `Analysis.rm_cast` -/
def rmCast : Node → Node
  | cast e => rmCast e
  | n => n

/-- strip ONE cast (`x.expr if isinstance(x, Cast) else x`) -/
def rmCast1 : Node → Node
  | cast e => e
  | n => n

end Node
end Mwp
