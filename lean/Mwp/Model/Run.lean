/-
  Model of the file-level drivers: `Analysis.run` and `LoopAnalysis.run` (pymwp/analysis.py):
  the loop over the function definitions of a file, the syntax gate (`Analysis.syntax_check`:
  refuse in strict mode, otherwise analyse the tree with the unsupported statements removed) and
  the result dictionary (`Result.add_relation` / `Result.add_loop`: keyed by function name, a
  later definition with the same name replaces the earlier entry in place).  Import-free apart
  from the model.
-/
import Mwp.Model.Analysis
namespace Mwp
namespace Run
open Analysis

/-- `Analysis.syntax_check(node, strict)`: `none` = analysis refused (strict mode, something
    unsupported); otherwise the tree to analyse (`ast_mod` applied when something was omitted). -/
def syntaxCheck (n : Node) (strict : Bool) : M (Option Node) := do
  let (k, m) ← Syntax.coverage n
  if k > 0 && strict then pure none else pure (some (if k > 0 then m else n))

/-- Python dict assignment `d[key] = v`: replace in place, else append (insertion order kept). -/
def dictSet {α : Type} (d : List (String × α)) (key : String) (v : α) : List (String × α) :=
  if d.any (fun e => e.1 == key) then d.map (fun e => if e.1 == key then (key, v) else e)
  else d ++ [(key, v)]

/-- what `Analysis.run` does for ONE function definition: `none` when the syntax gate refuses it -/
def runOne (f : Node) (fin strict : Bool) : M (Option FuncRes) := do
  match ← syntaxCheck f strict with
  | none => pure none
  | some n => do let r ← func n (!fin); pure (some r)

/-- `Analysis.run(ast, fin=…, strict=…).relations` for the function definitions `fs` of a file,
    in dictionary order -/
def run (fs : List Node) (fin strict : Bool) : M (List (String × FuncRes)) :=
  fs.foldlM (fun acc f => do
    match ← runOne f fin strict with
    | none => pure acc
    | some r => pure (dictSet acc r.name r)) []

/-- `pr.is_loop(node)`: a loop statement whose body is not the empty statement -/
def isLoop : Node → Bool
  | .while_ _ b => !(b matches .empty)
  | .doWhile _ b => !(b matches .empty)
  | .for_ _ _ _ b => !(b matches .empty)
  | _ => false

/-- what `LoopAnalysis.run` does for ONE discovered loop: the syntax gate on the loop alone, then
    `is_loop` on what is left; `some n` = `LoopAnalysis.inspect` is called on the tree `n`
    (its result is `LoopAnalysis.inspect n pick`, see Model/Analysis.lean), `none` = no result -/
def loopOne (loop : Node) (strict : Bool) : M (Option Node) := do
  match ← syntaxCheck loop strict with
  | none => pure none
  | some n => pure (if isLoop n then some n else none)

/-- the loops of one function that get a result, as analysed, in discovery order -/
def loopsOfFunc (f : Node) (strict : Bool) : M (List Node) := do
  let loops ← Syntax.loopsN f
  let rs ← loops.mapM (fun l => loopOne l strict)
  pure (rs.filterMap id)

/-- `LoopAnalysis.run(ast, strict=…).loops`: per function name (dictionary order) the loops that
    are analysed -/
def runLoops (fs : List Node) (strict : Bool) : M (List (String × List Node)) :=
  fs.foldlM (fun acc f => do
    let ls ← loopsOfFunc f strict
    pure (dictSet acc (funcName f) ls)) []

end Run
end Mwp
