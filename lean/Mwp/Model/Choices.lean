/-
  Model of pymwp/choice.py (class Choices).  Import-free.

  Python works on *sets* of delta sequences and iterates them in hash order.
  The model keeps duplicate-free lists in one fixed order; every theorem about
  it (Props/C04) is about the ACCEPTED SET of choice vectors, which does not
  depend on that order, and the correspondence compares accepted sets.
  Errors (`IndexError`) are `Except.error`.
-/
import Mwp.Base
namespace Mwp
namespace Choices

abbrev Seq := List Delta
/-- a choice vector in compact form: the allowed values at each index -/
abbrev Vect := List (List Nat)
abbrev M := Except String

def insertNew {α} [BEq α] (l : List α) (x : α) : List α := if l.contains x then l else l ++ [x]
def dedup {α} [BEq α] (l : List α) : List α := l.foldl insertNew []

/-- `set(match).issubset(set(item))` -/
def subsetOf (a b : Seq) : Bool := a.all (fun d => b.contains d)

/-- `Choices.remove_subset`: drop every item that contains `m` -/
def removeSubset (m : Seq) (items : List Seq) : List Seq := items.filter (fun it => !subsetOf m it)

def head! (s : Seq) : M Delta := match s with
  | [] => throw "IndexError"
  | d :: _ => pure d
def last! (s : Seq) : M Delta := match s.getLast? with
  | none => throw "IndexError"
  | some d => pure d

/-- `Choices.sub_equal` -/
def subEqual (a b : Seq) : M Bool := do
  let x ← head! a; let y ← head! b
  pure (x.2 == y.2 && a.tail == b.tail)

/-- `Choices.sub_equal_end` -/
def subEqualEnd (a b : Seq) : M Bool := do
  let x ← last! a; let y ← last! b
  pure (x.2 == y.2 && a.dropLast == b.dropLast)

def sameSet (a b : List Nat) : Bool := a.all b.contains && b.all a.contains

/-- `Choices._reduce` for the front (`fromEnd = false`) or the back (`fromEnd = true`).
    Returns the new set when a reduction happened. -/
def reduceOnce (domain : List Nat) (fromEnd : Bool) (seqs : List Seq) : M (Option (List Seq)) := do
  let cands := seqs.filter (fun s => s.length > 1)
  let rec go : List Seq → M (Option (List Seq))
    | [] => pure none
    | s1 :: rest => do
      let matching ← seqs.filterM (fun s2 => if fromEnd then subEqualEnd s1 s2 else subEqual s1 s2)
      let subs ← matching.mapM (fun s2 => do
        let d ← (if fromEnd then last! s2 else head! s2); pure d.1)
      if sameSet subs domain then
        let keep := if fromEnd then s1.dropLast else s1.tail
        pure (some (insertNew (removeSubset keep seqs) keep))
      else go rest
  go cands

/-- `while Choices.reduce(...): continue` with explicit fuel -/
def reduceAll (domain : List Nat) (fromEnd : Bool) : Nat → List Seq → M (List Seq)
  | 0, seqs => pure seqs
  | fuel + 1, seqs => do
    match ← reduceOnce domain fromEnd seqs with
    | none => pure seqs
    | some seqs' => reduceAll domain fromEnd fuel seqs'

/-- insertion sort by length, stable (`sorted(..., key=len)`) -/
def sortByLen (l : List Seq) : List Seq :=
  l.foldr (fun x acc => let (a, b) := acc.span (fun y => y.length < x.length); a ++ x :: b) []

/-- `Choices.unique_sequences` -/
def uniqueSequences (seqs : List Seq) : List Seq :=
  let rec go : Nat → List Seq → List Seq → List Seq
    | 0, _, acc => acc
    | _, [], acc => acc
    | fuel + 1, f :: rest, acc => go fuel (removeSubset f rest) (insertNew acc f)
  go (seqs.length + 1) (sortByLen seqs) []

/-- `Choices.except_one` -/
def exceptOne (domain : List Nat) (seqs : List Seq) : List Seq :=
  let singles : List Delta := seqs.filterMap (fun s => match s with | [d] => some d | _ => none)
  let rec go : List Delta → List Seq → List Seq
    | [], seqs => seqs
    | (v, index) :: l1, seqs =>
      let values := (l1.filter (fun d => d.2 == index)).map (·.1)
      let find := (domain.filter (fun c => c != v && !values.contains c)).map (fun c => (c, index))
      match find with
      | [f] =>
        let hit := seqs.filter (fun s => s.contains f && s.length > 1)
        let seqs' := hit.foldl (fun acc p => insertNew (acc.filter (· != p)) (p.filter (· != f))) seqs
        go l1 seqs'
      | _ => go l1 seqs
  go singles seqs

def totalLen (seqs : List Seq) : Nat := (seqs.map List.length).foldl (· + ·) 0

/-- `Choices.simplify` -/
def simplify (domain : List Nat) (seqs : List Seq) : M (List Seq) :=
  let rec loop : Nat → List Seq → M (List Seq)
    | 0, seqs => pure seqs
    | fuel + 1, seqs => do
      let before := seqs.length
      let s ← reduceAll domain false (totalLen seqs + 1) seqs
      let s ← reduceAll domain true (totalLen s + 1) s
      let s := uniqueSequences s
      let s := exceptOne domain s
      if before == s.length || s.length == 0 then pure s else loop fuel s
  -- the empty sequence matches every choice vector: nothing else matters
  if seqs.contains [] then pure [[]] else loop (seqs.length + 2) (dedup seqs)

/-- cross product of the sequences: one delta picked from each (`itertools`-free rendering of
    the `iter_i` loop; same enumeration order: last sequence varies fastest) -/
def sections : List Seq → List (List Delta)
  | [] => [[]]
  | s :: rest => s.flatMap fun d => (sections rest).map (d :: ·)

/-- `Choices.vect_contains(a, b)`: a allows every choice of b -/
def vectContains (a b : Vect) : Bool := (a.zip b).all fun (sup, sub) => sub.all sup.contains

/-- build one vector from picked deltas; IndexError when a delta index is outside the vector -/
def vectorOf (domain : List Nat) (index : Nat) (deltas : List Delta) : M Vect :=
  deltas.foldlM (init := List.replicate index domain) fun v (c, i) =>
    if i < index then pure (v.set i ((v.getD i []).filter (· != c)))
    else throw "IndexError"

/-- one iteration of the `for iter_i in range(max_)` loop of `build_choices` -/
def buildStep (domain : List Nat) (index : Nat) (distinct : Bool) (vectors : List Vect)
    (pick : List Delta) : M (List Vect) := do
  let ds := dedup pick
  let idxs := ds.map (·.2)
  let valid := (dedup idxs).all fun n => (idxs.filter (· == n)).length < domain.length
  if !valid then pure vectors
  else
    let v ← vectorOf domain index ds
    -- `vect_new` only looks at the first vector of the set
    let isNew := match vectors with
      | [] => true
      | f :: _ => !vectContains f v
    if distinct then pure (insertNew vectors v)
    else if isNew then pure (insertNew (vectors.filter (fun w => !vectContains v w)) v)
    else pure vectors

/-- `Choices.build_choices` -/
def buildChoices (domain : List Nat) (index : Nat) (inf : List Seq) : M (List Vect) :=
  if inf.isEmpty then pure [List.replicate index domain]
  else
    let sorted := sortByLen inf
    let allDeltas := sorted.flatten
    let distinct := !allDeltas.isEmpty && (dedup allDeltas).length == allDeltas.length
    (sections sorted).foldlM (buildStep domain index distinct) []

structure T where
  valid : List Vect
  index : Int
  deriving Repr

/-- `Choices.__init__` -/
def mk (valid : List Vect) (index : Int) : T :=
  if index < 0 && !valid.isEmpty then ⟨valid, (valid.headD []).length⟩ else ⟨valid, index⟩

/-- `Choices.generate` -/
def generate (domain : List Nat) (index : Nat) (inf : List Seq) : M T := do
  let s ← simplify domain inf
  let v ← buildChoices domain index s
  pure (mk v index)

def infinite (c : T) : Bool := c.valid.isEmpty && c.index ≥ 0

/-- `Choices.first` -/
def first (c : T) : M (Option (List Nat)) :=
  if infinite c then pure none
  else match c.valid with
    | [] => throw "IndexError"
    | v :: _ => do
      let picks ← v.mapM fun ch => match ch with
        | [] => throw "IndexError"
        | x :: _ => pure x
      pure (some picks)

/-- `Choices.is_valid` (prefix semantics) -/
def isValid (c : T) (choices : List Nat) : Bool :=
  c.valid.any fun vector =>
    choices.length ≤ vector.length &&
    (choices.zip vector).all fun (value, allowed) => allowed.contains value

/-- `Choices.all` -/
def all (c : T) : List (List Nat) :=
  c.valid.flatMap fun v => v.foldr (fun ch acc => ch.flatMap fun x => acc.map (x :: ·)) [[]]

/-- `Choices.vect_intersection` -/
def vectIntersection (a b : Vect) : Option Vect :=
  let tmp := (a.zip b).map fun (av, bv) => av.filter bv.contains
  if tmp.any List.isEmpty then none else some tmp

/-- `Choices.intersection` -/
def intersection (c1 c2 : T) : T :=
  mk (c1.valid.flatMap fun v1 => c2.valid.filterMap fun v2 => vectIntersection v1 v2) c1.index

/-- Specification: the vectors of length `n` over `domain` that match none of the sequences. -/
def matchesSeq (s : Seq) (v : List Nat) : Bool := s.all fun d => v[d.2]? == some d.1

end Choices
end Mwp
