/-
  Model of pymwp/__main__.py: the argparse table (REGENERATED, Gen.Cli) applied to an argument
  vector, and the plumbing from the parsed options to the library call and the output file.
  Import-free.  Process, filesystem, logging and the C pre-processor are not modelled.
-/
import Mwp.Gen.Cli
namespace Mwp
namespace Cli

abbrev M := Except String

/-- look an option up by one of its flag spellings -/
def findOpt (flag : String) : Option Gen.CliOpt := Gen.cliOptions.find? (fun o => o.flags.contains flag)

/-- `type=str.upper` followed by the `choices` test: the choice (all are upper case) that `v`
    upper-cases to, else `v` itself (which the `choices` test then rejects) -/
def upperTo (choices : List String) (v : String) : String :=
  (choices.find? fun c => (v.toList.map Char.toUpper) == c.toList).getD v

def isFlagLike (s : String) : Bool := s.toList.head? == some '-'

/-- argparse on the option table: `store_true` flags set "True", `store` options take the next
    argument (upper-cased for `--mode` / `--license`, validated against `choices`), the first
    non-flag argument is the positional.  Unknown flags and missing values are errors (exit 2).
    The namespace is an association list, latest binding first (`List.lookup` finds it). -/
def parseArgs : List String → List (String × String) → M (List (String × String))
  | [], acc => pure acc
  | a :: rest, acc =>
    if isFlagLike a then
      match findOpt a with
      | none => throw "SystemExit2"
      | some o =>
        if o.kind == "StoreTrueAction" then parseArgs rest ((o.dest, "True") :: acc)
        else if o.kind == "StoreAction" then
          match rest with
          | [] => throw "SystemExit2"
          | v :: rest' =>
            if isFlagLike v then throw "SystemExit2"
            else
              let v' := if o.dest == "mode" || o.dest == "license" then upperTo o.choices v else v
              if !o.choices.isEmpty && !o.choices.contains v' then throw "SystemExit2"
              else parseArgs rest' ((o.dest, v') :: acc)
        else throw "SystemExit0"     -- help / version
    else
      if acc.any (·.1 == "input_file") then throw "SystemExit2"
      else parseArgs rest (("input_file", a) :: acc)

/-- value of an option after parsing: explicit, else the table default -/
def optVal (ns : List (String × String)) (dest : String) : Option String :=
  match ns.lookup dest with
  | some v => some v
  | none => (Gen.cliOptions.find? (·.dest == dest)).bind (·.default)

def flagSet (ns : List (String × String)) (dest : String) : Bool := optVal ns dest == some "True"

/-- `os.path.basename(os.path.splitext(p)[0])` on character lists -/
def stem (path : String) : String :=
  let cs := path.toList
  let base := (cs.reverse.takeWhile (· != '/')).reverse
  -- splitext: the extension starts at the last dot that is not the leading character(s) of the base name
  let lead := base.takeWhile (· == '.')
  let body := base.drop lead.length
  let rev := body.reverse
  let ext := rev.takeWhile (· != '.')
  if ext.length == rev.length then String.ofList base          -- no dot in the body: no extension
  else String.ofList (lead ++ (rev.drop (ext.length + 1)).reverse)

/-- `file_io.default_file_out` -/
def defaultFileOut (input : String) : String := "output/" ++ stem input ++ ".json"

/-- what `main()` does with the parsed options -/
structure Plan where
  input : String
  loopMode : Bool
  fin : Bool
  strict : Bool
  useCpp : Bool
  save : Option String        -- path of the JSON file written, `none` with --no_save
  deriving Repr, DecidableEq

def plan (argv : List String) : M Plan := do
  let ns ← parseArgs argv []
  if (optVal ns "license").isSome then throw "SystemExit0"
  match optVal ns "input_file" with
  | none => throw "SystemExit1"      -- prints help
  | some input =>
    let save := if flagSet ns "no_save" then none
      else some ((ns.lookup "out").getD (defaultFileOut input))
    pure { input := input, loopMode := optVal ns "mode" == some "L", fin := flagSet ns "fin",
           strict := flagSet ns "strict", useCpp := !flagSet ns "no_cpp", save := save }

/-- the flag combinations of property C17 -/
structure Flags where
  input : String
  mode : String
  fin : Bool
  strict : Bool
  noSave : Bool
  out : Option String
  noCpp : Bool
  silent : Bool
  info : Bool
  deriving Repr

def Flags.argv (f : Flags) : List String :=
  [f.input, "--mode", f.mode] ++ (if f.fin then ["--fin"] else []) ++ (if f.strict then ["--strict"] else []) ++
  (if f.noSave then ["--no_save"] else []) ++ (match f.out with | some o => ["--out", o] | none => []) ++
  (if f.noCpp then ["--no_cpp"] else []) ++ (if f.silent then ["--silent"] else []) ++
  (if f.info then ["--info"] else [])

end Cli
end Mwp
