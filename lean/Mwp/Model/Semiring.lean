/-
  Model of pymwp/semiring.py.  `sum_mwp`/`prod_mwp` ARE the regenerated tables;
  the string front-end models the `in KEYS` guard (anything else raises).
-/
import Mwp.Gen.Semiring
namespace Mwp
open Gen

instance : Add Scalar := ⟨sumTable⟩
instance : Mul Scalar := ⟨prodTable⟩

theorem Scalar.add_def (a b : Scalar) : a + b = sumTable a b := rfl
theorem Scalar.mul_def (a b : Scalar) : a * b = prodTable a b := rfl

/-- `sum_mwp` on arbitrary strings: `none` models the raised exception. -/
def sumStr (a b : String) : Option String :=
  match Scalar.ofStr? a, Scalar.ofStr? b with
  | some x, some y => some (x + y).toStr
  | _, _ => none

/-- `prod_mwp` on arbitrary strings: `none` models the raised exception. -/
def prodStr (a b : String) : Option String :=
  match Scalar.ofStr? a, Scalar.ofStr? b with
  | some x, some y => some (x * y).toStr
  | _, _ => none

/-- `mwp_sort`: ascending by rank (stable insertion sort). -/
def Scalar.le (a b : Scalar) : Bool := a.rank ≤ b.rank

end Mwp
