/-
  Model of pymwp/matrix.py, pymwp/relation.py and pymwp/relation_list.py.  Import-free.

  Matrices are lists of rows of polynomials.  Mutation (`while_correction`,
  `loop_correction`, `replace_column`) returns the new value; the delta graph the
  corrections write to is threaded explicitly, in the same order as the code's
  row / column / monomial loops.  Python exceptions are `Except.error`.
-/
import Mwp.Model.Polynomial
import Mwp.Model.DeltaGraph
import Mwp.Model.Choices
namespace Mwp

abbrev Matrix := List (List Poly)
abbrev M := Except String

namespace Matrix

def identity (n : Nat) : Matrix :=
  (List.range n).map fun i => (List.range n).map fun j => if i == j then Poly.unit else Poly.zero

def zeros (n : Nat) : Matrix :=
  (List.range n).map fun _ => (List.range n).map fun _ => Poly.zero

/-- `matrix[i][j]`; indices are always in range where the model uses it (square matrices of the
    stated size); the default only makes the function total. -/
def get (m : Matrix) (i j : Nat) : Poly := (m.getD i []).getD j Poly.zero

def setCell (m : Matrix) (i j : Nat) (p : Poly) : Matrix :=
  m.set i ((m.getD i []).set j p)

/-- `matrix_sum` -/
def sum (a b : Matrix) : Matrix :=
  let n := a.length
  (List.range n).map fun i => (List.range n).map fun j => Poly.add (get a i j) (get b i j)

/-- `matrix.__infty`: the ∞-monomials of a polynomial, as a polynomial (0 if none) -/
def inftyPart (p : Poly) : Poly := Poly.ofList ((p.filter (fun m => m.scalar == .i)).map Mono.copy)

/-- `matrix_prod`: left fold from the shared ZERO polynomial, then the ∞-monomials of row `i`
    of the left factor and of column `j` of the right factor are added (0 × ∞ = ∞) -/
def prod (a b : Matrix) : Matrix :=
  let rowInf : List Poly := a.map fun row => row.foldl (fun t p => Poly.add t (inftyPart p)) Poly.zero
  let colInf : List Poly := (List.range b.length).map fun j =>
    b.foldl (fun t row => Poly.add t (inftyPart (row.getD j Poly.zero))) Poly.zero
  (List.range a.length).map fun i => (List.range b.length).map fun j =>
    Poly.add (Poly.add
      ((List.range a.length).foldl (fun total k => Poly.add total (Poly.times (get a i k) (get b k j))) Poly.zero)
      (rowInf.getD i Poly.zero)) (colInf.getD j Poly.zero)

/-- `matrix.resize` -/
def resize (m : Matrix) (newSize : Nat) : Matrix :=
  let bound := min newSize m.length
  (List.range newSize).map fun i => (List.range newSize).map fun j =>
    if i < bound && j < bound then get m i j else if i == j then Poly.unit else Poly.zero

end Matrix

structure Relation where
  vars : List String
  mat : Matrix
  deriving Repr, Inhabited, BEq

namespace Relation

/-- `Relation(variables)` / `Relation(variables, matrix)`: falsy names are filtered, a falsy
    (empty) matrix is replaced by the zero matrix of the right size. -/
def new (vars : List String) (mat : Option Matrix := none) : Relation :=
  let vs := vars.filter (fun v => !v.isEmpty)
  match mat with
  | some m => if m.isEmpty then ⟨vs, Matrix.zeros vs.length⟩ else ⟨vs, m⟩
  | none => ⟨vs, Matrix.zeros vs.length⟩

/-- `Relation.identity(variables)` for a list that may contain `None` (kept in the matrix size,
    dropped from the names -- see `Analysis.binary_op`). -/
def identityOpt (vars : List (Option String)) : Relation :=
  new (vars.filterMap id) (some (Matrix.identity vars.length))

def identity (vars : List String) : Relation := new vars (some (Matrix.identity vars.length))

def isEmpty (r : Relation) : Bool := r.vars.isEmpty || r.mat.isEmpty

/-- `replace_column(vector, varName)`: IndexError when the vector is longer than the matrix. -/
def replaceColumn (r : Relation) (vector : List Poly) (varName : String) : M Relation := do
  let n := r.vars.length
  let base := identity r.vars
  match r.vars.idxOf? varName with
  | none => pure base
  | some j =>
    if vector.length > n then throw "IndexError"
    else
      let mat := (vector.zipIdx).foldl (fun m (v, idx) => Matrix.setCell m idx j v) base.mat
      pure { base with mat := mat }

/-- `Relation.homogenisation` -/
def homogenisation (r1 r2 : Relation) : Relation × Relation :=
  if r1.vars == r2.vars then (r1, r2)
  else if r1.isEmpty then (identity r2.vars, r2)
  else if r2.isEmpty then (r1, identity r1.vars)
  else
    let ext := r1.vars ++ r2.vars.filter (fun v => !r1.vars.contains v)
    let n := ext.length
    let m1 := Matrix.resize r1.mat n
    let m2 : Matrix := (List.range n).map fun mi => (List.range n).map fun mj =>
      match r2.vars.idxOf? (ext.getD mi ""), r2.vars.idxOf? (ext.getD mj "") with
      | some ri, some rj => Matrix.get r2.mat ri rj
      | _, _ => if mi == mj then Poly.unit else Poly.zero
    (new ext (some m1), new ext (some m2))

/-- `Relation.sum` -/
def sum (a b : Relation) : Relation :=
  let (e1, e2) := homogenisation a b
  new e1.vars (some (Matrix.sum e1.mat e2.mat))

/-- `Relation.composition` -/
def composition (a b : Relation) : Relation :=
  let (e1, e2) := homogenisation a b
  new e1.vars (some (Matrix.prod e1.mat e2.mat))

/-- `Relation.equal` -/
def equal (a b : Relation) : Bool :=
  if !(a.vars.all b.vars.contains && b.vars.all a.vars.contains) then false
  else
    let (e1, e2) := homogenisation a b
    (e1.mat.zip e2.mat).all fun (r1, r2) => (r1.zip r2).all fun (p1, p2) => Poly.equal p1 p2

/-- `Relation.fixpoint`; `fuel` bounds the `while True` (returns the iteration count too). -/
def fixpointAux (self : Relation) : Nat → Relation → Relation → Nat → M (Relation × Nat)
  | 0, _, _, _ => throw "Diverged"
  | fuel + 1, fix, current, k =>
    let current' := composition current self
    let fix' := sum fix current'
    if equal fix' fix then pure (fix', k + 1)
    else fixpointAux self fuel fix' current' (k + 1)

def fixFuel (r : Relation) : Nat := 8 * (r.vars.length + 1) * (r.vars.length + 1) + 64

def fixpoint (self : Relation) : M Relation := do
  let start := new self.vars (some (Matrix.identity self.vars.length))
  let (f, _) ← fixpointAux self (fixFuel self) start start 0
  pure f

/-- visit the monomials of one polynomial for `while_correction` -/
def whileFixPoly (diag : Bool) (p : Poly) (g : DG.Graph) : M (Poly × DG.Graph) :=
  p.foldlM (init := ([], g)) fun (acc, g) mon =>
    if mon.scalar == .p || (mon.scalar == .w && diag) then do
      let g' ← DG.insertNode g mon.deltas
      pure (acc ++ [{ mon with scalar := .i }], g')
    else pure (acc ++ [mon], g)

/-- `Relation.while_correction` -/
def whileCorrection (r : Relation) (g : DG.Graph) : M (Relation × DG.Graph) := do
  let (rows, g) ← (r.mat.zipIdx).foldlM (init := ([], g)) fun (rows, g) (row, i) => do
    let (cells, g) ← (row.zipIdx).foldlM (init := ([], g)) fun (cells, g) (p, j) => do
      let (p', g') ← whileFixPoly (i == j) p g
      pure (cells ++ [p'], g')
    pure (rows ++ [cells], g)
  pure ({ r with mat := rows }, g)

/-- the monomial loop of `loop_correction` for cell (i,j): returns the rewritten cell, the
    (possibly updated) row `ell` cell of column j, and the graph -/
def loopFixCell (diag : Bool) (p : Poly) (ellCell : Poly) (g : DG.Graph) : M (Poly × Poly × DG.Graph) :=
  p.foldlM (init := ([], ellCell, g)) fun (acc, ellCell, g) mon => do
    let (mon', g') ← (if diag && mon.scalar != .m then do
        let g' ← DG.insertNode g mon.deltas
        pure ({ mon with scalar := Scalar.i }, g')
      else pure (mon, g))
    let ellCell' := if mon'.scalar == .p then Poly.add ellCell [mon'.copy] else ellCell
    pure (acc ++ [mon'], ellCell', g')

/-- `Relation.loop_correction`.  The code mutates monomials in place and rebinds
    `matrix[ell][j]` while walking the matrix in row-major order; when the walk is on row `ell`
    itself the rebinding is visible to later columns only.  The model walks cells in the same
    order over the current matrix. -/
def loopCorrection (r : Relation) (xVar : String) (g : DG.Graph) : M (Relation × DG.Graph) := do
  match r.vars.idxOf? xVar with
  | none => throw "ValueError"
  | some ell =>
    let n := r.mat.length
    let cells := (List.range n).flatMap fun i => (List.range ((r.mat.getD i []).length)).map fun j => (i, j)
    let (mat, g) ← cells.foldlM (init := (r.mat, g)) fun (mat, g) (i, j) => do
      -- the polynomial object being walked is the one in place when the cell is reached
      let p := Matrix.get mat i j
      let (p', ellCell', g') ← loopFixCell (i == j) p (Matrix.get mat ell j) g
      -- in-place scalar rewrites land in the walked object; a rebinding lands in row `ell`
      -- (when the walked cell is itself in row `ell` the rebinding wins; it can only happen
      -- off the diagonal, where nothing is rewritten, so the value is the same either way)
      let mat1 := Matrix.setCell mat i j p'
      let mat2 := if ellCell' == Matrix.get mat ell j then mat1 else Matrix.setCell mat1 ell j ellCell'
      pure (mat2, g')
    pure ({ r with mat := mat }, g)

/-- `Relation.apply_choice` -/
def applyChoice (r : Relation) (c : Choice) : List (List Scalar) :=
  let n := r.vars.length
  (List.range n).map fun i => (List.range n).map fun j =>
    (Matrix.get r.mat i j).choiceScalar c .o

/-- delta tuples collected by `Relation.eval` (all cells) -/
def infDeltas (r : Relation) (scalars : List Scalar) : List (List Delta) :=
  r.mat.flatMap fun row => row.flatMap fun p => p.evalInf scalars

/-- `Relation.eval` -/
def eval (r : Relation) (domain : List Nat) (index : Nat) (scalars : List Scalar := []) : M Choices.T :=
  Choices.generate domain index (Choices.dedup (r.infDeltas scalars))

/-- delta tuples of one column -/
def colInfDeltas (r : Relation) (col : Nat) (scalars : List Scalar) : List (List Delta) :=
  r.mat.flatMap fun row => (row.getD col Poly.zero).evalInf scalars

/-- `Relation.var_eval` for one variable -/
def varEval (r : Relation) (domain : List Nat) (index : Nat) (v : String) (scalars : List Scalar := []) :
    M Choices.T :=
  match r.vars.idxOf? v with
  | none => throw "ValueError"
  | some col => Choices.generate domain index (Choices.dedup (r.colInfDeltas col scalars))

/-- `Relation.infty_vars` -/
def inftyVars (r : Relation) (onlyIncl : List String) : List (String × List String) :=
  ((r.vars.zip r.mat).map fun (src, polys) =>
    (src, ((r.vars.zip polys).filter fun (tgt, p) =>
      p.someInfty && (onlyIncl.isEmpty || onlyIncl.contains src || onlyIncl.contains tgt)).map (·.1)))
  |>.filter (fun (_, y) => !y.isEmpty)

/-- `Relation.infty_pairs` -/
def inftyPairs (r : Relation) (onlyIncl : List String) : String :=
  " ‖ ".intercalate ((r.inftyVars onlyIncl).map fun (s, t) => s ++ " ➔ " ++ ", ".intercalate t)

end Relation

/-- `RelationList`: the analysis only ever holds one relation per list, but the code's
    cross products are kept. -/
abbrev RelList := List Relation

namespace RelList

def empty : RelList := [Relation.new []]
def ofVars (vs : List String) : RelList := [Relation.new vs]
def identity (vs : List String) : RelList := [Relation.identity vs]

/-- `RelationList.composition` (with the duplicate-matrix filter) -/
def composition (a b : RelList) : RelList :=
  (a.flatMap fun r1 => b.map fun r2 => Relation.composition r1 r2).foldl
    (fun acc r => if acc.any (fun x => x.mat == r.mat) then acc else acc ++ [r]) []

/-- `RelationList.__add__` -/
def add (a b : RelList) : RelList := a.flatMap fun r1 => b.map fun r2 => Relation.sum r1 r2

def fixpoint (a : RelList) : M RelList := a.mapM Relation.fixpoint

def whileCorrection (a : RelList) (g : DG.Graph) : M (RelList × DG.Graph) :=
  a.foldlM (init := ([], g)) fun (acc, g) r => do
    let (r', g') ← r.whileCorrection g
    pure (acc ++ [r'], g')

def loopCorrection (a : RelList) (x : String) (g : DG.Graph) : M (RelList × DG.Graph) :=
  a.foldlM (init := ([], g)) fun (acc, g) r => do
    let (r', g') ← r.loopCorrection x g
    pure (acc ++ [r'], g')

def replaceColumn (a : RelList) (vector : List Poly) (v : String) : M RelList :=
  a.mapM fun r => r.replaceColumn vector v

end RelList
end Mwp
