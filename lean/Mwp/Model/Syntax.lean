/-
  Model of pymwp/syntax.py: Variables, Coverage (+ ast_mod), FindLoops.  Import-free.

  Dispatch follows `BaseAnalysis.recurse` / `node_handler`: a class with a method of
  its own runs it, a class only known to `NodeHandler` does nothing, any other class
  goes to the walker's `handler`.  The own-method set is hard-coded here (constructor
  by constructor); the pass/default sets for `other` classes come from the regenerated
  `Gen.Dispatch` tables.
-/
import Mwp.Model.Ast
import Mwp.Gen.Dispatch
import Mwp.Gen.Vector
namespace Mwp
namespace Syntax

abbrev M := Except String

/-- sorted, duplicate-free (`sorted(self.vars)` after `if name not in self.vars`) -/
def insertName (n : String) : List String → List String
  | [] => [n]
  | a :: as => if n < a then n :: a :: as else if n = a then a :: as else a :: insertName n as
def normVars (l : List String) : List String := l.foldr insertName []

/-- `names(lst)` of `SyntaxUtils.init_vars`: names of the ID / Decl elements -/
def namesOf (l : List Node) : List String :=
  l.filterMap fun
    | .id n => some n
    | .decl (some n) _ _ => some n
    | _ => none

/-- `SyntaxUtils.init_vars` (`att` is `getattr(e, attr, None)`: elements without the attribute
    contribute nothing) -/
def initVars : Option Node → M (List String × List String)
  | none => pure ([], [])
  | some (.declList ds) =>
    let inits := ds.filterMap fun
      | .decl _ _ i => i
      | _ => none
    pure (namesOf ds, namesOf inits)
  | some n =>
    let exp := match n with
      | .exprList es => es
      | _ => [n]
    let ls := exp.filterMap fun
      | .assign _ l _ => some l
      | _ => none
    let rs := exp.filterMap fun
      | .assign _ _ r => some r
      | _ => none
    pure (namesOf ls, namesOf rs)

/-- `Coverage.loop_compat` from the pieces `Variables.loop_guard` computes -/
def loopCompatOf (iters srcs conds nxt body : List String) : Bool × Option String :=
  let iters' := iters ++ nxt
  let loopVars := normVars (conds ++ srcs)
  let loopX := loopVars.filter (fun v => !iters'.contains v)
  match loopX with
  | [x] => if body.contains x then (false, none) else (true, some x)
  | _ => (false, none)

mutual
/-- `SyntaxUtils.has_effect`: the expression contains an assignment, `++` or `--` (generic walk
    over all children of every node) -/
def hasEffect : Node → Bool
  | .assign .. => true
  | .unop op e => Gen.incDec.contains op || hasEffect e
  | .binop _ l r => hasEffect l || hasEffect r
  | .cast e => hasEffect e
  | .funcCall name args => hasEffect name || hasEffectO args
  | .exprList es => hasEffectL es
  | .ternary c t f => hasEffect c || hasEffect t || hasEffect f
  | .arrayRef n sub => hasEffect n || hasEffect sub
  | .decl _ ty init => hasEffect ty || hasEffectO init
  | .declList ds => hasEffectL ds
  | .compound (some l) => hasEffectL l
  | .ifs c t f => hasEffect c || hasEffectO t || hasEffectO f
  | .while_ c b => hasEffect c || hasEffect b
  | .doWhile c b => hasEffect c || hasEffect b
  | .for_ i c x b => hasEffectO i || hasEffectO c || hasEffectO x || hasEffect b
  | .ret e => hasEffectO e
  | .label _ st => hasEffect st
  | .switch c b => hasEffect c || hasEffect b
  | .case_ e ss => hasEffect e || hasEffectL ss
  | .default_ ss => hasEffectL ss
  | .paramList ps => hasEffectL ps
  | .funcDecl a => hasEffectO a
  | .funcDef d b => hasEffect d || hasEffect b
  | .other _ _ ks => hasEffectL ks
  | _ => false
def hasEffectL : List Node → Bool
  | [] => false
  | n :: ns => hasEffect n || hasEffectL ns
def hasEffectO : Option Node → Bool
  | none => false
  | some n => hasEffect n
end

def isAssertAssume : Node → Bool
  | .id n => n == "assert" || n == "assume"
  | _ => false

mutual
/-- names recorded by `Variables` in discovery order (duplicates kept; `normVars` later) -/
def varsN : Node → M (List String)
  | .id n => pure (if Gen.reserved.contains n then [] else if n.isEmpty then [] else [n])
  | .assign _ l r => do pure ((← varsN l) ++ (← varsN r))
  | .binop _ l r => do pure ((← varsN l) ++ (← varsN r))
  | .cast e => varsN e
  | .decl name ty init => do
    let own := match ty, name with
      | .typeDecl, some n => if n.isEmpty then [] else [n]
      | _, _ => []
    pure (own ++ (← varsO init))
  | .doWhile c b => do pure ((← varsN c) ++ (← varsN b))
  | .while_ c b => do pure ((← varsN c) ++ (← varsN b))
  | .for_ init cond next body => do
    -- `loop_compat` answers "no" for a condition that changes a variable before looking at anything else
    if hasEffectO cond then varsN body
    else
      let (iters, srcs) ← initVars init
      let conds ← varsO cond
      let nxt ← varsO next
      let bodyVars ← varsN body
      let (comp, x) := loopCompatOf iters srcs (normVars conds) (normVars nxt) (normVars bodyVars)
      let guard := match comp, x with
        | true, some x => if x.isEmpty then [] else [x]
        | _, _ => []
      pure (guard ++ bodyVars)
  | .funcDef d b => do
    let args ← match d with
      | .decl _ (.funcDecl a) _ => varsO a
      | _ => pure []
    pure (args ++ (← varsN b))
  | .ifs _ t f => do pure ((← varsO t) ++ (← varsO f))
  | .ret e => varsO e
  | .unop op e => if Gen.uOps.contains op then varsN e else pure []
  | .case_ _ ss => varsL ss
  | .default_ ss => varsL ss
  | .compound none => pure []
  | .compound (some l) => varsL l
  | .declList ds => varsL ds
  | .exprList es => varsL es
  | .paramList ps => varsL ps
  | .label _ st => varsN st
  | .other cls name _ =>
    pure (if Gen.variablesPass.contains cls then []
      else match name with
        | some n => if n.isEmpty then [] else [n]
        | none => [])
  | _ => pure []
def varsL : List Node → M (List String)
  | [] => pure []
  | n :: ns => do pure ((← varsN n) ++ (← varsL ns))
def varsO : Option Node → M (List String)
  | none => pure []
  | some n => varsN n
end

/-- `Variables(node).vars` -/
def variables (n : Node) : M (List String) := do pure (normVars (← varsN n))

/-- `Coverage.loop_compat(node)` for a `For` node -/
def loopCompat : Node → M (Bool × Option String)
  | .for_ init cond next body => do
    -- a condition that changes a variable: not an mwp-loop (checked before anything else)
    if hasEffectO cond then return (false, none)
    let (iters, srcs) ← initVars init
    let conds ← varsO cond
    let nxt ← varsO next
    let bodyVars ← varsN body
    pure (loopCompatOf iters srcs (normVars conds) (normVars nxt) (normVars bodyVars))
  | _ => throw "AttributeError"

/-- Result of the coverage walk over one subtree.
    `up`    : handler calls charged to the clear-action inherited from the container,
    `inner` : handler calls charged to clear-actions created inside the subtree,
    `mod`   : the subtree after the inner clear-actions have run (`ast_mod`). -/
structure Cov where
  up : Nat
  inner : Nat
  mod : Node

def allowRhs (n : Node) : Bool := n.isBinop || n.isConst || n.isId || n.isUnop
def allowOperand (n : Node) : Bool := n.isConst || n.isId
/-- `Coverage.UnaryOp`: a nested unary operation is accepted only under `!` / `sizeof` (its value is
    not needed) and only when it is not itself `++` / `--` -/
def nestedOk (op : String) : Node → Bool
  | .unop op' _ => (op == "!" || op == "sizeof") && !Gen.incDec.contains op'
  | _ => false

mutual
def covN : Node → M Cov
  | n@(.ternary ..) => pure ⟨1, 0, n⟩
  | n@(.arrayRef ..) => pure ⟨1, 0, n⟩
  | n@(.switch ..) => pure ⟨1, 0, n⟩
  | n@(.goto _) => pure ⟨1, 0, n⟩
  | n@(.funcCall name _) => pure (if isAssertAssume name then ⟨0, 0, n⟩ else ⟨1, 0, n⟩)
  | n@(.assign op l r) =>
    -- `right = no_cast(rvalue)`; recurse(lvalue) is an ID: nothing; recurse(right): the casts are kept
    -- around the (possibly edited) expression -- which is what `covN` does on a Cast node
    if !(op == "=" && l.isId && allowRhs r.rmCast) then pure ⟨1, 0, n⟩
    else do let c ← covN r; pure ⟨c.up, c.inner, .assign op l c.mod⟩
  | n@(.binop op l r) =>
    pure (if Gen.binOps.contains op && allowOperand l.rmCast && allowOperand r.rmCast
      then ⟨0, 0, n⟩ else ⟨1, 0, n⟩)
  | .cast e => do let c ← covN e; pure ⟨c.up, c.inner, .cast c.mod⟩
  | n@(.unop op e) =>
    -- the operand is tested with its casts removed (`while isinstance(operand, Cast)`)
    if Gen.uOps.contains op && (e.rmCast.isId || e.rmCast.isConst || nestedOk op e.rmCast) then do
      let c ← covN e; pure ⟨c.up, c.inner, .unop op c.mod⟩
    else pure ⟨1, 0, n⟩
  | n@(.decl _ ty init) =>
    pure (match ty, init with
      | .typeDecl, none => ⟨0, 0, n⟩
      | _, _ => ⟨1, 0, n⟩)
  | n@(.while_ c b) =>
    -- the analysis does not look at conditions: one that changes a variable makes the statement unsupported
    if hasEffect c then pure ⟨1, 0, n⟩
    else do
      let (k, b') ← covBody b
      pure ⟨0, k, .while_ c b'⟩
  | n@(.doWhile c b) =>
    if hasEffect c then pure ⟨1, 0, n⟩
    else do
      let (k, b') ← covBody b
      pure ⟨0, k, .doWhile c b'⟩
  | n@(.for_ init cond next b) => do
    let (comp, _) ← loopCompat n
    if !comp then pure ⟨1, 0, n⟩
    else
      let (k, b') ← covBody b
      pure ⟨0, k, .for_ init cond next b'⟩
  | .funcDef d b => do
    let (ka, d') ← match d with
      | .decl nm (.funcDecl (some a)) i => do
        let ca ← covN a
        -- args are reached through recurse() without a clear of their own
        if ca.up > 0 then throw "KeyError"
        pure (ca.inner, Node.decl nm (.funcDecl (some ca.mod)) i)
      | _ => pure (0, d)
    let cb ← covN b
    if cb.up > 0 then throw "KeyError"
    pure ⟨0, ka + cb.inner, .funcDef d' cb.mod⟩
  | n@(.ifs c t f) =>
    if hasEffect c then pure ⟨1, 0, n⟩
    else do
      let (kt, t') ← covSlot t
      let (kf, f') ← covSlot f
      pure ⟨0, kt + kf, .ifs c t' f'⟩
  | .ret none => pure ⟨0, 0, .ret none⟩
  | n@(.ret (some x)) =>
    -- the analysis passes over return statements: the returned expression must not change a variable
    if hasEffect x then pure ⟨1, 0, n⟩
    else do let c ← covN x; pure ⟨c.up, c.inner, .ret (some c.mod)⟩
  | .case_ e ss => do let (k, ss') ← covList ss; pure ⟨0, k, .case_ e ss'⟩
  | .default_ ss => do let (k, ss') ← covList ss; pure ⟨0, k, .default_ ss'⟩
  | .compound none => pure ⟨0, 0, .compound none⟩
  | .compound (some l) => do let (k, l') ← covList l; pure ⟨0, k, .compound (some l')⟩
  | .declList ds => do let (k, l') ← covList ds; pure ⟨0, k, .declList l'⟩
  | .exprList es => do let (k, l') ← covList es; pure ⟨0, k, .exprList l'⟩
  | .paramList ps => do let (k, l') ← covList ps; pure ⟨0, k, .paramList l'⟩
  | .label nm st => do let c ← covN st; pure ⟨c.up, c.inner, .label nm c.mod⟩
  | n@(.other cls _ _) => pure (if Gen.coveragePass.contains cls then ⟨0, 0, n⟩ else ⟨1, 0, n⟩)
  | n@(.funcDecl _) => pure ⟨1, 0, n⟩   -- no method: handler
  | n => pure ⟨0, 0, n⟩   -- ID, Constant, Break, Continue, EmptyStatement, TypeDecl: NodeHandler pass
/-- `_iter_attr`: each child gets a clear-action removing it from the list -/
def covList : List Node → M (Nat × List Node)
  | [] => pure (0, [])
  | n :: ns => do
    let c ← covN n
    let (k, rest) ← covList ns
    pure (if c.up > 0 then (c.up + c.inner + k, rest) else (c.inner + k, c.mod :: rest))
/-- an attribute slot (`iftrue`, `iffalse`) cleared by `rm_attr` (set to EmptyStatement) -/
def covSlot : Option Node → M (Nat × Option Node)
  | none => pure (0, none)
  | some n => do
    let c ← covN n
    pure (if c.up > 0 then (c.up + c.inner, some .empty) else (c.inner, some c.mod))
/-- loop body: a Compound is iterated item-wise, anything else is a slot -/
def covBody : Node → M (Nat × Node)
  | .compound none => pure (0, .compound none)
  | .compound (some l) => do let (k, l') ← covList l; pure (k, .compound (some l'))
  | n => do
    let c ← covN n
    pure (if c.up > 0 then (c.up + c.inner, .empty) else (c.inner, c.mod))
end

/-- `Coverage(node)`: number of omitted commands and the tree after `ast_mod`.
    A handler call at the root has no clear-action: KeyError. -/
def coverage (n : Node) : M (Nat × Node) := do
  let c ← covN n
  if c.up > 0 then throw "KeyError" else pure (c.inner, c.mod)

mutual
/-- `FindLoops(node).loops`, in discovery order -/
def loopsN : Node → M (List Node)
  | n@(.doWhile c b) => do
    let inner ← loopsN b
    pure (if hasEffect c then inner else n :: inner)
  | n@(.while_ c b) => do
    let inner ← loopsN b
    pure (if hasEffect c then inner else n :: inner)
  | n@(.for_ _ _ _ b) => do
    let (comp, _) ← loopCompat n
    let inner ← loopsN b
    pure (if comp then n :: inner else inner)
  | .funcDef _ b => loopsN b
  | .ifs _ t f => do pure ((← loopsO t) ++ (← loopsO f))
  | .switch _ b => loopsN b
  | .case_ _ ss => loopsL ss
  | .default_ ss => loopsL ss
  | .compound none => pure []
  | .compound (some l) => loopsL l
  | .declList ds => loopsL ds
  | .exprList es => loopsL es
  | .paramList ps => loopsL ps
  | .label _ st => loopsN st
  -- classes without a method go to `FindLoops.handler`, which records loop statements only
  | _ => pure []
def loopsL : List Node → M (List Node)
  | [] => pure []
  | n :: ns => do pure ((← loopsN n) ++ (← loopsL ns))
def loopsO : Option Node → M (List Node)
  | none => pure []
  | some n => loopsN n
end

end Syntax
end Mwp
