/-
  Model of pymwp/polynomial.py (class Polynomial).  Import-free.

  A polynomial is its list of monomials.  What the model keeps from the code:
  every insert/prune DECISION (`Polynomial.inclusion` scan with its early
  return, zero filtering, merging of equal delta lists).  What it does not
  keep: the cursor position `i` of `add` and the k-way merge order of `times`
  -- they only decide positions in a list that `add` re-sorts at the end
  (see DESIGN.md, C09); correspondence compares sorted monomial sets.
-/
import Mwp.Model.Monomial
namespace Mwp

abbrev Poly := List Mono

/-- `Comparison` of pymwp/constants.py. -/
inductive Cmp where
  | smaller | equal | larger
  deriving DecidableEq, Repr

namespace Poly

/-- `Polynomial()` with no argument: the single 0-monomial. -/
def zero : Poly := [⟨.o, []⟩]
/-- `Polynomial('m')`. -/
def unit : Poly := [⟨.m, []⟩]
def const (s : Scalar) : Poly := [⟨s, []⟩]

/-- `Polynomial(*monomials)`: empty argument list gives the 0-monomial. -/
def ofList (l : List Mono) : Poly := if l.isEmpty then zero else l

/-- `Polynomial.compare` on delta lists: first difference decides by (index, value);
    otherwise the shorter list is smaller. -/
def compare : List Delta → List Delta → Cmp
  | [], [] => .equal
  | [], _ :: _ => .smaller
  | _ :: _, [] => .larger
  | a :: as, b :: bs =>
    if a = b then compare as bs
    else if a.2 < b.2 || (a.2 == b.2 && a.1 < b.1) then .smaller else .larger

/-- `Polynomial.inclusion(list_monom, mono)`: drop every monomial that `mono`
    dominates; stop (keeping the rest) at the first monomial that dominates `mono`.
    Returns the filtered list and "mono is to be inserted". -/
def scan : List Mono → Mono → List Mono × Bool
  | [], _ => ([], true)
  | m :: ms, x =>
    match m.inclusion x with
    | .contains => scan ms x
    | .included => (m :: ms, false)
    | .empty => let r := scan ms x; (m :: r.1, r.2)

/-- One step of `add`/`times`: scan, then keep the new monomial if it survived. -/
def scanInsert (l : List Mono) (x : Mono) : List Mono :=
  let r := scan l x
  if r.2 then r.1 ++ [x] else r.1

/-- Insert into a list sorted by `compare`, merging equal delta lists with the
    semiring sum (dropping a merged 0), as the merge step of `sort_monomials` does. -/
def insertSorted (x : Mono) : List Mono → List Mono
  | [] => [x]
  | m :: ms =>
    match compare x.deltas m.deltas with
    | .smaller => x :: m :: ms
    | .equal =>
      let s := x.scalar + m.scalar
      if s = .o then ms else { scalar := s, deltas := m.deltas } :: ms
    | .larger => m :: insertSorted x ms

/-- `Polynomial.sort_monomials` (result for lists without repeated delta lists is
    the unique `compare`-sorted permutation; repeated ones are merged). -/
def sortMonos (l : List Mono) : List Mono := l.foldr insertSorted []

/-- `Polynomial.remove_zeros`. -/
def removeZeros (l : List Mono) : Poly :=
  let f := l.filter (fun m => m.scalar != .o)
  if f.isEmpty then zero else f

def copy (p : Poly) : Poly := ofList (p.map Mono.copy)

/-- `Polynomial.add`. -/
def add (p q : Poly) : Poly :=
  if p.isEmpty && q.isEmpty then zero
  else if p.isEmpty then q.copy
  else if q.isEmpty then p.copy
  else removeZeros (ofList (sortMonos (q.foldl scanInsert p.copy)))

/-- All pairwise monomial products with non-zero scalar, `polynomial.list` outermost
    (table rows of `times`). -/
def products (p q : Poly) : List Mono :=
  (q.map fun m2 => (p.map fun m1 => m1.prod m2).filter (fun m => m.scalar != .o)).flatten

/-- `Polynomial.times`. -/
def times (p q : Poly) : Poly :=
  let prods := products p q
  if prods.isEmpty then zero
  else removeZeros (ofList (prods.foldl scanInsert []))

/-- `Polynomial.equal` (positional). -/
def equal (p q : Poly) : Bool := p == q

/-- `some_infty`. -/
def someInfty (p : Poly) : Bool := p.any (fun m => m.scalar == .i)

/-- Scalars of the monomials matching the choice vector, in list order. -/
def matching (p : Poly) (c : Choice) : List Scalar :=
  (p.filter (fun m => m.matchesC c)).map (·.scalar)

/-- Semiring sum of a list of scalars (empty sum is `o`). -/
def sumAll (l : List Scalar) : Scalar := l.foldl (· + ·) .o

/-- `choice_scalar(*choices, least_scalar=None)`: `none` when no monomial matches. -/
def eval? (p : Poly) (c : Choice) : Option Scalar :=
  match p.matching c with
  | [] => none
  | s :: ss => some (ss.foldl (· + ·) s)

/-- Value at a choice, "no term" read as `o`. -/
def evalD (p : Poly) (c : Choice) : Scalar := sumAll (p.matching c)

/-- `Polynomial.choice_scalar` with a `least_scalar`. -/
def choiceScalar (p : Poly) (c : Choice) (least : Scalar) : Scalar := (p.eval? c).getD least

/-- `Polynomial.eval(*scalars)`: delta lists of monomials whose scalar is ∞ or in `scalars`. -/
def evalInf (p : Poly) (scalars : List Scalar) : List (List Delta) :=
  (p.filter (fun m => m.scalar == .i || scalars.contains m.scalar)).map (·.deltas)

/-- `Polynomial.from_scalars(index, s0, s1, s2, ...)`. -/
def fromScalars (index : Nat) (ss : List Scalar) : Poly :=
  ofList ((List.range ss.length).zip ss |>.map fun (k, s) => Mono.new s [(k, index)])

def WF (p : Poly) : Bool := p.all Mono.WF

end Poly
end Mwp
