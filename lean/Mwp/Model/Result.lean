/-
  Model of the JSON (de)serialisation of pymwp/result.py: `Serializable.to_dict`,
  `Serializable._load` / `_try_set` / `_try_get`, and the `to_dict` / `from_dict` overrides of
  `FuncResult` and `VResult`, together with what they call (`matrix.encode` / `matrix.decode`,
  `Relation.__init__`, `Bound.__init__` / `Bound.to_dict`, `MwpBound.__init__` / `bound_str`,
  `Choices.__init__`).  Import-free apart from the generated attribute tables and two model files.

  * A JSON document is a `Mwp.JVal`; an `obj` stands for a Python `dict`, so its keys are assumed
    distinct (that is what `json.load` delivers); `lookup` takes the first match.
  * A Python result object ("object after load" as well as "object built by the analysis") is an
    `Obj`: the current values of its simple attributes, its class specific parts, and its nested
    serialisable objects.  Everything a class contributes is read from `Mwp.Gen.*` (regenerated
    from the live Python classes on every run) through `Cls.attrs`, `Cls.serAttrs`, `Cls.serList`,
    `Cls.serDict`; only the *type* of the nested objects (`Cls.elem`), the names of the parts handled
    by the overrides (`Cls.partKeys`) and the property setters of `VResult` are written by hand.
  * Situations in which Python raises (a document that is not a dict, `None.to_dict()`, a matrix
    that is not a list of lists of lists of monomial dicts, a bound text without exactly two `;`,
    ...) are outside the domain of the model: the functions are total and return some harmless
    value there; each such place is marked "Python raises".
  * The recursion `to_dict -> nested to_dict` is tied with a fuel counter (`depth = 4`, the nesting
    Result > FuncLoops > LoopResult > VResult); the one-level functions `toDict1` / `fromDict1` are
    the transcriptions of the Python methods, parametrised by the function used for nested objects.
    That the fuel is enough is proved: `toDict cls o = toDict1 toDict cls o` and
    `fromDict cls d = fromDict1 notNone fromDict cls d` (Mwp/Lemmas/ResultThms.lean,
    `toDict_unfold` / `fromDict_unfold`).
-/
import Mwp.Gen.Result
import Mwp.Model.Monomial
import Mwp.Model.Bound
namespace Mwp.Result
open Mwp

/-! ## Classes and their generated tables -/

/-- The serialisable result classes of pymwp/result.py. -/
inductive Cls where
  | program | funcResult | funcLoops | loopResult | vResult | result
  deriving DecidableEq, Repr, Inhabited

namespace Cls

def all : List Cls := [.program, .funcResult, .funcLoops, .loopResult, .vResult, .result]

/-- `_attrs` in order, each with the value a freshly constructed object holds (generated). -/
def attrs : Cls → List (String × JVal)
  | .program => Gen.programAttrs
  | .funcResult => Gen.funcResultAttrs
  | .funcLoops => Gen.funcLoopsAttrs
  | .loopResult => Gen.loopResultAttrs
  | .vResult => Gen.vResultAttrs
  | .result => Gen.resultAttrs

/-- names in `_ser_attrs` (generated) -/
def serAttrs : Cls → List String
  | .program => Gen.programSerAttrs
  | .funcResult => Gen.funcResultSerAttrs
  | .funcLoops => Gen.funcLoopsSerAttrs
  | .loopResult => Gen.loopResultSerAttrs
  | .vResult => Gen.vResultSerAttrs
  | .result => Gen.resultSerAttrs

/-- names in `_ser_list` (generated) -/
def serList : Cls → List String
  | .program => Gen.programSerList
  | .funcResult => Gen.funcResultSerList
  | .funcLoops => Gen.funcLoopsSerList
  | .loopResult => Gen.loopResultSerList
  | .vResult => Gen.vResultSerList
  | .result => Gen.resultSerList

/-- `(attribute, key attribute)` of `_ser_dict` (generated) -/
def serDict : Cls → List (String × String)
  | .program => Gen.programSerDict
  | .funcResult => Gen.funcResultSerDict
  | .funcLoops => Gen.funcLoopsSerDict
  | .loopResult => Gen.loopResultSerDict
  | .vResult => Gen.vResultSerDict
  | .result => Gen.resultSerDict

/-- The class named in the `_ser_attrs` / `_ser_list` / `_ser_dict` tuple of an attribute
    (hand-written: the generated tables carry names only).  The last line is never used for an
    attribute of the tables. -/
def elem (c : Cls) (attr : String) : Cls :=
  match c with
  | .result =>
    if attr = "program" then .program
    else if attr = "loops" then .funcLoops
    else if attr = "relations" then .funcResult
    else .program
  | .funcLoops => .loopResult
  | .loopResult => .vResult
  | c => c

/-- Keys written by the `to_dict` overrides after `super().to_dict()`, in that order. -/
def partKeys : Cls → List String
  | .funcResult => ["relation", "choices", "bound"]
  | .vResult => ["choices", "bound"]
  | _ => []

def attrNames (c : Cls) : List String := c.attrs.map (·.1)
def dictNames (c : Cls) : List String := c.serDict.map (·.1)

end Cls

/-! ## Python dictionaries as association lists -/

section Assoc
variable {α : Type}

/-- `d[k]` / `k in d` (first match; keys are distinct in a dict). -/
def lookup (k : String) : List (String × α) → Option α
  | [] => none
  | (k', v) :: t => if k = k' then some v else lookup k t

/-- `d[k] = v`: replaces the value in place, or appends a new key. -/
def setKey (k : String) (v : α) : List (String × α) → List (String × α)
  | [] => [(k, v)]
  | (k', v') :: t => if k = k' then (k', v) :: t else (k', v') :: setKey k v t

/-- `setattr` on an attribute that exists (the attribute store of an object never grows). -/
def upd (k : String) (v : α) : List (String × α) → List (String × α)
  | [] => []
  | (k', v') :: t => if k = k' then (k', v) :: t else (k', v') :: upd k v t

/-- `{**a, **b}`. -/
def merge (a b : List (String × α)) : List (String × α) :=
  b.foldl (fun acc kv => setKey kv.1 kv.2 acc) a

/-- `dict(pairs)` / `dict(zip(keys, values))`. -/
def dictOf (l : List (String × α)) : List (String × α) := merge [] l

/-- The keyword dictionary without a key bound to a named parameter. -/
def eraseKey (k : String) : List (String × α) → List (String × α)
  | [] => []
  | (k', v) :: t => if k = k' then eraseKey k t else (k', v) :: eraseKey k t

end Assoc

/-! ## JSON values as Python values -/

def isNull : JVal → Bool
  | .null => true
  | _ => false

/-- `ob is not None` -/
def notNone (v : JVal) : Bool := !isNull v

/-- Python truthiness of a JSON-loaded value: `None`, `False`, `0`, `""`, `[]`, `{}` are falsy. -/
def truthy : JVal → Bool
  | .null => false
  | .bool b => b
  | .num n => n != 0
  | .str s => s != ""
  | .arr l => !l.isEmpty
  | .obj kvs => !kvs.isEmpty

/-- One step of `_try_get`: `ob[key] if (ob and key in ob) else None`.
    (`ob` a non-empty list or string with `key in ob`: Python raises.) -/
def getItem (ob : JVal) (key : String) : JVal :=
  if truthy ob then
    match ob with
    | .obj kvs => (lookup key kvs).getD .null
    | _ => .null
  else .null

/-- `Serializable._try_get(*keys, **ob)`. -/
def tryGet (ob : JVal) (keys : List String) : JVal := keys.foldl getItem ob

/-- The text `json.dump` writes for a dictionary key (`None` → `null`, booleans, integers;
    a list or dict cannot be a key: Python raises). -/
def keyStr : JVal → String
  | .str s => s
  | .null => "null"
  | .bool true => "true"
  | .bool false => "false"
  | .num n => toString n
  | _ => ""

/-! ## Objects -/

/-- A result object of some class. -/
structure Obj where
  /-- simple attributes (`_attrs`) with their current values -/
  attrs : List (String × JVal)
  /-- class specific extras that are not `None`: for FuncResult `"relation"` (what
      `relation.to_dict()` returns), `"choices"` (`choices.valid`), `"bound"` (`bound.to_dict()`);
      for VResult `"choices"` and `"bound"` (`bound.bound_str`) -/
  parts : List (String × JVal)
  /-- `_ser_list` attributes -/
  lists : List (String × List Obj)
  /-- `_ser_dict` attributes, entries in insertion order; the key is written as `json.dump` does -/
  dicts : List (String × List (String × Obj))
  /-- `_ser_attrs` attributes (`none` = Python `None`) -/
  sers : List (String × Option Obj)
  deriving Repr, Inhabited

namespace Obj
def empty : Obj := ⟨[], [], [], [], []⟩
def getAttr (o : Obj) (k : String) : JVal := (lookup k o.attrs).getD .null
def getList (o : Obj) (k : String) : List Obj := (lookup k o.lists).getD []
def getDict (o : Obj) (k : String) : List (String × Obj) := (lookup k o.dicts).getD []
def getSer (o : Obj) (k : String) : Option Obj := (lookup k o.sers).getD none
end Obj

/-! ## `to_dict` -/

/-- `Serializable.to_dict` followed by the override of the class; `sub` serialises nested objects.

    * simple attributes: all of `_attrs`, whatever their value;
    * `_ser_attrs`: always (`None.to_dict()`: Python raises; the model writes `null`);
    * `_ser_list` / `_ser_dict`: only when the attribute is truthy, i.e. non-empty;
    * overrides: `if self.relation:` / `if self.bound:` — `Relation`, `Bound`, `MwpBound` define
      neither `__bool__` nor `__len__`, so the test is "is not None"; `if self.choices:` is
      `not choices.infinite`, which is true for every choice object the model represents by a
      present part (a loaded one has a non-empty `valid`; see `WFObj`): a present part is emitted. -/
def toDict1 (sub : Cls → Obj → JVal) (cls : Cls) (o : Obj) : JVal :=
  let simple := dictOf (cls.attrNames.map fun k => (k, o.getAttr k))
  let objs := dictOf (cls.serAttrs.map fun k =>
    (k, match o.getSer k with
        | some x => sub (cls.elem k) x
        | none => .null))
  let lk := cls.serList.filter fun k => !(o.getList k).isEmpty
  let lists := dictOf (lk.map fun k => (k, JVal.arr ((o.getList k).map (sub (cls.elem k)))))
  let dk := cls.dictNames.filter fun n => !(o.getDict n).isEmpty
  let dicts := dictOf (dk.map fun n =>
    (n, JVal.obj ((o.getDict n).map fun kv => (kv.1, sub (cls.elem n) kv.2))))
  let base := merge (merge (merge simple objs) lists) dicts
  .obj (cls.partKeys.foldl (fun r p =>
    match lookup p o.parts with
    | some v => setKey p v r
    | none => r) base)

/-! ## `matrix.decode` then `matrix.encode`, on the JSON matrix -/

def deltaOf? : JVal → Option Delta
  | .arr [.num v, .num i] => if 0 ≤ v ∧ 0 ≤ i then some (v.toNat, i.toNat) else none
  | _ => none

def deltasOf? : List JVal → Option (List Delta)
  | [] => some []
  | j :: t =>
    match deltaOf? j, deltasOf? t with
    | some d, some ds => some (d :: ds)
    | _, _ => none

def jDelta (d : Delta) : JVal := .arr [.num d.1, .num d.2]

/-- `Monomial.to_dict` -/
def jMono (s : Scalar) (ds : List Delta) : JVal :=
  .obj [("scalar", .str s.toStr), ("deltas", .arr (ds.map jDelta))]

/-- `Monomial(scalar=m["scalar"], deltas=[tuple(d) for d in m["deltas"]]).to_dict()`:
    the deltas go through `insert_deltas` (sorted insertion, duplicates dropped, a conflict gives
    scalar `o` without deltas).  Anything that is not an encoded monomial is left alone
    (missing key / wrong shape: Python raises). -/
def normMono (m : JVal) : JVal :=
  match m with
  | .obj kvs =>
    match lookup "scalar" kvs, lookup "deltas" kvs with
    | some (.str s), some (.arr ds) =>
      match Scalar.ofStr? s, deltasOf? ds with
      | some sc, some dl => let r := Mono.new sc dl; jMono r.scalar r.deltas
      | _, _ => m
    | _, _ => m
  | _ => m

/-- `Polynomial(*monomials)`: no monomial at all gives the single 0-monomial. -/
def normPoly : JVal → JVal
  | .arr [] => .arr [jMono .o []]
  | .arr ms => .arr (ms.map normMono)
  | p => p

def normRow : JVal → JVal
  | .arr cells => .arr (cells.map normPoly)
  | r => r

/-- `encode(decode(matrix))` -/
def decodeEncode : JVal → JVal
  | .arr rows => .arr (rows.map normRow)
  | m => m

/-- `encode(init_matrix(n))`: `n × n` zero polynomials. -/
def zeroMatrix (n : Nat) : JVal :=
  .arr (List.replicate n (.arr (List.replicate n (.arr [jMono .o []]))))

/-- `len([str(v) for v in (variables or []) if v])` for the loaded `variables` attribute. -/
def nVars : JVal → Nat
  | .arr l => (l.filter truthy).length
  | _ => 0

/-- `Relation(func.variables, decode(matrix)).to_dict()`:
    `self.matrix = matrix or init_matrix(len(self.variables))`. -/
def relationPart (variables matrix : JVal) : JVal :=
  let dec := decodeEncode matrix
  .obj [("matrix", if truthy dec then dec else zeroMatrix (nVars variables))]

/-! ## Bound texts -/

/-- `MwpBound(s).bound_str` for a text `s`: `parse`, three sets, `sorted`, join.
    (Not exactly three `;`-fields: Python raises on unpacking; the text is left alone.) -/
def normBound (s : String) : String :=
  match Bound.parse s.toList with
  | [x, y, z] =>
    String.ofList (Bound.boundStr (Bound.normNames (x.map String.ofList))
      (Bound.normNames (y.map String.ofList)) (Bound.normNames (z.map String.ofList)))
  | _ => s

/-- `MwpBound(triple=v).bound_str` for a JSON value: a falsy value parses to three empty lists.
    (A truthy non-string: Python raises.) -/
def mwpBoundJ (v : JVal) : JVal :=
  if truthy v then
    match v with
    | .str s => .str (normBound s)
    | v => v
  else .str ";;"

/-- `Bound(bounds).to_dict()`: `{k: MwpBound(v) for k, v in bounds.items()} if bounds else {}`.
    (A truthy non-dict: Python raises.) -/
def boundDictJ : JVal → JVal
  | .obj kvs => .obj (kvs.map fun kv => (kv.1, mwpBoundJ kv.2))
  | _ => .obj []

/-! ## `from_dict` -/

/-- `setattr(obj, k, v)` on the attribute store.  `VResult.is_m/is_w/is_p` are properties whose
    setters keep `is_m → is_w → is_p` and store booleans; everything else is a plain attribute. -/
def setAttr (cls : Cls) (st : List (String × JVal)) (k : String) (v : JVal) : List (String × JVal) :=
  match cls with
  | .vResult =>
    let T := JVal.bool true
    let F := JVal.bool false
    if k = "is_m" then
      if truthy v then upd "is_p" T (upd "is_w" T (upd "is_m" T st)) else upd "is_m" F st
    else if k = "is_w" then
      if truthy v then upd "is_p" T (upd "is_w" T st) else upd "is_w" F (upd "is_m" F st)
    else if k = "is_p" then
      if truthy v then upd "is_p" T st else upd "is_p" F (upd "is_w" F (upd "is_m" F st))
    else upd k v st
  | _ => upd k v st

/-- The freshly constructed object and the keyword dictionary seen by `_load`.
    `FuncResult.from_dict(name=None, **kwargs)` binds `name` itself and calls `FuncResult(name)`;
    every other class calls its constructor without arguments. -/
def ctorAndKwargs (cls : Cls) (kvs : List (String × JVal)) :
    List (String × JVal) × List (String × JVal) :=
  match cls with
  | .funcResult => (upd "name" ((lookup "name" kvs).getD .null) cls.attrs, eraseKey "name" kvs)
  | _ => (cls.attrs, kvs)

/-- The loop `for key in obj._attrs: obj._try_set(obj, key, **kwargs)`;
    `test` is the condition of `_try_set` (`ob is not None` now, `ob` before the repair). -/
def loadAttrs (test : JVal → Bool) (cls : Cls) (init kw : List (String × JVal)) :
    List (String × JVal) :=
  cls.attrNames.foldl (fun st k =>
    let ob := tryGet (.obj kw) [k]
    if test ob then setAttr cls st k ob else st) init

/-- The part `p` set by the `from_dict` override of the class (`none`: stays / becomes `None`).
    `test` is the condition on `matrix` and `bound` in `FuncResult.from_dict` (`is not None` now,
    truthiness before the repair); `choices` is tested for truthiness in both versions and
    `Choices(choices)` keeps the list. -/
def loadPart (test : JVal → Bool) (cls : Cls) (attrs kw : List (String × JVal)) (p : String) :
    Option JVal :=
  match cls with
  | .funcResult =>
    if p = "relation" then
      let matrix := tryGet (.obj kw) ["relation", "matrix"]
      if test matrix then some (relationPart ((lookup "variables" attrs).getD .null) matrix) else none
    else if p = "choices" then
      let choices := tryGet (.obj kw) ["choices"]
      if truthy choices then some choices else none
    else if p = "bound" then
      let bound := tryGet (.obj kw) ["bound"]
      if test bound then some (boundDictJ bound) else none
    else none
  | .vResult =>
    if p = "choices" then
      let choices := tryGet (.obj kw) ["choices"]
      if truthy choices then some choices else none
    else if p = "bound" then
      let bound := tryGet (.obj kw) ["bound"]
      if truthy bound then some (mwpBoundJ bound) else none
    else none
  | _ => none

/-- `Serializable._load` followed by the override of the class; `sub` restores nested objects.
    (A document that is not a dict: Python raises.) -/
def fromDict1 (test : JVal → Bool) (sub : Cls → JVal → Obj) (cls : Cls) (doc : JVal) : Obj :=
  let kvs := match doc with
    | .obj kvs => kvs
    | _ => []
  let ck := ctorAndKwargs cls kvs
  let kw := ck.2
  let attrs := loadAttrs test cls ck.1 kw
  { attrs := attrs
    parts := cls.partKeys.filterMap fun p => (loadPart test cls attrs kw p).map fun v => (p, v)
    -- `objT.from_dict(**values) if values else None`
    sers := cls.serAttrs.map fun a =>
      let values := tryGet (.obj kw) [a]
      (a, if truthy values then some (sub (cls.elem a) values) else none)
    -- `[objT.from_dict(**v) for v in (values or [])]`
    lists := cls.serList.map fun a =>
      let values := tryGet (.obj kw) [a]
      (a, if truthy values then
            match values with
            | .arr l => l.map (sub (cls.elem a))
            | _ => []
          else [])
    -- `dict(zip([getattr(v, key) for v in values], values))`, values from `(items or {}).values()`
    dicts := cls.serDict.map fun ak =>
      let items := tryGet (.obj kw) [ak.1]
      (ak.1, if truthy items then
            match items with
            | .obj ikvs =>
              dictOf (ikvs.map fun kv =>
                let v := sub (cls.elem ak.1) kv.2
                (keyStr (v.getAttr ak.2), v))
            | _ => []
          else []) }

/-! ## Tying the recursion -/

/-- Nesting depth of the classes: Result > FuncLoops > LoopResult > VResult. -/
def depth : Nat := 4

def toDictN : Nat → Cls → Obj → JVal
  | 0, _, _ => .null
  | n + 1, cls, o => toDict1 (toDictN n) cls o

def fromDictN (test : JVal → Bool) : Nat → Cls → JVal → Obj
  | 0, _, _ => Obj.empty
  | n + 1, cls, doc => fromDict1 test (fromDictN test n) cls doc

/-- `obj.to_dict()` for an object of class `cls`. -/
def toDict (cls : Cls) (o : Obj) : JVal := toDictN depth cls o

/-- `cls.from_dict(**doc)` as the code stands now. -/
def fromDict (cls : Cls) (doc : JVal) : Obj := fromDictN notNone depth cls doc

/-- `cls.from_dict(**doc)` before the repair of `_try_set` / `FuncResult.from_dict`
    (truthiness instead of `is not None`). -/
def fromDictOld (cls : Cls) (doc : JVal) : Obj := fromDictN truthy depth cls doc

/-- load, then save -/
def roundtrip (cls : Cls) (doc : JVal) : JVal := toDict cls (fromDict cls doc)

end Mwp.Result
