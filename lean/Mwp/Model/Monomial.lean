/-
  Model of pymwp/monomial.py (class Monomial).  Import-free.

  Python mutation is modelled as "returns the new value".  `insert_delta`
  returns `[]` for a conflict; since a successful insert never yields the empty
  list, `Option` represents that exactly.
-/
import Mwp.Model.Semiring
namespace Mwp

structure Mono where
  scalar : Scalar
  deltas : List Delta
  deriving DecidableEq, Repr, Inhabited

/-- `SetInclusion` of pymwp/constants.py. -/
inductive Incl where
  | empty | contains | included
  deriving DecidableEq, Repr

/-- `Monomial.insert_delta`; `none` is Python's `[]` (conflicting value at the same index). -/
def insertDelta? : List Delta → Delta → Option (List Delta)
  | [], d => some [d]
  | e :: es, d =>
    if e.2 < d.2 then (insertDelta? es d).map (e :: ·)
    else if e.2 = d.2 then (if e.1 = d.1 then some (e :: es) else none)
    else some (d :: e :: es)

namespace Mono

/-- `Monomial.insert_deltas` (stops and zeroes the monomial on the first conflict). -/
def insertDeltas (m : Mono) : List Delta → Mono
  | [] => m
  | d :: ds =>
    match insertDelta? m.deltas d with
    | none => { scalar := .o, deltas := [] }
    | some l => insertDeltas { m with deltas := l } ds

/-- `Monomial(scalar, deltas)`. -/
def new (s : Scalar) (ds : List Delta) : Mono := insertDeltas ⟨s, []⟩ ds

/-- `Monomial.copy`. -/
def copy (m : Mono) : Mono := new m.scalar m.deltas

/-- `Monomial.contains`: every delta of `b` occurs in `a`. -/
def contains (a b : Mono) : Bool := b.deltas.all (fun d => a.deltas.contains d)

/-- `Monomial.inclusion`. -/
def inclusion (self mono : Mono) : Incl :=
  let summ := self.scalar + mono.scalar
  if self.contains mono && mono.scalar == summ then .contains
  else if mono.contains self && self.scalar == summ then .included
  else .empty

/-- `Monomial.prod`. -/
def prod (a b : Mono) : Mono :=
  let c := a.copy
  let s := a.scalar * b.scalar
  if s = .o then { scalar := s, deltas := [] }
  else if b.deltas.isEmpty then { c with scalar := s }
  else insertDeltas { c with scalar := s } b.deltas

/-- Does the monomial's delta list agree with the choice vector?  (`choice_scalar ≠ None`.)
    An index beyond the vector never matches (Python would raise; the analysis never asks). -/
def matchesC (m : Mono) (c : Choice) : Bool := m.deltas.all (fun d => c[d.2]? == some d.1)

/-- `Monomial.choice_scalar`. -/
def choiceScalar (m : Mono) (c : Choice) : Option Scalar :=
  if m.matchesC c then some m.scalar else none

/-- Well-formed delta list: strictly increasing indices. -/
def sortedDeltas : List Delta → Bool
  | [] => true
  | [_] => true
  | a :: b :: t => a.2 < b.2 && sortedDeltas (b :: t)

def WF (m : Mono) : Bool := sortedDeltas m.deltas

end Mono
end Mwp
