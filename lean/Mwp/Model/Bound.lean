/-
  Model of pymwp/bound.py: HonestPoly / MaxVar / MwpBound (formatting side) and
  Bound.calculate / Bound.show.  Import-free.

  Strings are modelled as `List Char` so that splitting/joining can be reasoned
  about; `String.mk` turns them into the text compared with the implementation.
-/
import Mwp.Model.Semiring
namespace Mwp
namespace Bound

abbrev Str := List Char

/-- Insert into a strictly sorted list of names (set semantics of `HonestPoly.variables`,
    then `sorted(...)` in `HonestPoly.vars`). -/
def insertName (n : String) : List String → List String
  | [] => [n]
  | a :: as => if n < a then n :: a :: as else if n = a then a :: as else a :: insertName n as

/-- `sorted(set(names))`. -/
def normNames (l : List String) : List String := l.foldr insertName []

/-- `sep.join(names)` on character lists. -/
def joinWith (sep : Str) : List Str → Str
  | [] => []
  | [a] => a
  | a :: b :: t => a ++ sep ++ joinWith sep (b :: t)

/-- `s.split(sep)` for a one-character separator (Python semantics: n separators give n+1 fields). -/
def splitOn (sep : Char) : Str → List Str
  | [] => [[]]
  | c :: cs =>
    match splitOn sep cs with
    | [] => [[]]   -- unreachable: splitOn never returns []
    | f :: fs => if c = sep then [] :: f :: fs else (c :: f) :: fs

/-- The expression shown to the user, as a tree.  `sumv`/`prodv` are the `+`/`*` joins of a
    non-empty name list, `maxOf` the `max(…)` call, `lit0` the literal `0`. -/
inductive BExpr where
  | lit0
  | var (n : String)
  | sumv (l : List String)
  | prodv (l : List String)
  | maxOf (args : List BExpr)
  | plus (a b : BExpr)
  deriving Repr, Inhabited

def sumL (ρ : String → Nat) (l : List String) : Nat := (l.map ρ).foldl (· + ·) 0
def prodL (ρ : String → Nat) (l : List String) : Nat := (l.map ρ).foldl (· * ·) 1
def maxL (ρ : String → Nat) (l : List String) : Nat := (l.map ρ).foldl Nat.max 0

mutual
/-- Value of the displayed expression under a valuation of the variables (naturals). -/
def BExpr.eval (ρ : String → Nat) : BExpr → Nat
  | .lit0 => 0
  | .var n => ρ n
  | .sumv l => sumL ρ l
  | .prodv l => prodL ρ l
  | .maxOf args => evalMax ρ args
  | .plus a b => a.eval ρ + b.eval ρ
def evalMax (ρ : String → Nat) : List BExpr → Nat
  | [] => 0
  | a :: as => Nat.max (a.eval ρ) (evalMax ρ as)
end

mutual
/-- Text of the expression, exactly as `MwpBound.bound_poly` prints it. -/
def BExpr.render : BExpr → Str
  | .lit0 => ['0']
  | .var n => n.toList
  | .sumv l => joinWith ['+'] (l.map String.toList)
  | .prodv l => joinWith ['*'] (l.map String.toList)
  | .maxOf args => "max(".toList ++ renderArgs args ++ [')']
  | .plus a b => a.render ++ ['+'] ++ b.render
def renderArgs : List BExpr → Str
  | [] => []
  | [a] => a.render
  | a :: b :: t => a.render ++ [','] ++ renderArgs (b :: t)
end

/-- The `x`-only term: `max(x1,…,xn[,0])`, or the bare name when there is one name and no
    reason to wrap it. -/
def xTerm (x : List String) (withZero forceMax : Bool) : BExpr :=
  let tail : List BExpr := if withZero then [.lit0] else []
  match x with
  | [n] => if forceMax then .maxOf (.var n :: tail) else .var n
  | l => .maxOf (l.map BExpr.var ++ tail)

/-- The `y`-only term: `max(y1+…+yn[,0])`, or the bare sum/name. -/
def yTerm (y : List String) (withZero forceMax : Bool) : BExpr :=
  let tail : List BExpr := if withZero then [.lit0] else []
  match y with
  | [n] => if forceMax then .maxOf (.sumv [n] :: tail) else .sumv [n]
  | l => .maxOf (.sumv l :: tail)

/-- `MwpBound.bound_poly(mwp, compact)` on the three sorted name lists. -/
def boundPoly (x y z : List String) (compact : Bool) : BExpr :=
  let term : Option BExpr :=
    if !x.isEmpty && !y.isEmpty then some (.maxOf (x.map BExpr.var ++ [.sumv y]))
    else if !x.isEmpty then
      some (if compact then xTerm x false false else xTerm x true (!z.isEmpty))
    else if !y.isEmpty then
      some (if compact then yTerm y false false else yTerm y true (!z.isEmpty))
    else none
  match term with
  | some t => if z.isEmpty then t else .plus t (.prodv z)
  | none => if z.isEmpty then .lit0 else .prodv z

/-- `MwpBound.bound_str`. -/
def boundStr (x y z : List String) : Str :=
  joinWith [';'] ([x, y, z].map fun l => joinWith [','] (l.map String.toList))

/-- `MwpBound.parse` (value given as text; the falsy/`None` case is the empty text). -/
def parse (s : Str) : List (List Str) :=
  if s.isEmpty then [[], [], []]
  else (splitOn ';' s).map fun v => if v.isEmpty then [] else splitOn ',' v

/-- `MwpBound.append` over one column: distributes row variables by coefficient. -/
def columnTriple (rows : List (String × Scalar)) : List String × List String × List String :=
  (normNames (rows.filter (·.2 == .m) |>.map (·.1)),
   normNames (rows.filter (·.2 == .w) |>.map (·.1)),
   normNames (rows.filter (·.2 == .p) |>.map (·.1)))

/-- `Bound.show(significant=True)` keeps `k` unless `str(k) == str(bound)` (non-compact form). -/
def significantShown (k : String) (x y z : List String) : Bool :=
  (boundPoly x y z false).render != k.toList

end Bound
end Mwp
