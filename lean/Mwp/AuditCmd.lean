/-
  `#audit_ns Mwp.Props.C16` prints one JSON line per theorem declared in that
  namespace: its name, whether it is a theorem, and the axioms it depends on
  (via `Lean.collectAxioms`).  Used by harness/check.py on every run.
-/
import Lean
open Lean Elab Command

namespace Mwp.Audit

def jsonEsc (s : String) : String := (toString (repr s))

elab "#audit_ns " ns:ident : command => do
  let env ← getEnv
  let nsName := ns.getId
  let names : Array Name := env.constants.fold (init := #[]) fun acc n ci =>
    if nsName.isPrefixOf n && !n.isInternal then
      match ci with
      | .thmInfo _ => acc.push n
      | _ => acc
    else acc
  let sorted := names.qsort (fun a b => a.toString < b.toString)
  for n in sorted do
    let axs ← liftCoreM <| collectAxioms n
    let axStrs := axs.toList.map (fun a => jsonEsc a.toString)
    logInfo m!"AUDIT \{\"theorem\": {jsonEsc n.toString}, \"axioms\": [{", ".intercalate axStrs}]}"

end Mwp.Audit
