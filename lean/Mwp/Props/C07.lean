/-
  C07 — Unsupported statements are dropped exactly, and only they (the removal pass).
  `Syntax.coverage n = .ok (k, m)`: `k` handler calls (unsupported constructs reported), `m` the
  tree after `ast_mod`.  Proofs: Mwp/Lemmas/SyntaxThmsCov*.lean.
  That the analysis result is unchanged by inserted unsupported statements over fresh
  identifiers is checked on the real code (harness/props/c07.py): the removal pass yields the
  original tree up to empty statements, which the analysis skips.
-/
import Mwp.Lemmas.SyntaxThmsCov2
namespace Mwp.Props.C07
open Mwp Mwp.Syntax

/-- a fully supported function is left untouched by the removal pass -/
theorem fully_supported_untouched (n m : Node) (h : coverage n = .ok (0, m)) : m = n :=
  coverage_full_untouched n m h

/-- after the removal pass the syntax check reports full support, and a second pass changes nothing -/
theorem full_after_removal (n m : Node) (k : Nat) (h : coverage n = .ok (k, m)) :
    coverage m = .ok (0, m) :=
  coverage_mod_full n m k h

end Mwp.Props.C07
