/-
  C07 — Unsupported statements are dropped exactly, and only they (the removal pass).
  `Syntax.coverage n = .ok (k, m)`: `k` handler calls (unsupported constructs reported), `m` the
  tree after `ast_mod`.  Proofs: Mwp/Lemmas/SyntaxThmsCov*.lean.
  That the analysis result is unchanged by inserted unsupported statements over fresh
  identifiers is checked on the real code (harness/props/c07.py): the removal pass yields the
  original tree up to empty statements, which the analysis skips.
-/
import Mwp.Lemmas.SyntaxThmsCov2
import Mwp.Lemmas.SyntaxThmsInsert
namespace Mwp.Props.C07
open Mwp Mwp.Syntax

/-- a fully supported function is left untouched by the removal pass -/
theorem fully_supported_untouched (n m : Node) (h : coverage n = .ok (0, m)) : m = n :=
  coverage_full_untouched n m h

/-- after the removal pass the syntax check reports full support, and a second pass changes nothing -/
theorem full_after_removal (n m : Node) (k : Nat) (h : coverage n = .ok (k, m)) :
    coverage m = .ok (0, m) :=
  coverage_mod_full n m k h

/-- EXACTNESS of the removal pass.  `C` is a one-hole statement context (the hole is the item list
    of a block, at any depth below function body / loop bodies / branches / labels / blocks),
    `s` a statement the syntax check rejects (`covN s` charges it to its container).  Provided
    every statement on the path to the hole is itself supported (`Ctx.Supported`) and `s` does not
    change the `loop_compat` verdict of an enclosing `for` (`Ctx.Compat`; implied by
    `Ctx.Fresh`: `s` mentions no variable of the condition / initialiser sources of an enclosing
    `for`, see `Ctx.compat_of_fresh`), the removal pass on the function with `s` inserted yields
    the same tree as on the function without it, with exactly one more omitted command. -/
theorem inserted_unsupported_statement_is_removed_exactly (C : Ctx) (s : Node) (cs : Cov)
    (hs : covN s = .ok cs) (hu : cs.up > 0) (l1 l2 : List Node)
    (hsup : C.Supported (l1 ++ l2)) (hcompat : C.Compat (l1 ++ s :: l2) (l1 ++ l2))
    (k : Nat) (m : Node) :
    coverage (C.fill (l1 ++ s :: l2)) = .ok (k + 1, m) ↔
      coverage (C.fill (l1 ++ l2)) = .ok (k, m) :=
  coverage_insert C s cs hs hu l1 l2 hsup hcompat k m

/-- the same at the level of one block: same remaining items, one more omitted command -/
theorem inserted_unsupported_item_is_removed_exactly (s : Node) (cs : Cov)
    (hs : covN s = .ok cs) (hu : cs.up > 0) (l1 l2 l' : List Node) (k : Nat) :
    covList (l1 ++ s :: l2) = .ok (k + 1, l') ↔ covList (l1 ++ l2) = .ok (k, l') :=
  covList_insert s cs hs hu l1 l2 l' k

/-- A fully supported function `f = C.fill (l1 ++ l2)` with an unsupported statement inserted:
    non-strict analysis sees exactly `f` (the syntax gate hands `f` to `Analysis.func`), so its
    result is the result for `f`; strict analysis refuses the function. -/
theorem analysis_unaffected_by_inserted_unsupported_statement (C : Ctx) (s : Node) (cs : Cov)
    (hs : covN s = .ok cs) (hu : cs.up > 0) (l1 l2 : List Node) (m : Node)
    (hfull : coverage (C.fill (l1 ++ l2)) = .ok (0, m))
    (hcompat : C.Compat (l1 ++ s :: l2) (l1 ++ l2)) (fin : Bool) :
    coverage (C.fill (l1 ++ s :: l2)) = .ok (1, C.fill (l1 ++ l2)) ∧
    Run.syntaxCheck (C.fill (l1 ++ s :: l2)) false = .ok (some (C.fill (l1 ++ l2))) ∧
    Run.runOne (C.fill (l1 ++ s :: l2)) fin false = Run.runOne (C.fill (l1 ++ l2)) fin false ∧
    Run.runOne (C.fill (l1 ++ s :: l2)) fin true = .ok none :=
  ⟨coverage_insert_full C s cs hs hu l1 l2 m hfull hcompat,
   (syntaxCheck_insert C s cs hs hu l1 l2 m hfull hcompat).1,
   runOne_insert C s cs hs hu l1 l2 m hfull hcompat fin,
   runOne_insert_strict C s cs hs hu l1 l2 m hfull hcompat fin⟩

/-! example: `while (x < 10) { y = y + 1; }` with `g(y);` and `a[1] = x;` inserted in the body -/

/-- `void f() { while (x < 10) □ }` -/
def exCtx : Ctx :=
  .funcDef (.decl (some "f") (.funcDecl none) none)
    (.block [] (.while_ (.binop "<" (.id "x") (.const "int" "10")) .hole) [])
/-- `y = y + 1;` -/
def exKeep : Node := .assign "=" (.id "y") (.binop "+" (.id "y") (.const "int" "1"))
/-- `g(y);` -/
def exCall : Node := .funcCall (.id "g") (some (.exprList [.id "y"]))
/-- `a[1] = x;` -/
def exArr : Node := .assign "=" (.arrayRef (.id "a") (.const "int" "1")) (.id "x")

example : coverage (exCtx.fill ([] ++ exCall :: ([exKeep] ++ exArr :: []))) =
    .ok (2, exCtx.fill ([] ++ ([exKeep] ++ []))) := by
  apply coverage_insert_two exCtx exCall exArr ⟨1, 0, exCall⟩ ⟨1, 0, exArr⟩ _ (by decide) _
    (by decide) [] [exKeep] [] (exCtx.fill [exKeep])
  · simp [exCtx, exKeep, Ctx.fill, coverage, covN, covList, covBody, hasEffect, allowRhs,
      allowOperand, Node.isId, Node.isBinop, Node.isConst, Node.isUnop, Node.rmCast, Gen.binOps,
      bind, Except.bind, pure, Except.pure]
  · simp only [exCtx, Ctx.Compat]
  · simp only [exCtx, Ctx.Compat]
  · simp [exCall, covN, isAssertAssume, pure, Except.pure]
  · simp [exArr, covN, Node.isId, pure, Except.pure]

/-- The handler tables of the live `Coverage` class (REGENERATED on every run) are the ones the
    model `covN` was written against: a handler added to or lost from the class breaks this. -/
theorem coverage_dispatch_as_modelled :
    Gen.coverageOwn = ["Assignment", "BinaryOp", "Case", "Cast", "Compound", "Decl", "DeclList", "Default", "DoWhile", "ExprList", "For", "FuncCall", "FuncDef", "If", "Label", "ParamList", "Return", "UnaryOp", "While"] ∧
    Gen.coveragePass = ["ArrayDecl", "ArrayRef", "Break", "Constant", "Continue", "EmptyStatement", "Goto", "ID", "Switch", "TernaryOp", "TypeDecl"] ∧
    Gen.coverageDefault = ["Alignas", "CompoundLiteral", "EllipsisParam", "Enum", "Enumerator", "EnumeratorList", "FileAST", "FuncDecl", "IdentifierType", "InitList", "NamedInitializer", "Pragma", "PtrDecl", "StaticAssert", "Struct", "StructRef", "Typedef", "Typename", "Union"] ∧
    Gen.uOps = ["!", "+", "++", "-", "--", "p++", "p--", "sizeof"] ∧ Gen.binOps = ["*", "+", "-"] := by decide

end Mwp.Props.C07
