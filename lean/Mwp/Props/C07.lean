import Mwp.Model.Syntax
namespace Mwp.Props.C07
end Mwp.Props.C07
