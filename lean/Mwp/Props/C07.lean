/-
  C07 — Unsupported statements are dropped exactly, and only they (the removal pass).
  `Syntax.coverage n = .ok (k, m)`: `k` handler calls (unsupported constructs reported), `m` the
  tree after `ast_mod`.  Proofs: Mwp/Lemmas/SyntaxThmsCov*.lean.
  That the analysis result is unchanged by inserted unsupported statements over fresh
  identifiers is checked on the real code (harness/props/c07.py): the removal pass yields the
  original tree up to empty statements, which the analysis skips.
-/
import Mwp.Lemmas.SyntaxThmsCov2
namespace Mwp.Props.C07
open Mwp Mwp.Syntax

/-- a fully supported function is left untouched by the removal pass -/
theorem fully_supported_untouched (n m : Node) (h : coverage n = .ok (0, m)) : m = n :=
  coverage_full_untouched n m h

/-- after the removal pass the syntax check reports full support, and a second pass changes nothing -/
theorem full_after_removal (n m : Node) (k : Nat) (h : coverage n = .ok (k, m)) :
    coverage m = .ok (0, m) :=
  coverage_mod_full n m k h


/-- The handler tables of the live `Coverage` class (REGENERATED on every run) are the ones the
    model `covN` was written against: a handler added to or lost from the class breaks this. -/
theorem coverage_dispatch_as_modelled :
    Gen.coverageOwn = ["Assignment", "BinaryOp", "Case", "Cast", "Compound", "Decl", "DeclList", "Default", "DoWhile", "ExprList", "For", "FuncCall", "FuncDef", "If", "Label", "ParamList", "Return", "UnaryOp", "While"] ∧
    Gen.coveragePass = ["ArrayDecl", "ArrayRef", "Break", "Constant", "Continue", "EmptyStatement", "Goto", "ID", "Switch", "TernaryOp", "TypeDecl"] ∧
    Gen.coverageDefault = ["Alignas", "CompoundLiteral", "EllipsisParam", "Enum", "Enumerator", "EnumeratorList", "FileAST", "FuncDecl", "IdentifierType", "InitList", "NamedInitializer", "Pragma", "PtrDecl", "StaticAssert", "Struct", "StructRef", "Typedef", "Typename", "Union"] ∧
    Gen.uOps = ["!", "+", "++", "-", "--", "p++", "p--", "sizeof"] ∧ Gen.binOps = ["*", "+", "-"] := by decide

end Mwp.Props.C07
