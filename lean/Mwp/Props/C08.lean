/-
  C08 — Loop mode: the per-variable flags are nested (m ⇒ w ⇒ p), an unbounded variable has no
  flag, and a bounded variable carries a choice object that is not infinite (model level).
  Helper lemmas: Mwp/Lemmas/Misc08.lean.
-/
import Mwp.Lemmas.Misc08
namespace Mwp.Props.C08
open Mwp Mwp.Analysis Mwp.LoopAnalysis Mwp.Misc08

/-- `get_result`: the m / w / p flags form a ladder -/
theorem flags_nested (rel : Relation) (index : Nat) (v : String) (r : VRes)
    (h : getResult rel index v = .ok r) :
    (r.isM = true → r.isW = true) ∧ (r.isW = true → r.isP = true) := by
  obtain ⟨c, _, rfl | rfl | rfl⟩ := getResult_inv rel index v r h <;> simp

theorem unbounded_flags (v : String) :
    (VRes.unbounded v).isM = false ∧ (VRes.unbounded v).isW = false ∧ (VRes.unbounded v).isP = false :=
  ⟨rfl, rfl, rfl⟩

/-- a result of `get_result` always has the p flag and a choice object that is not infinite -/
theorem getResult_choice_not_infinite (rel : Relation) (index : Nat) (v : String) (r : VRes)
    (h : getResult rel index v = .ok r) :
    ∃ c, r.choices = some c ∧ Choices.infinite c = false := by
  obtain ⟨c, hc, rfl | rfl | rfl⟩ := getResult_inv rel index v r h <;> exact ⟨c, rfl, hc⟩

/-- every variable result of `maybeResult` has nested flags -/
theorem maybeResult_flags_nested (rel : Relation) (index : Nat) (pick : Option (List Nat))
    (rs : List VRes) (h : maybeResult rel index pick = .ok rs) :
    ∀ r ∈ rs, (r.isM = true → r.isW = true) ∧ (r.isW = true → r.isP = true) := by
  intro r hr
  rcases maybeResult_inv rel index pick rs h r hr with ⟨v, rfl⟩ | ⟨v, hv⟩
  · simp [VRes.unbounded]
  · exact flags_nested rel index v r hv

/-- in `maybeResult`, a variable is reported bounded (p flag) only with a non-infinite choice object -/
theorem maybeResult_bounded_has_choice (rel : Relation) (index : Nat) (pick : Option (List Nat))
    (rs : List VRes) (h : maybeResult rel index pick = .ok rs) :
    ∀ r ∈ rs, r.isP = true → ∃ c, r.choices = some c ∧ Choices.infinite c = false := by
  intro r hr hp
  rcases maybeResult_inv rel index pick rs h r hr with ⟨v, rfl⟩ | ⟨v, hv⟩
  · simp [VRes.unbounded] at hp
  · exact getResult_choice_not_infinite rel index v r hv

/-! ## non-vacuity: `while (x) { x = y + y; z = z * z; u = y; }` — `z` fails, `x` is w-bounded
    (third alternative only), `u`, `y` are m-bounded -/

private def loop1 : Node := .while_ (.id "x") (.compound (some [
  .assign "=" (.id "x") (.binop "+" (.id "y") (.id "y")),
  .assign "=" (.id "z") (.binop "*" (.id "z") (.id "z")),
  .assign "=" (.id "u") (.id "y")]))

set_option maxRecDepth 8000 in
example : ((inspectRel loop1).bind fun (rel, i, _) => getResult rel i "x").toOption.map
    (fun r => (r.isM, r.isW, r.isP)) = some (false, true, true) := by decide
set_option maxRecDepth 8000 in
example : ((inspectRel loop1).bind fun (rel, i, _) => getResult rel i "y").toOption.map
    (fun r => (r.isM, r.isW, r.isP)) = some (true, true, true) := by decide
set_option maxRecDepth 8000 in
example : ((inspectRel loop1).bind fun (rel, i, _) => getResult rel i "x").toOption.map
    (fun r => r.choices.map (fun c => c.valid)) = some (some [[[2], [0, 1, 2]]]) := by decide
-- `maybeResult` succeeds with a mix of unbounded and bounded variables
set_option maxRecDepth 8000 in
example : ((inspectRel loop1).bind fun (rel, i, _) => maybeResult rel i (some [2, 0])).toOption.map
    (fun rs => rs.map fun r => (r.name, r.isM, r.isW, r.isP))
    = some [("z", false, false, false), ("u", true, true, true), ("x", false, true, true),
        ("y", true, true, true)] := by decide

end Mwp.Props.C08
