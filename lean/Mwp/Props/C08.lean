/-
  C08 — Loop mode: the per-variable flags are nested (m ⇒ w ⇒ p), an unbounded variable has no
  flag, a bounded variable carries a choice object that is not infinite, and that object is SOUND:
  every vector it accepts keeps the variable's own column AND the column of every variable flowing
  into it free of ∞ (model level).  Helper lemmas: Mwp/Lemmas/Misc08.lean.
-/
import Mwp.Lemmas.Misc08
import Mwp.Lemmas.LoopSound
namespace Mwp.Props.C08
open Mwp Mwp.Analysis Mwp.LoopAnalysis Mwp.Misc08

/-- `get_result`: the m / w / p flags form a ladder -/
theorem flags_nested (rel : Relation) (index : Nat) (v : String) (r : VRes)
    (h : getResult rel index v = .ok r) :
    (r.isM = true → r.isW = true) ∧ (r.isW = true → r.isP = true) :=
  ⟨(getResult_flags rel index v r h).1, (getResult_flags rel index v r h).2.1⟩

theorem unbounded_flags (v : String) :
    (VRes.unbounded v).isM = false ∧ (VRes.unbounded v).isW = false ∧ (VRes.unbounded v).isP = false :=
  ⟨rfl, rfl, rfl⟩

/-- a result of `get_result` with the p flag (i.e. not `unbounded`) carries a choice object that is
    not infinite -/
theorem getResult_choice_not_infinite (rel : Relation) (index : Nat) (v : String) (r : VRes)
    (h : getResult rel index v = .ok r) (hp : r.isP = true) :
    ∃ c, r.choices = some c ∧ Choices.infinite c = false :=
  (getResult_flags rel index v r h).2.2 hp

/-- … and a result without the p flag is `unbounded`: no flag, no choice object -/
theorem getResult_unbounded_or_bounded (rel : Relation) (index : Nat) (v : String) (r : VRes)
    (h : getResult rel index v = .ok r) : r = VRes.unbounded v ∨ r.isP = true := by
  obtain ⟨_, _, _, _, hr⟩ := getResult_inv rel index v r h
  rcases hr with rfl | ⟨_, _, _, _, ⟨_, rfl⟩ | ⟨_, rfl⟩ | ⟨_, rfl⟩⟩
  · exact .inl rfl
  all_goals exact .inr rfl

/-- every variable result of `maybeResult` has nested flags -/
theorem maybeResult_flags_nested (rel : Relation) (index : Nat) (pick : Option (List Nat))
    (rs : List VRes) (h : maybeResult rel index pick = .ok rs) :
    ∀ r ∈ rs, (r.isM = true → r.isW = true) ∧ (r.isW = true → r.isP = true) := by
  intro r hr
  rcases maybeResult_inv rel index pick rs h r hr with ⟨v, rfl⟩ | ⟨v, hv⟩
  · simp [VRes.unbounded]
  · exact flags_nested rel index v r hv

/-- in `maybeResult`, a variable is reported bounded (p flag) only with a non-infinite choice object -/
theorem maybeResult_bounded_has_choice (rel : Relation) (index : Nat) (pick : Option (List Nat))
    (rs : List VRes) (h : maybeResult rel index pick = .ok rs) :
    ∀ r ∈ rs, r.isP = true → ∃ c, r.choices = some c ∧ Choices.infinite c = false := by
  intro r hr hp
  rcases maybeResult_inv rel index pick rs h r hr with ⟨v, rfl⟩ | ⟨v, hv⟩
  · simp [VRes.unbounded] at hp
  · exact getResult_choice_not_infinite rel index v r hv hp

/-- **The reported choice object is valid for the dependencies.**  At every vector `vec` the choice
    object reported for `v` accepts, the column of `v` is free of ∞ AND so is the column of every
    variable `u` that flows into `v` (`sources`: an `m`/`w`/`p` monomial in row `u` of the column
    of `v`); moreover the flags mean what they say at `vec`: with the w flag the column of `v` has
    no `p`, with the m flag it has neither `w` nor `p`.
    Side conditions (as in C15 `choices_exact`): the delta lists `generate` is fed — those of the
    `w`/`p`/∞ monomials of the column of `v`, those of the ∞ monomials of the columns of its
    sources — are well formed for vectors of length `index`. -/
theorem reported_choices_valid_for_dependencies (rel : Relation) (index : Nat) (v : String) (r : VRes)
    (h : getResult rel index v = .ok r) (c : Choices.T) (hc : r.choices = some c)
    (vec : List Nat) (hv : Choices.VecOK Gen.domain index vec) (hacc : Choices.isValid c vec = true)
    (col : Nat) (hcol : rel.vars.idxOf? v = some col)
    (hwf : ∀ s ∈ rel.colInfDeltas col [.w, .p], Choices.WFSeq Gen.domain index s)
    (hwfs : ∀ u ∈ sources rel col, ∀ cu, rel.vars.idxOf? u = some cu →
      ∀ s ∈ rel.colInfDeltas cu [], Choices.WFSeq Gen.domain index s) :
    (∀ row ∈ rel.mat, (row.getD col Poly.zero).evalD vec ≠ .i) ∧
    (∀ u ∈ sources rel col, ∀ cu, rel.vars.idxOf? u = some cu →
      ∀ row ∈ rel.mat, (row.getD cu Poly.zero).evalD vec ≠ .i) ∧
    (r.isW = true → ∀ row ∈ rel.mat, (row.getD col Poly.zero).evalD vec ≠ .p) ∧
    (r.isM = true → ∀ row ∈ rel.mat,
      (row.getD col Poly.zero).evalD vec = .o ∨ (row.getD col Poly.zero).evalD vec = .m) :=
  getResult_sound rel index v r h c hc vec hv hacc col hcol hwf hwfs

/-! ## non-vacuity: `while (x) { x = y + y; z = z * z; u = y; }` — `z` fails, `x` is w-bounded
    (third alternative only), `u`, `y` are m-bounded -/

private def loop1 : Node := .while_ (.id "x") (.compound (some [
  .assign "=" (.id "x") (.binop "+" (.id "y") (.id "y")),
  .assign "=" (.id "z") (.binop "*" (.id "z") (.id "z")),
  .assign "=" (.id "u") (.id "y")]))

set_option maxRecDepth 8000 in
example : ((inspectRel loop1).bind fun (rel, i, _) => getResult rel i "x").toOption.map
    (fun r => (r.isM, r.isW, r.isP)) = some (false, true, true) := by decide
set_option maxRecDepth 8000 in
example : ((inspectRel loop1).bind fun (rel, i, _) => getResult rel i "y").toOption.map
    (fun r => (r.isM, r.isW, r.isP)) = some (true, true, true) := by decide
set_option maxRecDepth 8000 in
example : ((inspectRel loop1).bind fun (rel, i, _) => getResult rel i "x").toOption.map
    (fun r => r.choices.map (fun c => c.valid)) = some (some [[[2], [0, 1, 2]]]) := by decide
-- `z` alone: no rung — the variable stays unbounded (formerly an AssertionError)
set_option maxRecDepth 8000 in
example : ((inspectRel loop1).bind fun (rel, i, _) => getResult rel i "z").toOption.map
    (fun r => (r.isM, r.isW, r.isP, r.choices.isSome)) = some (false, false, false, false) := by decide
-- `maybeResult` succeeds with a mix of unbounded and bounded variables
set_option maxRecDepth 8000 in
example : ((inspectRel loop1).bind fun (rel, i, _) => maybeResult rel i (some [2, 0])).toOption.map
    (fun rs => rs.map fun r => (r.name, r.isM, r.isW, r.isP))
    = some [("z", false, false, false), ("u", true, true, true), ("x", false, true, true),
        ("y", true, true, true)] := by decide

/-! a dependent variable loses a choice: `u` receives ∞ from itself under alternative 0 of
    derivation index 0, and `v = u`.  The column of `v` alone has no ∞ anywhere, but the object
    reported for `v` rejects `[0]`, where its source `u` fails. -/

private def relDep : Relation :=
  ⟨["u", "v"], [[[⟨.m, []⟩, ⟨.i, [(0, 0)]⟩], [⟨.m, []⟩]],
                [[⟨.o, []⟩],                   [⟨.o, []⟩]]]⟩

example : sources relDep 1 = ["u"] ∧ sources relDep 0 = [] := by decide
-- the column of `v` on its own accepts every vector …
example : (relDep.varEval Gen.domain 1 "v" [.w, .p]).toOption.map (fun c => c.valid) = some [[[0, 1, 2]]] := by
  decide
-- … the reported object does not: it is cut down to the vectors valid for `u`
example : (getResult relDep 1 "v").toOption.map (fun r => (r.isM, r.isW, r.isP))
    = some (true, true, true) := by decide
example : (getResult relDep 1 "v").toOption.map (fun r => r.choices.map (fun c => c.valid))
    = some (some [[[1, 2]]]) := by decide
example : (getResult relDep 1 "v").toOption.map
    (fun r => r.choices.map (fun c => (Choices.isValid c [0], Choices.isValid c [1])))
    = some (some (false, true)) := by decide
example : ((relDep.mat.map fun row => (row.getD 0 Poly.zero).evalD [0]),
    (relDep.mat.map fun row => (row.getD 0 Poly.zero).evalD [1])) = ([.i, .o], [.m, .o]) := by decide
-- the theorem applies to this relation at the accepted vector `[1]`
example (r : VRes) (h : getResult relDep 1 "v" = .ok r) (c : Choices.T) (hc : r.choices = some c)
    (hacc : Choices.isValid c [1] = true) :
    ∀ u ∈ sources relDep 1, ∀ cu, relDep.vars.idxOf? u = some cu →
      ∀ row ∈ relDep.mat, (row.getD cu Poly.zero).evalD [1] ≠ .i :=
  (reported_choices_valid_for_dependencies relDep 1 "v" r h c hc [1] ⟨rfl, by decide⟩ hacc 1
    (by decide) (by
      intro s hs
      have hl : relDep.colInfDeltas 1 [.w, .p] = [] := by decide
      rw [hl] at hs; cases hs) (by
      intro u hu cu hcu s hs
      have hu' : u = "u" := by
        have : sources relDep 1 = ["u"] := by decide
        rw [this] at hu; simpa using hu
      subst hu'
      have : cu = 0 := by
        have h0 : relDep.vars.idxOf? "u" = some 0 := by decide
        rw [h0] at hcu; exact (Option.some.inj hcu).symm
      subst this
      have hl : relDep.colInfDeltas 0 [] = [[(0, 0)]] := by decide
      rw [hl] at hs
      simp only [List.mem_singleton] at hs
      subst hs
      exact ⟨by decide, by decide⟩)).2.1

/-! ## The main clause, against the calculus itself

`Spec.semI` is the calculus with failure recorded per cell (Mwp/Spec/CalculusInf.lean: the same
rules as `Spec.sem`, a failing side condition becomes ∞ in the cells it concerns and travels along
flows only); `Spec.okFor S v` says that the derivation is failure-free for `v` and for every
variable with a non-zero path into `v`. -/

/-- **C08 (model).**  For every loop statement (any nesting inside it) the loop-mode analysis of the
    model reports a choice for a variable only if, at that choice, the calculus derivation is
    failure-free for the variable and all its ancestors -- and the column the bound is read from is
    the calculus' column.  `hloop`: the statement is a `while` / `do-while` / counted `for` (loop mode
    only analyses loops; for other statements the claim is false, `LoopSoundEx.needs_loop`);
    `hres`: no empty or reserved (`true` / `false`) names. -/
theorem loop_mode_bound_is_a_valid_derivation (loop : Node) (cmd : Spec.Cmd)
    (hd : Spec.desugar loop = some cmd) (hloop : LoopSound.isLoopCmd cmd = true)
    (hnames : Refine.namesOkA loop = true) (hfresh : Refine.guardsFresh cmd = true)
    (hres : ∀ v ∈ cmd.vars, v ≠ "" ∧ v ∉ Gen.reserved)
    (rel : Relation) (index : Nat) (infty : Bool) (h : inspectRel loop = .ok (rel, index, infty))
    (v : String) (r : VRes) (hr : getResult rel index v = .ok r)
    (c : Choices.T) (hc : r.choices = some c) (vec : List Nat)
    (hvec : Choices.VecOK Gen.domain index vec) (hacc : Choices.isValid c vec = true) :
    Spec.okFor (Spec.semI rel.vars cmd 0 (Spec.relabel cmd vec)).2 (Spec.idxOf rel.vars v) = true ∧
    Spec.SMat.column (Spec.semI rel.vars cmd 0 (Spec.relabel cmd vec)).2 (Spec.idxOf rel.vars v)
      = Spec.SMat.column (rel.applyChoice vec) (Spec.idxOf rel.vars v) :=
  loop_mode_sound_of_names loop cmd hd hloop hnames hfresh hres rel index infty h v r hr c hc vec hvec hacc

/-- the same for the results of `maybe_result` (some variables fail at every choice): every entry
    that carries a choice object came from `get_result` and is sound in the same sense -/
theorem loop_mode_partial_results_are_valid_derivations (loop : Node) (cmd : Spec.Cmd)
    (hd : Spec.desugar loop = some cmd) (hloop : LoopSound.isLoopCmd cmd = true)
    (hnames : Refine.namesOkA loop = true) (hfresh : Refine.guardsFresh cmd = true)
    (rel : Relation) (index : Nat) (infty : Bool) (h : inspectRel loop = .ok (rel, index, infty))
    (hcov : ∀ v ∈ cmd.vars, v ∈ rel.vars)
    (pick : Option (List Nat)) (rs : List VRes) (hm : maybeResult rel index pick = .ok rs)
    (r : VRes) (hrs : r ∈ rs) (c : Choices.T) (hc : r.choices = some c) (vec : List Nat)
    (hvec : Choices.VecOK Gen.domain index vec) (hacc : Choices.isValid c vec = true) :
    ∃ v, getResult rel index v = .ok r ∧
      Spec.okFor (Spec.semI rel.vars cmd 0 (Spec.relabel cmd vec)).2 (Spec.idxOf rel.vars v) = true ∧
      Spec.SMat.column (Spec.semI rel.vars cmd 0 (Spec.relabel cmd vec)).2 (Spec.idxOf rel.vars v)
        = Spec.SMat.column (rel.applyChoice vec) (Spec.idxOf rel.vars v) :=
  loop_mode_sound_maybe loop cmd hd hloop hnames hfresh rel index infty h hcov pick rs hm r hrs c hc vec hvec hacc

end Mwp.Props.C08
