import Mwp.Spec.CalculusInf
namespace Mwp.Props.C08
end Mwp.Props.C08
