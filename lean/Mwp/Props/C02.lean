import Mwp.Model.Analysis
import Mwp.Spec.Calculus
namespace Mwp.Props.C02
end Mwp.Props.C02
