/-
  C02 — A function is reported infinite exactly when no derivation exists, in both modes.
  Model: `Analysis.func` (Mwp/Model/Analysis.lean); reference: `Spec.sem` (Mwp/Spec/Calculus.lean).
  Property theorems only; the work is in Mwp/Lemmas/FuncRefine*.lean, which lifts the statement-level
  refinement `compute_refines_partial` (Mwp/Lemmas/RefineLoops.lean) to `cmds` / `func`, adds the
  syntactic delta invariant (FuncRefineDelta*.lean) needed by `C04.generate_exact`, and the
  well-formedness of the delta-graph history (FuncRefineGhost*.lean) needed by `C11.collapse_sound`.

  Side conditions: `Refine.FuncOk node` (one decidable check, Mwp/Lemmas/FuncRefineCore.lean):
  the node is a function definition whose body is a block of statements of the supported fragment,
  `namesOkA` holds for them, the loop guards of the reading are fresh (`guardsFresh`), and
  every variable of the reading is among the function's recorded variables (excludes only the
  reserved names `true` / `false` used as variables).  Success of `func` is a hypothesis (the
  fixpoint loops of the model are fuelled).
-/
import Mwp.Lemmas.FuncRefine
import Mwp.Lemmas.FuncTotal
namespace Mwp.Props.C02
open Mwp Mwp.Analysis Mwp.Spec Mwp.Refine

/-- **C02.**  The function is reported infinite exactly when, in the calculus, every choice vector
    makes some loop side condition fail -- in both modes (`stop = true`: early stop through the
    delta graph; `stop = false`: run to completion).  The universe is the reported variable list. -/
theorem infinite_iff_no_derivation (node : Node) (stop : Bool) (r : FuncRes)
    (hok : FuncOk node = true) (h : func node stop = .ok r)
    (cmd : Cmd) (hd : desugarFunc node = some cmd) :
    r.infinite = true ↔
      ∀ c : Choice, c.length = cmd.arity → (∀ v ∈ c, v < 3) → sem r.variables cmd 0 c = none := by
  obtain ⟨vs, _, _, _, hsub, hnd, hiff, _⟩ := func_sem node stop r hok h cmd hd
  exact hiff r.variables hnd hsub

/-- the same over ANY duplicate-free universe containing the function's variables: whether a
    derivation exists does not depend on the universe -/
theorem infinite_iff_no_derivation_any_universe (node : Node) (stop : Bool) (r : FuncRes)
    (hok : FuncOk node = true) (h : func node stop = .ok r)
    (cmd : Cmd) (hd : desugarFunc node = some cmd) (vs : List String)
    (hvs : Syntax.variables node = .ok vs) (U : List String) (hU : U.Nodup) (hsub : ∀ v ∈ vs, v ∈ U) :
    r.infinite = true ↔
      ∀ c : Choice, c.length = cmd.arity → (∀ v ∈ c, v < 3) → sem U cmd 0 c = none := by
  obtain ⟨vs', hvs', _, _, _, _, hiff, _⟩ := func_sem node stop r hok h cmd hd
  have : vs' = vs := by rw [hvs] at hvs'; exact (Except.ok.inj hvs').symm
  subst this
  exact hiff U hU hsub

/-- the verdict does not depend on the mode -/
theorem verdict_mode_independent (node : Node) (hok : FuncOk node = true) (r1 r2 : FuncRes)
    (h1 : func node true = .ok r1) (h2 : func node false = .ok r2) : r1.infinite = r2.infinite := by
  obtain ⟨_, _, cs, _, _, _, _, _, _, _, hd, _⟩ := FuncOk.unpack hok
  obtain ⟨vs, hvs, hnd, _, _, _, hiff1, _⟩ := func_sem node true r1 hok h1 _ hd
  have i1 := hiff1 vs hnd (fun v hv => hv)
  have i2 := infinite_iff_no_derivation_any_universe node false r2 hok h2 _ hd vs hvs vs hnd (fun v hv => hv)
  exact Bool.eq_iff_iff.2 (i1.trans i2.symm)

/-- run to completion, "infinite" is never an early exit: relation and index are those of the
    whole body (a finite result reports them in either mode) -/
theorem finite_reports_whole_body (node : Node) (stop : Bool) (r : FuncRes)
    (hok : FuncOk node = true) (h : func node stop = .ok r)
    (cmd : Cmd) (hd : desugarFunc node = some cmd) (hf : r.infinite = false) :
    r.index = cmd.arity ∧ ∃ rel, r.relation = some rel ∧ rel.vars = r.variables := by
  obtain ⟨_, _, _, _, _, _, _, hfin⟩ := func_sem node stop r hok h cmd hd
  obtain ⟨rel, _, hr, _, _, hv, hi, _⟩ := hfin hf
  exact ⟨hi, rel, hr, hv⟩

/-- a function reported not infinite has a valid choice: the choice object is there, yields a
    first choice, and accepts it -/
theorem finite_has_valid_choice (node : Node) (stop : Bool) (r : FuncRes)
    (hok : FuncOk node = true) (h : func node stop = .ok r) (hf : r.infinite = false) :
    ∃ ch f, r.choices = some ch ∧ Choices.first ch = .ok (some f) ∧ Choices.isValid ch f = true := by
  obtain ⟨_, _, cs, _, _, _, _, _, _, _, hd, _⟩ := FuncOk.unpack hok
  obtain ⟨_, _, _, _, _, _, _, hfin⟩ := func_sem node stop r hok h _ hd
  obtain ⟨_, ch, _, hc, _, _, _, _, ⟨f, h1, _, _, h2⟩, _⟩ := hfin hf
  exact ⟨ch, f, hc, h1, h2⟩

/-- ... and at that first choice the calculus derives a matrix -/
theorem first_choice_is_a_derivation (node : Node) (stop : Bool) (r : FuncRes)
    (hok : FuncOk node = true) (h : func node stop = .ok r)
    (cmd : Cmd) (hd : desugarFunc node = some cmd) (hf : r.infinite = false) :
    ∃ ch f, r.choices = some ch ∧ Choices.first ch = .ok (some f) ∧
      ∃ k M, sem r.variables cmd 0 (relabel cmd f) = some (k, M) := by
  obtain ⟨_, _, _, _, hsub, hnd, _, hfin⟩ := func_sem node stop r hok h cmd hd
  obtain ⟨rel, ch, _, hc, _, _, _, hval, ⟨f, h1, hl, h3, h2⟩, hA⟩ := hfin hf
  refine ⟨ch, f, hc, h1, ?_⟩
  have A := hA r.variables hnd hsub f (valid_of_vec hl h3) _ (relabel_relab cmd f)
  exact A.some_iff_fin.2 ((hval f hl h3).1 h2)

/-- **C02, without any hypothesis about the run.**  On every supported function the analysis returns
    a result in either mode (`Mwp.func_total`: the fixpoint loop stops, no error branch is reachable),
    both modes give the same verdict, and the verdict is "infinite" exactly when the calculus has no
    derivation at any choice vector. -/
theorem verdict_exists_and_is_exact (node : Node) (hok : FuncOk node = true)
    (cmd : Cmd) (hd : desugarFunc node = some cmd) :
    ∃ r1 r2, func node true = .ok r1 ∧ func node false = .ok r2 ∧ r1.infinite = r2.infinite ∧
      (r1.infinite = true ↔
        ∀ c : Choice, c.length = cmd.arity → (∀ v ∈ c, v < 3) → sem r1.variables cmd 0 c = none) := by
  obtain ⟨r1, h1⟩ := func_total node true hok cmd hd
  obtain ⟨r2, h2⟩ := func_total node false hok cmd hd
  exact ⟨r1, r2, h1, h2, verdict_mode_independent node hok r1 r2 h1 h2,
    infinite_iff_no_derivation node true r1 hok h1 cmd hd⟩

/-- the side condition `FuncOk` follows from checks on the syntax tree alone -/
theorem funcOk_from_syntax (d : Node) (l : List Node) (cs : List Cmd) (hdl : desugarL l = some cs)
    (hn : namesOkAL l = true) (hp : guardsPlainL l = true)
    (hres : ∀ v ∈ varsL cs, v ≠ "" ∧ v ∉ Gen.reserved) :
    FuncOk (.funcDef d (.compound (some l))) = true :=
  funcOk_of_plain d l cs hdl hn hp hres

/-! ## non-vacuity -/

private def fn (body : List Node) : Node :=
  .funcDef (.decl (some "f") (.funcDecl (some (.paramList
    [.decl (some "x") .typeDecl none, .decl (some "y") .typeDecl none]))) none) (.compound (some body))
/-- `int f(int x, int y){ while (x < 10) { x = y + y; } }` -- finite, two of three choices fail -/
private def fFin : Node := fn [.while_ (.binop "<" (.id "x") (.const "int" "10"))
  (.compound (some [.assign "=" (.id "x") (.binop "+" (.id "y") (.id "y"))]))]
/-- `int f(int x, int y){ while (x < 10) { x = x + y; } }` -- infinite -/
private def fInf : Node := fn [.while_ (.binop "<" (.id "x") (.const "int" "10"))
  (.compound (some [.assign "=" (.id "x") (.binop "+" (.id "x") (.id "y"))]))]
private def cFin : Cmd := .seq [.while_ (.seq [.bin "+" "x" (.var "y") (.var "y")])]
private def cInf : Cmd := .seq [.while_ (.seq [.bin "+" "x" (.var "x") (.var "y")])]

-- the hypotheses hold
example : FuncOk fFin = true := by decide
example : FuncOk fInf = true := by decide
example : desugarFunc fFin = some cFin := by rfl
example : desugarFunc fInf = some cInf := by rfl
-- both modes return; the verdicts are the expected ones
example : (func fFin true).toOption.map (fun r => (r.infinite, r.index, r.variables))
    = some (false, 1, ["x", "y"]) := by decide
example : (func fFin false).toOption.map (fun r => (r.infinite, r.index, r.variables))
    = some (false, 1, ["x", "y"]) := by decide
example : (func fInf true).toOption.map (fun r => (r.infinite, r.variables)) = some (true, ["x", "y"]) := by decide
example : (func fInf false).toOption.map (fun r => (r.infinite, r.variables)) = some (true, ["x", "y"]) := by decide
-- the finite function: some vectors fail, one derives
example : sem ["x", "y"] cFin 0 [0] = none ∧ sem ["x", "y"] cFin 0 [1] = none ∧
    sem ["x", "y"] cFin 0 [2] = some (1, [[.m, .o], [.w, .m]]) := by decide
-- the infinite function: the theorem gives failure at every vector, in both modes
example (stop : Bool) : ∀ r, func fInf stop = .ok r →
    ∀ c : Choice, c.length = 1 → (∀ v ∈ c, v < 3) → sem r.variables cInf 0 c = none := by
  intro r h
  have hi : r.infinite = true := by
    have : ∀ stop, (func fInf stop).toOption.map (·.infinite) = some true := by decide
    have := this stop
    rw [h] at this; exact Option.some.inj this
  exact (infinite_iff_no_derivation fInf stop r (by decide) h cInf (by rfl)).1 hi
-- the finite function: the theorem gives a valid first choice at which the calculus derives a matrix
example : ∀ r, func fFin true = .ok r → ∃ ch f, r.choices = some ch ∧ Choices.first ch = .ok (some f) ∧
    ∃ k M, sem r.variables cFin 0 (relabel cFin f) = some (k, M) := by
  intro r h
  have hf : r.infinite = false := by
    have : (func fFin true).toOption.map (·.infinite) = some false := by decide
    rw [h] at this; exact Option.some.inj this
  exact first_choice_is_a_derivation fFin true r (by decide) h cFin (by rfl) hf

end Mwp.Props.C02
