/-
  C01 — Every reported bound is a derivation of the mwp flow calculus.

  Proved so far (loops are being added on top of Lemmas/RelFix):
  * `vector_table_documented`: the table of `create_vector`, REGENERATED from the live code on
    every run, is the documented rule table of the calculus (three alternatives per binary
    operation) up to pymwp's numbering of the two asymmetric alternatives;
  * `loopfree_analysis_is_calculus`: for every loop-free statement of the supported fragment
    (assignments of variables / constants / binary operations with all aliasing patterns, the
    unary and cast sugar, blocks, if/else, labels, comma expressions, nested arbitrarily) the
    relation computed by the model of `Analysis.compute_relation` MEANS, at every choice vector,
    exactly the matrix the pointwise calculus `Spec.sem` derives (and is free of ∞).
  The model is tied to the code by the differential runs of harness/props/c01.py, which also
  evaluate the full property (valid set = derivable set, matrices, bound) on the implementation's
  own reports with `Spec.sem` as oracle, loops included.
-/
import Mwp.Lemmas.RefineLoopFree
namespace Mwp.Props.C01
open Mwp Mwp.Spec Mwp.Refine

theorem vector_table_documented (op : String) (hop : op ∈ Gen.binOps) (x : String) (a b : Atom) :
    (Gen.vectorTable op (classY x (atomName a)) (classZ x (atomName a) (atomName b))).length
      = (stmtVars x (atomName a) (atomName b)).length ∧
    ∀ alt, alt < 3 → ∀ k, k < (stmtVars x (atomName a) (atomName b)).length →
      entryVal ((Gen.vectorTable op (classY x (atomName a)) (classZ x (atomName a) (atomName b))).getD k .zero) alt
        = operandFlow op a b (swapAlt ((Cmd.bin op x a b).swaps == [true]) alt)
            ((stmtVars x (atomName a) (atomName b)).getD k "") :=
  Mwp.Refine.vector_table_documented op hop x a b

theorem loopfree_analysis_is_calculus (node : Node) (cmd : Cmd) (hd : desugar node = some cmd)
    (hlf : cmd.loopFree = true) (q : Bool) (idx : Nat) (dg : DG.Graph)
    (hnames : namesOk node = true) :
    ∃ out, Analysis.compute q idx dg node = .ok out ∧ out.exit = false ∧ out.dg = dg ∧
      (∀ s ∈ out.skipped, s ∈ bareClasses) ∧ (noBare node = true → out.skipped = []) ∧
      out.index = idx + cmd.arity ∧
      ∃ r, out.rels = [r] ∧ r.WF ∧ (∀ v ∈ r.vars, v ∈ cmd.vars) ∧
        ∀ U, U.Nodup → (∀ v ∈ cmd.vars, v ∈ U) →
        ∀ c, (∀ k, idx ≤ k → k < idx + cmd.arity → ∃ a, c[k]? = some a ∧ a < 3) →
          (∀ a b, r.den c a b ≠ .i) ∧
          ∃ M, sem U cmd idx (relabelAt idx cmd c) = some (idx + cmd.arity, M) ∧
            ∀ x y, x ∈ U → y ∈ U → r.den c x y = SMat.den U M x y :=
  Mwp.compute_refines_loopfree node cmd hd hlf q idx dg hnames

end Mwp.Props.C01
