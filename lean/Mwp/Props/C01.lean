import Mwp.Model.Analysis
import Mwp.Spec.Calculus
namespace Mwp.Props.C01
end Mwp.Props.C01
