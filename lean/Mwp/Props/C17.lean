/-
  C17 — The command line produces the library's result under every flag combination.
  What Lean carries: the option plumbing.  The argparse table is REGENERATED from the live
  parser (Gen.Cli); for every flag combination of the property the model of `main()` hands the
  library exactly the requested mode / fin / strict / pre-processor setting and writes exactly
  one file (the --out path or output/<stem>.json) unless --no_save is given.
  Process, filesystem, gcc and logging are runtime: explored by harness/props/c17.py.
-/
import Mwp.Model.Cli
namespace Mwp.Props.C17
open Mwp Mwp.Cli

/-- the expected plumbing, stated outright -/
def expected (f : Flags) : Plan :=
  { input := f.input, loopMode := f.mode == "L", fin := f.fin, strict := f.strict, useCpp := !f.noCpp,
    save := if f.noSave then none else some (f.out.getD (defaultFileOut f.input)) }

theorem isFlagLike_lit :
    isFlagLike "--mode" = true ∧ isFlagLike "--fin" = true ∧ isFlagLike "--strict" = true ∧
    isFlagLike "--no_save" = true ∧ isFlagLike "--out" = true ∧ isFlagLike "--no_cpp" = true ∧
    isFlagLike "--silent" = true ∧ isFlagLike "--info" = true ∧ isFlagLike "F" = false ∧ isFlagLike "L" = false := by
  decide

/-- the rows of the regenerated argparse table that the property's flags select -/
theorem table_rows :
    findOpt "--mode" = some ⟨"mode", ["--mode", "-m"], "StoreAction", some "F", ["F", "L"]⟩ ∧
    findOpt "--fin" = some ⟨"fin", ["--fin"], "StoreTrueAction", some "False", []⟩ ∧
    findOpt "--strict" = some ⟨"strict", ["--strict"], "StoreTrueAction", some "False", []⟩ ∧
    findOpt "--no_save" = some ⟨"no_save", ["--no_save"], "StoreTrueAction", some "False", []⟩ ∧
    findOpt "--out" = some ⟨"out", ["--out", "-o"], "StoreAction", none, []⟩ ∧
    findOpt "--no_cpp" = some ⟨"no_cpp", ["--no_cpp"], "StoreTrueAction", some "False", []⟩ ∧
    findOpt "--silent" = some ⟨"silent", ["--silent"], "StoreTrueAction", some "False", []⟩ ∧
    findOpt "--info" = some ⟨"info", ["--info"], "StoreTrueAction", some "False", []⟩ := by
  decide

/-- the defaults of the regenerated table for the options `main()` reads -/
theorem table_defaults :
    (Gen.cliOptions.find? (·.dest == "license")).bind (·.default) = none ∧
    (Gen.cliOptions.find? (·.dest == "input_file")).bind (·.default) = none ∧
    (Gen.cliOptions.find? (·.dest == "mode")).bind (·.default) = some "F" ∧
    (Gen.cliOptions.find? (·.dest == "fin")).bind (·.default) = some "False" ∧
    (Gen.cliOptions.find? (·.dest == "strict")).bind (·.default) = some "False" ∧
    (Gen.cliOptions.find? (·.dest == "no_save")).bind (·.default) = some "False" ∧
    (Gen.cliOptions.find? (·.dest == "no_cpp")).bind (·.default) = some "False" := by
  decide

/-- For all 2⁶ flag settings × {F, L} × {--out given or not} and every input / output path that does
    not start with '-': the options reach the library unchanged and the output file is as documented. -/
theorem plan_flags (f : Flags) (hin : isFlagLike f.input = false)
    (hout : ∀ o, f.out = some o → isFlagLike o = false) (hmode : f.mode = "F" ∨ f.mode = "L") :
    plan f.argv = .ok (expected f) := by
  obtain ⟨input, mode, fin, strict, noSave, out, noCpp, silent, info⟩ := f
  simp only at hin hout hmode
  obtain ⟨h1, h2, h3, h4, h5, h6, h7, h8, h9, h10⟩ := isFlagLike_lit
  obtain ⟨t1, t2, t3, t4, t5, t6, t7, t8⟩ := table_rows
  obtain ⟨d1, d2, d3, d4, d5, d6, d7⟩ := table_defaults
  have hup : upperTo ["F", "L"] "F" = "F" ∧ upperTo ["F", "L"] "L" = "L" := by decide
  rcases hmode with rfl | rfl <;> cases fin <;> cases strict <;> cases noSave <;> cases noCpp <;>
    cases silent <;> cases info <;> cases out <;>
    simp [Flags.argv, plan, expected, parseArgs, optVal, flagSet, bind, Except.bind, pure, Except.pure,
      List.lookup, hin, hout, h1, h2, h3, h4, h5, h6, h7, h8, h9, h10, t1, t2, t3, t4, t5, t6, t7, t8,
      d1, d4, d5, d6, d7, hup]

/-- with saving disabled no file is written -/
theorem no_save_writes_nothing (f : Flags) (hin : isFlagLike f.input = false)
    (hout : ∀ o, f.out = some o → isFlagLike o = false) (hmode : f.mode = "F" ∨ f.mode = "L")
    (hns : f.noSave = true) : ∃ p, plan f.argv = .ok p ∧ p.save = none := by
  refine ⟨expected f, plan_flags f hin hout hmode, ?_⟩
  simp [expected, hns]

/-- the pre-processor switch does not change what is asked of the library or where it is saved -/
theorem no_cpp_only_changes_use_cpp (f : Flags) (hin : isFlagLike f.input = false)
    (hout : ∀ o, f.out = some o → isFlagLike o = false) (hmode : f.mode = "F" ∨ f.mode = "L") :
    ∃ p q, plan f.argv = .ok p ∧ plan ({ f with noCpp := !f.noCpp }).argv = .ok q ∧
      q = { p with useCpp := !p.useCpp } := by
  refine ⟨expected f, expected { f with noCpp := !f.noCpp }, plan_flags f hin hout hmode,
    plan_flags _ hin hout hmode, ?_⟩
  simp [expected]

-- non-vacuity: a concrete flag set satisfies the hypotheses; the theorem applies
example : ∃ p, plan (Flags.argv ⟨"dir/prog.c", "L", true, false, false, none, true, true, false⟩) = .ok p ∧
    p.loopMode = true ∧ p.fin = true ∧ p.useCpp = false ∧ p.save = some (defaultFileOut "dir/prog.c") :=
  ⟨_, plan_flags ⟨"dir/prog.c", "L", true, false, false, none, true, true, false⟩ (by decide)
    (by intro o h; cases h) (Or.inr rfl), by decide, rfl, rfl, rfl⟩

end Mwp.Props.C17
