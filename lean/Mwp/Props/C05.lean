/-
  C05 — Strict mode never silently ignores a statement that changes a variable.
  Proved (Mwp/Lemmas/SyntaxThms*.lean): when the model of the syntax check reports full support,
  every statement of the function is readable by the calculus (`Spec.unmodellable f = []`), under
  two explicit exclusions, each with a kernel-checked witness in Lemmas/SyntaxThms.lean:
    NoIncDecOfConst  -- x = ++5         : not C, but pycparser parses it
    StmtShaped       -- trees the C parser never produces (a TypeDecl as a statement, …)
  (The former exclusion NoNestedUnary is gone: `x = - -y` is now refused by the syntax check, a
  nested unary operand being accepted only under `!`/`sizeof` and only if it is not `++`/`--`;
  see the examples `witNestedUnary`, `exNotOfNeg`, `exNotOfInc` in Lemmas/SyntaxThms.lean.)
  Together with Props/C01 (readable statements are analysed, `skipped` lists only effect-free
  expression statements) this is the property for statements.  Controlling expressions: the
  syntax check now refuses an `if` / `while` / `do-while` / `for` whose condition changes a
  variable, so full support implies that no controlling expression has an effect
  (`full_support_means_effect_free_conditions`, no side hypothesis).  The former negative witness
  `if (x = y + z) { … }` is now a positive example (`coverage … = .ok (1, …)`) in
  Lemmas/SyntaxThms.lean, next to `while (x++ < 10) { … }`.
-/
import Mwp.Lemmas.SyntaxThms
namespace Mwp.Props.C05
open Mwp Mwp.Syntax

theorem full_support_means_readable_partial (f m : Node) (hf : f.isFunc = true)
    (h : coverage f = .ok (0, m)) (hid : NoIncDecOfConst f)
    (hs : StmtShaped f) : Spec.unmodellable f = [] :=
  full_implies_modellable_partial f m hf h hid hs

/-- full support ⇒ no `if` / `while` / `do-while` / `for` / `switch` condition changes a variable -/
theorem full_support_means_effect_free_conditions (f m : Node) (hf : f.isFunc = true)
    (h : coverage f = .ok (0, m)) : Spec.effectfulConds f = [] :=
  full_implies_effect_free_conditions f m hf h

end Mwp.Props.C05
