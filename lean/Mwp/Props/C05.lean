import Mwp.Model.Analysis
import Mwp.Spec.Syntax
namespace Mwp.Props.C05
end Mwp.Props.C05
