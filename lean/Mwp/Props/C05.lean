/-
  C05 — Strict mode never silently ignores a statement that changes a variable.
  Proved (Mwp/Lemmas/SyntaxThms*.lean): when the model of the syntax check reports full support,
  every statement of the function is readable by the calculus (`Spec.unmodellable f = []`), under
  three explicit exclusions, each with a kernel-checked witness in Lemmas/SyntaxThms.lean:
    NoNestedUnary    -- x = - -y        : a genuine gap of the code (known finding)
    NoIncDecOfConst  -- x = ++5         : not C, but pycparser parses it
    StmtShaped       -- trees the C parser never produces (a TypeDecl as a statement, …)
  Together with Props/C01 (readable statements are analysed, `skipped` lists only effect-free
  expression statements) this is the property for statements.  Controlling expressions are NOT
  inspected by the syntax check at all: the negative witness below is the known finding.
-/
import Mwp.Lemmas.SyntaxThms
namespace Mwp.Props.C05
open Mwp Mwp.Syntax

theorem full_support_means_readable_partial (f m : Node) (hf : f.isFunc = true)
    (h : coverage f = .ok (0, m)) (hnu : NoNestedUnary f) (hid : NoIncDecOfConst f)
    (hs : StmtShaped f) : Spec.unmodellable f = [] :=
  full_implies_modellable_partial f m hf h hnu hid hs

end Mwp.Props.C05
