import Mwp.Model.Analysis
namespace Mwp.Props.C15
end Mwp.Props.C15
