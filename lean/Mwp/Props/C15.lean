import Mwp.Model.Analysis
import Mwp.Spec.Calculus
namespace Mwp.Props.C15
end Mwp.Props.C15
