/-
  C15 — The fields of a function result agree (decision logic of `Analysis.func`, whatever
  `cmds` returns), the bound has one entry per variable, and the choice object of a finite
  result accepts exactly the vectors at which the reported relation has no ∞.
  Helper lemmas: Mwp/Lemmas/Misc15.lean; `choices_exact` rests on `Props.C04.generate_exact`.
-/
import Mwp.Lemmas.Misc15
import Mwp.Lemmas.ModeIndep
namespace Mwp.Props.C15
open Mwp Mwp.Analysis Mwp.Misc15

/-- an infinite result has no choice object; relation and ∞-flow text are present exactly when
    the analysis ran to completion (`stop = false`) -/
theorem infinite_fields (n : Node) (stop : Bool) (r : FuncRes) (h : func n stop = .ok r)
    (hi : r.infinite = true) :
    r.choices = none ∧ r.relation.isSome = !stop ∧ r.infFlows.isSome = !stop := by
  obtain ⟨dI, index, first, co, _, _, _, hrel, hch, _, hfl⟩ := func_inv n stop r h
  rw [hi] at hrel hch hfl
  refine ⟨by simpa using hch, ?_, by simpa using hfl⟩
  rw [hrel]
  cases stop <;> simp

/-- a finite result has a relation, no ∞-flow text, and a choice object that is not infinite -/
theorem finite_fields (n : Node) (stop : Bool) (r : FuncRes) (h : func n stop = .ok r)
    (hf : r.infinite = false) :
    r.relation.isSome = true ∧ r.infFlows = none ∧
      ∃ c, r.choices = some c ∧ Choices.infinite c = false := by
  obtain ⟨dI, index, first, co, _, hco, hinf, hrel, hch, _, hfl⟩ := func_inv n stop r h
  rw [hf] at hrel hch hfl
  rw [hf] at hinf
  have hd : dI = false := by
    cases dI
    · rfl
    · simp at hinf
  obtain ⟨c, _, rfl⟩ := hco hd
  subst hd
  refine ⟨by rw [hrel]; rfl, by simpa using hfl, c, by simpa using hch, ?_⟩
  simpa using hinf.symm

/-- the bound computed at a choice has exactly one entry per variable of the relation, in order -/
theorem bound_one_entry_per_variable (rel : Relation) (c : Choice) :
    (boundAt rel c).map (·.1) = rel.vars :=
  bound_names rel c

/-- the choice object of a finite result accepts exactly the vectors at which the reported
    relation has no ∞ -/
theorem choices_exact (n : Node) (stop : Bool) (r : FuncRes) (rel : Relation) (ch : Choices.T)
    (h : func n stop = .ok r) (hf : r.infinite = false)
    (hr : r.relation = some rel) (hc : r.choices = some ch)
    (hwf : ∀ s ∈ rel.infDeltas [], Choices.WFSeq Gen.domain r.index s)
    (v : List Nat) (hv : Choices.VecOK Gen.domain r.index v) :
    Choices.isValid ch v = true ↔ ∀ row ∈ rel.mat, ∀ p ∈ row, p.evalD v ≠ .i := by
  obtain ⟨dI, index, first, co, _, hco, hinf, hrel, hch, hidx, _⟩ := func_inv n stop r h
  rw [hf] at hrel hch hinf
  have hd : dI = false := by
    cases dI
    · rfl
    · simp at hinf
  obtain ⟨c, hev, rfl⟩ := hco hd
  have hfirst : first = rel := by
    rw [hr] at hrel; simpa using hrel.symm
  have hcc : c = ch := by
    rw [hc] at hch; simpa using hch.symm
  subst hfirst hcc hidx
  obtain ⟨c', hgen, hvalid, _⟩ := Props.C04.generate_exact Gen.domain r.index
    (Choices.dedup (first.infDeltas [])) (by decide) (by decide)
    (fun s hs => hwf s ((Choices.mem_dedup _ _).1 hs))
  have : c' = c := by
    have h2 : Choices.generate Gen.domain r.index (Choices.dedup (first.infDeltas [])) = .ok c := hev
    rw [hgen] at h2
    simpa using h2
  subst this
  rw [hvalid v hv]
  exact avoids_infDeltas first v

/-! ## non-vacuity -/

private def fn (body : List Node) : Node :=
  .funcDef (.decl (some "f") (.funcDecl none) none) (.compound (some body))
/-- `while (x) x = y + y;`  — finite, derivable only with the third alternative -/
private def fFin : Node := fn [.decl (some "x") .typeDecl none, .decl (some "y") .typeDecl none,
  .while_ (.id "x") (.assign "=" (.id "x") (.binop "+" (.id "y") (.id "y")))]
/-- `while (x) x = x * x;`  — infinite -/
private def fInf : Node := fn [.decl (some "x") .typeDecl none,
  .while_ (.id "x") (.assign "=" (.id "x") (.binop "*" (.id "x") (.id "x")))]

-- `infinite_fields` applies, in both modes
example : (func fInf true).toOption.map (fun r => (r.infinite, r.relation.isSome, r.infFlows.isSome))
    = some (true, false, false) := by decide
example : (func fInf false).toOption.map (fun r => (r.infinite, r.relation.isSome, r.infFlows))
    = some (true, true, some "x ➔ x") := by decide
-- `finite_fields` / `choices_exact` apply: a finite result whose relation does contain ∞
example : (func fFin true).toOption.map (fun r => (r.infinite, r.index)) = some (false, 1) := by decide
example : (func fFin true).toOption.map (fun r => r.choices.map (fun c => c.valid))
    = some (some [[[2]]]) := by decide
example : (func fFin true).toOption.map (fun r => r.relation.map (fun rel => rel.infDeltas []))
    = some (some [[(0,0)], [(1,0)], [(0,0)], [(1,0)]]) := by decide
example : (func fFin true).toOption.map (fun r => r.relation.map
    (fun rel => rel.mat.map (fun row => row.map (fun p => p.evalD [0]))))
    = some (some [[.i, .o], [.i, .m]]) := by decide
example : (func fFin true).toOption.map (fun r => r.relation.map
    (fun rel => rel.mat.map (fun row => row.map (fun p => p.evalD [2]))))
    = some (some [[.m, .o], [.w, .m]]) := by decide
example : ∀ s ∈ ([[(0,0)], [(1,0)], [(0,0)], [(1,0)]] : List (List Delta)), Choices.WFSeq Gen.domain 1 s := by
  intro s hs
  simp only [List.mem_cons, List.mem_nil_iff, or_false] at hs
  rcases hs with rfl | rfl | rfl | rfl <;> exact ⟨by decide, by decide⟩
example : Choices.VecOK Gen.domain 1 [2] := ⟨rfl, by decide⟩
-- the bound at the accepted choice names both variables
example : (func fFin true).toOption.map (fun r => r.relation.map (fun rel => (boundAt rel [2]).map (·.1)))
    = some (some ["x", "y"]) := by decide

/-! ## the two modes -/

/-- The early-exit mode only cuts the computation short: whenever the analysis of a function in
    early-exit mode (`stop = true`) returns a FINITE result, the analysis run to completion
    (`stop = false`) returns the same result -- same verdict, relation, choice object, index,
    variables, skipped statements and name.  No side condition on the function: as long as no
    statement sets the exit flag, what `compute_relation` returns depends neither on the mode nor
    on the delta graph (`Mwp.compute_indep_of_no_exit`), and run to completion it never sets the
    flag (`Mwp.compute_complete_no_exit`).  Proof: Mwp/Lemmas/ModeIndep.lean.  (The converse --
    a finite run to completion is also what the early-exit mode returns -- needs the soundness
    of the delta-graph collapse: `Mwp.finite_result_same_in_both_modes_conv`, under `FuncOk`.) -/
theorem finite_result_same_in_both_modes (node : Node) (r1 r2 : FuncRes)
    (h1 : func node true = .ok r1) (h2 : func node false = .ok r2) (hf : r1.infinite = false) :
    r2.infinite = false ∧ r1.relation = r2.relation ∧ r1.choices = r2.choices ∧ r1.index = r2.index ∧
    r1.variables = r2.variables ∧ r1.skipped = r2.skipped ∧ r1.name = r2.name :=
  Mwp.finite_result_same_in_both_modes node r1 r2 h1 h2 hf

-- `while (x < 10) { x = y + y; }`: finite in early-exit mode, and the same report in both modes
example : (func fFin true).toOption.map (fun r => (r.infinite, r.index, r.variables))
    = (func fFin false).toOption.map (fun r => (r.infinite, r.index, r.variables)) := by decide
example : (func fFin true).toOption.map (fun r => (r.skipped, r.name))
    = (func fFin false).toOption.map (fun r => (r.skipped, r.name)) := by decide
example : (func fFin true).toOption.map (fun r => r.relation.map (fun rel => (rel.vars, rel.mat)))
    = (func fFin false).toOption.map (fun r => r.relation.map (fun rel => (rel.vars, rel.mat))) := by decide
example : (func fFin true).toOption.map (fun r => r.choices.map (fun c => (c.valid, c.index)))
    = (func fFin false).toOption.map (fun r => r.choices.map (fun c => (c.valid, c.index))) := by decide
example : (func fFin false).toOption.map (fun r => (r.infinite, r.index, r.variables)) =
    some (false, 1, ["x", "y"]) := by decide

end Mwp.Props.C15
