/-
  C11 — DeltaGraph: a collapse report is sound, and the operations never raise.
-/
import Mwp.Lemmas.DeltaGraph
namespace Mwp.Props.C11
open Mwp Mwp.DG

/-- well-formed delta tuple: strictly increasing indices, values in the choice domain {0,1,2} -/
def WFTuple (t : Node) : Prop := Mono.sortedDeltas t = true ∧ ∀ d ∈ t, d.1 < 3
/-- a (total) choice assignment matches a tuple -/
def matchesV (t : Node) (v : Nat → Nat) : Prop := ∀ d ∈ t, v d.2 = d.1

/-- After ANY history of insertions and fusion passes, the graph reports collapse only if every
    choice vector over {0,1,2} matches at least one inserted tuple. -/
theorem collapse_sound (ops : List Op) (g : Graph)
    (hwf : ∀ t ∈ inserted ops, WFTuple t) (hrun : run ops = .ok g) (hemp : isEmpty g = true) :
    ∀ v : Nat → Nat, (∀ j, v j < 3) → ∃ t ∈ inserted ops, matchesV t v :=
  collapse_sound_aux ops g hwf hrun hemp

def ex1 : List Op := [.insert [(0,0)], .insert [(1,0)], .insert [(2,0)], .fuse]
example : (∀ t ∈ inserted ex1, WFTuple t) := by
  intro t ht
  simp only [ex1, inserted, List.mem_cons, List.not_mem_nil, or_false] at ht
  rcases ht with rfl | rfl | rfl <;> exact ⟨rfl, by decide⟩
example : ∃ g, run ex1 = .ok g ∧ isEmpty g = true := ⟨_, rfl, rfl⟩
#eval run ex1
#print axioms collapse_sound
end Mwp.Props.C11
