/-
  C11 — DeltaGraph: a reported collapse is sound, and insertion / fusion never raise.
  Model: Mwp/Model/DeltaGraph.lean.  Proofs: Mwp/Lemmas/DeltaGraph{A,B,C,D}.lean.
-/
import Mwp.Lemmas.DeltaGraph
namespace Mwp.Props.C11
open Mwp Mwp.DG

/-- well-formed delta tuple: strictly increasing indices, values in the choice domain {0,1,2} -/
def WFTuple (t : Node) : Prop := Mono.sortedDeltas t = true ∧ ∀ d ∈ t, d.1 < 3
/-- a (total) choice assignment matches a tuple -/
def matchesV (t : Node) (v : Nat → Nat) : Prop := ∀ d ∈ t, v d.2 = d.1

/-- After ANY history of insertions and fusion passes, the graph reports collapse only if every
    choice vector over {0,1,2} matches at least one inserted tuple. -/
theorem collapse_sound (ops : List Op) (g : Graph)
    (hwf : ∀ t ∈ inserted ops, WFTuple t) (hrun : run ops = .ok g) (hemp : isEmpty g = true) :
    ∀ v : Nat → Nat, (∀ j, v j < 3) → ∃ t ∈ inserted ops, matchesV t v :=
  collapse_sound_aux ops g hwf hrun hemp

/-- Non-vacuity: a history over two indices, with an intermediate fusion pass, that satisfies
    all three hypotheses (well-formed, runs, collapses); the conclusion is then obtained from
    the theorem. -/
example :
    let ops : List Op :=
      [.insert [(0,0),(0,1)], .insert [(1,0),(0,1)], .insert [(2,0),(0,1)], .fuse,
       .insert [(1,1)], .insert [(2,1)], .fuse]
    (∀ t ∈ inserted ops, WFTuple t) ∧ (∃ g, run ops = .ok g ∧ isEmpty g = true) ∧
      ∀ v : Nat → Nat, (∀ j, v j < 3) → ∃ t ∈ inserted ops, matchesV t v := by
  intro ops
  have hwf : ∀ t ∈ inserted ops, WFTuple t := by unfold WFTuple; decide
  exact ⟨hwf, ⟨_, rfl, rfl⟩, collapse_sound ops _ hwf rfl rfl⟩

/-- The conclusion is not trivially true: with one alternative missing at each index the run
    succeeds, `isEmpty` answers `false`, and the vector `(2, 0, 0, …)` matches no inserted tuple. -/
example :
    let ops : List Op :=
      [.insert [(0,0),(0,1)], .insert [(1,0),(0,1)], .fuse, .insert [(1,1)], .insert [(2,1)], .fuse]
    (∃ g, run ops = .ok g ∧ isEmpty g = false) ∧
      ¬ ∃ t ∈ inserted ops, matchesV t (fun j => if j = 0 then 2 else 0) := by
  intro ops
  refine ⟨⟨_, rfl, rfl⟩, ?_⟩
  unfold matchesV; decide

/-- Insertions and fusion passes never raise, whatever was inserted or fused before.
    (The proof does not use `hwf`: `Mwp.DG.run_total` shows it for arbitrary tuples.) -/
theorem run_never_raises (ops : List Op) (hwf : ∀ t ∈ inserted ops, WFTuple t) :
    ∃ g, run ops = .ok g :=
  have _ := hwf
  let ⟨g, hg, _⟩ := run_total ops
  ⟨g, hg⟩

/-- Non-vacuity: the history that made the original `fusion` raise `IndexError` (a second
    fusion pass once the empty node `()` is present) is well-formed and runs to the collapsed
    graph; the theorem applies to it. -/
example :
    let ops : List Op := [.insert [(0,0)], .insert [(1,0)], .insert [(2,0)], .fuse, .fuse]
    (∀ t ∈ inserted ops, WFTuple t) ∧ run ops = .ok [(1, []), (0, [([], [])])] ∧
      ∃ g, run ops = .ok g := by
  intro ops
  have hwf : ∀ t ∈ inserted ops, WFTuple t := by unfold WFTuple; decide
  exact ⟨hwf, rfl, run_never_raises ops hwf⟩

end Mwp.Props.C11
