/-
  C12 — Spec-level invariances: the calculus does not see spelling.  `+` and `-` have the same
  rule, `do … while` is `while`, the empty statement is `skip`; a `skip` inside a sequence and a
  singleton sequence change nothing; an injective renaming of the variables leaves every derived
  matrix unchanged.  Helper lemmas: Mwp/Lemmas/Misc12.lean (`Good`: every matrix `sem` returns is
  `|U| × |U|` and free of ∞, so the identity matrix is a unit for it; `Cmd.rename`).
-/
import Mwp.Lemmas.Misc12
namespace Mwp.Props.C12
open Mwp Mwp.Spec Mwp.Misc12

theorem plus_minus_same (a b : Atom) (alt : Nat) (v : Var) :
    operandFlow "+" a b alt v = operandFlow "-" a b alt v := by
  cases a <;> cases b <;> rfl

theorem do_while_is_while (c b : Node) : desugar (.doWhile c b) = desugar (.while_ c b) := by
  rw [desugar, desugar]

theorem empty_statement_is_skip : desugar .empty = some .skip := by
  rw [desugar]

/-- every matrix the calculus derives is `|U| × |U|` and contains no ∞ -/
theorem sem_square_no_infty (U : List Var) (cmd : Cmd) (idx : Nat) (c : Choice) (i : Nat) (M : SMat)
    (h : sem U cmd idx c = some (i, M)) :
    M.length = U.length ∧ ∀ row ∈ M, row.length = U.length ∧ ∀ s ∈ row, s ≠ Scalar.i :=
  sem_good U cmd idx c i M h

/-- redundant braces / empty statements: a skip inside a sequence changes nothing -/
theorem sem_seq_skip (U : List Var) (l1 l2 : List Cmd) (idx : Nat) (c : Choice) :
    sem U (.seq (l1 ++ .skip :: l2)) idx c = sem U (.seq (l1 ++ l2)) idx c := by
  rw [sem, sem]
  exact semSeq_skip_mid U l1 l2 idx c

/-- a singleton sequence is its element -/
theorem sem_seq_singleton (U : List Var) (cmd : Cmd) (idx : Nat) (c : Choice) :
    sem U (.seq [cmd]) idx c = sem U cmd idx c := by
  rw [sem]
  exact semSeq_singleton U cmd idx c

/-- injective renaming of variables: same matrices (the dense matrix is indexed by position in
    `U`).  No further hypothesis: `U` may have duplicates and need not contain the command's
    variables. -/
theorem sem_rename (ρ : String → String) (hρ : Function.Injective ρ) (U : List Var) (cmd : Cmd)
    (idx : Nat) (c : Choice) :
    sem (U.map ρ) (cmd.rename ρ) idx c = sem U cmd idx c :=
  sem_rename_aux ρ hρ U cmd idx c

/-! ## non-vacuity -/

-- the shared rule of `+`/`-` is not constant
example : operandFlow "+" (.var "y") (.var "z") 0 "z" = .p ∧ operandFlow "-" (.var "y") (.var "z") 1 "z" = .m := by
  decide
example : desugar (.doWhile (.id "c") (.assign "=" (.id "x") (.id "y"))) = some (.while_ (.asgnVar "x" "y")) := by
  simp [desugar, Node.rmCast]
-- a derivation that succeeds, with a skip in the middle / as a singleton
example : sem ["x", "y"] (.seq ([.bin "+" "x" (.var "x") (.var "y")] ++ .skip :: [.asgnVar "y" "x"])) 0 [1]
    = some (1, [[.p, .p], [.m, .m]]) := by decide
example : sem ["x", "y"] (.seq [.while_ (.asgnVar "x" "y")]) 0 [] = some (0, [[.m, .o], [.m, .m]]) := by
  decide
-- an injective renaming (swap `x` and `y`), on a command whose matrix is not symmetric
private def swapXY (s : String) : String := if s = "x" then "y" else if s = "y" then "x" else s
example : Function.Injective swapXY := by
  have inv : ∀ s, swapXY (swapXY s) = s := by
    intro s
    unfold swapXY
    by_cases h1 : s = "x"
    · subst h1; decide
    · by_cases h2 : s = "y"
      · subst h2; decide
      · simp [h1, h2]
  intro a b h
  rw [← inv a, ← inv b, h]
example : sem (["x", "y"].map swapXY) ((Cmd.bin "+" "x" (.var "x") (.var "y")).rename swapXY) 0 [0]
    = some (1, [[.m, .o], [.p, .m]]) := by decide

end Mwp.Props.C12
