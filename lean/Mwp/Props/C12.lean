/-
  C12 — Spec-level invariances: the calculus does not see spelling.  `+` and `-` have the same
  rule, `do … while` is `while`, the empty statement is `skip`; a `skip` inside a sequence and a
  singleton sequence change nothing; an injective renaming of the variables leaves every derived
  matrix unchanged.  Helper lemmas: Mwp/Lemmas/Misc12.lean (`Good`: every matrix `sem` returns is
  `|U| × |U|` and free of ∞, so the identity matrix is a unit for it; `Cmd.rename`).
-/
import Mwp.Lemmas.Misc12
import Mwp.Lemmas.Invariance
namespace Mwp.Props.C12
open Mwp Mwp.Spec Mwp.Misc12

theorem plus_minus_same (a b : Atom) (alt : Nat) (v : Var) :
    operandFlow "+" a b alt v = operandFlow "-" a b alt v := by
  cases a <;> cases b <;> rfl

theorem do_while_is_while (c b : Node) : desugar (.doWhile c b) = desugar (.while_ c b) := by
  rw [desugar, desugar]

theorem empty_statement_is_skip : desugar .empty = some .skip := by
  rw [desugar]

/-- every matrix the calculus derives is `|U| × |U|` and contains no ∞ -/
theorem sem_square_no_infty (U : List Var) (cmd : Cmd) (idx : Nat) (c : Choice) (i : Nat) (M : SMat)
    (h : sem U cmd idx c = some (i, M)) :
    M.length = U.length ∧ ∀ row ∈ M, row.length = U.length ∧ ∀ s ∈ row, s ≠ Scalar.i :=
  sem_good U cmd idx c i M h

/-- redundant braces / empty statements: a skip inside a sequence changes nothing -/
theorem sem_seq_skip (U : List Var) (l1 l2 : List Cmd) (idx : Nat) (c : Choice) :
    sem U (.seq (l1 ++ .skip :: l2)) idx c = sem U (.seq (l1 ++ l2)) idx c := by
  rw [sem, sem]
  exact semSeq_skip_mid U l1 l2 idx c

/-- a singleton sequence is its element -/
theorem sem_seq_singleton (U : List Var) (cmd : Cmd) (idx : Nat) (c : Choice) :
    sem U (.seq [cmd]) idx c = sem U cmd idx c := by
  rw [sem]
  exact semSeq_singleton U cmd idx c

/-- injective renaming of variables: same matrices (the dense matrix is indexed by position in
    `U`).  No further hypothesis: `U` may have duplicates and need not contain the command's
    variables. -/
theorem sem_rename (ρ : String → String) (hρ : Function.Injective ρ) (U : List Var) (cmd : Cmd)
    (idx : Nat) (c : Choice) :
    sem (U.map ρ) (cmd.rename ρ) idx c = sem U cmd idx c :=
  sem_rename_aux ρ hρ U cmd idx c

/-! ## non-vacuity -/

-- the shared rule of `+`/`-` is not constant
example : operandFlow "+" (.var "y") (.var "z") 0 "z" = .p ∧ operandFlow "-" (.var "y") (.var "z") 1 "z" = .m := by
  decide
example : desugar (.doWhile (.id "c") (.assign "=" (.id "x") (.id "y"))) = some (.while_ (.asgnVar "x" "y")) := by
  simp [desugar, Node.rmCast, changesVariable]
-- a derivation that succeeds, with a skip in the middle / as a singleton
example : sem ["x", "y"] (.seq ([.bin "+" "x" (.var "x") (.var "y")] ++ .skip :: [.asgnVar "y" "x"])) 0 [1]
    = some (1, [[.p, .p], [.m, .m]]) := by decide
example : sem ["x", "y"] (.seq [.while_ (.asgnVar "x" "y")]) 0 [] = some (0, [[.m, .o], [.m, .m]]) := by
  decide
-- an injective renaming (swap `x` and `y`), on a command whose matrix is not symmetric
private def swapXY (s : String) : String := if s = "x" then "y" else if s = "y" then "x" else s
example : Function.Injective swapXY := by
  have inv : ∀ s, swapXY (swapXY s) = s := by
    intro s
    unfold swapXY
    by_cases h1 : s = "x"
    · subst h1; decide
    · by_cases h2 : s = "y"
      · subst h2; decide
      · simp [h1, h2]
  intro a b h
  rw [← inv a, ← inv b, h]
example : sem (["x", "y"].map swapXY) ((Cmd.bin "+" "x" (.var "x") (.var "y")).rename swapXY) 0 [0]
    = some (1, [[.m, .o], [.p, .m]]) := by decide

/-! ## the invariances lifted to the MODEL of the analysis (`Analysis.func`)
    (Mwp/Lemmas/Invariance.lean; side condition `Refine.FuncOk`, see Props/C02) -/

/-- The verdict of the analysis depends only on the calculus reading of the function: two
    supported functions that `desugarFunc` reads as the same command — whatever their layout
    (do-while vs while, casts, labels, parameter lists, …) — are both analysed successfully and get
    the same verdict, in any two modes. -/
theorem verdict_depends_only_on_reading (n1 n2 : Node) (hok1 : Refine.FuncOk n1 = true)
    (hok2 : Refine.FuncOk n2 = true) (cmd : Cmd) (hd1 : desugarFunc n1 = some cmd)
    (hd2 : desugarFunc n2 = some cmd) (s1 s2 : Bool) :
    (∀ r1 r2, Analysis.func n1 s1 = .ok r1 → Analysis.func n2 s2 = .ok r2 →
      r1.infinite = r2.infinite) ∧
    ∃ r1 r2, Analysis.func n1 s1 = .ok r1 ∧ Analysis.func n2 s2 = .ok r2 ∧
      r1.infinite = r2.infinite :=
  ⟨fun r1 r2 h1 h2 => Mwp.verdict_depends_only_on_reading n1 n2 hok1 hok2 cmd hd1 hd2 s1 s2 r1 r2 h1 h2,
    Mwp.verdict_depends_only_on_reading_total n1 n2 hok1 hok2 cmd hd1 hd2 s1 s2⟩

/-- The verdict is invariant under injective renaming of the variables.  `hvars`: the renamed
    function has no variable beyond the images of the variables of the original. -/
theorem verdict_invariant_under_renaming (ρ : String → String) (hρ : Function.Injective ρ)
    (n1 n2 : Node) (hok1 : Refine.FuncOk n1 = true) (hok2 : Refine.FuncOk n2 = true) (cmd : Cmd)
    (hd1 : desugarFunc n1 = some cmd) (hd2 : desugarFunc n2 = some (cmd.rename ρ))
    (vs1 vs2 : List String) (hvs1 : Syntax.variables n1 = .ok vs1)
    (hvs2 : Syntax.variables n2 = .ok vs2) (hvars : ∀ v ∈ vs2, ∃ u ∈ vs1, ρ u = v) (s1 s2 : Bool) :
    (∀ r1 r2, Analysis.func n1 s1 = .ok r1 → Analysis.func n2 s2 = .ok r2 →
      r1.infinite = r2.infinite) ∧
    ∃ r1 r2, Analysis.func n1 s1 = .ok r1 ∧ Analysis.func n2 s2 = .ok r2 ∧
      r1.infinite = r2.infinite :=
  ⟨fun r1 r2 h1 h2 => Mwp.verdict_invariant_under_renaming ρ hρ n1 n2 hok1 hok2 cmd hd1 hd2 vs1 vs2
      hvs1 hvs2 hvars s1 s2 r1 r2 h1 h2,
    Mwp.verdict_invariant_under_renaming_total ρ hρ n1 n2 hok1 hok2 cmd hd1 hd2 vs1 vs2
      hvs1 hvs2 hvars s1 s2⟩

/-- Two supported functions with the same reading and the same reported variable list, both
    reported finite, report the same set of matrices. -/
theorem derivable_matrices_depend_only_on_reading (n1 n2 : Node) (hok1 : Refine.FuncOk n1 = true)
    (hok2 : Refine.FuncOk n2 = true) (cmd : Cmd) (hd1 : desugarFunc n1 = some cmd)
    (hd2 : desugarFunc n2 = some cmd) (s1 s2 : Bool) (r1 r2 : Analysis.FuncRes)
    (h1 : Analysis.func n1 s1 = .ok r1) (h2 : Analysis.func n2 s2 = .ok r2)
    (hf1 : r1.infinite = false) (hf2 : r2.infinite = false) (hU : r1.variables = r2.variables)
    (rel1 rel2 : Relation) (hr1 : r1.relation = some rel1) (hr2 : r2.relation = some rel2)
    (ch1 ch2 : Choices.T) (hc1 : r1.choices = some ch1) (hc2 : r2.choices = some ch2) (M : SMat) :
    (∃ c : Choice, c.length = cmd.arity ∧ (∀ v ∈ c, v < 3) ∧ Choices.isValid ch1 c = true ∧
        rel1.applyChoice c = M) ↔
    (∃ c : Choice, c.length = cmd.arity ∧ (∀ v ∈ c, v < 3) ∧ Choices.isValid ch2 c = true ∧
        rel2.applyChoice c = M) :=
  Mwp.derivable_matrices_depend_only_on_reading n1 n2 hok1 hok2 cmd hd1 hd2 s1 s2 r1 r2 h1 h2
    hf1 hf2 hU rel1 rel2 hr1 hr2 ch1 ch2 hc1 hc2 M

/-! non-vacuity: `int f(int x,int y){ while (x<10) { x = y + y; } }`  and
    `int f(int x,int y,int unused){ do { L: x = (int)((int)y + y); } while (x<10); }` have the same
    reading (and different variable lists); `int f(int y,int x){ while (y<10) { y = x + x; } }` is
    the first one renamed by the swap of `x` and `y` -/

private def fnP (params : List String) (body : List Node) : Node :=
  .funcDef (.decl (some "f") (.funcDecl (some (.paramList
    (params.map fun p => .decl (some p) .typeDecl none)))) none) (.compound (some body))
private def progA : Node := fnP ["x", "y"] [.while_ (.binop "<" (.id "x") (.const "int" "10"))
  (.compound (some [.assign "=" (.id "x") (.binop "+" (.id "y") (.id "y"))]))]
private def progB : Node := fnP ["x", "y", "unused"] [.doWhile (.binop "<" (.id "x") (.const "int" "10"))
  (.compound (some [.label "L"
    (.assign "=" (.id "x") (.cast (.binop "+" (.cast (.id "y")) (.id "y"))))]))]
private def progC : Node := fnP ["y", "x"] [.while_ (.binop "<" (.id "y") (.const "int" "10"))
  (.compound (some [.assign "=" (.id "y") (.binop "+" (.id "x") (.id "x"))]))]
private def readingA : Cmd := .seq [.while_ (.seq [.bin "+" "x" (.var "y") (.var "y")])]

private theorem swapXY_injective : Function.Injective swapXY := by
  have inv : ∀ s, swapXY (swapXY s) = s := by
    intro s
    unfold swapXY
    by_cases h1 : s = "x"
    · subst h1; decide
    · by_cases h2 : s = "y"
      · subst h2; decide
      · simp [h1, h2]
  intro a b h
  rw [← inv a, ← inv b, h]

example : Refine.FuncOk progA = true ∧ Refine.FuncOk progB = true ∧ Refine.FuncOk progC = true := by
  decide
example : desugarFunc progA = some readingA ∧ desugarFunc progB = some readingA := ⟨by rfl, by rfl⟩
example : desugarFunc progC = some (readingA.rename swapXY) := by rfl
example : Syntax.variables progA = .ok ["x", "y"] ∧ Syntax.variables progB = .ok ["unused", "x", "y"] ∧
    Syntax.variables progC = .ok ["x", "y"] := by decide
-- (1) instantiated: the while loop analysed with early stop, the do-while run to completion
example : ∃ r1 r2, Analysis.func progA true = .ok r1 ∧ Analysis.func progB false = .ok r2 ∧
    r1.infinite = r2.infinite :=
  (verdict_depends_only_on_reading progA progB (by decide) (by decide) readingA (by rfl) (by rfl)
    true false).2
-- (2) instantiated
example : ∃ r1 r2, Analysis.func progA true = .ok r1 ∧ Analysis.func progC true = .ok r2 ∧
    r1.infinite = r2.infinite :=
  (verdict_invariant_under_renaming swapXY swapXY_injective progA progC (by decide) (by decide)
    readingA (by rfl) (by rfl) ["x", "y"] ["x", "y"] (by decide) (by decide) (by decide) true true).2
-- the common verdict is "finite", with different reported variable lists
example : (Analysis.func progA true).toOption.map (fun r => (r.infinite, r.variables)) = some (false, ["x", "y"]) ∧
    (Analysis.func progB false).toOption.map (fun r => (r.infinite, r.variables))
      = some (false, ["unused", "x", "y"]) := by decide

end Mwp.Props.C12
