import Mwp.Spec.Calculus
namespace Mwp.Props.C12
end Mwp.Props.C12
