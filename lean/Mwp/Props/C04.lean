import Mwp.Model.Choices
namespace Mwp.Props.C04
end Mwp.Props.C04
