/-
  C04 — The choice representation is the exact complement of the failing choices.
  Property theorems only; the work is in Mwp/Lemmas/ChoicesSimplify*.lean (each
  simplification rewrite preserves the avoiding set) and Mwp/Lemmas/ChoicesBuild*.lean
  (the boxes cover exactly the avoiding set; observers).
-/
import Mwp.Lemmas.ChoicesSimplify
import Mwp.Lemmas.ChoicesBuild
namespace Mwp.Props.C04
open Mwp Mwp.Choices

/-- a vector in a box of the right shape is a vector of the right shape -/
theorem vecOK_of_inBox (domain : List Nat) (n : Nat) (w : Vect) (v : List Nat)
    (hw : w.length = n ∧ ∀ e ∈ w, e ≠ [] ∧ ∀ x ∈ e, x ∈ domain) (hb : InBox w v) :
    VecOK domain n v := by
  refine ⟨hb.1.trans hw.1, ?_⟩
  intro x hx
  obtain ⟨i, hi, rfl⟩ := List.getElem_of_mem hx
  have hi' : i < w.length := hb.1 ▸ hi
  exact (hw.2 _ (List.getElem_mem hi')).2 _ (hb.2 i hi hi')

/-- For every domain, vector length and set of well-formed delta sequences to avoid, `generate`
    succeeds and the object it returns accepts a vector — by membership test, by enumeration and
    as its first choice — iff the vector matches none of the sequences; it is infinite exactly
    when no such vector exists. -/
theorem generate_exact (domain : List Nat) (n : Nat) (inf : List Seq)
    (hd : domain.Nodup) (hne : domain ≠ [])
    (hwf : ∀ s ∈ inf, WFSeq domain n s) :
    ∃ c, generate domain n inf = .ok c ∧
      (∀ v, VecOK domain n v → (isValid c v = true ↔ Avoids inf v)) ∧
      (∀ v, v ∈ all c ↔ (VecOK domain n v ∧ Avoids inf v)) ∧
      (infinite c = true ↔ ¬ ∃ v, VecOK domain n v ∧ Avoids inf v) ∧
      (infinite c = false → ∃ f, first c = .ok (some f) ∧ VecOK domain n f ∧ Avoids inf f) := by
  obtain ⟨s', hs, hswf, hseq⟩ := simplify_ok domain n inf hd hne hwf
  obtain ⟨vs, hb, hshape, hcover⟩ := buildChoices_ok domain n s' hd hne hswf
  have hgen : generate domain n inf = .ok (mk vs n) := by
    unfold generate
    rw [hs]
    show (do let v ← buildChoices domain n s'; pure (mk v (n : Int))) = _
    rw [hb]
    rfl
  have hmk : mk vs (n : Int) = ⟨vs, n⟩ := by
    unfold mk
    have : ¬ ((n : Int) < 0) := by omega
    simp [this]
  refine ⟨mk vs n, hgen, ?_, ?_, ?_, ?_⟩
  · intro v hv
    rw [hmk, isValid_iff ⟨vs, n⟩ n v hv.1 (fun w hw => (hshape w hw).1)]
    exact (hcover v hv).trans (hseq v hv)
  · intro v
    rw [hmk, mem_all_iff]
    constructor
    · rintro ⟨w, hw, hbx⟩
      have hv := vecOK_of_inBox domain n w v (hshape w hw) hbx
      exact ⟨hv, (hseq v hv).1 ((hcover v hv).1 ⟨w, hw, hbx⟩)⟩
    · rintro ⟨hv, ha⟩
      exact (hcover v hv).2 ((hseq v hv).2 ha)
  · rw [hmk, infinite_iff ⟨vs, n⟩ n rfl]
    constructor
    · intro he
      rintro ⟨v, hv, ha⟩
      obtain ⟨w, hw, _⟩ := (hcover v hv).2 ((hseq v hv).2 ha)
      simp only at he
      rw [he] at hw
      cases hw
    · intro hno
      show vs = []
      cases hvs : vs with
      | nil => rfl
      | cons w ws =>
        exfalso
        have hinf : infinite (⟨vs, n⟩ : T) = false := by
          simp [infinite, hvs]
        obtain ⟨f, _, w', hw', hbx⟩ := first_ok ⟨vs, n⟩ n
          (fun w hw => ⟨(hshape w hw).1, fun e he => ((hshape w hw).2 e he).1⟩) hinf rfl
        have hv := vecOK_of_inBox domain n w' f (hshape w' hw') hbx
        exact hno ⟨f, hv, (hseq f hv).1 ((hcover f hv).1 ⟨w', hw', hbx⟩)⟩
  · intro hinf
    rw [hmk] at hinf ⊢
    obtain ⟨f, hf, w', hw', hbx⟩ := first_ok ⟨vs, n⟩ n
      (fun w hw => ⟨(hshape w hw).1, fun e he => ((hshape w hw).2 e he).1⟩) hinf rfl
    have hv := vecOK_of_inBox domain n w' f (hshape w' hw') hbx
    exact ⟨f, hf, hv, (hseq f hv).1 ((hcover f hv).1 ⟨w', hw', hbx⟩)⟩

/-- Intersecting two choice objects accepts exactly the vectors both accept. -/
theorem intersection_exact (c1 c2 : T) (n : Nat) (v : List Nat) (hv : v.length = n)
    (h1 : ∀ w ∈ c1.valid, w.length = n) (h2 : ∀ w ∈ c2.valid, w.length = n) :
    isValid (intersection c1 c2) v = (isValid c1 v && isValid c2 v) :=
  Mwp.Choices.intersection_exact' c1 c2 n v hv h1 h2

-- non-vacuity: a non-trivial instance satisfies the hypotheses and has avoiding vectors
example : ∀ s ∈ ([[(0,0)], [(1,0)], [(1,1),(0,2)]] : List Seq), WFSeq [0,1,2] 3 s := by
  intro s hs
  simp only [List.mem_cons, List.mem_nil_iff, or_false] at hs
  rcases hs with rfl | rfl | rfl <;> exact ⟨by decide, by decide⟩
example : (generate [0,1,2] 3 [[(0,0)], [(1,0)], [(1,1),(0,2)]]).toOption.map (fun c => isValid c [2,0,0])
    = some true := by decide
example : (generate [0,1,2] 3 [[(0,0)], [(1,0)], [(1,1),(0,2)]]).toOption.map (fun c => isValid c [2,1,0])
    = some false := by decide

end Mwp.Props.C04
