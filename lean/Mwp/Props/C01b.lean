/-
  C01 (model, whole functions) — for a function reported not infinite, the reported choice object
  accepts exactly the choice vectors at which the calculus derives a matrix, and applying such a
  vector to the reported relation gives exactly that matrix: the matrices obtained from the valid
  choices are the derivable matrices, nothing missing and nothing extra.
  Property theorems only; the work is in Mwp/Lemmas/FuncRefine*.lean (`func_sem`).
  Side conditions: `Refine.FuncOk node`, see Mwp/Props/C02.lean.  `relabel cmd` translates pymwp's
  numbering of the alternatives into the calculus' numbering; it is an involution on the vectors
  over {0,1,2} of length `cmd.arity` (`relabel_involutive`, `relabel_preserves`).
-/
import Mwp.Lemmas.FuncRefine
namespace Mwp.Props.C01b
open Mwp Mwp.Analysis Mwp.Spec Mwp.Refine

/-- `relabel cmd` is an involution ... -/
theorem relabel_involutive (cmd : Cmd) (c : Choice) : relabel cmd (relabel cmd c) = c :=
  relabel_invol cmd c

/-- ... that maps vectors over {0,1,2} of length `cmd.arity` to such vectors -/
theorem relabel_preserves (cmd : Cmd) (c : Choice) (hl : c.length = cmd.arity) (h3 : ∀ v ∈ c, v < 3) :
    (relabel cmd c).length = cmd.arity ∧ ∀ v ∈ relabel cmd c, v < 3 :=
  relabel_vec cmd hl h3

/-- `apply_choice` reads a cell without a term at the choice as `o`: it is the relation's dense
    scalar matrix -/
theorem applyChoice_is_toSMat (rel : Relation) (c : Choice) : rel.applyChoice c = rel.toSMat c :=
  applyChoice_eq_toSMat rel c

/-- **C01 (model).**  For a function reported not infinite, the reported choice object accepts
    exactly the choice vectors at which the calculus derives a matrix, and applying such a vector to
    the reported relation gives exactly that matrix (over the reported variable list). -/
theorem valid_choices_are_derivations (node : Node) (stop : Bool) (r : FuncRes)
    (hok : FuncOk node = true) (h : func node stop = .ok r)
    (cmd : Cmd) (hd : desugarFunc node = some cmd) (hf : r.infinite = false)
    (rel : Relation) (hr : r.relation = some rel) (ch : Choices.T) (hc : r.choices = some ch)
    (c : Choice) (hlen : c.length = cmd.arity) (hc3 : ∀ v ∈ c, v < 3) :
    (Choices.isValid ch c = true ↔ ∃ k M, sem r.variables cmd 0 (relabel cmd c) = some (k, M)) ∧
    (∀ k M, sem r.variables cmd 0 (relabel cmd c) = some (k, M) →
      rel.vars = r.variables ∧ rel.applyChoice c = M) := by
  obtain ⟨_, _, _, _, hsub, hnd, _, hfin⟩ := func_sem node stop r hok h cmd hd
  obtain ⟨rel', ch', hr', hc', w, hv, _, hval, _, hA⟩ := hfin hf
  have e1 : rel' = rel := by rw [hr] at hr'; exact (Option.some.inj hr').symm
  have e2 : ch' = ch := by rw [hc] at hc'; exact (Option.some.inj hc').symm
  subst e1 e2
  have A := hA r.variables hnd hsub c (valid_of_vec hlen hc3) _ (relabel_relab cmd c)
  refine ⟨(hval c hlen hc3).trans A.some_iff_fin.symm, ?_⟩
  intro k M e
  refine ⟨hv, ?_⟩
  rw [A.matrix e, applyChoice_eq_toSMat, toSMat_eq_matOf rel' w, hv]

/-- Hence the set of matrices obtained from the valid choices is the set of derivable matrices. -/
theorem reported_matrices_are_exactly_derivable (node : Node) (stop : Bool) (r : FuncRes)
    (hok : FuncOk node = true) (h : func node stop = .ok r)
    (cmd : Cmd) (hd : desugarFunc node = some cmd) (hf : r.infinite = false)
    (rel : Relation) (hr : r.relation = some rel) (ch : Choices.T) (hc : r.choices = some ch)
    (M : SMat) :
    (∃ c : Choice, c.length = cmd.arity ∧ (∀ v ∈ c, v < 3) ∧ Choices.isValid ch c = true ∧
      rel.applyChoice c = M) ↔ Derivable r.variables cmd M := by
  constructor
  · rintro ⟨c, hl, h3, hv, hm⟩
    obtain ⟨h1, h2⟩ := valid_choices_are_derivations node stop r hok h cmd hd hf rel hr ch hc c hl h3
    obtain ⟨k, M', e⟩ := h1.1 hv
    have : M' = M := by rw [← (h2 k M' e).2, hm]
    subst this
    obtain ⟨hl', h3'⟩ := relabel_vec cmd hl h3
    exact ⟨relabel cmd c, hl', h3', k, e⟩
  · rintro ⟨c', hl', h3', k, e⟩
    obtain ⟨hl, h3⟩ := relabel_vec cmd hl' h3'
    obtain ⟨h1, h2⟩ := valid_choices_are_derivations node stop r hok h cmd hd hf rel hr ch hc
      (relabel cmd c') hl h3
    rw [relabel_invol] at h1 h2
    exact ⟨relabel cmd c', hl, h3, h1.2 ⟨k, M, e⟩, (h2 k M e).2⟩

/-- the reported relation and choice object do not depend on more than the derivable matrices:
    a matrix is derivable iff some accepted vector yields it -- and a finite result has one -/
theorem finite_has_derivable_matrix (node : Node) (stop : Bool) (r : FuncRes)
    (hok : FuncOk node = true) (h : func node stop = .ok r)
    (cmd : Cmd) (hd : desugarFunc node = some cmd) (hf : r.infinite = false) :
    ∃ M, Derivable r.variables cmd M := by
  obtain ⟨_, _, _, _, hsub, hnd, _, hfin⟩ := func_sem node stop r hok h cmd hd
  obtain ⟨rel, ch, hr, hc, _, _, _, _, ⟨f, _, hl, h3, hv⟩, _⟩ := hfin hf
  exact ⟨_, (reported_matrices_are_exactly_derivable node stop r hok h cmd hd hf rel hr ch hc _).1
    ⟨f, hl, h3, hv, rfl⟩⟩

/-! ## non-vacuity -/

private def fn (body : List Node) : Node :=
  .funcDef (.decl (some "f") (.funcDecl (some (.paramList
    [.decl (some "x") .typeDecl none, .decl (some "y") .typeDecl none, .decl (some "z") .typeDecl none]))) none)
    (.compound (some body))
/-- `int f(int x,int y,int z){ z = y + z; while (x < 10) { x = y + y; } }`: the first statement is
    one of those pymwp numbers the other way round (`relabel` swaps 0 and 1 at index 0); the loop
    fails unless its statement takes the third alternative -/
private def fFin : Node := fn [
  .assign "=" (.id "z") (.binop "+" (.id "y") (.id "z")),
  .while_ (.binop "<" (.id "x") (.const "int" "10"))
    (.compound (some [.assign "=" (.id "x") (.binop "+" (.id "y") (.id "y"))]))]
private def cFin : Cmd :=
  .seq [.bin "+" "z" (.var "y") (.var "z"), .while_ (.seq [.bin "+" "x" (.var "y") (.var "y")])]

example : FuncOk fFin = true := by decide
example : desugarFunc fFin = some cFin := by rfl
example : (func fFin true).toOption.map (fun r => (r.infinite, r.index, r.variables, r.relation.isSome))
    = some (false, 2, ["x", "y", "z"], true) := by decide
-- the choice object accepts exactly the vectors whose second entry is 2
example : (func fFin true).toOption.map (fun r => r.choices.map (fun ch =>
    ((Spec.allChoices 2).filter (Choices.isValid ch)))) = some (some [[0, 2], [1, 2], [2, 2]]) := by decide
-- ... which are exactly the vectors at which the calculus derives a matrix
example : ((Spec.allChoices 2).filter fun c => (sem ["x", "y", "z"] cFin 0 (relabel cFin c)).isSome)
    = [[0, 2], [1, 2], [2, 2]] := by decide
-- applying an accepted vector gives the matrix derived at the RELABELLED vector (and not the one
-- derived at the vector itself: the numbering of the alternatives differs at index 0)
example : (func fFin true).toOption.map (fun r => r.relation.map (fun rel => rel.applyChoice [0, 2]))
    = some (some [[.m, .o, .o], [.w, .m, .p], [.o, .o, .m]]) := by decide
example : relabel cFin [0, 2] = [1, 2] ∧
    sem ["x", "y", "z"] cFin 0 [1, 2] = some (2, [[.m, .o, .o], [.w, .m, .p], [.o, .o, .m]]) ∧
    sem ["x", "y", "z"] cFin 0 [0, 2] = some (2, [[.m, .o, .o], [.w, .m, .m], [.o, .o, .p]]) := by decide
-- the theorems apply
example : ∀ r, func fFin true = .ok r → ∃ M, Derivable r.variables cFin M := by
  intro r h
  have hf : r.infinite = false := by
    have : (func fFin true).toOption.map (·.infinite) = some false := by decide
    rw [h] at this; exact Option.some.inj this
  exact finite_has_derivable_matrix fFin true r (by decide) h cFin (by rfl) hf

end Mwp.Props.C01b
