/-
  C19 — Loop discovery and program statistics match the source.
  What is proved: the model of FindLoops returns exactly the loop statements of the source in
  pre-order through EVERY statement container (blocks, branches, loop bodies, switch bodies,
  cases, labels), `for` statements counting iff they are counted loops.  The spec traversal
  `Spec.allLoops` knows nothing about pymwp's handler tables.  Statistics (n_func, n_loops,
  variable counts) and `loc` are tied by correspondence (harness/props/c19.py); `Spec.loc` is the
  line lexer the harness compares the regex-based `file_io.loc` with.
-/
import Mwp.Lemmas.SyntaxThmsVars
namespace Mwp.Props.C19
open Mwp Mwp.Syntax

theorem findLoops_is_source_order (n : Node) :
    loopsN n = .ok (Spec.allLoops Spec.countedFor n) :=
  loopsN_eq_allLoops n

/-- the number of loops reported as a statistic is the number of loops of the source -/
theorem n_loops_is_source_count (fs : List Node) :
    (fs.map fun f => (loopsN f).toOption.map List.length) =
      fs.map fun f => some (Spec.allLoops Spec.countedFor f).length := by
  apply List.map_congr_left
  intro f _
  rw [loopsN_eq_allLoops]
  rfl


/-- The handler tables of the live `FindLoops` and `Variables` classes (REGENERATED on every run)
    are the ones the models `loopsN` / `varsN` were written against. -/
theorem findLoops_dispatch_as_modelled :
    Gen.findLoopsOwn = ["Case", "Compound", "DeclList", "Default", "DoWhile", "ExprList", "For", "FuncDef", "If", "Label", "ParamList", "Switch", "While"] ∧
    Gen.findLoopsPass = ["ArrayDecl", "ArrayRef", "Assignment", "BinaryOp", "Break", "Cast", "Constant", "Continue", "Decl", "EmptyStatement", "FuncCall", "Goto", "ID", "Return", "TernaryOp", "TypeDecl", "UnaryOp"] ∧
    Gen.variablesOwn = ["Assignment", "BinaryOp", "Case", "Cast", "Compound", "Decl", "DeclList", "Default", "DoWhile", "ExprList", "For", "FuncDef", "ID", "If", "Label", "ParamList", "Return", "UnaryOp", "While"] ∧
    Gen.variablesPass = ["ArrayDecl", "ArrayRef", "Break", "Constant", "Continue", "EmptyStatement", "FuncCall", "Goto", "Switch", "TernaryOp", "TypeDecl"] ∧
    Gen.reserved = ["true", "false"] := by decide

-- non-vacuity: a loop under a label inside a branch inside a loop is found, in source order
example : (Spec.allLoops Spec.countedFor
    (.funcDef (.decl (some "f") (.funcDecl none) none) (.compound (some [
      .while_ (.id "x") (.compound (some [
        .ifs (.id "x") (some (.label "L" (.doWhile (.id "y") (.compound none)))) none]))])))).length = 2 := by
  decide

/-- the line lexer on the multi-line-comment witness -/
example : Spec.loc "int a; /* c1\n c2 */ int b;\n" = 2 := by decide

end Mwp.Props.C19
