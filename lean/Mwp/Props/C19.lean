import Mwp.Spec.Syntax
namespace Mwp.Props.C19
end Mwp.Props.C19
