/-
  C06 — "never raises" facts, stated for the model.  Property theorems only; the work is in
  Mwp/Lemmas/SyntaxThmsVars.lean (walkers are total), Mwp/Lemmas/DeltaGraphD.lean (the delta
  graph is total under its invariant), Mwp/Props/C04.lean (choices), Mwp/Lemmas/RefineLoopFree.lean
  (loop-free analysis), Mwp/Lemmas/WriteSet.lean (corrections under the graph invariant) and
  Mwp/Lemmas/FixTerm*.lean (the `while True` of the fixpoint stops).
-/
import Mwp.Lemmas.SyntaxThmsVars
import Mwp.Lemmas.DeltaGraph
import Mwp.Props.C04
import Mwp.Lemmas.RefineLoopFree
import Mwp.Lemmas.WriteSet
import Mwp.Lemmas.FixTerm
import Mwp.Lemmas.FuncTotal
namespace Mwp.Props.C06
open Mwp

/-- loop discovery never raises, on any tree -/
theorem findLoops_never_raises (n : Node) : ∃ ls, Syntax.loopsN n = .ok ls :=
  ⟨_, loopsN_eq_allLoops n⟩

example : Syntax.loopsN (.compound (some [.while_ (.id "c") (.for_ none none none (.goto "l")),
    .other "Pragma" none []])) = .ok [.while_ (.id "c") (.for_ none none none (.goto "l"))] := rfl

/-- variables collection never raises -/
theorem variables_never_raise (n : Node) : ∃ vs, Syntax.variables n = .ok vs := by
  unfold Syntax.variables
  rw [varsN_eq n]
  exact ⟨_, rfl⟩

example : Syntax.variables (.for_ (some (.assign "=" (.id "i") (.const "int" "0"))) (some (.id "n"))
    none (.assign "=" (.id "y") (.id "x"))) = .ok ["n", "x", "y"] := by decide

/-- the delta graph never raises, whatever the history -/
theorem delta_graph_never_raises (ops : List DG.Op) : ∃ g, DG.run ops = .ok g := by
  obtain ⟨g, h, _⟩ := DG.run_total ops
  exact ⟨g, h⟩

example : DG.run [.insert [(0, 0)], .insert [(1, 0)], .insert [(2, 0)], .fuse,
    .insert [(0, 1), (1, 5)], .insert []] =
      .ok [(1, []), (0, [([], [])]), (2, [([(0, 1), (1, 5)], [])])] := by rfl

/-- building the choice object never raises on well-formed infinity sequences -/
theorem choices_never_raise (domain : List Nat) (n : Nat) (inf : List Choices.Seq)
    (hd : domain.Nodup) (hne : domain ≠ [])
    (hwf : ∀ s ∈ inf, Choices.WFSeq domain n s) : ∃ c, Choices.generate domain n inf = .ok c := by
  obtain ⟨c, h, _⟩ := Mwp.Props.C04.generate_exact domain n inf hd hne hwf
  exact ⟨c, h⟩

example : ∃ c, Choices.generate [0, 1, 2] 2 [[(0, 0)], [(1, 0), (2, 1)]] = .ok c :=
  choices_never_raise [0, 1, 2] 2 [[(0, 0)], [(1, 0), (2, 1)]] (by decide) (by decide) (by
    intro s hs
    simp only [List.mem_cons, List.not_mem_nil, or_false] at hs
    rcases hs with rfl | rfl <;> exact ⟨by decide, by decide⟩)

/-- the analysis of a loop-free supported statement never raises -/
theorem loopfree_compute_never_raises (node : Node) (cmd : Spec.Cmd)
    (hd : Spec.desugar node = some cmd) (hlf : cmd.loopFree = true)
    (q : Bool) (idx : Nat) (dg : DG.Graph)
    (hn : Refine.namesOk node = true) :
    ∃ out, Analysis.compute q idx dg node = .ok out := by
  obtain ⟨out, h, _⟩ := compute_refines_loopfree node cmd hd hlf q idx dg hn
  exact ⟨out, h⟩

example : ∃ out, Analysis.compute false 0 []
    (.compound (some [.assign "=" (.id "x") (.binop "+" (.id "y") (.id "x")),
      .ifs (.id "c") (some (.assign "=" (.id "y") (.id "x"))) none])) = .ok out :=
  loopfree_compute_never_raises _ _
    (by simp [Spec.desugar, Spec.desugarL, Spec.desugarO, Node.rmCast, Spec.atomOf, Spec.changesVariable]; rfl)
    (by decide) _ _ _ (by decide)

/-- the corrections never raise when the delta graph satisfies its invariant (always true in
    the analysis: the graph is only ever built by `insertNode`/`fusion` from the empty graph) -/
theorem while_correction_never_raises (r : Relation) (g : DG.Graph) (hg : DG.GInv g) :
    ∃ r' g', Relation.whileCorrection r g = .ok (r', g') ∧ DG.GInv g' :=
  WriteSet.whileCorrection_total r g hg

example : ∃ r' g', Relation.whileCorrection ⟨["x", "y"],
    [[[⟨.w, [(0, 0)]⟩, ⟨.m, [(1, 0)]⟩], [⟨.p, [(2, 0)]⟩]], [[⟨.o, []⟩], [⟨.m, []⟩]]]⟩ [] =
      .ok (r', g') ∧ DG.GInv g' :=
  while_correction_never_raises _ [] DG.GInv.nil

/-- … and so does the for correction, for a variable of the relation (for any other name the
    code raises `ValueError` before touching anything: `Relation.loopCorrection` starts with the
    index lookup) -/
theorem loop_correction_never_raises (r : Relation) (x : String) (hx : x ∈ r.vars) (g : DG.Graph)
    (hg : DG.GInv g) : ∃ r' g', Relation.loopCorrection r x g = .ok (r', g') ∧ DG.GInv g' :=
  WriteSet.loopCorrection_total r x hx g hg

example : ∃ r' g', Relation.loopCorrection ⟨["x", "y"],
    [[[⟨.w, [(0, 0)]⟩, ⟨.m, [(1, 0)]⟩], [⟨.p, [(2, 0)]⟩]], [[⟨.p, [(3, 1)]⟩], [⟨.m, []⟩]]]⟩ "y" [] =
      .ok (r', g') ∧ DG.GInv g' :=
  loop_correction_never_raises _ "y" (by decide) [] DG.GInv.nil
example : Relation.loopCorrection ⟨["x"], [[[⟨.m, []⟩]]]⟩ "z" [] = .error "ValueError" := by rfl

/-- TERMINATION of the only unbounded loop of the relation algebra: the `while True` of
    `Relation.fixpoint` stops for every well-formed relation -- whatever its size, its polynomials
    and the number of derivation indices -- after at most `4n² + 1` rounds (`n` variables); the
    result does not depend on how much further fuel the model is given. -/
theorem fixpoint_loop_stops (r : Relation) (h : r.WF) :
    ∀ fuel, 4 * r.vars.length * r.vars.length + 1 ≤ fuel → ∃ f k,
      Relation.fixpointAux r fuel
        (Relation.new r.vars (some (Matrix.identity r.vars.length)))
        (Relation.new r.vars (some (Matrix.identity r.vars.length))) 0 = .ok (f, k) ∧
      k ≤ 4 * r.vars.length * r.vars.length + 1 :=
  Relation.fixpointAux_terminates r h

theorem fixpoint_fuel_irrelevant (r fix cur : Relation) (k fuel fuel' : Nat) (f : Relation) (n : Nat)
    (h : Relation.fixpointAux r fuel fix cur k = .ok (f, n)) (hle : fuel ≤ fuel') :
    Relation.fixpointAux r fuel' fix cur k = .ok (f, n) :=
  Relation.fixpointAux_fuel_mono r fix cur k fuel fuel' f n h hle

/-- hence the model's fuelled `fixpoint` never answers "Diverged" -/
theorem fixpoint_never_diverges (r : Relation) (h : r.WF) : ∃ f, Relation.fixpoint r = .ok f :=
  Relation.fixpoint_terminates r h

/-- **The analysis never raises on a supported function** -- any nesting of branches, while,
    do-while and counted for loops, any size, both modes (early exit and run to completion):
    none of the model's `Except.error` branches ("Diverged", IndexError, KeyError, ValueError of the
    corrections, of the delta graph, of `Choices.generate`, of the ∞-flow report) is reachable.
    `FuncOk` is the decidable side condition of C01/C02 (non-empty names, loop-guard names fresh,
    the calculus reading exists and mentions only collected variables). -/
theorem supported_function_never_raises (node : Node) (stop : Bool) (hok : Refine.FuncOk node = true)
    (cmd : Spec.Cmd) (hd : Spec.desugarFunc node = some cmd) : ∃ r, Analysis.func node stop = .ok r :=
  func_total node stop hok cmd hd

/-- statement level: any supported statement, from any delta index, with any delta graph that
    satisfies the graph invariant (kept by the analysis) -/
theorem supported_statement_never_raises (node : Node) (cmd : Spec.Cmd) (hd : Spec.desugar node = some cmd)
    (hnames : Refine.namesOkA node = true) (hfresh : Refine.guardsFresh cmd = true)
    (q : Bool) (idx : Nat) (dg : DG.Graph) (hg : DG.GInv dg) :
    ∃ out, Analysis.compute q idx dg node = .ok out ∧ DG.GInv out.dg :=
  compute_total node cmd hd hnames hfresh q idx dg hg

end Mwp.Props.C06
