/-
  C06 — "never raises" facts, stated for the model.  Property theorems only; the work is in
  Mwp/Lemmas/SyntaxThmsVars.lean (walkers are total), Mwp/Lemmas/DeltaGraphD.lean (the delta
  graph is total under its invariant), Mwp/Props/C04.lean (choices), Mwp/Lemmas/RefineLoopFree.lean
  (loop-free analysis) and Mwp/Lemmas/WriteSet.lean (corrections under the graph invariant).
-/
import Mwp.Lemmas.SyntaxThmsVars
import Mwp.Lemmas.DeltaGraph
import Mwp.Props.C04
import Mwp.Lemmas.RefineLoopFree
import Mwp.Lemmas.WriteSet
namespace Mwp.Props.C06
open Mwp

/-- loop discovery never raises, on any tree -/
theorem findLoops_never_raises (n : Node) : ∃ ls, Syntax.loopsN n = .ok ls :=
  ⟨_, loopsN_eq_allLoops n⟩

example : Syntax.loopsN (.compound (some [.while_ (.id "c") (.for_ none none none (.goto "l")),
    .other "Pragma" none []])) = .ok [.while_ (.id "c") (.for_ none none none (.goto "l"))] := rfl

/-- variables collection never raises -/
theorem variables_never_raise (n : Node) : ∃ vs, Syntax.variables n = .ok vs := by
  unfold Syntax.variables
  rw [varsN_eq n]
  exact ⟨_, rfl⟩

example : Syntax.variables (.for_ (some (.assign "=" (.id "i") (.const "int" "0"))) (some (.id "n"))
    none (.assign "=" (.id "y") (.id "x"))) = .ok ["n", "x", "y"] := by decide

/-- the delta graph never raises, whatever the history -/
theorem delta_graph_never_raises (ops : List DG.Op) : ∃ g, DG.run ops = .ok g := by
  obtain ⟨g, h, _⟩ := DG.run_total ops
  exact ⟨g, h⟩

example : DG.run [.insert [(0, 0)], .insert [(1, 0)], .insert [(2, 0)], .fuse,
    .insert [(0, 1), (1, 5)], .insert []] =
      .ok [(1, []), (0, [([], [])]), (2, [([(0, 1), (1, 5)], [])])] := by rfl

/-- building the choice object never raises on well-formed infinity sequences -/
theorem choices_never_raise (domain : List Nat) (n : Nat) (inf : List Choices.Seq)
    (hd : domain.Nodup) (hne : domain ≠ [])
    (hwf : ∀ s ∈ inf, Choices.WFSeq domain n s) : ∃ c, Choices.generate domain n inf = .ok c := by
  obtain ⟨c, h, _⟩ := Mwp.Props.C04.generate_exact domain n inf hd hne hwf
  exact ⟨c, h⟩

example : ∃ c, Choices.generate [0, 1, 2] 2 [[(0, 0)], [(1, 0), (2, 1)]] = .ok c :=
  choices_never_raise [0, 1, 2] 2 [[(0, 0)], [(1, 0), (2, 1)]] (by decide) (by decide) (by
    intro s hs
    simp only [List.mem_cons, List.not_mem_nil, or_false] at hs
    rcases hs with rfl | rfl <;> exact ⟨by decide, by decide⟩)

/-- the analysis of a loop-free supported statement never raises -/
theorem loopfree_compute_never_raises (node : Node) (cmd : Spec.Cmd)
    (hd : Spec.desugar node = some cmd) (hlf : cmd.loopFree = true)
    (q : Bool) (idx : Nat) (dg : DG.Graph)
    (hn : Refine.namesOk node = true) :
    ∃ out, Analysis.compute q idx dg node = .ok out := by
  obtain ⟨out, h, _⟩ := compute_refines_loopfree node cmd hd hlf q idx dg hn
  exact ⟨out, h⟩

example : ∃ out, Analysis.compute false 0 []
    (.compound (some [.assign "=" (.id "x") (.binop "+" (.id "y") (.id "x")),
      .ifs (.id "c") (some (.assign "=" (.id "y") (.id "x"))) none])) = .ok out :=
  loopfree_compute_never_raises _ _
    (by simp [Spec.desugar, Spec.desugarL, Spec.desugarO, Node.rmCast, Spec.atomOf]; rfl)
    (by decide) _ _ _ (by decide)

/-- the corrections never raise when the delta graph satisfies its invariant (always true in
    the analysis: the graph is only ever built by `insertNode`/`fusion` from the empty graph) -/
theorem while_correction_never_raises (r : Relation) (g : DG.Graph) (hg : DG.GInv g) :
    ∃ r' g', Relation.whileCorrection r g = .ok (r', g') ∧ DG.GInv g' :=
  WriteSet.whileCorrection_total r g hg

example : ∃ r' g', Relation.whileCorrection ⟨["x", "y"],
    [[[⟨.w, [(0, 0)]⟩, ⟨.m, [(1, 0)]⟩], [⟨.p, [(2, 0)]⟩]], [[⟨.o, []⟩], [⟨.m, []⟩]]]⟩ [] =
      .ok (r', g') ∧ DG.GInv g' :=
  while_correction_never_raises _ [] DG.GInv.nil

/-- … and so does the for correction, for a variable of the relation (for any other name the
    code raises `ValueError` before touching anything: `Relation.loopCorrection` starts with the
    index lookup) -/
theorem loop_correction_never_raises (r : Relation) (x : String) (hx : x ∈ r.vars) (g : DG.Graph)
    (hg : DG.GInv g) : ∃ r' g', Relation.loopCorrection r x g = .ok (r', g') ∧ DG.GInv g' :=
  WriteSet.loopCorrection_total r x hx g hg

example : ∃ r' g', Relation.loopCorrection ⟨["x", "y"],
    [[[⟨.w, [(0, 0)]⟩, ⟨.m, [(1, 0)]⟩], [⟨.p, [(2, 0)]⟩]], [[⟨.p, [(3, 1)]⟩], [⟨.m, []⟩]]]⟩ "y" [] =
      .ok (r', g') ∧ DG.GInv g' :=
  loop_correction_never_raises _ "y" (by decide) [] DG.GInv.nil
example : Relation.loopCorrection ⟨["x"], [[[⟨.m, []⟩]]]⟩ "z" [] = .error "ValueError" := by rfl

end Mwp.Props.C06
