import Mwp.Model.Analysis
namespace Mwp.Props.C06
end Mwp.Props.C06
