/-
  C16 — The coefficient semiring obeys its laws and its documented tables.
  The tables are REGENERATED from the live code on every run (Mwp.Gen.Semiring);
  every law below is therefore re-proved against what the code computes now.
  Finite domain: each theorem is an exhaustive kernel-checked case split.
-/
import Mwp.Model.Semiring
import Mwp.Spec.Semiring
namespace Mwp.Props.C16
open Mwp Mwp.Gen Scalar


/-- Extraction met no anomaly (no coefficient pair raised, KEYS is the five
    documented strings in order, the literal dictionaries agree with the functions). -/
theorem extraction_clean : semiringNotes = [] := by decide
theorem keys_documented : keys = ["o", "m", "w", "p", "i"] := by decide

theorem sum_comm (a b : Scalar) : a + b = b + a := by cases a <;> cases b <;> rfl
theorem prod_comm (a b : Scalar) : a * b = b * a := by cases a <;> cases b <;> rfl
theorem sum_assoc (a b c : Scalar) : (a + b) + c = a + (b + c) := by
  cases a <;> cases b <;> cases c <;> rfl
theorem prod_assoc (a b c : Scalar) : (a * b) * c = a * (b * c) := by
  cases a <;> cases b <;> cases c <;> rfl
theorem distrib_left (a b c : Scalar) : a * (b + c) = (a * b) + (a * c) := by
  cases a <;> cases b <;> cases c <;> rfl
theorem distrib_right (a b c : Scalar) : (a + b) * c = (a * c) + (b * c) := by
  cases a <;> cases b <;> cases c <;> rfl
theorem sum_idem (a : Scalar) : a + a = a := by cases a <;> rfl
/-- Sum is the maximum in the order 0 < m < w < p < ∞. -/
theorem sum_is_max (a b : Scalar) : a + b = if a.rank ≤ b.rank then b else a := by
  cases a <;> cases b <;> rfl
theorem prod_unit_left (a : Scalar) : .m * a = a := by cases a <;> rfl
theorem prod_unit_right (a : Scalar) : a * .m = a := by cases a <;> rfl
theorem sum_zero_left (a : Scalar) : .o + a = a := by cases a <;> rfl
theorem sum_zero_right (a : Scalar) : a + .o = a := by cases a <;> rfl
theorem infty_absorbs_sum (a : Scalar) : .i + a = .i ∧ a + .i = .i := by cases a <;> exact ⟨rfl, rfl⟩
theorem infty_absorbs_prod (a : Scalar) : .i * a = .i ∧ a * .i = .i := by cases a <;> exact ⟨rfl, rfl⟩
/-- 0 annihilates every finite coefficient. -/
theorem zero_annihilates (a : Scalar) (h : a ≠ .i) : .o * a = .o ∧ a * .o = .o := by
  cases a <;> first | exact ⟨rfl, rfl⟩ | exact absurd rfl h
/-- The live tables are the documented tables. -/
theorem sum_documented (a b : Scalar) : a + b = Spec.docSum a b := by cases a <;> cases b <;> rfl
theorem prod_documented (a b : Scalar) : a * b = Spec.docProd a b := by cases a <;> cases b <;> rfl

/-- Any non-coefficient argument raises (modelled as `none`). -/
theorem non_coefficient_raises (a b : String)
    (h : Scalar.ofStr? a = none ∨ Scalar.ofStr? b = none) :
    sumStr a b = none ∧ prodStr a b = none := by
  unfold sumStr prodStr
  rcases h with h | h <;> simp [h] <;> (cases Scalar.ofStr? a <;> simp) 

-- non-vacuity: the tables are not constant
example : ((.m : Scalar) + .w = .w) ∧ ((.w : Scalar) * .p = .p) ∧ ((.o : Scalar) * .i = .i) := by decide

end Mwp.Props.C16
