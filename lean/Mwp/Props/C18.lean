/-
  C18 — Unary operators and casts are analysed as their documented rewriting (model level).
  `Analysis.compute` returns THE SAME result (index, relation list, exit flag, delta graph,
  skipped list — or the same exception) on the sugared statement and on its plain rewriting.
  Helper lemmas: Mwp/Lemmas/Misc18.lean, Mwp/Lemmas/RefineLeaf.lean (`unaryAsgn_*`).
-/
import Mwp.Lemmas.Misc18
namespace Mwp.Props.C18
open Mwp Mwp.Analysis Mwp.Misc18

/-! ## stand-alone increments / decrements:  `x++;  ≡  x = x + 1;` -/

theorem post_incr (q idx dg x) :
    compute q idx dg (.unop "p++" (.id x)) =
      compute q idx dg (.assign "=" (.id x) (.binop "+" (.id x) (.const "int" "1"))) := by
  rw [compute_unop_incdec _ _ _ _ _ (by decide), compute_assign_binop, Refine.lastChar_postInc]

theorem pre_incr (q idx dg x) :
    compute q idx dg (.unop "++" (.id x)) =
      compute q idx dg (.assign "=" (.id x) (.binop "+" (.id x) (.const "int" "1"))) := by
  rw [compute_unop_incdec _ _ _ _ _ (by decide), compute_assign_binop, Refine.lastChar_preInc]

theorem post_decr (q idx dg x) :
    compute q idx dg (.unop "p--" (.id x)) =
      compute q idx dg (.assign "=" (.id x) (.binop "-" (.id x) (.const "int" "1"))) := by
  rw [compute_unop_incdec _ _ _ _ _ (by decide), compute_assign_binop, Refine.lastChar_postDec]

theorem pre_decr (q idx dg x) :
    compute q idx dg (.unop "--" (.id x)) =
      compute q idx dg (.assign "=" (.id x) (.binop "-" (.id x) (.const "int" "1"))) := by
  rw [compute_unop_incdec _ _ _ _ _ (by decide), compute_assign_binop, Refine.lastChar_preDec]

/-! ## `y = x++;  ≡  { y = x; x = x + 1; }`   and   `y = ++x;  ≡  { x = x + 1; y = x; }`
    (no side condition: also for `x = y`, empty names, and when `y = x` raises) -/

theorem asgn_post_incr (q idx dg y x) :
    compute q idx dg (.assign "=" (.id y) (.unop "p++" (.id x))) =
      compute q idx dg (.compound (some [.assign "=" (.id y) (.id x),
        .assign "=" (.id x) (.binop "+" (.id x) (.const "int" "1"))])) :=
  asgn_post q idx dg y x "p++" "+" (.inl rfl) (Refine.unaryAsgn_postInc idx y (.id x) x rfl)

theorem asgn_post_decr (q idx dg y x) :
    compute q idx dg (.assign "=" (.id y) (.unop "p--" (.id x))) =
      compute q idx dg (.compound (some [.assign "=" (.id y) (.id x),
        .assign "=" (.id x) (.binop "-" (.id x) (.const "int" "1"))])) :=
  asgn_post q idx dg y x "p--" "-" (.inr rfl) (Refine.unaryAsgn_postDec idx y (.id x) x rfl)

theorem asgn_pre_incr (q idx dg y x) :
    compute q idx dg (.assign "=" (.id y) (.unop "++" (.id x))) =
      compute q idx dg (.compound (some [.assign "=" (.id x) (.binop "+" (.id x) (.const "int" "1")),
        .assign "=" (.id y) (.id x)])) :=
  asgn_pre q idx dg y x "++" "+" (Refine.unaryAsgn_preInc idx y (.id x) x rfl)

theorem asgn_pre_decr (q idx dg y x) :
    compute q idx dg (.assign "=" (.id y) (.unop "--" (.id x))) =
      compute q idx dg (.compound (some [.assign "=" (.id x) (.binop "-" (.id x) (.const "int" "1")),
        .assign "=" (.id y) (.id x)])) :=
  asgn_pre q idx dg y x "--" "-" (Refine.unaryAsgn_preDec idx y (.id x) x rfl)

/-! ## sign, negation, sizeof -/

/-- `y = -x;  ≡  y = x * c;` for any integer literal `c` (the implementation uses `-1`) -/
theorem asgn_minus (q idx dg y x v) :
    compute q idx dg (.assign "=" (.id y) (.unop "-" (.id x))) =
      compute q idx dg (.assign "=" (.id y) (.binop "*" (.id x) (.const "int" v))) := by
  rw [compute_assign_unop, Refine.unaryAsgn_minus idx y (.id x) x rfl, compute_assign_binop,
    binaryOp_const_value idx y "*" (.id x) "int" v "int" "-1"]
  cases binaryOp idx y "*" (.id x) (.const "int" "-1") <;> rfl

/-- `y = +x;  ≡  y = x;` -/
theorem asgn_plus (q idx dg y x) :
    compute q idx dg (.assign "=" (.id y) (.unop "+" (.id x))) =
      compute q idx dg (.assign "=" (.id y) (.id x)) := by
  rw [compute_assign_unop, Refine.unaryAsgn_plus idx y (.id x) x rfl, compute_assign_id]
  cases idAsgn y x <;> rfl

/-- `y = !e;  ≡  y = c;` for ANY operand `e` and any constant `c` -/
theorem asgn_not (q idx dg y e ty v) :
    compute q idx dg (.assign "=" (.id y) (.unop "!" e)) =
      compute q idx dg (.assign "=" (.id y) (.const ty v)) := by
  rw [compute_assign_unop, Refine.unaryAsgn_not, compute_assign_const]; rfl

/-- `y = sizeof e;  ≡  y = c;` for ANY operand `e` and any constant `c` -/
theorem asgn_sizeof (q idx dg y e ty v) :
    compute q idx dg (.assign "=" (.id y) (.unop "sizeof" e)) =
      compute q idx dg (.assign "=" (.id y) (.const ty v)) := by
  rw [compute_assign_unop, Refine.unaryAsgn_sizeof, compute_assign_const]; rfl

/-- `y = op c;  ≡  y = c;` for a constant operand, whatever the operator (in particular `-c`) -/
theorem asgn_unary_const (q idx dg y op ty v ty' v') :
    compute q idx dg (.assign "=" (.id y) (.unop op (.const ty v))) =
      compute q idx dg (.assign "=" (.id y) (.const ty' v')) := by
  rw [compute_assign_unop, Refine.unaryAsgn_const idx y op (.const ty v) ty v rfl,
    compute_assign_const]; rfl

theorem asgn_minus_const (q idx dg y ty v) :
    compute q idx dg (.assign "=" (.id y) (.unop "-" (.const ty v))) =
      compute q idx dg (.assign "=" (.id y) (.const ty v)) :=
  asgn_unary_const q idx dg y "-" ty v ty v

/-! ## casts are transparent -/

/-- a cast around the whole right-hand side (`r` may itself be a cast: any number of casts) -/
theorem cast_whole_rhs (q idx dg x r) :
    compute q idx dg (.assign "=" (.id x) (.cast r)) = compute q idx dg (.assign "=" (.id x) r) :=
  compute_assign_cast q idx dg "=" x r

/-- casts around the operands of a binary operation (any depth: `l`, `r` may be casts again) -/
theorem cast_operands (q idx dg x op l r) :
    compute q idx dg (.assign "=" (.id x) (.binop op (.cast l) (.cast r))) =
      compute q idx dg (.assign "=" (.id x) (.binop op l r)) := by
  rw [compute_assign_binop, compute_assign_binop, binaryOp_cast]

/-- a cast around the operand of a unary operator -/
theorem cast_unary_operand (q idx dg x op e) :
    compute q idx dg (.assign "=" (.id x) (.unop op (.cast e))) =
      compute q idx dg (.assign "=" (.id x) (.unop op e)) := by
  rw [compute_assign_unop, compute_assign_unop, unaryAsgn_cast]

/-! ## every other stand-alone unary expression has no effect -/

theorem standalone_unary_no_effect (q idx dg op e)
    (h : ¬ (Gen.incDec.contains op = true ∧ e.rmCast.isId = true)) :
    compute q idx dg (.unop op e) = .ok (skip idx dg) :=
  compute_unop_skip q idx dg op e h

/-! ## non-vacuity: the common value is a successful, non-trivial analysis; the one side
    condition (`standalone_unary_no_effect`) is satisfiable -/

example : (compute true 0 [] (.unop "p++" (.id "x"))).toOption.map (fun o => (o.index, o.rels.map (·.vars)))
    = some (1, [["x"]]) := by decide
example : (compute false 3 [] (.assign "=" (.id "y") (.unop "p++" (.id "x")))).toOption.map
    (fun o => (o.index, o.rels.map (·.vars), o.skipped)) = some (4, [["y", "x"]], []) := by decide
example : (compute false 3 [] (.assign "=" (.id "y") (.unop "--" (.id "x")))).toOption.map
    (fun o => (o.index, o.rels.map (·.vars), o.skipped)) = some (4, [["x", "y"]], []) := by decide
example : (compute true 0 [] (.assign "=" (.id "y") (.unop "-" (.id "x")))).toOption.map
    (fun o => (o.index, o.rels.map (·.vars))) = some (1, [["y", "x"]]) := by decide
example : (compute true 0 [] (.assign "=" (.id "y") (.unop "!" (.binop "<" (.id "a") (.id "b"))))).toOption.map
    (fun o => (o.index, o.rels.map (·.vars), o.skipped)) = some (0, [["y"]], []) := by decide
-- `cast_whole_rhs`: a doubly cast right-hand side `x = (T)(T)y` is analysed as `x = y`
example : (compute true 0 [] (.assign "=" (.id "x") (.cast (.cast (.id "y"))))).toOption.map
    (fun o => (o.index, o.rels.map (·.vars), o.skipped)) = some (0, [["x", "y"]], []) := by decide
/-- `standalone_unary_no_effect`: hypothesis satisfiable (`-x;`, `(a+b)++;`), and not for `x++;` -/
example : ¬ (Gen.incDec.contains "-" = true ∧ (Node.id "x").rmCast.isId = true) := by decide
example : ¬ (Gen.incDec.contains "p++" = true ∧ (Node.binop "+" (.id "a") (.id "b")).rmCast.isId = true) := by
  decide

end Mwp.Props.C18
