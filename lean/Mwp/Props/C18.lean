import Mwp.Model.Analysis
import Mwp.Spec.Calculus
namespace Mwp.Props.C18
end Mwp.Props.C18
