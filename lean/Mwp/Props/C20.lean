import Mwp.Model.Bound
import Mwp.Lemmas.Bound
namespace Mwp.Props.C20
open Mwp Mwp.Bound

/-- The displayed expression (both formats) evaluates, for all naturals, to
    max(max-listed, sum of weak-listed) + product of polynomial-listed, an empty list contributing nothing. -/
theorem boundPoly_eval (x y z : List String) (compact : Bool) (ρ : String → Nat) :
    (boundPoly x y z compact).eval ρ
      = Nat.max (maxL ρ x) (sumL ρ y) + (if z.isEmpty then 0 else prodL ρ z) := by
  rcases x with _ | ⟨a, _ | ⟨a', x⟩⟩ <;> rcases y with _ | ⟨b, _ | ⟨b', y⟩⟩ <;>
    rcases z with _ | ⟨c, z⟩ <;> cases compact <;>
    simp [boundPoly, xTerm, yTerm, BExpr.eval, evalMax_map_var_append, evalMax_map_var, maxL_cons,
      sumL_cons]

/-- Non-vacuity: `max(a,bbb,cc+dd)+ee*fff` under `ρ = String.length` is `max(max(1,3),2+2)+2*3`. -/
example : (boundPoly ["a", "bbb"] ["cc", "dd"] ["ee", "fff"] false).eval String.length = 10 := by
  rw [boundPoly_eval]; decide
example : (boundPoly ["a", "bbb"] [] [] true).eval String.length = 3 := by
  rw [boundPoly_eval]; decide

/-- The semicolon-separated text parses back to the same triple (names contain no ',' or ';' and are non-empty). -/
theorem parse_boundStr (x y z : List String)
    (hx : ∀ n ∈ x ++ y ++ z, n.toList ≠ [] ∧ ',' ∉ n.toList ∧ ';' ∉ n.toList) :
    parse (boundStr x y z) = [x.map String.toList, y.map String.toList, z.map String.toList] := by
  have hX : ∀ n ∈ x, n.toList ≠ [] ∧ ',' ∉ n.toList ∧ ';' ∉ n.toList :=
    fun n hn => hx n (by simp [hn])
  have hY : ∀ n ∈ y, n.toList ≠ [] ∧ ',' ∉ n.toList ∧ ';' ∉ n.toList :=
    fun n hn => hx n (by simp [hn])
  have hZ : ∀ n ∈ z, n.toList ≠ [] ∧ ',' ∉ n.toList ∧ ';' ∉ n.toList :=
    fun n hn => hx n (by simp [hn])
  have sx := not_mem_joinWith_names (c := ';') (d := ',') (by decide) x (fun n hn => (hX n hn).2.2)
  have sy := not_mem_joinWith_names (c := ';') (d := ',') (by decide) y (fun n hn => (hY n hn).2.2)
  have sz := not_mem_joinWith_names (c := ';') (d := ',') (by decide) z (fun n hn => (hZ n hn).2.2)
  have hsplit := splitOn_joinWith ';'
    [joinWith [','] (x.map String.toList), joinWith [','] (y.map String.toList),
      joinWith [','] (z.map String.toList)] (by simp) (by
      intro f hf
      simp only [List.mem_cons, List.not_mem_nil, or_false] at hf
      rcases hf with rfl | rfl | rfl <;> assumption)
  have hne : (boundStr x y z).isEmpty = false := by
    simp [boundStr, joinWith]
  unfold parse
  rw [hne]
  simp only [Bool.false_eq_true, if_false]
  unfold boundStr
  simp only [List.map_cons, List.map_nil] at hsplit ⊢
  rw [hsplit]
  simp only [List.map_cons, List.map_nil]
  rw [parse_field x (fun n hn => ⟨(hX n hn).1, (hX n hn).2.1⟩),
    parse_field y (fun n hn => ⟨(hY n hn).1, (hY n hn).2.1⟩),
    parse_field z (fun n hn => ⟨(hZ n hn).1, (hZ n hn).2.1⟩)]

/-- Non-vacuity: the hypothesis holds for `"a,b;;c"` and the round trip is the expected triple. -/
example : parse (boundStr ["a", "b"] [] ["c"]) = [[['a'], ['b']], [], [['c']]] :=
  parse_boundStr _ _ _ (by decide)

/-- 'significant only' omits exactly the variables whose bound lists nothing but the variable itself.
    Names are identifiers: non-empty, made of characters other than ( ) , + * and not the text "0". -/
theorem significant_iff (k : String) (x y z : List String)
    (hid : ∀ n ∈ k :: (x ++ y ++ z), n.toList ≠ [] ∧ n.toList ≠ ['0'] ∧
       ∀ c ∈ n.toList, c ≠ '(' ∧ c ≠ ')' ∧ c ≠ ',' ∧ c ≠ '+' ∧ c ≠ '*') :
    significantShown k x y z = false ↔
      (x = [k] ∧ y = [] ∧ z = []) ∨ (x = [] ∧ y = [k] ∧ z = []) ∨ (x = [] ∧ y = [] ∧ z = [k]) := by
  obtain ⟨_, hk0, hkc⟩ := hid k (by simp)
  have hs := render_boundPoly_false_single k
  unfold significantShown
  rw [bne_eq_false_iff_eq]
  constructor
  · intro h
    by_cases hex : ∃ n, (x = [n] ∧ y = [] ∧ z = []) ∨ (x = [] ∧ y = [n] ∧ z = []) ∨
        (x = [] ∧ y = [] ∧ z = [n])
    · obtain ⟨n, hn⟩ := hex
      have hsn := render_boundPoly_false_single n
      have hnk : n = k := by
        apply String.toList_injective
        rcases hn with ⟨rfl, rfl, rfl⟩ | ⟨rfl, rfl, rfl⟩ | ⟨rfl, rfl, rfl⟩
        · exact hsn.1.symm.trans h
        · exact hsn.2.1.symm.trans h
        · exact hsn.2.2.symm.trans h
      exact hnk ▸ hn
    · exfalso
      rcases render_boundPoly_false_bad x y z hex with hb | hb | hb
      · exact (hkc _ (h ▸ hb)).1 rfl
      · exact (hkc _ (h ▸ hb)).2.2.2.2 rfl
      · exact hk0 (h.symm.trans hb)
  · rintro (⟨rfl, rfl, rfl⟩ | ⟨rfl, rfl, rfl⟩ | ⟨rfl, rfl, rfl⟩)
    · exact hs.1
    · exact hs.2.1
    · exact hs.2.2

/-- Non-vacuity: identifiers satisfy the hypothesis; `a` with bound `a` is hidden, `a` with bound
    `max(a,b)` or `max(a,0)+a` is shown. -/
example : significantShown "a" ["a"] [] [] = false :=
  (significant_iff "a" ["a"] [] [] (by decide)).2 (by simp)
example : significantShown "a" ["a", "b"] [] [] ≠ false :=
  fun h => by simpa using (significant_iff "a" ["a", "b"] [] [] (by decide)).1 h
example : significantShown "a" ["a"] [] ["a"] ≠ false :=
  fun h => by simpa using (significant_iff "a" ["a"] [] ["a"] (by decide)).1 h

end Mwp.Props.C20
