import Mwp.Base
namespace Mwp.Props.C14
end Mwp.Props.C14
