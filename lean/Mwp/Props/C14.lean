/-
  C14 — saving an analysis result and loading it back yields a result that serialises to the same
  JSON; scalar fields keep their values even when they are zero, false or empty.

  Model: Mwp/Model/Result.lean (`toDict` = `to_dict`, `fromDict` = `from_dict`, table-driven from
  the generated `_attrs` / `_ser_*` lists).  `WFObj` (Mwp/Lemmas/ResultThmsDefs.lean) lists what
  an object built by the analysis satisfies (and the sample objects `Sample.*` used in the examples);
  proofs are in Mwp/Lemmas/ResultThms.lean.
-/
import Mwp.Lemmas.ResultThms
namespace Mwp.Props.C14
open Mwp Mwp.Result Mwp.Result.Sample

/-- documents produced by `toDict` are fixed points of load-then-save, for every class -/
theorem roundtrip_toDict (cls : Cls) (o : Obj) (h : WFObj cls o) :
    roundtrip cls (toDict cls o) = toDict cls o := by
  unfold roundtrip
  rw [fromDict_toDict cls o h]

/-- Non-vacuity: a whole `Result` (program, two functions, loop results with variable results) is
    well-formed, so its saved document is a fixed point. -/
example : roundtrip .result (toDict .result result0) = toDict .result result0 :=
  roundtrip_toDict _ _ (by decide)
example : WFObj .funcResult func0 ∧ WFObj .funcResult func1 ∧ WFObj .vResult var1 ∧
    WFObj .loopResult loop0 ∧ WFObj .funcLoops funcLoops0 ∧ WFObj .program program0 := by decide

/-- loading restores the simple attributes exactly, including 0 / false / "" / [] -/
theorem fromDict_attrs (cls : Cls) (o : Obj) (h : WFObj cls o) :
    (fromDict cls (toDict cls o)).attrs = o.attrs := by
  rw [fromDict_toDict cls o h]

/-- Non-vacuity: `index = 0`, `infinite = False`, `inf_flows = ""`, `variables = []` come back. -/
example : (fromDict .funcResult (toDict .funcResult func0)).attrs =
    [("name", .str "f"), ("infinite", .bool false), ("start_time", .num 0), ("end_time", .num 0),
     ("variables", .arr []), ("inf_flows", .str ""), ("index", .num 0), ("func_code", .str "")] :=
  fromDict_attrs _ _ (by decide)
example : (fromDict .program (toDict .program program0)).attrs = program0.attrs :=
  fromDict_attrs _ _ (by decide)

/-- loading restores the whole object: parts (relation, choices, bound) and nested results too -/
theorem fromDict_toDict (cls : Cls) (o : Obj) (h : WFObj cls o) : fromDict cls (toDict cls o) = o :=
  Mwp.Result.fromDict_toDict cls o h

example : fromDict .result (toDict .result result0) = result0 := fromDict_toDict _ _ (by decide)

/-! Negative witnesses: the defect that was repaired, and objects outside `WFObj`. -/

/-- With the old `_try_set` (`if ob:` instead of `if ob is not None:`) the attribute `index = 0`
    of the same document came back as the constructor default `-1`, `n_lines = 0` likewise, and
    the empty `inf_flows` as `None`. -/
example : (fromDictOld .funcResult (toDict .funcResult func0)).getAttr "index" = .num (-1) := rfl
example : (fromDictOld .funcResult (toDict .funcResult func0)).getAttr "index"
    ≠ func0.getAttr "index" := by
  show JVal.num (-1) ≠ JVal.num 0
  intro h; cases h
example : (fromDictOld .program (toDict .program program0)).getAttr "n_lines" = .num (-1) := rfl
example : (fromDictOld .funcResult (toDict .funcResult func0)).getAttr "inf_flows" = .null := rfl
/-- ... and the empty relation and bound of a function without variables were dropped. -/
example : (fromDictOld .funcResult (toDict .funcResult func0)).parts = [] := rfl
example : (fromDict .funcResult (toDict .funcResult func0)).parts = func0.parts := rfl

/-- `WFObj` clause (P-choices) is needed: a choice object with an empty `valid` list and a negative
    `index` is written by `to_dict` but not restored by `from_dict` (`if choices:`). -/
example : roundtrip .vResult (toDict .vResult { var0 with parts := [("choices", .arr [])] })
    ≠ toDict .vResult { var0 with parts := [("choices", .arr [])] } := by
  intro h
  have := congrArg (fun d => isNull (tryGet d ["choices"])) h
  revert this
  decide

end Mwp.Props.C14
