/-
  C09 — Polynomial addition and multiplication compute the semiring sum and
  product at every choice vector, keep monomials well formed, never produce two
  terms with the same delta list, and never leave a zero term beside others.
  Proofs are in `Mwp.Lemmas.Poly`; semiring facts go through the C16 laws.
-/
import Mwp.Lemmas.Poly
namespace Mwp.Props.C09
open Mwp Mwp.Lemmas.Poly

/-- Value of a sum at every choice vector is the semiring sum of the operands' values. -/
theorem add_eval (p q : Poly) (c : Choice) (hp : p.WF = true) (hq : q.WF = true) :
    (Poly.add p q).evalD c = p.evalD c + q.evalD c :=
  evalD_add p q c hp hq

example : (Poly.add [⟨.m, [(0, 0)]⟩, ⟨.w, [(1, 0)]⟩] [⟨.p, [(0, 0), (1, 1)]⟩, ⟨.w, []⟩]).evalD [0, 1]
    = .p := by decide

/-- Value of a product is the semiring product, and zero when either operand has no
    term for that choice.  (Needs only `hp`; `hq` is kept for the stated signature.) -/
theorem times_eval (p q : Poly) (c : Choice) (hp : p.WF = true) (_hq : q.WF = true) :
    (Poly.times p q).evalD c =
      match p.eval? c, q.eval? c with
      | some a, some b => a * b
      | _, _ => Scalar.o :=
  evalD_times p q c hp

example :
    (Poly.times [⟨.m, [(0, 0)]⟩, ⟨.w, [(1, 0)]⟩] [⟨.p, [(0, 0), (1, 1)]⟩, ⟨.o, [(1, 1)]⟩]).evalD [0, 1] = .p
    ∧ (Poly.times [⟨.m, [(0, 0)]⟩, ⟨.w, [(1, 0)]⟩] [⟨.p, [(0, 0), (1, 1)]⟩, ⟨.o, [(1, 1)]⟩]).evalD [1, 0] = .o
    ∧ (Poly.times [⟨.o, []⟩] [⟨.i, [(1, 1)]⟩]).evalD [0, 1] = .i := by decide

theorem add_wf (p q : Poly) (hp : p.WF = true) (hq : q.WF = true) : (Poly.add p q).WF = true :=
  WF_add p q hp hq

example : (Poly.add [⟨.m, [(0, 0)]⟩, ⟨.w, [(1, 0)]⟩] [⟨.p, [(0, 0), (1, 1)]⟩, ⟨.w, []⟩]).WF = true
    ∧ (Poly.add [⟨.m, [(0, 0)]⟩] [⟨.p, [(0, 0), (1, 1)]⟩]).length = 2 := by decide

/-- (Needs only `hp`; `hq` is kept for the stated signature.) -/
theorem times_wf (p q : Poly) (hp : p.WF = true) (_hq : q.WF = true) :
    (Poly.times p q).WF = true :=
  WF_times p q hp

example : Poly.times [⟨.m, [(0, 0)]⟩, ⟨.w, [(1, 2)]⟩] [⟨.p, [(0, 1)]⟩]
    = [⟨.p, [(0, 0), (0, 1)]⟩, ⟨.p, [(0, 1), (1, 2)]⟩] := by decide

/-- Results never contain two terms with the same delta list.
    `hndq` is needed (only) for the corner `p = []`, where `add` returns `q.copy`. -/
theorem add_nodup (p q : Poly) (hp : p.WF = true) (hq : q.WF = true)
    (hnd : (p.map (·.deltas)).Nodup) (hndq : p = [] → (q.map (·.deltas)).Nodup) :
    ((Poly.add p q).map (·.deltas)).Nodup :=
  DNodup_add p q hp hq hnd hndq

-- equal delta lists in the two operands are merged (m + w = w)
example : Poly.add [⟨.m, [(0, 0)]⟩, ⟨.w, [(1, 0)]⟩] [⟨.w, [(0, 0)]⟩, ⟨.m, [(1, 0)]⟩]
    = [⟨.w, [(0, 0)]⟩, ⟨.w, [(1, 0)]⟩] := by decide
example := add_nodup [] [⟨.w, [(0, 0)]⟩, ⟨.m, [(1, 0)]⟩] (by decide) (by decide) (by decide) (by decide)
-- the extra hypothesis cannot be dropped: `[] + q` is `q` as it stands
example : ¬ ((Poly.add [] [⟨.m, [(0, 0)]⟩, ⟨.w, [(0, 0)]⟩]).map (·.deltas)).Nodup := by decide

/-- (Holds without any well-formedness hypothesis.) -/
theorem times_nodup (p q : Poly) (_hp : p.WF = true) (_hq : q.WF = true) :
    ((Poly.times p q).map (·.deltas)).Nodup :=
  DNodup_times p q

-- two pairs give the same delta list `[(0,0),(0,1)]` (scalars w and m); one term survives
example : Poly.products [⟨.w, [(0, 0)]⟩, ⟨.m, [(0, 0), (0, 1)]⟩] [⟨.m, [(0, 1)]⟩, ⟨.p, [(0, 2)]⟩]
      = [⟨.w, [(0, 0), (0, 1)]⟩, ⟨.m, [(0, 0), (0, 1)]⟩, ⟨.p, [(0, 0), (0, 2)]⟩,
         ⟨.p, [(0, 0), (0, 1), (0, 2)]⟩]
    ∧ Poly.times [⟨.w, [(0, 0)]⟩, ⟨.m, [(0, 0), (0, 1)]⟩] [⟨.m, [(0, 1)]⟩, ⟨.p, [(0, 2)]⟩]
      = [⟨.w, [(0, 0), (0, 1)]⟩, ⟨.p, [(0, 0), (0, 2)]⟩] := by decide

/-- Results never contain a zero term alongside others, and are never empty.
    Unconditional when both operands are non-empty.  When one operand is the empty list
    `add` returns a copy of the other one, so that one must itself be well formed and
    satisfy the invariant. -/
theorem add_no_zero_alongside (p q : Poly)
    (hp : q = [] → p.WF = true ∧ (1 < p.length → ∀ m ∈ p, m.scalar ≠ .o))
    (hq : p = [] → q.WF = true ∧ (1 < q.length → ∀ m ∈ q, m.scalar ≠ .o)) :
    Poly.add p q ≠ [] ∧ (1 < (Poly.add p q).length → ∀ m ∈ Poly.add p q, m.scalar ≠ .o) :=
  NZA_add p q hp hq

-- zero terms of the operands do not survive beside other terms
example : Poly.add [⟨.o, [(0, 0)]⟩, ⟨.w, [(1, 0)]⟩] [⟨.o, [(0, 0)]⟩, ⟨.m, [(1, 1)]⟩]
    = [⟨.w, [(1, 0)]⟩, ⟨.m, [(1, 1)]⟩] := by decide
-- the hypotheses are satisfiable, also in the corner they are about
example := add_no_zero_alongside [] [⟨.w, [(0, 0)]⟩, ⟨.m, [(1, 0)]⟩] (by decide) (by decide)
-- the hypotheses cannot be dropped
example : Poly.add [] [⟨.o, []⟩, ⟨.m, [(0, 0)]⟩] = [⟨.o, []⟩, ⟨.m, [(0, 0)]⟩] := by decide
example : Poly.add [] [⟨.m, [(0, 0), (1, 0)]⟩, ⟨.m, []⟩] = [⟨.o, []⟩, ⟨.m, []⟩] := by decide

theorem times_no_zero_alongside (p q : Poly) :
    Poly.times p q ≠ [] ∧ (1 < (Poly.times p q).length → ∀ m ∈ Poly.times p q, m.scalar ≠ .o) :=
  NZA_times p q

example : Poly.times [⟨.m, [(0, 0)]⟩, ⟨.o, [(1, 0)]⟩, ⟨.w, [(1, 2)]⟩] [⟨.p, [(0, 1)]⟩, ⟨.o, []⟩]
    = [⟨.p, [(0, 0), (0, 1)]⟩, ⟨.p, [(0, 1), (1, 2)]⟩] := by decide
example : Poly.times [⟨.m, [(0, 0)]⟩] [⟨.p, [(1, 0)]⟩] = [⟨.o, []⟩] := by decide

end Mwp.Props.C09
