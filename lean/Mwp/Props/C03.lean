import Mwp.Spec.Exec
namespace Mwp.Props.C03
end Mwp.Props.C03
