/-
  C03 — the calculus is sound for the SHAPE of exact final values.  Whatever matrix `sem` derives
  for a command (any choice vector), every terminating exact execution of the command from the
  initial store — any branch outcomes, any loop counts — leaves in every variable `x` a polynomial
  of the shape column `x` prescribes (`Spec.Shape`): it mentions only listed variables, a max-listed
  variable occurs only as a monomial of its own, at most one such monomial, and then no
  weak-listed variable beside it.

  Proof (Mwp/Lemmas/ExecSound*.lean): the invariant "the store respects `F`" (`ExecSound.Inv`) is
  carried through `exec`; a command with matrix `M` takes it from `F` to `F ⊗ M`
  (`ExecSound.exec_inv`).  The invariant is upward closed in the matrix, a branch lies below the
  sum, every power of a body lies below its closure (the closure is a fixed point of
  `S ↦ I ⊕ A·S`), rule L only adds entries.  The side conditions of rules W and L are not needed
  for this statement — it speaks about one execution at a time, not about a bound uniform in the
  iteration count — and neither is the freshness of loop guards: `exec_respects_derivation` keeps
  the hypothesis `loopGuardsFresh` it was asked with, `exec_respects_derivation_any_guard` drops it.
-/
import Mwp.Lemmas.ExecSound
import Mwp.Lemmas.EndToEnd
namespace Mwp.Props.C03
open Mwp Mwp.Spec

/-- (S1) a single skip / copy / `+` / `*`, every alternative -/
theorem leaf_respects (U : List Var) (hU : U.Nodup) (cmd : Cmd) (_hleaf : cmd.isLeaf)
    (hv : ∀ v ∈ cmd.vars', v ∈ U)
    (c : Choice) (k : Nat) (M : SMat) (hs : sem U cmd 0 c = some (k, M))
    (fuel : Nat) (path p' : Path) (σ : Store) (he : exec fuel cmd path [] = some (p', σ)) :
    ∀ x ∈ U, Shape (σ.get x) (colM U M x) (colW U M x) (colP U M x) = true :=
  ExecSound.exec_shape U hU cmd hv c k M hs fuel path p' σ he

/-- (S2) leaves and sequences -/
theorem straightline_respects (U : List Var) (hU : U.Nodup) (cmd : Cmd) (_hsl : cmd.straightLine)
    (hv : ∀ v ∈ cmd.vars', v ∈ U)
    (c : Choice) (k : Nat) (M : SMat) (hs : sem U cmd 0 c = some (k, M))
    (fuel : Nat) (path p' : Path) (σ : Store) (he : exec fuel cmd path [] = some (p', σ)) :
    ∀ x ∈ U, Shape (σ.get x) (colM U M x) (colW U M x) (colP U M x) = true :=
  ExecSound.exec_shape U hU cmd hv c k M hs fuel path p' σ he

/-- (S3) leaves, sequences and if/else -/
theorem loopfree_respects (U : List Var) (hU : U.Nodup) (cmd : Cmd) (_hlf : cmd.noLoops)
    (hv : ∀ v ∈ cmd.vars', v ∈ U)
    (c : Choice) (k : Nat) (M : SMat) (hs : sem U cmd 0 c = some (k, M))
    (fuel : Nat) (path p' : Path) (σ : Store) (he : exec fuel cmd path [] = some (p', σ)) :
    ∀ x ∈ U, Shape (σ.get x) (colM U M x) (colW U M x) (colP U M x) = true :=
  ExecSound.exec_shape U hU cmd hv c k M hs fuel path p' σ he

/-- (S4) Every matrix the calculus derives is respected by every terminating execution: whatever
    the branch outcomes and loop counts, the exact final value of every variable has the shape its
    column prescribes. -/
theorem exec_respects_derivation (U : List Var) (hU : U.Nodup) (cmd : Cmd)
    (hv : ∀ v ∈ cmd.vars', v ∈ U)
    (c : Choice) (k : Nat) (M : SMat) (hs : sem U cmd 0 c = some (k, M))
    (fuel : Nat) (path p' : Path) (σ : Store) (he : exec fuel cmd path [] = some (p', σ))
    (_hloop : loopGuardsFresh cmd) :
    ∀ x ∈ U, Shape (σ.get x) (colM U M x) (colW U M x) (colP U M x) = true :=
  ExecSound.exec_shape U hU cmd hv c k M hs fuel path p' σ he

/-- the same without any hypothesis on loop guards -/
theorem exec_respects_derivation_any_guard (U : List Var) (hU : U.Nodup) (cmd : Cmd)
    (hv : ∀ v ∈ cmd.vars', v ∈ U)
    (c : Choice) (k : Nat) (M : SMat) (hs : sem U cmd 0 c = some (k, M))
    (fuel : Nat) (path p' : Path) (σ : Store) (he : exec fuel cmd path [] = some (p', σ)) :
    ∀ x ∈ U, Shape (σ.get x) (colM U M x) (colW U M x) (colP U M x) = true :=
  ExecSound.exec_shape U hU cmd hv c k M hs fuel path p' σ he

/-- Composition, the general form behind it: from ANY store that respects a matrix `A`
    (`Respects U σ A`: every value has the shape column `x` of `A` prescribes; `A` is `|U|`-rowed
    and free of ∞), a command with derived matrix `M` leads to a store that respects `A ⊗ M`. -/
theorem exec_respects_composition (U : List Var) (hU : U.Nodup) (cmd : Cmd)
    (hv : ∀ v ∈ cmd.vars', v ∈ U)
    (idx : Nat) (c : Choice) (k : Nat) (M : SMat) (hs : sem U cmd idx c = some (k, M))
    (fuel : Nat) (path p' : Path) (σ σ' : Store) (he : exec fuel cmd path σ = some (p', σ'))
    (A : SMat) (hA : A.length = U.length)
    (hAfin : ∀ i, i < U.length → ∀ j, j < U.length → SMat.get A i j ≠ .i)
    (hR : Respects U σ A) : Respects U σ' (SMat.mul A M) :=
  ExecSound.exec_respects_mul U hU cmd hv idx c k M hs fuel path p' σ σ' he A hA hAfin hR

/-- End to end on the model: FuncOk function, any valid choice of the reported choice object, any
    execution (any branch outcomes / loop counts): the exact final value of every variable has the
    shape the reported bound triple prescribes.  (`Mwp.reported_bounds_hold`: a valid choice is a
    derivation — C01 —, a derivation is respected by every execution — (S4) above —, and
    `Analysis.boundAt` lists column `x` of the applied matrix.) -/
theorem reported_bounds_respected (node : Node) (stop : Bool) (r : Analysis.FuncRes)
    (hok : Refine.FuncOk node = true) (h : Analysis.func node stop = .ok r)
    (cmd : Cmd) (hd : desugarFunc node = some cmd) (hf : r.infinite = false)
    (rel : Relation) (hr : r.relation = some rel) (ch : Choices.T) (hc : r.choices = some ch)
    (c : Choice) (hlen : c.length = cmd.arity) (hc3 : ∀ v ∈ c, v < 3)
    (hv : Choices.isValid ch c = true)
    (fuel : Nat) (path p' : Path) (σ : Store) (he : exec fuel cmd path [] = some (p', σ)) :
    ∀ x m w p, (x, m, w, p) ∈ Analysis.boundAt rel c → Shape (σ.get x) m w p = true :=
  Mwp.reported_bounds_hold node stop r hok h cmd hd hf rel hr ch hc c hlen hc3 hv fuel path p' σ he

/-- the same without assuming that the analysis succeeds (it does on a FuncOk function); a finite
    result has at least one valid choice -/
theorem reported_bounds_respected_total (node : Node) (stop : Bool)
    (hok : Refine.FuncOk node = true) (cmd : Cmd) (hd : desugarFunc node = some cmd) :
    ∃ r, Analysis.func node stop = .ok r ∧
      (r.infinite = false → ∃ rel ch, r.relation = some rel ∧ r.choices = some ch ∧
        (∃ c : Choice, c.length = cmd.arity ∧ (∀ v ∈ c, v < 3) ∧ Choices.isValid ch c = true) ∧
        ∀ c : Choice, c.length = cmd.arity → (∀ v ∈ c, v < 3) → Choices.isValid ch c = true →
          ∀ (fuel : Nat) (path p' : Path) (σ : Store), exec fuel cmd path [] = some (p', σ) →
            ∀ x m w p, (x, m, w, p) ∈ Analysis.boundAt rel c → Shape (σ.get x) m w p = true) :=
  Mwp.reported_bounds_hold_total node stop hok cmd hd

/-! ## non-vacuity -/

/-- the sentence is not trivially true: two max-listed variables added / a max-listed variable in
    a product / a weak-listed variable beside a max-listed one / an unlisted variable -/
example : Shape [["y"], ["z"]] ["y", "z"] [] [] = false ∧ Shape [["y", "z"]] ["y"] ["z"] [] = false ∧
    Shape [["y"], ["z"]] ["y"] ["z"] [] = false ∧ Shape [["y"], ["z"]] ["y"] [] [] = false ∧
    Shape [["y"], ["y"]] ["y"] [] [] = false := by decide

/-- the three alternatives of `x = y + z` are three different true sentences about `y + z` -/
example : Shape [["y"], ["z"]] ["y"] [] ["z"] = true ∧ Shape [["y"], ["z"]] ["z"] [] ["y"] = true ∧
    Shape [["y"], ["z"]] [] ["y", "z"] [] = true := by decide

private def U3 : List Var := ["x", "y", "z"]

/-- a counted loop `loop z { x = x + y }`, alternative 0, three iterations: the hypotheses hold
    and the conclusion is the sentence for `x + y + y + y` against `(M, W, P) = ({x}, ∅, {y, z})` -/
example :
    Shape [["x"], ["y"], ["y"], ["y"]] ["x"] [] ["y", "z"] = true :=
  exec_respects_derivation U3 (by decide) (.loop "z" (.bin "+" "x" (.var "x") (.var "y")))
    (by decide) [0] 1 [[.m, .o, .o], [.p, .m, .o], [.p, .o, .m]] (by decide)
    5 [3] [] [("x", [["x"], ["y"], ["y"], ["y"]])] (by decide) (by decide) "x" (by decide)

/-- `if … { x = y * z } else { x = y }; while … { y = x }` along the path "then, two iterations":
    both `x` and `y` end as `y·z`, against `(∅, {y, z}, ∅)` -/
example :
    Shape [["y", "z"]] [] ["y", "z"] [] = true :=
  exec_respects_derivation U3 (by decide)
    (.seq [.ite (.bin "*" "x" (.var "y") (.var "z")) (.asgnVar "x" "y"), .while_ (.asgnVar "y" "x")])
    (by decide) [0] 1 [[.o, .o, .o], [.w, .w, .o], [.w, .w, .m]] (by decide)
    10 [1, 2] [] [("y", [["y", "z"]]), ("x", [["y", "z"]])] (by decide) (by decide) "y" (by decide)

/-- composition from a non-initial store: `x` holds `y + z`, which respects the matrix of
    `x = y + z` under alternative 0; running `y = x * x` (matrix `B`) from there gives a store
    that respects the product -/
example :
    Respects U3 [("y", [["y", "y"], ["y", "z"], ["y", "z"], ["z", "z"]]), ("x", [["y"], ["z"]])]
      (SMat.mul [[.o, .o, .o], [.m, .m, .o], [.p, .o, .m]] [[.m, .w, .o], [.o, .o, .o], [.o, .o, .m]]) :=
  exec_respects_composition U3 (by decide) (.bin "*" "y" (.var "x") (.var "x")) (by decide)
    0 [0] 1 [[.m, .w, .o], [.o, .o, .o], [.o, .o, .m]] (by decide)
    2 [] [] [("x", [["y"], ["z"]])] _ (by decide)
    [[.o, .o, .o], [.m, .m, .o], [.p, .o, .m]] (by decide) (by decide) (by unfold Respects; decide)

/-- derivations do fail: `while … { x = x + y }` has no matrix under alternative 0 (rule W) but
    has one under alternative 2 -/
example : sem U3 (.while_ (.bin "+" "x" (.var "x") (.var "y"))) 0 [0] = none ∧
    sem U3 (.while_ (.bin "+" "x" (.var "y") (.var "z"))) 0 [2] =
      some (1, [[.m, .o, .o], [.w, .m, .o], [.w, .o, .m]]) := by decide

end Mwp.Props.C03
