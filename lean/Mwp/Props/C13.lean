/-
  C13 — The shared constants ZERO (`Polynomial('o')`) and UNIT (`Polynomial('m')`) are never changed.
  Python object identity is not modelled; what is proved is the value-level fact that makes every
  aliasing harmless: the two loop corrections rewrite monomials in place (same positions, same
  delta lists) and only ever write to a monomial whose scalar is `p`/`w` (while) resp. a diagonal
  monomial whose scalar is not `m` (for), and no diagonal cell that a correction walks after a
  fixpoint contains a monomial with scalar `o`.  So no write lands on a monomial holding ZERO's
  scalar `o` or UNIT's scalar `m`, whatever is aliased with whatever.
  Property theorems only; the work is in Mwp/Lemmas/WriteSet.lean.
-/
import Mwp.Lemmas.WriteSet
namespace Mwp.Props.C13
open Mwp

/-- the while correction rewrites a polynomial monomial by monomial, in place (same length, same
    delta lists); a monomial is changed only if its scalar was `p`, or `w` on the diagonal -/
theorem while_correction_write_set (diag : Bool) (p p' : Poly) (g g' : DG.Graph)
    (h : Relation.whileFixPoly diag p g = .ok (p', g')) :
    p'.length = p.length ∧ ∀ k (hk : k < p.length) (hk' : k < p'.length),
      p'[k].deltas = p[k].deltas ∧
      (p'[k] ≠ p[k] →
        (p[k].scalar = .p ∨ (diag = true ∧ p[k].scalar = .w)) ∧ p'[k].scalar = .i) :=
  WriteSet.whileFixPoly_write_set diag p p' g g' h

example : Relation.whileFixPoly true
    [⟨.o, []⟩, ⟨.m, [(0, 0)]⟩, ⟨.w, [(1, 0)]⟩, ⟨.p, [(2, 0)]⟩, ⟨.i, [(0, 1)]⟩] [] =
    .ok ([⟨.o, []⟩, ⟨.m, [(0, 0)]⟩, ⟨.i, [(1, 0)]⟩, ⟨.i, [(2, 0)]⟩, ⟨.i, [(0, 1)]⟩],
      [(1, [([(1, 0)], [([(2, 0)], 0)]), ([(2, 0)], [([(1, 0)], 0)])])]) := by rfl
example : Relation.whileFixPoly false
    [⟨.o, []⟩, ⟨.m, [(0, 0)]⟩, ⟨.w, [(1, 0)]⟩, ⟨.p, [(2, 0)]⟩, ⟨.i, [(0, 1)]⟩] [] =
    .ok ([⟨.o, []⟩, ⟨.m, [(0, 0)]⟩, ⟨.w, [(1, 0)]⟩, ⟨.i, [(2, 0)]⟩, ⟨.i, [(0, 1)]⟩],
      [(1, [([(2, 0)], [])])]) := by rfl

/-- … in particular monomials carrying ZERO's scalar `o` or UNIT's scalar `m` are never written -/
theorem while_correction_spares_constants (diag : Bool) (p p' : Poly) (g g' : DG.Graph)
    (h : Relation.whileFixPoly diag p g = .ok (p', g'))
    (k : Nat) (hk : k < p.length) (hk' : k < p'.length)
    (hs : p[k].scalar = .o ∨ p[k].scalar = .m) : p'[k] = p[k] := by
  refine Classical.byContradiction fun hne => ?_
  obtain ⟨h1, _⟩ := ((while_correction_write_set diag p p' g g' h).2 k hk hk').2 hne
  rcases hs with hs | hs <;> rw [hs] at h1 <;> rcases h1 with h1 | ⟨_, h1⟩ <;> cases h1

/-- the for correction changes the scalar of a walked monomial only on the diagonal and only if
    it was not `m` -/
theorem loop_correction_write_set (diag : Bool) (p ell : Poly) (g : DG.Graph) (p' ell' : Poly)
    (g' : DG.Graph) (h : Relation.loopFixCell diag p ell g = .ok (p', ell', g')) :
    p'.length = p.length ∧ ∀ k (hk : k < p.length) (hk' : k < p'.length),
      p'[k].deltas = p[k].deltas ∧
      (p'[k] ≠ p[k] → diag = true ∧ p[k].scalar ≠ .m ∧ p'[k].scalar = .i) :=
  WriteSet.loopFixCell_write_set diag p ell g p' ell' g' h

-- on the diagonal a monomial with scalar `o` WOULD be written: this is why the next theorem matters
example : Relation.loopFixCell true
    [⟨.o, []⟩, ⟨.m, [(0, 0)]⟩, ⟨.w, [(1, 0)]⟩, ⟨.p, [(2, 0)]⟩] [⟨.m, []⟩] [] =
    .ok ([⟨.i, []⟩, ⟨.m, [(0, 0)]⟩, ⟨.i, [(1, 0)]⟩, ⟨.i, [(2, 0)]⟩], [⟨.m, []⟩],
      [(0, [([], [])]), (1, [([(1, 0)], [([(2, 0)], 0)]), ([(2, 0)], [([(1, 0)], 0)])])]) := by rfl
example : Relation.loopFixCell false
    [⟨.o, []⟩, ⟨.m, [(0, 0)]⟩, ⟨.w, [(1, 0)]⟩, ⟨.p, [(2, 0)]⟩] [⟨.m, []⟩] [] =
    .ok ([⟨.o, []⟩, ⟨.m, [(0, 0)]⟩, ⟨.w, [(1, 0)]⟩, ⟨.p, [(2, 0)]⟩],
      [⟨.m, []⟩, ⟨.p, [(2, 0)]⟩], []) := by rfl

/-- diagonal cells of a fixpoint result contain no monomial with scalar `o` -/
theorem fixpoint_diagonal_no_zero (r f : Relation) (h : r.WF) (hf : Relation.fixpoint r = .ok f)
    (i : Nat) (hi : i < r.vars.length) : ∀ m ∈ Matrix.get f.mat i i, m.scalar ≠ .o :=
  ((WriteSet.fixpoint_cells r f h hf).2.2.2 i hi).1

/-- non-vacuity: a well-formed two-variable relation and its fixpoint -/
def rEx : Relation :=
  ⟨["x", "y"], [[[⟨.m, []⟩], [⟨.w, [(0, 0)]⟩, ⟨.p, [(1, 0)]⟩]], [[⟨.p, [(2, 1)]⟩], [⟨.m, []⟩]]]⟩
def fEx : Relation :=
  ⟨["x", "y"],
    [[[⟨.m, []⟩, ⟨.p, [(0, 0), (2, 1)]⟩, ⟨.p, [(1, 0), (2, 1)]⟩],
      [⟨.w, [(0, 0)]⟩, ⟨.p, [(0, 0), (2, 1)]⟩, ⟨.p, [(1, 0)]⟩]],
     [[⟨.p, [(2, 1)]⟩],
      [⟨.m, []⟩, ⟨.p, [(0, 0), (2, 1)]⟩, ⟨.p, [(1, 0), (2, 1)]⟩]]]⟩
theorem rEx_wf : rEx.WF := ⟨by decide, by decide, by decide, by decide, by decide⟩
theorem rEx_fixpoint : Relation.fixpoint rEx = .ok fEx := by rfl

example : ∀ m ∈ Matrix.get fEx.mat 1 1, m.scalar ≠ .o :=
  fixpoint_diagonal_no_zero rEx fEx rEx_wf rEx_fixpoint 1 (by decide)

/-- Hence a correction applied to a fixpoint result never writes to a monomial whose scalar is
    ZERO's (`o`) or UNIT's (`m`).
    * while: cell by cell, the corrected matrix has the same shape and every monomial that
      differs from the one at the same position before carried neither `o` nor `m`;
    * for: `loopCorrection f x g` IS the fold of `RelFix.loopStep` over the cell list
      `RelFix.loopCells f.mat` (`RelFix.loopCorrection_eq`, by `rfl`), each step visiting the
      polynomial in place at that moment (row `ell` is rebound during the walk, so that
      polynomial need not be the one of `f`).  At EVERY visit of the walk — after any prefix
      `pre` of the cell list, whether or not the walk later raises — the visited polynomial is
      rewritten in place and every monomial that changes carried neither `o` nor `m`. -/
theorem corrections_never_touch_shared_constants (r f : Relation) (h : r.WF)
    (hf : Relation.fixpoint r = .ok f) :
    (∀ (g : DG.Graph) (f' : Relation) (g' : DG.Graph),
      Relation.whileCorrection f g = .ok (f', g') →
      ∀ i j, (Matrix.get f'.mat i j).length = (Matrix.get f.mat i j).length ∧
        ∀ k (hk : k < (Matrix.get f.mat i j).length) (hk' : k < (Matrix.get f'.mat i j).length),
          (Matrix.get f'.mat i j)[k] ≠ (Matrix.get f.mat i j)[k] →
            (Matrix.get f.mat i j)[k].scalar ≠ .o ∧ (Matrix.get f.mat i j)[k].scalar ≠ .m) ∧
    (∀ (x : String) (g : DG.Graph), x ∈ f.vars →
      ∀ (pre post : List (Nat × Nat)) (i j : Nat),
        RelFix.loopCells f.mat = pre ++ (i, j) :: post →
      ∀ (mat : Matrix) (g1 : DG.Graph),
        pre.foldlM (RelFix.loopStep (f.vars.idxOf x)) (f.mat, g) = .ok (mat, g1) →
      ∀ (p' e' : Poly) (g2 : DG.Graph),
        Relation.loopFixCell (i == j) (Matrix.get mat i j) (Matrix.get mat (f.vars.idxOf x) j) g1 =
          .ok (p', e', g2) →
        p'.length = (Matrix.get mat i j).length ∧
        ∀ k (hk : k < (Matrix.get mat i j).length) (hk' : k < p'.length),
          p'[k] ≠ (Matrix.get mat i j)[k] →
            (Matrix.get mat i j)[k].scalar ≠ .o ∧ (Matrix.get mat i j)[k].scalar ≠ .m) := by
  obtain ⟨hv, hw, _, hd⟩ := WriteSet.fixpoint_cells r f h hf
  refine ⟨fun g f' g' hc i j => WriteSet.whileCorrection_spares f f' g g' hc i j, ?_⟩
  intro x g hx pre post i j hsplit mat g1 hpre p' e' g2 hcell
  exact WriteSet.loopWalk_spares (n := f.vars.length) f.mat
    ⟨RelFix.wf_sq hw, fun a ha => hd a (hv ▸ ha)⟩ (f.vars.idxOf x) (List.idxOf_lt_length_of_mem hx)
    g pre post i j hsplit mat g1 hpre p' e' g2 hcell

-- non-vacuity on the fixpoint above: the while correction succeeds and rewrites `p` monomials …
example : ∃ f' g', Relation.whileCorrection fEx [] = .ok (f', g') ∧
    Matrix.get f'.mat 0 0 = [⟨.m, []⟩, ⟨.i, [(0, 0), (2, 1)]⟩, ⟨.i, [(1, 0), (2, 1)]⟩] :=
  ⟨_, _, by rfl, by rfl⟩
-- … and the for walk reaches the diagonal cell (1,1) after the prefix [(0,0),(0,1),(1,0)], where
-- cell (0,0) has been rewritten and then rebound, and rewrites its two `p` monomials
example : RelFix.loopCells fEx.mat = [(0, 0), (0, 1), (1, 0)] ++ (1, 1) :: [] := by rfl
example : ∃ mat g1, [(0, 0), (0, 1), (1, 0)].foldlM (RelFix.loopStep (fEx.vars.idxOf "x"))
      (fEx.mat, []) = .ok (mat, g1) ∧
    Matrix.get mat 0 0 = [⟨.m, []⟩, ⟨.i, [(0, 0), (2, 1)]⟩, ⟨.i, [(1, 0), (2, 1)]⟩, ⟨.p, [(2, 1)]⟩] ∧
    ∃ e' g2, Relation.loopFixCell true (Matrix.get mat 1 1) (Matrix.get mat 0 1) g1 =
      .ok ([⟨.m, []⟩, ⟨.i, [(0, 0), (2, 1)]⟩, ⟨.i, [(1, 0), (2, 1)]⟩], e', g2) :=
  ⟨_, _, by rfl, by rfl, _, _, by rfl⟩

end Mwp.Props.C13
