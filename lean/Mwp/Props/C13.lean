import Mwp.Model.Relation
namespace Mwp.Props.C13
end Mwp.Props.C13
