/-
  C13 — The shared constants ZERO (`Polynomial('o')`) and UNIT (`Polynomial('m')`) are never changed.
  Python object identity is not modelled; what is proved is the value-level fact that makes every
  aliasing harmless: the two loop corrections rewrite monomials in place (same positions, same
  delta lists) and only ever write to a monomial whose scalar is `p`/`w` (while) resp. a diagonal
  monomial whose scalar is not `m` (for), and no diagonal cell that a correction walks after a
  fixpoint contains a monomial with scalar `o`.  So no write lands on a monomial holding ZERO's
  scalar `o` or UNIT's scalar `m`, whatever is aliased with whatever.
  Property theorems only; the work is in Mwp/Lemmas/WriteSet.lean.
-/
import Mwp.Lemmas.WriteSet
import Mwp.Lemmas.RunThms
namespace Mwp.Props.C13
open Mwp

/-- the while correction rewrites a polynomial monomial by monomial, in place (same length, same
    delta lists); a monomial is changed only if its scalar was `p`, or `w` on the diagonal -/
theorem while_correction_write_set (diag : Bool) (p p' : Poly) (g g' : DG.Graph)
    (h : Relation.whileFixPoly diag p g = .ok (p', g')) :
    p'.length = p.length ∧ ∀ k (hk : k < p.length) (hk' : k < p'.length),
      p'[k].deltas = p[k].deltas ∧
      (p'[k] ≠ p[k] →
        (p[k].scalar = .p ∨ (diag = true ∧ p[k].scalar = .w)) ∧ p'[k].scalar = .i) :=
  WriteSet.whileFixPoly_write_set diag p p' g g' h

example : Relation.whileFixPoly true
    [⟨.o, []⟩, ⟨.m, [(0, 0)]⟩, ⟨.w, [(1, 0)]⟩, ⟨.p, [(2, 0)]⟩, ⟨.i, [(0, 1)]⟩] [] =
    .ok ([⟨.o, []⟩, ⟨.m, [(0, 0)]⟩, ⟨.i, [(1, 0)]⟩, ⟨.i, [(2, 0)]⟩, ⟨.i, [(0, 1)]⟩],
      [(1, [([(1, 0)], [([(2, 0)], 0)]), ([(2, 0)], [([(1, 0)], 0)])])]) := by rfl
example : Relation.whileFixPoly false
    [⟨.o, []⟩, ⟨.m, [(0, 0)]⟩, ⟨.w, [(1, 0)]⟩, ⟨.p, [(2, 0)]⟩, ⟨.i, [(0, 1)]⟩] [] =
    .ok ([⟨.o, []⟩, ⟨.m, [(0, 0)]⟩, ⟨.w, [(1, 0)]⟩, ⟨.i, [(2, 0)]⟩, ⟨.i, [(0, 1)]⟩],
      [(1, [([(2, 0)], [])])]) := by rfl

/-- … in particular monomials carrying ZERO's scalar `o` or UNIT's scalar `m` are never written -/
theorem while_correction_spares_constants (diag : Bool) (p p' : Poly) (g g' : DG.Graph)
    (h : Relation.whileFixPoly diag p g = .ok (p', g'))
    (k : Nat) (hk : k < p.length) (hk' : k < p'.length)
    (hs : p[k].scalar = .o ∨ p[k].scalar = .m) : p'[k] = p[k] := by
  refine Classical.byContradiction fun hne => ?_
  obtain ⟨h1, _⟩ := ((while_correction_write_set diag p p' g g' h).2 k hk hk').2 hne
  rcases hs with hs | hs <;> rw [hs] at h1 <;> rcases h1 with h1 | ⟨_, h1⟩ <;> cases h1

/-- the for correction changes the scalar of a walked monomial only on the diagonal and only if
    it was not `m` -/
theorem loop_correction_write_set (diag : Bool) (p ell : Poly) (g : DG.Graph) (p' ell' : Poly)
    (g' : DG.Graph) (h : Relation.loopFixCell diag p ell g = .ok (p', ell', g')) :
    p'.length = p.length ∧ ∀ k (hk : k < p.length) (hk' : k < p'.length),
      p'[k].deltas = p[k].deltas ∧
      (p'[k] ≠ p[k] → diag = true ∧ p[k].scalar ≠ .m ∧ p'[k].scalar = .i) :=
  WriteSet.loopFixCell_write_set diag p ell g p' ell' g' h

-- on the diagonal a monomial with scalar `o` WOULD be written: this is why the next theorem matters
example : Relation.loopFixCell true
    [⟨.o, []⟩, ⟨.m, [(0, 0)]⟩, ⟨.w, [(1, 0)]⟩, ⟨.p, [(2, 0)]⟩] [⟨.m, []⟩] [] =
    .ok ([⟨.i, []⟩, ⟨.m, [(0, 0)]⟩, ⟨.i, [(1, 0)]⟩, ⟨.i, [(2, 0)]⟩], [⟨.m, []⟩],
      [(0, [([], [])]), (1, [([(1, 0)], [([(2, 0)], 0)]), ([(2, 0)], [([(1, 0)], 0)])])]) := by rfl
example : Relation.loopFixCell false
    [⟨.o, []⟩, ⟨.m, [(0, 0)]⟩, ⟨.w, [(1, 0)]⟩, ⟨.p, [(2, 0)]⟩] [⟨.m, []⟩] [] =
    .ok ([⟨.o, []⟩, ⟨.m, [(0, 0)]⟩, ⟨.w, [(1, 0)]⟩, ⟨.p, [(2, 0)]⟩],
      [⟨.m, []⟩, ⟨.p, [(2, 0)]⟩], []) := by rfl

/-- diagonal cells of a fixpoint result contain no monomial with scalar `o` -/
theorem fixpoint_diagonal_no_zero (r f : Relation) (h : r.WF) (hf : Relation.fixpoint r = .ok f)
    (i : Nat) (hi : i < r.vars.length) : ∀ m ∈ Matrix.get f.mat i i, m.scalar ≠ .o :=
  ((WriteSet.fixpoint_cells r f h hf).2.2.2 i hi).1

/-- non-vacuity: a well-formed two-variable relation and its fixpoint -/
def rEx : Relation :=
  ⟨["x", "y"], [[[⟨.m, []⟩], [⟨.w, [(0, 0)]⟩, ⟨.p, [(1, 0)]⟩]], [[⟨.p, [(2, 1)]⟩], [⟨.m, []⟩]]]⟩
def fEx : Relation :=
  ⟨["x", "y"],
    [[[⟨.m, []⟩, ⟨.p, [(0, 0), (2, 1)]⟩, ⟨.p, [(1, 0), (2, 1)]⟩],
      [⟨.w, [(0, 0)]⟩, ⟨.p, [(0, 0), (2, 1)]⟩, ⟨.p, [(1, 0)]⟩]],
     [[⟨.p, [(2, 1)]⟩],
      [⟨.m, []⟩, ⟨.p, [(0, 0), (2, 1)]⟩, ⟨.p, [(1, 0), (2, 1)]⟩]]]⟩
theorem rEx_wf : rEx.WF := ⟨by decide, by decide, by decide, by decide, by decide⟩
theorem rEx_fixpoint : Relation.fixpoint rEx = .ok fEx := by rfl

example : ∀ m ∈ Matrix.get fEx.mat 1 1, m.scalar ≠ .o :=
  fixpoint_diagonal_no_zero rEx fEx rEx_wf rEx_fixpoint 1 (by decide)

/-- Hence a correction applied to a fixpoint result never writes to a monomial whose scalar is
    ZERO's (`o`) or UNIT's (`m`).
    * while: cell by cell, the corrected matrix has the same shape and every monomial that
      differs from the one at the same position before carried neither `o` nor `m`;
    * for: `loopCorrection f x g` IS the fold of `RelFix.loopStep` over the cell list
      `RelFix.loopCells f.mat` (`RelFix.loopCorrection_eq`, by `rfl`), each step visiting the
      polynomial in place at that moment (row `ell` is rebound during the walk, so that
      polynomial need not be the one of `f`).  At EVERY visit of the walk — after any prefix
      `pre` of the cell list, whether or not the walk later raises — the visited polynomial is
      rewritten in place and every monomial that changes carried neither `o` nor `m`. -/
theorem corrections_never_touch_shared_constants (r f : Relation) (h : r.WF)
    (hf : Relation.fixpoint r = .ok f) :
    (∀ (g : DG.Graph) (f' : Relation) (g' : DG.Graph),
      Relation.whileCorrection f g = .ok (f', g') →
      ∀ i j, (Matrix.get f'.mat i j).length = (Matrix.get f.mat i j).length ∧
        ∀ k (hk : k < (Matrix.get f.mat i j).length) (hk' : k < (Matrix.get f'.mat i j).length),
          (Matrix.get f'.mat i j)[k] ≠ (Matrix.get f.mat i j)[k] →
            (Matrix.get f.mat i j)[k].scalar ≠ .o ∧ (Matrix.get f.mat i j)[k].scalar ≠ .m) ∧
    (∀ (x : String) (g : DG.Graph), x ∈ f.vars →
      ∀ (pre post : List (Nat × Nat)) (i j : Nat),
        RelFix.loopCells f.mat = pre ++ (i, j) :: post →
      ∀ (mat : Matrix) (g1 : DG.Graph),
        pre.foldlM (RelFix.loopStep (f.vars.idxOf x)) (f.mat, g) = .ok (mat, g1) →
      ∀ (p' e' : Poly) (g2 : DG.Graph),
        Relation.loopFixCell (i == j) (Matrix.get mat i j) (Matrix.get mat (f.vars.idxOf x) j) g1 =
          .ok (p', e', g2) →
        p'.length = (Matrix.get mat i j).length ∧
        ∀ k (hk : k < (Matrix.get mat i j).length) (hk' : k < p'.length),
          p'[k] ≠ (Matrix.get mat i j)[k] →
            (Matrix.get mat i j)[k].scalar ≠ .o ∧ (Matrix.get mat i j)[k].scalar ≠ .m) := by
  obtain ⟨hv, hw, _, hd⟩ := WriteSet.fixpoint_cells r f h hf
  refine ⟨fun g f' g' hc i j => WriteSet.whileCorrection_spares f f' g g' hc i j, ?_⟩
  intro x g hx pre post i j hsplit mat g1 hpre p' e' g2 hcell
  exact WriteSet.loopWalk_spares (n := f.vars.length) f.mat
    ⟨RelFix.wf_sq hw, fun a ha => hd a (hv ▸ ha)⟩ (f.vars.idxOf x) (List.idxOf_lt_length_of_mem hx)
    g pre post i j hsplit mat g1 hpre p' e' g2 hcell

-- non-vacuity on the fixpoint above: the while correction succeeds and rewrites `p` monomials …
example : ∃ f' g', Relation.whileCorrection fEx [] = .ok (f', g') ∧
    Matrix.get f'.mat 0 0 = [⟨.m, []⟩, ⟨.i, [(0, 0), (2, 1)]⟩, ⟨.i, [(1, 0), (2, 1)]⟩] :=
  ⟨_, _, by rfl, by rfl⟩
-- … and the for walk reaches the diagonal cell (1,1) after the prefix [(0,0),(0,1),(1,0)], where
-- cell (0,0) has been rewritten and then rebound, and rewrites its two `p` monomials
example : RelFix.loopCells fEx.mat = [(0, 0), (0, 1), (1, 0)] ++ (1, 1) :: [] := by rfl
example : ∃ mat g1, [(0, 0), (0, 1), (1, 0)].foldlM (RelFix.loopStep (fEx.vars.idxOf "x"))
      (fEx.mat, []) = .ok (mat, g1) ∧
    Matrix.get mat 0 0 = [⟨.m, []⟩, ⟨.i, [(0, 0), (2, 1)]⟩, ⟨.i, [(1, 0), (2, 1)]⟩, ⟨.p, [(2, 1)]⟩] ∧
    ∃ e' g2, Relation.loopFixCell true (Matrix.get mat 1 1) (Matrix.get mat 0 1) g1 =
      .ok ([⟨.m, []⟩, ⟨.i, [(0, 0), (2, 1)]⟩, ⟨.i, [(1, 0), (2, 1)]⟩], e', g2) :=
  ⟨_, _, by rfl, by rfl, _, _, by rfl⟩

/-! ## "as one of many functions in a file": the file-level drivers (`Mwp/Model/Run.lean`)
    assemble the result per function, independently of the other functions -/

/-- the entry of a function is filed under the function's own name (the removal pass of the
    syntax gate keeps it) -/
theorem file_entry_is_named_after_function (f : Node) (fin strict : Bool) (r : Analysis.FuncRes)
    (h : Run.runOne f fin strict = .ok (some r)) : r.name = Analysis.funcName f :=
  Run.runOne_name f fin strict r h

/-- With pairwise distinct function names, the result of `Analysis.run` on a file is the list of
    the entries its functions give when analysed alone (`Run.runOne`), in source order: functions
    the syntax gate refuses contribute nothing, no entry depends on another function. -/
theorem file_results_are_per_function (fs : List Node) (fin strict : Bool)
    (res : List (String × Analysis.FuncRes))
    (hnd : (fs.map Analysis.funcName).Nodup) (h : Run.run fs fin strict = .ok res) :
    res = fs.filterMap (fun f => match Run.runOne f fin strict with
      | .ok (some r) => some (r.name, r)
      | _ => none) :=
  Run.run_eq_filterMap fs fin strict res hnd h

/-- … in particular the entry of a function in a file is the entry it has in the file consisting
    of it alone -/
theorem file_entry_is_entry_alone (fs : List Node) (fin strict : Bool)
    (res : List (String × Analysis.FuncRes))
    (hnd : (fs.map Analysis.funcName).Nodup) (h : Run.run fs fin strict = .ok res)
    (f : Node) (hf : f ∈ fs) (r : Analysis.FuncRes) (hr : Run.runOne f fin strict = .ok (some r)) :
    (r.name, r) ∈ res ∧ Run.run [f] fin strict = .ok [(r.name, r)] :=
  Run.run_entry_alone fs fin strict res hnd h f hf r hr

/-- Without the hypothesis on names: a later definition with the same name replaces the earlier
    entry in place (`d[name] = r`), otherwise the entry is appended. -/
theorem file_duplicate_name_replaces (fs : List Node) (f : Node) (fin strict : Bool) :
    Run.run (fs ++ [f]) fin strict = (do
      let acc ← Run.run fs fin strict
      match ← Run.runOne f fin strict with
      | none => pure acc
      | some r => pure (Run.dictSet acc r.name r)) :=
  Run.run_dup fs f fin strict

/-- The analysis of a file raises iff the analysis of one of its functions, taken alone, raises:
    one function neither masks nor causes a failure of another. -/
theorem file_failures_are_per_function (fs : List Node) (fin strict : Bool) :
    (∃ res, Run.run fs fin strict = .ok res) ↔ ∀ f ∈ fs, ∃ o, Run.runOne f fin strict = .ok o :=
  Run.run_ok_iff fs fin strict

/-- Loop mode: `LoopAnalysis.run` succeeds iff `Run.loopsOfFunc` does on every function; with
    pairwise distinct names its result has one entry per function, in source order, holding the
    loops that function gives when taken alone; and the loops of a function are, in discovery
    order, what the gate (`Run.loopOne`) leaves of each discovered loop taken alone. -/
theorem file_loop_results_are_per_function (fs : List Node) (strict : Bool) :
    ((∃ res, Run.runLoops fs strict = .ok res) ↔ ∀ f ∈ fs, ∃ ls, Run.loopsOfFunc f strict = .ok ls) ∧
    (∀ res, (fs.map Analysis.funcName).Nodup → Run.runLoops fs strict = .ok res →
      res = fs.map (fun f => (Analysis.funcName f,
        match Run.loopsOfFunc f strict with | .ok ls => ls | .error _ => []))) ∧
    (∀ f ls, Run.loopsOfFunc f strict = .ok ls ↔
      ∃ loops, Syntax.loopsN f = .ok loops ∧ (∀ l ∈ loops, ∃ o, Run.loopOne l strict = .ok o) ∧
        ls = loops.filterMap (fun l => match Run.loopOne l strict with
          | .ok (some n) => some n
          | _ => none)) :=
  ⟨Run.runLoops_ok_iff fs strict, fun res hnd h => Run.runLoops_eq_map fs strict res hnd h,
    fun f ls => Run.loopsOfFunc_ok_iff f strict ls⟩

/-! non-vacuity: a file with `int f(int x,int y){ while (x < 10) { x = y + y; } }` and
    `int g(int x,int a){ x = a[1]; x = a; }` -/

private def fileF : Node :=
  .funcDef (.decl (some "f") (.funcDecl (some (.paramList
    [.decl (some "x") .typeDecl none, .decl (some "y") .typeDecl none]))) none)
    (.compound (some [.while_ (.binop "<" (.id "x") (.const "int" "10"))
      (.compound (some [.assign "=" (.id "x") (.binop "+" (.id "y") (.id "y"))]))]))
private def fileGBody (l : List Node) : Node :=
  .funcDef (.decl (some "g") (.funcDecl (some (.paramList
    [.decl (some "x") .typeDecl none, .decl (some "a") .typeDecl none]))) none)
    (.compound (some l))
private def fileG : Node :=
  fileGBody [.assign "=" (.id "x") (.arrayRef (.id "a") (.const "int" "1")), .assign "=" (.id "x") (.id "a")]
/-- `g` with the unsupported statement removed -/
private def fileG' : Node := fileGBody [.assign "=" (.id "x") (.id "a")]

local macro "cov_simp" : tactic => `(tactic|
  simp [fileF, fileG, fileG', fileGBody, Syntax.coverage, Syntax.covN, Syntax.covList, Syntax.covSlot,
    Syntax.covBody, Syntax.hasEffect, Syntax.hasEffectO, Syntax.hasEffectL, Syntax.allowRhs, Syntax.allowOperand, Syntax.nestedOk, Gen.incDec, Node.isId,
    Node.isUnop, Node.isBinop, Node.isConst, Node.isCast, Node.rmCast, Gen.binOps, Gen.uOps, bind,
    Except.bind, pure, Except.pure])
private theorem fileF_cov : Syntax.coverage fileF = .ok (0, fileF) := by cov_simp
private theorem fileG_cov : Syntax.coverage fileG = .ok (1, fileG') := by cov_simp

example : ([fileF, fileG].map Analysis.funcName).Nodup := by decide
-- not strict: two entries, in source order; `g` is analysed without its unsupported statement
example : (Run.run [fileF, fileG] true false).toOption.map
    (fun res => res.map fun e => (e.1, e.2.infinite, e.2.variables))
    = some [("f", false, ["x", "y"]), ("g", false, ["a", "x"])] := by
  simp only [Run.run_eq_foldlM, List.foldlM_cons, List.foldlM_nil, Run.runStep,
    Run.runOne_of_coverage_zero _ _ _ _ fileF_cov, (Run.runOne_of_coverage_pos _ _ _ _ fileG_cov).2]
  decide
-- strict: `g` is refused, `f` keeps exactly its entry
example : (Run.run [fileF, fileG] true true).toOption.map
    (fun res => res.map fun e => (e.1, e.2.infinite, e.2.variables))
    = some [("f", false, ["x", "y"])] := by
  simp only [Run.run_eq_foldlM, List.foldlM_cons, List.foldlM_nil, Run.runStep,
    Run.runOne_of_coverage_zero _ _ _ _ fileF_cov, (Run.runOne_of_coverage_pos _ _ _ _ fileG_cov).1]
  decide
-- the theorem applied to this file: the entry of `f` is its entry in the one-function file
example (res : List (String × Analysis.FuncRes)) (h : Run.run [fileF, fileG] true false = .ok res)
    (r : Analysis.FuncRes) (hr : Run.runOne fileF true false = .ok (some r)) :
    (r.name, r) ∈ res ∧ Run.run [fileF] true false = .ok [(r.name, r)] :=
  file_entry_is_entry_alone [fileF, fileG] true false res (by decide) h fileF (by simp) r hr

end Mwp.Props.C13
