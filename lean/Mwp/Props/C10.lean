/-
  C10 — Relation operations mean matrix operations at every choice.
  Property theorems only (proofs in Mwp/Lemmas/RelAlg*.lean, RelFix*.lean).
  `Relation.den r c x y` is the value of relation `r` at choice vector `c` between variables
  `x` and `y`: the cell's value, and the IDENTITY outside the relation's own variables.
-/
import Mwp.Lemmas.RelAlg
import Mwp.Lemmas.RelFix
import Mwp.Lemmas.FixTerm
namespace Mwp.Props.C10
open Mwp

/-- Sum of relations over arbitrary, differently ordered, partially overlapping variable lists
    is the pointwise semiring sum of their meanings, at EVERY choice vector. -/
theorem sum_is_matrix_sum (r1 r2 : Relation) (h1 : r1.WF) (h2 : r2.WF) (c : Choice) (x y : String) :
    (Relation.sum r1 r2).den c x y = r1.den c x y + r2.den c x y :=
  Relation.sum_den r1 r2 h1 h2 c x y

/-- Composition is the matrix product of the meanings extended by identity on missing variables,
    at every choice vector where the operands are free of infinity, over any finite universe of
    names containing both variable lists. -/
theorem composition_is_matrix_product (r1 r2 : Relation) (h1 : r1.WF) (h2 : r2.WF) (c : Choice)
    (U : List String) (hU : U.Nodup) (hsub : ∀ v, v ∈ r1.vars ∨ v ∈ r2.vars → v ∈ U)
    (x y : String) (hx : x ∈ U) (hy : y ∈ U)
    (hf1 : ∀ a b, r1.den c a b ≠ .i) (hf2 : ∀ a b, r2.den c a b ≠ .i) :
    (Relation.composition r1 r2).den c x y
      = sumScalars (U.map fun k => r1.den c x k * r2.den c k y) :=
  Relation.composition_den_of_finite r1 r2 h1 h2 c U hU hsub x y hx hy hf1 hf2

/-- … and between variables of the operands the equation holds at EVERY choice vector, infinite
    or not (the product is the exact semiring matrix product, 0 × ∞ = ∞ included). -/
theorem composition_is_matrix_product_everywhere (r1 r2 : Relation) (h1 : r1.WF) (h2 : r2.WF)
    (c : Choice) (U : List String) (hU : U.Nodup) (hsub : ∀ v, v ∈ r1.vars ∨ v ∈ r2.vars → v ∈ U)
    (x y : String) (hx : x ∈ r1.vars ∨ x ∈ r2.vars) (hy : y ∈ r1.vars ∨ y ∈ r2.vars) :
    (Relation.composition r1 r2).den c x y
      = sumScalars (U.map fun k => r1.den c x k * r2.den c k y) :=
  Relation.composition_den_of_mem r1 r2 h1 h2 c U hU hsub x y hx hy

/-- An infinity in an operand at some choice is still present in the result at that choice. -/
theorem composition_keeps_infinity (r1 r2 : Relation) (h1 : r1.WF) (h2 : r2.WF) (c : Choice)
    (h : (∃ x y, r1.den c x y = .i) ∨ (∃ x y, r2.den c x y = .i)) :
    ∃ x y, (Relation.composition r1 r2).den c x y = .i :=
  Relation.composition_infty_persists r1 r2 h1 h2 c h

theorem sum_keeps_infinity (r1 r2 : Relation) (h1 : r1.WF) (h2 : r2.WF) (c : Choice)
    (h : (∃ x y, r1.den c x y = .i) ∨ (∃ x y, r2.den c x y = .i)) :
    ∃ x y, (Relation.sum r1 r2).den c x y = .i :=
  Relation.sum_infty_persists r1 r2 h1 h2 c h

/-- Results are well formed and range over exactly the variables of the operands. -/
theorem results_well_formed (r1 r2 : Relation) (h1 : r1.WF) (h2 : r2.WF) :
    (Relation.sum r1 r2).WF ∧ (Relation.composition r1 r2).WF ∧
    ∀ v, (v ∈ (Relation.composition r1 r2).vars ↔ v ∈ r1.vars ∨ v ∈ r2.vars) ∧
         (v ∈ (Relation.sum r1 r2).vars ↔ v ∈ r1.vars ∨ v ∈ r2.vars) :=
  ⟨Relation.sum_wf r1 r2 h1 h2, Relation.composition_wf r1 r2 h1 h2,
   fun v => ⟨Relation.composition_vars_mem r1 r2 h1 h2 v, Relation.sum_vars_mem r1 r2 h1 h2 v⟩⟩

/-- If the syntactic fixpoint loop of the code stops, its result means the reflexive-transitive
    closure `I ⊕ M ⊕ M² ⊕ …` of the relation's matrix at EVERY choice vector (the closure is defined
    on plain scalar matrices in Spec.Calculus, independently of polynomials). -/
theorem fixpoint_is_closure (r f : Relation) (h : r.WF) (hf : Relation.fixpoint r = .ok f) (c : Choice) :
    f.vars = r.vars ∧ f.WF ∧ f.toSMat c = Spec.SMat.closure (r.toSMat c) :=
  Relation.fixpoint_toSMat r f h hf c

/-- … and it always stops (Mwp/Lemmas/FixTerm*.lean): total correctness of the fixpoint. -/
theorem fixpoint_total (r : Relation) (h : r.WF) :
    ∃ f, Relation.fixpoint r = .ok f ∧ f.vars = r.vars ∧ f.WF ∧
      ∀ c, f.toSMat c = Spec.SMat.closure (r.toSMat c) :=
  Relation.fixpoint_total r h

/-- The while-loop correction acts pointwise as rule W with failure recorded as ∞: a cell's value
    becomes ∞ iff it was `p`, or ∞, or `w` on the diagonal; everything else is unchanged. -/
theorem while_correction_pointwise (r r' : Relation) (g g' : DG.Graph) (h : r.WF)
    (hw : Relation.whileCorrection r g = .ok (r', g')) (c : Choice) :
    r'.vars = r.vars ∧ r'.WF ∧
    ∀ i j, i < r.vars.length → j < r.vars.length →
      (Matrix.get r'.mat i j).evalD c = wCorr (i == j) ((Matrix.get r.mat i j).evalD c) :=
  Relation.whileCorrection_cells r r' g g' h hw c

-- non-vacuity: two relations over different, differently ordered variable lists
example : (Relation.composition ⟨["b", "a"], [[Poly.unit, Poly.const .w], [Poly.zero, Poly.unit]]⟩
    ⟨["a", "c"], [[Poly.unit, Poly.const .p], [Poly.zero, Poly.unit]]⟩).den [] "b" "c" = .p := by decide

end Mwp.Props.C10
