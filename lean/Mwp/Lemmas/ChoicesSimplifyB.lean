/-
  C04, part 2: soundness of `reduceOnce` / `reduceAll` (front and end reduction).
-/
import Mwp.Lemmas.ChoicesSimplifyA

namespace Mwp.Choices

/-! ## total versions of `head!`, `last!`, `subEqual`, `subEqualEnd` -/

def hd (s : Seq) : Delta := s.headD (0, 0)
def lst (s : Seq) : Delta := s.getLast?.getD (0, 0)

/-- the delta that `_reduce` inspects: last (`true`) or first (`false`) -/
def pKey : Bool → Seq → Delta
  | true, s => lst s
  | false, s => hd s

/-- what remains when that delta is removed -/
def pRest : Bool → Seq → Seq
  | true, s => s.dropLast
  | false, s => s.tail

def pSub (e : Bool) (a b : Seq) : Bool := (pKey e a).2 == (pKey e b).2 && pRest e a == pRest e b

theorem head!_ok {s : Seq} (h : s ≠ []) : head! s = pure (hd s) := by
  cases s with
  | nil => exact absurd rfl h
  | cons d t => rfl

theorem last!_ok {s : Seq} (h : s ≠ []) : last! s = pure (lst s) := by
  unfold last! lst
  rw [List.getLast?_eq_some_getLast h]
  rfl

theorem lst_eq {s : Seq} (h : s ≠ []) : lst s = s.getLast h := by
  unfold lst
  rw [List.getLast?_eq_some_getLast h]
  rfl

theorem sub_ok (e : Bool) {a b : Seq} (ha : a ≠ []) (hb : b ≠ []) :
    (if e = true then subEqualEnd a b else subEqual a b) = pure (pSub e a b) := by
  cases e
  · simp only [Bool.false_eq_true, if_false]
    unfold subEqual
    rw [head!_ok ha, head!_ok hb]
    rfl
  · simp only [if_true]
    unfold subEqualEnd
    rw [last!_ok ha, last!_ok hb]
    rfl

theorem key_ok (e : Bool) {s : Seq} (h : s ≠ []) :
    (do let d ← (if e = true then last! s else head! s); pure d.1 : M Nat) = pure (pKey e s).1 := by
  cases e
  · simp only [Bool.false_eq_true, if_false]
    rw [head!_ok h]
    rfl
  · simp only [if_true]
    rw [last!_ok h]
    rfl

theorem matches_split (e : Bool) {s : Seq} (h : s ≠ []) (v : List Nat) :
    matchesSeq s v = (v[(pKey e s).2]? == some (pKey e s).1 && matchesSeq (pRest e s) v) := by
  cases e
  · cases s with
    | nil => exact absurd rfl h
    | cons d t => rw [matchesSeq_cons]; rfl
  · show _ = (v[(lst s).2]? == some (lst s).1 && matchesSeq s.dropLast v)
    rw [lst_eq h, ← matchesSeq_concat, List.dropLast_concat_getLast h]

theorem pKey_mem (e : Bool) {s : Seq} (h : s ≠ []) : pKey e s ∈ s := by
  cases e
  · cases s with
    | nil => exact absurd rfl h
    | cons d t => exact List.mem_cons_self
  · show lst s ∈ s
    rw [lst_eq h]
    exact List.getLast_mem h

theorem pRest_sublist (e : Bool) (s : Seq) : (pRest e s).Sublist s := by
  cases e
  · exact List.tail_sublist s
  · exact List.dropLast_sublist s

theorem pRest_ne_nil (e : Bool) {s : Seq} (h : s.length > 1) : pRest e s ≠ [] := by
  intro hnil
  have hl := congrArg List.length hnil
  cases e
  · simp only [pRest, List.length_tail, List.length_nil] at hl; omega
  · simp only [pRest, List.length_dropLast, List.length_nil] at hl; omega

theorem sameSet_iff {a b : List Nat} :
    sameSet a b = true ↔ (∀ x ∈ a, x ∈ b) ∧ ∀ x ∈ b, x ∈ a := by
  simp [sameSet]

/-! ## one reduction step -/

theorem reduce_step_sound {domain : List Nat} {n : Nat} (e : Bool) {seqs : List Seq}
    (hg : Good domain n seqs) {s1 : Seq} (h1 : s1 ∈ seqs) (hl : s1.length > 1)
    (hs : sameSet ((seqs.filter (pSub e s1)).map (fun s => (pKey e s).1)) domain = true) :
    Good domain n (insertNew (removeSubset (pRest e s1) seqs) (pRest e s1)) ∧
    Equiv domain n (insertNew (removeSubset (pRest e s1) seqs) (pRest e s1)) seqs := by
  have hne1 : s1 ≠ [] := (hg s1 h1).2
  constructor
  · intro s hsm
    rcases (mem_insertNew _ _ _).1 hsm with hsm | rfl
    · exact hg s (mem_removeSubset.1 hsm).1
    · exact ⟨(hg s1 h1).1.sublist (pRest_sublist e s1), pRest_ne_nil e hl⟩
  · intro v hv
    constructor
    · intro hav s hsm
      cases hsub : subsetOf (pRest e s1) s
      · exact hav s ((mem_insertNew _ _ _).2 (Or.inl (mem_removeSubset.2 ⟨hsm, hsub⟩)))
      · exact avoids_of_subset hsub (hav _ ((mem_insertNew _ _ _).2 (Or.inr rfl)))
    · intro hav s hsm
      rcases (mem_insertNew _ _ _).1 hsm with hsm | rfl
      · exact hav s (mem_removeSubset.1 hsm).1
      · cases hm : matchesSeq (pRest e s1) v
        · rfl
        · exfalso
          -- the value of `v` at the inspected index
          have hj : (pKey e s1).2 < n := ((hg s1 h1).1.2 _ (pKey_mem e hne1)).1
          have hjv : (pKey e s1).2 < v.length := by rw [hv.1]; exact hj
          have hx : v[(pKey e s1).2] ∈ domain := hv.2 _ (List.getElem_mem hjv)
          have hx' := (sameSet_iff.1 hs).2 _ hx
          rcases List.mem_map.1 hx' with ⟨s2, hs2, hk⟩
          rcases List.mem_filter.1 hs2 with ⟨hs2m, hps⟩
          unfold pSub at hps
          rw [Bool.and_eq_true] at hps
          have hidx : (pKey e s1).2 = (pKey e s2).2 := by simpa using hps.1
          have hrest : pRest e s1 = pRest e s2 := by simpa using hps.2
          have h2 := hav s2 hs2m
          rw [matches_split e (hg s2 hs2m).2 v, ← hrest, hm, ← hidx, hk,
            List.getElem?_eq_getElem hjv] at h2
          simp at h2

/-! ## `reduceOnce` -/

theorem reduceOnce_go_spec (domain : List Nat) (e : Bool) (seqs : List Seq)
    (hne : ∀ s ∈ seqs, s ≠ []) (cands : List Seq)
    (hc : ∀ s ∈ cands, s ∈ seqs ∧ s.length > 1) :
    reduceOnce.go domain e seqs cands = pure none ∨
    ∃ s1, s1 ∈ seqs ∧ s1.length > 1 ∧
      sameSet ((seqs.filter (pSub e s1)).map (fun s => (pKey e s).1)) domain = true ∧
      reduceOnce.go domain e seqs cands =
        pure (some (insertNew (removeSubset (pRest e s1) seqs) (pRest e s1))) := by
  induction cands with
  | nil => left; rfl
  | cons s1 rest ih =>
    have h1 := hc s1 List.mem_cons_self
    have hne1 : s1 ≠ [] := hne s1 h1.1
    rw [reduceOnce.go]
    rw [filterM_ok _ (pSub e s1) seqs (fun x hx => sub_ok e hne1 (hne x hx)), pure_bind]
    rw [mapM_ok _ (fun s => (pKey e s).1) _
      (fun x hx => key_ok e (hne x (List.mem_filter.1 hx).1)), pure_bind]
    split
    · rename_i hs
      right
      refine ⟨s1, h1.1, h1.2, hs, ?_⟩
      cases e <;> rfl
    · exact ih (fun s hs => hc s (List.mem_cons_of_mem _ hs))

theorem reduceOnce_spec {domain : List Nat} {n : Nat} (e : Bool) {seqs : List Seq}
    (hg : Good domain n seqs) :
    reduceOnce domain e seqs = pure none ∨
    ∃ seqs', reduceOnce domain e seqs = pure (some seqs') ∧
      Good domain n seqs' ∧ Equiv domain n seqs' seqs := by
  unfold reduceOnce
  rcases reduceOnce_go_spec domain e seqs (fun s hs => (hg s hs).2)
      (seqs.filter (fun s => s.length > 1))
      (fun s hs => by
        have := List.mem_filter.1 hs
        exact ⟨this.1, by simpa using this.2⟩) with h | ⟨s1, h1, hl, hs, h⟩
  · exact Or.inl h
  · exact Or.inr ⟨_, h, reduce_step_sound e hg h1 hl hs⟩

theorem reduceAll_spec {domain : List Nat} {n : Nat} (e : Bool) (fuel : Nat) {seqs : List Seq}
    (hg : Good domain n seqs) :
    ∃ s', reduceAll domain e fuel seqs = pure s' ∧ Good domain n s' ∧ Equiv domain n s' seqs := by
  induction fuel generalizing seqs with
  | zero => exact ⟨seqs, rfl, hg, Equiv.refl _⟩
  | succ fuel ih =>
    rw [reduceAll]
    rcases reduceOnce_spec e hg with h | ⟨seqs', h, hg', he'⟩
    · rw [h, pure_bind]
      exact ⟨seqs, rfl, hg, Equiv.refl _⟩
    · rw [h, pure_bind]
      rcases ih hg' with ⟨s', hr, hgs, hes⟩
      exact ⟨s', hr, hgs, hes.trans he'⟩

end Mwp.Choices
