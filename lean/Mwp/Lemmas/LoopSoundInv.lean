/-
  Loop mode soundness: the invariant `CInv` relating, at ONE choice vector, the relation the model
  computes (dense matrix product: a failure spreads over whole rows and columns) to the matrix of
  the calculus with failure as a value (`Spec.semI`, path-local product), and its closure under
  composition, sum, `while` and counted loops.
-/
import Mwp.Lemmas.LoopSoundSpec
import Mwp.Lemmas.LoopSoundCorr
namespace Mwp
namespace LoopSound
open Mwp.Props.C16 Mwp.Lemmas.Poly Spec RelFix Refine

/-! ## the invariant relating a model relation at one choice vector to a `semI` matrix -/

/-- `g` (the calculus, failure as a value, path-local) against the model relation `r` at `c` (dense
    product: more ∞):  `g` is the identity outside the relation's variables; wherever `g` fails
    the relation fails; and a column on which the relation does not fail is `g`'s column. -/
structure CInv (U : List String) (r : Relation) (c : Choice) (g : NF) : Prop where
  supp : Supp U r.vars g
  infUp : ∀ x ∈ U, ∀ y ∈ U, g x y = .i → r.den c x y = .i
  colEq : ∀ y ∈ U, (∀ x ∈ U, r.den c x y ≠ .i) → ∀ x ∈ U, r.den c x y = g x y

theorem CInv.congr {U : List String} {r : Relation} {c : Choice} {g g' : NF} (h : CInv U r c g)
    (e : ∀ x ∈ U, ∀ y ∈ U, g x y = g' x y) : CInv U r c g' := by
  refine ⟨fun x hx y hy hxy => (e x hx y hy).symm.trans (h.supp x hx y hy hxy),
    fun x hx y hy hi => h.infUp x hx y hy ((e x hx y hy).trans hi),
    fun y hy hf x hx => (h.colEq y hy hf x hx).trans (e x hx y hy)⟩

/-- the two sides agree on the universe -/
theorem CInv.of_eq {U : List String} {r : Relation} {c : Choice} {g : NF}
    (e : ∀ x ∈ U, ∀ y ∈ U, r.den c x y = g x y) : CInv U r c g := by
  refine ⟨fun x hx y hy hxy => ?_, fun x hx y hy hi => (e x hx y hy).trans hi,
    fun y _ _ x hx => e x hx y ‹_›⟩
  rw [← e x hx y hy]
  exact den_outside c (fun h => hxy.elim (fun h1 => h1 h.1) (fun h2 => h2 h.2))

/-- the relation fails on all of its own cells -/
theorem CInv.of_allInf {U : List String} {r : Relation} {c : Choice} {g : NF}
    (hs : Supp U r.vars g) (hinf : ∀ x ∈ r.vars, ∀ y ∈ r.vars, r.den c x y = .i) : CInv U r c g := by
  refine ⟨hs, fun x hx y hy hi => ?_, fun y hy hf x hx => ?_⟩
  · by_cases hxy : x ∈ r.vars ∧ y ∈ r.vars
    · exact hinf x hxy.1 y hxy.2
    · have : x ∉ r.vars ∨ y ∉ r.vars := by
        by_cases hx' : x ∈ r.vars
        · exact Or.inr (fun hy' => hxy ⟨hx', hy'⟩)
        · exact Or.inl hx'
      rw [hs x hx y hy this] at hi
      exact absurd hi (idS_ne_i x y)
  · by_cases hyv : y ∈ r.vars
    · exact absurd (hinf y hyv y hyv) (hf y hy)
    · rw [hs x hx y hy (Or.inr hyv)]
      exact Relation.den_of_not_mem_right hyv c x

theorem CInv.sum {U : List String} {rA rB : Relation} {c : Choice} {gA gB : NF}
    (wA : rA.WF) (wB : rB.WF) (hA : CInv U rA c gA) (hB : CInv U rB c gB) :
    CInv U (Relation.sum rA rB) c (fun x y => gA x y + gB x y) := by
  have hmem := Relation.sum_vars_mem rA rB wA wB
  have hden := Relation.sum_den rA rB wA wB c
  refine ⟨fun x hx y hy hxy => ?_, fun x hx y hy hi => ?_, fun y hy hf x hx => ?_⟩
  · have h1 : x ∉ rA.vars ∨ y ∉ rA.vars :=
      hxy.imp (fun h h' => h ((hmem x).2 (Or.inl h'))) (fun h h' => h ((hmem y).2 (Or.inl h')))
    have h2 : x ∉ rB.vars ∨ y ∉ rB.vars :=
      hxy.imp (fun h h' => h ((hmem x).2 (Or.inr h'))) (fun h h' => h ((hmem y).2 (Or.inr h')))
    show gA x y + gB x y = _
    rw [hA.supp x hx y hy h1, hB.supp x hx y hy h2, sum_idem]
  · rw [hden]
    rcases add_eq_i hi with h | h
    · rw [hA.infUp x hx y hy h]; exact (infty_absorbs_sum _).1
    · rw [hB.infUp x hx y hy h]; exact (infty_absorbs_sum _).2
  · have hfa : ∀ x ∈ U, rA.den c x y ≠ .i := fun x hx => (add_ne_i_iff.1 (hden x y ▸ hf x hx)).1
    have hfb : ∀ x ∈ U, rB.den c x y ≠ .i := fun x hx => (add_ne_i_iff.1 (hden x y ▸ hf x hx)).2
    rw [hden, hA.colEq y hy hfa x hx, hB.colEq y hy hfb x hx]

theorem CInv.comp {U : List String} (hU : U.Nodup) {rA rB : Relation} {c : Choice} {gA gB : NF}
    (wA : rA.WF) (wB : rB.WF) (sA : ∀ v ∈ rA.vars, v ∈ U) (sB : ∀ v ∈ rB.vars, v ∈ U)
    (hA : CInv U rA c gA) (hB : CInv U rB c gB) :
    CInv U (Relation.composition rA rB) c (mulNP U gA gB) := by
  have hmem := Relation.composition_vars_mem rA rB wA wB
  have hown := Relation.composition_den_own rA rB wA wB c
  have hsub : ∀ v, v ∈ rA.vars ∨ v ∈ rB.vars → v ∈ U := fun v hv => hv.elim (sA v) (sB v)
  have hsupp : Supp U (Relation.composition rA rB).vars (mulNP U gA gB) := by
    apply mulNP_supp
    · intro x hx y hy hxy
      exact hA.supp x hx y hy (hxy.imp (fun h h' => h ((hmem x).2 (Or.inl h')))
        (fun h h' => h ((hmem y).2 (Or.inl h'))))
    · intro x hx y hy hxy
      exact hB.supp x hx y hy (hxy.imp (fun h h' => h ((hmem x).2 (Or.inr h')))
        (fun h h' => h ((hmem y).2 (Or.inr h'))))
  refine ⟨hsupp, fun x hx y hy hi => ?_, fun y hy hf => ?_⟩
  · -- a failure of the calculus is a failure of the (dense) product
    have hmemi := mem_of_sumScalars_eq_i hi
    obtain ⟨k, hk, hki⟩ := List.mem_map.1 hmemi
    obtain ⟨ha0, hb0, hab⟩ := pathProd_eq_i hki
    -- x, k, y are all variables of the composition
    have hV : x ∈ (Relation.composition rA rB).vars ∧ k ∈ (Relation.composition rA rB).vars ∧
        y ∈ (Relation.composition rA rB).vars ∧ (rA.den c x k = .i ∨ rB.den c k y = .i) := by
      rcases hab with h | h
      · have hAi := hA.infUp x hx k hk h
        have hm := Relation.mem_of_den_i hAi
        have hkV := (hmem k).2 (Or.inl hm.2)
        refine ⟨(hmem x).2 (Or.inl hm.1), hkV, ?_, Or.inl hAi⟩
        apply Classical.byContradiction
        intro hyV
        have hyB : y ∉ rB.vars := fun h' => hyV ((hmem y).2 (Or.inr h'))
        rw [hB.supp k hk y hy (Or.inr hyB)] at hb0
        have : k = y := by
          apply Classical.byContradiction
          intro hne; exact hb0 (idS_of_ne hne)
        exact hyV (this ▸ hkV)
      · have hBi := hB.infUp k hk y hy h
        have hm := Relation.mem_of_den_i hBi
        have hkV := (hmem k).2 (Or.inr hm.1)
        refine ⟨?_, hkV, (hmem y).2 (Or.inr hm.2), Or.inr hBi⟩
        apply Classical.byContradiction
        intro hxV
        have hxA : x ∉ rA.vars := fun h' => hxV ((hmem x).2 (Or.inl h'))
        rw [hA.supp x hx k hk (Or.inl hxA)] at ha0
        have : x = k := by
          apply Classical.byContradiction
          intro hne; exact ha0 (idS_of_ne hne)
        exact hxV (this ▸ hkV)
    obtain ⟨hxV, hkV, hyV, hor⟩ := hV
    rw [hown, if_pos ⟨hxV, hyV⟩]
    apply sumScalars_eq_i_of_mem
    rw [List.mem_map]
    refine ⟨k, hkV, ?_⟩
    rcases hor with h | h
    · rw [h]; exact (infty_absorbs_prod _).1
    · rw [h]; exact (infty_absorbs_prod _).2
  · -- a failure-free column of the product
    intro x hx
    by_cases hyV : y ∈ (Relation.composition rA rB).vars
    · -- no operand cell involved fails
      have hcell : ∀ x' ∈ (Relation.composition rA rB).vars, ∀ k ∈ (Relation.composition rA rB).vars,
          rA.den c x' k ≠ .i ∧ rB.den c k y ≠ .i := by
        intro x' hx' k hk
        have hx'U : x' ∈ U := hsub x' ((hmem x').1 hx')
        have h1 := hf x' hx'U
        rw [hown, if_pos ⟨hx', hyV⟩] at h1
        have : rA.den c x' k * rB.den c k y ≠ .i := by
          intro e
          apply h1
          apply sumScalars_eq_i_of_mem
          rw [List.mem_map]
          exact ⟨k, hk, e⟩
        exact mul_ne_i_iff.1 this
      have finA : ∀ a b, rA.den c a b ≠ .i := by
        intro a b e
        have hm := Relation.mem_of_den_i e
        exact (hcell a ((hmem a).2 (Or.inl hm.1)) b ((hmem b).2 (Or.inl hm.2))).1 e
      have finBy : ∀ k, rB.den c k y ≠ .i := by
        intro k e
        have hm := Relation.mem_of_den_i e
        exact (hcell y hyV k ((hmem k).2 (Or.inr hm.1))).2 e
      have eA : ∀ a ∈ U, ∀ b ∈ U, rA.den c a b = gA a b :=
        fun a ha b hb => hA.colEq b hb (fun a' _ => finA a' b) a ha
      have eB : ∀ k ∈ U, rB.den c k y = gB k y :=
        fun k hk => hB.colEq y hy (fun k' _ => finBy k') k hk
      rw [Relation.composition_den_partial rA rB wA wB c U hU hsub x y hx hy
        ⟨Or.inr (Or.inr finBy), Or.inr (Or.inr (finA x))⟩]
      unfold mulNP
      apply sumScalars_map_congr
      intro k hk
      rw [← eA x hx k hk, ← eB k hk, pathProd_fin (finA x k) (finBy k)]
    · rw [hsupp x hx y hy (Or.inr hyV)]
      exact Relation.den_of_not_mem_right hyV c x

/-! ## while / do-while -/

theorem wN_supp {U vs : List String} {g : NF} (h : Supp U vs g) : Supp U vs (wN g) := by
  intro x hx y hy hxy
  unfold wN
  rw [h x hx y hy hxy]
  exact wCorr_idS x y

theorem not_fin_exists {r : Relation} {c : Choice} (h : ¬ Fin' r c) : ∃ a b, r.den c a b = .i := by
  apply Classical.byContradiction
  intro hno
  exact h (fun a b e => hno ⟨a, b, e⟩)

theorem CInv.while_ {U : List String} (hU : U.Nodup) {r f r' : Relation} {g0 g' : DG.Graph} {c : Choice}
    {gb : NF} (wr : r.WF) (sr : ∀ v ∈ r.vars, v ∈ U) (hb : CInv U r c gb)
    (hf : Relation.fixpoint (Relation.composition (Relation.new []) r) = .ok f)
    (hw : Relation.whileCorrection f g0 = .ok (r', g')) :
    ∃ gW, wInf (closureP (matOf U gb)) = matOf U gW ∧ CInv U r' c gW := by
  obtain ⟨w', hvm, e', H⟩ := while_rel wr hf hw
  obtain ⟨cden, _, hfin⟩ := H c
  by_cases fr : Fin' r c
  · obtain ⟨_, hcl⟩ := hfin fr
    have eb : ∀ x ∈ U, ∀ y ∈ U, r.den c x y = gb x y :=
      fun x hx y hy => hb.colEq y hy (fun x' _ => fr x' y) x hx
    have e1 : matOf U gb = matOf U (r.den c) := matOf_congr (fun x hx y hy => (eb x hx y hy).symm)
    refine ⟨wN (f.den c), ?_, CInv.of_eq (fun x _ y _ => cden x y)⟩
    rw [e1, closureP_eq_closure hU (fun x _ y _ => fr x y), hcl U hU sr, wInf_matOf hU]
  · obtain ⟨s', hs', hsupp⟩ := closureP_supp (vs := r.vars) hU hb.supp
    refine ⟨wN s', by rw [hs', wInf_matOf hU], CInv.of_allInf ?_ ?_⟩
    · intro x hx y hy hxy
      exact wN_supp hsupp x hx y hy (hxy.imp (fun h h' => h ((hvm x).2 h')) (fun h h' => h ((hvm y).2 h')))
    · intro x hx y hy
      obtain ⟨a, b, hab⟩ := not_fin_exists fr
      have w0 := Relation.composition_wf _ r emptyRel_wf wr
      obtain ⟨fv, fw, fden⟩ := fixpoint_den w0 hf
      obtain ⟨a', b', hab'⟩ := Relation.composition_infty_persists _ r emptyRel_wf wr c (Or.inr ⟨a, b, hab⟩)
      have hm := Relation.mem_of_den_i hab'
      have hx0 : x ∈ (Relation.composition (Relation.new []) r).vars := by rw [← fv, ← e']; exact hx
      have hy0 : y ∈ (Relation.composition (Relation.new []) r).vars := by rw [← fv, ← e']; exact hy
      rw [cden, fden, closure_inf hm.1 hm.2 hab', den_matOf _ _ hx0 hy0]
      rfl

/-! ## counted loops -/

/-- the corrected relation of a counted loop, cell by cell -/
theorem for_cells {r f r' : Relation} {g g' : DG.Graph} {X : String} (wr : r.WF) (hX : X ≠ "")
    (hfresh : X ∉ r.vars)
    (hf : Relation.fixpoint (Relation.composition (Relation.new [X]) r) = .ok f)
    (hl : Relation.loopCorrection f X g = .ok (r', g')) :
    r'.WF ∧ r'.vars = f.vars ∧ f.WF ∧ (∀ v, v ∈ f.vars ↔ v = X ∨ v ∈ r.vars) ∧
    ∀ c, ((∃ a b, r.den c a b = .i) → ∀ x ∈ f.vars, ∀ y ∈ f.vars, r'.den c x y = .i) ∧
      (Fin' r c → Fin' f c ∧ ∀ x y, r'.den c x y = lN f.vars X (f.den c) x y) := by
  obtain ⟨w', hvm, e', fw, H⟩ := for_rel wr hX hfresh hf hl
  have hf0 := hf
  rw [new_single X hX] at hf
  have w1 := zcomp_wf hX wr
  have hmem1 := zcomp_mem hX wr
  obtain ⟨fv, _, fden⟩ := fixpoint_den w1 hf
  have hXf : X ∈ f.vars := by rw [fv]; exact (hmem1 X).2 (Or.inl rfl)
  obtain ⟨hell0, hcol0⟩ := forBody_col_oi hX wr hfresh
  have hell : f.vars.idxOf X = 0 := by rw [fv]; exact hell0
  have hcanon := fixpoint_cells_nza _ f w1 hf
  have hcolf := fixpoint_col_oi _ f w1 0 hcol0 hf
  have hcol : ∀ i, i ≠ f.vars.idxOf X → ∀ m ∈ Matrix.get f.mat i (f.vars.idxOf X), m.scalar ≠ .p := by
    rw [hell]
    intro i hi
    exact OI_ne_p (hcolf i hi)
  have hfmem : ∀ v, v ∈ f.vars ↔ v = X ∨ v ∈ r.vars := fun v => by rw [fv]; exact hmem1 v
  refine ⟨w', e', fw, hfmem, fun c => ?_⟩
  obtain ⟨_, _, C1, C2⟩ := loopCorrection_cells_fine f r' g g' X fw hXf hcanon hcol hl c
  have hcellf : ∀ {x y : String} {i j : Nat}, f.vars.idxOf? x = some i → f.vars.idxOf? y = some j →
      (Matrix.get f.mat i j).evalD c = f.den c x y := fun hx hy => (Relation.den_of_idx hx hy c).symm
  constructor
  · -- the body fails somewhere: everything fails
    rintro ⟨a, b, hab⟩ x hx y hy
    obtain ⟨a', b', hab'⟩ := Relation.composition_infty_persists _ r (zrel_wf X hX) wr c (Or.inr ⟨a, b, hab⟩)
    have hm := Relation.mem_of_den_i hab'
    have hall : ∀ i j, i < f.vars.length → j < f.vars.length → (Matrix.get f.mat i j).evalD c = .i := by
      intro i j hi hj
      have h1 := idx_of_get fw.1 i hi ""
      have h2 := idx_of_get fw.1 j hj ""
      rw [hcellf h1 h2, fden, closure_inf hm.1 hm.2 hab',
        den_matOf _ _ (fv ▸ getD_mem f.vars i "" hi) (fv ▸ getD_mem f.vars j "" hj)]
    rcases idx_cases f.vars x with ⟨h, _⟩ | ⟨_, i, hi, hxi, _⟩
    · exact absurd hx h
    rcases idx_cases f.vars y with ⟨h, _⟩ | ⟨_, j, hj, hyj, _⟩
    · exact absurd hy h
    rw [Relation.den_of_idx (r := r') (e' ▸ hxi) (e' ▸ hyj)]
    exact C1 hall i j hi hj
  · intro fr
    obtain ⟨ff, hcl, _, _⟩ := (H c).2 fr
    refine ⟨ff, ?_⟩
    have hfinc : ∀ i j, (Matrix.get f.mat i j).evalD c ≠ .i := by
      intro i j hij
      by_cases hr : i < f.vars.length ∧ j < f.vars.length
      · have h1 := idx_of_get fw.1 i hr.1 ""
        have h2 := idx_of_get fw.1 j hr.2 ""
        rw [hcellf h1 h2] at hij
        exact ff _ _ hij
      · rw [get_out_of_range (wf_sq fw) hr, evalD_zero] at hij
        cases hij
    have hclf := hcl f.vars fw.1 hXf (fun v hv => (hfmem v).2 (Or.inr hv))
    have hdne : ∀ i, i < f.vars.length → (Matrix.get f.mat i i).evalD c ≠ .o := by
      intro i hi
      have h1 := idx_of_get fw.1 i hi ""
      have hxm := getD_mem f.vars i "" hi
      rw [hcellf h1 h1, ← den_matOf f.vars (f.den c) hxm hxm, ← hclf]
      exact closure_diag_ne_o fw.1 _ hxm
    have C := C2 hfinc hdne
    intro x y
    by_cases hxy : x ∈ f.vars ∧ y ∈ f.vars
    · rcases idx_cases f.vars x with ⟨h, _⟩ | ⟨_, i, hi, hxi, _⟩
      · exact absurd hxy.1 h
      rcases idx_cases f.vars y with ⟨h, _⟩ | ⟨_, j, hj, hyj, _⟩
      · exact absurd hxy.2 h
      rw [Relation.den_of_idx (r := r') (e' ▸ hxi) (e' ▸ hyj), C i j hi hj]
      -- the cell formula on names
      have hdV : ∀ {z w : String} {k l : Nat}, f.vars.idxOf? z = some k → f.vars.idxOf? w = some l →
          dV (fun a b => (Matrix.get f.mat a b).evalD c) k l = dN (f.den c) z w := by
        intro z w k l hz hw
        unfold dV dN
        simp only
        rw [hcellf hz hw]
        by_cases hkl : k = l
        · have : z = w := (idx_eq_iff hz hw).1 hkl
          simp only [hkl, this, true_and]
        · have : z ≠ w := fun e => hkl ((idx_eq_iff hz hw).2 e)
          simp only [hkl, this, false_and]
      have hiff : (i = f.vars.idxOf X ∧ ∃ i', i' < f.vars.length ∧
            dV (fun a b => (Matrix.get f.mat a b).evalD c) i' j = .p)
          ↔ (x = X ∧ ∃ z ∈ f.vars, dN (f.den c) z y = .p) := by
        constructor
        · rintro ⟨h1, i', hi', hp⟩
          refine ⟨?_, f.vars.getD i' "", getD_mem f.vars i' "" hi', ?_⟩
          · rcases idx_cases f.vars X with ⟨h, _⟩ | ⟨_, k, _, hXk, _⟩
            · exact absurd hXf h
            rw [idxOf_eq_of_idx fw.1 hXk] at h1
            exact (idx_eq_iff hxi hXk).1 h1
          · rw [← hdV (idx_of_get fw.1 i' hi' "") hyj]; exact hp
        · rintro ⟨h1, z, hz, hp⟩
          constructor
          · subst h1
            exact (idxOf_eq_of_idx fw.1 hxi).symm
          · rcases idx_cases f.vars z with ⟨h, _⟩ | ⟨_, k, hk, hzk, _⟩
            · exact absurd hz h
            exact ⟨k, hk, by rw [hdV hzk hyj]; exact hp⟩
      unfold lN
      rw [hdV hxi hyj]
      by_cases hc : x = X ∧ ∃ z ∈ f.vars, dN (f.den c) z y = .p
      · rw [if_pos (hiff.2 hc), if_pos hc]
      · rw [if_neg (fun h => hc (hiff.1 h)), if_neg hc]
    · -- outside the variables: identity on both sides
      have hdo : dN (f.den c) x y = idS x y := by
        unfold dN
        rw [den_outside c hxy]
        by_cases hxe : x = y
        · subst hxe; rw [idS_self]; simp
        · simp [hxe]
      unfold lN
      rw [den_outside c (e' ▸ hxy), if_neg, hdo]
      rintro ⟨h1, z, hz, hp⟩
      subst h1
      have hy : y ∉ f.vars := fun hy => hxy ⟨hXf, hy⟩
      have hzy : z ≠ y := fun e => hy (e ▸ hz)
      unfold dN at hp
      rw [if_neg (fun hh => hzy hh.1), Relation.den_of_not_mem_right hy, idS_of_ne hzy] at hp
      cases hp

theorem dN_idS (x y : String) : dN idS x y = idS x y := by
  unfold dN
  by_cases hxe : x = y
  · subst hxe; rw [idS_self]; simp
  · simp [hxe]

theorem dN_of_eq_idS {g : NF} {x y : String} (h : g x y = idS x y) : dN g x y = idS x y := by
  unfold dN
  rw [h]
  by_cases hxe : x = y
  · subst hxe; rw [idS_self]; simp
  · simp [hxe]

theorem idS_ne_p (x y : String) : idS x y ≠ .p := by unfold idS; split <;> simp

theorem Supp.mono {U vs vs' : List String} {g : NF} (h : Supp U vs g) (hsub : ∀ v ∈ vs, v ∈ vs') :
    Supp U vs' g :=
  fun x hx y hy hxy => h x hx y hy (hxy.imp (fun h1 h2 => h1 (hsub x h2)) (fun h1 h2 => h1 (hsub y h2)))

theorem lN_supp {U vs : List String} {X : String} (hX : X ∈ vs) {g : NF} (h : Supp U vs g) :
    Supp U vs (lN U X g) := by
  intro x hx y hy hxy
  unfold lN
  rw [if_neg, dN_of_eq_idS (h x hx y hy hxy)]
  rintro ⟨h1, z, hz, hp⟩
  subst h1
  have hyv : y ∉ vs := hxy.resolve_left (fun h' => h' hX)
  rw [dN_of_eq_idS (h z hz y hy (Or.inr hyv))] at hp
  exact idS_ne_p z y hp

theorem CInv.for_ {U : List String} (hU : U.Nodup) {r f r' : Relation} {g0 g' : DG.Graph} {c : Choice}
    {X : String} {gb : NF} (wr : r.WF) (sr : ∀ v ∈ r.vars, v ∈ U) (hXU : X ∈ U) (hX : X ≠ "")
    (hfresh : X ∉ r.vars) (hb : CInv U r c gb)
    (hf : Relation.fixpoint (Relation.composition (Relation.new [X]) r) = .ok f)
    (hl : Relation.loopCorrection f X g0 = .ok (r', g')) :
    ∃ gL, lInf (Spec.idxOf U X) (closureP (matOf U gb)) = matOf U gL ∧ CInv U r' c gL := by
  obtain ⟨w', e', fw, hfmem, HC⟩ := for_cells wr hX hfresh hf hl
  obtain ⟨_, _, _, _, H⟩ := for_rel wr hX hfresh hf hl
  obtain ⟨hinf, hfin⟩ := HC c
  have hfU : ∀ v ∈ f.vars, v ∈ U := by
    intro v hv
    rcases (hfmem v).1 hv with h | h
    · exact h ▸ hXU
    · exact sr v h
  have hXf : X ∈ f.vars := (hfmem X).2 (Or.inl rfl)
  by_cases fr : Fin' r c
  · obtain ⟨ff, hden⟩ := hfin fr
    obtain ⟨_, hcl, _, _⟩ := (H c).2 fr
    have eb : ∀ x ∈ U, ∀ y ∈ U, r.den c x y = gb x y :=
      fun x hx y hy => hb.colEq y hy (fun x' _ => fr x' y) x hx
    have e1 : matOf U gb = matOf U (r.den c) := matOf_congr (fun x hx y hy => (eb x hx y hy).symm)
    refine ⟨lN U X (f.den c), ?_, CInv.of_eq (fun x _ y _ => ?_)⟩
    · rw [e1, closureP_eq_closure hU (fun x _ y _ => fr x y), hcl U hU hXU sr, lInf_matOf hU hXU]
    · rw [hden]
      unfold lN
      have hiff : (∃ z ∈ f.vars, dN (f.den c) z y = .p) ↔ (∃ z ∈ U, dN (f.den c) z y = .p) := by
        constructor
        · rintro ⟨z, hz, hp⟩; exact ⟨z, hfU z hz, hp⟩
        · rintro ⟨z, hz, hp⟩
          refine ⟨z, ?_, hp⟩
          apply Classical.byContradiction
          intro hzf
          rw [dN_of_eq_idS (Relation.den_of_not_mem_left hzf c y)] at hp
          exact idS_ne_p z y hp
      by_cases hc : x = X ∧ ∃ z ∈ U, dN (f.den c) z y = .p
      · rw [if_pos hc, if_pos ⟨hc.1, hiff.2 hc.2⟩]
      · rw [if_neg hc, if_neg (fun h => hc ⟨h.1, hiff.1 h.2⟩)]
  · have hs0 : Supp U f.vars gb := hb.supp.mono (fun v hv => (hfmem v).2 (Or.inr hv))
    obtain ⟨s', hs', hsupp⟩ := closureP_supp (vs := f.vars) hU hs0
    refine ⟨lN U X s', by rw [hs', lInf_matOf hU hXU], CInv.of_allInf ?_ ?_⟩
    · rw [e']; exact lN_supp hXf hsupp
    · rw [e']; exact hinf (not_fin_exists fr)

end LoopSound
end Mwp
