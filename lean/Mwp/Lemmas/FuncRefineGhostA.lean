/-
  Ghost histories with well-formed tuples, part A: the two insertion lemmas
  (`while_correction`, `loop_correction`) strengthened -- for the SAME list of inserted tuples --
  with the fact that every tuple is the delta list of a monomial of the corrected matrix, hence a
  `WFTuple` as soon as the delta values of that matrix are in the choice domain.
-/
import Mwp.Lemmas.RefineLoops
import Mwp.Lemmas.FuncRefineDelta
import Mwp.Props.C11
namespace Mwp
namespace Refine
open Mwp.Props.C16 Mwp.Lemmas.Poly Spec RelFix Mwp.Props.C11

/-- delta values in the choice domain -/
def DeltaLt3 (d : Delta) : Prop := d.1 < 3

theorem wfTuple_of_mono {m : Mono} (hw : m.WF = true) (hv : ∀ d ∈ m.deltas, DeltaLt3 d) :
    WFTuple m.deltas :=
  ⟨hw, hv⟩

theorem wfTuple_of_cell {p : Poly} {m : Mono} (hp : p.WF = true) (hv : AllD DeltaLt3 p) (hm : m ∈ p) :
    WFTuple m.deltas :=
  wfTuple_of_mono ((WF_iff p).1 hp m hm) (hv m hm)

/-! ## `while_correction` -/

theorem whileCorrection_inserted' (r r' : Relation) (g g' : DG.Graph)
    (hw : Relation.whileCorrection r g = .ok (r', g')) :
    ∃ ts : List DG.Node, (ts.foldlM DG.insertNode g = .ok g') ∧
      (∀ t ∈ ts, ∀ c : Choice, matchesT t c = true →
        ∃ i j, (Matrix.get r'.mat i j).evalD c = .i) ∧
      (∀ t ∈ ts, ∃ row ∈ r.mat, ∃ p ∈ row, ∃ m ∈ p, t = m.deltas) := by
  obtain ⟨e, hg⟩ := whileCorrection_spec r r' g g' hw
  subst e
  refine ⟨wNodes r.mat, hg, ?_, ?_⟩
  · intro t ht c hc
    simp only [wNodes, List.mem_flatMap] at ht
    obtain ⟨⟨row, i⟩, hri, ⟨p, j⟩, hpj, m, hm, htm⟩ := ht
    simp only at hpj hm htm
    unfold wnu at htm
    split at htm
    · rename_i hpred
      simp only [List.mem_singleton] at htm
      subst htm
      refine ⟨i, j, ?_⟩
      show (Matrix.get (wMat r.mat) i j).evalD c = .i
      have hrow : r.mat[i]? = some row := List.mem_zipIdx_iff_getElem?.1 hri
      have hp : row[j]? = some p := List.mem_zipIdx_iff_getElem?.1 hpj
      have hget : Matrix.get r.mat i j = p := by
        unfold Matrix.get
        simp only [List.getD_eq_getElem?_getD, hrow, hp, Option.getD_some]
      rw [get_wMat, hget]
      apply evalD_eq_i_of_mem (m := wfix (i == j) m) (List.mem_map.2 ⟨m, hm, rfl⟩)
      · rw [wfix_matches]; exact hc
      · unfold wfix; rw [if_pos hpred]
    · cases htm
  · intro t ht
    simp only [wNodes, List.mem_flatMap] at ht
    obtain ⟨⟨row, i⟩, hri, ⟨p, j⟩, hpj, m, hm, htm⟩ := ht
    simp only at hpj hm htm
    have hrow : r.mat[i]? = some row := List.mem_zipIdx_iff_getElem?.1 hri
    have hp : row[j]? = some p := List.mem_zipIdx_iff_getElem?.1 hpj
    refine ⟨row, List.mem_of_getElem? hrow, p, List.mem_of_getElem? hp, m, hm, ?_⟩
    unfold wnu at htm
    split at htm
    · exact List.mem_singleton.1 htm
    · cases htm

/-- `while_correction` on a well-formed relation with delta values in the choice domain only hands
    well-formed tuples to the delta graph -/
theorem whileCorrection_insertedW (r r' : Relation) (g g' : DG.Graph) (h : r.WF)
    (hv : ∀ row ∈ r.mat, ∀ p ∈ row, ∀ m ∈ p, ∀ d ∈ m.deltas, d.1 < 3)
    (hw : Relation.whileCorrection r g = .ok (r', g')) :
    ∃ ts : List DG.Node, (ts.foldlM DG.insertNode g = .ok g') ∧
      (∀ t ∈ ts, ∀ c : Choice, matchesT t c = true →
        ∃ i j, (Matrix.get r'.mat i j).evalD c = .i) ∧
      (∀ t ∈ ts, WFTuple t) := by
  obtain ⟨ts, h1, h2, h3⟩ := whileCorrection_inserted' r r' g g' hw
  refine ⟨ts, h1, h2, ?_⟩
  intro t ht
  obtain ⟨row, hrow, p, hp, m, hm, rfl⟩ := h3 t ht
  exact wfTuple_of_mono ((WF_iff p).1 (h.2.2.2.2 row hrow p hp) m hm) (hv row hrow p hp m hm)

/-! ## `loop_correction` -/

theorem walk_insertedW {n ell : Nat} (hell : ell < n) (g0 : DG.Graph) :
    ∀ (cells : List (Nat × Nat)), (∀ x ∈ cells, x.1 < n ∧ x.2 < n) →
    ∀ (mat : Matrix) (g : DG.Graph) (res : Matrix × DG.Graph) (ts : List DG.Node),
      RelFix.Sq n mat → MatD DeltaLt3 mat → ts.foldlM DG.insertNode g0 = .ok g →
      (∀ t ∈ ts, ∀ c, matchesT t c = true → ∃ a b, (Matrix.get mat a b).evalD c = .i) →
      (∀ t ∈ ts, WFTuple t) →
      cells.foldlM (loopStep ell) (mat, g) = .ok res →
      RelFix.Sq n res.1 ∧ ∃ ts' : List DG.Node, ts'.foldlM DG.insertNode g0 = .ok res.2 ∧
        (∀ t ∈ ts', ∀ c, matchesT t c = true → ∃ a b, (Matrix.get res.1 a b).evalD c = .i) ∧
        (∀ t ∈ ts', WFTuple t) := by
  intro cells
  induction cells with
  | nil =>
    intro _ mat g res ts hs _ hg hts hwt h
    rw [List.foldlM_nil] at h
    cases h
    exact ⟨hs, ts, hg, hts, hwt⟩
  | cons x t ih =>
    intro hr mat g res ts hs hd hg hts hwt h
    rw [List.foldlM_cons] at h
    obtain ⟨⟨mat1, g1⟩, h1, h2⟩ := bind_ok h
    obtain ⟨i, j⟩ := x
    obtain ⟨hi, hj⟩ := hr (i, j) (List.mem_cons_self ..)
    obtain ⟨s1, s2, s3⟩ := loopStep_spec hs hi hj hell g (mat1, g1) h1
    have hd1 : MatD DeltaLt3 mat1 := loopStep_MatD ell (i, j) hd h1
    simp only at s1 s2 s3
    apply ih (fun y hy => hr y (List.mem_cons_of_mem _ hy)) mat1 g1 res (ts ++ stepNodes mat i j) s1 hd1
      (by rw [List.foldlM_append, hg]; exact s3) ?_ ?_ h2
    · intro t' ht' c hc
      rcases List.mem_append.1 ht' with hA | hB
      · obtain ⟨a, b, hab⟩ := hts t' hA c hc
        exact ⟨a, b, by rw [s2]; exact stepCell_infty hs i j a b c hab⟩
      · unfold stepNodes at hB
        split at hB
        · rename_i hij
          subst hij
          obtain ⟨m, hm, hmt⟩ := List.mem_flatMap.1 hB
          unfold lnu at hmt
          split at hmt
          · rename_i hp
            rw [List.mem_singleton] at hmt
            subst hmt
            refine ⟨i, i, ?_⟩
            rw [s2, stepCell, if_pos ⟨rfl, rfl, rfl⟩]
            apply evalD_eq_i_of_mem (m := lfix true m) (List.mem_map.2 ⟨m, hm, rfl⟩)
            · rw [lfix_matches]; exact hc
            · unfold lfix; rw [if_pos hp]
          · cases hmt
        · cases hB
    · intro t' ht'
      rcases List.mem_append.1 ht' with hA | hB
      · exact hwt t' hA
      · unfold stepNodes at hB
        split at hB
        · obtain ⟨m, hm, hmt⟩ := List.mem_flatMap.1 hB
          unfold lnu at hmt
          split at hmt
          · rw [List.mem_singleton] at hmt
            subst hmt
            exact wfTuple_of_cell (hs.get_wf i i) (hd i i) hm
          · cases hmt
        · cases hB

/-- `loop_correction` on a well-formed relation with delta values in the choice domain only hands
    well-formed tuples to the delta graph -/
theorem loopCorrection_inserted' (r r' : Relation) (g g' : DG.Graph) (x : String)
    (h : r.WF) (hv : ∀ row ∈ r.mat, ∀ p ∈ row, ∀ m ∈ p, ∀ d ∈ m.deltas, d.1 < 3)
    (hl : Relation.loopCorrection r x g = .ok (r', g')) :
    ∃ ts : List DG.Node, (ts.foldlM DG.insertNode g = .ok g') ∧
      (∀ t ∈ ts, ∀ c : Choice, matchesT t c = true →
        ∃ i j, (Matrix.get r'.mat i j).evalD c = .i) ∧
      (∀ t ∈ ts, WFTuple t) := by
  obtain ⟨mat', hx, e, hwalk⟩ := loopCorrection_walk r r' g g' x hl
  subst e
  have hell : r.vars.idxOf x < r.vars.length := List.idxOf_lt_length_of_mem hx
  have hsq := wf_sq h
  have hd : MatD DeltaLt3 r.mat := matD_iff_mem.2 hv
  obtain ⟨_, ts, h1, h2, h3⟩ := walk_insertedW hell g (loopCells r.mat)
    (fun y hy => (mem_loopCells hsq y.1 y.2).1 hy) r.mat g (mat', g') [] hsq hd rfl
    (fun t ht => by cases ht) (fun t ht => by cases ht) hwalk
  exact ⟨ts, h1, h2, h3⟩

end Refine
end Mwp
