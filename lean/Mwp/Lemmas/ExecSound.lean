/-
  ExecSound, part 5: soundness of the flow calculus for the SHAPE of exact final values.
  Executing a command whose derived matrix is `M` from a store that respects `F` ends in a store
  that respects `F ⊗ M` (`exec_inv`), by induction on the fuel of `exec`; from the initial store
  (every variable holds itself, which respects the identity) this gives `Shape` of every final
  value against the column of `M` (`exec_shape`).
-/
import Mwp.Lemmas.ExecSoundInv
import Mwp.Lemmas.ExecSoundGood
namespace Mwp.Spec
open Mwp

def Atom.vars' : Atom → List Var
  | .var y => [y]
  | .const => []

mutual
/-- the variables a command mentions (loop guards included) -/
def Cmd.vars' : Cmd → List Var
  | .skip => []
  | .asgnVar x y => [x, y]
  | .asgnConst x => [x]
  | .bin _ x a b => x :: (a.vars' ++ b.vars')
  | .seq l => varsL' l
  | .ite t f => t.vars' ++ f.vars'
  | .while_ b => b.vars'
  | .loop X b => X :: b.vars'
def varsL' : List Cmd → List Var
  | [] => []
  | c :: cs => c.vars' ++ varsL' cs
end

mutual
/-- in every counted loop `loop X b` the guard `X` does not occur in the body -/
def loopGuardsFresh : Cmd → Bool
  | .seq l => loopGuardsFreshL l
  | .ite t f => loopGuardsFresh t && loopGuardsFresh f
  | .while_ b => loopGuardsFresh b
  | .loop X b => !(b.vars'.contains X) && loopGuardsFresh b
  | _ => true
def loopGuardsFreshL : List Cmd → Bool
  | [] => true
  | c :: cs => loopGuardsFresh c && loopGuardsFreshL cs
end

/-- the bound triple read off column `x` of a derived matrix: rows with entry `s` -/
def colS (s : Scalar) (U : List Var) (M : SMat) (x : Var) : List Var :=
  (U.zipIdx.filter fun (_, i) => SMat.get M i (idxOf U x) == s).map (·.1)

def colM (U : List Var) (M : SMat) (x : Var) : List Var :=
  (U.zipIdx.filter fun (_, i) => SMat.get M i (idxOf U x) == .m).map (·.1)
def colW (U : List Var) (M : SMat) (x : Var) : List Var :=
  (U.zipIdx.filter fun (_, i) => SMat.get M i (idxOf U x) == .w).map (·.1)
def colP (U : List Var) (M : SMat) (x : Var) : List Var :=
  (U.zipIdx.filter fun (_, i) => SMat.get M i (idxOf U x) == .p).map (·.1)

namespace ExecSound

theorem operandFlow_ne_i (op : String) (a b : Atom) (alt : Nat) (v : Var) :
    operandFlow op a b alt v ≠ .i := by
  unfold operandFlow
  cases a <;> cases b <;> simp only <;> (repeat' split) <;> decide

theorem sem_length {U : List Var} {cmd : Cmd} {idx : Nat} {c : Choice} {k : Nat} {M : SMat}
    (h : sem U cmd idx c = some (k, M)) : M.length = U.length :=
  (sem_noInf U cmd idx c k M h).1

theorem semSeq_length {U : List Var} {l : List Cmd} {idx : Nat} {c : Choice} {k : Nat} {M : SMat}
    (h : semSeq U l idx c = some (k, M)) : M.length = U.length := by
  have : sem U (.seq l) idx c = some (k, M) := by rw [sem]; exact h
  exact sem_length this

/-! ## leaves -/

theorem inv_asgnVar {U : List Var} {σ : Store} {F : SF} {x y : Var} (hx : x ∈ U) (hy : y ∈ U)
    (hI : Inv U σ F) :
    Inv U (σ.set x (σ.get y)) (fmul U.length F (SMat.get
      (SMat.setColumn (SMat.identity U.length) (idxOf U x) (U.map fun v => if v == y then .m else .o)))) := by
  apply inv_setColumn hx (fun v => if v == y then Scalar.m else Scalar.o) _ _ hI
  · intro h hh
    apply (hI y hy).scale_m
    intro v
    have := hh y hy v
    simpa using this
  · intro k; split <;> decide

theorem inv_bin_add {U : List Var} {σ : Store} {F : SF} {x y z : Var} {alt : Nat} (halt : ¬ alt > 2)
    (hx : x ∈ U) (hy : y ∈ U) (hz : z ∈ U) (hI : Inv U σ F) :
    Inv U (σ.set x (addP (σ.get y) (σ.get z))) (fmul U.length F (SMat.get
      (SMat.setColumn (SMat.identity U.length) (idxOf U x)
        (U.map fun v => operandFlow "+" (.var y) (.var z) alt v)))) := by
  apply inv_setColumn hx (fun v => operandFlow "+" (.var y) (.var z) alt v)
    (fun k => operandFlow_ne_i _ _ _ _ k) _ hI
  intro h hh
  have hy' := hh y hy
  have hz' := hh z hz
  have hstar : ("+" == "*") = false := by decide
  unfold addP
  by_cases hyz : y = z
  · subst hyz
    have hs : 2 ≤ (operandFlow "+" (.var y) (.var y) alt y).rank := by
      simp only [operandFlow, hstar, beq_self_eq_true, if_true, Bool.false_eq_true, if_false]
      split <;> decide
    have := (hI y hy).scale_w hs hy'
    exact Or.inl (this.append this)
  · have hyz' : (y == z) = false := beq_eq_false_iff_ne.2 hyz
    have hzy' : (z == y) = false := beq_eq_false_iff_ne.2 (fun e => hyz e.symm)
    by_cases h0 : alt = 0
    · subst h0
      have ey : operandFlow "+" (.var y) (.var z) 0 y = .m := by
        simp [operandFlow, hyz']
      have ez : operandFlow "+" (.var y) (.var z) 0 z = .p := by
        simp [operandFlow, hyz', hzy']
      rw [ey] at hy'; rw [ez] at hz'
      exact ((hI y hy).scale_m hy').append_right ((hI z hz).scale_p (by decide) hz')
    · by_cases h1 : alt = 1
      · subst h1
        have ey : operandFlow "+" (.var y) (.var z) 1 y = .p := by
          simp [operandFlow, hyz']
        have ez : operandFlow "+" (.var y) (.var z) 1 z = .m := by
          simp [operandFlow, hyz', hzy']
        rw [ey] at hy'; rw [ez] at hz'
        exact ((hI z hz).scale_m hz').append_left ((hI y hy).scale_p (by decide) hy')
      · have ey : operandFlow "+" (.var y) (.var z) alt y = .w := by
          simp [operandFlow, hyz', h0, h1]
        have ez : operandFlow "+" (.var y) (.var z) alt z = .w := by
          simp [operandFlow, hyz', h0, h1]
        rw [ey] at hy'; rw [ez] at hz'
        exact Or.inl (((hI y hy).scale_w (by decide) hy').append ((hI z hz).scale_w (by decide) hz'))

theorem inv_bin_mul {U : List Var} {σ : Store} {F : SF} {x y z : Var} {alt : Nat}
    (hx : x ∈ U) (hy : y ∈ U) (hz : z ∈ U) (hI : Inv U σ F) :
    Inv U (σ.set x (mulP' (σ.get y) (σ.get z))) (fmul U.length F (SMat.get
      (SMat.setColumn (SMat.identity U.length) (idxOf U x)
        (U.map fun v => operandFlow "*" (.var y) (.var z) alt v)))) := by
  apply inv_setColumn hx (fun v => operandFlow "*" (.var y) (.var z) alt v)
    (fun k => operandFlow_ne_i _ _ _ _ k) _ hI
  intro h hh
  have hy' := hh y hy
  have hz' := hh z hz
  have ey : operandFlow "*" (.var y) (.var z) alt y = .w := by simp [operandFlow]
  have ez : operandFlow "*" (.var y) (.var z) alt z = .w := by simp [operandFlow]
  rw [ey] at hy'; rw [ez] at hz'
  exact Or.inl (((hI y hy).scale_w (by decide) hy').mulP ((hI z hz).scale_w (by decide) hz'))

/-! ## the induction -/

/-- Executing from a store that respects `F` ends in a store that respects `F ⊗ M`. -/
theorem exec_inv (U : List Var) : ∀ fuel : Nat,
    (∀ (cmd : Cmd) (path : Path) (σ : Store) (p' : Path) (σ' : Store) (idx : Nat) (c : Choice)
        (k : Nat) (M : SMat) (F : SF), (∀ v ∈ cmd.vars', v ∈ U) → sem U cmd idx c = some (k, M) →
        exec fuel cmd path σ = some (p', σ') → Inv U σ F →
        Inv U σ' (fmul U.length F (SMat.get M))) ∧
    (∀ (l : List Cmd) (path : Path) (σ : Store) (p' : Path) (σ' : Store) (idx : Nat) (c : Choice)
        (k : Nat) (M : SMat) (F : SF), (∀ v ∈ varsL' l, v ∈ U) → semSeq U l idx c = some (k, M) →
        execSeq fuel l path σ = some (p', σ') → Inv U σ F →
        Inv U σ' (fmul U.length F (SMat.get M))) ∧
    (∀ (b : Cmd) (cnt : Nat) (path : Path) (σ : Store) (p' : Path) (σ' : Store) (idx : Nat)
        (c : Choice) (k : Nat) (a : SMat) (F : SF), (∀ v ∈ b.vars', v ∈ U) →
        sem U b idx c = some (k, a) → execIter fuel b cnt path σ = some (p', σ') → Inv U σ F →
        Inv U σ' (fmul U.length F (SMat.get (SMat.closure a))))
  | 0 => by
    refine ⟨?_, ?_, ?_⟩
    · intro cmd path σ p' σ' idx c k M F _ _ he _; simp [exec] at he
    · intro l path σ p' σ' idx c k M F _ _ he _; simp [execSeq] at he
    · intro b cnt path σ p' σ' idx c k a F _ _ he _; simp [execIter] at he
  | fuel + 1 => by
    obtain ⟨ih1, ih2, ih3⟩ := exec_inv U fuel
    refine ⟨?_, ?_, ?_⟩
    · intro cmd path σ p' σ' idx c k M F hv hs he hI
      cases cmd with
      | skip =>
        simp only [sem, Option.some.injEq, Prod.mk.injEq] at hs
        simp only [exec, Option.some.injEq, Prod.mk.injEq] at he
        obtain ⟨_, rfl⟩ := hs
        obtain ⟨_, rfl⟩ := he
        exact inv_identity hI
      | asgnVar x y =>
        have hx : x ∈ U := hv x (by simp [Cmd.vars'])
        have hy : y ∈ U := hv y (by simp [Cmd.vars'])
        simp only [exec, Option.some.injEq, Prod.mk.injEq] at he
        obtain ⟨_, rfl⟩ := he
        simp only [sem] at hs
        split at hs
        · rename_i hxy
          have hxy : x = y := eq_of_beq hxy
          simp only [Option.some.injEq, Prod.mk.injEq] at hs
          obtain ⟨_, rfl⟩ := hs
          apply (inv_identity hI).congr
          intro u
          rw [get_set, hxy]
          split
          · rename_i e; rw [e]
          · rfl
        · simp only [Option.some.injEq, Prod.mk.injEq] at hs
          obtain ⟨_, rfl⟩ := hs
          exact inv_asgnVar hx hy hI
      | asgnConst x => simp [exec] at he
      | bin op x a b =>
        have hx : x ∈ U := hv x (by simp [Cmd.vars'])
        simp only [sem] at hs
        split at hs
        · cases hs
        · rename_i alt _
          split at hs
          · cases hs
          · rename_i halt
            simp only [Option.some.injEq, Prod.mk.injEq] at hs
            obtain ⟨_, rfl⟩ := hs
            cases a with
            | const => simp [exec, atomVal] at he
            | var y =>
              cases b with
              | const => simp [exec, atomVal] at he
              | var z =>
                have hy : y ∈ U := hv y (by simp [Cmd.vars', Atom.vars'])
                have hz : z ∈ U := hv z (by simp [Cmd.vars', Atom.vars'])
                simp only [exec, atomVal] at he
                split at he
                · rename_i hop
                  have hop : op = "+" := eq_of_beq hop
                  subst hop
                  simp only [Option.some.injEq, Prod.mk.injEq] at he
                  obtain ⟨_, rfl⟩ := he
                  exact inv_bin_add halt hx hy hz hI
                · split at he
                  · rename_i hop
                    have hop : op = "*" := eq_of_beq hop
                    subst hop
                    simp only [Option.some.injEq, Prod.mk.injEq] at he
                    obtain ⟨_, rfl⟩ := he
                    exact inv_bin_mul hx hy hz hI
                  · cases he
      | seq l =>
        simp only [sem] at hs
        simp only [exec] at he
        exact ih2 l path σ p' σ' idx c k M F (by simpa [Cmd.vars'] using hv) hs he hI
      | ite t f =>
        have hvt : ∀ v ∈ t.vars', v ∈ U := fun v h => hv v (by simp [Cmd.vars', h])
        have hvf : ∀ v ∈ f.vars', v ∈ U := fun v h => hv v (by simp [Cmd.vars', h])
        simp only [sem] at hs
        split at hs
        · cases hs
        · rename_i i1 a h1
          split at hs
          · cases hs
          · rename_i i2 b h2
            simp only [Option.some.injEq, Prod.mk.injEq] at hs
            obtain ⟨_, rfl⟩ := hs
            cases path with
            | nil => simp [exec] at he
            | cons d p1 =>
              simp only [exec] at he
              split at he
              · exact inv_add_right b (sem_length h1) (ih1 f p1 σ p' σ' i1 c i2 b F hvf h2 he hI)
              · exact inv_add_left b (sem_length h1) (ih1 t p1 σ p' σ' idx c i1 a F hvt h1 he hI)
      | while_ b =>
        have hvb : ∀ v ∈ b.vars', v ∈ U := fun v h => hv v (by simpa [Cmd.vars'] using h)
        simp only [sem] at hs
        split at hs
        · cases hs
        · rename_i i1 a h1
          split at hs
          · cases hs
          · simp only [Option.some.injEq, Prod.mk.injEq] at hs
            obtain ⟨_, rfl⟩ := hs
            cases path with
            | nil => simp [exec] at he
            | cons n p1 =>
              simp only [exec] at he
              exact ih3 b n p1 σ p' σ' idx c i1 a F hvb h1 he hI
      | loop X b =>
        have hvb : ∀ v ∈ b.vars', v ∈ U := fun v h => hv v (by simp [Cmd.vars', h])
        simp only [sem] at hs
        split at hs
        · cases hs
        · rename_i i1 a h1
          split at hs
          · cases hs
          · simp only [Option.some.injEq, Prod.mk.injEq] at hs
            obtain ⟨_, rfl⟩ := hs
            cases path with
            | nil => simp [exec] at he
            | cons n p1 =>
              simp only [exec] at he
              exact inv_loopFix (idxOf U X)
                (fun j => (List.range U.length).any fun i' => SMat.get (SMat.closure a) i' j == .p)
                (ih3 b n p1 σ p' σ' idx c i1 a F hvb h1 he hI)
    · intro l path σ p' σ' idx c k M F hv hs he hI
      cases l with
      | nil =>
        simp only [semSeq, Option.some.injEq, Prod.mk.injEq] at hs
        simp only [execSeq, Option.some.injEq, Prod.mk.injEq] at he
        obtain ⟨_, rfl⟩ := hs
        obtain ⟨_, rfl⟩ := he
        exact inv_identity hI
      | cons cmd cs =>
        have hvc : ∀ v ∈ cmd.vars', v ∈ U := fun v h => hv v (by simp [varsL', h])
        have hvs : ∀ v ∈ varsL' cs, v ∈ U := fun v h => hv v (by simp [varsL', h])
        simp only [semSeq] at hs
        split at hs
        · cases hs
        · rename_i i1 a h1
          split at hs
          · cases hs
          · rename_i i2 b h2
            simp only [Option.some.injEq, Prod.mk.injEq] at hs
            obtain ⟨_, rfl⟩ := hs
            simp only [execSeq] at he
            split at he
            · cases he
            · rename_i p1 σ1 he1
              have hI1 := ih1 cmd path σ p1 σ1 idx c i1 a F hvc h1 he1 hI
              exact inv_mul b (sem_length h1) (ih2 cs p1 σ1 p' σ' i1 c i2 b _ hvs h2 he hI1)
    · intro b cnt path σ p' σ' idx c k a F hv hs he hI
      cases cnt with
      | zero =>
        simp only [execIter, Option.some.injEq, Prod.mk.injEq] at he
        obtain ⟨_, rfl⟩ := he
        exact inv_closure_base (sem_length hs) hI
      | succ n =>
        simp only [execIter] at he
        split at he
        · cases he
        · rename_i p1 σ1 he1
          have hI1 := ih1 b path σ p1 σ1 idx c k a F hv hs he1 hI
          exact inv_closure_step (sem_length hs) (ih3 b n p1 σ1 p' σ' idx c k a _ hv hs he hI1)

/-! ## reading the triple off the matrix -/

theorem mem_colS {U : List Var} (hU : U.Nodup) (s : Scalar) (M : SMat) (x v : Var) :
    v ∈ colS s U M x ↔ v ∈ U ∧ SMat.get M (idxOf U v) (idxOf U x) = s := by
  unfold colS
  simp only [List.mem_map, List.mem_filter, beq_iff_eq, Prod.exists, exists_and_right, exists_eq_right]
  constructor
  · rintro ⟨i, hmem, hg⟩
    have h := List.mem_zipIdx_iff_getElem?.1 hmem
    have hi := idxOf_getElem hU h
    exact ⟨List.mem_of_getElem? h, by rw [hi]; exact hg⟩
  · rintro ⟨hv, hg⟩
    exact ⟨idxOf U v, List.mem_zipIdx_iff_getElem?.2 (getElem?_idxOf hv), hg⟩

theorem contains_colS_iff {U : List Var} (hU : U.Nodup) {s : Scalar} (hs : s ≠ .o) (M : SMat) (x v : Var) :
    (colS s U M x).contains v = true ↔ colFn U (SMat.get M) x v = s := by
  rw [List.contains_iff_mem, mem_colS hU]
  unfold colFn
  constructor
  · rintro ⟨hv, hg⟩; rw [if_pos hv]; exact hg
  · intro h
    split at h
    · rename_i hv; exact ⟨hv, h⟩
    · exact absurd h.symm hs

/-- Soundness for shapes (no hypothesis on loop guards is needed). -/
theorem exec_shape (U : List Var) (hU : U.Nodup) (cmd : Cmd) (hv : ∀ v ∈ cmd.vars', v ∈ U)
    (c : Choice) (k : Nat) (M : SMat) (hs : sem U cmd 0 c = some (k, M))
    (fuel : Nat) (path p' : Path) (σ : Store) (he : exec fuel cmd path [] = some (p', σ)) :
    ∀ x ∈ U, Shape (σ.get x) (colM U M x) (colW U M x) (colP U M x) = true := by
  have hI := (exec_inv U fuel).1 cmd path [] p' σ 0 c k M fI hv hs he (inv_nil U)
  have hgood := sem_noInf U cmd 0 c k M hs
  have hI' : Inv U σ (SMat.get M) := hI.mono (fmul_fI_left_le fun i hi j hj => hgood.ne_i hi hj)
  intro x hx
  apply shape_of_bnd (f := colFn U (SMat.get M) x) _ _ _ _ (hI' x hx)
  · exact contains_colS_iff hU (by decide) M x
  · exact contains_colS_iff hU (by decide) M x
  · exact contains_colS_iff hU (by decide) M x
  · intro v
    unfold colFn
    split
    · rename_i hv; exact hgood.ne_i (idxOf_lt hv) (idxOf_lt hx)
    · decide

end ExecSound

/-- the store `σ` respects the matrix `A`: the value of every variable has the shape its column
    prescribes -/
def Respects (U : List Var) (σ : Store) (A : SMat) : Prop :=
  ∀ x ∈ U, Shape (σ.get x) (colM U A x) (colW U A x) (colP U A x) = true

namespace ExecSound

theorem inv_of_respects {U : List Var} (hU : U.Nodup) {σ : Store} {A : SMat} (h : Respects U σ A) :
    Inv U σ (SMat.get A) := fun x hx =>
  bnd_of_shape (contains_colS_iff hU (by decide) A x) (contains_colS_iff hU (by decide) A x)
    (contains_colS_iff hU (by decide) A x) (h x hx)

theorem respects_of_inv {U : List Var} (hU : U.Nodup) {σ : Store} {A : SMat} (hA : NoInf U.length A)
    (h : Inv U σ (SMat.get A)) : Respects U σ A := by
  intro x hx
  apply shape_of_bnd (f := colFn U (SMat.get A) x) _ _ _ _ (h x hx)
  · exact contains_colS_iff hU (by decide) A x
  · exact contains_colS_iff hU (by decide) A x
  · exact contains_colS_iff hU (by decide) A x
  · intro v
    unfold colFn
    split
    · rename_i hv; exact hA.ne_i (idxOf_lt hv) (idxOf_lt hx)
    · decide

/-- Composition: from a store that respects `A`, a command with derived matrix `M` leads to a
    store that respects `A ⊗ M`. -/
theorem exec_respects_mul (U : List Var) (hU : U.Nodup) (cmd : Cmd) (hv : ∀ v ∈ cmd.vars', v ∈ U)
    (idx : Nat) (c : Choice) (k : Nat) (M : SMat) (hs : sem U cmd idx c = some (k, M))
    (fuel : Nat) (path p' : Path) (σ σ' : Store) (he : exec fuel cmd path σ = some (p', σ'))
    (A : SMat) (hA : A.length = U.length)
    (hAfin : ∀ i, i < U.length → ∀ j, j < U.length → SMat.get A i j ≠ .i)
    (hR : Respects U σ A) : Respects U σ' (SMat.mul A M) := by
  have hAn : NoInf U.length A := ⟨hA, fun i hi j hj => by
    have := hAfin i hi j hj
    revert this
    cases SMat.get A i j <;> simp [Scalar.rank]⟩
  have hI := (exec_inv U fuel).1 cmd path σ p' σ' idx c k M _ hv hs he (inv_of_respects hU hR)
  apply respects_of_inv hU (noInf_mul hAn (sem_noInf U cmd idx c k M hs))
  apply hI.mono
  apply fle_of_eq
  intro i hi j hj
  rw [get_mul M (by rw [hA]; exact hi) (by rw [hA]; exact hj), hA]

end ExecSound

/-! ## fragments (for the staged statements) -/

/-- a single skip / copy / assignment -/
def Cmd.isLeaf : Cmd → Bool
  | .skip => true
  | .asgnVar .. => true
  | .asgnConst _ => true
  | .bin .. => true
  | _ => false

mutual
/-- leaves and sequences -/
def Cmd.straightLine : Cmd → Bool
  | .seq l => straightLineL l
  | .ite .. => false
  | .while_ _ => false
  | .loop .. => false
  | _ => true
def straightLineL : List Cmd → Bool
  | [] => true
  | c :: cs => c.straightLine && straightLineL cs
end

mutual
/-- leaves, sequences and if/else -/
def Cmd.noLoops : Cmd → Bool
  | .seq l => noLoopsL l
  | .ite t f => t.noLoops && f.noLoops
  | .while_ _ => false
  | .loop .. => false
  | _ => true
def noLoopsL : List Cmd → Bool
  | [] => true
  | c :: cs => c.noLoops && noLoopsL cs
end

end Mwp.Spec
