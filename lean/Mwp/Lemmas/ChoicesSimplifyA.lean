/-
  C04, part 1: basic facts used by the soundness proof of `Choices.simplify`
  (`insertNew`, `dedup`, `sortByLen`, `subsetOf`, `matchesSeq`, well-formedness of sub-lists,
  and the error-free evaluation of the `Except` combinators used by `reduceOnce`).
-/
import Mwp.Lemmas.ChoicesDefs

namespace Mwp.Choices

/-! ## Invariants -/

/-- every sequence of the set is well formed and non-empty -/
def Good (domain : List Nat) (n : Nat) (l : List Seq) : Prop :=
  ∀ s ∈ l, WFSeq domain n s ∧ s ≠ []

/-- the two sets are avoided by exactly the same vectors of the right shape -/
def Equiv (domain : List Nat) (n : Nat) (a b : List Seq) : Prop :=
  ∀ v, VecOK domain n v → (Avoids a v ↔ Avoids b v)

theorem Equiv.refl {domain n} (a : List Seq) : Equiv domain n a a := fun _ _ => Iff.rfl

theorem Equiv.trans {domain n} {a b c : List Seq} (h1 : Equiv domain n a b)
    (h2 : Equiv domain n b c) : Equiv domain n a c :=
  fun v hv => (h1 v hv).trans (h2 v hv)

/-! ## `insertNew`, `dedup` -/

theorem mem_insertNew {α} [BEq α] [LawfulBEq α] (l : List α) (x y : α) :
    y ∈ insertNew l x ↔ y ∈ l ∨ y = x := by
  unfold insertNew
  split
  · rename_i h
    have hx : x ∈ l := List.contains_iff_mem.1 h
    constructor
    · exact Or.inl
    · rintro (h | rfl)
      · exact h
      · exact hx
  · simp

theorem mem_foldl_insertNew {α} [BEq α] [LawfulBEq α] (l acc : List α) (y : α) :
    y ∈ l.foldl insertNew acc ↔ y ∈ acc ∨ y ∈ l := by
  induction l generalizing acc with
  | nil => simp
  | cons x t ih =>
    simp only [List.foldl_cons, ih, mem_insertNew, List.mem_cons]
    constructor
    · rintro ((h | h) | h)
      · exact Or.inl h
      · exact Or.inr (Or.inl h)
      · exact Or.inr (Or.inr h)
    · rintro (h | h | h)
      · exact Or.inl (Or.inl h)
      · exact Or.inl (Or.inr h)
      · exact Or.inr h

theorem mem_dedup {α} [BEq α] [LawfulBEq α] (l : List α) (y : α) : y ∈ dedup l ↔ y ∈ l := by
  unfold dedup
  rw [mem_foldl_insertNew]
  simp

/-! ## `sortByLen` -/

theorem span_loop_eq {α} (p : α → Bool) (l acc : List α) :
    List.span.loop p l acc = (acc.reverse ++ l.takeWhile p, l.dropWhile p) := by
  induction l generalizing acc with
  | nil => simp [List.span.loop]
  | cons a t ih =>
    unfold List.span.loop
    cases h : p a
    · simp [h]
    · simp [h, ih]

theorem span_eq {α} (p : α → Bool) (l : List α) :
    l.span p = (l.takeWhile p, l.dropWhile p) := by
  unfold List.span
  rw [span_loop_eq]
  simp

/-- the insertion step of `sortByLen` -/
def insLen (x : Seq) (acc : List Seq) : List Seq :=
  acc.takeWhile (fun y => y.length < x.length) ++ x :: acc.dropWhile (fun y => y.length < x.length)

theorem sortByLen_cons (x : Seq) (l : List Seq) : sortByLen (x :: l) = insLen x (sortByLen l) := by
  unfold sortByLen
  simp only [List.foldr_cons, span_eq]
  rfl

theorem mem_insLen (x y : Seq) (acc : List Seq) : y ∈ insLen x acc ↔ y = x ∨ y ∈ acc := by
  unfold insLen
  have h := @List.takeWhile_append_dropWhile _ (fun y : Seq => decide (y.length < x.length)) acc
  constructor
  · intro hy
    rcases List.mem_append.1 hy with hy | hy
    · exact Or.inr (h ▸ List.mem_append_left _ hy)
    · rcases List.mem_cons.1 hy with hy | hy
      · exact Or.inl hy
      · exact Or.inr (h ▸ List.mem_append_right _ hy)
  · rintro (rfl | hy)
    · exact List.mem_append_right _ List.mem_cons_self
    · rw [← h] at hy
      rcases List.mem_append.1 hy with hy | hy
      · exact List.mem_append_left _ hy
      · exact List.mem_append_right _ (List.mem_cons_of_mem _ hy)

theorem length_insLen (x : Seq) (acc : List Seq) : (insLen x acc).length = acc.length + 1 := by
  unfold insLen
  have h := congrArg List.length
    (@List.takeWhile_append_dropWhile _ (fun y : Seq => decide (y.length < x.length)) acc)
  simp only [List.length_append, List.length_cons] at h ⊢
  omega

theorem mem_sortByLen (l : List Seq) (y : Seq) : y ∈ sortByLen l ↔ y ∈ l := by
  induction l with
  | nil => simp [sortByLen]
  | cons x t ih => rw [sortByLen_cons, mem_insLen, ih, List.mem_cons]

theorem length_sortByLen (l : List Seq) : (sortByLen l).length = l.length := by
  induction l with
  | nil => simp [sortByLen]
  | cons x t ih => rw [sortByLen_cons, length_insLen, ih, List.length_cons]

/-! ## `matchesSeq`, `subsetOf`, `Avoids` -/

theorem matchesSeq_cons (d : Delta) (t : Seq) (v : List Nat) :
    matchesSeq (d :: t) v = (v[d.2]? == some d.1 && matchesSeq t v) := by
  simp [matchesSeq]

theorem matchesSeq_concat (d : Delta) (t : Seq) (v : List Nat) :
    matchesSeq (t ++ [d]) v = (v[d.2]? == some d.1 && matchesSeq t v) := by
  simp [matchesSeq, Bool.and_comm]

theorem matchesSeq_eq_true {s : Seq} {v : List Nat} :
    matchesSeq s v = true ↔ ∀ d ∈ s, v[d.2]? = some d.1 := by
  simp [matchesSeq]

theorem matchesSeq_eq_false {s : Seq} {v : List Nat} :
    matchesSeq s v = false ↔ ∃ d ∈ s, v[d.2]? ≠ some d.1 := by
  rw [← Bool.not_eq_true, matchesSeq_eq_true]
  simp

theorem subsetOf_iff {a b : Seq} : subsetOf a b = true ↔ ∀ d ∈ a, d ∈ b := by
  simp [subsetOf]

theorem subsetOf_refl (a : Seq) : subsetOf a a = true := subsetOf_iff.2 fun _ h => h

theorem matches_of_subset {a b : Seq} {v : List Nat} (h : subsetOf a b = true)
    (hb : matchesSeq b v = true) : matchesSeq a v = true :=
  matchesSeq_eq_true.2 fun d hd => matchesSeq_eq_true.1 hb d (subsetOf_iff.1 h d hd)

theorem avoids_of_subset {a b : Seq} {v : List Nat} (h : subsetOf a b = true)
    (ha : matchesSeq a v = false) : matchesSeq b v = false := by
  cases hb : matchesSeq b v
  · rfl
  · rw [matches_of_subset h hb] at ha; exact absurd ha (by decide)

theorem mem_removeSubset {m : Seq} {items : List Seq} {s : Seq} :
    s ∈ removeSubset m items ↔ s ∈ items ∧ subsetOf m s = false := by
  simp [removeSubset]

/-! ## well-formedness -/

theorem sorted_iff (s : Seq) :
    Mono.sortedDeltas s = true ↔ s.Pairwise (fun a b => a.2 < b.2) := by
  induction s using Mono.sortedDeltas.induct with
  | case1 => simp [Mono.sortedDeltas]
  | case2 h => simp [Mono.sortedDeltas]
  | case3 a b t ih =>
    rw [Mono.sortedDeltas, Bool.and_eq_true, ih, List.pairwise_cons (a := a)]
    constructor
    · rintro ⟨hab, hp⟩
      have hab : a.2 < b.2 := of_decide_eq_true hab
      refine ⟨?_, hp⟩
      intro x hx
      rcases List.mem_cons.1 hx with rfl | hx
      · exact hab
      · exact Nat.lt_trans hab ((List.pairwise_cons.1 hp).1 x hx)
    · rintro ⟨hall, hp⟩
      exact ⟨decide_eq_true (hall b List.mem_cons_self), hp⟩

theorem WFSeq.sublist {domain n} {s t : Seq} (h : WFSeq domain n s) (hs : t.Sublist s) :
    WFSeq domain n t :=
  ⟨(sorted_iff t).2 (((sorted_iff s).1 h.1).sublist hs), fun d hd => h.2 d (hs.subset hd)⟩

theorem WFSeq.nil (domain n) : WFSeq domain n [] :=
  ⟨rfl, fun _ h => nomatch h⟩

/-- a sorted sequence of length > 1 stays non-empty when one delta is erased -/
theorem filter_ne_nil {domain n} {p : Seq} (h : WFSeq domain n p) (hl : p.length > 1) (f : Delta) :
    p.filter (· != f) ≠ [] := by
  match p, hl with
  | a :: b :: t, _ =>
    have hp := (sorted_iff _).1 h.1
    have hab : a.2 < b.2 := (List.pairwise_cons.1 hp).1 b List.mem_cons_self
    intro hnil
    have hnone : ∀ d ∈ a :: b :: t, ¬ ((d != f) = true) := by
      intro d hd hq
      have : d ∈ (a :: b :: t).filter (· != f) := List.mem_filter.2 ⟨hd, hq⟩
      rw [hnil] at this
      exact nomatch this
    have ha : a = f := by
      have := hnone a List.mem_cons_self
      simpa using this
    have hb : b = f := by
      have := hnone b (List.mem_cons_of_mem _ List.mem_cons_self)
      simpa using this
    rw [ha, hb] at hab
    exact Nat.lt_irrefl _ hab

/-! ## error-free evaluation in `Except` -/

theorem filterAuxM_ok {α : Type} (f : α → M Bool) (g : α → Bool) (l : List α)
    (h : ∀ x ∈ l, f x = pure (g x)) (acc : List α) :
    List.filterAuxM f l acc = pure ((l.filter g).reverse ++ acc) := by
  induction l generalizing acc with
  | nil => simp [List.filterAuxM]
  | cons x t ih =>
    unfold List.filterAuxM
    rw [h x List.mem_cons_self, pure_bind, ih (fun y hy => h y (List.mem_cons_of_mem _ hy))]
    cases hg : g x <;> simp [hg]

theorem filterM_ok {α : Type} (f : α → M Bool) (g : α → Bool) (l : List α)
    (h : ∀ x ∈ l, f x = pure (g x)) :
    l.filterM f = pure (l.filter g) := by
  unfold List.filterM
  rw [filterAuxM_ok f g l h, pure_bind]
  simp

theorem mapM_ok {α β : Type} (f : α → M β) (g : α → β) (l : List α)
    (h : ∀ x ∈ l, f x = pure (g x)) :
    l.mapM f = pure (l.map g) := by
  induction l with
  | nil => simp
  | cons x t ih =>
    rw [List.mapM_cons, h x List.mem_cons_self, pure_bind,
      ih (fun y hy => h y (List.mem_cons_of_mem _ hy)), pure_bind]
    rfl

end Mwp.Choices
