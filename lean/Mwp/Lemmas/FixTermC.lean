/-
  FixTerm, part C: the scalar chain `S₀ = I, Sₖ₊₁ = Sₖ ⊕ Pₖ₊₁, Pₖ₊₁ = Pₖ·A` the loop of
  `Relation.fixpoint` computes at every choice vector becomes stationary after at most `4n²`
  rounds, and stays so.  No finiteness hypothesis on `A` (the recurrence used is
  `Sₖ₊₁ = I ⊕ Sₖ·A`, which needs right distributivity only, not `I·A = A·I`).
-/
import Mwp.Lemmas.RelFixA

namespace Mwp.FixTerm
open Mwp Mwp.RelFix Mwp.Props.C16 Mwp.Lemmas.Poly

theorem fadd_fmul (n : Nat) (x y a : SF) :
    fmul n (fadd x y) a = fadd (fmul n x a) (fmul n y a) := by
  funext i j
  unfold fmul fadd
  rw [← sumAll_map_add]
  apply sumAll_map_congr
  intro k _
  exact distrib_right _ _ _

/-- one round, multiplying on the right as the code does -/
def stepR (n : Nat) (a s : SF) : SF := fadd fI (fmul n s a)

theorem stepR_congr {n : Nat} (a : SF) {s s' : SF} (h : EqOn n s s') :
    EqOn n (stepR n a s) (stepR n a s') :=
  fadd_congr (EqOn.refl _ _) (fmul_congr h (EqOn.refl _ _))

theorem S_succ (n : Nat) (a : SF) (k : Nat) : EqOn n (S n a (k + 1)) (stepR n a (S n a k)) := by
  induction k with
  | zero => exact EqOn.refl _ _
  | succ k ih =>
    have e : stepR n a (S n a (k + 1)) = fadd (stepR n a (S n a k)) (P n a (k + 2)) := by
      show fadd fI (fmul n (fadd (S n a k) (P n a (k + 1))) a) =
        fadd (fadd fI (fmul n (S n a k) a)) (fmul n (P n a (k + 1)) a)
      rw [fadd_fmul, fadd_assoc]
    rw [e]
    exact fadd_congr ih (EqOn.refl _ _)

/-- once stationary, always stationary -/
theorem stationary_from (n : Nat) (a : SF) (j : Nat) (h : EqOn n (S n a (j + 1)) (S n a j)) :
    ∀ d, EqOn n (S n a (j + d + 1)) (S n a (j + d)) := by
  intro d
  induction d with
  | zero => exact h
  | succ d ih =>
    have h1 : EqOn n (S n a (j + (d + 1) + 1)) (stepR n a (S n a (j + d + 1))) := S_succ n a _
    have h2 : EqOn n (stepR n a (S n a (j + d + 1))) (stepR n a (S n a (j + d))) :=
      stepR_congr a ih
    exact h1.trans (h2.trans (S_succ n a (j + d)).symm)

/-- the chain cannot grow more than `4n²` times -/
theorem exists_stationary (n : Nat) (a : SF) :
    ∃ j, j ≤ 4 * n * n ∧ EqOn n (S n a (j + 1)) (S n a j) := by
  apply Classical.byContradiction
  intro hno
  have hne : ∀ j, j ≤ 4 * n * n → ¬ EqOn n (S n a (j + 1)) (S n a j) :=
    fun j hj h => hno ⟨j, hj, h⟩
  have hgrow : ∀ j, j ≤ 4 * n * n + 1 → j ≤ Phi n (S n a j) := by
    intro j
    induction j with
    | zero => intro _; exact Nat.zero_le _
    | succ j ih =>
      intro hj
      have h1 := ih (by omega)
      have h2 : Phi n (S n a j) < Phi n (S n a (j + 1)) := by
        apply Phi_lt
        · intro i _ l _
          exact rank_le_add _ _
        · intro h
          exact hne j (by omega) h.symm
      omega
  have := hgrow (4 * n * n + 1) (Nat.le_refl _)
  have := Phi_le n (S n a (4 * n * n + 1))
  omega

theorem stationary_at (n : Nat) (a : SF) (K : Nat) (hK : 4 * n * n ≤ K) :
    EqOn n (S n a (K + 1)) (S n a K) := by
  obtain ⟨j, hj, h⟩ := exists_stationary n a
  have := stationary_from n a j h (K - j)
  rwa [show j + (K - j) = K by omega] at this

end Mwp.FixTerm
