/-
  LOOP MODE IS SOUND (main clause of C08): at every vector of alternatives that the choice object of
  a bounded variable accepts, the derivation of the calculus is failure-free for that variable and
  everything it depends on, and the column its bound is read from is the calculus' column
  (`loop_mode_sound`, `loop_mode_sound_of_names`, `loop_mode_sound_maybe`); the statement must be
  a loop (`LoopSoundEx.needs_loop`).

  Files: `LoopSoundSpec` (calculus side), `LoopSoundCorr` (`loop_correction` cell by cell),
  `LoopSoundInv` (the invariant `CInv` and its closure properties), `LoopSoundStmt` (induction
  over statements), `LoopSoundAnc` (ancestors), this file (assembly, examples).
-/
import Mwp.Lemmas.LoopSoundAnc
import Mwp.Lemmas.Misc08
namespace Mwp
namespace LoopSound
open Mwp.Props.C16 Mwp.Lemmas.Poly Spec RelFix Refine Analysis LoopAnalysis

/-! ## `ancestors` / `okFor` on a matrix of names -/

theorem foldl_inv {α β : Type} (I : α → Prop) (f : α → β → α) (h : ∀ a b, I a → I (f a b)) :
    ∀ (l : List β) (a : α), I a → I (l.foldl f a) := by
  intro l
  induction l with
  | nil => intro a ha; exact ha
  | cons b t ih => intro a ha; exact ih _ (h a b ha)

theorem ancestors_mem {U : List String} (g : NF) {v : Nat} (hv : v < U.length) (T : String → Prop)
    (hTv : T (U.getD v "")) (hcl : ∀ w ∈ U, T w → ∀ u ∈ U, g u w ≠ .o → T u) :
    ∀ u ∈ ancestors (matOf U g) v, u < U.length ∧ T (U.getD u "") := by
  unfold ancestors
  have hlen : (matOf U g).length = U.length := mk_length _ _
  simp only [hlen]
  apply foldl_inv (fun s : List Nat => ∀ u ∈ s, u < U.length ∧ T (U.getD u ""))
  · intro s _ hs u hu
    simp only [List.mem_filter, List.mem_range, Bool.or_eq_true, List.contains_eq_mem,
      decide_eq_true_eq, List.any_eq_true, bne_iff_ne, ne_eq] at hu
    obtain ⟨hul, hor⟩ := hu
    refine ⟨hul, ?_⟩
    rcases hor with h | ⟨w, hw, hne⟩
    · exact (hs u h).2
    · obtain ⟨hwl, hTw⟩ := hs w hw
      unfold matOf at hne
      rw [get_mk _ _ hul hwl] at hne
      exact hcl _ (getD_mem U w "" hwl) hTw _ (getD_mem U u "" hul) hne
  · intro u hu
    rw [List.mem_singleton] at hu
    subst hu
    exact ⟨hv, hTv⟩

theorem okFor_matOf {U : List String} (g : NF) {v : Nat} (hv : v < U.length) (T : String → Prop)
    (hTv : T (U.getD v "")) (hcl : ∀ w ∈ U, T w → ∀ u ∈ U, g u w ≠ .o → T u)
    (hfin : ∀ u ∈ U, T u → ∀ x ∈ U, g x u ≠ .i) : okFor (matOf U g) v = true := by
  unfold okFor
  rw [List.all_eq_true]
  intro u hu
  obtain ⟨hul, hTu⟩ := ancestors_mem g hv T hTv hcl u hu
  rw [column_matOf U g hul, List.all_eq_true]
  intro s hs
  obtain ⟨x, hx, rfl⟩ := List.mem_map.1 hs
  simpa using hfin _ (getD_mem U u "" hul) hTu x hx

/-! ## the choice objects of loop mode are built from well-formed delta lists -/

theorem colInfDeltas_wfseq' {r : Relation} (wr : r.WF) {index : Nat} (hb : RelD (Bnd index) r) (col : Nat)
    (scalars : List Scalar) : ∀ s ∈ r.colInfDeltas col scalars, Choices.WFSeq Gen.domain index s := by
  intro s hs
  simp only [Relation.colInfDeltas, Poly.evalInf, List.mem_flatMap, List.mem_map, List.mem_filter] at hs
  obtain ⟨row, hrow, m, ⟨hm, _⟩, rfl⟩ := hs
  rcases getD_mem_or row col Poly.zero with h0 | hp
  · rw [h0] at hm
    simp only [Poly.zero, List.mem_singleton] at hm
    subst hm
    exact ⟨rfl, fun d hd => by cases hd⟩
  · have hwf := wr.2.2.2.2 row hrow _ hp
    unfold Poly.WF at hwf
    rw [List.all_eq_true] at hwf
    refine ⟨hwf m hm, ?_⟩
    intro d hd
    have := matD_iff_mem.1 hb row hrow _ hp m hm d hd
    refine ⟨this.2, ?_⟩
    have h3 := this.1
    simp only [Gen.domain, List.mem_cons, List.not_mem_nil, or_false]
    omega

/-- a column read row by row is the column of `den` -/
theorem den_of_rows {r : Relation} (wr : r.WF) {vec : Choice} {y : String} {col : Nat}
    (hy : r.vars.idxOf? y = some col) (x : String) (hx : x ∈ r.vars) :
    ∃ row ∈ r.mat, r.den vec x y = (row.getD col Poly.zero).evalD vec := by
  rcases idx_cases r.vars x with ⟨h, _⟩ | ⟨_, i, hi, hxi, _⟩
  · exact absurd hx h
  refine ⟨r.mat.getD i [], getD_mem r.mat i [] (by rw [wr.2.2.1]; exact hi), ?_⟩
  rw [Relation.den_of_idx hxi hy]
  rfl

theorem mem_sources {rel : Relation} {u v : String} {i col : Nat}
    (hu : rel.vars.idxOf? u = some i) (hv : rel.vars.idxOf? v = some col) (hne : u ≠ v) {vec : Choice}
    (h1 : rel.den vec u v ≠ .o) (h2 : rel.den vec u v ≠ .i) : u ∈ sources rel col := by
  unfold sources
  rw [List.mem_filterMap]
  refine ⟨(u, i), ?_, ?_⟩
  · rw [List.mk_mem_zipIdx_iff_getElem?, List.getElem?_eq_getElem (idx_lt hu), idx_get hu]
  · have hic : i ≠ col := fun e => hne ((idx_eq_iff hu hv).1 e)
    rw [Relation.den_of_idx hu hv] at h1 h2
    have hmem := sumAll_mem (l := Poly.matching (Matrix.get rel.mat i col) vec) h1
    change (Matrix.get rel.mat i col).evalD vec ∈ _ at hmem
    obtain ⟨m, hm, _, hs⟩ := mem_matching.1 hmem
    have hany : (Matrix.get rel.mat i col).any
        (fun m => m.scalar == .m || m.scalar == .w || m.scalar == .p) = true := by
      rw [List.any_eq_true]
      refine ⟨m, hm, ?_⟩
      rw [hs]
      revert h1 h2
      cases (Matrix.get rel.mat i col).evalD vec <;> simp
    simp [hic, hany]

/-! ## what `inspectRel` computed -/

theorem inspectRel_inv (loop : Node) (rel : Relation) (index : Nat) (infty : Bool)
    (h : inspectRel loop = .ok (rel, index, infty)) :
    ∃ vs dI rels sk, Syntax.variables loop = .ok vs ∧
      cmds (RelList.identity vs) 0 [loop] false = .ok (dI, index, rels, sk) ∧
      rel = rels.headD (Relation.new []) := by
  unfold inspectRel at h
  cases hv : Syntax.variables loop with
  | error e => rw [hv] at h; cases h
  | ok vs =>
    rw [hv] at h
    simp only [bind, Except.bind] at h
    cases hc : cmds (RelList.identity vs) 0 [loop] false with
    | error e => rw [hc] at h; cases h
    | ok res =>
      obtain ⟨dI, idx, rels, sk⟩ := res
      rw [hc] at h
      simp only at h
      cases he : (rels.headD (Relation.new [])).eval Gen.domain idx with
      | error e => rw [he] at h; cases h
      | ok ch =>
        rw [he] at h
        simp only [pure, Except.pure, Except.ok.injEq, Prod.mk.injEq] at h
        obtain ⟨h1, h2, _⟩ := h
        subst h2
        exact ⟨vs, dI, rels, sk, rfl, hc, h1.symm⟩

/-- the relation loop mode inspects, at every vector of alternatives -/
theorem inspect_core (loop : Node) (cmd : Cmd) (hd : desugar loop = some cmd)
    (hloop : isLoopCmd cmd = true) (hnames : namesOkA loop = true) (hfresh : guardsFresh cmd = true)
    (rel : Relation) (index : Nat) (infty : Bool) (h : inspectRel loop = .ok (rel, index, infty))
    (hcov : ∀ v ∈ cmd.vars, v ∈ rel.vars) :
    rel.WF ∧ RelD (Bnd index) rel ∧ index = cmd.arity ∧
    ∀ vec : List Nat, Choices.VecOK Gen.domain index vec →
      ∃ g, semI rel.vars cmd 0 (relabel cmd vec) = (cmd.arity, matOf rel.vars g) ∧
        CInv rel.vars rel vec g ∧ AncOK rel.vars rel vec g := by
  obtain ⟨vs, dI, rels, sk, hvs, hcm, hrl⟩ := inspectRel_inv loop rel index infty h
  obtain ⟨hnd, hne, _⟩ := variables_wf loop vs hvs
  have hdl : desugarL [loop] = some [cmd] := by simp [desugarL, hd]
  have hnl : namesOkAL [loop] = true := by simp [namesOkAL, hnames]
  have hgl : guardsFreshL [cmd] = true := by simp [guardsFreshL, hfresh]
  obtain ⟨r0, hr0, w0, _, hstop, hfin, _⟩ := cmds_core false vs hnd hne [loop] [cmd] hdl hnl hgl dI index rels sk hcm
  have hdI := hstop rfl
  subst hdI
  obtain ⟨hidx, hbnd, _⟩ := hfin rfl
  have hrel0 : rel = r0 := by rw [hrl, hr0]; rfl
  subst hrel0
  have hidx' : index = cmd.arity := by
    rw [hidx]; simp [Cmd.arity, arityL]
  refine ⟨w0, hbnd, hidx', ?_⟩
  -- the computation behind `cmds`
  rw [cmds_eq_go] at hcm
  have wid := Relation.identity_wf vs hnd hne
  obtain ⟨out, hcl, _, _, e3, _⟩ := go_computeList false [loop] [cmd] hdl hnl hgl (Relation.identity vs) 0 [] [] _ wid hcm
  simp only [Bool.not_false] at hcl
  rw [Analysis.computeList] at hcl
  cases ho1 : Analysis.compute true 0 [] loop with
  | error e => rw [ho1] at hcl; cases hcl
  | ok o1 =>
    rw [ho1] at hcl
    simp only [bind, Except.bind] at hcl
    have R := compute_refG_aux (sizeOf loop + 1) loop (Nat.lt_succ_self _) cmd hd hnames hfresh true 0 [] o1 ho1
    have he1 := R.noexit rfl
    obtain ⟨hi1, r1, hr1, w1, v1, _⟩ := R.main he1
    rw [he1] at hcl
    simp only [Bool.false_eq_true, if_false] at hcl
    rw [Analysis.computeList] at hcl
    cases hcl
    simp only at e3
    have hrels : rels = [Relation.composition (Relation.identity vs) r1] := by
      rw [e3 trivial, hr1, relList_composition_single]
    have hrel : rel = Relation.composition (Relation.identity vs) r1 := by
      rw [hrels] at hr0; exact ((List.cons.inj hr0).1).symm
    have hidv := Relation.identity_vars vs hne
    have hmem := Relation.composition_vars_mem (Relation.identity vs) r1 wid w1
    intro vec hvec
    obtain ⟨hl, h3⟩ := (vecOK_iff index vec).1 hvec
    rw [hidx'] at hl
    have hval : Valid 0 cmd.arity vec := valid_of_vec hl h3
    have hrelab : Relab 0 cmd.swaps vec (relabel cmd vec) := by
      rw [relabel_eq_relabelAt]; exact relabelAt_relab 0 cmd vec
    have C := compute_ci loop cmd hd hnames hfresh 0 [] o1 ho1 rel.vars w0.1 hcov vec hval _ hrelab
    obtain ⟨r1', g, hr1', _, _, sg, ig⟩ := C.main
    have : r1' = r1 := by rw [hr1] at hr1'; exact ((List.cons.inj hr1').1).symm
    subst this
    rw [Nat.zero_add] at sg
    have s1U : ∀ v ∈ r1'.vars, v ∈ rel.vars := fun v hv => by rw [hrel]; exact (hmem v).2 (Or.inr hv)
    have sidU : ∀ v ∈ (Relation.identity vs).vars, v ∈ rel.vars :=
      fun v hv => by rw [hrel]; exact (hmem v).2 (Or.inl hv)
    have iid : CInv rel.vars (Relation.identity vs) vec idS :=
      CInv.of_eq (fun x _ y _ => Relation.identity_den' vs hne vec x y)
    have irel : CInv rel.vars rel vec g := by
      have := CInv.comp w0.1 wid w1 sidU s1U iid ig
      rw [← hrel] at this
      exact this.congr (fun x hx y _ => mulNP_idS_left hx g y)
    refine ⟨g, sg, irel, ?_⟩
    -- ancestors: those of the loop's own relation
    have A1 := compute_anc loop cmd hd hloop hnames hfresh 0 [] o1 ho1 rel.vars w0.1 hcov vec hval _ hrelab
      r1' g hr1 (by rw [Nat.zero_add]; exact sg)
    intro v hv hf
    apply A1 v hv
    intro x hx e
    have hm := Relation.mem_of_den_i e
    have hxV : x ∈ (Relation.composition (Relation.identity vs) r1').vars := (hmem x).2 (Or.inr hm.1)
    have hvV : v ∈ (Relation.composition (Relation.identity vs) r1').vars := (hmem v).2 (Or.inr hm.2)
    apply hf x hx
    rw [hrel, Relation.composition_den_own _ r1' wid w1, if_pos ⟨hxV, hvV⟩]
    apply sumScalars_eq_i_of_mem
    rw [List.mem_map]
    refine ⟨x, hxV, ?_⟩
    rw [e]
    exact (infty_absorbs_prod _).2

end LoopSound

open Spec Refine Analysis LoopAnalysis LoopSound Mwp.Lemmas.Poly in
/-- **Loop mode is sound** (main clause of C08).  Let `loop` be a loop statement of the supported
    fragment, read as the command `cmd`, and `(rel, index, _)` what `LoopAnalysis.inspect` computed
    for it.  Whenever `get_result` reports a bound for a variable `v` with choice object `c`, then at
    EVERY vector of alternatives `vec` that `c` accepts:

    * the derivation of the calculus (failure recorded per cell, path-local) is failure-free for `v`
      and for every variable with a non-zero flow path into `v` (`Spec.okFor`), and
    * the column of `v` from which the bound is read (`rel.applyChoice vec`) is the column the
      calculus derives.

    Hypotheses beyond the statement first asked: `hloop` (the statement IS a loop: for an `if`
    statement the conclusion is false, see the report) and `hcov` (every variable of the reading is
    a variable of the relation; it only excludes the reserved names `true` / `false` used as
    variables, which `Variables` drops -- see `loop_mode_sound_of_names`). -/
theorem loop_mode_sound (loop : Node) (cmd : Cmd) (hd : desugar loop = some cmd)
    (hloop : isLoopCmd cmd = true)
    (hnames : namesOkA loop = true) (hfresh : guardsFresh cmd = true)
    (rel : Relation) (index : Nat) (infty : Bool) (h : inspectRel loop = .ok (rel, index, infty))
    (hcov : ∀ v ∈ cmd.vars, v ∈ rel.vars)
    (v : String) (r : VRes) (hr : getResult rel index v = .ok r)
    (c : Choices.T) (hc : r.choices = some c) (vec : List Nat) (hvec : Choices.VecOK Gen.domain index vec)
    (hacc : Choices.isValid c vec = true) :
    okFor (semI rel.vars cmd 0 (relabel cmd vec)).2 (Spec.idxOf rel.vars v) = true ∧
    SMat.column (semI rel.vars cmd 0 (relabel cmd vec)).2 (Spec.idxOf rel.vars v)
      = SMat.column (rel.applyChoice vec) (Spec.idxOf rel.vars v) := by
  obtain ⟨wr, hbnd, _, hcore⟩ := inspect_core loop cmd hd hloop hnames hfresh rel index infty h hcov
  obtain ⟨g, sg, ig, ag⟩ := hcore vec hvec
  obtain ⟨col, hcol, _⟩ := Misc08.getResult_inv rel index v r hr
  obtain ⟨hfv, hfs, _, _⟩ := Misc08.getResult_sound rel index v r hr c hc vec hvec hacc col hcol
    (colInfDeltas_wfseq' wr hbnd col _)
    (fun u _ cu _ => colInfDeltas_wfseq' wr hbnd cu _)
  have hvU : v ∈ rel.vars := idx_mem hcol
  have hcl : col < rel.vars.length := idx_lt hcol
  have hgv : rel.vars.getD col "" = v := idx_getD hcol ""
  -- the column of `v` does not fail in the model relation
  have hcolfin : ∀ x ∈ rel.vars, rel.den vec x v ≠ .i := by
    intro x hx
    obtain ⟨row, hrow, e⟩ := den_of_rows wr (vec := vec) hcol x hx
    rw [e]; exact hfv row hrow
  have hcoleq := ig.colEq v hvU hcolfin
  rw [idxOf_eq hcol, sg]
  constructor
  · -- failure-free for `v` and all its ancestors
    obtain ⟨T, hTv, hTcl, hTm⟩ := ag v hvU hcolfin
    apply okFor_matOf g hcl T (by rw [hgv]; exact hTv) hTcl
    intro u hu hTu x hx
    rcases hTm u hu hTu with h | h | h
    · subst h
      rw [← hcoleq x hx]; exact hcolfin x hx
    · by_cases huv : u = v
      · subst huv
        rw [← hcoleq x hx]; exact hcolfin x hx
      · -- `u` flows directly into `v`: it is one of the sources `get_result` checked
        rcases idx_cases rel.vars u with ⟨h', _⟩ | ⟨_, cu, _, hucu, _⟩
        · exact absurd hu h'
        have hduv : rel.den vec u v = g u v := hcoleq u hu
        have hsrc : u ∈ sources rel col :=
          mem_sources hucu hcol huv (by rw [hduv]; exact h) (hcolfin u hu)
        have hufin : ∀ x ∈ rel.vars, rel.den vec x u ≠ .i := by
          intro x hx
          obtain ⟨row, hrow, e⟩ := den_of_rows wr (vec := vec) hucu x hx
          rw [e]; exact hfs u hsrc cu hucu row hrow
        intro e
        exact hufin x hx (ig.infUp x hx u hu e)
    · exact h x hx
  · -- the column is the calculus' column
    rw [column_matOf rel.vars g hcl, applyChoice_eq_toSMat, toSMat_eq_matOf rel wr,
      column_matOf rel.vars _ hcl, hgv]
    apply List.map_congr_left
    intro x hx
    exact (hcoleq x hx).symm

open Spec Refine Analysis LoopAnalysis LoopSound in
/-- every recorded variable of the loop is a variable of the inspected relation -/
theorem LoopSound.inspect_vars (loop : Node) (cmd : Cmd) (hd : desugar loop = some cmd)
    (hnames : namesOkA loop = true) (hfresh : guardsFresh cmd = true)
    (rel : Relation) (index : Nat) (infty : Bool) (h : inspectRel loop = .ok (rel, index, infty)) :
    ∀ v ∈ varsP loop, v ∈ rel.vars := by
  obtain ⟨vs, dI, rels, sk, hvs, hcm, hrl⟩ := inspectRel_inv loop rel index infty h
  obtain ⟨hnd, hne, hvm⟩ := variables_wf loop vs hvs
  have hdl : desugarL [loop] = some [cmd] := by simp [desugarL, hd]
  have hnl : namesOkAL [loop] = true := by simp [namesOkAL, hnames]
  have hgl : guardsFreshL [cmd] = true := by simp [guardsFreshL, hfresh]
  obtain ⟨r0, hr0, _, hsub, _⟩ := cmds_core false vs hnd hne [loop] [cmd] hdl hnl hgl dI index rels sk hcm
  have hrel0 : rel = r0 := by rw [hrl, hr0]; rfl
  intro v hv
  rw [hrel0]
  exact hsub v ((hvm v).2 hv)

open Spec Refine Analysis LoopAnalysis LoopSound in
/-- `loop_mode_sound` with the coverage hypothesis discharged from a check on the names: no
    variable of the reading is a reserved name (`true` / `false`) or empty -/
theorem loop_mode_sound_of_names (loop : Node) (cmd : Cmd) (hd : desugar loop = some cmd)
    (hloop : isLoopCmd cmd = true)
    (hnames : namesOkA loop = true) (hfresh : guardsFresh cmd = true)
    (hres : ∀ v ∈ cmd.vars, v ≠ "" ∧ v ∉ Gen.reserved)
    (rel : Relation) (index : Nat) (infty : Bool) (h : inspectRel loop = .ok (rel, index, infty))
    (v : String) (r : VRes) (hr : getResult rel index v = .ok r)
    (c : Choices.T) (hc : r.choices = some c) (vec : List Nat) (hvec : Choices.VecOK Gen.domain index vec)
    (hacc : Choices.isValid c vec = true) :
    okFor (semI rel.vars cmd 0 (relabel cmd vec)).2 (Spec.idxOf rel.vars v) = true ∧
    SMat.column (semI rel.vars cmd 0 (relabel cmd vec)).2 (Spec.idxOf rel.vars v)
      = SMat.column (rel.applyChoice vec) (Spec.idxOf rel.vars v) := by
  apply loop_mode_sound loop cmd hd hloop hnames hfresh rel index infty h _ v r hr c hc vec hvec hacc
  intro u hu
  have hrec := desugar_vars (sizeOf loop + 1) loop (Nat.lt_succ_self _) cmd hd u hu
  rcases hrec with h1 | h1 | h1
  · exact inspect_vars loop cmd hd hnames hfresh rel index infty h u h1
  · exact absurd h1 (hres u hu).2
  · exact absurd h1 (hres u hu).1

open Spec Refine Analysis LoopAnalysis LoopSound in
/-- the same for the results of `maybe_result` (some variable of the loop fails): every bounded
    entry of its output was produced by `get_result` -/
theorem loop_mode_sound_maybe (loop : Node) (cmd : Cmd) (hd : desugar loop = some cmd)
    (hloop : isLoopCmd cmd = true)
    (hnames : namesOkA loop = true) (hfresh : guardsFresh cmd = true)
    (rel : Relation) (index : Nat) (infty : Bool) (h : inspectRel loop = .ok (rel, index, infty))
    (hcov : ∀ v ∈ cmd.vars, v ∈ rel.vars)
    (pick : Option (List Nat)) (rs : List VRes) (hm : maybeResult rel index pick = .ok rs)
    (r : VRes) (hrs : r ∈ rs)
    (c : Choices.T) (hc : r.choices = some c) (vec : List Nat) (hvec : Choices.VecOK Gen.domain index vec)
    (hacc : Choices.isValid c vec = true) :
    ∃ v, getResult rel index v = .ok r ∧
    okFor (semI rel.vars cmd 0 (relabel cmd vec)).2 (Spec.idxOf rel.vars v) = true ∧
    SMat.column (semI rel.vars cmd 0 (relabel cmd vec)).2 (Spec.idxOf rel.vars v)
      = SMat.column (rel.applyChoice vec) (Spec.idxOf rel.vars v) := by
  rcases Misc08.maybeResult_inv rel index pick rs hm r hrs with ⟨v, rfl⟩ | ⟨v, hv⟩
  · simp [VRes.unbounded] at hc
  · exact ⟨v, hv, loop_mode_sound loop cmd hd hloop hnames hfresh rel index infty h hcov v r hv c hc vec hvec hacc⟩

/-! ## why the statement must be a loop, and non-vacuity -/

namespace LoopSoundEx
open Spec Refine Analysis LoopAnalysis LoopSound

/-- `if (a) { while (d) y = w + w; } else { if (b) x = y; else z = x; }` -/
def ifEx : Node :=
  .ifs (.id "a") (some (.while_ (.id "d") (.assign "=" (.id "y") (.binop "+" (.id "w") (.id "w")))))
    (some (.ifs (.id "b") (some (.assign "=" (.id "x") (.id "y"))) (some (.assign "=" (.id "z") (.id "x")))))
def ifCmd : Cmd :=
  .ite (.while_ (.bin "+" "y" (.var "w") (.var "w"))) (.ite (.asgnVar "x" "y") (.asgnVar "z" "x"))

set_option maxRecDepth 100000 in
/-- WITHOUT `hloop` the statement is false.  `inspectRel` / `get_result` applied to an `if`
    statement: `z` only receives a flow from `x`, whose column never fails, so `get_result` accepts
    the alternative 0 for `z`; but `x` receives `y` in another branch, and at alternative 0 the loop
    `while (d) y = w + w` fails for `y`: the derivation is not failure-free for the ancestors of `z`.
    (In a loop the flows of all branches are composed by the closure, so an ancestor is a source:
    that is what `get_result` relies on.  The implementation only calls loop mode on loops.) -/
theorem needs_loop :
    desugar ifEx = some ifCmd ∧ isLoopCmd ifCmd = false ∧ namesOkA ifEx = true ∧ guardsFresh ifCmd = true ∧
    (do let (rel, index, _) ← inspectRel ifEx
        let r ← getResult rel index "z"
        pure (index, ifCmd.vars.all (fun v => rel.vars.contains v),
          r.choices.map (fun c => Choices.isValid c [0]),
          okFor (semI rel.vars ifCmd 0 (relabel ifCmd [0])).2 (Spec.idxOf rel.vars "z"))).toOption
      = some (1, true, some true, false) := by
  refine ⟨by rfl, by decide, by decide, by decide, by decide⟩

/-- `for (i = 0; i < n; i++) { z = z + b; out = z * z; }` -/
def forEx : Node :=
  .for_ (some (.assign "=" (.id "i") (.const "int" "0"))) (some (.binop "<" (.id "i") (.id "n")))
    (some (.unop "p++" (.id "i")))
    (.compound (some [.assign "=" (.id "z") (.binop "+" (.id "z") (.id "b")),
      .assign "=" (.id "out") (.binop "*" (.id "z") (.id "z"))]))
def forCmd : Cmd :=
  .loop "n" (.seq [.bin "+" "z" (.var "z") (.var "b"), .bin "*" "out" (.var "z") (.var "z")])

set_option maxRecDepth 100000 in
/-- non-vacuity: the hypotheses of `loop_mode_sound_of_names` hold for `forEx`, loop mode reports a
    (polynomial) bound for `out` whose choice object accepts exactly the vectors `[0, _]` … -/
theorem forEx_data :
    desugar forEx = some forCmd ∧ isLoopCmd forCmd = true ∧ namesOkA forEx = true ∧
    guardsFresh forCmd = true ∧ (∀ v ∈ forCmd.vars, v ≠ "" ∧ v ∉ Gen.reserved) ∧
    (inspectRel forEx).toOption.map (fun p => (p.1.vars, p.2.1)) = some (["b", "n", "out", "z"], 2) ∧
    (do let (rel, index, _) ← inspectRel forEx
        let r ← getResult rel index "out"
        pure (r.isM, r.isW, r.isP)).toOption = some (false, false, true) ∧
    (do let (rel, index, _) ← inspectRel forEx
        let r ← getResult rel index "out"
        pure (r.choices.map (fun c => (Spec.allChoices index).filter (Choices.isValid c)))).toOption
      = some (some [[0, 0], [0, 1], [0, 2]]) := by
  refine ⟨by rfl, by decide, by decide, by decide, by decide, by decide, by decide, by decide⟩

/-- … and at each of them the theorem applies -/
example (rel : Relation) (index : Nat) (infty : Bool) (h : inspectRel forEx = .ok (rel, index, infty))
    (r : VRes) (hr : getResult rel index "out" = .ok r) (c : Choices.T) (hc : r.choices = some c)
    (vec : List Nat) (hvec : Choices.VecOK Gen.domain index vec) (hacc : Choices.isValid c vec = true) :
    okFor (semI rel.vars forCmd 0 (relabel forCmd vec)).2 (Spec.idxOf rel.vars "out") = true ∧
    SMat.column (semI rel.vars forCmd 0 (relabel forCmd vec)).2 (Spec.idxOf rel.vars "out")
      = SMat.column (rel.applyChoice vec) (Spec.idxOf rel.vars "out") :=
  loop_mode_sound_of_names forEx forCmd forEx_data.1 forEx_data.2.1 forEx_data.2.2.1 forEx_data.2.2.2.1
    forEx_data.2.2.2.2.1 rel index infty h "out" r hr c hc vec hvec hacc

-- the concrete instance at the first accepted vector: the calculus' column of `out` is `z ↦ w`
set_option maxRecDepth 100000 in
example : (do let (rel, _, _) ← inspectRel forEx
              pure (okFor (semI rel.vars forCmd 0 (relabel forCmd [0, 0])).2 (Spec.idxOf rel.vars "out"),
                SMat.column (semI rel.vars forCmd 0 (relabel forCmd [0, 0])).2 (Spec.idxOf rel.vars "out"),
                SMat.column (rel.applyChoice [0, 0]) (Spec.idxOf rel.vars "out"))).toOption
    = some (true, [.p, .p, .m, .w], [.p, .p, .m, .w]) := by decide

end LoopSoundEx

end Mwp
