/-
  FixTerm, part A: the canonical form of the polynomials `Poly.add` produces.

  `Canon p`: well-formed monomials, strictly sorted by `Poly.compare`, an antichain for
  domination (`Mono.inclusion`), and either `Poly.zero` or free of zero coefficients.
  `Canon` is kept by `Poly.add p q` for ANY well-formed `q` (`Canon_add`).
-/
import Mwp.Lemmas.Poly
import Mathlib.Data.List.Pairwise

namespace Mwp.FixTerm
open Mwp Mwp.Props.C16 Mwp.Lemmas.Poly

/-! ## `Poly.compare` is a strict order on delta lists -/

/-- the order on single deltas used by `Poly.compare`: by index, then by value -/
def klt (a b : Delta) : Prop := a.2 < b.2 ∨ (a.2 = b.2 ∧ a.1 < b.1)

instance (a b : Delta) : Decidable (klt a b) := by unfold klt; infer_instance

theorem compare_cons_cons (a b : Delta) (as bs : List Delta) :
    Poly.compare (a :: as) (b :: bs) =
      if a = b then Poly.compare as bs else if klt a b then .smaller else .larger := by
  rw [Poly.compare]
  by_cases hab : a = b
  · rw [if_pos hab, if_pos hab]
  · rw [if_neg hab, if_neg hab]
    by_cases hk : klt a b
    · rw [if_pos hk, if_pos]
      unfold klt at hk
      simpa using hk
    · rw [if_neg hk, if_neg]
      unfold klt at hk
      simpa using hk

theorem klt_trans {a b c : Delta} (h1 : klt a b) (h2 : klt b c) : klt a c := by
  unfold klt at *; omega

theorem klt_irrefl (a : Delta) : ¬ klt a a := by
  unfold klt; omega

theorem klt_total {a b : Delta} (h : a ≠ b) : klt a b ∨ klt b a := by
  unfold klt
  have : a.1 ≠ b.1 ∨ a.2 ≠ b.2 := by
    by_contra hc
    apply h
    have h1 : a.1 = b.1 := by omega
    have h2 : a.2 = b.2 := by omega
    exact Prod.ext h1 h2
  omega

/-- strict order on delta lists -/
def dlt (a b : List Delta) : Prop := Poly.compare a b = .smaller

theorem compare_self (a : List Delta) : Poly.compare a a = .equal := by
  induction a with
  | nil => rfl
  | cons x t ih => rw [compare_cons_cons, if_pos rfl, ih]

theorem dlt_irrefl (a : List Delta) : ¬ dlt a a := by
  unfold dlt; rw [compare_self]; intro h; cases h

theorem dlt_trans {a b c : List Delta} (h1 : dlt a b) (h2 : dlt b c) : dlt a c := by
  unfold dlt at *
  induction a generalizing b c with
  | nil =>
    cases b with
    | nil => simp [Poly.compare] at h1
    | cons y bs =>
      cases c with
      | nil => simp [Poly.compare] at h2
      | cons z cs => rfl
  | cons x as ih =>
    cases b with
    | nil => simp [Poly.compare] at h1
    | cons y bs =>
      cases c with
      | nil => simp [Poly.compare] at h2
      | cons z cs =>
        rw [compare_cons_cons] at h1 h2 ⊢
        by_cases hxy : x = y
        · subst hxy
          rw [if_pos rfl] at h1
          by_cases hxz : x = z
          · subst hxz
            rw [if_pos rfl] at h2 ⊢
            exact ih h1 h2
          · rw [if_neg hxz] at h2 ⊢
            exact h2
        · rw [if_neg hxy] at h1
          have hk1 : klt x y := by
            by_contra hk; rw [if_neg hk] at h1; cases h1
          by_cases hyz : y = z
          · subst hyz
            rw [if_neg hxy, if_pos hk1]
          · rw [if_neg hyz] at h2
            have hk2 : klt y z := by
              by_contra hk; rw [if_neg hk] at h2; cases h2
            have hk3 := klt_trans hk1 hk2
            have hxz : x ≠ z := by
              intro e; subst e; exact klt_irrefl _ (klt_trans hk1 hk2)
            rw [if_neg hxz, if_pos hk3]

theorem dlt_of_larger {a b : List Delta} (h : Poly.compare a b = .larger) : dlt b a := by
  unfold dlt
  induction a generalizing b with
  | nil => cases b <;> simp [Poly.compare] at h
  | cons x as ih =>
    cases b with
    | nil => rfl
    | cons y bs =>
      rw [compare_cons_cons] at h ⊢
      by_cases hxy : x = y
      · subst hxy
        rw [if_pos rfl] at h ⊢
        exact ih h
      · rw [if_neg hxy] at h
        rw [if_neg (Ne.symm hxy)]
        have hk : ¬ klt x y := by
          intro hk; rw [if_pos hk] at h; cases h
        rcases klt_total hxy with h' | h'
        · exact absurd h' hk
        · rw [if_pos h']

/-! ## strictly sorted monomial lists -/

/-- strictly increasing delta lists -/
def SortedP (p : List Mono) : Prop := p.Pairwise (fun a b => dlt a.deltas b.deltas)

theorem mem_insertSorted_deltas (x : Mono) (l : List Mono) :
    ∀ b ∈ Poly.insertSorted x l, b.deltas = x.deltas ∨ ∃ b' ∈ l, b.deltas = b'.deltas := by
  induction l with
  | nil =>
    intro b hb
    left
    have : b = x := by simpa [Poly.insertSorted] using hb
    rw [this]
  | cons m ms ih =>
    intro b hb
    cases h : Poly.compare x.deltas m.deltas with
    | smaller =>
      simp only [Poly.insertSorted, h] at hb
      rcases List.mem_cons.1 hb with rfl | hb
      · left; rfl
      · right; exact ⟨b, hb, rfl⟩
    | equal =>
      simp only [Poly.insertSorted, h] at hb
      split at hb
      · right; exact ⟨b, List.mem_cons_of_mem _ hb, rfl⟩
      · rcases List.mem_cons.1 hb with rfl | hb
        · right; exact ⟨m, List.mem_cons_self .., rfl⟩
        · right; exact ⟨b, List.mem_cons_of_mem _ hb, rfl⟩
    | larger =>
      simp only [Poly.insertSorted, h] at hb
      rcases List.mem_cons.1 hb with rfl | hb
      · right; exact ⟨b, List.mem_cons_self .., rfl⟩
      · rcases ih b hb with e | ⟨b', hb', e⟩
        · left; exact e
        · right; exact ⟨b', List.mem_cons_of_mem _ hb', e⟩

theorem SortedP_insertSorted (x : Mono) (l : List Mono) (hl : SortedP l) :
    SortedP (Poly.insertSorted x l) := by
  induction l with
  | nil => simp [Poly.insertSorted, SortedP]
  | cons m ms ih =>
    unfold SortedP at hl
    rw [List.pairwise_cons] at hl
    obtain ⟨hm, hms⟩ := hl
    cases h : Poly.compare x.deltas m.deltas with
    | smaller =>
      simp only [Poly.insertSorted, h]
      unfold SortedP
      rw [List.pairwise_cons, List.pairwise_cons]
      refine ⟨?_, hm, hms⟩
      intro b hb
      rcases List.mem_cons.1 hb with rfl | hb
      · exact h
      · exact dlt_trans h (hm b hb)
    | equal =>
      simp only [Poly.insertSorted, h]
      split
      · exact hms
      · unfold SortedP
        rw [List.pairwise_cons]
        exact ⟨hm, hms⟩
    | larger =>
      simp only [Poly.insertSorted, h]
      unfold SortedP
      rw [List.pairwise_cons]
      refine ⟨?_, ih hms⟩
      intro b hb
      rcases mem_insertSorted_deltas x ms b hb with e | ⟨b', hb', e⟩
      · rw [e]; exact dlt_of_larger h
      · rw [e]; exact hm b' hb'

theorem SortedP_sortMonos (l : List Mono) : SortedP (Poly.sortMonos l) := by
  induction l with
  | nil => simp [Poly.sortMonos, SortedP]
  | cons x t ih => rw [sortMonos_cons]; exact SortedP_insertSorted x _ ih

theorem SortedP.nodup {p : List Mono} (h : SortedP p) : p.Nodup := by
  unfold SortedP at h
  unfold List.Nodup
  refine h.imp ?_
  intro a b hab e
  subst e
  exact dlt_irrefl _ hab

/-- two strictly sorted lists with the same members are equal -/
theorem SortedP.ext {p q : List Mono} (hp : SortedP p) (hq : SortedP q)
    (h : ∀ a, a ∈ p ↔ a ∈ q) : p = q := by
  have hperm : p.Perm q := (List.perm_ext_iff_of_nodup hp.nodup hq.nodup).2 h
  refine List.Perm.eq_of_pairwise ?_ hp hq hperm
  intro a b _ _ h1 h2
  exact absurd (dlt_trans h1 h2) (dlt_irrefl _)

/-! ## domination -/

/-- `a` dominates `b`: every delta of `a` occurs in `b` and `b`'s coefficient is below `a`'s -/
def Dom (a b : Mono) : Prop := b.contains a = true ∧ b.scalar + a.scalar = a.scalar

theorem contains_trans {a b c : Mono} (h1 : c.contains b = true) (h2 : b.contains a = true) :
    c.contains a = true := by
  unfold Mono.contains at *
  rw [List.all_eq_true] at *
  intro d hd
  have hb : d ∈ b.deltas := by simpa using h2 d hd
  exact h1 d hb

theorem Dom.trans {a b c : Mono} (h1 : Dom a b) (h2 : Dom b c) : Dom a c := by
  refine ⟨contains_trans h2.1 h1.1, ?_⟩
  rw [← h1.2, ← sum_assoc, h2.2]

theorem Dom.refl (a : Mono) : Dom a a := ⟨contains_self_deltas rfl, sum_idem _⟩

theorem Dom.subset {a b : Mono} (h : Dom a b) : ∀ d ∈ a.deltas, d ∈ b.deltas := by
  intro d hd
  have := h.1
  unfold Mono.contains at this
  rw [List.all_eq_true] at this
  simpa using this d hd

theorem sorted_ext {l₁ l₂ : List Delta} (h1 : Sorted l₁) (h2 : Sorted l₂)
    (h : ∀ d, d ∈ l₁ ↔ d ∈ l₂) : l₁ = l₂ := by
  have n1 : l₁.Nodup := by
    unfold List.Nodup
    refine List.Pairwise.imp ?_ h1
    intro a b hab e; subst e; exact Nat.lt_irrefl _ hab
  have n2 : l₂.Nodup := by
    unfold List.Nodup
    refine List.Pairwise.imp ?_ h2
    intro a b hab e; subst e; exact Nat.lt_irrefl _ hab
  have hperm : l₁.Perm l₂ := (List.perm_ext_iff_of_nodup n1 n2).2 h
  refine List.Perm.eq_of_pairwise ?_ h1 h2 hperm
  intro a b _ _ hab hba
  exact absurd (Nat.lt_trans hab hba) (Nat.lt_irrefl _)

theorem Dom.antisymm {a b : Mono} (ha : a.WF = true) (hb : b.WF = true)
    (h1 : Dom a b) (h2 : Dom b a) : a = b := by
  have hs : a.scalar = b.scalar := by
    rw [← h1.2, sum_comm, h2.2]
  have hd : a.deltas = b.deltas :=
    sorted_ext ((sortedDeltas_iff _).1 ha) ((sortedDeltas_iff _).1 hb)
      (fun d => ⟨h1.subset d, h2.subset d⟩)
  cases a; cases b; simp only at hs hd; rw [hs, hd]

theorem inclusion_empty {m x : Mono} (h : m.inclusion x = .empty) : ¬ Dom x m ∧ ¬ Dom m x := by
  unfold Mono.inclusion at h
  simp only at h
  split at h
  · cases h
  · rename_i h1
    split at h
    · cases h
    · rename_i h2
      constructor
      · rintro ⟨c1, c2⟩
        apply h1
        rw [c1, c2]; simp
      · rintro ⟨c1, c2⟩
        apply h2
        rw [c1, sum_comm, c2]; simp

/-! ## antichains -/

/-- no monomial of the list dominates another one -/
def AC (p : List Mono) : Prop := p.Pairwise (fun a b => ¬ Dom a b ∧ ¬ Dom b a)

theorem AC.eq_of_dom {p : List Mono} (h : AC p) {a b : Mono} (ha : a ∈ p) (hb : b ∈ p)
    (hd : Dom a b) : a = b := by
  by_contra hne
  have : Std.Symm (fun a b : Mono => ¬ Dom a b ∧ ¬ Dom b a) := ⟨fun _ _ h => ⟨h.2, h.1⟩⟩
  exact (List.Pairwise.forall h ha hb hne).1 hd

theorem AC.dnodup {p : List Mono} (h : AC p) : DNodup p := by
  unfold DNodup List.Nodup
  rw [List.pairwise_map]
  refine List.Pairwise.imp ?_ h
  intro a b hab e
  rcases add_left_or_right b.scalar a.scalar with hs | hs
  · exact hab.2 ⟨contains_self_deltas e, by rw [sum_comm]; exact hs⟩
  · exact hab.1 ⟨contains_self_deltas e.symm, hs⟩

theorem AC_scanInsert (l : List Mono) (x : Mono) (hl : AC l) : AC (Poly.scanInsert l x) := by
  induction l with
  | nil => simp [scanInsert_nil, AC]
  | cons m ms ih =>
    unfold AC at hl
    rw [List.pairwise_cons] at hl
    obtain ⟨hm, hms⟩ := hl
    cases h : m.inclusion x with
    | contains => rw [scanInsert_cons_contains ms h]; exact ih hms
    | included =>
      rw [scanInsert_cons_included ms h]
      unfold AC; rw [List.pairwise_cons]; exact ⟨hm, hms⟩
    | empty =>
      rw [scanInsert_cons_empty ms h]
      unfold AC; rw [List.pairwise_cons]
      refine ⟨?_, ih hms⟩
      intro b hb
      rcases mem_scanInsert hb with hb | rfl
      · exact hm b hb
      · have := inclusion_empty h
        exact ⟨this.2, this.1⟩

theorem AC_foldl_scanInsert (xs l : List Mono) (hl : AC l) : AC (xs.foldl Poly.scanInsert l) := by
  induction xs generalizing l with
  | nil => exact hl
  | cons x t ih => exact ih _ (AC_scanInsert l x hl)

theorem AC_perm {l₁ l₂ : List Mono} (h : l₁.Perm l₂) (h1 : AC l₁) : AC l₂ := by
  unfold AC at *
  exact (h.pairwise_iff (fun {a b} hab => ⟨hab.2, hab.1⟩)).1 h1

/-! ## canonical polynomials -/

structure Canon (p : Poly) : Prop where
  wf : p.WF = true
  sorted : SortedP p
  ac : AC p
  nz : p = Poly.zero ∨ (p ≠ [] ∧ ∀ m ∈ p, m.scalar ≠ .o)

theorem Canon.ne_nil {p : Poly} (h : Canon p) : p ≠ [] := by
  rcases h.nz with e | e
  · rw [e]; simp [Poly.zero]
  · exact e.1

theorem Canon_zero : Canon Poly.zero :=
  ⟨rfl, by simp [SortedP, Poly.zero], by simp [AC, Poly.zero], Or.inl rfl⟩

theorem Canon_unit : Canon Poly.unit :=
  ⟨rfl, by simp [SortedP, Poly.unit], by simp [AC, Poly.unit],
    Or.inr ⟨by simp [Poly.unit], by simp [Poly.unit]⟩⟩

theorem Canon_removeZeros (l : List Mono) (hw : Poly.WF l = true) (hs : SortedP l) (ha : AC l) :
    Canon (Poly.removeZeros l) := by
  unfold Poly.removeZeros
  simp only
  split
  · exact Canon_zero
  · rename_i hne
    refine ⟨WF_filter _ _ hw, ?_, ?_, Or.inr ⟨?_, ?_⟩⟩
    · exact List.Pairwise.sublist List.filter_sublist hs
    · exact List.Pairwise.sublist List.filter_sublist ha
    · simpa [List.isEmpty_iff] using hne
    · intro m hm
      simpa using (List.mem_filter.1 hm).2

theorem ofList_of_ne_nil {l : List Mono} (h : l ≠ []) : Poly.ofList l = l := by
  unfold Poly.ofList
  rw [if_neg]
  simpa [List.isEmpty_iff] using h

theorem copy_of_canon {p : Poly} (h : Canon p) : Poly.copy p = p := by
  rw [polyCopy_of_WF h.wf, ofList_of_ne_nil h.ne_nil]

/-- `add` keeps the left operand's canonical form, whatever the (well-formed) right operand -/
theorem Canon_add (p q : Poly) (hp : Canon p) (hq : q.WF = true) : Canon (Poly.add p q) := by
  have hne : p.isEmpty = false := by
    cases p with
    | nil => exact absurd rfl hp.ne_nil
    | cons _ _ => rfl
  unfold Poly.add
  rw [hne]
  simp only [Bool.false_and, Bool.false_eq_true, if_false]
  split
  · rw [copy_of_canon hp]; exact hp
  · rw [copy_of_canon hp]
    have hL_ac : AC (q.foldl Poly.scanInsert p) := AC_foldl_scanInsert _ _ hp.ac
    have hL_wf : Poly.WF (q.foldl Poly.scanInsert p) = true := WF_foldl_scanInsert _ _ hp.wf hq
    have hperm := sortMonos_perm _ hL_ac.dnodup
    have hS_ac : AC (Poly.sortMonos (q.foldl Poly.scanInsert p)) := AC_perm hperm.symm hL_ac
    have hS_wf := WF_sortMonos _ hL_wf
    have hS_s := SortedP_sortMonos (q.foldl Poly.scanInsert p)
    by_cases hnil : Poly.sortMonos (q.foldl Poly.scanInsert p) = []
    · rw [hnil]
      exact Canon_removeZeros _ (by rfl) (by simp [SortedP, Poly.ofList, Poly.zero])
        (by simp [AC, Poly.ofList, Poly.zero])
    · rw [ofList_of_ne_nil hnil]
      exact Canon_removeZeros _ hS_wf hS_s hS_ac

end Mwp.FixTerm
