/-
  (C07, exactness of the removal pass) Inserting an unsupported statement into a block and
  running the removal pass gives the same tree as the removal pass without it, and the count of
  omitted commands goes up by exactly one.
-/
import Mwp.Lemmas.SyntaxThmsCov2
import Mwp.Model.Run
namespace Mwp
open Mwp Mwp.Syntax

/-! ### the shape of a rejection -/

/-- whenever `Coverage` charges a node to its container, it charges exactly one handler call,
    nothing inside, and leaves the node as it is -/
theorem covN_up_shape : (n : Node) → ∀ c, covN n = .ok c → c.up > 0 →
    c.up = 1 ∧ c.inner = 0 ∧ c.mod = n
  | .id _ | .const .. | .brk | .cont | .empty | .typeDecl | .ternary .. | .arrayRef ..
  | .switch .. | .goto _ | .funcCall .. | .binop .. | .other .. | .funcDecl _
  | .compound none | .ret none => by
    intro c h hu
    simp only [covN, pure_eq_ok, Except.ok.injEq] at h
    first
      | (split at h <;> subst h <;>
          first | exact absurd hu (Nat.lt_irrefl 0) | exact ⟨rfl, rfl, rfl⟩)
      | (subst h; first | exact absurd hu (Nat.lt_irrefl 0) | exact ⟨rfl, rfl, rfl⟩)
  | .decl .. => by
    intro c h hu
    simp only [covN_decl, Except.ok.injEq] at h
    subst h
    revert hu
    cases declOK _ _ <;> intro hu
    · exact ⟨rfl, rfl, rfl⟩
    · exact absurd hu (Nat.lt_irrefl 0)
  | .cast e => by
    intro c h hu
    simp only [covN_cast, bind_eq_ok, Except.ok.injEq] at h
    obtain ⟨a, ha, rfl⟩ := h
    obtain ⟨h1, h2, h3⟩ := covN_up_shape e a ha hu
    exact ⟨h1, h2, by simp only [h3]⟩
  | .label _ e => by
    intro c h hu
    simp only [covN, bind_eq_ok, pure_eq_ok, Except.ok.injEq] at h
    obtain ⟨a, ha, rfl⟩ := h
    obtain ⟨h1, h2, h3⟩ := covN_up_shape e a ha hu
    exact ⟨h1, h2, by simp only [h3]⟩
  | .ret (some e) => by
    intro c h hu
    simp only [covN] at h
    split at h
    · simp only [pure_eq_ok, Except.ok.injEq] at h; subst h; exact ⟨rfl, rfl, rfl⟩
    simp only [bind_eq_ok, pure_eq_ok, Except.ok.injEq] at h
    obtain ⟨a, ha, rfl⟩ := h
    obtain ⟨h1, h2, h3⟩ := covN_up_shape e a ha hu
    exact ⟨h1, h2, by simp only [h3]⟩
  | .unop op e => by
    intro c h hu
    rw [covN_unop] at h
    split at h
    · simp only [bind_eq_ok, Except.ok.injEq] at h
      obtain ⟨a, ha, rfl⟩ := h
      obtain ⟨h1, h2, h3⟩ := covN_up_shape e a ha hu
      exact ⟨h1, h2, by simp only [h3]⟩
    · cases h; exact ⟨rfl, rfl, rfl⟩
  | .assign op l r => by
    intro c h hu
    rw [covN_assign] at h
    split at h
    · cases h; exact ⟨rfl, rfl, rfl⟩
    · simp only [bind_eq_ok, Except.ok.injEq] at h
      obtain ⟨a, ha, rfl⟩ := h
      obtain ⟨h1, h2, h3⟩ := covN_up_shape r a ha hu
      exact ⟨h1, h2, by simp only [h3]⟩
  | .case_ _ l | .default_ l | .compound (some l) | .declList l | .exprList l | .paramList l => by
    intro c h hu
    simp only [covN, bind_eq_ok, pure_eq_ok, Except.ok.injEq] at h
    obtain ⟨a, ha, rfl⟩ := h
    exact absurd hu (Nat.lt_irrefl 0)
  | .while_ _ b | .doWhile _ b => by
    intro c h hu
    simp only [covN] at h
    split at h
    · simp only [pure_eq_ok, Except.ok.injEq] at h; subst h; exact ⟨rfl, rfl, rfl⟩
    simp only [bind_eq_ok, pure_eq_ok, Except.ok.injEq] at h
    obtain ⟨a, ha, rfl⟩ := h
    exact absurd hu (Nat.lt_irrefl 0)
  | .for_ init cond next b => by
    intro c h hu
    rw [covN_for] at h
    split at h
    · simp only [bind_eq_ok, Except.ok.injEq] at h
      obtain ⟨a, ha, rfl⟩ := h
      exact absurd hu (Nat.lt_irrefl 0)
    · cases h; exact ⟨rfl, rfl, rfl⟩
  | .ifs _ t f => by
    intro c h hu
    simp only [covN] at h
    split at h
    · simp only [pure_eq_ok, Except.ok.injEq] at h; subst h; exact ⟨rfl, rfl, rfl⟩
    simp only [bind_eq_ok, pure_eq_ok, Except.ok.injEq] at h
    obtain ⟨a, ha, b, hb, rfl⟩ := h
    exact absurd hu (Nat.lt_irrefl 0)
  | .funcDef d b => by
    intro c h hu
    by_cases hd : ∃ nm a i, d = .decl nm (.funcDecl (some a)) i
    · obtain ⟨nm, a, i, rfl⟩ := hd
      rw [covN_funcDef_some] at h
      obtain ⟨ca, cb, _, _, _, _, rfl⟩ := h
      exact absurd hu (Nat.lt_irrefl 0)
    · rw [covN_funcDef_other _ _ _ (fun nm a i h => hd ⟨nm, a, i, h⟩)] at h
      obtain ⟨cb, _, _, rfl⟩ := h
      exact absurd hu (Nat.lt_irrefl 0)

/-! ### list level: an unsupported item is dropped, the rest is untouched -/

/-- the item-wise walk over `l1 ++ s :: l2`, `s` unsupported, is the walk over `l1 ++ l2` with
    `s`'s charge added to the count: same remaining list -/
theorem covList_insert_eq (s : Node) (cs : Cov) (hs : covN s = .ok cs) (hu : cs.up > 0) :
    (l1 l2 : List Node) → covList (l1 ++ s :: l2) =
      covList (l1 ++ l2) >>= fun r => .ok (r.1 + (cs.up + cs.inner), r.2)
  | [], l2 => by
    simp only [List.nil_append, covList, hs, ok_bind, pure_eq_ok, if_pos hu]
    cases covList l2 with
    | error e => rfl
    | ok r => simp only [ok_bind, Nat.add_comm]
  | n :: l1, l2 => by
    simp only [List.cons_append, covList, covList_insert_eq s cs hs hu l1 l2]
    cases covN n with
    | error e => rfl
    | ok c =>
      cases covList (l1 ++ l2) with
      | error e => rfl
      | ok r =>
        simp only [ok_bind, pure_eq_ok]
        split <;> simp only [Nat.add_assoc]

/-- (C07, list level) same remaining list, count increased by exactly one -/
theorem covList_insert (s : Node) (cs : Cov) (hs : covN s = .ok cs) (hu : cs.up > 0)
    (l1 l2 l' : List Node) (k : Nat) :
    covList (l1 ++ s :: l2) = .ok (k + 1, l') ↔ covList (l1 ++ l2) = .ok (k, l') := by
  obtain ⟨h1, h2, _⟩ := covN_up_shape s cs hs hu
  rw [covList_insert_eq s cs hs hu, h1, h2]
  cases covList (l1 ++ l2) with
  | error e => simp only [error_bind, reduceCtorEq]
  | ok r =>
    obtain ⟨a, b⟩ := r
    simp only [ok_bind, Except.ok.injEq, Prod.mk.injEq, Nat.add_zero, Nat.add_right_cancel_iff]

/-- an unsupported single statement in a branch: the branch is set to the empty statement
    (not removed), one omitted command -/
theorem covSlot_unsupported (s : Node) (cs : Cov) (hs : covN s = .ok cs) (hu : cs.up > 0) :
    covSlot (some s) = .ok (1, some .empty) ∧ covSlot (some .empty) = .ok (0, some .empty) := by
  obtain ⟨h1, h2, _⟩ := covN_up_shape s cs hs hu
  constructor
  · simp only [covSlot, hs, ok_bind, pure_eq_ok, h1, h2]; rfl
  · simp only [covSlot, covN]; rfl

/-- an unsupported brace-less loop body becomes the empty statement, one omitted command -/
theorem covBody_unsupported (s : Node) (cs : Cov) (hs : covN s = .ok cs) (hu : cs.up > 0) :
    covBody s = .ok (1, .empty) ∧ covBody .empty = .ok (0, .empty) := by
  obtain ⟨h1, h2, _⟩ := covN_up_shape s cs hs hu
  have hc : s.isCompound = false := by
    cases hc : s.isCompound
    · rfl
    · obtain ⟨items, rfl⟩ := isCompound_elim hc
      cases items <;> simp only [covN, bind_eq_ok, pure_eq_ok, Except.ok.injEq] at hs
      · subst hs; exact absurd hu (Nat.lt_irrefl 0)
      · obtain ⟨a, _, rfl⟩ := hs; exact absurd hu (Nat.lt_irrefl 0)
  constructor
  · simp only [covBody_nc s hc, hs, ok_bind, h1, h2]; rfl
  · simp only [covBody, covN]; rfl

/-! ### one-hole statement contexts -/

/-- a statement context with one hole; the hole stands for the item list of a block -/
inductive Ctx where
  /-- `{ □ }` -/
  | hole
  /-- `{ pre… C post… }`: the block containing the hole is itself an item of a block -/
  | block (pre : List Node) (c : Ctx) (post : List Node)
  | funcDef (d : Node) (c : Ctx)
  | while_ (cond : Node) (c : Ctx)
  | doWhile (cond : Node) (c : Ctx)
  | for_ (init cond next : Option Node) (c : Ctx)
  | ifT (cond : Node) (c : Ctx) (f : Option Node)
  | ifF (cond : Node) (t : Option Node) (c : Ctx)
  | label (name : String) (c : Ctx)

namespace Ctx

/-- put the item list `l` in the hole -/
def fill : Ctx → List Node → Node
  | hole, l => .compound (some l)
  | block pre c post, l => .compound (some (pre ++ c.fill l :: post))
  | funcDef d c, l => .funcDef d (c.fill l)
  | while_ cond c, l => .while_ cond (c.fill l)
  | doWhile cond c, l => .doWhile cond (c.fill l)
  | for_ i cond x c, l => .for_ i cond x (c.fill l)
  | ifT cond c f, l => .ifs cond (some (c.fill l)) f
  | ifF cond t c, l => .ifs cond t (some (c.fill l))
  | label nm c, l => .label nm (c.fill l)

/-- every statement on the path from the root to the hole is itself supported when `l` is in the
    hole: conditions change no variable, every enclosing `for` is a counted loop -/
def Supported : Ctx → List Node → Prop
  | hole, _ => True
  | block _ c _, l => c.Supported l
  | funcDef _ c, l => c.Supported l
  | while_ cond c, l => hasEffect cond = false ∧ c.Supported l
  | doWhile cond c, l => hasEffect cond = false ∧ c.Supported l
  | for_ i cond x c, l =>
    (∃ g, loopCompat (.for_ i cond x (c.fill l)) = .ok (true, g)) ∧ c.Supported l
  | ifT cond c _, l => hasEffect cond = false ∧ c.Supported l
  | ifF cond _ c, l => hasEffect cond = false ∧ c.Supported l
  | label _ c, l => c.Supported l

/-- `loop_compat` of every enclosing `for` gives the same verdict with `l` and with `l'` in the
    hole -/
def Compat : Ctx → List Node → List Node → Prop
  | hole, _, _ => True
  | block _ c _, l, l' => c.Compat l l'
  | funcDef _ c, l, l' => c.Compat l l'
  | while_ _ c, l, l' => c.Compat l l'
  | doWhile _ c, l, l' => c.Compat l l'
  | for_ i cond x c, l, l' =>
    loopCompat (.for_ i cond x (c.fill l)) = loopCompat (.for_ i cond x (c.fill l')) ∧
      c.Compat l l'
  | ifT _ c _, l, l' => c.Compat l l'
  | ifF _ _ c, l, l' => c.Compat l l'
  | label _ c, l, l' => c.Compat l l'

theorem Supported.of_compat : (C : Ctx) → (l l' : List Node) → C.Compat l l' → C.Supported l' →
    C.Supported l
  | hole, _, _, _, _ => trivial
  | block _ c _, l, l', hc, hs => Supported.of_compat c l l' hc hs
  | funcDef _ c, l, l', hc, hs => Supported.of_compat c l l' hc hs
  | while_ _ c, l, l', hc, hs => ⟨hs.1, Supported.of_compat c l l' hc hs.2⟩
  | doWhile _ c, l, l', hc, hs => ⟨hs.1, Supported.of_compat c l l' hc hs.2⟩
  | for_ _ _ _ c, l, l', hc, hs =>
    ⟨by obtain ⟨g, hg⟩ := hs.1; exact ⟨g, hc.1.trans hg⟩, Supported.of_compat c l l' hc.2 hs.2⟩
  | ifT _ c _, l, l', hc, hs => ⟨hs.1, Supported.of_compat c l l' hc hs.2⟩
  | ifF _ _ c, l, l', hc, hs => ⟨hs.1, Supported.of_compat c l l' hc hs.2⟩
  | label _ c, l, l', hc, hs => Supported.of_compat c l l' hc hs

end Ctx

/-! ### one more omitted command, same everything else -/

/-- same charge to the container, same remaining tree, one more omitted command inside -/
def bump (c : Cov) : Cov := ⟨c.up, c.inner + 1, c.mod⟩

theorem covBody_eq (n : Node) :
    covBody n = covN n >>= fun c =>
      .ok (if c.up > 0 then (c.up + c.inner, .empty) else (c.inner, c.mod)) := by
  cases hc : n.isCompound
  · exact covBody_nc n hc
  · obtain ⟨items, rfl⟩ := isCompound_elim hc
    cases items with
    | none => simp only [covBody, covN]; rfl
    | some l =>
      simp only [covBody, covN]
      cases covList l <;> rfl

theorem covBody_bump (n' n : Node) (h : covN n' = covN n >>= fun c => .ok (bump c)) :
    covBody n' = covBody n >>= fun r => .ok (r.1 + 1, r.2) := by
  rw [covBody_eq, covBody_eq, h]
  cases covN n with
  | error e => rfl
  | ok c =>
    simp only [ok_bind, bump]
    split <;> simp only [Nat.add_assoc]

theorem covSlot_bump (n' n : Node) (h : covN n' = covN n >>= fun c => .ok (bump c)) :
    covSlot (some n') = covSlot (some n) >>= fun r => .ok (r.1 + 1, r.2) := by
  simp only [covSlot, h]
  cases covN n with
  | error e => rfl
  | ok c =>
    simp only [ok_bind, bump, pure_eq_ok]
    split <;> simp only [Nat.add_assoc]

theorem covList_bump (n' n : Node) (h : covN n' = covN n >>= fun c => .ok (bump c))
    (post : List Node) : (pre : List Node) →
    covList (pre ++ n' :: post) = covList (pre ++ n :: post) >>= fun r => .ok (r.1 + 1, r.2)
  | [] => by
    simp only [List.nil_append, covList, h]
    cases covN n with
    | error e => rfl
    | ok c =>
      cases covList post with
      | error e => rfl
      | ok r =>
        simp only [ok_bind, bump, pure_eq_ok]
        split <;> simp only [Nat.add_assoc, Nat.add_comm 1]
  | m :: pre => by
    simp only [List.cons_append, covList, covList_bump n' n h post pre]
    cases covN m with
    | error e => rfl
    | ok c =>
      cases covList (pre ++ n :: post) with
      | error e => rfl
      | ok r =>
        simp only [ok_bind, pure_eq_ok]
        split <;> simp only [Nat.add_assoc]

theorem covN_funcDef_bump (d b' b : Node) (h : covN b' = covN b >>= fun c => .ok (bump c)) :
    covN (.funcDef d b') = covN (.funcDef d b) >>= fun c => .ok (bump c) := by
  by_cases hd : ∃ nm a i, d = .decl nm (.funcDecl (some a)) i
  · obtain ⟨nm, a, i, rfl⟩ := hd
    simp only [covN, h, throw_eq, pure_eq_ok]
    cases covN a with
    | error e => rfl
    | ok ca =>
      simp only [ok_bind]
      split
      · rfl
      · cases covN b with
        | error e => rfl
        | ok cb =>
          simp only [ok_bind, bump]
          split
          · rfl
          · simp only [ok_bind, Nat.add_assoc]
  · have hd' : ∀ nm a i, d = .decl nm (.funcDecl (some a)) i → False :=
      fun nm a i h => hd ⟨nm, a, i, h⟩
    rw [covN, covN]
    · simp only [h, throw_eq, pure_eq_ok, ok_bind]
      cases covN b with
      | error e => rfl
      | ok cb =>
        simp only [ok_bind, bump]
        split
        · rfl
        · simp only [ok_bind, Nat.add_assoc]
    · exact hd'
    · exact hd'

theorem lcP_of_supported {i cond x : Option Node} {b : Node}
    (h : ∃ g, loopCompat (.for_ i cond x b) = .ok (true, g)) : (lcP i cond x b).1 = true := by
  obtain ⟨g, hg⟩ := h
  rw [loopCompat_for, Except.ok.injEq] at hg
  rw [hg]

/-- (C07, context level, on `covN`) with the unsupported statement `s` inserted anywhere in the
    block in the hole, the walk gives the same charge and the same remaining tree, with one more
    omitted command -/
theorem covN_fill_insert (s : Node) (cs : Cov) (hs : covN s = .ok cs) (hu : cs.up > 0)
    (l1 l2 : List Node) : (C : Ctx) → C.Supported (l1 ++ s :: l2) → C.Supported (l1 ++ l2) →
    covN (C.fill (l1 ++ s :: l2)) = covN (C.fill (l1 ++ l2)) >>= fun c => .ok (bump c)
  | .hole, _, _ => by
    obtain ⟨h1, h2, _⟩ := covN_up_shape s cs hs hu
    simp only [Ctx.fill, covN, covList_insert_eq s cs hs hu, h1, h2]
    cases covList (l1 ++ l2) <;> rfl
  | .block pre c post, hX, hY => by
    have ih := covN_fill_insert s cs hs hu l1 l2 c hX hY
    simp only [Ctx.fill, covN, covList_bump _ _ ih post pre]
    cases covList (pre ++ c.fill (l1 ++ l2) :: post) <;> rfl
  | .label nm c, hX, hY => by
    have ih := covN_fill_insert s cs hs hu l1 l2 c hX hY
    simp only [Ctx.fill, covN, ih]
    cases covN (c.fill (l1 ++ l2)) <;> rfl
  | .while_ cond c, hX, hY => by
    have ih := covN_fill_insert s cs hs hu l1 l2 c hX.2 hY.2
    simp only [Ctx.fill, covN, hX.1, Bool.false_eq_true, if_false, covBody_bump _ _ ih]
    cases covBody (c.fill (l1 ++ l2)) <;> rfl
  | .doWhile cond c, hX, hY => by
    have ih := covN_fill_insert s cs hs hu l1 l2 c hX.2 hY.2
    simp only [Ctx.fill, covN, hX.1, Bool.false_eq_true, if_false, covBody_bump _ _ ih]
    cases covBody (c.fill (l1 ++ l2)) <;> rfl
  | .for_ i cond x c, hX, hY => by
    have ih := covN_fill_insert s cs hs hu l1 l2 c hX.2 hY.2
    simp only [Ctx.fill, covN_for, lcP_of_supported hX.1, lcP_of_supported hY.1, if_true,
      covBody_bump _ _ ih]
    cases covBody (c.fill (l1 ++ l2)) <;> rfl
  | .ifT cond c f, hX, hY => by
    have ih := covN_fill_insert s cs hs hu l1 l2 c hX.2 hY.2
    simp only [Ctx.fill, covN, hX.1, Bool.false_eq_true, if_false, covSlot_bump _ _ ih]
    cases covSlot (some (c.fill (l1 ++ l2))) with
    | error e => rfl
    | ok r =>
      cases covSlot f with
      | error e => rfl
      | ok r' => simp only [ok_bind, pure_eq_ok, bump, Nat.add_right_comm]
  | .ifF cond t c, hX, hY => by
    have ih := covN_fill_insert s cs hs hu l1 l2 c hX.2 hY.2
    simp only [Ctx.fill, covN, hX.1, Bool.false_eq_true, if_false, covSlot_bump _ _ ih]
    cases covSlot t with
    | error e => rfl
    | ok r' =>
      cases covSlot (some (c.fill (l1 ++ l2))) with
      | error e => rfl
      | ok r => simp only [ok_bind, pure_eq_ok, bump, Nat.add_assoc]
  | .funcDef d c, hX, hY => by
    have ih := covN_fill_insert s cs hs hu l1 l2 c hX hY
    exact covN_funcDef_bump d _ _ ih

/-! ### (C07) exactness of the removal pass, on `coverage` -/

theorem coverage_bump (n' n : Node) (h : covN n' = covN n >>= fun c => .ok (bump c)) :
    coverage n' = coverage n >>= fun r => .ok (r.1 + 1, r.2) := by
  simp only [coverage, h]
  cases covN n with
  | error e => rfl
  | ok c =>
    simp only [ok_bind, bump]
    split <;> rfl

/-- (C07, context level) Insert an unsupported statement `s` anywhere in a block, at any depth
    below supported statements, such that the `loop_compat` verdict of every enclosing `for` is
    not changed by it: the removal pass yields the same tree, and exactly one more omitted
    command. -/
theorem coverage_insert (C : Ctx) (s : Node) (cs : Cov) (hs : covN s = .ok cs) (hu : cs.up > 0)
    (l1 l2 : List Node) (hsup : C.Supported (l1 ++ l2))
    (hcompat : C.Compat (l1 ++ s :: l2) (l1 ++ l2)) (k : Nat) (m : Node) :
    coverage (C.fill (l1 ++ s :: l2)) = .ok (k + 1, m) ↔
      coverage (C.fill (l1 ++ l2)) = .ok (k, m) := by
  have hX := Ctx.Supported.of_compat C _ _ hcompat hsup
  rw [coverage_bump _ _ (covN_fill_insert s cs hs hu l1 l2 C hX hsup)]
  cases coverage (C.fill (l1 ++ l2)) with
  | error e => simp only [error_bind, reduceCtorEq]
  | ok r =>
    obtain ⟨a, b⟩ := r
    simp only [ok_bind, Except.ok.injEq, Prod.mk.injEq, Nat.add_right_cancel_iff]

/-! ### a fully supported tree supports every path -/

theorem covList_zero_mid (n : Node) (post : List Node) : (pre : List Node) → ∀ l',
    covList (pre ++ n :: post) = .ok (0, l') → ∃ c, covN n = .ok c ∧ c.up = 0 ∧ c.inner = 0
  | [], l' => by
    intro h
    simp only [List.nil_append, covList, bind_eq_ok, pure_eq_ok, Except.ok.injEq] at h
    obtain ⟨c, hc, r, _, h⟩ := h
    split at h
    · simp only [Prod.mk.injEq] at h; omega
    · rename_i hu
      simp only [Prod.mk.injEq] at h
      exact ⟨c, hc, by omega, by omega⟩
  | m :: pre, l' => by
    intro h
    simp only [List.cons_append, covList, bind_eq_ok, pure_eq_ok, Except.ok.injEq] at h
    obtain ⟨c, _, r, hr, h⟩ := h
    obtain ⟨k, l''⟩ := r
    have hk : k = 0 := by
      split at h <;> simp only [Prod.mk.injEq] at h <;> omega
    subst hk
    exact covList_zero_mid n post pre l'' hr

theorem covBody_zero (n : Node) (b' : Node) (h : covBody n = .ok (0, b')) :
    ∃ c, covN n = .ok c ∧ c.up = 0 ∧ c.inner = 0 := by
  rw [covBody_eq, bind_eq_ok] at h
  obtain ⟨c, hc, h⟩ := h
  split at h
  · simp only [Except.ok.injEq, Prod.mk.injEq] at h; omega
  · simp only [Except.ok.injEq, Prod.mk.injEq] at h
    exact ⟨c, hc, by omega, h.1⟩

theorem covSlot_zero (n : Node) (o' : Option Node) (h : covSlot (some n) = .ok (0, o')) :
    ∃ c, covN n = .ok c ∧ c.up = 0 ∧ c.inner = 0 := by
  simp only [covSlot, bind_eq_ok, pure_eq_ok] at h
  obtain ⟨c, hc, h⟩ := h
  split at h
  · simp only [Except.ok.injEq, Prod.mk.injEq] at h; omega
  · simp only [Except.ok.injEq, Prod.mk.injEq] at h
    exact ⟨c, hc, by omega, h.1⟩

theorem Ctx.supported_of_full (l : List Node) : (C : Ctx) → ∀ c, covN (C.fill l) = .ok c →
    c.up = 0 → c.inner = 0 → C.Supported l
  | .hole => fun _ _ _ _ => trivial
  | .block pre C post => by
    intro c h _ hi
    simp only [Ctx.fill, covN, bind_eq_ok, pure_eq_ok, Except.ok.injEq] at h
    obtain ⟨a, ha, rfl⟩ := h
    obtain ⟨k, l'⟩ := a
    have hk : k = 0 := hi
    subst hk
    obtain ⟨c', hc', hu', hi'⟩ := covList_zero_mid _ post pre l' ha
    exact Ctx.supported_of_full l C c' hc' hu' hi'
  | .label nm C => by
    intro c h hu hi
    simp only [Ctx.fill, covN, bind_eq_ok, pure_eq_ok, Except.ok.injEq] at h
    obtain ⟨a, ha, rfl⟩ := h
    exact Ctx.supported_of_full l C a ha hu hi
  | .funcDef d C => by
    intro c h _ hi
    simp only [Ctx.fill] at h
    have key : ∃ cb, covN (C.fill l) = .ok cb ∧ cb.up = 0 ∧ cb.inner = 0 := by
      by_cases hd : ∃ nm a i, d = .decl nm (.funcDecl (some a)) i
      · obtain ⟨nm, a, i, rfl⟩ := hd
        rw [covN_funcDef_some] at h
        obtain ⟨ca, cb, _, _, hb, hub, rfl⟩ := h
        have hi : ca.inner + cb.inner = 0 := hi
        exact ⟨cb, hb, hub, by omega⟩
      · rw [covN_funcDef_other _ _ _ (fun nm a i h => hd ⟨nm, a, i, h⟩)] at h
        obtain ⟨cb, hb, hub, rfl⟩ := h
        exact ⟨cb, hb, hub, hi⟩
    obtain ⟨cb, hb, hub, hib⟩ := key
    exact Ctx.supported_of_full l C cb hb hub hib
  | .while_ cond C => by
    intro c h hu hi
    simp only [Ctx.fill, covN] at h
    split at h
    · simp only [pure_eq_ok, Except.ok.injEq] at h; subst h; cases hu
    rename_i hc
    simp only [bind_eq_ok, pure_eq_ok, Except.ok.injEq] at h
    obtain ⟨a, ha, rfl⟩ := h
    obtain ⟨k, b'⟩ := a
    have hk : k = 0 := hi
    subst hk
    obtain ⟨c', hc', hu', hi'⟩ := covBody_zero _ b' ha
    exact ⟨by simpa using hc, Ctx.supported_of_full l C c' hc' hu' hi'⟩
  | .doWhile cond C => by
    intro c h hu hi
    simp only [Ctx.fill, covN] at h
    split at h
    · simp only [pure_eq_ok, Except.ok.injEq] at h; subst h; cases hu
    rename_i hc
    simp only [bind_eq_ok, pure_eq_ok, Except.ok.injEq] at h
    obtain ⟨a, ha, rfl⟩ := h
    obtain ⟨k, b'⟩ := a
    have hk : k = 0 := hi
    subst hk
    obtain ⟨c', hc', hu', hi'⟩ := covBody_zero _ b' ha
    exact ⟨by simpa using hc, Ctx.supported_of_full l C c' hc' hu' hi'⟩
  | .for_ i cond x C => by
    intro c h hu hi
    simp only [Ctx.fill] at h
    rw [covN_for] at h
    split at h
    · rename_i hl
      simp only [bind_eq_ok, Except.ok.injEq] at h
      obtain ⟨a, ha, rfl⟩ := h
      obtain ⟨k, b'⟩ := a
      have hk : k = 0 := hi
      subst hk
      obtain ⟨c', hc', hu', hi'⟩ := covBody_zero _ b' ha
      refine ⟨?_, Ctx.supported_of_full l C c' hc' hu' hi'⟩
      rcases lcP_cases i cond x (C.fill l) with ⟨g, hg⟩ | hg
      · exact ⟨some g, by rw [loopCompat_for, hg]⟩
      · rw [hg] at hl; cases hl
    · cases h; cases hu
  | .ifT cond C f => by
    intro c h hu hi
    simp only [Ctx.fill, covN] at h
    split at h
    · simp only [pure_eq_ok, Except.ok.injEq] at h; subst h; cases hu
    rename_i hc
    simp only [bind_eq_ok, pure_eq_ok, Except.ok.injEq] at h
    obtain ⟨a, ha, b, hb, rfl⟩ := h
    obtain ⟨k, o'⟩ := a
    have hk : k = 0 := by have : k + b.1 = 0 := hi; omega
    subst hk
    obtain ⟨c', hc', hu', hi'⟩ := covSlot_zero _ o' ha
    exact ⟨by simpa using hc, Ctx.supported_of_full l C c' hc' hu' hi'⟩
  | .ifF cond t C => by
    intro c h hu hi
    simp only [Ctx.fill, covN] at h
    split at h
    · simp only [pure_eq_ok, Except.ok.injEq] at h; subst h; cases hu
    rename_i hc
    simp only [bind_eq_ok, pure_eq_ok, Except.ok.injEq] at h
    obtain ⟨a, ha, b, hb, rfl⟩ := h
    obtain ⟨k, o'⟩ := b
    have hk : k = 0 := by have : a.1 + k = 0 := hi; omega
    subst hk
    obtain ⟨c', hc', hu', hi'⟩ := covSlot_zero _ o' hb
    exact ⟨by simpa using hc, Ctx.supported_of_full l C c' hc' hu' hi'⟩

theorem Ctx.supported_of_coverage (C : Ctx) (l : List Node) (m : Node)
    (h : coverage (C.fill l) = .ok (0, m)) : C.Supported l := by
  obtain ⟨c, hc, hu, hi, _⟩ := coverage_inv _ m 0 h
  exact Ctx.supported_of_full l C c hc hu hi

/-- (C07, the property) a fully supported function with an unsupported statement inserted: the
    removal pass returns exactly the function without it, and reports one omitted command -/
theorem coverage_insert_full (C : Ctx) (s : Node) (cs : Cov) (hs : covN s = .ok cs)
    (hu : cs.up > 0) (l1 l2 : List Node) (m : Node)
    (hfull : coverage (C.fill (l1 ++ l2)) = .ok (0, m))
    (hcompat : C.Compat (l1 ++ s :: l2) (l1 ++ l2)) :
    coverage (C.fill (l1 ++ s :: l2)) = .ok (1, C.fill (l1 ++ l2)) := by
  have hm := coverage_full_untouched _ m hfull
  subst hm
  exact (coverage_insert C s cs hs hu l1 l2 (Ctx.supported_of_coverage C _ _ hfull) hcompat 0
    _).2 hfull

/-- two unsupported statements in the same block: iterate -/
theorem coverage_insert_two (C : Ctx) (s1 s2 : Node) (c1 c2 : Cov)
    (h1 : covN s1 = .ok c1) (hu1 : c1.up > 0) (h2 : covN s2 = .ok c2) (hu2 : c2.up > 0)
    (l1 l2 l3 : List Node) (m : Node)
    (hfull : coverage (C.fill (l1 ++ (l2 ++ l3))) = .ok (0, m))
    (hcompat2 : C.Compat (l1 ++ (l2 ++ s2 :: l3)) (l1 ++ (l2 ++ l3)))
    (hcompat1 : C.Compat (l1 ++ s1 :: (l2 ++ s2 :: l3)) (l1 ++ (l2 ++ s2 :: l3))) :
    coverage (C.fill (l1 ++ s1 :: (l2 ++ s2 :: l3))) = .ok (2, C.fill (l1 ++ (l2 ++ l3))) := by
  have hsup := Ctx.supported_of_coverage C _ _ hfull
  have hA : coverage (C.fill (l1 ++ (l2 ++ s2 :: l3))) = .ok (1, C.fill (l1 ++ (l2 ++ l3))) := by
    have := coverage_insert_full C s2 c2 h2 hu2 (l1 ++ l2) l3 m
      (by rw [List.append_assoc]; exact hfull)
      (by rw [List.append_assoc, List.append_assoc]; exact hcompat2)
    rwa [List.append_assoc, List.append_assoc] at this
  exact (coverage_insert C s1 c1 h1 hu1 l1 (l2 ++ s2 :: l3)
    (Ctx.Supported.of_compat C _ _ hcompat2 hsup) hcompat1 1 _).2 hA

/-! ### consequences for the driver (`Analysis.run` on one function) -/

section Driver
variable (C : Ctx) (s : Node) (cs : Cov) (hs : covN s = .ok cs) (hu : cs.up > 0)
  (l1 l2 : List Node) (m : Node) (hfull : coverage (C.fill (l1 ++ l2)) = .ok (0, m))
  (hcompat : C.Compat (l1 ++ s :: l2) (l1 ++ l2))
include hs hu hfull hcompat

/-- non-strict mode: the syntax gate hands the analysis exactly the function without `s` -/
theorem syntaxCheck_insert :
    Run.syntaxCheck (C.fill (l1 ++ s :: l2)) false = .ok (some (C.fill (l1 ++ l2))) ∧
      Run.syntaxCheck (C.fill (l1 ++ l2)) false = .ok (some (C.fill (l1 ++ l2))) := by
  have hm := coverage_full_untouched _ m hfull
  subst hm
  constructor
  · simp only [Run.syntaxCheck, coverage_insert_full C s cs hs hu l1 l2 _ hfull hcompat]; rfl
  · simp only [Run.syntaxCheck, hfull]; rfl

/-- non-strict mode: the analysis result is the same with and without the inserted statement -/
theorem runOne_insert (fin : Bool) :
    Run.runOne (C.fill (l1 ++ s :: l2)) fin false = Run.runOne (C.fill (l1 ++ l2)) fin false := by
  obtain ⟨h1, h2⟩ := syntaxCheck_insert C s cs hs hu l1 l2 m hfull hcompat
  simp only [Run.runOne, h1, h2]

/-- strict mode refuses the function with the inserted statement -/
theorem runOne_insert_strict (fin : Bool) :
    Run.runOne (C.fill (l1 ++ s :: l2)) fin true = .ok none := by
  simp only [Run.runOne, Run.syntaxCheck, coverage_insert_full C s cs hs hu l1 l2 m hfull hcompat]
  rfl

end Driver

/-! ### a sufficient condition for `Compat`: the inserted statement mentions no variable of the
    condition or of the initialiser sources of an enclosing `for` -/

theorem varsPL_append : (a b : List Node) → varsPL (a ++ b) = varsPL a ++ varsPL b
  | [], b => by simp only [List.nil_append, varsPL]
  | n :: a, b => by simp only [List.cons_append, varsPL, varsPL_append a b, List.append_assoc]

/-- the parameter names `Variables` records for a function definition -/
def argVarsP : Node → List String
  | .decl _ (.funcDecl a) _ => varsPO a
  | _ => []

theorem varsP_funcDef (d b : Node) : varsP (.funcDef d b) = argVarsP d ++ varsP b := by
  cases d with
  | decl nm ty i =>
    cases ty with
    | funcDecl a => simp only [varsP, argVarsP]
    | _ => simp only [varsP, argVarsP]
  | _ => simp only [varsP, argVarsP]

theorem mem_guardOf (y : String) (r : Bool × Option String) :
    y ∈ guardOf r ↔ r = (true, some y) ∧ y.isEmpty = false := by
  obtain ⟨b, o⟩ := r
  cases b <;> cases o <;> simp only [guardOf, List.not_mem_nil, Prod.mk.injEq, reduceCtorEq,
    false_and, and_false, true_and, Option.some.injEq]
  rename_i x
  split
  · rename_i hx
    simp only [List.not_mem_nil, false_iff, not_and, Bool.not_eq_false]
    intro h; rw [← h]; exact hx
  · rename_i hx
    simp only [List.mem_singleton]
    constructor
    · intro h; subst h; exact ⟨rfl, by simpa using hx⟩
    · intro h; exact h.1.symm

theorem lcP_true_iff (i c x : Option Node) (b : Node) (g : String) :
    lcP i c x b = (true, some g) ↔
      hasEffectO c = false ∧
        loopXOf (initP i).1 (initP i).2 (normVars (varsPO c)) (normVars (varsPO x)) = [g] ∧
        g ∉ varsP b := by
  unfold lcP
  cases hasEffectO c
  · simp only [Bool.false_eq_true, if_false, true_and]
    rw [loopCompatOf_eq]
    split
    · rename_i y hy
      rw [hy]
      split
      · rename_i hb
        simp only [Prod.mk.injEq, reduceCtorEq, false_and, List.cons.injEq, and_true, false_iff,
          not_and]
        intro h; subst h
        rw [List.contains_iff_mem, mem_normVars] at hb
        exact fun hn => hn hb
      · rename_i hb
        simp only [Prod.mk.injEq, true_and, Option.some.injEq, List.cons.injEq, and_true]
        constructor
        · intro h; subst h
          refine ⟨rfl, ?_⟩
          intro hm; apply hb
          rw [List.contains_iff_mem, mem_normVars]; exact hm
        · intro h; exact h.1
    · rename_i hne
      simp only [Prod.mk.injEq, reduceCtorEq, false_and, false_iff, not_and]
      intro h; exact absurd h (hne g)
  · simp only [if_true, Prod.mk.injEq, reduceCtorEq, false_and]

/-- if the body variables agree on the guard candidates, the verdict is the same -/
theorem lcP_congr (i c x : Option Node) (b' b : Node)
    (h : ∀ g ∈ loopXOf (initP i).1 (initP i).2 (normVars (varsPO c)) (normVars (varsPO x)),
      g ∈ varsP b' ↔ g ∈ varsP b) : lcP i c x b' = lcP i c x b := by
  rcases lcP_cases i c x b with ⟨g, hg⟩ | hg
  · rw [hg]
    rw [lcP_true_iff] at hg ⊢
    refine ⟨hg.1, hg.2.1, ?_⟩
    rw [h g (by rw [hg.2.1]; exact List.mem_singleton_self g)]
    exact hg.2.2
  · rcases lcP_cases i c x b' with ⟨g', hg'⟩ | hg'
    · exfalso
      have : lcP i c x b = (true, some g') := by
        rw [lcP_true_iff] at hg' ⊢
        refine ⟨hg'.1, hg'.2.1, ?_⟩
        rw [← h g' (by rw [hg'.2.1]; exact List.mem_singleton_self g')]
        exact hg'.2.2
      rw [hg] at this; cases this
    · rw [hg, hg']

/-- the variables of the function with `s` inserted are those without it plus those of `s` -/
theorem Ctx.mem_varsP_fill (s : Node) (l1 l2 : List Node) : (C : Ctx) → ∀ y,
    y ∈ varsP (C.fill (l1 ++ s :: l2)) ↔ y ∈ varsP (C.fill (l1 ++ l2)) ∨ y ∈ varsP s
  | .hole, y => by
    simp only [Ctx.fill, varsP, varsPL_append, varsPL, List.mem_append]
    constructor
    · rintro (h | h | h)
      · exact .inl (.inl h)
      · exact .inr h
      · exact .inl (.inr h)
    · rintro ((h | h) | h)
      · exact .inl h
      · exact .inr (.inr h)
      · exact .inr (.inl h)
  | .block pre C post, y => by
    simp only [Ctx.fill, varsP, varsPL_append, varsPL, List.mem_append,
      Ctx.mem_varsP_fill s l1 l2 C y]
    constructor
    · rintro (h | (h | h) | h)
      · exact .inl (.inl h)
      · exact .inl (.inr (.inl h))
      · exact .inr h
      · exact .inl (.inr (.inr h))
    · rintro ((h | h | h) | h)
      · exact .inl h
      · exact .inr (.inl (.inl h))
      · exact .inr (.inr h)
      · exact .inr (.inl (.inr h))
  | .funcDef d C, y => by
    simp only [Ctx.fill, varsP_funcDef, List.mem_append, Ctx.mem_varsP_fill s l1 l2 C y, or_assoc]
  | .while_ cond C, y => by
    simp only [Ctx.fill, varsP, List.mem_append, Ctx.mem_varsP_fill s l1 l2 C y, or_assoc]
  | .doWhile cond C, y => by
    simp only [Ctx.fill, varsP, List.mem_append, Ctx.mem_varsP_fill s l1 l2 C y, or_assoc]
  | .label nm C, y => by
    simp only [Ctx.fill, varsP, Ctx.mem_varsP_fill s l1 l2 C y]
  | .ifT cond C f, y => by
    simp only [Ctx.fill, varsP, varsPO, List.mem_append, Ctx.mem_varsP_fill s l1 l2 C y]
    constructor
    · rintro ((h | h) | h)
      · exact .inl (.inl h)
      · exact .inr h
      · exact .inl (.inr h)
    · rintro ((h | h) | h)
      · exact .inl (.inl h)
      · exact .inr h
      · exact .inl (.inr h)
  | .ifF cond t C, y => by
    simp only [Ctx.fill, varsP, varsPO, List.mem_append, Ctx.mem_varsP_fill s l1 l2 C y,
      or_assoc]
  | .for_ i c x C, y => by
    have ih := Ctx.mem_varsP_fill s l1 l2 C
    simp only [Ctx.fill, varsP_for, List.mem_append, mem_guardOf, ih y]
    by_cases hys : y ∈ varsP s
    · simp only [hys, or_true]
    · simp only [hys, or_false]
      have : lcP i c x (C.fill (l1 ++ s :: l2)) = (true, some y) ↔
          lcP i c x (C.fill (l1 ++ l2)) = (true, some y) := by
        rw [lcP_true_iff, lcP_true_iff, ih y]
        simp only [hys, or_false]
      rw [this]

/-- `s` mentions no variable of the condition or of the initialiser sources of any enclosing
    `for` -/
def Ctx.Fresh (s : Node) : Ctx → Prop
  | .hole => True
  | .block _ c _ => c.Fresh s
  | .funcDef _ c => c.Fresh s
  | .while_ _ c => c.Fresh s
  | .doWhile _ c => c.Fresh s
  | .for_ i cond _ c =>
    (∀ v ∈ varsP s, v ∉ varsPO cond ∧ v ∉ (initP i).2) ∧ c.Fresh s
  | .ifT _ c _ => c.Fresh s
  | .ifF _ _ c => c.Fresh s
  | .label _ c => c.Fresh s

theorem Ctx.compat_of_fresh (s : Node) (l1 l2 : List Node) : (C : Ctx) → C.Fresh s →
    C.Compat (l1 ++ s :: l2) (l1 ++ l2)
  | .hole, _ => trivial
  | .block _ c _, h => Ctx.compat_of_fresh s l1 l2 c h
  | .funcDef _ c, h => Ctx.compat_of_fresh s l1 l2 c h
  | .while_ _ c, h => Ctx.compat_of_fresh s l1 l2 c h
  | .doWhile _ c, h => Ctx.compat_of_fresh s l1 l2 c h
  | .ifT _ c _, h => Ctx.compat_of_fresh s l1 l2 c h
  | .ifF _ _ c, h => Ctx.compat_of_fresh s l1 l2 c h
  | .label _ c, h => Ctx.compat_of_fresh s l1 l2 c h
  | .for_ i cond x c, h => by
    refine ⟨?_, Ctx.compat_of_fresh s l1 l2 c h.2⟩
    rw [loopCompat_for, loopCompat_for, lcP_congr]
    intro g hg
    rw [Ctx.mem_varsP_fill s l1 l2 c g]
    have hgs : g ∉ varsP s := by
      intro hm
      obtain ⟨h1, h2⟩ := h.1 g hm
      unfold loopXOf at hg
      rw [List.mem_filter, mem_normVars, List.mem_append, mem_normVars] at hg
      rcases hg.1 with h' | h'
      · exact h1 h'
      · exact h2 h'
    simp only [hgs, or_false]

/-- (C07, the property, with the freshness condition instead of `Compat`) -/
theorem coverage_insert_full_fresh (C : Ctx) (s : Node) (cs : Cov) (hs : covN s = .ok cs)
    (hu : cs.up > 0) (l1 l2 : List Node) (m : Node)
    (hfull : coverage (C.fill (l1 ++ l2)) = .ok (0, m)) (hfresh : C.Fresh s) :
    coverage (C.fill (l1 ++ s :: l2)) = .ok (1, C.fill (l1 ++ l2)) :=
  coverage_insert_full C s cs hs hu l1 l2 m hfull (Ctx.compat_of_fresh s l1 l2 C hfresh)

/-! ### both side conditions are needed -/

/-- `void f() { for (i = 0; i < n; i++) □ }` -/
def exForCtx : Ctx :=
  .funcDef (.decl (some "f") (.funcDecl none) none)
    (.block [] (.for_ (some (.assign "=" (.id "i") (.const "int" "0")))
      (some (.binop "<" (.id "i") (.id "n"))) (some (.unop "p++" (.id "i"))) .hole) [])

/-- `void f() { }` -/
def exEmptyF : Node := .funcDef (.decl (some "f") (.funcDecl none) none) (.compound (some []))

macro "ins_eval" : tactic => `(tactic|
  simp [exForCtx, exEmptyF, Ctx.fill, coverage, covN, covList, covBody, loopCompat, initVars,
    namesOf, varsN, varsL, varsO, loopCompatOf, normVars, insertName, hasEffect, hasEffectO,
    allowRhs, allowOperand, Node.isId, Node.isBinop, Node.isConst, Node.isUnop, Node.rmCast,
    Gen.binOps, Gen.uOps, Gen.incDec, Gen.reserved, bind, Except.bind, pure, Except.pure])

/-- `Compat` is needed: `a[1] = n;` mentions the guard `n` of the enclosing `for`, which stops
    being a counted loop and is removed as a whole: the result is not the original function -/
example :
    coverage (exForCtx.fill [.assign "=" (.id "x") (.binop "+" (.id "x") (.const "int" "1"))]) =
      .ok (0, exForCtx.fill [.assign "=" (.id "x") (.binop "+" (.id "x") (.const "int" "1"))]) ∧
    coverage (exForCtx.fill [.assign "=" (.arrayRef (.id "a") (.const "int" "1")) (.id "n"),
      .assign "=" (.id "x") (.binop "+" (.id "x") (.const "int" "1"))]) = .ok (1, exEmptyF) := by
  constructor <;> ins_eval

/-- `Supported` is needed: below a statement that is itself unsupported (`while (x++ < 10)`)
    the insertion does not change the count -/
example :
    coverage (.funcDef (.decl (some "f") (.funcDecl none) none) (.compound (some
      [.while_ (.binop "<" (.unop "p++" (.id "x")) (.const "int" "10"))
        (.compound (some [.goto "L"]))]))) = .ok (1, exEmptyF) ∧
    coverage (.funcDef (.decl (some "f") (.funcDecl none) none) (.compound (some
      [.while_ (.binop "<" (.unop "p++" (.id "x")) (.const "int" "10"))
        (.compound (some []))]))) = .ok (1, exEmptyF) := by
  constructor <;> ins_eval

end Mwp
