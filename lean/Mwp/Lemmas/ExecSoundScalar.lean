/-
  ExecSound, part 1: order facts about the documented scalar tables (`docSum` = max, `docProd`
  monotone and associative), about `SMat.sumS`, and the entries of `SMat.identity / add / mul /
  setColumn` as functions `Nat → Nat → Scalar` ("who flows into whom, how strongly").  Everything
  is stated with the rank order `o < m < w < p < i`; nothing here knows about executions.
-/
import Mwp.Spec.Exec
namespace Mwp.Spec.ExecSound
open Mwp Mwp.Spec

/-! ## scalars -/

theorem rank_docSum_left (a b : Scalar) : a.rank ≤ (docSum a b).rank := by
  cases a <;> cases b <;> decide

theorem rank_docSum_right (a b : Scalar) : b.rank ≤ (docSum a b).rank := by
  cases a <;> cases b <;> decide

theorem rank_docSum_le {a b : Scalar} {r : Nat} (ha : a.rank ≤ r) (hb : b.rank ≤ r) :
    (docSum a b).rank ≤ r := by
  unfold docSum; split <;> assumption

theorem docSum_eq_or (a b : Scalar) : docSum a b = a ∨ docSum a b = b := by
  unfold docSum; split <;> simp

theorem docProd_mono_left {a a' : Scalar} (b : Scalar) (h : a.rank ≤ a'.rank) :
    (docProd a b).rank ≤ (docProd a' b).rank := by
  revert h; cases a <;> cases a' <;> cases b <;> decide

theorem docProd_mono_right (a : Scalar) {b b' : Scalar} (h : b.rank ≤ b'.rank) :
    (docProd a b).rank ≤ (docProd a b').rank := by
  revert h; cases a <;> cases b <;> cases b' <;> decide

theorem docProd_assoc (a b c : Scalar) : docProd (docProd a b) c = docProd a (docProd b c) := by
  cases a <;> cases b <;> cases c <;> rfl

theorem docProd_m_right (a : Scalar) : docProd a .m = a := by cases a <;> rfl
theorem docProd_m_left (a : Scalar) : docProd .m a = a := by cases a <;> rfl
theorem docProd_o_left {a : Scalar} (h : a ≠ .i) : docProd .o a = .o := by
  cases a <;> first | rfl | exact absurd rfl h

/-- something flows (`≥ m`) into a `≥ w` position: the product is `≥ w` -/
theorem docProd_ge_w {a s : Scalar} (ha : 1 ≤ a.rank) (hs : 2 ≤ s.rank) : 2 ≤ (docProd a s).rank := by
  revert ha hs; cases a <;> cases s <;> decide

/-- something flows (`≥ m`) into a `p` position: the product is `≥ p` -/
theorem docProd_ge_p {a s : Scalar} (ha : 1 ≤ a.rank) (hs : 3 ≤ s.rank) : 3 ≤ (docProd a s).rank := by
  revert ha hs; cases a <;> cases s <;> decide

theorem rank_le_four (s : Scalar) : s.rank ≤ 4 := by cases s <;> decide

theorem rank_inj {a b : Scalar} (h : a.rank = b.rank) : a = b := by
  revert h; cases a <;> cases b <;> decide

/-! ## `sumS` is the maximum -/

theorem foldl_docSum_ge_acc (l : List Scalar) (acc : Scalar) :
    acc.rank ≤ (l.foldl docSum acc).rank := by
  induction l generalizing acc with
  | nil => exact Nat.le_refl _
  | cons x t ih =>
    rw [List.foldl_cons]
    exact Nat.le_trans (rank_docSum_left acc x) (ih _)

theorem foldl_docSum_ge_mem (l : List Scalar) (acc : Scalar) {x : Scalar} (hx : x ∈ l) :
    x.rank ≤ (l.foldl docSum acc).rank := by
  induction l generalizing acc with
  | nil => cases hx
  | cons y t ih =>
    rw [List.foldl_cons]
    rcases List.mem_cons.1 hx with rfl | h
    · exact Nat.le_trans (rank_docSum_right acc x) (foldl_docSum_ge_acc t _)
    · exact ih _ h

theorem foldl_docSum_le (l : List Scalar) (acc : Scalar) {r : Nat} (ha : acc.rank ≤ r)
    (h : ∀ x ∈ l, x.rank ≤ r) : (l.foldl docSum acc).rank ≤ r := by
  induction l generalizing acc with
  | nil => exact ha
  | cons y t ih =>
    rw [List.foldl_cons]
    exact ih _ (rank_docSum_le ha (h y List.mem_cons_self)) (fun x hx => h x (List.mem_cons_of_mem _ hx))

theorem foldl_docSum_attained (l : List Scalar) (acc : Scalar) :
    l.foldl docSum acc = acc ∨ l.foldl docSum acc ∈ l := by
  induction l generalizing acc with
  | nil => exact Or.inl rfl
  | cons y t ih =>
    rw [List.foldl_cons]
    rcases ih (docSum acc y) with h | h
    · rcases docSum_eq_or acc y with e | e
      · left; rw [h, e]
      · right; rw [h, e]; exact List.mem_cons_self
    · right; exact List.mem_cons_of_mem _ h

theorem sumS_ge_mem {l : List Scalar} {x : Scalar} (hx : x ∈ l) : x.rank ≤ (SMat.sumS l).rank :=
  foldl_docSum_ge_mem l .o hx

theorem sumS_le {l : List Scalar} {r : Nat} (h : ∀ x ∈ l, x.rank ≤ r) : (SMat.sumS l).rank ≤ r :=
  foldl_docSum_le l .o (Nat.zero_le _) h

/-- the maximum of a non-empty list is one of its elements -/
theorem sumS_mem {l : List Scalar} (hl : l ≠ []) : SMat.sumS l ∈ l := by
  rcases foldl_docSum_attained l .o with h | h
  · cases l with
    | nil => exact absurd rfl hl
    | cons y t =>
      have hy : y.rank ≤ (SMat.sumS (y :: t)).rank := sumS_ge_mem List.mem_cons_self
      have h0 : SMat.sumS (y :: t) = .o := h
      rw [h0] at hy
      have : y = .o := rank_inj (Nat.le_antisymm hy (Nat.zero_le _))
      rw [h0, ← this]; exact List.mem_cons_self
  · exact h

/-! ## matrices as functions -/

abbrev SF := Nat → Nat → Scalar

def fI : SF := fun i j => if i = j then Scalar.m else Scalar.o

def fmul (n : Nat) (f g : SF) : SF :=
  fun i j => SMat.sumS ((List.range n).map fun k => docProd (f i k) (g k j))

/-- entrywise order on `[0,n)²` -/
def fle (n : Nat) (f g : SF) : Prop := ∀ i, i < n → ∀ j, j < n → (f i j).rank ≤ (g i j).rank

theorem fle.refl (n : Nat) (f : SF) : fle n f f := fun _ _ _ _ => Nat.le_refl _
theorem fle.trans {n : Nat} {f g h : SF} (h1 : fle n f g) (h2 : fle n g h) : fle n f h :=
  fun i hi j hj => Nat.le_trans (h1 i hi j hj) (h2 i hi j hj)

theorem fle_of_eq {n : Nat} {f g : SF} (h : ∀ i, i < n → ∀ j, j < n → f i j = g i j) : fle n f g :=
  fun i hi j hj => by rw [h i hi j hj]; exact Nat.le_refl _

theorem fmul_ge {n : Nat} (f g : SF) (i j : Nat) {k : Nat} (hk : k < n) :
    (docProd (f i k) (g k j)).rank ≤ (fmul n f g i j).rank := by
  unfold fmul
  apply sumS_ge_mem
  exact List.mem_map.2 ⟨k, List.mem_range.2 hk, rfl⟩

theorem fmul_le {n : Nat} (f g : SF) (i j : Nat) {r : Nat}
    (h : ∀ k, k < n → (docProd (f i k) (g k j)).rank ≤ r) : (fmul n f g i j).rank ≤ r := by
  unfold fmul
  apply sumS_le
  intro x hx
  obtain ⟨k, hk, rfl⟩ := List.mem_map.1 hx
  exact h k (List.mem_range.1 hk)

/-- the entry of a product is one of its terms -/
theorem fmul_attained {n : Nat} (hn : 0 < n) (f g : SF) (i j : Nat) :
    ∃ k, k < n ∧ fmul n f g i j = docProd (f i k) (g k j) := by
  have hne : ((List.range n).map fun k => docProd (f i k) (g k j)) ≠ [] := by
    intro h
    have := congrArg List.length h
    simp at this
    omega
  obtain ⟨k, hk, e⟩ := List.mem_map.1 (sumS_mem hne)
  exact ⟨k, List.mem_range.1 hk, e.symm⟩

theorem fmul_mono_right {n : Nat} (f : SF) {g g' : SF} (h : fle n g g') :
    fle n (fmul n f g) (fmul n f g') := by
  intro i _ j hj
  apply fmul_le
  intro k hk
  exact Nat.le_trans (docProd_mono_right _ (h k hk j hj)) (fmul_ge f g' i j hk)

theorem fmul_mono_left {n : Nat} {f f' : SF} (g : SF) (h : fle n f f') :
    fle n (fmul n f g) (fmul n f' g) := by
  intro i hi j _
  apply fmul_le
  intro k hk
  exact Nat.le_trans (docProd_mono_left _ (h i hi k hk)) (fmul_ge f' g i j hk)

theorem fmul_assoc_le (n : Nat) (f g h : SF) :
    fle n (fmul n (fmul n f g) h) (fmul n f (fmul n g h)) := by
  intro i hi j _
  apply fmul_le
  intro k hk
  obtain ⟨l, hl, e⟩ := fmul_attained (Nat.lt_of_le_of_lt (Nat.zero_le _) hi) f g i k
  rw [e, docProd_assoc]
  exact Nat.le_trans (docProd_mono_right _ (fmul_ge g h l j hk)) (fmul_ge f (fmul n g h) i j hl)

theorem fle_fmul_fI_right (n : Nat) (f : SF) : fle n f (fmul n f fI) := by
  intro i _ j hj
  have := fmul_ge f fI i j hj
  simpa [fI, docProd_m_right] using this

/-- multiplying by something above the identity only increases -/
theorem fle_fmul_right {n : Nat} (f : SF) {g : SF} (h : fle n fI g) : fle n f (fmul n f g) :=
  (fle_fmul_fI_right n f).trans (fmul_mono_right f h)

theorem fmul_fI_left_le {n : Nat} {g : SF} (hfin : ∀ i, i < n → ∀ j, j < n → g i j ≠ .i) :
    fle n (fmul n fI g) g := by
  intro i _ j hj
  apply fmul_le
  intro k hk
  unfold fI
  split
  · rename_i e; rw [docProd_m_left, e]; exact Nat.le_refl _
  · rw [docProd_o_left (hfin k hk j hj)]; exact Nat.zero_le _

/-! ## entries of the list matrices -/

theorem get_of_getElem {a : SMat} {i j : Nat} (hi : i < a.length) (hj : j < a[i].length) :
    SMat.get a i j = a[i][j] := by
  simp [SMat.get, hi, hj]

theorem get_identity {n i j : Nat} (hi : i < n) (hj : j < n) :
    SMat.get (SMat.identity n) i j = fI i j := by
  simp [SMat.get, SMat.identity, fI, hi, hj]

theorem get_add {a : SMat} (b : SMat) {i j : Nat} (hi : i < a.length) (hj : j < a.length) :
    SMat.get (SMat.add a b) i j = docSum (SMat.get a i j) (SMat.get b i j) := by
  simp [SMat.get, SMat.add, hi, hj]

theorem get_mul {a : SMat} (b : SMat) {i j : Nat} (hi : i < a.length) (hj : j < a.length) :
    SMat.get (SMat.mul a b) i j = fmul a.length (SMat.get a) (SMat.get b) i j := by
  simp [SMat.get, SMat.mul, fmul, hi, hj]

/-- `n × n` -/
def Sq (n : Nat) (M : SMat) : Prop := M.length = n ∧ ∀ row ∈ M, row.length = n

theorem sq_identity (n : Nat) : Sq n (SMat.identity n) := by
  refine ⟨by simp [SMat.identity], ?_⟩
  intro row hrow
  simp only [SMat.identity, List.mem_map, List.mem_range] at hrow
  obtain ⟨i, _, rfl⟩ := hrow
  simp

theorem sq_add (a b : SMat) : Sq a.length (SMat.add a b) := by
  refine ⟨by simp [SMat.add], ?_⟩
  intro row hrow
  simp only [SMat.add, List.mem_map, List.mem_range] at hrow
  obtain ⟨i, _, rfl⟩ := hrow
  simp

theorem sq_mul (a b : SMat) : Sq a.length (SMat.mul a b) := by
  refine ⟨by simp [SMat.mul], ?_⟩
  intro row hrow
  simp only [SMat.mul, List.mem_map, List.mem_range] at hrow
  obtain ⟨i, _, rfl⟩ := hrow
  simp

theorem sq_ext {n : Nat} {a b : SMat} (ha : Sq n a) (hb : Sq n b)
    (h : ∀ i, i < n → ∀ j, j < n → SMat.get a i j = SMat.get b i j) : a = b := by
  apply List.ext_getElem (by rw [ha.1, hb.1])
  intro i h1 h2
  have r1 := ha.2 a[i] (List.getElem_mem h1)
  have r2 := hb.2 b[i] (List.getElem_mem h2)
  apply List.ext_getElem (by rw [r1, r2])
  intro j h3 h4
  have := h i (by rw [← ha.1]; exact h1) j (by rw [← r1]; exact h3)
  rwa [get_of_getElem h1 h3, get_of_getElem h2 h4] at this

/-- entries of `setColumn (identity n) jx col` -/
theorem get_setColumn_identity {n : Nat} (jx : Nat) (col : List Scalar) (hc : col.length = n)
    {i j : Nat} (hi : i < n) (hj : j < n) :
    SMat.get (SMat.setColumn (SMat.identity n) jx col) i j =
      if j = jx then col.getD i .o else fI i j := by
  have hi' : i < col.length := by rw [hc]; exact hi
  have hI := sq_identity n
  have hil : i < (SMat.identity n).length := by rw [hI.1]; exact hi
  have hrow : (SMat.identity n)[i].length = n := hI.2 _ (List.getElem_mem hil)
  have hlen : i < (SMat.setColumn (SMat.identity n) jx col).length := by
    simp [SMat.setColumn, hI.1, hc, hi]
  have hr : (SMat.setColumn (SMat.identity n) jx col)[i] = (SMat.identity n)[i].set jx col[i] := by
    simp [SMat.setColumn]
  have hjl : j < (SMat.setColumn (SMat.identity n) jx col)[i].length := by
    rw [hr, List.length_set, hrow]; exact hj
  rw [get_of_getElem hlen hjl]
  simp only [hr, List.getElem_set]
  have hg : (SMat.identity n)[i][j]'(by rw [hrow]; exact hj) = fI i j := by
    rw [← get_of_getElem hil (by rw [hrow]; exact hj), get_identity hi hj]
  by_cases h : jx = j
  · subst h; simp [hi']
  · have : ¬ j = jx := fun e => h e.symm
    simp only [h, this, if_false]
    exact hg

end Mwp.Spec.ExecSound
