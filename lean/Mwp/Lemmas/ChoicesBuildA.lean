/-
  Generic list lemmas for the `Choices` model: `insertNew`/`dedup`, `zip`/`all`,
  boxes (`InBox`), pigeonhole on duplicate-free lists, `sortByLen`, `sections`.
-/
import Mwp.Lemmas.ChoicesDefs
import Batteries.Data.List.Perm
import Mathlib.Data.List.Nodup

namespace Mwp.Choices

/-! ## `insertNew` / `dedup` -/
section Dedup
variable {α : Type} [BEq α] [LawfulBEq α]

theorem mem_insertNew_b (l : List α) (x y : α) : y ∈ insertNew l x ↔ y ∈ l ∨ y = x := by
  unfold insertNew
  split
  · rename_i h
    have hx : x ∈ l := by simpa using h
    constructor
    · exact Or.inl
    · rintro (h' | rfl)
      · exact h'
      · exact hx
  · simp

theorem nodup_insertNew (l : List α) (x : α) (h : l.Nodup) : (insertNew l x).Nodup := by
  unfold insertNew
  split
  · exact h
  · rename_i hc
    have hx : x ∉ l := by simpa using hc
    rw [List.nodup_append]
    refine ⟨h, by simp, ?_⟩
    intro a ha b hb
    have : b = x := by simpa using hb
    subst this
    rintro rfl
    exact hx ha

theorem foldl_insertNew (l acc : List α) :
    (∀ y, y ∈ l.foldl insertNew acc ↔ y ∈ acc ∨ y ∈ l) ∧
    (acc.Nodup → (l.foldl insertNew acc).Nodup) := by
  induction l generalizing acc with
  | nil => simp
  | cons a t ih =>
    simp only [List.foldl_cons]
    obtain ⟨h1, h2⟩ := ih (insertNew acc a)
    refine ⟨fun y => ?_, fun hn => h2 (nodup_insertNew _ _ hn)⟩
    rw [h1, mem_insertNew_b, List.mem_cons]
    tauto

theorem mem_dedup_b (l : List α) (y : α) : y ∈ dedup l ↔ y ∈ l := by
  unfold dedup
  rw [(foldl_insertNew l []).1]
  simp

theorem nodup_dedup (l : List α) : (dedup l).Nodup :=
  (foldl_insertNew l []).2 List.nodup_nil

end Dedup

/-! ## `zip` / `all` -/

theorem zip_all_iff {α β : Type} (f : α × β → Bool) (l1 : List α) (l2 : List β) :
    (l1.zip l2).all f = true ↔
      ∀ i (h1 : i < l1.length) (h2 : i < l2.length), f (l1[i], l2[i]) = true := by
  induction l1 generalizing l2 with
  | nil => simp
  | cons a t ih =>
    cases l2 with
    | nil => simp
    | cons b t2 =>
      simp only [List.zip_cons_cons, List.all_cons, Bool.and_eq_true, ih, List.length_cons]
      constructor
      · rintro ⟨h0, hr⟩ i h1 h2
        cases i with
        | zero => simpa using h0
        | succ j => simpa using hr j (by omega) (by omega)
      · intro h
        have h0 := h 0 (by omega) (by omega)
        refine ⟨by simpa using h0, fun i h1 h2 => ?_⟩
        have hi := h (i + 1) (by omega) (by omega)
        simpa using hi

/-! ## Boxes -/

theorem inBox_nil (v : List Nat) : InBox [] v ↔ v = [] := by
  unfold InBox
  constructor
  · rintro ⟨h, -⟩
    exact List.eq_nil_of_length_eq_zero (by simpa using h)
  · rintro rfl
    simp

theorem not_inBox_cons_nil (e : List Nat) (w : Vect) : ¬ InBox (e :: w) [] := by
  unfold InBox
  rintro ⟨h, -⟩
  simp at h

theorem inBox_cons (e : List Nat) (w : Vect) (x : Nat) (v : List Nat) :
    InBox (e :: w) (x :: v) ↔ x ∈ e ∧ InBox w v := by
  unfold InBox
  constructor
  · rintro ⟨hl, h⟩
    have hl' : v.length = w.length := by simpa using hl
    have h0 := h 0 (by simp) (by simp)
    refine ⟨by simpa using h0, hl', fun i h1 h2 => ?_⟩
    have hi := h (i + 1) (by simp; omega) (by simp; omega)
    simpa using hi
  · rintro ⟨hx, hl, h⟩
    refine ⟨by simp [hl], fun i h1 h2 => ?_⟩
    cases i with
    | zero => simpa using hx
    | succ j =>
      simp only [List.length_cons] at h1 h2
      simpa using h j (by omega) (by omega)

/-- `vectContains a b` with equal lengths: the box `b` is included in the box `a` -/
theorem vectContains_inBox (a b : Vect) (v : List Nat) (hl : a.length = b.length)
    (hc : vectContains a b = true) (hb : InBox b v) : InBox a v := by
  unfold vectContains at hc
  rw [zip_all_iff] at hc
  obtain ⟨hvl, hb⟩ := hb
  refine ⟨by omega, fun i h1 h2 => ?_⟩
  have := hc i h2 (by omega)
  simp only [List.all_eq_true, List.contains_iff_mem] at this
  exact this _ (hb i h1 (by omega))

theorem inBox_replicate (domain : List Nat) (n : Nat) (v : List Nat) :
    InBox (List.replicate n domain) v ↔ VecOK domain n v := by
  unfold InBox VecOK
  simp only [List.length_replicate, List.getElem_replicate]
  constructor
  · rintro ⟨hl, h⟩
    refine ⟨hl, fun x hx => ?_⟩
    obtain ⟨i, hi, rfl⟩ := List.getElem_of_mem hx
    exact h i hi (by omega)
  · rintro ⟨hl, h⟩
    exact ⟨hl, fun i h1 _ => h _ (List.getElem_mem h1)⟩

/-! ## Pigeonhole on duplicate-free lists -/

theorem exists_not_mem_of_length_lt (dom vals : List Nat) (hd : dom.Nodup)
    (h : vals.length < dom.length) : ∃ x ∈ dom, x ∉ vals := by
  apply Classical.byContradiction
  intro hc
  have hs : dom ⊆ vals := by
    intro x hx
    apply Classical.byContradiction
    intro hx'
    exact hc ⟨x, hx, hx'⟩
  have := (List.subperm_of_subset hd hs).length_le
  omega

theorem subset_of_length_ge (dom vals : List Nat) (hv : vals.Nodup) (hs : vals ⊆ dom)
    (h : dom.length ≤ vals.length) : dom ⊆ vals :=
  ((List.subperm_of_subset hv hs).perm_of_length_le h).symm.subset

/-- the values picked at index `i` -/
def valsAt (ds : List Delta) (i : Nat) : List Nat := (ds.filter (fun d => d.2 == i)).map (·.1)

theorem mem_valsAt (ds : List Delta) (i x : Nat) : x ∈ valsAt ds i ↔ (x, i) ∈ ds := by
  unfold valsAt
  simp only [List.mem_map, List.mem_filter, beq_iff_eq]
  constructor
  · rintro ⟨⟨c, j⟩, ⟨hm, rfl⟩, rfl⟩
    exact hm
  · intro h
    exact ⟨(x, i), ⟨h, rfl⟩, rfl⟩

theorem nodup_valsAt (ds : List Delta) (i : Nat) (h : ds.Nodup) : (valsAt ds i).Nodup := by
  unfold valsAt
  apply List.Nodup.map_on _ (h.filter _)
  rintro ⟨c1, j1⟩ h1 ⟨c2, j2⟩ h2 heq
  simp only [List.mem_filter, beq_iff_eq] at h1 h2
  obtain ⟨-, rfl⟩ := h1
  obtain ⟨-, rfl⟩ := h2
  simp only at heq
  rw [heq]

theorem length_valsAt (ds : List Delta) (i : Nat) :
    (valsAt ds i).length = ((ds.map (·.2)).filter (· == i)).length := by
  unfold valsAt
  rw [List.filter_map, List.length_map, List.length_map]
  rfl

/-! ## `sortByLen` keeps the members -/

theorem span_loop_eq_b {α : Type} (p : α → Bool) (l acc : List α) :
    List.span.loop p l acc = (acc.reverse ++ l.takeWhile p, l.dropWhile p) := by
  induction l generalizing acc with
  | nil => simp [List.span.loop]
  | cons a t ih =>
    unfold List.span.loop
    cases h : p a
    · simp [h]
    · simp [ih, h]

theorem span_eq_b {α : Type} (p : α → Bool) (l : List α) :
    l.span p = (l.takeWhile p, l.dropWhile p) := by
  unfold List.span
  rw [span_loop_eq_b]
  simp

theorem mem_span_insert {α : Type} (p : α → Bool) (x s : α) (acc : List α) :
    s ∈ (match acc.span p with | (a, b) => a ++ x :: b) ↔ s = x ∨ s ∈ acc := by
  rw [span_eq_b]
  simp only [List.mem_append, List.mem_cons]
  conv => rhs; rw [← List.takeWhile_append_dropWhile (p := p) (l := acc)]
  simp only [List.mem_append]
  tauto

theorem mem_sortByLen_b (l : List Seq) (s : Seq) : s ∈ sortByLen l ↔ s ∈ l := by
  unfold sortByLen
  induction l with
  | nil => simp
  | cons x t ih =>
    rw [List.foldr_cons, List.mem_cons, ← ih]
    exact mem_span_insert _ _ _ _

/-! ## `sections`: one delta picked from each sequence -/

theorem mem_sections (l : List Seq) (p : List Delta) :
    p ∈ sections l ↔ List.Forall₂ (fun d s => d ∈ s) p l := by
  induction l generalizing p with
  | nil =>
    simp only [sections, List.mem_singleton]
    constructor
    · rintro rfl
      exact .nil
    · intro h
      cases h
      rfl
  | cons s rest ih =>
    simp only [sections, List.mem_flatMap, List.mem_map]
    constructor
    · rintro ⟨d, hd, q, hq, rfl⟩
      exact .cons hd ((ih q).1 hq)
    · intro h
      cases h with
      | cons hd hq => exact ⟨_, hd, _, (ih _).2 hq, rfl⟩

/-- the picked deltas all come from the sequences -/
theorem mem_of_mem_sections (l : List Seq) (p : List Delta) (hp : p ∈ sections l) :
    ∀ d ∈ p, ∃ s ∈ l, d ∈ s := by
  rw [mem_sections] at hp
  induction hp with
  | nil => simp
  | cons hd _ ih =>
    intro d hdm
    rcases List.mem_cons.1 hdm with rfl | h
    · exact ⟨_, List.mem_cons_self, hd⟩
    · obtain ⟨s, hs, hds⟩ := ih d h
      exact ⟨s, List.mem_cons_of_mem _ hs, hds⟩

/-- a vector misses the pick: it disagrees with every picked delta -/
def Misses (p : List Delta) (v : List Nat) : Prop := ∀ d ∈ p, v[d.2]? ≠ some d.1

theorem matchesSeq_false_iff (s : Seq) (v : List Nat) :
    matchesSeq s v = false ↔ ∃ d ∈ s, v[d.2]? ≠ some d.1 := by
  unfold matchesSeq
  rw [← Bool.not_eq_true, List.all_eq_true]
  simp only [beq_iff_eq]
  constructor
  · intro h
    apply Classical.byContradiction
    intro hc
    apply h
    intro d hd
    apply Classical.byContradiction
    intro hne
    exact hc ⟨d, hd, hne⟩
  · rintro ⟨d, hd, hne⟩ h
    exact hne (h d hd)

theorem avoids_iff_sections (l : List Seq) (v : List Nat) :
    Avoids l v ↔ ∃ p ∈ sections l, Misses p v := by
  induction l with
  | nil => simp [Avoids, sections, Misses]
  | cons s rest ih =>
    have hA : Avoids (s :: rest) v ↔ matchesSeq s v = false ∧ Avoids rest v := by
      simp [Avoids]
    rw [hA, ih, matchesSeq_false_iff]
    simp only [sections, List.mem_flatMap, List.mem_map]
    constructor
    · rintro ⟨⟨d, hd, hne⟩, q, hq, hm⟩
      refine ⟨d :: q, ⟨d, hd, q, hq, rfl⟩, ?_⟩
      intro d' hd'
      rcases List.mem_cons.1 hd' with rfl | h
      · exact hne
      · exact hm d' h
    · rintro ⟨p, ⟨d, hd, q, hq, rfl⟩, hm⟩
      exact ⟨⟨d, hd, hm d List.mem_cons_self⟩, q, hq,
        fun d' hd' => hm d' (List.mem_cons_of_mem _ hd')⟩

theorem avoids_congr (l1 l2 : List Seq) (h : ∀ s, s ∈ l1 ↔ s ∈ l2) (v : List Nat) :
    Avoids l1 v ↔ Avoids l2 v := by
  unfold Avoids
  constructor
  · intro h1 s hs
    exact h1 s ((h s).2 hs)
  · intro h2 s hs
    exact h2 s ((h s).1 hs)

end Mwp.Choices
