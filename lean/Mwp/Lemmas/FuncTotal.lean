/-
  TOTALITY of the analysis model, function level: `Analysis.func` returns a result on every
  function satisfying `FuncOk`, in both modes (`func_total`).  On top of `compute_total`
  (`FuncTotalStmt`): the statement loop of `cmds`, the choice object of the final relation and of
  each of its columns (`Props.C04.generate_exact` on the bounded, sorted delta lists), and the
  `filterM` of the ∞-flow report.
-/
import Mwp.Lemmas.FuncTotalStmt
namespace Mwp
namespace Refine
open Mwp.Props.C16 Mwp.Lemmas.Poly Spec RelFix Analysis

theorem filterAuxM_total {α : Type} (f : α → Except String Bool) (l : List α)
    (h : ∀ a ∈ l, ∃ b, f a = .ok b) : ∀ acc, ∃ r, List.filterAuxM f l acc = .ok r := by
  induction l with
  | nil => intro acc; exact ⟨acc, rfl⟩
  | cons a t ih =>
    intro acc
    obtain ⟨b, hb⟩ := h a (List.mem_cons_self ..)
    rw [List.filterAuxM, hb]
    exact ih (fun x hx => h x (List.mem_cons_of_mem _ hx)) _

theorem filterM_total {α : Type} (f : α → Except String Bool) (l : List α)
    (h : ∀ a ∈ l, ∃ b, f a = .ok b) : ∃ r, l.filterM f = .ok r := by
  obtain ⟨r, hr⟩ := filterAuxM_total f l h []
  exact ⟨r.reverse, by unfold List.filterM; rw [hr]; rfl⟩

/-- every ∞ delta list of one column is a well-formed sequence -/
theorem colInfDeltas_wfseq {r : Relation} (wr : r.WF) {index : Nat} (hb : RelD (Bnd index) r) (col : Nat) :
    ∀ s ∈ r.colInfDeltas col [], Choices.WFSeq Gen.domain index s := by
  intro s hs
  simp only [Relation.colInfDeltas, Poly.evalInf, List.mem_flatMap, List.mem_map, List.mem_filter] at hs
  obtain ⟨row, hrow, m, ⟨hm, hsc⟩, rfl⟩ := hs
  rcases getD_mem_or row col Poly.zero with h0 | hp
  · rw [h0] at hm
    simp only [Poly.zero, List.mem_singleton] at hm
    subst hm
    simp at hsc
  · have hwf := wr.2.2.2.2 row hrow _ hp
    unfold Poly.WF at hwf
    rw [List.all_eq_true] at hwf
    refine ⟨hwf m hm, ?_⟩
    intro d hd
    have := matD_iff_mem.1 hb row hrow _ hp m hm d hd
    refine ⟨this.2, ?_⟩
    have h3 := this.1
    simp only [Gen.domain, List.mem_cons, List.not_mem_nil, or_false]
    omega

theorem eval_total {r : Relation} (wr : r.WF) {index : Nat} (hb : RelD (Bnd index) r) :
    ∃ c, r.eval Gen.domain index = .ok c := by
  obtain ⟨c, hgen, _⟩ := Props.C04.generate_exact Gen.domain index
    (Choices.dedup (r.infDeltas [])) (by decide) (by decide)
    (fun s hs => infDeltas_wfseq wr hb s ((Choices.mem_dedup _ _).1 hs))
  exact ⟨c, hgen⟩

theorem varEval_total {r : Relation} (wr : r.WF) {index : Nat} (hb : RelD (Bnd index) r) (v : String)
    (hv : v ∈ r.vars) : ∃ c, r.varEval Gen.domain index v = .ok c := by
  rcases idx_cases r.vars v with ⟨h, _⟩ | ⟨_, i, _, hi, _⟩
  · exact absurd hv h
  obtain ⟨c, hgen, _⟩ := Props.C04.generate_exact Gen.domain index
    (Choices.dedup (r.colInfDeltas i [])) (by decide) (by decide)
    (fun s hs => colInfDeltas_wfseq wr hb i s ((Choices.mem_dedup _ _).1 hs))
  refine ⟨c, ?_⟩
  unfold Relation.varEval
  rw [hi]
  exact hgen

/-- the statement loop of `Analysis.cmds` never raises -/
theorem go_tot (stop : Bool) (l : List Node) :
    ∀ (cs : List Cmd), desugarL l = some cs → namesOkAL l = true → guardsFreshL cs = true →
    ∀ (rels : RelList) (idx : Nat) (dg : DG.Graph) (inf : Bool) (sk : List String), DG.GInv dg →
      ∃ res, cmds.go stop rels idx dg inf sk l = .ok res := by
  induction l with
  | nil =>
    intro cs _ _ _ rels idx dg inf sk _
    exact ⟨_, by rw [cmds.go]; rfl⟩
  | cons n ns ih =>
    intro cs hd hn hgf rels idx dg inf sk hg
    rw [desugarL] at hd
    cases hdn : desugar n with
    | none => simp [hdn] at hd
    | some cmd =>
      cases hdl : desugarL ns with
      | none => simp [hdn, hdl] at hd
      | some cs' =>
        simp only [hdn, hdl, Option.some.injEq] at hd
        subst hd
        simp only [namesOkAL, guardsFreshL, Bool.and_eq_true] at hn hgf
        obtain ⟨o1, ho1, g1⟩ := compute_total n cmd hdn hn.1 hgf.1 (!stop) idx dg hg
        rw [cmds.go, ho1]
        simp only [bind, Except.bind]
        split
        · exact ⟨_, rfl⟩
        · exact ih cs' hdl hn.2 hgf.2 _ _ _ _ _ g1

end Refine

open Spec Refine Analysis in
/-- **The analysis never raises on a supported function**, in either mode: for every function
    definition satisfying `FuncOk` (body a block of statements of the supported fragment -- any
    nesting of `if` / `while` / `do-while` / counted `for`, any size) `Analysis.func` returns a
    result.  No error branch of the model (`"Diverged"`, `IndexError`, `KeyError`, `ValueError`,
    `AssertionError`, `AttributeError`) is reachable.  (`hd` is implied by `hok`; it is kept to
    match the form of the other function-level theorems.) -/
theorem func_total (node : Node) (stop : Bool) (hok : FuncOk node = true)
    (cmd : Cmd) (_hd : desugarFunc node = some cmd) : ∃ r, Analysis.func node stop = .ok r := by
  obtain ⟨d, l, cs, vs, rfl, hdl, hvs, hn, hgf, hcov, hdf, hbody⟩ := FuncOk.unpack hok
  obtain ⟨hnd, hne, _⟩ := variables_wf _ vs hvs
  obtain ⟨res, hgo⟩ := go_tot stop l cs hdl hn hgf (RelList.identity vs) 0 [] false [] DG.GInv.nil
  obtain ⟨dI, index, rels, sk⟩ := res
  have hcm : cmds (RelList.identity vs) 0 l stop = .ok (dI, index, rels, sk) := by
    rw [cmds_eq_go]; exact hgo
  obtain ⟨r0, hr0, w0, _, hstop, hfin, _⟩ := cmds_core stop vs hnd hne l cs hdl hn hgf dI index rels sk hcm
  have hfirst : rels.headD (Relation.new []) = r0 := by rw [hr0]; rfl
  unfold func
  rw [hvs]
  simp only [bind, Except.bind, hcm, hfirst]
  cases dI with
  | true =>
    have hs : stop = true := by
      cases stop with
      | true => rfl
      | false => exact absurd (hstop rfl) (by simp)
    subst hs
    simp [pure, Except.pure]
  | false =>
    obtain ⟨_, hb, _⟩ := hfin rfl
    obtain ⟨c, hc⟩ := eval_total w0 hb
    simp only [Bool.not_false, if_true, hc, pure, Except.pure, Bool.false_or, Bool.true_and]
    by_cases hcond : (Choices.infinite c && !stop) = true
    · obtain ⟨fl, hfl⟩ := filterM_total (fun v => do
          let c ← r0.varEval Gen.domain index v
          pure (Choices.infinite c)) r0.vars (by
        intro v hv
        obtain ⟨cv, hcv⟩ := varEval_total w0 hb v hv
        exact ⟨Choices.infinite cv, by simp only [bind, Except.bind, hcv]; rfl⟩)
      simp only [hcond, if_true]
      simp only [bind, Except.bind, pure, Except.pure] at hfl
      rw [hfl]
      exact ⟨_, rfl⟩
    · simp only [hcond, Bool.false_eq_true, if_false]
      exact ⟨_, rfl⟩

open Spec Refine in
/-- statement-level totality with all side conditions on the syntax tree (`guardsPlain`: the guard
    of every accepted `for` is a plain name) -/
theorem compute_total_plain (node : Node) (cmd : Cmd) (hd : desugar node = some cmd)
    (hnames : namesOkA node = true) (hplain : guardsPlain node = true)
    (q : Bool) (idx : Nat) (dg : DG.Graph) (hg : DG.GInv dg) :
    ∃ out, Analysis.compute q idx dg node = .ok out ∧ DG.GInv out.dg :=
  compute_total node cmd hd hnames (guardsFresh_of_guardsPlain node cmd hd hplain) q idx dg hg

/-! ## non-vacuity: a counted loop around a `while` around an `if` -/

namespace FuncTotalEx
open Spec Refine Analysis

/-- `int f(int x,int y,int z,int n){ z = y + z;
       for (i = 0; i < n; i++) { while (x < 10) { if (c) x = y + y; else x = x * z; } z = z + y; } }` -/
def fNest : Node :=
  .funcDef (.decl (some "f") (.funcDecl (some (.paramList
    [.decl (some "x") .typeDecl none, .decl (some "y") .typeDecl none, .decl (some "z") .typeDecl none,
     .decl (some "n") .typeDecl none]))) none)
    (.compound (some [
      .assign "=" (.id "z") (.binop "+" (.id "y") (.id "z")),
      .for_ (some (.assign "=" (.id "i") (.const "int" "0"))) (some (.binop "<" (.id "i") (.id "n")))
        (some (.unop "p++" (.id "i")))
        (.compound (some [
          .while_ (.binop "<" (.id "x") (.const "int" "10"))
            (.compound (some [.ifs (.id "c")
              (some (.assign "=" (.id "x") (.binop "+" (.id "y") (.id "y"))))
              (some (.assign "=" (.id "x") (.binop "*" (.id "x") (.id "z"))))])),
          .assign "=" (.id "z") (.binop "+" (.id "z") (.id "y"))]))]))

def cNest : Cmd :=
  .seq [.bin "+" "z" (.var "y") (.var "z"),
    .loop "n" (.seq [.while_ (.seq [.ite (.bin "+" "x" (.var "y") (.var "y")) (.bin "*" "x" (.var "x") (.var "z"))]),
      .bin "+" "z" (.var "z") (.var "y")])]

theorem fNest_ok : FuncOk fNest = true := by decide
theorem fNest_reading : desugarFunc fNest = some cNest := by rfl

/-- `func_total` applies, in both modes … -/
example (stop : Bool) : ∃ r, func fNest stop = .ok r := func_total fNest stop fNest_ok cNest fNest_reading

-- … and the concrete runs indeed return `.ok`:
-- early-exit mode: the delta graph collapses after the third derivation index
set_option maxRecDepth 100000 in
example : (func fNest true).toOption.map (fun r => (r.infinite, r.index, r.variables)) =
    some (true, 3, ["n", "x", "y", "z"]) := by decide
-- run to completion: all four indices, and the `var_eval` loop of the ∞-flow report is run
set_option maxRecDepth 100000 in
example : (func fNest false).toOption.map (fun r => (r.infinite, r.index, r.variables, r.infFlows.isSome)) =
    some (true, 4, ["n", "x", "y", "z"], true) := by decide

end FuncTotalEx

end Mwp
