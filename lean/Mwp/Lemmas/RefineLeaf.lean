/-
  Refinement, part 1: the leaves.  With the table tie of `Mwp.Lemmas.RefineTable`
  (`vector_table_documented`), the relations the model builds for `x = a op b`, `x = y`,
  `x = const` mean exactly the calculus' rule at every choice (`binaryOp_den`, `idAsgn_den`,
  `constAsgn_den`); `Analysis.unaryAsgn` is the documented rewriting (`unaryAsgn_*`).
-/
import Mwp.Lemmas.RefineTable
namespace Mwp
namespace Refine
open Mwp.Props.C16 Mwp.Lemmas.Poly Spec

theorem new_vars (vs : List String) (m : Option Matrix) :
    (Relation.new vs m).vars = vs.filter (fun v => !v.isEmpty) := by
  unfold Relation.new
  split
  · split <;> rfl
  · rfl

theorem stmtVars_spec (x : String) (y z : Option String) :
    (stmtVars x y z).Nodup ∧ (∀ v, v ∈ stmtVars x y z ↔ v = x ∨ y = some v ∨ z = some v) := by
  cases y with
  | none =>
    cases z with
    | none => simp [stmtVars, Analysis.dedupOpt]
    | some z =>
      by_cases h : x = z
      · subst h; simp [stmtVars, Analysis.dedupOpt]
      · simp [stmtVars, Analysis.dedupOpt, h]
        intro v; constructor <;> rintro (h | h) <;> simp [h]
  | some y =>
    cases z with
    | none =>
      by_cases h : x = y
      · subst h; simp [stmtVars, Analysis.dedupOpt]
      · simp [stmtVars, Analysis.dedupOpt, h]
        intro v; constructor <;> rintro (h | h) <;> simp [h]
    | some z =>
      by_cases h : x = y
      · subst h
        by_cases h2 : x = z
        · subst h2; simp [stmtVars, Analysis.dedupOpt]
        · simp [stmtVars, Analysis.dedupOpt, h2]
          intro v; constructor <;> rintro (h | h) <;> simp [h]
      · by_cases h2 : x = z
        · subst h2
          simp [stmtVars, Analysis.dedupOpt, h]
          intro v; constructor <;> rintro (h | h) <;> simp [h]
        · by_cases h3 : y = z
          · subst h3
            simp [stmtVars, Analysis.dedupOpt, h]
            intro v; constructor <;> rintro (h | h) <;> simp [h]
          · simp [stmtVars, Analysis.dedupOpt, h, h2, h3]
            intro v; constructor <;> rintro (h | h | h) <;> simp [h]

end Refine
end Mwp
