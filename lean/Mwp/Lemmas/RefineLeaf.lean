/-
  Refinement, part 1: the leaves.  With the table tie of `Mwp.Lemmas.RefineTable`
  (`vector_table_documented`), the relations the model builds for `x = a op b`, `x = y`,
  `x = const` mean exactly the calculus' rule at every choice (`binaryOp_den`, `idAsgn_den`,
  `constAsgn_den`); `Analysis.unaryAsgn` is the documented rewriting (`unaryAsgn_*`).
-/
import Mwp.Lemmas.RefineTable
namespace Mwp
namespace Refine
open Mwp.Props.C16 Mwp.Lemmas.Poly Spec

theorem new_vars (vs : List String) (m : Option Matrix) :
    (Relation.new vs m).vars = vs.filter (fun v => !v.isEmpty) := by
  unfold Relation.new
  split
  · split <;> rfl
  · rfl

theorem stmtVars_spec (x : String) (y z : Option String) :
    (stmtVars x y z).Nodup ∧ (∀ v, v ∈ stmtVars x y z ↔ v = x ∨ y = some v ∨ z = some v) := by
  cases y with
  | none =>
    cases z with
    | none => simp [stmtVars, Analysis.dedupOpt]
    | some z =>
      by_cases h : x = z
      · subst h; simp [stmtVars, Analysis.dedupOpt]
      · have h' : ¬ z = x := fun e => h e.symm
        simp [stmtVars, Analysis.dedupOpt, h, h']
        intro v; grind
  | some y =>
    cases z with
    | none =>
      by_cases h : x = y
      · subst h; simp [stmtVars, Analysis.dedupOpt]
      · have h' : ¬ y = x := fun e => h e.symm
        simp [stmtVars, Analysis.dedupOpt, h, h']
        intro v; grind
    | some z =>
      by_cases h : x = y
      · subst h
        by_cases h2 : x = z
        · subst h2; simp [stmtVars, Analysis.dedupOpt]
        · have h2' : ¬ z = x := fun e => h2 e.symm
          simp [stmtVars, Analysis.dedupOpt, h2, h2']
          intro v; grind
      · have h' : ¬ y = x := fun e => h e.symm
        by_cases h2 : x = z
        · subst h2
          simp [stmtVars, Analysis.dedupOpt, h, h']
          intro v; grind
        · have h2' : ¬ z = x := fun e => h2 e.symm
          by_cases h3 : y = z
          · subst h3
            simp [stmtVars, Analysis.dedupOpt, h, h']
            intro v; grind
          · have h3' : ¬ z = y := fun e => h3 e.symm
            simp [stmtVars, Analysis.dedupOpt, h, h2, h3, h', h2', h3']
            intro v; grind

/-- the names an atom mentions are non-empty -/
def atomOk : Atom → Bool
  | .var y => y != ""
  | .const => true

theorem operandName_of_atomOf {n : Node} {a : Atom} (h : atomOf n = some a) :
    Analysis.operandName n.rmCast = .ok (atomName a) := by
  unfold atomOf at h
  cases hn : n.rmCast <;> rw [hn] at h <;> simp at h <;> subst h <;> rfl

theorem operandFlow_of_not_mem (op : String) (a b : Atom) (alt : Nat) (u : String)
    (hu : ¬ (atomName a = some u ∨ atomName b = some u)) : operandFlow op a b alt u = .o := by
  cases a <;> cases b <;> simp [atomName] at hu <;> simp [operandFlow]
  all_goals grind

theorem bin_vars_mem (op x : String) (a b : Atom) (v : String) :
    v ∈ (Cmd.bin op x a b).vars ↔ v = x ∨ atomName a = some v ∨ atomName b = some v := by
  cases a <;> cases b <;> simp [Cmd.vars, atomName] <;> grind

theorem relList_replaceColumn_single (r rel : Relation) (vec : List Poly) (x : String)
    (h : r.replaceColumn vec x = .ok rel) : RelList.replaceColumn [r] vec x = .ok [rel] := by
  unfold RelList.replaceColumn
  simp [List.mapM_cons, h]
  rfl

/-- `x = a op b`: the model's relation means the chosen alternative of the calculus' rule in
    column `x` and the identity elsewhere -/
theorem binaryOp_den (idx : Nat) (x op : String) (l r : Node) (a b : Atom)
    (ha : atomOf l = some a) (hb : atomOf r = some b) (hop : op = "+" ∨ op = "-" ∨ op = "*")
    (hx : x ≠ "") (hna : atomOk a = true) (hnb : atomOk b = true) :
    ∃ rel, Analysis.binaryOp idx x op l r = .ok (idx + 1, [rel]) ∧ rel.WF ∧
      (∀ v ∈ rel.vars, v ∈ (Cmd.bin op x a b).vars) ∧
      ∀ (c : Choice) (alt : Nat), c[idx]? = some alt → alt < 3 → ∀ u v : String,
        rel.den c u v =
          if v = x then operandFlow op a b (swapAlt ((Cmd.bin op x a b).swaps == [true]) alt) u
          else if u = v then .m else .o := by
  have hopm : op ∈ Gen.binOps := by
    rcases hop with rfl | rfl | rfl <;> decide
  obtain ⟨hnd, hmem⟩ := stmtVars_spec x (atomName a) (atomName b)
  obtain ⟨hlen, htab⟩ := vector_table_documented op hopm x a b
  have hne : ∀ v ∈ stmtVars x (atomName a) (atomName b), v ≠ "" := by
    intro v hv
    rcases (hmem v).1 hv with h | h | h
    · rw [h]; exact hx
    · cases a <;> simp [atomName] at h
      subst h; simpa [atomOk] using hna
    · cases b <;> simp [atomName] at h
      subst h; simpa [atomOk] using hnb
  let r0 := Relation.identityOpt (Analysis.dedupOpt [some x, atomName a, atomName b])
  have hr0 : r0.vars = stmtVars x (atomName a) (atomName b) := by
    show (Relation.new _ _).vars = _
    rw [new_vars]
    exact filter_nonempty_eq _ hne
  let vec := (Gen.vectorTable op (classY x (atomName a)) (classZ x (atomName a) (atomName b))).map
    (Analysis.entryPoly idx)
  obtain ⟨rel, hrel, hwf, hvars, hden⟩ := replaceColumn_spec r0 vec x (hr0 ▸ hnd) (hr0 ▸ hne)
    (hr0 ▸ (hmem x).2 (Or.inl rfl)) (by rw [hr0, List.length_map, hlen])
    (by
      intro p hp
      simp only [vec, List.mem_map] at hp
      obtain ⟨e, _, rfl⟩ := hp
      exact entryPoly_wf idx e)
  refine ⟨rel, ?_, hwf, ?_, ?_⟩
  · unfold Analysis.binaryOp
    rw [operandName_of_atomOf ha, operandName_of_atomOf hb]
    simp only [bind, Except.bind, createVector_eq idx op x _ _ hopm]
    rw [relList_replaceColumn_single r0 rel vec x hrel]
    rfl
  · intro v hv
    rw [hvars, hr0] at hv
    exact (bin_vars_mem op x a b v).2 ((hmem v).1 hv)
  · intro c alt hc halt u v
    rw [hden c u v]
    by_cases hvx : v = x
    · rw [if_pos hvx, if_pos hvx, hr0]
      rcases idx_cases (stmtVars x (atomName a) (atomName b)) u with ⟨hu, hu'⟩ | ⟨_, k, hk, huk, hk'⟩
      · rw [hu']
        simp only
        rw [operandFlow_of_not_mem]
        intro h
        exact hu ((hmem u).2 (Or.inr h))
      · rw [huk]
        simp only [vec]
        have hk2 : k < (Gen.vectorTable op (classY x (atomName a)) (classZ x (atomName a) (atomName b))).length := by
          rw [hlen]; exact hk
        rw [List.getD_eq_getElem?_getD, List.getElem?_map, List.getElem?_eq_getElem hk2]
        simp only [Option.map_some, Option.getD_some]
        rw [entryPoly_evalD idx _ c alt hc halt]
        have := htab alt halt k hk
        rw [List.getD_eq_getElem?_getD, List.getElem?_eq_getElem hk2, Option.getD_some,
          idx_getD huk] at this
        exact this
    · rw [if_neg hvx, if_neg hvx]; rfl

/-! ## `skip`, `x = y`, `x = const` -/

theorem emptyRel_wf : (Relation.new []).WF := by
  refine ⟨List.nodup_nil, ?_, rfl, ?_, ?_⟩ <;> intro _ h <;> cases h

theorem emptyRel_vars : (Relation.new []).vars = [] := rfl

theorem emptyRel_den (c : Choice) (u v : String) : (Relation.new []).den c u v = idS u v :=
  Relation.den_nil_vars rfl c u v

theorem evalD_const (s : Scalar) (c : Choice) : (Poly.const s).evalD c = s := by
  exact sum_zero_left s

theorem constAsgn_den (x : String) (hx : x ≠ "") :
    ∃ rel, Analysis.constAsgn x = [rel] ∧ rel.WF ∧ (∀ v ∈ rel.vars, v ∈ (Cmd.asgnConst x).vars) ∧
      ∀ (c : Choice) (u v : String), rel.den c u v = if v = x then .o else idS u v := by
  have hnew : Relation.new [x] = ⟨[x], [[Poly.zero]]⟩ := by
    unfold Relation.new
    simp only [filter_nonempty_eq [x] (by simpa using hx)]
    rfl
  refine ⟨⟨[x], [[Poly.zero]]⟩, ?_, ?_, ?_, ?_⟩
  · unfold Analysis.constAsgn RelList.ofVars; rw [hnew]
  · refine ⟨by simp, by simpa using hx, rfl, by simp, ?_⟩
    intro row hr p hp
    simp only [List.mem_singleton] at hr; subst hr
    simp only [List.mem_singleton] at hp; subst hp
    rfl
  · intro v hv; simpa [Cmd.vars] using hv
  · intro c u v
    by_cases hu : u = x
    · by_cases hv : v = x
      · rw [hu, hv, if_pos rfl]
        have h0 : List.idxOf? x [x] = some 0 := by simp [List.idxOf?_cons]
        rw [Relation.den_of_idx (r := ⟨[x], [[Poly.zero]]⟩) h0 h0]
        exact evalD_zero c
      · rw [if_neg hv]
        exact Relation.den_of_not_mem_right (r := ⟨[x], [[Poly.zero]]⟩) (by simpa using hv) c u
    · rw [Relation.den_of_not_mem_left (r := ⟨[x], [[Poly.zero]]⟩) (by simpa using hu) c v]
      split
      · rename_i hv; subst hv; exact idS_of_ne hu
      · rfl

theorem idAsgn_den (x y : String) (hx : x ≠ "") (hy : y ≠ "") :
    ∃ rel, Analysis.idAsgn x y = .ok [rel] ∧ rel.WF ∧ (∀ v ∈ rel.vars, v ∈ (Cmd.asgnVar x y).vars) ∧
      ∀ (c : Choice) (u v : String), rel.den c u v =
        if x = y then idS u v
        else if v = x then (if u = y then .m else .o) else idS u v := by
  by_cases hxy : x = y
  · subst hxy
    refine ⟨Relation.new [], ?_, emptyRel_wf, ?_, ?_⟩
    · unfold Analysis.idAsgn; simp; rfl
    · intro v hv; cases hv
    · intro c u v; rw [if_pos rfl]; exact emptyRel_den c u v
  · have hne : ∀ v ∈ [x, y], v ≠ "" := by
      intro v hv
      simp only [List.mem_cons, List.not_mem_nil, or_false] at hv
      rcases hv with rfl | rfl <;> assumption
    have hnd : [x, y].Nodup := by simp [hxy]
    have hvars := Relation.identity_vars [x, y] hne
    obtain ⟨rel, hrel, hwf, hv, hden⟩ := replaceColumn_spec (Relation.identity [x, y])
      [Poly.const .o, Poly.const .m] x (by rw [hvars]; exact hnd) (by rw [hvars]; exact hne)
      (by rw [hvars]; simp)
      (by rw [hvars]; rfl) (by intro p hp; simp at hp; rcases hp with rfl | rfl <;> rfl)
    refine ⟨rel, ?_, hwf, ?_, ?_⟩
    · unfold Analysis.idAsgn
      have : (x == y) = false := by simpa using hxy
      simp only [this]
      exact relList_replaceColumn_single _ rel _ x hrel
    · intro v hv'; rw [hv, hvars] at hv'; exact hv'
    · intro c u v
      rw [hden c u v, if_neg hxy, hvars]
      by_cases hvx : v = x
      · rw [if_pos hvx, if_pos hvx]
        by_cases hux : u = x
        · subst hux
          have : List.idxOf? u [u, y] = some 0 := by simp [List.idxOf?_cons]
          rw [this, if_neg hxy]
          exact evalD_const _ c
        · by_cases huy : u = y
          · subst huy
            have : List.idxOf? u [x, u] = some 1 := by
              simp [List.idxOf?_cons, hxy]
            rw [this, if_pos rfl]
            exact evalD_const _ c
          · have : List.idxOf? u [x, y] = none := by
              rw [List.idxOf?_eq_none_iff]; simp [hux, huy]
            rw [this, if_neg huy]
      · rw [if_neg hvx, if_neg hvx]

/-! ## `unary_asgn` is the documented rewriting -/

theorem unaryAsgn_const (idx : Nat) (x op : String) (e : Node) (ty v : String)
    (he : e.rmCast = .const ty v) :
    Analysis.unaryAsgn idx x op e = .ok (some (idx, Analysis.constAsgn x)) := by
  unfold Analysis.unaryAsgn
  simp only [he]
  simp [bind, Except.bind, pure, Except.pure]

theorem unaryAsgn_not (idx : Nat) (x : String) (e : Node) :
    Analysis.unaryAsgn idx x "!" e = .ok (some (idx, Analysis.constAsgn x)) := by
  unfold Analysis.unaryAsgn
  cases he : e.rmCast <;>
    simp [Gen.incDec, Gen.opMinus, Gen.opPlus, Gen.opNeg, Gen.opSizeof, bind, Except.bind, pure, Except.pure]

theorem unaryAsgn_sizeof (idx : Nat) (x : String) (e : Node) :
    Analysis.unaryAsgn idx x "sizeof" e = .ok (some (idx, Analysis.constAsgn x)) := by
  unfold Analysis.unaryAsgn
  cases he : e.rmCast <;>
    simp [Gen.incDec, Gen.opMinus, Gen.opPlus, Gen.opSizeof, bind, Except.bind, pure, Except.pure]

theorem unaryAsgn_minus (idx : Nat) (x : String) (e : Node) (y : String) (he : e.rmCast = .id y) :
    Analysis.unaryAsgn idx x "-" e = (do
      let (i1, rl) ← Analysis.binaryOp idx x "*" (.id y) (.const "int" "-1")
      pure (some (i1, rl))) := by
  unfold Analysis.unaryAsgn
  simp only [he]
  simp [Gen.incDec, Gen.opMinus, Gen.opPlus, Gen.opNeg, Gen.opSizeof, Gen.opMult]

theorem unaryAsgn_plus (idx : Nat) (x : String) (e : Node) (y : String) (he : e.rmCast = .id y) :
    Analysis.unaryAsgn idx x "+" e = (do
      let rl ← Analysis.idAsgn x y
      pure (some (idx, rl))) := by
  unfold Analysis.unaryAsgn
  simp only [he]
  simp [Gen.incDec, Gen.opMinus, Gen.opPlus, Gen.opNeg, Gen.opSizeof]

theorem lastChar_postInc : String.ofList ("p++".toList.drop ("p++".length - 1)) = "+" := by decide
theorem lastChar_postDec : String.ofList ("p--".toList.drop ("p--".length - 1)) = "-" := by decide
theorem lastChar_preInc : String.ofList ("++".toList.drop ("++".length - 1)) = "+" := by decide
theorem lastChar_preDec : String.ofList ("--".toList.drop ("--".length - 1)) = "-" := by decide

theorem incDecParts_id (op : String) (e : Node) (y : String) (he : e.rmCast = .id y) :
    Analysis.incDecParts op e = .ok (y, String.ofList (op.toList.drop (op.length - 1))) := by
  unfold Analysis.incDecParts; rw [he]; rfl

theorem unaryAsgn_postInc (idx : Nat) (x : String) (e : Node) (y : String) (he : e.rmCast = .id y) :
    Analysis.unaryAsgn idx x "p++" e = (do
      let (i1, fst) ← Analysis.binaryOp idx y "+" (.id y) (.const "int" "1")
      let snd ← Analysis.idAsgn x y
      pure (some (i1, Analysis.composeAll [snd, fst]))) := by
  unfold Analysis.unaryAsgn
  simp only [he]
  have hr : (Node.id y).rmCast = .id y := rfl
  simp [Gen.incDec, Gen.prefixOps, Gen.opMinus, Gen.opPlus, Gen.opNeg, Gen.opSizeof,
    incDecParts_id _ _ y hr]
  rfl

theorem unaryAsgn_postDec (idx : Nat) (x : String) (e : Node) (y : String) (he : e.rmCast = .id y) :
    Analysis.unaryAsgn idx x "p--" e = (do
      let (i1, fst) ← Analysis.binaryOp idx y "-" (.id y) (.const "int" "1")
      let snd ← Analysis.idAsgn x y
      pure (some (i1, Analysis.composeAll [snd, fst]))) := by
  unfold Analysis.unaryAsgn
  simp only [he]
  have hr : (Node.id y).rmCast = .id y := rfl
  simp [Gen.incDec, Gen.prefixOps, Gen.opMinus, Gen.opPlus, Gen.opNeg, Gen.opSizeof,
    incDecParts_id _ _ y hr]
  rfl

theorem unaryAsgn_preInc (idx : Nat) (x : String) (e : Node) (y : String) (he : e.rmCast = .id y) :
    Analysis.unaryAsgn idx x "++" e = (do
      let (i1, fst) ← Analysis.binaryOp idx y "+" (.id y) (.const "int" "1")
      let snd ← Analysis.idAsgn x y
      pure (some (i1, Analysis.composeAll [fst, snd]))) := by
  unfold Analysis.unaryAsgn
  simp only [he]
  have hr : (Node.id y).rmCast = .id y := rfl
  simp [Gen.incDec, Gen.prefixOps, Gen.opMinus, Gen.opPlus, Gen.opNeg, Gen.opSizeof,
    incDecParts_id _ _ y hr]
  rfl

theorem unaryAsgn_preDec (idx : Nat) (x : String) (e : Node) (y : String) (he : e.rmCast = .id y) :
    Analysis.unaryAsgn idx x "--" e = (do
      let (i1, fst) ← Analysis.binaryOp idx y "-" (.id y) (.const "int" "1")
      let snd ← Analysis.idAsgn x y
      pure (some (i1, Analysis.composeAll [fst, snd]))) := by
  unfold Analysis.unaryAsgn
  simp only [he]
  have hr : (Node.id y).rmCast = .id y := rfl
  simp [Gen.incDec, Gen.prefixOps, Gen.opMinus, Gen.opPlus, Gen.opNeg, Gen.opSizeof,
    incDecParts_id _ _ y hr]
  rfl

end Refine
end Mwp
