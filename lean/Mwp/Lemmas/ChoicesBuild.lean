/-
  C04: `buildChoices` covers exactly the avoiding vectors; observers of `Choices.T`
  (`isValid`, `all`, `first`, `infinite`, `intersection`) in terms of boxes.
-/
import Mwp.Lemmas.ChoicesBuildB

namespace Mwp.Choices

/-! ## `buildChoices` -/

/-- `buildChoices` never raises on well-formed sequences and its boxes cover exactly the
    avoiding vectors. -/
theorem buildChoices_ok (domain : List Nat) (n : Nat) (inf : List Seq)
    (hd : domain.Nodup) (hne : domain ≠ [])
    (hwf : ∀ s ∈ inf, WFSeq domain n s) :
    ∃ vs, buildChoices domain n inf = .ok vs ∧
      (∀ w ∈ vs, w.length = n ∧ ∀ e ∈ w, e ≠ [] ∧ ∀ x ∈ e, x ∈ domain) ∧
      ∀ v, VecOK domain n v → ((∃ w ∈ vs, InBox w v) ↔ Avoids inf v) := by
  unfold buildChoices
  by_cases he : inf = []
  · subst he
    simp only [List.isEmpty_nil, if_true]
    refine ⟨_, rfl, ?_, ?_⟩
    · intro w hw
      have : w = List.replicate n domain := by simpa using hw
      subst this
      refine ⟨by simp, fun e he => ?_⟩
      have := List.eq_of_mem_replicate he
      subst this
      exact ⟨hne, fun x hx => hx⟩
    · intro v hv
      constructor
      · intro _ s hs
        cases hs
      · intro _
        exact ⟨_, List.mem_singleton.2 rfl, (inBox_replicate domain n v).2 hv⟩
  · have hemp : inf.isEmpty = false := by
      cases inf with
      | nil => exact absurd rfl he
      | cons _ _ => rfl
    simp only [hemp, Bool.false_eq_true, if_false]
    have hpicks : ∀ p ∈ sections (sortByLen inf), PickOK domain n p := by
      intro p hp d hdm
      obtain ⟨s, hs, hds⟩ := mem_of_mem_sections _ _ hp d hdm
      exact (hwf s ((mem_sortByLen_b _ _).1 hs)).2 d hds
    obtain ⟨vs, h, hs, hb⟩ := foldlM_buildStep domain n
      (!(sortByLen inf).flatten.isEmpty &&
        (dedup (sortByLen inf).flatten).length == (sortByLen inf).flatten.length)
      hd hne _ hpicks [] (by simp)
    refine ⟨vs, h, fun w hw => hs w hw, fun v hv => ?_⟩
    rw [hb v hv, ← avoids_congr _ _ (mem_sortByLen_b inf) v, avoids_iff_sections]
    simp

/-! ## `isValid` -/

theorem zipAll_inBox (w : Vect) (v : List Nat) (hl : v.length = w.length) :
    ((v.zip w).all fun (value, allowed) => allowed.contains value) = true ↔ InBox w v := by
  rw [zip_all_iff]
  unfold InBox
  simp only [List.contains_iff_mem]
  exact ⟨fun h => ⟨hl, h⟩, fun h => h.2⟩

/-- observers of an object whose boxes all have length `n` -/
theorem isValid_iff (c : T) (n : Nat) (v : List Nat) (hv : v.length = n)
    (hc : ∀ w ∈ c.valid, w.length = n) :
    isValid c v = true ↔ ∃ w ∈ c.valid, InBox w v := by
  unfold isValid
  rw [List.any_eq_true]
  constructor
  · rintro ⟨w, hw, h⟩
    simp only [Bool.and_eq_true, decide_eq_true_eq] at h
    exact ⟨w, hw, (zipAll_inBox w v (by rw [hv, hc w hw])).1 h.2⟩
  · rintro ⟨w, hw, hb⟩
    refine ⟨w, hw, ?_⟩
    simp only [Bool.and_eq_true, decide_eq_true_eq]
    exact ⟨by rw [hb.1]; exact Nat.le_refl _, (zipAll_inBox w v hb.1).2 hb⟩

/-! ## `all` -/

theorem mem_product (w : Vect) (v : List Nat) :
    v ∈ w.foldr (fun ch acc => ch.flatMap fun x => acc.map (x :: ·)) [[]] ↔ InBox w v := by
  induction w generalizing v with
  | nil => simp [inBox_nil]
  | cons e t ih =>
    simp only [List.foldr_cons, List.mem_flatMap, List.mem_map]
    constructor
    · rintro ⟨x, hx, u, hu, rfl⟩
      exact (inBox_cons e t x u).2 ⟨hx, (ih u).1 hu⟩
    · intro h
      cases v with
      | nil => exact absurd h (not_inBox_cons_nil _ _)
      | cons x u =>
        obtain ⟨hx, hu⟩ := (inBox_cons e t x u).1 h
        exact ⟨x, hx, u, (ih u).2 hu, rfl⟩

theorem mem_all_iff (c : T) (v : List Nat) :
    v ∈ all c ↔ ∃ w ∈ c.valid, InBox w v := by
  unfold all
  simp only [List.mem_flatMap, mem_product]

/-! ## `infinite`, `first` -/

theorem infinite_iff (c : T) (n : Nat) (hidx : c.index = n) :
    infinite c = true ↔ c.valid = [] := by
  unfold infinite
  rw [hidx]
  simp [List.isEmpty_iff]

theorem mapM_head (w : Vect) (h : ∀ e ∈ w, e ≠ []) :
    ∃ f, w.mapM (fun ch => match ch with
        | [] => (throw "IndexError" : M Nat)
        | x :: _ => pure x) = .ok f ∧ InBox w f := by
  induction w with
  | nil => exact ⟨[], rfl, (inBox_nil []).2 rfl⟩
  | cons e t ih =>
    obtain ⟨f, hf, hb⟩ := ih (fun e' he' => h e' (List.mem_cons_of_mem _ he'))
    cases e with
    | nil => exact absurd rfl (h [] List.mem_cons_self)
    | cons x r =>
      refine ⟨x :: f, ?_, (inBox_cons _ _ _ _).2 ⟨List.mem_cons_self, hb⟩⟩
      rw [List.mapM_cons, hf]
      rfl

theorem first_ok (c : T) (n : Nat) (hc : ∀ w ∈ c.valid, w.length = n ∧ ∀ e ∈ w, e ≠ [])
    (hinf : infinite c = false) (hidx : c.index = n) :
    ∃ f, first c = .ok (some f) ∧ ∃ w ∈ c.valid, InBox w f := by
  have hne : c.valid ≠ [] := by
    intro h
    have := (infinite_iff c n hidx).2 h
    rw [hinf] at this
    cases this
  unfold first
  simp only [hinf, Bool.false_eq_true, if_false]
  obtain ⟨valid, index⟩ := c
  cases valid with
  | nil => exact absurd rfl hne
  | cons w rest =>
    obtain ⟨f, hf, hb⟩ := mapM_head w (hc w List.mem_cons_self).2
    refine ⟨f, ?_, w, List.mem_cons_self, hb⟩
    exact congrArg (fun m : M (List Nat) => m >>= fun picks => pure (some picks)) hf

/-! ## `intersection` -/

theorem mk_valid (valid : List Vect) (index : Int) : (mk valid index).valid = valid := by
  unfold mk
  split <;> rfl

/-- the entrywise intersection of two boxes -/
def interBox (a b : Vect) : Vect := (a.zip b).map fun (av, bv) => av.filter bv.contains

theorem interBox_length (a b : Vect) : (interBox a b).length = min a.length b.length := by
  simp [interBox]

theorem inBox_interBox (a b : Vect) (v : List Nat) (hl : a.length = b.length) :
    InBox (interBox a b) v ↔ InBox a v ∧ InBox b v := by
  unfold InBox
  have hil : (interBox a b).length = min a.length b.length := interBox_length a b
  have hget : ∀ i (h : i < (interBox a b).length) (ha : i < a.length) (hb : i < b.length) x,
      x ∈ (interBox a b)[i] ↔ x ∈ a[i] ∧ x ∈ b[i] := by
    intro i h ha hb x
    simp [interBox, List.mem_filter]
  constructor
  · rintro ⟨hvl, h⟩
    have hmem : ∀ i (h1 : i < v.length), v[i] ∈ a[i]'(by omega) ∧ v[i] ∈ b[i]'(by omega) := by
      intro i h1
      have := h i h1 (by omega)
      rwa [hget i (by omega) (by omega) (by omega)] at this
    exact ⟨⟨by omega, fun i h1 _ => (hmem i h1).1⟩, ⟨by omega, fun i h1 _ => (hmem i h1).2⟩⟩
  · rintro ⟨⟨hla, ha⟩, ⟨hlb, hb⟩⟩
    refine ⟨by omega, fun i h1 h2 => ?_⟩
    rw [hget i h2 (by omega) (by omega)]
    exact ⟨ha i h1 (by omega), hb i h1 (by omega)⟩

theorem vectIntersection_eq (a b : Vect) :
    vectIntersection a b = if (interBox a b).any List.isEmpty then none else some (interBox a b) :=
  rfl

theorem vectIntersection_some (a b t : Vect) (h : vectIntersection a b = some t) :
    t = interBox a b := by
  rw [vectIntersection_eq] at h
  split at h
  · cases h
  · exact (Option.some.inj h).symm

theorem vectIntersection_of_inBox (a b : Vect) (v : List Nat) (hl : a.length = b.length)
    (ha : InBox a v) (hb : InBox b v) : vectIntersection a b = some (interBox a b) := by
  rw [vectIntersection_eq, if_neg]
  intro hany
  rw [List.any_eq_true] at hany
  obtain ⟨e, he, hemp⟩ := hany
  obtain ⟨i, hi, rfl⟩ := List.getElem_of_mem he
  have hbox := (inBox_interBox a b v hl).2 ⟨ha, hb⟩
  have := hbox.2 i (by rw [hbox.1]; exact hi) hi
  rw [List.isEmpty_iff] at hemp
  rw [hemp] at this
  cases this

/-- the boxes of the intersection object -/
theorem intersection_boxes (c1 c2 : T) (n : Nat) (v : List Nat)
    (h1 : ∀ w ∈ c1.valid, w.length = n) (h2 : ∀ w ∈ c2.valid, w.length = n) :
    (∀ w ∈ (intersection c1 c2).valid, w.length = n) ∧
    ((∃ w ∈ (intersection c1 c2).valid, InBox w v) ↔
      (∃ w ∈ c1.valid, InBox w v) ∧ (∃ w ∈ c2.valid, InBox w v)) := by
  unfold intersection
  rw [mk_valid]
  simp only [List.mem_flatMap, List.mem_filterMap]
  constructor
  · rintro w ⟨w1, hw1, w2, hw2, hs⟩
    rw [vectIntersection_some _ _ _ hs, interBox_length, h1 w1 hw1, h2 w2 hw2]
    exact Nat.min_self n
  · constructor
    · rintro ⟨w, ⟨w1, hw1, w2, hw2, hs⟩, hb⟩
      rw [vectIntersection_some _ _ _ hs,
        inBox_interBox _ _ _ (by rw [h1 w1 hw1, h2 w2 hw2])] at hb
      exact ⟨⟨w1, hw1, hb.1⟩, ⟨w2, hw2, hb.2⟩⟩
    · rintro ⟨⟨w1, hw1, hb1⟩, ⟨w2, hw2, hb2⟩⟩
      have hl : w1.length = w2.length := by rw [h1 w1 hw1, h2 w2 hw2]
      exact ⟨interBox w1 w2,
        ⟨w1, hw1, w2, hw2, vectIntersection_of_inBox w1 w2 v hl hb1 hb2⟩,
        (inBox_interBox w1 w2 v hl).2 ⟨hb1, hb2⟩⟩

/-- intersecting two objects accepts exactly the vectors both accept
    (the hypothesis on `c1.index` of the original statement is not needed) -/
theorem intersection_exact' (c1 c2 : T) (n : Nat) (v : List Nat) (hv : v.length = n)
    (h1 : ∀ w ∈ c1.valid, w.length = n) (h2 : ∀ w ∈ c2.valid, w.length = n) :
    isValid (intersection c1 c2) v = (isValid c1 v && isValid c2 v) := by
  obtain ⟨hlen, hbox⟩ := intersection_boxes c1 c2 n v h1 h2
  rw [Bool.eq_iff_iff, Bool.and_eq_true, isValid_iff _ n v hv hlen, isValid_iff _ n v hv h1,
    isValid_iff _ n v hv h2]
  exact hbox

theorem intersection_exact (c1 c2 : T) (n : Nat) (v : List Nat) (hv : v.length = n)
    (h1 : ∀ w ∈ c1.valid, w.length = n) (h2 : ∀ w ∈ c2.valid, w.length = n)
    (_hi : c1.index = n) :
    isValid (intersection c1 c2) v = (isValid c1 v && isValid c2 v) :=
  intersection_exact' c1 c2 n v hv h1 h2

end Mwp.Choices
