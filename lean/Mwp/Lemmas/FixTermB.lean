/-
  FixTerm, part B: canonical polynomials are determined by their values.

  For a well-formed monomial `a` the "generic" choice vector `gen a.deltas N F` takes the values
  `a` asks for at `a`'s indices and a fresh value `F` everywhere else; a monomial whose values are
  all below `F` matches it iff its deltas all occur in `a`.  Hence two canonical polynomials with
  the same value at every choice vector are the same list (`canon_ext`): the syntactic stop test
  of `Relation.fixpoint` and the semantic one agree.
-/
import Mwp.Lemmas.FixTermA

namespace Mwp.FixTerm
open Mwp Mwp.Props.C16 Mwp.Lemmas.Poly

/-! ## scalar sums -/

theorem sumAll_absorb {l : List Scalar} {s : Scalar} (h : s ∈ l) :
    s + Poly.sumAll l = Poly.sumAll l := by
  induction l with
  | nil => cases h
  | cons x t ih =>
    rw [sumAll_cons]
    rcases List.mem_cons.1 h with rfl | h
    · rw [← sum_assoc, sum_idem]
    · rw [← sum_assoc, sum_comm s x, sum_assoc, ih h]

theorem sumAll_mem {l : List Scalar} (h : Poly.sumAll l ≠ .o) : Poly.sumAll l ∈ l := by
  induction l with
  | nil => exact absurd rfl h
  | cons x t ih =>
    rw [sumAll_cons] at h ⊢
    rcases add_left_or_right x (Poly.sumAll t) with e | e
    · rw [e]; exact List.mem_cons_self ..
    · rw [e]
      by_cases ht : Poly.sumAll t = .o
      · rw [ht, sum_zero_right] at e
        rw [ht, ← e]; exact List.mem_cons_self ..
      · exact List.mem_cons_of_mem _ (ih ht)

theorem mem_matching {p : Poly} {c : Choice} {s : Scalar} :
    s ∈ Poly.matching p c ↔ ∃ m ∈ p, m.matchesC c = true ∧ m.scalar = s := by
  unfold Poly.matching
  simp only [List.mem_map, List.mem_filter]
  constructor
  · rintro ⟨m, ⟨h1, h2⟩, h3⟩; exact ⟨m, h1, h2, h3⟩
  · rintro ⟨m, h1, h2, h3⟩; exact ⟨m, ⟨h1, h2⟩, h3⟩

/-! ## the generic choice vector of a delta list -/

/-- value asked for at index `j` by the delta list, `F` when it does not mention `j` -/
def genVal (ds : List Delta) (F j : Nat) : Nat :=
  match ds.find? (fun d => d.2 == j) with
  | some d => d.1
  | none => F

def gen (ds : List Delta) (N F : Nat) : Choice := (List.range N).map (genVal ds F)

theorem gen_get_lt (ds : List Delta) (N F j : Nat) (hj : j < N) :
    (gen ds N F)[j]? = some (genVal ds F j) := by
  unfold gen
  rw [List.getElem?_map, List.getElem?_range hj]
  rfl

theorem gen_get_ge (ds : List Delta) (N F j : Nat) (hj : N ≤ j) : (gen ds N F)[j]? = none := by
  unfold gen
  rw [List.getElem?_eq_none]
  simpa using hj

theorem find_of_sorted {ds : List Delta} (hs : Sorted ds) {d : Delta} (hd : d ∈ ds) :
    ds.find? (fun e => e.2 == d.2) = some d := by
  induction ds with
  | nil => cases hd
  | cons e t ih =>
    unfold Sorted at hs
    rw [List.pairwise_cons] at hs
    rcases List.mem_cons.1 hd with rfl | hd
    · simp
    · have hlt := hs.1 d hd
      have hne : (e.2 == d.2) = false := by
        rw [beq_eq_false_iff_ne]; omega
      rw [List.find?_cons, hne]
      exact ih hs.2 hd

theorem gen_matches_self (s : Scalar) (ds : List Delta) (N F : Nat) (hs : Sorted ds)
    (hN : ∀ d ∈ ds, d.2 < N) : (Mono.mk s ds).matchesC (gen ds N F) = true := by
  unfold Mono.matchesC
  rw [List.all_eq_true]
  intro d hd
  rw [gen_get_lt _ _ _ _ (hN d hd)]
  unfold genVal
  rw [find_of_sorted hs hd]
  simp

theorem subset_of_matches_gen (m : Mono) (ds : List Delta) (N F : Nat)
    (hm : m.matchesC (gen ds N F) = true) (hF : ∀ d ∈ m.deltas, d.1 < F) :
    ∀ d ∈ m.deltas, d ∈ ds := by
  intro d hd
  unfold Mono.matchesC at hm
  rw [List.all_eq_true] at hm
  have h := hm d hd
  by_cases hj : d.2 < N
  · rw [gen_get_lt _ _ _ _ hj] at h
    unfold genVal at h
    cases hf : ds.find? (fun e => e.2 == d.2) with
    | none =>
      rw [hf] at h
      have : F = d.1 := by simpa using h
      have := hF d hd
      omega
    | some e =>
      rw [hf] at h
      have h1 : e.1 = d.1 := by simpa using h
      have h2 : e.2 = d.2 := by simpa using List.find?_some hf
      have he : e ∈ ds := List.mem_of_find?_eq_some hf
      have : e = d := Prod.ext h1 h2
      rw [← this]; exact he
  · rw [gen_get_ge _ _ _ _ (by omega)] at h
    simp at h

/-! ## bounds on the numbers occurring in a polynomial -/

theorem bound_deltas (ds : List Delta) : ∃ B, ∀ d ∈ ds, d.1 < B ∧ d.2 < B := by
  induction ds with
  | nil => exact ⟨0, fun d hd => by cases hd⟩
  | cons e t ih =>
    obtain ⟨B, hB⟩ := ih
    refine ⟨B + e.1 + e.2 + 1, ?_⟩
    intro d hd
    rcases List.mem_cons.1 hd with rfl | hd
    · omega
    · have := hB d hd; omega

theorem bound_poly (p : Poly) : ∃ B, ∀ m ∈ p, ∀ d ∈ m.deltas, d.1 < B ∧ d.2 < B := by
  induction p with
  | nil => exact ⟨0, fun m hm => by cases hm⟩
  | cons x t ih =>
    obtain ⟨B, hB⟩ := ih
    obtain ⟨B', hB'⟩ := bound_deltas x.deltas
    refine ⟨B + B', ?_⟩
    intro m hm d hd
    rcases List.mem_cons.1 hm with rfl | hm
    · have := hB' d hd; omega
    · have := hB m hm d hd; omega

/-! ## equal values force domination -/

/-- if `p'` has the same value as `p` at the generic choice of a non-zero monomial `a ∈ p`,
    some monomial of `p'` dominates `a` -/
theorem sem_dom (p p' : Poly) (a : Mono) (ha : a ∈ p) (hwf : a.WF = true) (hnz : a.scalar ≠ .o)
    (hsem : ∀ c, Poly.evalD p c = Poly.evalD p' c) : ∃ m' ∈ p', Dom m' a := by
  obtain ⟨B1, hB1⟩ := bound_deltas a.deltas
  obtain ⟨B2, hB2⟩ := bound_poly p'
  let c := gen a.deltas (B1 + B2) (B1 + B2)
  have hmatch : a.matchesC c = true := by
    have := gen_matches_self a.scalar a.deltas (B1 + B2) (B1 + B2) ((sortedDeltas_iff _).1 hwf)
      (fun d hd => by have := hB1 d hd; omega)
    exact this
  have hmem : a.scalar ∈ Poly.matching p c := mem_matching.2 ⟨a, ha, hmatch, rfl⟩
  have habs : a.scalar + Poly.evalD p c = Poly.evalD p c := sumAll_absorb hmem
  have hne : Poly.evalD p' c ≠ .o := by
    rw [← hsem c]
    intro e
    rw [e] at habs
    exact hnz (add_eq_o habs).1
  have hin : Poly.evalD p' c ∈ Poly.matching p' c := sumAll_mem hne
  obtain ⟨m', hm', hmm, hms⟩ := mem_matching.1 hin
  refine ⟨m', hm', ?_, ?_⟩
  · unfold Mono.contains
    rw [List.all_eq_true]
    intro d hd
    have := subset_of_matches_gen m' a.deltas (B1 + B2) (B1 + B2) hmm
      (fun d hd => by have := hB2 m' hm' d hd; omega) d hd
    simpa using this
  · rw [hms, ← hsem c]; exact habs

/-! ## canonical forms are determined by their values -/

theorem canon_mem_of_sem {p p' : Poly} (hp : Canon p) (hp' : Canon p')
    (hsem : ∀ c, Poly.evalD p c = Poly.evalD p' c) :
    ∀ a ∈ p, a.scalar ≠ .o → a ∈ p' := by
  intro a ha hnz
  have hwa := (WF_iff _).1 hp.wf a ha
  obtain ⟨m', hm', hd1⟩ := sem_dom p p' a ha hwa hnz hsem
  have hwm := (WF_iff _).1 hp'.wf m' hm'
  have hnz' : m'.scalar ≠ .o := by
    intro e
    have := hd1.2
    rw [e] at this
    exact hnz (add_eq_o this).1
  obtain ⟨a'', ha'', hd2⟩ := sem_dom p' p m' hm' hwm hnz' (fun c => (hsem c).symm)
  have heq : a'' = a := hp.ac.eq_of_dom ha'' ha (hd2.trans hd1)
  rw [heq] at hd2
  have : a = m' := Dom.antisymm hwa hwm hd2 hd1
  rw [this]; exact hm'

theorem canon_ext {p p' : Poly} (hp : Canon p) (hp' : Canon p')
    (hsem : ∀ c, Poly.evalD p c = Poly.evalD p' c) : p = p' := by
  have k1 := canon_mem_of_sem hp hp' hsem
  have k2 := canon_mem_of_sem hp' hp (fun c => (hsem c).symm)
  have zero_case : ∀ {q : Poly}, (q ≠ [] ∧ ∀ m ∈ q, m.scalar ≠ .o) →
      (∀ a ∈ q, a.scalar ≠ .o → a ∈ Poly.zero) → False := by
    intro q hq hk
    cases q with
    | nil => exact hq.1 rfl
    | cons a t =>
      have hm := hk a (List.mem_cons_self ..) (hq.2 a (List.mem_cons_self ..))
      have : a = ⟨.o, []⟩ := by simpa [Poly.zero] using hm
      exact hq.2 a (List.mem_cons_self ..) (by rw [this])
  rcases hp.nz with e | e
  · rcases hp'.nz with e' | e'
    · rw [e, e']
    · exact (zero_case e' (e ▸ k2)).elim
  · rcases hp'.nz with e' | e'
    · exact (zero_case e (e' ▸ k1)).elim
    · exact SortedP.ext hp.sorted hp'.sorted
        (fun a => ⟨fun h => k1 a h (e.2 a h), fun h => k2 a h (e'.2 a h)⟩)

end Mwp.FixTerm
