/-
  `vectorOf`, `buildStep` and the fold of `buildChoices`.
-/
import Mwp.Lemmas.ChoicesBuildA

namespace Mwp.Choices

/-- all picked deltas are inside the vector and over the domain -/
def PickOK (domain : List Nat) (n : Nat) (p : List Delta) : Prop :=
  ∀ d ∈ p, d.2 < n ∧ d.1 ∈ domain

/-- shape of a box: length `n`, entries non-empty subsets of the domain -/
def ShapeOK (domain : List Nat) (n : Nat) (w : Vect) : Prop :=
  w.length = n ∧ ∀ e ∈ w, e ≠ [] ∧ ∀ x ∈ e, x ∈ domain

/-! ## `vectorOf` -/

/-- the loop body of `vectorOf` -/
def vstep (n : Nat) (v : Vect) (d : Delta) : M Vect :=
  if d.2 < n then pure (v.set d.2 ((v.getD d.2 []).filter (· != d.1))) else throw "IndexError"

theorem vectorOf_eq (domain : List Nat) (n : Nat) (ds : List Delta) :
    vectorOf domain n ds = ds.foldlM (vstep n) (List.replicate n domain) := rfl

theorem vectorOf_aux (n : Nat)
    (ds : List Delta) (v0 : Vect) (hl : v0.length = n) (hds : ∀ d ∈ ds, d.2 < n) :
    ∃ w, ds.foldlM (vstep n) v0 = .ok w ∧ w.length = n ∧
      ∀ i (h : i < w.length) (h0 : i < v0.length) x, x ∈ w[i] ↔ x ∈ v0[i] ∧ (x, i) ∉ ds := by
  induction ds generalizing v0 with
  | nil =>
    exact ⟨v0, rfl, hl, fun i h h0 x => by simp⟩
  | cons d t ih =>
    obtain ⟨c, j⟩ := d
    have hj : j < n := hds (c, j) List.mem_cons_self
    obtain ⟨w, hw, hwl, hwm⟩ := ih (v0.set j ((v0.getD j []).filter (· != c)))
      (by simpa using hl) (fun d hd => hds d (List.mem_cons_of_mem _ hd))
    refine ⟨w, ?_, hwl, fun i h h0 x => ?_⟩
    · rw [List.foldlM_cons]
      simp only [vstep, if_pos hj]
      exact hw
    · rw [hwm i h (by simpa using h0) x, List.getElem_set]
      have hjl : j < v0.length := by omega
      by_cases hji : j = i
      · subst hji
        simp only [if_true, List.mem_cons, Prod.mk.injEq]
        have hg : v0.getD j [] = v0[j] := by simp [List.getD_eq_getElem?_getD, hjl]
        rw [hg]
        simp only [List.mem_filter, bne_iff_ne, ne_eq]
        tauto
      · simp only [if_neg hji, List.mem_cons, Prod.mk.injEq]
        have : ¬ (x = c ∧ i = j) := fun h => hji h.2.symm
        tauto

theorem vectorOf_ok (domain : List Nat) (n : Nat) (ds : List Delta) (hds : ∀ d ∈ ds, d.2 < n) :
    ∃ w, vectorOf domain n ds = .ok w ∧ w.length = n ∧
      ∀ i (h : i < w.length) x, x ∈ w[i] ↔ x ∈ domain ∧ (x, i) ∉ ds := by
  rw [vectorOf_eq]
  obtain ⟨w, hw, hwl, hwm⟩ := vectorOf_aux n ds (List.replicate n domain) (by simp) hds
  refine ⟨w, hw, hwl, fun i h x => ?_⟩
  rw [hwm i h (by simp; omega) x]
  simp

/-- membership characterisation of a pick box gives the `InBox` characterisation -/
theorem inBox_pickBox (domain : List Nat) (n : Nat) (ds : List Delta) (w : Vect)
    (hds : ∀ d ∈ ds, d.2 < n) (hwl : w.length = n)
    (hwm : ∀ i (h : i < w.length) x, x ∈ w[i] ↔ x ∈ domain ∧ (x, i) ∉ ds)
    (v : List Nat) (hv : VecOK domain n v) : InBox w v ↔ Misses ds v := by
  obtain ⟨hvl, hvd⟩ := hv
  unfold InBox Misses
  constructor
  · rintro ⟨_, h⟩ ⟨c, i⟩ hd heq
    have hi : i < n := hds _ hd
    have h1 := h i (by omega) (by omega)
    rw [hwm] at h1
    simp only at heq
    rw [List.getElem?_eq_getElem (by omega)] at heq
    have : v[i] = c := by simpa using heq
    rw [this] at h1
    exact h1.2 hd
  · intro h
    refine ⟨by omega, fun i h1 h2 => ?_⟩
    rw [hwm]
    refine ⟨hvd _ (List.getElem_mem h1), fun hm => ?_⟩
    have := h _ hm
    simp only at this
    rw [List.getElem?_eq_getElem h1] at this
    exact this rfl

/-! ## `buildStep` -/

/-- the validity test of `buildStep` in terms of `valsAt` -/
theorem valid_iff (domain : List Nat) (ds : List Delta) (hne : domain ≠ []) :
    ((dedup (ds.map (·.2))).all fun n =>
        ((ds.map (·.2)).filter (· == n)).length < domain.length) = true ↔
      ∀ i, (valsAt ds i).length < domain.length := by
  simp only [List.all_eq_true, decide_eq_true_eq, mem_dedup_b]
  constructor
  · intro h i
    rw [length_valsAt]
    by_cases hi : i ∈ ds.map (·.2)
    · exact h i hi
    · have : (ds.map (·.2)).filter (· == i) = [] := by
        rw [List.filter_eq_nil_iff]
        intro a ha hai
        have : a = i := by simpa using hai
        exact hi (this ▸ ha)
      rw [this]
      exact List.length_pos_iff.2 hne
  · intro h i _
    rw [← length_valsAt]
    exact h i

theorem buildStep_ok (domain : List Nat) (n : Nat) (distinct : Bool) (vs : List Vect)
    (p : List Delta) (hd : domain.Nodup) (hne : domain ≠ [])
    (hp : PickOK domain n p) (hvs : ∀ w ∈ vs, ShapeOK domain n w) :
    ∃ vs', buildStep domain n distinct vs p = .ok vs' ∧
      (∀ w ∈ vs', ShapeOK domain n w) ∧
      ∀ v, VecOK domain n v →
        ((∃ w ∈ vs', InBox w v) ↔ (∃ w ∈ vs, InBox w v) ∨ Misses p v) := by
  have hds : ∀ d ∈ dedup p, d.2 < n := fun d hd => (hp d ((mem_dedup_b _ _).1 hd)).1
  have hmiss : ∀ v, Misses (dedup p) v ↔ Misses p v := by
    intro v
    unfold Misses
    constructor
    · intro h d hd
      exact h d ((mem_dedup_b _ _).2 hd)
    · intro h d hd
      exact h d ((mem_dedup_b _ _).1 hd)
  unfold buildStep
  by_cases hval : ((dedup ((dedup p).map (·.2))).all fun k =>
      (((dedup p).map (·.2)).filter (· == k)).length < domain.length) = true
  · -- the pick leaves a value at every index
    simp only [hval, Bool.not_true, Bool.false_eq_true, if_false]
    rw [valid_iff _ _ hne] at hval
    obtain ⟨w, hw, hwl, hwm⟩ := vectorOf_ok domain n (dedup p) hds
    have hwshape : ShapeOK domain n w := by
      refine ⟨hwl, fun e he => ?_⟩
      obtain ⟨i, hi, rfl⟩ := List.getElem_of_mem he
      constructor
      · obtain ⟨x, hx, hxn⟩ := exists_not_mem_of_length_lt domain (valsAt (dedup p) i) hd (hval i)
        have : x ∈ w[i] := by
          rw [hwm]
          exact ⟨hx, fun hm => hxn ((mem_valsAt _ _ _).2 hm)⟩
        exact List.ne_nil_of_mem this
      · intro x hx
        rw [hwm] at hx
        exact hx.1
    have hwbox : ∀ v, VecOK domain n v → (InBox w v ↔ Misses p v) := fun v hv => by
      rw [← hmiss]
      exact inBox_pickBox domain n (dedup p) w hds hwl hwm v hv
    rw [hw]
    simp only [bind, Except.bind]
    by_cases hdist : distinct = true
    · simp only [hdist, if_true]
      refine ⟨_, rfl, ?_, ?_⟩
      · intro u hu
        rcases (mem_insertNew_b _ _ _).1 hu with h | rfl
        · exact hvs u h
        · exact hwshape
      · intro v hv
        rw [← hwbox v hv]
        constructor
        · rintro ⟨u, hu, hb⟩
          rcases (mem_insertNew_b _ _ _).1 hu with h | rfl
          · exact Or.inl ⟨u, h, hb⟩
          · exact Or.inr hb
        · rintro (⟨u, hu, hb⟩ | hb)
          · exact ⟨u, (mem_insertNew_b _ _ _).2 (Or.inl hu), hb⟩
          · exact ⟨w, (mem_insertNew_b _ _ _).2 (Or.inr rfl), hb⟩
    · simp only [hdist, Bool.false_eq_true, if_false]
      split_ifs with hnew
      · -- new: drop the boxes contained in `w`, insert `w`
        refine ⟨_, rfl, ?_, ?_⟩
        · intro u hu
          rcases (mem_insertNew_b _ _ _).1 hu with h | rfl
          · exact hvs u (List.mem_filter.1 h).1
          · exact hwshape
        · intro v hv
          rw [← hwbox v hv]
          constructor
          · rintro ⟨u, hu, hb⟩
            rcases (mem_insertNew_b _ _ _).1 hu with h | rfl
            · exact Or.inl ⟨u, (List.mem_filter.1 h).1, hb⟩
            · exact Or.inr hb
          · rintro (⟨u, hu, hb⟩ | hb)
            · by_cases hc : vectContains w u = true
              · refine ⟨w, (mem_insertNew_b _ _ _).2 (Or.inr rfl), ?_⟩
                exact vectContains_inBox w u v (by rw [hwl, (hvs u hu).1]) hc hb
              · refine ⟨u, (mem_insertNew_b _ _ _).2 (Or.inl ?_), hb⟩
                rw [List.mem_filter]
                exact ⟨hu, by simpa using hc⟩
            · exact ⟨w, (mem_insertNew_b _ _ _).2 (Or.inr rfl), hb⟩
      · -- not new: `w` is contained in the first box
        refine ⟨_, rfl, hvs, ?_⟩
        intro v hv
        rw [← hwbox v hv]
        constructor
        · exact Or.inl
        · rintro (h | hb)
          · exact h
          · cases vs with
            | nil => simp at hnew
            | cons f rest =>
              have hc : vectContains f w = true := by simpa using hnew
              exact ⟨f, List.mem_cons_self,
                vectContains_inBox f w v (by rw [hwl, (hvs f List.mem_cons_self).1]) hc hb⟩
  · -- some index loses every value: no vector misses the pick
    simp only [hval, Bool.not_false, if_true]
    refine ⟨vs, rfl, hvs, fun v hv => ?_⟩
    constructor
    · exact Or.inl
    · rintro (h | hm)
      · exact h
      · exfalso
        rw [valid_iff _ _ hne] at hval
        apply hval
        intro i
        apply Classical.byContradiction
        intro hlen
        have hlen : domain.length ≤ (valsAt (dedup p) i).length := by omega
        have hsub : valsAt (dedup p) i ⊆ domain := by
          intro x hx
          rw [mem_valsAt, mem_dedup_b] at hx
          exact (hp _ hx).2
        have hall := subset_of_length_ge domain _ (nodup_valsAt _ i (nodup_dedup p)) hsub hlen
        -- some delta of the pick sits at index `i`, hence `i < n`
        have hpos : 0 < (valsAt (dedup p) i).length :=
          Nat.lt_of_lt_of_le (List.length_pos_iff.2 hne) hlen
        obtain ⟨y, hy⟩ := List.exists_mem_of_length_pos hpos
        rw [mem_valsAt, mem_dedup_b] at hy
        have hi : i < n := (hp _ hy).1
        have hvi : v[i]'(by rw [hv.1]; exact hi) ∈ domain := hv.2 _ (List.getElem_mem _)
        have := hall hvi
        rw [mem_valsAt, mem_dedup_b] at this
        have hne' := hm _ this
        simp only at hne'
        rw [List.getElem?_eq_getElem (by rw [hv.1]; exact hi)] at hne'
        exact hne' rfl

/-! ## the fold -/

theorem foldlM_buildStep (domain : List Nat) (n : Nat) (distinct : Bool)
    (hd : domain.Nodup) (hne : domain ≠ [])
    (picks : List (List Delta)) (hp : ∀ p ∈ picks, PickOK domain n p)
    (vs : List Vect) (hvs : ∀ w ∈ vs, ShapeOK domain n w) :
    ∃ vs', picks.foldlM (buildStep domain n distinct) vs = .ok vs' ∧
      (∀ w ∈ vs', ShapeOK domain n w) ∧
      ∀ v, VecOK domain n v →
        ((∃ w ∈ vs', InBox w v) ↔ (∃ w ∈ vs, InBox w v) ∨ ∃ p ∈ picks, Misses p v) := by
  induction picks generalizing vs with
  | nil => exact ⟨vs, rfl, hvs, fun v _ => by simp⟩
  | cons p rest ih =>
    obtain ⟨vs1, h1, hs1, hb1⟩ :=
      buildStep_ok domain n distinct vs p hd hne (hp p List.mem_cons_self) hvs
    obtain ⟨vs2, h2, hs2, hb2⟩ := ih (fun q hq => hp q (List.mem_cons_of_mem _ hq)) vs1 hs1
    refine ⟨vs2, ?_, hs2, fun v hv => ?_⟩
    · rw [List.foldlM_cons, h1]
      exact h2
    · rw [hb2 v hv, hb1 v hv]
      simp only [List.mem_cons, exists_eq_or_imp]
      exact or_assoc

end Mwp.Choices
