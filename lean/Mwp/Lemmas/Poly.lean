/-
  Helper lemmas for C09 (Polynomial.add / Polynomial.times).
  All semiring facts go through the named laws of `Mwp.Props.C16`.
-/
import Mwp.Model.Polynomial
import Mwp.Props.C16

namespace Mwp.Lemmas.Poly
open Mwp Mwp.Props.C16

/-! ## Scalars -/

instance : Std.Associative (α := Scalar) (· + ·) := ⟨sum_assoc⟩
instance : Std.Commutative (α := Scalar) (· + ·) := ⟨sum_comm⟩

theorem add_eq_o {a b : Scalar} (h : a + b = .o) : a = .o ∧ b = .o := by
  cases a <;> cases b <;> first | exact ⟨rfl, rfl⟩ | exact absurd h (by decide)

theorem add_left_or_right (a b : Scalar) : a + b = a ∨ a + b = b := by
  rw [sum_is_max]; split <;> simp

/-! ## `sumAll` -/

theorem foldl_add (a : Scalar) (l : List Scalar) :
    l.foldl (· + ·) a = a + l.foldl (· + ·) .o := by
  induction l generalizing a with
  | nil => exact (sum_zero_right a).symm
  | cons x t ih =>
    simp only [List.foldl_cons]
    rw [ih (a + x), ih (.o + x), sum_zero_left, sum_assoc]

theorem sumAll_nil : Poly.sumAll [] = .o := rfl

theorem sumAll_cons (s : Scalar) (l : List Scalar) : Poly.sumAll (s :: l) = s + Poly.sumAll l := by
  unfold Poly.sumAll
  rw [List.foldl_cons, foldl_add, sum_zero_left]

theorem sumAll_append (l₁ l₂ : List Scalar) :
    Poly.sumAll (l₁ ++ l₂) = Poly.sumAll l₁ + Poly.sumAll l₂ := by
  induction l₁ with
  | nil => rw [List.nil_append, sumAll_nil, sum_zero_left]
  | cons x t ih => rw [List.cons_append, sumAll_cons, sumAll_cons, ih, sum_assoc]

/-! ## `termAt`, `evalD` as a sum of terms -/

/-- Contribution of one monomial at a choice vector. -/
def termAt (m : Mono) (c : Choice) : Scalar := if m.matchesC c then m.scalar else .o

theorem termAt_of_scalar_o {m : Mono} (h : m.scalar = .o) (c : Choice) : termAt m c = .o := by
  unfold termAt; split <;> simp [h]

theorem matching_nil (c : Choice) : Poly.matching [] c = [] := rfl

theorem matching_cons (m : Mono) (l : Poly) (c : Choice) :
    Poly.matching (m :: l) c =
      if m.matchesC c then m.scalar :: Poly.matching l c else Poly.matching l c := by
  unfold Poly.matching
  rw [List.filter_cons]
  split <;> simp

theorem evalD_nil (c : Choice) : Poly.evalD [] c = .o := rfl

theorem evalD_cons (m : Mono) (l : Poly) (c : Choice) :
    Poly.evalD (m :: l) c = termAt m c + Poly.evalD l c := by
  unfold Poly.evalD termAt
  rw [matching_cons]
  split
  · rw [sumAll_cons]
  · rw [sum_zero_left]

theorem evalD_append (l₁ l₂ : Poly) (c : Choice) :
    Poly.evalD (l₁ ++ l₂) c = Poly.evalD l₁ c + Poly.evalD l₂ c := by
  induction l₁ with
  | nil => rw [List.nil_append, evalD_nil, sum_zero_left]
  | cons x t ih => rw [List.cons_append, evalD_cons, evalD_cons, ih, sum_assoc]

theorem evalD_zero (c : Choice) : Poly.evalD Poly.zero c = .o := by
  unfold Poly.zero
  rw [evalD_cons, evalD_nil, termAt_of_scalar_o rfl, sum_zero_left]

theorem evalD_ofList (l : List Mono) (c : Choice) : Poly.evalD (Poly.ofList l) c = Poly.evalD l c := by
  unfold Poly.ofList
  cases l with
  | nil => exact evalD_zero c
  | cons _ _ => rfl

theorem evalD_filter_nz (l : List Mono) (c : Choice) :
    Poly.evalD (l.filter (fun m => m.scalar != .o)) c = Poly.evalD l c := by
  induction l with
  | nil => rfl
  | cons m t ih =>
    rw [List.filter_cons]
    split
    · rw [evalD_cons, evalD_cons, ih]
    · rename_i h
      have hm : m.scalar = .o := by simpa using h
      rw [evalD_cons, ih, termAt_of_scalar_o hm, sum_zero_left]

theorem evalD_removeZeros (l : List Mono) (c : Choice) :
    Poly.evalD (Poly.removeZeros l) c = Poly.evalD l c := by
  unfold Poly.removeZeros
  simp only
  split
  · rename_i h
    rw [← evalD_filter_nz l c, evalD_zero]
    rw [List.isEmpty_iff] at h
    rw [h, evalD_nil]
  · exact evalD_filter_nz l c

/-! ## Domination (`Monomial.inclusion`) -/

theorem contains_matches {a b : Mono} (h : a.contains b = true) {c : Choice}
    (ha : a.matchesC c = true) : b.matchesC c = true := by
  unfold Mono.contains at h
  unfold Mono.matchesC at *
  rw [List.all_eq_true] at *
  intro d hd
  have hmem : d ∈ a.deltas := by simpa using h d hd
  exact ha d hmem

theorem inclusion_contains {m x : Mono} (h : m.inclusion x = .contains) :
    m.contains x = true ∧ m.scalar + x.scalar = x.scalar := by
  unfold Mono.inclusion at h
  simp only at h
  split at h
  · rename_i h1
    simp only [Bool.and_eq_true, beq_iff_eq] at h1
    exact ⟨h1.1, h1.2.symm⟩
  · split at h <;> cases h

theorem inclusion_included {m x : Mono} (h : m.inclusion x = .included) :
    x.contains m = true ∧ m.scalar + x.scalar = m.scalar := by
  unfold Mono.inclusion at h
  simp only at h
  split at h
  · cases h
  · split at h
    · rename_i h1
      simp only [Bool.and_eq_true, beq_iff_eq] at h1
      exact ⟨h1.1, h1.2.symm⟩
    · cases h

theorem termAt_absorb_contains {m x : Mono} (h : m.inclusion x = .contains) (c : Choice) :
    termAt m c + termAt x c = termAt x c := by
  have ⟨h1, h2⟩ := inclusion_contains h
  unfold termAt
  by_cases hm : m.matchesC c = true
  · rw [if_pos hm, if_pos (contains_matches h1 hm), h2]
  · rw [if_neg hm, sum_zero_left]

theorem termAt_absorb_included {m x : Mono} (h : m.inclusion x = .included) (c : Choice) :
    termAt m c + termAt x c = termAt m c := by
  have ⟨h1, h2⟩ := inclusion_included h
  unfold termAt
  by_cases hx : x.matchesC c = true
  · rw [if_pos hx, if_pos (contains_matches h1 hx), h2]
  · rw [if_neg hx, sum_zero_right]

/-! ## `scanInsert` -/

theorem scanInsert_nil (x : Mono) : Poly.scanInsert [] x = [x] := rfl

theorem scanInsert_cons_contains {m x : Mono} (ms : List Mono) (h : m.inclusion x = .contains) :
    Poly.scanInsert (m :: ms) x = Poly.scanInsert ms x := by
  simp only [Poly.scanInsert, Poly.scan, h]

theorem scanInsert_cons_included {m x : Mono} (ms : List Mono) (h : m.inclusion x = .included) :
    Poly.scanInsert (m :: ms) x = m :: ms := by
  simp [Poly.scanInsert, Poly.scan, h]

theorem scanInsert_cons_empty {m x : Mono} (ms : List Mono) (h : m.inclusion x = .empty) :
    Poly.scanInsert (m :: ms) x = m :: Poly.scanInsert ms x := by
  simp only [Poly.scanInsert, Poly.scan, h]
  split <;> rfl

theorem evalD_scanInsert (l : List Mono) (x : Mono) (c : Choice) :
    Poly.evalD (Poly.scanInsert l x) c = Poly.evalD l c + termAt x c := by
  induction l with
  | nil => rw [scanInsert_nil, evalD_cons, evalD_nil, sum_zero_left, sum_zero_right]
  | cons m ms ih =>
    cases h : m.inclusion x with
    | contains =>
      rw [scanInsert_cons_contains ms h, ih, evalD_cons]
      conv => lhs; rw [← termAt_absorb_contains h c]
      ac_rfl
    | included =>
      rw [scanInsert_cons_included ms h, evalD_cons]
      conv => lhs; rw [← termAt_absorb_included h c]
      ac_rfl
    | empty =>
      rw [scanInsert_cons_empty ms h, evalD_cons, evalD_cons, ih, sum_assoc]

theorem evalD_foldl_scanInsert (xs l : List Mono) (c : Choice) :
    Poly.evalD (xs.foldl Poly.scanInsert l) c = Poly.evalD l c + Poly.evalD xs c := by
  induction xs generalizing l with
  | nil => rw [List.foldl_nil, evalD_nil, sum_zero_right]
  | cons x t ih => rw [List.foldl_cons, ih, evalD_scanInsert, evalD_cons, sum_assoc]

/-! ## `compare`, `insertSorted`, `sortMonos` -/

theorem compare_equal {a b : List Delta} (h : Poly.compare a b = .equal) : a = b := by
  induction a generalizing b with
  | nil =>
    cases b with
    | nil => rfl
    | cons _ _ => simp [Poly.compare] at h
  | cons x xs ih =>
    cases b with
    | nil => simp [Poly.compare] at h
    | cons y ys =>
      unfold Poly.compare at h
      split at h
      · rename_i hxy; rw [hxy, ih h]
      · split at h <;> cases h

theorem evalD_insertSorted (x : Mono) (l : List Mono) (c : Choice) :
    Poly.evalD (Poly.insertSorted x l) c = termAt x c + Poly.evalD l c := by
  induction l with
  | nil => simp only [Poly.insertSorted]; rw [evalD_cons]
  | cons m ms ih =>
    cases h : Poly.compare x.deltas m.deltas with
    | smaller => simp only [Poly.insertSorted, h]; rw [evalD_cons]
    | equal =>
      have hd := compare_equal h
      simp only [Poly.insertSorted, h]
      split
      · rename_i hs
        have ⟨h1, h2⟩ := add_eq_o hs
        rw [evalD_cons, termAt_of_scalar_o h1, termAt_of_scalar_o h2, sum_zero_left, sum_zero_left]
      · rw [evalD_cons, evalD_cons, ← sum_assoc]; congr 1
        unfold termAt Mono.matchesC; simp only; rw [hd]
        split
        · rfl
        · rw [sum_zero_left]
    | larger => simp only [Poly.insertSorted, h]; rw [evalD_cons, evalD_cons, ih]; ac_rfl

theorem sortMonos_cons (x : Mono) (l : List Mono) :
    Poly.sortMonos (x :: l) = Poly.insertSorted x (Poly.sortMonos l) := rfl

theorem evalD_sortMonos (l : List Mono) (c : Choice) :
    Poly.evalD (Poly.sortMonos l) c = Poly.evalD l c := by
  induction l with
  | nil => rfl
  | cons x t ih => rw [sortMonos_cons, evalD_insertSorted, ih, evalD_cons]

/-! ## Sorted delta lists, `copy` is the identity on well-formed monomials -/

abbrev Sorted (l : List Delta) : Prop := l.Pairwise (fun a b => a.2 < b.2)

theorem sortedDeltas_cons (a : Delta) (l : List Delta) :
    Mono.sortedDeltas (a :: l) = true ↔ (∀ b ∈ l, a.2 < b.2) ∧ Mono.sortedDeltas l = true := by
  induction l generalizing a with
  | nil => simp [Mono.sortedDeltas]
  | cons b t ih =>
    rw [Mono.sortedDeltas, Bool.and_eq_true, decide_eq_true_iff, ih b]
    constructor
    · rintro ⟨hab, hbt, hs⟩
      refine ⟨?_, hbt, hs⟩
      intro d hd
      rcases List.mem_cons.1 hd with rfl | hd
      · exact hab
      · exact Nat.lt_trans hab (hbt d hd)
    · rintro ⟨hab, hbt, hs⟩
      exact ⟨hab b (List.mem_cons_self ..), hbt, hs⟩

theorem sortedDeltas_iff (l : List Delta) : Mono.sortedDeltas l = true ↔ Sorted l := by
  induction l with
  | nil => simp [Mono.sortedDeltas, Sorted]
  | cons a t ih => rw [sortedDeltas_cons, ih]; unfold Sorted; rw [List.pairwise_cons]

theorem insertDelta?_append (acc : List Delta) (d : Delta) (h : ∀ e ∈ acc, e.2 < d.2) :
    insertDelta? acc d = some (acc ++ [d]) := by
  induction acc with
  | nil => rfl
  | cons e es ih =>
    unfold insertDelta?
    rw [if_pos (h e (List.mem_cons_self ..)), ih (fun e' he' => h e' (List.mem_cons_of_mem _ he'))]
    rfl

theorem insertDeltas_sorted (s : Scalar) (acc ds : List Delta) (h : Sorted (acc ++ ds)) :
    Mono.insertDeltas ⟨s, acc⟩ ds = ⟨s, acc ++ ds⟩ := by
  induction ds generalizing acc with
  | nil => simp [Mono.insertDeltas]
  | cons d ds ih =>
    unfold Mono.insertDeltas
    have hlt : ∀ e ∈ acc, e.2 < d.2 := by
      intro e he
      exact (List.pairwise_append.1 h).2.2 e he d (List.mem_cons_self ..)
    simp only [insertDelta?_append acc d hlt]
    have h' : Sorted ((acc ++ [d]) ++ ds) := by simpa using h
    rw [ih (acc ++ [d]) h']
    simp

theorem copy_of_WF {m : Mono} (h : m.WF = true) : m.copy = m := by
  unfold Mono.copy Mono.new
  have hs : Sorted ([] ++ m.deltas) := by simpa using (sortedDeltas_iff _).1 h
  rw [insertDeltas_sorted m.scalar [] m.deltas hs]
  rfl

theorem WF_iff (p : Poly) : p.WF = true ↔ ∀ m ∈ p, m.WF = true := by
  unfold Poly.WF; exact List.all_eq_true

theorem map_copy_of_WF {p : Poly} (h : p.WF = true) : p.map Mono.copy = p := by
  rw [WF_iff] at h
  calc p.map Mono.copy = p.map id := List.map_congr_left (fun m hm => copy_of_WF (h m hm))
    _ = p := List.map_id p

theorem polyCopy_of_WF {p : Poly} (h : p.WF = true) : Poly.copy p = Poly.ofList p := by
  unfold Poly.copy; rw [map_copy_of_WF h]

/-! ## `add`: value -/

theorem evalD_add (p q : Poly) (c : Choice) (hp : p.WF = true) (hq : q.WF = true) :
    Poly.evalD (Poly.add p q) c = Poly.evalD p c + Poly.evalD q c := by
  unfold Poly.add
  split
  · rename_i h
    simp only [Bool.and_eq_true, List.isEmpty_iff] at h
    rw [h.1, h.2, evalD_zero, evalD_nil, sum_zero_left]
  · split
    · rename_i h
      rw [List.isEmpty_iff] at h
      rw [polyCopy_of_WF hq, evalD_ofList, h, evalD_nil, sum_zero_left]
    · split
      · rename_i h
        rw [List.isEmpty_iff] at h
        rw [polyCopy_of_WF hp, evalD_ofList, h, evalD_nil, sum_zero_right]
      · rw [evalD_removeZeros, evalD_ofList, evalD_sortMonos, evalD_foldl_scanInsert,
          polyCopy_of_WF hp, evalD_ofList]

/-! ## `insertDelta?` / `insertDeltas` / `prod` -/

/-- One delta agrees with the choice vector. -/
def dmatch (c : Choice) (d : Delta) : Bool := c[d.2]? == some d.1

/-- A delta list agrees with the choice vector. -/
def matchesL (l : List Delta) (c : Choice) : Bool := l.all (dmatch c)

theorem matchesC_eq (m : Mono) (c : Choice) : m.matchesC c = matchesL m.deltas c := rfl

theorem matchesL_nil (c : Choice) : matchesL [] c = true := rfl

theorem matchesL_cons (d : Delta) (l : List Delta) (c : Choice) :
    matchesL (d :: l) c = true ↔ dmatch c d = true ∧ matchesL l c = true := by
  unfold matchesL; rw [List.all_cons, Bool.and_eq_true]

theorem dmatch_conflict {c : Choice} {e d : Delta} (h2 : e.2 = d.2) (h1 : e.1 ≠ d.1)
    (he : dmatch c e = true) (hd : dmatch c d = true) : False := by
  unfold dmatch at he hd
  rw [beq_iff_eq] at he hd
  rw [h2, hd] at he
  exact h1 (Option.some.inj he).symm

theorem insertDelta?_some_matches {acc : List Delta} {d : Delta} {l : List Delta}
    (h : insertDelta? acc d = some l) (c : Choice) :
    matchesL l c = true ↔ matchesL acc c = true ∧ dmatch c d = true := by
  induction acc generalizing l with
  | nil =>
    cases h
    rw [matchesL_cons]; simp [matchesL_nil]
  | cons e es ih =>
    unfold insertDelta? at h
    split at h
    · cases hr : insertDelta? es d with
      | none => rw [hr] at h; cases h
      | some l' =>
        rw [hr] at h; cases h
        rw [matchesL_cons, matchesL_cons, ih hr, and_assoc]
    · split at h
      · rename_i h2
        split at h
        · rename_i h1
          cases h
          have hed : e = d := Prod.ext h1 h2
          rw [← hed, matchesL_cons]
          constructor
          · intro hh; exact ⟨hh, hh.1⟩
          · intro hh; exact hh.1
        · cases h
      · cases h
        rw [matchesL_cons, and_comm]

theorem insertDelta?_none_conflict {acc : List Delta} {d : Delta}
    (h : insertDelta? acc d = none) (c : Choice) :
    ¬(matchesL acc c = true ∧ dmatch c d = true) := by
  induction acc with
  | nil => cases h
  | cons e es ih =>
    unfold insertDelta? at h
    rw [matchesL_cons]
    split at h
    · cases hr : insertDelta? es d with
      | none => intro hh; exact ih hr ⟨hh.1.2, hh.2⟩
      | some l' => rw [hr] at h; cases h
    · split at h
      · rename_i h2
        split at h
        · cases h
        · rename_i h1
          intro hh
          exact dmatch_conflict h2 h1 hh.1.1 hh.2
      · cases h

theorem insertDelta?_mem {acc : List Delta} {d : Delta} {l : List Delta}
    (h : insertDelta? acc d = some l) : ∀ b ∈ l, b = d ∨ b ∈ acc := by
  induction acc generalizing l with
  | nil => cases h; intro b hb; left; simpa using hb
  | cons e es ih =>
    unfold insertDelta? at h
    split at h
    · cases hr : insertDelta? es d with
      | none => rw [hr] at h; cases h
      | some l' =>
        rw [hr] at h; cases h
        intro b hb
        rcases List.mem_cons.1 hb with rfl | hb
        · right; exact List.mem_cons_self ..
        · rcases ih hr b hb with h' | h'
          · left; exact h'
          · right; exact List.mem_cons_of_mem _ h'
    · split at h
      · split at h
        · cases h; intro b hb; right; exact hb
        · cases h
      · cases h
        intro b hb
        rcases List.mem_cons.1 hb with rfl | hb
        · left; rfl
        · right; exact hb

theorem insertDelta?_sorted {acc : List Delta} {d : Delta} {l : List Delta}
    (h : insertDelta? acc d = some l) (hs : Sorted acc) : Sorted l := by
  induction acc generalizing l with
  | nil => cases h; simp [Sorted]
  | cons e es ih =>
    unfold Sorted at hs
    rw [List.pairwise_cons] at hs
    unfold insertDelta? at h
    split at h
    · rename_i hlt
      cases hr : insertDelta? es d with
      | none => rw [hr] at h; cases h
      | some l' =>
        rw [hr] at h; cases h
        unfold Sorted
        rw [List.pairwise_cons]
        refine ⟨?_, ih hr hs.2⟩
        intro b hb
        rcases insertDelta?_mem hr b hb with rfl | hb
        · exact hlt
        · exact hs.1 b hb
    · rename_i hnlt
      split at h
      · split at h
        · cases h; unfold Sorted; rw [List.pairwise_cons]; exact hs
        · cases h
      · rename_i hne
        cases h
        have hgt : d.2 < e.2 := by omega
        unfold Sorted
        rw [List.pairwise_cons, List.pairwise_cons]
        refine ⟨?_, hs⟩
        intro b hb
        rcases List.mem_cons.1 hb with rfl | hb
        · exact hgt
        · exact Nat.lt_trans hgt (hs.1 b hb)

theorem insertDeltas_spec (s : Scalar) (acc ds : List Delta) :
    (Mono.insertDeltas ⟨s, acc⟩ ds = ⟨.o, []⟩ ∧
        ∀ c, ¬(matchesL acc c = true ∧ matchesL ds c = true)) ∨
    (∃ l, Mono.insertDeltas ⟨s, acc⟩ ds = ⟨s, l⟩ ∧ (Sorted acc → Sorted l) ∧
        ∀ c, (matchesL l c = true ↔ matchesL acc c = true ∧ matchesL ds c = true)) := by
  induction ds generalizing acc with
  | nil =>
    right
    exact ⟨acc, rfl, id, fun c => by simp [matchesL_nil]⟩
  | cons d ds ih =>
    unfold Mono.insertDeltas
    cases hr : insertDelta? acc d with
    | none =>
      left
      refine ⟨rfl, ?_⟩
      intro c hh
      rw [matchesL_cons] at hh
      exact insertDelta?_none_conflict hr c ⟨hh.1, hh.2.1⟩
    | some l1 =>
      simp only
      rcases ih l1 with ⟨he, hc⟩ | ⟨l, he, hsl, hm⟩
      · left
        refine ⟨he, ?_⟩
        intro c hh
        rw [matchesL_cons] at hh
        exact hc c ⟨(insertDelta?_some_matches hr c).2 ⟨hh.1, hh.2.1⟩, hh.2.2⟩
      · right
        refine ⟨l, he, fun hs => hsl (insertDelta?_sorted hr hs), ?_⟩
        intro c
        rw [hm c, insertDelta?_some_matches hr c, matchesL_cons, and_assoc]

theorem prod_eq (a b : Mono) (ha : a.WF = true) :
    a.prod b = if a.scalar * b.scalar = .o then ⟨.o, []⟩
      else Mono.insertDeltas ⟨a.scalar * b.scalar, a.deltas⟩ b.deltas := by
  unfold Mono.prod
  rw [copy_of_WF ha]
  simp only
  split
  · rename_i h; rw [h]
  · split
    · rename_i h
      rw [List.isEmpty_iff] at h
      rw [h]; rfl
    · rfl

/-- Contribution of the product of two monomials at a choice vector. -/
def pairTerm (a b : Mono) (c : Choice) : Scalar :=
  if a.matchesC c && b.matchesC c then a.scalar * b.scalar else .o

theorem termAt_prod (a b : Mono) (ha : a.WF = true) (c : Choice) :
    termAt (a.prod b) c = pairTerm a b c := by
  rw [prod_eq a b ha]
  unfold pairTerm
  split
  · rename_i h
    rw [termAt_of_scalar_o rfl, h]; simp
  · rcases insertDeltas_spec (a.scalar * b.scalar) a.deltas b.deltas with ⟨he, hc⟩ | ⟨l, he, _, hm⟩
    · rw [he, termAt_of_scalar_o rfl]
      have := hc c
      rw [← matchesC_eq, ← matchesC_eq] at this
      rw [if_neg]
      simpa using this
    · rw [he]
      unfold termAt
      rw [matchesC_eq, matchesC_eq a, matchesC_eq b]
      simp only
      have := hm c
      by_cases hl : matchesL l c = true
      · rw [if_pos hl, if_pos]
        simpa using this.1 hl
      · rw [if_neg hl, if_neg]
        intro hh
        exact hl (this.2 (by simpa using hh))

theorem prod_WF (a b : Mono) (ha : a.WF = true) : (a.prod b).WF = true := by
  rw [prod_eq a b ha]
  split
  · rfl
  · rcases insertDeltas_spec (a.scalar * b.scalar) a.deltas b.deltas with ⟨he, _⟩ | ⟨l, he, hs, _⟩
    · rw [he]; rfl
    · rw [he]
      unfold Mono.WF
      exact (sortedDeltas_iff _).2 (hs ((sortedDeltas_iff _).1 ha))

/-! ## `times`: value -/

theorem sumAll_map_mul_right (P : List Scalar) (hP : P ≠ []) (t : Scalar) :
    Poly.sumAll (P.map (· * t)) = Poly.sumAll P * t := by
  induction P with
  | nil => exact absurd rfl hP
  | cons x xs ih =>
    cases xs with
    | nil => simp only [List.map_cons, List.map_nil, sumAll_cons, sumAll_nil, sum_zero_right]
    | cons y ys =>
      rw [List.map_cons, sumAll_cons, ih (List.cons_ne_nil _ _), sumAll_cons x, distrib_right]

theorem sumAll_map_mul_left (A : Scalar) (Q : List Scalar) (hQ : Q ≠ []) :
    Poly.sumAll (Q.map (A * ·)) = A * Poly.sumAll Q := by
  induction Q with
  | nil => exact absurd rfl hQ
  | cons x xs ih =>
    cases xs with
    | nil => simp only [List.map_cons, List.map_nil, sumAll_cons, sumAll_nil, sum_zero_right]
    | cons y ys =>
      rw [List.map_cons, sumAll_cons, ih (List.cons_ne_nil _ _), sumAll_cons x, distrib_left]

theorem sumAll_map_o (Q : List Scalar) : Poly.sumAll (Q.map (fun _ => Scalar.o)) = .o := by
  induction Q with
  | nil => rfl
  | cons x xs ih => rw [List.map_cons, sumAll_cons, ih, sum_zero_left]

theorem foldl_eq_sumAll (s : Scalar) (ss : List Scalar) :
    ss.foldl (· + ·) s = Poly.sumAll (s :: ss) := by
  unfold Poly.sumAll; rw [List.foldl_cons, sum_zero_left]

theorem evalD_map_prod (p : Poly) (b : Mono) (c : Choice) (hp : p.WF = true) :
    Poly.evalD (p.map fun a => a.prod b) c =
      if b.matchesC c then Poly.sumAll ((Poly.matching p c).map (· * b.scalar)) else .o := by
  induction p with
  | nil => simp [evalD_nil, matching_nil, sumAll_nil]
  | cons a t ih =>
    have hp' := (WF_iff _).1 hp
    have ha : a.WF = true := hp' a (List.mem_cons_self ..)
    have ht : Poly.WF t = true := (WF_iff _).2 (fun m hm => hp' m (List.mem_cons_of_mem _ hm))
    rw [List.map_cons, evalD_cons, termAt_prod a b ha, ih ht, matching_cons]
    unfold pairTerm
    by_cases hb : b.matchesC c = true
    · by_cases ham : a.matchesC c = true
      · simp only [hb, ham, Bool.and_self, if_true, List.map_cons, sumAll_cons]
      · simp only [hb, ham, Bool.and_true, if_true]
        rw [if_neg (by simp), if_neg (by simp), sum_zero_left]
    · have hb' : b.matchesC c = false := by simpa using hb
      simp [hb', sum_zero_left]

theorem products_nil (p : Poly) : Poly.products p [] = [] := rfl

theorem products_cons (p : Poly) (b : Mono) (q : Poly) :
    Poly.products p (b :: q) =
      ((p.map fun a => a.prod b).filter (fun m => m.scalar != .o)) ++ Poly.products p q := rfl

theorem evalD_products (p q : Poly) (c : Choice) (hp : p.WF = true) :
    Poly.evalD (Poly.products p q) c =
      Poly.sumAll ((Poly.matching q c).map
        fun t => Poly.sumAll ((Poly.matching p c).map (· * t))) := by
  induction q with
  | nil => rfl
  | cons b q ih =>
    rw [products_cons, evalD_append, evalD_filter_nz, evalD_map_prod p b c hp, ih, matching_cons]
    split
    · rw [List.map_cons, sumAll_cons]
    · rw [sum_zero_left]

theorem evalD_times_products (p q : Poly) (c : Choice) :
    Poly.evalD (Poly.times p q) c = Poly.evalD (Poly.products p q) c := by
  unfold Poly.times
  simp only
  split
  · rename_i h
    rw [List.isEmpty_iff] at h
    rw [h, evalD_zero, evalD_nil]
  · rw [evalD_removeZeros, evalD_ofList, evalD_foldl_scanInsert, evalD_nil, sum_zero_left]

theorem evalD_times (p q : Poly) (c : Choice) (hp : p.WF = true) :
    Poly.evalD (Poly.times p q) c =
      match Poly.eval? p c, Poly.eval? q c with
      | some a, some b => a * b
      | _, _ => Scalar.o := by
  rw [evalD_times_products, evalD_products p q c hp]
  unfold Poly.eval?
  cases hP : Poly.matching p c with
  | nil =>
    simp only [List.map_nil, sumAll_nil]
    exact sumAll_map_o _
  | cons s ss =>
    cases hQ : Poly.matching q c with
    | nil => rfl
    | cons t ts =>
      simp only
      rw [foldl_eq_sumAll, foldl_eq_sumAll]
      have : (fun t' => Poly.sumAll ((s :: ss).map (· * t'))) = (Poly.sumAll (s :: ss) * ·) := by
        funext t'
        exact sumAll_map_mul_right (s :: ss) (List.cons_ne_nil _ _) t'
      rw [this]
      exact sumAll_map_mul_left _ _ (List.cons_ne_nil _ _)

/-! ## Well-formedness is preserved -/

theorem scan_sublist (l : List Mono) (x : Mono) : (Poly.scan l x).1.Sublist l := by
  induction l with
  | nil => exact List.Sublist.refl _
  | cons m ms ih =>
    cases h : m.inclusion x with
    | contains => simp only [Poly.scan, h]; exact List.Sublist.cons _ ih
    | included => simp only [Poly.scan, h]; exact List.Sublist.refl _
    | empty => simp only [Poly.scan, h]; exact List.Sublist.cons_cons _ ih

theorem mem_scanInsert {l : List Mono} {x r : Mono} (h : r ∈ Poly.scanInsert l x) :
    r ∈ l ∨ r = x := by
  unfold Poly.scanInsert at h
  simp only at h
  split at h
  · rcases List.mem_append.1 h with h | h
    · left; exact (scan_sublist l x).subset h
    · right; simpa using h
  · left; exact (scan_sublist l x).subset h

theorem WF_scanInsert {l : List Mono} {x : Mono} (hl : Poly.WF l = true) (hx : x.WF = true) :
    Poly.WF (Poly.scanInsert l x) = true := by
  rw [WF_iff] at *
  intro r hr
  rcases mem_scanInsert hr with h | rfl
  · exact hl r h
  · exact hx

theorem WF_foldl_scanInsert (xs l : List Mono) (hl : Poly.WF l = true) (hxs : Poly.WF xs = true) :
    Poly.WF (xs.foldl Poly.scanInsert l) = true := by
  induction xs generalizing l with
  | nil => exact hl
  | cons x t ih =>
    have hx' := (WF_iff _).1 hxs
    exact ih _ (WF_scanInsert hl (hx' x (List.mem_cons_self ..)))
      ((WF_iff _).2 fun m hm => hx' m (List.mem_cons_of_mem _ hm))

theorem WF_cons (m : Mono) (l : List Mono) :
    Poly.WF (m :: l) = true ↔ m.WF = true ∧ Poly.WF l = true := by
  unfold Poly.WF; rw [List.all_cons, Bool.and_eq_true]

theorem WF_insertSorted (x : Mono) (l : List Mono) (hx : x.WF = true) (hl : Poly.WF l = true) :
    Poly.WF (Poly.insertSorted x l) = true := by
  induction l with
  | nil => simp only [Poly.insertSorted]; exact (WF_cons _ _).2 ⟨hx, rfl⟩
  | cons m ms ih =>
    have ⟨hm, hms⟩ := (WF_cons _ _).1 hl
    cases h : Poly.compare x.deltas m.deltas with
    | smaller => simp only [Poly.insertSorted, h]; exact (WF_cons _ _).2 ⟨hx, hl⟩
    | equal =>
      simp only [Poly.insertSorted, h]
      split
      · exact hms
      · exact (WF_cons _ _).2 ⟨hm, hms⟩
    | larger => simp only [Poly.insertSorted, h]; exact (WF_cons _ _).2 ⟨hm, ih hms⟩

theorem WF_sortMonos (l : List Mono) (hl : Poly.WF l = true) : Poly.WF (Poly.sortMonos l) = true := by
  induction l with
  | nil => rfl
  | cons x t ih =>
    have ⟨hx, ht⟩ := (WF_cons _ _).1 hl
    rw [sortMonos_cons]; exact WF_insertSorted x _ hx (ih ht)

theorem WF_zero : Poly.WF Poly.zero = true := rfl

theorem WF_ofList (l : List Mono) (hl : Poly.WF l = true) : Poly.WF (Poly.ofList l) = true := by
  unfold Poly.ofList; split
  · exact WF_zero
  · exact hl

theorem WF_filter (l : List Mono) (f : Mono → Bool) (hl : Poly.WF l = true) :
    Poly.WF (l.filter f) = true := by
  rw [WF_iff] at *
  intro m hm; exact hl m (List.mem_filter.1 hm).1

theorem WF_removeZeros (l : List Mono) (hl : Poly.WF l = true) :
    Poly.WF (Poly.removeZeros l) = true := by
  unfold Poly.removeZeros; simp only; split
  · exact WF_zero
  · exact WF_filter l _ hl

theorem WF_append (l₁ l₂ : List Mono) (h₁ : Poly.WF l₁ = true) (h₂ : Poly.WF l₂ = true) :
    Poly.WF (l₁ ++ l₂) = true := by
  rw [WF_iff] at *
  intro m hm
  rcases List.mem_append.1 hm with h | h
  · exact h₁ m h
  · exact h₂ m h

theorem WF_products (p q : Poly) (hp : p.WF = true) : Poly.WF (Poly.products p q) = true := by
  induction q with
  | nil => rfl
  | cons b q ih =>
    rw [products_cons]
    refine WF_append _ _ (WF_filter _ _ ?_) ih
    rw [WF_iff] at *
    intro m hm
    obtain ⟨a, ha, rfl⟩ := List.mem_map.1 hm
    exact prod_WF a b (hp a ha)

theorem WF_add (p q : Poly) (hp : p.WF = true) (hq : q.WF = true) :
    Poly.WF (Poly.add p q) = true := by
  unfold Poly.add
  split
  · exact WF_zero
  · split
    · rw [polyCopy_of_WF hq]; exact WF_ofList _ hq
    · split
      · rw [polyCopy_of_WF hp]; exact WF_ofList _ hp
      · rw [polyCopy_of_WF hp]
        exact WF_removeZeros _ (WF_ofList _ (WF_sortMonos _
          (WF_foldl_scanInsert _ _ (WF_ofList _ hp) hq)))

theorem WF_times (p q : Poly) (hp : p.WF = true) : Poly.WF (Poly.times p q) = true := by
  unfold Poly.times
  simp only
  split
  · exact WF_zero
  · exact WF_removeZeros _ (WF_ofList _ (WF_foldl_scanInsert _ _ rfl (WF_products p q hp)))

/-! ## No two terms with the same delta list -/

/-- Delta lists of the monomials are pairwise distinct. -/
abbrev DNodup (l : List Mono) : Prop := (l.map (·.deltas)).Nodup

theorem contains_self_deltas {m x : Mono} (h : m.deltas = x.deltas) : m.contains x = true := by
  unfold Mono.contains
  rw [List.all_eq_true]
  intro d hd
  rw [h]; simpa using hd

theorem inclusion_ne_empty_of_deltas_eq {m x : Mono} (h : m.deltas = x.deltas) :
    m.inclusion x ≠ .empty := by
  have h1 := contains_self_deltas h
  have h2 := contains_self_deltas h.symm
  unfold Mono.inclusion
  simp only [h1, h2, Bool.true_and]
  rcases add_left_or_right m.scalar x.scalar with hs | hs
  · split
    · simp
    · rw [if_pos (by rw [hs]; simp)]; simp
  · rw [if_pos (by rw [hs]; simp)]; simp

theorem scan_keep_deltas_ne (l : List Mono) (x : Mono) (hk : (Poly.scan l x).2 = true) :
    ∀ m ∈ (Poly.scan l x).1, m.deltas ≠ x.deltas := by
  induction l with
  | nil => intro m hm; cases hm
  | cons m ms ih =>
    cases h : m.inclusion x with
    | contains =>
      simp only [Poly.scan, h] at hk ⊢
      exact ih hk
    | included => simp [Poly.scan, h] at hk
    | empty =>
      simp only [Poly.scan, h] at hk ⊢
      intro r hr
      rcases List.mem_cons.1 hr with rfl | hr
      · intro hd; exact inclusion_ne_empty_of_deltas_eq hd h
      · exact ih hk r hr

theorem DNodup_scanInsert {l : List Mono} (x : Mono) (hl : DNodup l) :
    DNodup (Poly.scanInsert l x) := by
  have hsub : DNodup (Poly.scan l x).1 := List.Nodup.sublist ((scan_sublist l x).map _) hl
  unfold Poly.scanInsert
  simp only
  split
  · rename_i hk
    unfold DNodup
    rw [List.map_append, List.nodup_append]
    refine ⟨hsub, by simp, ?_⟩
    intro a ha b hb
    obtain ⟨m, hm, rfl⟩ := List.mem_map.1 ha
    have hb' : b = x.deltas := by simpa using hb
    rw [hb']
    exact scan_keep_deltas_ne l x hk m hm
  · exact hsub

theorem DNodup_foldl_scanInsert (xs l : List Mono) (hl : DNodup l) :
    DNodup (xs.foldl Poly.scanInsert l) := by
  induction xs generalizing l with
  | nil => exact hl
  | cons x t ih => exact ih _ (DNodup_scanInsert x hl)

theorem insertSorted_perm (x : Mono) (l : List Mono) (hx : x.deltas ∉ l.map (·.deltas)) :
    (Poly.insertSorted x l).Perm (x :: l) := by
  induction l with
  | nil => exact List.Perm.refl _
  | cons m ms ih =>
    rw [List.map_cons, List.mem_cons, not_or] at hx
    cases h : Poly.compare x.deltas m.deltas with
    | smaller => simp only [Poly.insertSorted, h]; exact List.Perm.refl _
    | equal => exact absurd (compare_equal h) hx.1
    | larger =>
      simp only [Poly.insertSorted, h]
      exact ((ih hx.2).cons m).trans (List.Perm.swap x m ms)

theorem sortMonos_perm (l : List Mono) (hl : DNodup l) : (Poly.sortMonos l).Perm l := by
  induction l with
  | nil => exact List.Perm.refl _
  | cons x t ih =>
    unfold DNodup at hl
    rw [List.map_cons, List.nodup_cons] at hl
    have ht := ih hl.2
    rw [sortMonos_cons]
    refine (insertSorted_perm x _ ?_).trans (ht.cons x)
    intro hmem
    exact hl.1 ((ht.map _).mem_iff.1 hmem)

theorem DNodup_sortMonos (l : List Mono) (hl : DNodup l) : DNodup (Poly.sortMonos l) :=
  ((sortMonos_perm l hl).map _).nodup_iff.2 hl

theorem DNodup_zero : DNodup Poly.zero := by simp [DNodup, Poly.zero]

theorem DNodup_ofList (l : List Mono) (hl : DNodup l) : DNodup (Poly.ofList l) := by
  unfold Poly.ofList; split
  · exact DNodup_zero
  · exact hl

theorem DNodup_removeZeros (l : List Mono) (hl : DNodup l) : DNodup (Poly.removeZeros l) := by
  unfold Poly.removeZeros; simp only; split
  · exact DNodup_zero
  · exact List.Nodup.sublist ((List.filter_sublist (l := l)).map _) hl

theorem DNodup_add (p q : Poly) (hp : p.WF = true) (hq : q.WF = true)
    (hnd : DNodup p) (hndq : p = [] → DNodup q) : DNodup (Poly.add p q) := by
  unfold Poly.add
  split
  · exact DNodup_zero
  · split
    · rename_i h
      rw [List.isEmpty_iff] at h
      rw [polyCopy_of_WF hq]; exact DNodup_ofList _ (hndq h)
    · split
      · rw [polyCopy_of_WF hp]; exact DNodup_ofList _ hnd
      · rw [polyCopy_of_WF hp]
        exact DNodup_removeZeros _ (DNodup_ofList _ (DNodup_sortMonos _
          (DNodup_foldl_scanInsert _ _ (DNodup_ofList _ hnd))))

theorem DNodup_times (p q : Poly) : DNodup (Poly.times p q) := by
  unfold Poly.times
  simp only
  split
  · exact DNodup_zero
  · exact DNodup_removeZeros _ (DNodup_ofList _ (DNodup_foldl_scanInsert _ _ List.nodup_nil))

/-! ## No zero term alongside others, never empty -/

/-- Non-empty, and a zero coefficient only occurs as the sole term. -/
def NZA (p : Poly) : Prop := p ≠ [] ∧ (1 < p.length → ∀ m ∈ p, m.scalar ≠ .o)

theorem NZA_zero : NZA Poly.zero := by
  refine ⟨by simp [Poly.zero], ?_⟩
  intro h; simp [Poly.zero] at h

theorem NZA_removeZeros (l : List Mono) : NZA (Poly.removeZeros l) := by
  unfold Poly.removeZeros; simp only; split
  · exact NZA_zero
  · rename_i h
    refine ⟨by simpa [List.isEmpty_iff] using h, ?_⟩
    intro _ m hm
    simpa using (List.mem_filter.1 hm).2

theorem NZA_ofList_of (l : List Mono) (h : 1 < l.length → ∀ m ∈ l, m.scalar ≠ .o) :
    NZA (Poly.ofList l) := by
  unfold Poly.ofList; split
  · exact NZA_zero
  · rename_i hne
    exact ⟨by simpa [List.isEmpty_iff] using hne, h⟩

theorem NZA_add (p q : Poly)
    (hp : q = [] → p.WF = true ∧ (1 < p.length → ∀ m ∈ p, m.scalar ≠ .o))
    (hq : p = [] → q.WF = true ∧ (1 < q.length → ∀ m ∈ q, m.scalar ≠ .o)) :
    NZA (Poly.add p q) := by
  unfold Poly.add
  split
  · exact NZA_zero
  · split
    · rename_i h
      rw [List.isEmpty_iff] at h
      have ⟨hw, hz⟩ := hq h
      rw [polyCopy_of_WF hw]; exact NZA_ofList_of _ hz
    · split
      · rename_i h
        rw [List.isEmpty_iff] at h
        have ⟨hw, hz⟩ := hp h
        rw [polyCopy_of_WF hw]; exact NZA_ofList_of _ hz
      · exact NZA_removeZeros _

theorem NZA_times (p q : Poly) : NZA (Poly.times p q) := by
  unfold Poly.times
  simp only
  split
  · exact NZA_zero
  · exact NZA_removeZeros _

end Mwp.Lemmas.Poly
