/-
  Refinement, relation side: composition / sum of ∞-free relations as dense matrix product / sum,
  the invariants `Refines` (one command) and `RefinesL` (a sequence with an accumulator), their
  leaves, and the closure lemmas for sequences, `if` and `if_branch`.
-/
import Mwp.Lemmas.RefineSpec
namespace Mwp
namespace Refine
open Mwp.Props.C16 Mwp.Lemmas.Poly Spec RelFix

/-! ## singleton relation lists -/

theorem relList_composition_single (a b : Relation) :
    RelList.composition [a] [b] = [Relation.composition a b] := by
  simp [RelList.composition]

theorem relList_add_single (a b : Relation) : RelList.add [a] [b] = [Relation.sum a b] := by
  simp [RelList.add]

/-! ## composition and sum of ∞-free relations -/

def Fin' (r : Relation) (c : Choice) : Prop := ∀ a b, r.den c a b ≠ .i

theorem comp_fin {r1 r2 : Relation} (h1 : r1.WF) (h2 : r2.WF) {c : Choice}
    (f1 : Fin' r1 c) (f2 : Fin' r2 c) : Fin' (Relation.composition r1 r2) c := by
  intro a b h
  rw [Relation.composition_den_own r1 r2 h1 h2] at h
  split at h
  · have := mem_of_sumScalars_eq_i h
    rw [List.mem_map] at this
    obtain ⟨k, _, hk⟩ := this
    exact mul_ne_i (f1 a k) (f2 k b) hk
  · split at h <;> cases h

theorem sum_fin {r1 r2 : Relation} (h1 : r1.WF) (h2 : r2.WF) {c : Choice}
    (f1 : Fin' r1 c) (f2 : Fin' r2 c) : Fin' (Relation.sum r1 r2) c := by
  intro a b
  rw [Relation.sum_den r1 r2 h1 h2]
  exact add_ne_i (f1 a b) (f2 a b)

theorem comp_dn {r1 r2 : Relation} (h1 : r1.WF) (h2 : r2.WF) {c : Choice}
    (f1 : Fin' r1 c) (f2 : Fin' r2 c) (U : List String) (hU : U.Nodup)
    (hs1 : ∀ v ∈ r1.vars, v ∈ U) (hs2 : ∀ v ∈ r2.vars, v ∈ U) :
    EqOn U.length (dn U ((Relation.composition r1 r2).den c))
      (fmul U.length (dn U (r1.den c)) (dn U (r2.den c))) := by
  intro i hi j hj
  rw [fmul_dn]
  simp only [dn, mulN]
  exact Relation.composition_den_of_finite r1 r2 h1 h2 c U hU
    (fun v hv => hv.elim (hs1 v) (hs2 v)) _ _ (getD_mem U i "" hi) (getD_mem U j "" hj) f1 f2

theorem emptyRel_fin (c : Choice) : Fin' (Relation.new []) c := by
  intro a b; rw [emptyRel_den]; exact idS_ne_i a b

/-- composing the empty relation in front changes nothing (on ∞-free relations) -/
theorem comp_empty_den {r : Relation} (h : r.WF) {c : Choice} (f : Fin' r c) (u v : String) :
    (Relation.composition (Relation.new []) r).den c u v = r.den c u v := by
  have hmem := Relation.composition_vars_mem (Relation.new []) r emptyRel_wf h
  rw [Relation.composition_den_own _ r emptyRel_wf h]
  by_cases hu : u ∈ r.vars
  · by_cases hv : v ∈ r.vars
    · rw [if_pos ⟨(hmem u).2 (Or.inr hu), (hmem v).2 (Or.inr hv)⟩,
        sumScalars_map_single _ _ u, if_pos ((hmem u).2 (Or.inr hu)), emptyRel_den, idS_self,
        prod_unit_left]
      intro k _ hk
      rw [emptyRel_den, idS_of_ne (fun e => hk e.symm)]
      exact o_mul_of_ne_i (f k v)
    · rw [if_neg (fun hh => hv (((hmem v).1 hh.2).elim (fun h' => by cases h') id)),
        Relation.den_of_not_mem_right hv]; rfl
  · rw [if_neg (fun hh => hu (((hmem u).1 hh.1).elim (fun h' => by cases h') id)),
      Relation.den_of_not_mem_left hu]; rfl

/-! ## what a refined piece satisfies -/

/-- classes of effect-free expression statements: the calculus reads them as no-ops, the analysis
    skips them with an "unsupported" note -/
def bareClasses : List String := ["ID", "Constant", "BinaryOp"]

variable {B : List String}

structure Refines (B : List String) (idx : Nat) (dg : DG.Graph) (cmd : Cmd) (out : Analysis.Out) : Prop where
  exit : out.exit = false
  dg : out.dg = dg
  skipped : ∀ s ∈ out.skipped, s ∈ B
  index : out.index = idx + cmd.arity
  rel : ∃ r, out.rels = [r] ∧ r.WF ∧ (∀ v ∈ r.vars, v ∈ cmd.vars) ∧
    ∀ (U : List String), U.Nodup → (∀ v ∈ cmd.vars, v ∈ U) →
    ∀ (c : Choice), Valid idx cmd.arity c →
      Fin' r c ∧ ∀ c', Relab idx cmd.swaps c c' →
        sem U cmd idx c' = some (idx + cmd.arity, matOf U (r.den c))

theorem refines_skip (idx : Nat) (dg : DG.Graph) (sk : List String) (hsk : ∀ s ∈ sk, s ∈ B) :
    Refines B idx dg .skip (Analysis.skip idx dg sk) := by
  refine ⟨rfl, rfl, hsk, rfl, Relation.new [], rfl, emptyRel_wf, (by intro v hv; cases hv), ?_⟩
  intro U hU _ c _
  refine ⟨emptyRel_fin c, fun c' _ => ?_⟩
  simp only [sem, Cmd.arity, Nat.add_zero]
  rw [identity_matOf hU]
  congr 2

theorem refines_asgnConst (idx : Nat) (dg : DG.Graph) (x : String) (hx : x ≠ "") :
    Refines B idx dg (.asgnConst x) ⟨idx, Analysis.constAsgn x, false, dg, []⟩ := by
  obtain ⟨rel, h1, hwf, hv, hden⟩ := constAsgn_den x hx
  refine ⟨rfl, rfl, (by intro s hs; cases hs), rfl, rel, h1, hwf, hv, ?_⟩
  intro U hU hsub c _
  refine ⟨?_, fun c' _ => ?_⟩
  · intro a b; rw [hden]; split
    · simp
    · exact idS_ne_i a b
  · simp only [sem, Cmd.arity, Nat.add_zero]
    rw [setColumn_matOf U hU x (hsub x (by simp [Cmd.vars])) (fun _ => .o)]
    congr 2
    exact matOf_congr (fun u _ v _ => (hden c u v).symm)

theorem refines_asgnVar (idx : Nat) (dg : DG.Graph) (x y : String) (hx : x ≠ "") (hy : y ≠ "") :
    ∃ rl, Analysis.idAsgn x y = .ok rl ∧ Refines B idx dg (.asgnVar x y) ⟨idx, rl, false, dg, []⟩ := by
  obtain ⟨rel, h1, hwf, hv, hden⟩ := idAsgn_den x y hx hy
  refine ⟨[rel], h1, rfl, rfl, (by intro s hs; cases hs), rfl, rel, rfl, hwf, hv, ?_⟩
  intro U hU hsub c _
  refine ⟨?_, fun c' _ => ?_⟩
  · intro a b; rw [hden]
    split
    · exact idS_ne_i a b
    · split
      · split <;> simp
      · exact idS_ne_i a b
  · simp only [sem, Cmd.arity, Nat.add_zero]
    by_cases hxy : x = y
    · have : (x == y) = true := by simpa using hxy
      rw [if_pos this, identity_matOf hU]
      congr 2
      exact matOf_congr (fun u _ v _ => by rw [hden, if_pos hxy])
    · have : (x == y) = false := by simpa using hxy
      simp only [this, Bool.false_eq_true, if_false]
      rw [setColumn_matOf U hU x (hsub x (by simp [Cmd.vars])) (fun v => if v == y then .m else .o)]
      congr 2
      apply matOf_congr
      intro u _ v _
      rw [hden, if_neg hxy]
      by_cases hvx : v = x
      · simp [hvx]
      · simp [hvx]

theorem refines_bin (idx : Nat) (dg : DG.Graph) (x op : String) (l r : Node) (a b : Atom)
    (ha : atomOf l = some a) (hb : atomOf r = some b) (hop : op = "+" ∨ op = "-" ∨ op = "*")
    (hx : x ≠ "") (hna : atomOk a = true) (hnb : atomOk b = true) :
    ∃ rl, Analysis.binaryOp idx x op l r = .ok (idx + 1, rl) ∧
      Refines B idx dg (.bin op x a b) ⟨idx + 1, rl, false, dg, []⟩ := by
  obtain ⟨rel, h1, hwf, hv, hden⟩ := binaryOp_den idx x op l r a b ha hb hop hx hna hnb
  refine ⟨[rel], h1, rfl, rfl, (by intro s hs; cases hs), rfl, rel, rfl, hwf, hv, ?_⟩
  intro U hU hsub c hval
  obtain ⟨alt, hc, halt⟩ := hval idx (Nat.le_refl _) (by simp [Cmd.arity])
  have hd := hden c alt hc halt
  refine ⟨?_, fun c' hrel => ?_⟩
  · intro u v; rw [hd]
    split
    · cases a <;> cases b <;> simp only [operandFlow] <;> (repeat' split) <;> simp
    · split <;> simp
  · have h0 := hrel 0 (by simp [Cmd.swaps])
    rw [Nat.add_zero, hc] at h0
    have hsw : (Cmd.bin op x a b).swaps.getD 0 false = ((Cmd.bin op x a b).swaps == [true]) := by
      simp only [Cmd.swaps]
      cases a <;> cases b <;> simp
    rw [hsw] at h0
    simp only [sem, h0, Option.map_some, Cmd.arity]
    have : ¬ swapAlt ((Cmd.bin op x a b).swaps == [true]) alt > 2 := by
      unfold swapAlt; split <;> (try split) <;> (try split) <;> omega
    rw [if_neg this, setColumn_matOf U hU x (hsub x (by simp [Cmd.vars]))]
    congr 2
    apply matOf_congr
    intro u _ v _
    rw [hd]
    split
    · rfl
    · rfl

/-! ## sequences -/

structure RefinesL (B : List String) (idx : Nat) (dg : DG.Graph) (ra : Relation) (sk : List String) (l : List Cmd)
    (out : Analysis.Out) : Prop where
  exit : out.exit = false
  dg : out.dg = dg
  skipped : ∀ s ∈ out.skipped, s ∈ sk ∨ s ∈ B
  index : out.index = idx + arityL l
  rel : ∃ r, out.rels = [r] ∧ r.WF ∧ (∀ v ∈ r.vars, v ∈ ra.vars ∨ v ∈ varsL l) ∧
    ∀ (U : List String), U.Nodup → (∀ v ∈ ra.vars, v ∈ U) → (∀ v ∈ varsL l, v ∈ U) →
    ∀ (c : Choice), Valid idx (arityL l) c → Fin' ra c →
      Fin' r c ∧ ∀ c', Relab idx (swapsL l) c c' →
        ∃ S, semSeq U l idx c' = some (idx + arityL l, mk U.length S) ∧
          EqOn U.length (dn U (r.den c)) (fmul U.length (dn U (ra.den c)) S)

/-- the statement proved for every node by induction on its size -/
def NodeRefines (B : List String) (P : Node → Prop) (n : Node) : Prop :=
  ∀ cmd, desugar n = some cmd → cmd.loopFree = true → P n →
    ∀ (q : Bool) idx dg, ∃ out, Analysis.compute q idx dg n = .ok out ∧ Refines B idx dg cmd out

theorem RefinesL.nil (idx : Nat) (dg : DG.Graph) (ra : Relation) (sk : List String) (hra : ra.WF) :
    RefinesL B idx dg ra sk [] ⟨idx, [ra], false, dg, sk⟩ := by
  refine ⟨rfl, rfl, fun s hs => Or.inl hs, rfl, ra, rfl, hra, fun v hv => Or.inl hv, ?_⟩
  intro U hU _ _ c _ hfin
  refine ⟨hfin, fun c' _ => ⟨fI, ?_, ?_⟩⟩
  · simp only [semSeq, arityL, Nat.add_zero, identity_eq]
  · exact (fmul_fI_right (fun i _ j _ => hfin _ _)).symm

theorem RefinesL.cons {idx : Nat} {dg : DG.Graph} {ra r1 : Relation} {sk : List String} {cmd : Cmd}
    {cs' : List Cmd} {o1 o2 : Analysis.Out} (hra : ra.WF) (R1 : Refines B idx dg cmd o1)
    (hr1 : o1.rels = [r1])
    (R2 : RefinesL B o1.index o1.dg (Relation.composition ra r1) (sk ++ o1.skipped) cs' o2) :
    RefinesL B idx dg ra sk (cmd :: cs') o2 := by
  obtain ⟨r1', hr1', w1, v1, sem1⟩ := R1.rel
  have : r1' = r1 := by rw [hr1] at hr1'; exact (List.cons.inj hr1').1.symm
  subst this
  refine ⟨R2.exit, R2.dg.trans R1.dg, ?_, ?_, ?_⟩
  · intro s hs
    rcases R2.skipped s hs with h | h
    · rcases List.mem_append.1 h with h | h
      · exact Or.inl h
      · exact Or.inr (R1.skipped s h)
    · exact Or.inr h
  · rw [R2.index, R1.index, arityL]; omega
  · obtain ⟨r, hr, wr, vr, semr⟩ := R2.rel
    refine ⟨r, hr, wr, ?_, ?_⟩
    · intro v hv
      rcases vr v hv with h | h
      · rcases (Relation.composition_vars_mem ra r1' hra w1 v).1 h with h | h
        · exact Or.inl h
        · exact Or.inr (by rw [varsL]; exact List.mem_append_left _ (v1 v h))
      · exact Or.inr (by rw [varsL]; exact List.mem_append_right _ h)
    · intro U hU hsa hsl c hval hfin
      have hs1 : ∀ v ∈ cmd.vars, v ∈ U := fun v hv => hsl v (by rw [varsL]; exact List.mem_append_left _ hv)
      have hs2 : ∀ v ∈ varsL cs', v ∈ U := fun v hv => hsl v (by rw [varsL]; exact List.mem_append_right _ hv)
      rw [arityL] at hval
      obtain ⟨f1, s1⟩ := sem1 U hU hs1 c hval.left
      have facc := comp_fin hra w1 hfin f1
      have hsacc : ∀ v ∈ (Relation.composition ra r1').vars, v ∈ U := by
        intro v hv
        rcases (Relation.composition_vars_mem ra r1' hra w1 v).1 hv with h | h
        · exact hsa v h
        · exact hs1 v (v1 v h)
      have hval2 : Valid o1.index (arityL cs') c := by rw [R1.index]; exact hval.right
      obtain ⟨fr, sr⟩ := semr U hU hsacc hs2 c hval2 facc
      refine ⟨fr, fun c' hrel => ?_⟩
      rw [swapsL] at hrel
      have hrel2 : Relab o1.index (swapsL cs') c c' := by
        rw [R1.index, ← swaps_length cmd]; exact hrel.right
      obtain ⟨S', hS', hE⟩ := sr c' hrel2
      refine ⟨fmul U.length (dn U (r1'.den c)) S', ?_, ?_⟩
      · rw [semSeq, s1 c' hrel.left]
        simp only
        rw [← R1.index, hS']
        simp only
        rw [mul_matOf, R1.index, arityL, Nat.add_assoc]
      · refine hE.trans ?_
        rw [fmul_assoc]
        exact fmul_congr (comp_dn hra w1 hfin f1 U hU hsa (fun v hv => hs1 v (v1 v hv)))
          (EqOn.refl _ _)

theorem computeList_refines (B : List String) (P : Node → Prop) (l : List Node) :
    ∀ (cs : List Cmd), desugarL l = some cs → loopFreeL cs = true → (∀ n ∈ l, P n) →
    (∀ n ∈ l, NodeRefines B P n) →
    ∀ (q : Bool) (idx : Nat) (dg : DG.Graph) (ra : Relation) (sk : List String), ra.WF →
      ∃ out, Analysis.computeList q idx dg [ra] sk l = .ok out ∧ RefinesL B idx dg ra sk cs out := by
  induction l with
  | nil =>
    intro cs hd _ _ _ q idx dg ra sk hra
    simp only [desugarL, Option.some.injEq] at hd
    subst hd
    exact ⟨_, by rw [Analysis.computeList]; rfl, RefinesL.nil idx dg ra sk hra⟩
  | cons n ns ih =>
    intro cs hd hlf hP IH q idx dg ra sk hra
    rw [desugarL] at hd
    cases hdn : desugar n with
    | none => simp [hdn] at hd
    | some cmd =>
      cases hdl : desugarL ns with
      | none => simp [hdn, hdl] at hd
      | some cs' =>
        simp only [hdn, hdl, Option.some.injEq] at hd
        subst hd
        simp only [loopFreeL, Bool.and_eq_true] at hlf
        obtain ⟨o1, ho1, R1⟩ := IH n (List.mem_cons_self ..) cmd hdn hlf.1 (hP n (List.mem_cons_self ..)) q idx dg
        obtain ⟨r1, hr1, w1, _, _⟩ := R1.rel
        have hacc : RelList.composition [ra] o1.rels = [Relation.composition ra r1] := by
          rw [hr1, relList_composition_single]
        have wacc := Relation.composition_wf ra r1 hra w1
        obtain ⟨o2, ho2, R2⟩ := ih cs' hdl hlf.2 (fun m hm => hP m (List.mem_cons_of_mem _ hm))
          (fun m hm => IH m (List.mem_cons_of_mem _ hm)) q o1.index o1.dg
          (Relation.composition ra r1) (sk ++ o1.skipped) wacc
        refine ⟨o2, ?_, RefinesL.cons hra R1 hr1 R2⟩
        rw [Analysis.computeList, ho1]
        simp only [bind, Except.bind, R1.exit, hacc]
        exact ho2

/-- a statement list analysed from the empty relation list is the sequence command -/
theorem refines_seq {idx : Nat} {dg : DG.Graph} {cs : List Cmd} {out : Analysis.Out}
    (R : RefinesL B idx dg (Relation.new []) [] cs out) : Refines B idx dg (.seq cs) out := by
  refine ⟨R.exit, R.dg, ?_, by rw [Cmd.arity]; exact R.index, ?_⟩
  · intro s hs
    rcases R.skipped s hs with h | h
    · cases h
    · exact h
  · obtain ⟨r, hr, wr, vr, semr⟩ := R.rel
    refine ⟨r, hr, wr, ?_, ?_⟩
    · intro v hv
      rcases vr v hv with h | h
      · cases h
      · rw [Cmd.vars]; exact h
    · intro U hU hsub c hval
      rw [Cmd.vars] at hsub
      rw [Cmd.arity] at hval
      obtain ⟨fr, sr⟩ := semr U hU (by intro v hv; cases hv) hsub c hval (emptyRel_fin c)
      refine ⟨fr, fun c' hrel => ?_⟩
      rw [Cmd.swaps] at hrel
      obtain ⟨S, hS, hE⟩ := sr c' hrel
      rw [sem, hS, Cmd.arity]
      congr 2
      apply mk_congr
      have h1 : EqOn U.length (dn U (r.den c)) (fmul U.length fI S) :=
        hE.trans (fmul_congr (dn_idS hU) (EqOn.refl _ _))
      have h2 : EqOn U.length (fmul U.length fI S) S := by
        apply fmul_fI_left_of_result
        intro i hi j hj
        rw [← h1 i hi j hj]
        exact fr _ _
      exact (h1.trans h2).symm

/-- `if_branch` on a single statement composes the empty relation list in front -/
theorem refines_comp_empty {idx : Nat} {dg : DG.Graph} {cmd : Cmd} {out : Analysis.Out}
    (R : Refines B idx dg cmd out) :
    Refines B idx dg cmd ⟨out.index, RelList.composition RelList.empty out.rels, false, out.dg, out.skipped⟩ := by
  obtain ⟨r, hr, wr, vr, semr⟩ := R.rel
  refine ⟨rfl, R.dg, R.skipped, R.index, Relation.composition (Relation.new []) r, ?_,
    Relation.composition_wf _ r emptyRel_wf wr, ?_, ?_⟩
  · simp only [hr, RelList.empty, relList_composition_single]
  · intro v hv
    rcases (Relation.composition_vars_mem _ r emptyRel_wf wr v).1 hv with h | h
    · cases h
    · exact vr v h
  · intro U hU hsub c hval
    obtain ⟨fr, sr⟩ := semr U hU hsub c hval
    refine ⟨comp_fin emptyRel_wf wr (emptyRel_fin c) fr, fun c' hrel => ?_⟩
    rw [sr c' hrel]
    congr 2
    exact matOf_congr (fun u _ v _ => (comp_empty_den wr fr u v).symm)

theorem refines_ite {idx : Nat} {dg : DG.Graph} {a b : Cmd} {rt rf : Analysis.Out}
    (Rt : Refines B idx dg a rt) (Rf : Refines B rt.index rt.dg b rf) :
    Refines B idx dg (.ite a b)
      ⟨rf.index, RelList.add rf.rels rt.rels, false, rf.dg, rt.skipped ++ rf.skipped⟩ := by
  obtain ⟨r1, hr1, w1, v1, sem1⟩ := Rt.rel
  obtain ⟨r2, hr2, w2, v2, sem2⟩ := Rf.rel
  refine ⟨rfl, Rf.dg.trans Rt.dg, ?_, ?_, Relation.sum r2 r1, ?_, Relation.sum_wf r2 r1 w2 w1, ?_, ?_⟩
  · intro s hs
    rcases List.mem_append.1 hs with h | h
    · exact Rt.skipped s h
    · exact Rf.skipped s h
  · show rf.index = _
    rw [Rf.index, Rt.index, Cmd.arity, Nat.add_assoc]
  · simp only [hr1, hr2, relList_add_single]
  · intro v hv
    rw [Cmd.vars]
    rcases (Relation.sum_vars_mem r2 r1 w2 w1 v).1 hv with h | h
    · exact List.mem_append_right _ (v2 v h)
    · exact List.mem_append_left _ (v1 v h)
  · intro U hU hsub c hval
    rw [Cmd.vars] at hsub
    rw [Cmd.arity] at hval
    obtain ⟨f1, s1⟩ := sem1 U hU (fun v hv => hsub v (List.mem_append_left _ hv)) c hval.left
    obtain ⟨f2, s2⟩ := sem2 U hU (fun v hv => hsub v (List.mem_append_right _ hv)) c
      (by rw [Rt.index]; exact hval.right)
    refine ⟨sum_fin w2 w1 f2 f1, fun c' hrel => ?_⟩
    rw [Cmd.swaps] at hrel
    have hrel2 : Relab rt.index b.swaps c c' := by
      rw [Rt.index, ← swaps_length a]; exact hrel.right
    rw [sem, s1 c' hrel.left]
    simp only
    rw [← Rt.index, s2 c' hrel2]
    simp only
    rw [add_matOf, Rt.index, Cmd.arity, Nat.add_assoc]
    congr 2
    apply matOf_congr
    intro u _ v _
    rw [Relation.sum_den r2 r1 w2 w1, sum_comm]

/-- without exits `if_branch`'s item walk is `compound`'s -/
theorem branchList_eq_computeList (l : List Node) :
    (∀ n ∈ l, ∀ q idx dg, ∃ out, Analysis.compute q idx dg n = .ok out ∧ out.exit = false) →
    ∀ q idx dg acc sk, Analysis.branchList q idx dg acc sk l = Analysis.computeList q idx dg acc sk l := by
  induction l with
  | nil => intro _ q idx dg acc sk; rw [Analysis.branchList, Analysis.computeList]
  | cons n ns ih =>
    intro h q idx dg acc sk
    obtain ⟨o, ho, he⟩ := h n (List.mem_cons_self ..) q idx dg
    rw [Analysis.branchList, Analysis.computeList, ho]
    simp only [bind, Except.bind, he]
    exact ih (fun m hm => h m (List.mem_cons_of_mem _ hm)) _ _ _ _ _

end Refine
end Mwp
