/-
  RelFix: what `Relation.fixpoint`, `Relation.while_correction` and `Relation.loop_correction`
  MEAN at every choice vector.

  * `Mwp.Relation.fixpoint_toSMat`            (RelFixA: scalar side, RelFixC: code side)
  * `Mwp.Relation.whileCorrection_cells`, `Mwp.Relation.whileCorrection_inserted`   (RelFixB)
  * `Mwp.Relation.loopCorrection_inserted`, `Mwp.Relation.loopCorrection_cells_scoped`,
    `Mwp.Relation.loopCorrection_cells_partial`                                    (RelFixD-F)

  This file: the concrete witness showing that clause (1) of the `loopCorrection_cells`
  statement as first asked is false, and that the hypotheses of the `_partial` form are
  satisfiable.
-/
import Mwp.Lemmas.RelFixC
import Mwp.Lemmas.RelFixF

namespace Mwp.RelFix
open Mwp

/-- one variable, diagonal cell `m·δ(0,0)`: no term at all at the choice vector `[1]` -/
def rCE : Relation := ⟨["x"], [[ [⟨.m, [(0, 0)]⟩] ]]⟩

theorem rCE_loop : Relation.loopCorrection rCE "x" [] = .ok (rCE, []) := by rfl

theorem rCE_wf : rCE.WF := ⟨by decide, by decide, by decide, by decide, by decide⟩

theorem rCE_fin (c : Choice) : ∀ i j, (Matrix.get rCE.mat i j).evalD c ≠ .i := by
  intro i j hinf
  obtain ⟨m, hm, _, hs⟩ := exists_of_evalD_eq_i hinf
  by_cases h : i < 1 ∧ j < 1
  · obtain ⟨h1, h2⟩ := h
    have : i = 0 := by omega
    have : j = 0 := by omega
    subst_vars
    have : m = ⟨.m, [(0, 0)]⟩ := by simpa [Matrix.get, rCE] using hm
    rw [this] at hs
    cases hs
  · rw [get_out_of_range (wf_sq rCE_wf) h] at hm
    have : m = ⟨.o, []⟩ := by simpa [Poly.zero] using hm
    rw [this] at hs
    cases hs

theorem rCE_col : ∀ i, i ≠ rCE.vars.idxOf "x" →
    ∀ m ∈ Matrix.get rCE.mat i (rCE.vars.idxOf "x"), m.scalar = .o := by
  intro i hi m hm
  have h0 : rCE.vars.idxOf "x" = 0 := by decide
  rw [h0] at hi hm
  rw [get_out_of_range (wf_sq rCE_wf) (i := i) (j := 0) (fun hh => hi (by
    have : i < 1 := hh.1
    omega))] at hm
  have : m = ⟨.o, []⟩ := by simpa [Poly.zero] using hm
  rw [this]

/-- Clause (1) of `loopCorrection_cells` as first asked is FALSE: at `c = [1]` the diagonal of
    `rCE` evaluates to `o ≠ m`, all side hypotheses hold, `loop_correction` changes nothing and
    the result has no `∞` anywhere. -/
theorem loopCorrection_cells_clause1_false :
    ¬ (∀ (r r' : Relation) (g g' : DG.Graph) (x : String), r.WF → x ∈ r.vars →
        (∀ row ∈ r.mat, ∀ p ∈ row, (1 < p.length → ∀ m ∈ p, m.scalar ≠ .o)) →
        (∀ i, i ≠ r.vars.idxOf x → ∀ m ∈ Matrix.get r.mat i (r.vars.idxOf x), m.scalar = .o) →
        Relation.loopCorrection r x g = .ok (r', g') → ∀ c : Choice,
        ((∃ i, i < r.vars.length ∧ (Matrix.get r.mat i i).evalD c ≠ .m) ∨
            (∃ i j, (Matrix.get r.mat i j).evalD c = .i)
          → ∃ i j, (Matrix.get r'.mat i j).evalD c = .i)) := by
  intro H
  obtain ⟨i, j, hij⟩ := H rCE rCE [] [] "x" rCE_wf (by decide) (by decide) rCE_col rCE_loop [1]
    (Or.inl ⟨0, by decide, by decide⟩)
  exact rCE_fin [1] i j hij

/-- the hypotheses of `loopCorrection_cells_partial` are satisfiable: the same relation at the
    choice vector `[0]`, where the diagonal cell does have a term -/
example := Relation.loopCorrection_cells_partial rCE rCE [] [] "x" rCE_wf (by decide) (by decide)
  rCE_col rCE_loop [0] (by
    intro i hi
    have : i = 0 := by
      have : i < 1 := hi
      omega
    subst this
    decide)

end Mwp.RelFix
