/-
  ExecSound, part 3: the shape invariant on one value.  `Bnd q f` reads "the polynomial `q` is
  bounded by the column `f`" (`f v` = strength of the flow from `v`): either every variable of
  `q` flows at least weakly, or `q` is one variable `u` (flowing at least `m`) plus monomials all
  of whose variables flow polynomially.  It is upward closed in `f`, closed under the operations
  assignments perform, and implies the sentence `Shape` for the triple read off `f`.
-/
import Mwp.Lemmas.ExecSoundScalar
namespace Mwp.Spec.ExecSound
open Mwp Mwp.Spec

/-- all variables of `q` have flow of rank at least `r` -/
def AllGe (r : Nat) (q : PolyN) (f : Var → Scalar) : Prop := ∀ mon ∈ q, ∀ v ∈ mon, r ≤ (f v).rank

def Bnd (q : PolyN) (f : Var → Scalar) : Prop :=
  AllGe 2 q f ∨
  ∃ l1 u l2, q = l1 ++ [u] :: l2 ∧ 1 ≤ (f u).rank ∧ AllGe 3 l1 f ∧ AllGe 3 l2 f

theorem AllGe.weaken {r r' : Nat} {q : PolyN} {f : Var → Scalar} (h : AllGe r q f) (hr : r' ≤ r) :
    AllGe r' q f := fun mon hm v hv => Nat.le_trans hr (h mon hm v hv)

theorem AllGe.append {r : Nat} {q q' : PolyN} {f : Var → Scalar} (h : AllGe r q f) (h' : AllGe r q' f) :
    AllGe r (q ++ q') f := by
  intro mon hm
  rcases List.mem_append.1 hm with h1 | h1
  · exact h mon h1
  · exact h' mon h1

theorem AllGe.mono {r : Nat} {q : PolyN} {f g : Var → Scalar} (h : AllGe r q f)
    (hfg : ∀ v, (f v).rank ≤ (g v).rank) : AllGe r q g :=
  fun mon hm v hv => Nat.le_trans (h mon hm v hv) (hfg v)

theorem Bnd.pos {q : PolyN} {f : Var → Scalar} (h : Bnd q f) : AllGe 1 q f := by
  rcases h with h | ⟨l1, u, l2, rfl, hu, h1, h2⟩
  · exact h.weaken (by decide)
  · intro mon hm v hv
    rcases List.mem_append.1 hm with hm | hm
    · exact Nat.le_trans (by decide) (h1 mon hm v hv)
    · rcases List.mem_cons.1 hm with rfl | hm
      · rw [List.mem_singleton.1 hv]; exact hu
      · exact Nat.le_trans (by decide) (h2 mon hm v hv)

theorem Bnd.mono {q : PolyN} {f g : Var → Scalar} (h : Bnd q f)
    (hfg : ∀ v, (f v).rank ≤ (g v).rank) : Bnd q g := by
  rcases h with h | ⟨l1, u, l2, e, hu, h1, h2⟩
  · exact Or.inl (h.mono hfg)
  · exact Or.inr ⟨l1, u, l2, e, Nat.le_trans hu (hfg u), h1.mono hfg, h2.mono hfg⟩

theorem bnd_single {u : Var} {f : Var → Scalar} (h : 1 ≤ (f u).rank) : Bnd [[u]] f :=
  Or.inr ⟨[], u, [], rfl, h, (by intro _ hm; cases hm), (by intro _ hm; cases hm)⟩

theorem Bnd.append_right {q r : PolyN} {f : Var → Scalar} (h : Bnd q f) (hr : AllGe 3 r f) :
    Bnd (q ++ r) f := by
  rcases h with h | ⟨l1, u, l2, e, hu, h1, h2⟩
  · exact Or.inl (h.append (hr.weaken (by decide)))
  · exact Or.inr ⟨l1, u, l2 ++ r, by rw [e]; simp, hu, h1, h2.append hr⟩

theorem Bnd.append_left {q r : PolyN} {f : Var → Scalar} (h : Bnd q f) (hr : AllGe 3 r f) :
    Bnd (r ++ q) f := by
  rcases h with h | ⟨l1, u, l2, e, hu, h1, h2⟩
  · exact Or.inl ((hr.weaken (by decide)).append h)
  · exact Or.inr ⟨r ++ l1, u, l2, by rw [e]; simp, hu, hr.append h1, h2⟩

/-- a value bounded by `f`, used at a position of strength `s`, has all variables `≥ s`-ish -/
theorem Bnd.scale_w {q : PolyN} {f h : Var → Scalar} {s : Scalar} (hq : Bnd q f) (hs : 2 ≤ s.rank)
    (hh : ∀ v, (docProd (f v) s).rank ≤ (h v).rank) : AllGe 2 q h :=
  fun mon hm v hv => Nat.le_trans (docProd_ge_w (hq.pos mon hm v hv) hs) (hh v)

theorem Bnd.scale_p {q : PolyN} {f h : Var → Scalar} {s : Scalar} (hq : Bnd q f) (hs : 3 ≤ s.rank)
    (hh : ∀ v, (docProd (f v) s).rank ≤ (h v).rank) : AllGe 3 q h :=
  fun mon hm v hv => Nat.le_trans (docProd_ge_p (hq.pos mon hm v hv) hs) (hh v)

theorem Bnd.scale_m {q : PolyN} {f h : Var → Scalar} (hq : Bnd q f)
    (hh : ∀ v, (docProd (f v) .m).rank ≤ (h v).rank) : Bnd q h :=
  hq.mono fun v => by have := hh v; rwa [docProd_m_right] at this

/-! ## products of polynomials -/

theorem mem_insertVar {v u : Var} {l : Mon} : v ∈ insertVar u l ↔ v = u ∨ v ∈ l := by
  induction l with
  | nil => simp [insertVar]
  | cons a t ih =>
    unfold insertVar
    split
    · simp
    · simp only [List.mem_cons, ih]
      constructor
      · rintro (h | h | h)
        · exact Or.inr (Or.inl h)
        · exact Or.inl h
        · exact Or.inr (Or.inr h)
      · rintro (h | h | h)
        · exact Or.inr (Or.inl h)
        · exact Or.inl h
        · exact Or.inr (Or.inr h)

theorem mem_mulMon {v : Var} {a b : Mon} : v ∈ mulMon a b ↔ v ∈ a ∨ v ∈ b := by
  unfold mulMon
  induction a with
  | nil => simp
  | cons x t ih =>
    rw [List.foldr_cons, mem_insertVar, ih, List.mem_cons, or_assoc]

theorem AllGe.mulP {r : Nat} {p q : PolyN} {f : Var → Scalar} (hp : AllGe r p f) (hq : AllGe r q f) :
    AllGe r (mulP' p q) f := by
  intro mon hm v hv
  unfold mulP' at hm
  obtain ⟨a, ha, hm⟩ := List.mem_flatMap.1 hm
  obtain ⟨b, hb, rfl⟩ := List.mem_map.1 hm
  rcases mem_mulMon.1 hv with h | h
  · exact hp a ha v h
  · exact hq b hb v h

/-! ## stores -/

theorem lookup_filter_ne (s : Store) {x u : Var} (h : u ≠ x) :
    (s.filter (·.1 != x)).lookup u = s.lookup u := by
  induction s with
  | nil => rfl
  | cons e t ih =>
    obtain ⟨k, p⟩ := e
    by_cases hk : k = x
    · subst hk
      have hne : (u == k) = false := beq_eq_false_iff_ne.2 h
      simp [List.lookup_cons, hne, ih]
    · have : ((k, p).1 != x) = true := by simpa using hk
      rw [List.filter_cons, this]
      simp only [if_true, List.lookup_cons, ih]

theorem get_set (s : Store) (x u : Var) (p : PolyN) :
    (s.set x p).get u = if u = x then p else s.get u := by
  unfold Store.set Store.get
  by_cases h : u = x
  · subst h; simp
  · have hne : (u == x) = false := beq_eq_false_iff_ne.2 h
    simp only [List.lookup_cons, hne, h, if_false, lookup_filter_ne s h]

theorem get_nil (x : Var) : Store.get [] x = [[x]] := rfl

/-! ## from `Bnd` to the sentence `Shape` -/

theorem shape_of_allGe {q : PolyN} {Ml Wl Pl : List Var} {f : Var → Scalar}
    (hM : ∀ v, Ml.contains v = true ↔ f v = .m) (hW : ∀ v, Wl.contains v = true ↔ f v = .w)
    (hP : ∀ v, Pl.contains v = true ↔ f v = .p) (hfin : ∀ v, f v ≠ .i) (h : AllGe 2 q f) :
    Shape q Ml Wl Pl = true := by
  have hwp : ∀ mon ∈ q, ∀ v ∈ mon, f v = .w ∨ f v = .p := by
    intro mon hm v hv
    have h2 := h mon hm v hv
    have hi := hfin v
    revert h2 hi
    cases f v <;> simp [Scalar.rank]
  have hnM : ∀ mon ∈ q, ∀ v ∈ mon, Ml.contains v = false := by
    intro mon hm v hv
    rw [Bool.eq_false_iff]
    intro hc
    have := (hM v).1 hc
    rcases hwp mon hm v hv with e | e <;> rw [e] at this <;> cases this
  have hfil : (q.filter fun mon => mon.any Ml.contains) = [] := by
    rw [List.filter_eq_nil_iff]
    intro mon hm
    simp only [List.any_eq_true, not_exists, not_and]
    intro v hv
    rw [hnM mon hm v hv]; exact Bool.false_ne_true
  unfold Shape
  rw [hfil]
  simp only [List.length_nil, List.isEmpty_nil, Bool.true_or, Bool.and_true, Nat.zero_le, decide_true,
    Bool.and_eq_true, List.all_eq_true]
  refine ⟨?_, ?_⟩
  · intro mon hm v hv
    rcases hwp mon hm v hv with e | e
    · rw [(hW v).2 e]; simp
    · rw [(hP v).2 e]; simp
  · intro mon hm
    rw [Bool.or_eq_true]
    left
    rw [List.all_eq_true]
    intro v hv
    rw [hnM mon hm v hv]; rfl

theorem shape_of_bnd {q : PolyN} {Ml Wl Pl : List Var} {f : Var → Scalar}
    (hM : ∀ v, Ml.contains v = true ↔ f v = .m) (hW : ∀ v, Wl.contains v = true ↔ f v = .w)
    (hP : ∀ v, Pl.contains v = true ↔ f v = .p) (hfin : ∀ v, f v ≠ .i) (h : Bnd q f) :
    Shape q Ml Wl Pl = true := by
  rcases h with h | ⟨l1, u, l2, e, hu, h1, h2⟩
  · exact shape_of_allGe hM hW hP hfin h
  · by_cases hu2 : 2 ≤ (f u).rank
    · apply shape_of_allGe hM hW hP hfin
      rw [e]
      apply (h1.weaken (by decide)).append
      intro mon hm v hv
      rcases List.mem_cons.1 hm with rfl | hm
      · rw [List.mem_singleton.1 hv]; exact hu2
      · exact Nat.le_trans (by decide) (h2 mon hm v hv)
    · have hum : f u = .m := by
        revert hu hu2
        cases f u <;> simp [Scalar.rank]
      have hp : ∀ l : PolyN, AllGe 3 l f → ∀ mon ∈ l, ∀ v ∈ mon, f v = .p := by
        intro l hl mon hm v hv
        have h3 := hl mon hm v hv
        have hi := hfin v
        revert h3 hi
        cases f v <;> simp [Scalar.rank]
      have hMu : Ml.contains u = true := (hM u).2 hum
      have hMu' : u ∈ Ml := by simpa using hMu
      have hnM : ∀ l : PolyN, AllGe 3 l f → ∀ mon ∈ l, ∀ v ∈ mon, Ml.contains v = false := by
        intro l hl mon hm v hv
        rw [Bool.eq_false_iff]
        intro hc
        have := (hM v).1 hc
        rw [hp l hl mon hm v hv] at this; cases this
      have hnW : ∀ l : PolyN, AllGe 3 l f → ∀ mon ∈ l, ∀ v ∈ mon, Wl.contains v = false := by
        intro l hl mon hm v hv
        rw [Bool.eq_false_iff]
        intro hc
        have := (hW v).1 hc
        rw [hp l hl mon hm v hv] at this; cases this
      have hfil : ∀ l : PolyN, AllGe 3 l f → (l.filter fun mon => mon.any Ml.contains) = [] := by
        intro l hl
        rw [List.filter_eq_nil_iff]
        intro mon hm
        simp only [List.any_eq_true, not_exists, not_and]
        intro v hv
        rw [hnM l hl mon hm v hv]; exact Bool.false_ne_true
      have hfq : (q.filter fun mon => mon.any Ml.contains) = [[u]] := by
        rw [e, List.filter_append, hfil l1 h1, List.filter_cons, hfil l2 h2]
        simp [hMu']
      unfold Shape
      rw [hfq]
      simp only [List.length_cons, List.length_nil, List.isEmpty_cons, Bool.false_or, Nat.le_refl,
        decide_true, Bool.and_true, Bool.and_eq_true, List.all_eq_true]
      have hmem : ∀ mon ∈ q, mon = [u] ∨ (mon ∈ l1 ∨ mon ∈ l2) := by
        intro mon hm
        rw [e] at hm
        rcases List.mem_append.1 hm with hm | hm
        · exact Or.inr (Or.inl hm)
        · rcases List.mem_cons.1 hm with hm | hm
          · exact Or.inl hm
          · exact Or.inr (Or.inr hm)
      refine ⟨⟨?_, ?_⟩, ?_⟩
      · intro mon hm v hv
        rcases hmem mon hm with rfl | hm'
        · rw [List.mem_singleton.1 hv, hMu]; rfl
        · have : f v = .p := by
            rcases hm' with hm' | hm'
            · exact hp l1 h1 mon hm' v hv
            · exact hp l2 h2 mon hm' v hv
          rw [(hP v).2 this]; simp
      · intro mon hm
        rcases hmem mon hm with rfl | hm'
        · simp
        · rw [Bool.or_eq_true]
          left
          rw [List.all_eq_true]
          intro v hv
          have : Ml.contains v = false := by
            rcases hm' with hm' | hm'
            · exact hnM l1 h1 mon hm' v hv
            · exact hnM l2 h2 mon hm' v hv
          rw [this]; rfl
      · intro mon hm
        rw [Bool.or_eq_true]
        rcases hmem mon hm with rfl | hm'
        · left; simp [hMu']
        · right
          rw [List.all_eq_true]
          intro v hv
          have : Wl.contains v = false := by
            rcases hm' with hm' | hm'
            · exact hnW l1 h1 mon hm' v hv
            · exact hnW l2 h2 mon hm' v hv
          rw [this]; rfl

/-! ## and back: the sentence `Shape` implies `Bnd` -/

theorem bnd_of_shape {q : PolyN} {Ml Wl Pl : List Var} {f : Var → Scalar}
    (hM : ∀ v, Ml.contains v = true ↔ f v = .m) (hW : ∀ v, Wl.contains v = true ↔ f v = .w)
    (hP : ∀ v, Pl.contains v = true ↔ f v = .p) (h : Shape q Ml Wl Pl = true) : Bnd q f := by
  unfold Shape at h
  simp only [Bool.and_eq_true, List.all_eq_true, Bool.or_eq_true, decide_eq_true_eq] at h
  obtain ⟨⟨⟨c1, c2⟩, c3⟩, c4⟩ := h
  -- a monomial without max-listed variable has all its variables weak- or poly-listed
  have hnoM : ∀ mon ∈ q, (mon.any Ml.contains) = false → ∀ v ∈ mon, f v = .w ∨ f v = .p := by
    intro mon hm hany v hv
    have hMv : Ml.contains v = false := by
      rw [Bool.eq_false_iff]
      intro hc
      have : mon.any Ml.contains = true := List.any_eq_true.2 ⟨v, hv, hc⟩
      rw [hany] at this; cases this
    rcases c1 mon hm v hv with (hc | hc) | hc
    · rw [hMv] at hc; cases hc
    · exact Or.inl ((hW v).1 hc)
    · exact Or.inr ((hP v).1 hc)
  cases hfil : q.filter (fun mon => mon.any Ml.contains) with
  | nil =>
    left
    intro mon hm v hv
    have hany : (mon.any Ml.contains) = false := by
      rw [Bool.eq_false_iff]
      intro hc
      have : mon ∈ q.filter (fun mon => mon.any Ml.contains) := List.mem_filter.2 ⟨hm, hc⟩
      rw [hfil] at this; cases this
    rcases hnoM mon hm hany v hv with e | e <;> rw [e] <;> decide
  | cons a rest =>
    have hrest : rest = [] := by
      rw [hfil] at c3
      cases rest with
      | nil => rfl
      | cons b t => simp at c3
    subst hrest
    obtain ⟨l1, l2, e, h1, ha, h2⟩ := List.filter_eq_cons_iff.1 hfil
    have hmem1 : ∀ mon ∈ l1, mon ∈ q := fun mon hm => by rw [e]; exact List.mem_append_left _ hm
    have hmem2 : ∀ mon ∈ l2, mon ∈ q := fun mon hm => by
      rw [e]; exact List.mem_append_right _ (List.mem_cons_of_mem _ hm)
    have haq : a ∈ q := by rw [e]; exact List.mem_append_right _ List.mem_cons_self
    have hany1 : ∀ mon ∈ l1, (mon.any Ml.contains) = false := fun mon hm => by
      rw [Bool.eq_false_iff]; exact h1 mon hm
    have hany2 : ∀ mon ∈ l2, (mon.any Ml.contains) = false := fun mon hm => by
      rw [Bool.eq_false_iff]
      intro hc
      have : mon ∈ l2.filter (fun mon => mon.any Ml.contains) := List.mem_filter.2 ⟨hm, hc⟩
      rw [h2] at this; cases this
    -- clause 4 applies
    have c4' : ∀ mon ∈ q, (mon.any Ml.contains) = true ∨ ∀ v ∈ mon, (!Wl.contains v) = true := by
      rcases c4 with c4 | c4
      · rw [hfil] at c4; cases c4
      · intro mon hm
        rcases c4 mon hm with h | h
        · exact Or.inl h
        · exact Or.inr h
    have hp : ∀ mon ∈ q, (mon.any Ml.contains) = false → ∀ v ∈ mon, 3 ≤ (f v).rank := by
      intro mon hm hany v hv
      rcases c4' mon hm with h | h
      · rw [hany] at h; cases h
      · rcases hnoM mon hm hany v hv with e' | e'
        · have := h v hv
          rw [(hW v).2 e'] at this; cases this
        · rw [e']; decide
    -- the max-monomial is a single variable
    obtain ⟨u, hu, hMu⟩ := List.any_eq_true.1 ha
    have hlen : a.length = 1 := by
      rcases c2 a haq with h | h
      · have := h u hu
        rw [hMu] at this; cases this
      · exact eq_of_beq h
    have hau : a = [u] := by
      cases a with
      | nil => cases hu
      | cons x t =>
        cases t with
        | nil => rw [List.mem_singleton.1 hu]
        | cons y t' => simp at hlen
    right
    refine ⟨l1, u, l2, by rw [e, hau], ?_, ?_, ?_⟩
    · rw [(hM u).1 hMu]; decide
    · exact fun mon hm => hp mon (hmem1 mon hm) (hany1 mon hm)
    · exact fun mon hm => hp mon (hmem2 mon hm) (hany2 mon hm)

end Mwp.Spec.ExecSound
