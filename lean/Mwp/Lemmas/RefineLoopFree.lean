/-
  Refinement, part 2: the model analysis of a LOOP-FREE supported statement means exactly what
  the calculus derives, at every choice vector (`compute_refines_loopfree`), by induction on the size of
  the syntax tree (`compute_refines_aux0`), with the analogous statements for
  statement lists (`list_refines`, `branchList_refines`) and `if` branches (`branch_refines`).
-/
import Mwp.Lemmas.RefineSeq
import Mwp.Lemmas.RefineFrame
namespace Mwp
namespace Refine
open Mwp.Props.C16 Mwp.Lemmas.Poly Spec RelFix

mutual
/-- every identifier that reaches a relation (assignment targets and operands) is a non-empty
    string (`Relation.new` drops falsy names) -/
def namesOk : Node → Bool
  | .id n => n != ""
  | .binop _ l r => namesOk l && namesOk r
  | .unop _ e => namesOk e
  | .cast e => namesOk e
  | .assign _ l r => namesOk l && namesOk r
  | .compound (some l) => namesOkL l
  | .ifs _ t f => namesOkO t && namesOkO f
  | .label _ s => namesOk s
  | .exprList es => namesOkL es
  | _ => true
def namesOkL : List Node → Bool
  | [] => true
  | n :: ns => namesOk n && namesOkL ns
def namesOkO : Option Node → Bool
  | none => true
  | some n => namesOk n
end

mutual
/-- no effect-free expression statement (`x;`, `1;`, `a+b;`) anywhere in statement position:
    the calculus reads those as no-ops, the analysis notes them as unsupported -/
def noBare : Node → Bool
  | .id _ => false
  | .const .. => false
  | .binop .. => false
  | .cast e => noBare e
  | .compound (some l) => noBareL l
  | .ifs _ t f => noBareO t && noBareO f
  | .label _ s => noBare s
  | .exprList es => noBareL es
  | _ => true
def noBareL : List Node → Bool
  | [] => true
  | n :: ns => noBare n && noBareL ns
def noBareO : Option Node → Bool
  | none => true
  | some n => noBare n
end

variable {B : List String}

/-- the side conditions carried through the induction; `B` is the list of classes that may show
    up in `skipped` (`bareClasses`, or nothing at all when the tree has no bare expression
    statement) -/
def Ok0 (B : List String) (n : Node) : Prop :=
  namesOk n = true ∧ (B = bareClasses ∨ noBare n = true)

theorem Ok0.names {n : Node} (h : Ok0 B n) : namesOk n = true := h.1
theorem Ok0.bare {n : Node} (h : Ok0 B n) : B = bareClasses ∨ noBare n = true := h.2

theorem rmCast_of_not_cast {n : Node} (h : n.isCast = false) : n.rmCast = n := by
  cases n <;> first | rfl | simp [Node.isCast] at h

theorem namesOk_rmCast (n : Node) : namesOk n = true → namesOk n.rmCast = true := by
  induction n using Node.rmCast.induct with
  | case1 e ih => intro h; rw [Node.rmCast]; exact ih (by simpa [namesOk] using h)
  | case2 n hn => intro h; rw [Node.rmCast]; exact h; exact hn

theorem atomOk_of_namesOk {l : Node} {a : Atom} (h : namesOk l = true) (ha : atomOf l = some a) :
    atomOk a = true := by
  have h' := namesOk_rmCast l h
  unfold atomOf at ha
  cases hl : l.rmCast <;> rw [hl] at ha h' <;> simp at ha
  · subst ha; simpa [atomOk, namesOk] using h'
  · subst ha; rfl

theorem okL_mem {l : List Node} (h1 : namesOkL l = true)
    (h3 : B = bareClasses ∨ noBareL l = true) : ∀ n ∈ l, Ok0 B n := by
  induction l with
  | nil => intro n hn; cases hn
  | cons a t ih =>
    simp only [namesOkL, Bool.and_eq_true] at h1
    have h3a : B = bareClasses ∨ noBare a = true :=
      h3.imp id (fun h => by simp only [noBareL, Bool.and_eq_true] at h; exact h.1)
    have h3t : B = bareClasses ∨ noBareL t = true :=
      h3.imp id (fun h => by simp only [noBareL, Bool.and_eq_true] at h; exact h.2)
    intro n hn
    rcases List.mem_cons.1 hn with rfl | hn
    · exact ⟨h1.1, h3a⟩
    · exact ih h1.2 h3t n hn

theorem desugarL_mem {l : List Node} {cs : List Cmd} (hd : desugarL l = some cs)
    (hlf : loopFreeL cs = true) : ∀ n ∈ l, ∃ cmd, desugar n = some cmd ∧ cmd.loopFree = true := by
  induction l generalizing cs with
  | nil => intro n hn; cases hn
  | cons a t ih =>
    rw [desugarL] at hd
    cases hda : desugar a with
    | none => simp [hda] at hd
    | some ca =>
      cases hdt : desugarL t with
      | none => simp [hda, hdt] at hd
      | some ct =>
        simp only [hda, hdt, Option.some.injEq] at hd
        subst hd
        simp only [loopFreeL, Bool.and_eq_true] at hlf
        intro n hn
        rcases List.mem_cons.1 hn with rfl | hn
        · exact ⟨ca, hda, hlf.1⟩
        · exact ih hdt hlf.2 n hn

theorem composeAll_two (a b : Relation) :
    Analysis.composeAll [[a], [b]] =
      [Relation.composition (Relation.composition (Relation.new []) a) b] := by
  simp [Analysis.composeAll, RelList.empty, relList_composition_single]

/-- `x = y++` / `x = y--`: first `x = y`, then `y = y ± 1` -/
theorem refines_postIncDec (idx : Nat) (dg : DG.Graph) (x y bop : String)
    (hop : bop = "+" ∨ bop = "-" ∨ bop = "*") (hx : x ≠ "") (hy : y ≠ "") :
    ∃ fst snd, Analysis.binaryOp idx y bop (.id y) (.const "int" "1") = .ok (idx + 1, fst) ∧
      Analysis.idAsgn x y = .ok snd ∧
      Refines B idx dg (.seq [.asgnVar x y, .bin bop y (.var y) .const])
        ⟨idx + 1, Analysis.composeAll [snd, fst], false, dg, []⟩ := by
  obtain ⟨snd, hs, Rs⟩ := refines_asgnVar idx dg x y hx hy
  obtain ⟨fst, hf, Rf⟩ := refines_bin idx dg y bop (.id y) (.const "int" "1") (.var y) .const rfl rfl hop hy
    (by simpa [atomOk] using hy) rfl
  obtain ⟨rs, hrs, ws, _, _⟩ := Rs.rel
  obtain ⟨rf, hrf, wf, _, _⟩ := Rf.rel
  simp only at hrs hrf
  subst hrs; subst hrf
  refine ⟨[rf], [rs], hf, hs, ?_⟩
  rw [composeAll_two]
  have w1 := Relation.composition_wf _ rs emptyRel_wf ws
  have w2 := Relation.composition_wf _ rf w1 wf
  exact refines_seq (RefinesL.cons emptyRel_wf Rs rfl
    (RefinesL.cons w1 Rf rfl (RefinesL.nil (idx + 1) dg _ [] w2)))

/-- `x = ++y` / `x = --y`: first `y = y ± 1`, then `x = y` -/
theorem refines_preIncDec (idx : Nat) (dg : DG.Graph) (x y bop : String)
    (hop : bop = "+" ∨ bop = "-" ∨ bop = "*") (hx : x ≠ "") (hy : y ≠ "") :
    ∃ fst snd, Analysis.binaryOp idx y bop (.id y) (.const "int" "1") = .ok (idx + 1, fst) ∧
      Analysis.idAsgn x y = .ok snd ∧
      Refines B idx dg (.seq [.bin bop y (.var y) .const, .asgnVar x y])
        ⟨idx + 1, Analysis.composeAll [fst, snd], false, dg, []⟩ := by
  obtain ⟨snd, hs, Rs⟩ := refines_asgnVar (idx + 1) dg x y hx hy
  obtain ⟨fst, hf, Rf⟩ := refines_bin idx dg y bop (.id y) (.const "int" "1") (.var y) .const rfl rfl hop hy
    (by simpa [atomOk] using hy) rfl
  obtain ⟨rs, hrs, ws, _, _⟩ := Rs.rel
  obtain ⟨rf, hrf, wf, _, _⟩ := Rf.rel
  simp only at hrs hrf
  subst hrs; subst hrf
  refine ⟨[rf], [rs], hf, hs, ?_⟩
  rw [composeAll_two]
  have w1 := Relation.composition_wf _ rf emptyRel_wf wf
  have w2 := Relation.composition_wf _ rs w1 ws
  exact refines_seq (RefinesL.cons emptyRel_wf Rf rfl
    (RefinesL.cons w1 Rs rfl (RefinesL.nil (idx + 1) dg _ [] w2)))

/-- a statement list walked from the empty relation list -/
theorem list_refines (l : List Node) (IH : ∀ n ∈ l, NodeRefines B (Ok0 B) n) (cmd : Cmd)
    (hd : Option.map Cmd.seq (desugarL l) = some cmd) (hlf : cmd.loopFree = true)
    (hn : namesOkL l = true) (hb : B = bareClasses ∨ noBareL l = true)
    (q : Bool) (idx : Nat) (dg : DG.Graph) :
    ∃ out, Analysis.computeList q idx dg RelList.empty [] l = .ok out ∧ Refines B idx dg cmd out := by
  cases hdl : desugarL l with
  | none => simp [hdl] at hd
  | some cs =>
    simp only [hdl, Option.map_some, Option.some.injEq] at hd
    subst hd
    rw [Cmd.loopFree] at hlf
    obtain ⟨out, ho, R⟩ := computeList_refines B (Ok0 B) l cs hdl hlf (okL_mem hn hb) IH q idx dg
      (Relation.new []) [] emptyRel_wf
    exact ⟨out, ho, refines_seq R⟩

theorem branchList_refines (l : List Node) (IH : ∀ n ∈ l, NodeRefines B (Ok0 B) n) (cmd : Cmd)
    (hd : Option.map Cmd.seq (desugarL l) = some cmd) (hlf : cmd.loopFree = true)
    (hn : namesOkL l = true) (hb : B = bareClasses ∨ noBareL l = true)
    (q : Bool) (idx : Nat) (dg : DG.Graph) :
    ∃ out, Analysis.branchList q idx dg RelList.empty [] l = .ok out ∧ Refines B idx dg cmd out := by
  rw [branchList_eq_computeList]
  · exact list_refines l IH cmd hd hlf hn hb q idx dg
  · intro n hn' q' idx' dg'
    cases hdl : desugarL l with
    | none => simp [hdl] at hd
    | some cs =>
      simp only [hdl, Option.map_some, Option.some.injEq] at hd
      subst hd
      rw [Cmd.loopFree] at hlf
      obtain ⟨c, hdc, hlc⟩ := desugarL_mem hdl hlf n hn'
      obtain ⟨out, ho, R⟩ := IH n hn' c hdc hlc (okL_mem hn hb n hn') q' idx' dg'
      exact ⟨out, ho, R.exit⟩

theorem sizeOf_mem_lt {l : List Node} {n : Node} (h : n ∈ l) : sizeOf n < sizeOf l :=
  List.sizeOf_lt_of_mem h

theorem branch_refines (o : Option Node) (IH : ∀ n : Node, sizeOf n < sizeOf o → NodeRefines B (Ok0 B) n)
    (a : Cmd) (hd : desugarO o = some a) (hlf : a.loopFree = true)
    (hn : namesOkO o = true) (hb : B = bareClasses ∨ noBareO o = true)
    (q : Bool) (idx : Nat) (dg : DG.Graph) :
    ∃ out, Analysis.branch q idx dg o = .ok out ∧ Refines B idx dg a out := by
  cases o with
  | none =>
    rw [desugarO] at hd
    cases hd
    exact ⟨_, by rw [Analysis.branch] <;> rfl, refines_skip idx dg [] (by intro s hs; cases hs)⟩
  | some n =>
    rw [desugarO] at hd
    rw [namesOkO] at hn
    rw [noBareO] at hb
    by_cases hcomp : ∃ items, n = .compound items
    · obtain ⟨items, rfl⟩ := hcomp
      cases items with
      | none =>
        rw [desugar] at hd
        cases hd
        exact ⟨_, by rw [Analysis.branch] <;> rfl, refines_skip idx dg [] (by intro s hs; cases hs)⟩
      | some l =>
        rw [desugar] at hd
        rw [namesOk] at hn
        rw [noBare] at hb
        rw [Analysis.branch]
        refine branchList_refines l (fun m hm => IH m ?_) a hd hlf hn hb q idx dg
        have := sizeOf_mem_lt hm
        simp only [Option.some.sizeOf_spec, Node.compound.sizeOf_spec]
        omega
    · rw [Analysis.branch.eq_4 q idx dg n (fun e => hcomp ⟨_, e⟩) (fun l e => hcomp ⟨_, e⟩)]
      obtain ⟨out, ho, R⟩ := IH n (by simp only [Option.some.sizeOf_spec]; omega) a hd hlf ⟨hn, hb⟩ q idx dg
      refine ⟨_, ?_, refines_comp_empty R⟩
      rw [ho]
      simp only [bind, Except.bind, R.exit]
      rfl

theorem notSkip_nil : ∀ s ∈ ([] : List String), s ∈ B := by intro s hs; cases hs

/-- `x = op e` -/
theorem unaryAsgn_refines (idx : Nat) (dg : DG.Graph) (x op : String) (e : Node) (cmd : Cmd) (cls : String)
    (hx : x ≠ "") (hne : namesOk e = true)
    (hd : (if (op == "!" || op == "sizeof") = true then
        (if hasSideEffect e = true then none else some (Cmd.asgnConst x))
      else match e.rmCast with
        | .const .. => if (op == "-" || op == "+") = true then some (Cmd.asgnConst x) else none
        | .id y =>
          if (op == "-") = true then some (Cmd.bin "*" x (.var y) .const)
          else if (op == "+") = true then some (Cmd.asgnVar x y)
          else if (op == "p++") = true then some (Cmd.seq [.asgnVar x y, .bin "+" y (.var y) .const])
          else if (op == "p--") = true then some (Cmd.seq [.asgnVar x y, .bin "-" y (.var y) .const])
          else if (op == "++") = true then some (Cmd.seq [.bin "+" y (.var y) .const, .asgnVar x y])
          else if (op == "--") = true then some (Cmd.seq [.bin "-" y (.var y) .const, .asgnVar x y])
          else none
        | _ => none) = some cmd) :
    ∃ out, (do
        match ← Analysis.unaryAsgn idx x op e with
        | some (i, rl) => pure (⟨i, rl, false, dg, []⟩ : Analysis.Out)
        | none => pure (Analysis.skip idx dg [cls])) = .ok out ∧ Refines B idx dg cmd out := by
  split at hd
  · rename_i hop
    split at hd
    · cases hd
    cases hd
    simp only [Bool.or_eq_true, beq_iff_eq] at hop
    rcases hop with rfl | rfl
    · rw [unaryAsgn_not]
      exact ⟨_, rfl, refines_asgnConst idx dg x hx⟩
    · rw [unaryAsgn_sizeof]
      exact ⟨_, rfl, refines_asgnConst idx dg x hx⟩
  · split at hd
    · rename_i ty v he
      split at hd
      · cases hd
        rw [unaryAsgn_const idx x op e ty v he]
        exact ⟨_, rfl, refines_asgnConst idx dg x hx⟩
      · cases hd
    · rename_i y he
      have hy : y ≠ "" := by
        have := namesOk_rmCast e hne
        rw [he] at this
        simpa [namesOk] using this
      split at hd
      · rename_i hop
        simp only [beq_iff_eq] at hop
        subst hop
        cases hd
        obtain ⟨rl, h1, R⟩ := refines_bin idx dg x "*" (.id y) (.const "int" "-1") (.var y) .const rfl rfl
          (Or.inr (Or.inr rfl)) hx (by simpa [atomOk] using hy) rfl
        rw [unaryAsgn_minus idx x e y he, h1]
        exact ⟨_, rfl, R⟩
      · split at hd
        · rename_i hop
          simp only [beq_iff_eq] at hop
          subst hop
          cases hd
          obtain ⟨rl, h1, R⟩ := refines_asgnVar idx dg x y hx hy
          rw [unaryAsgn_plus idx x e y he, h1]
          exact ⟨_, rfl, R⟩
        · split at hd
          · rename_i hop
            simp only [beq_iff_eq] at hop
            subst hop
            cases hd
            obtain ⟨fst, snd, h1, h2, R⟩ := refines_postIncDec idx dg x y "+" (Or.inl rfl) hx hy
            rw [unaryAsgn_postInc idx x e y he, h1, h2]
            exact ⟨_, rfl, R⟩
          · split at hd
            · rename_i hop
              simp only [beq_iff_eq] at hop
              subst hop
              cases hd
              obtain ⟨fst, snd, h1, h2, R⟩ := refines_postIncDec idx dg x y "-" (Or.inr (Or.inl rfl)) hx hy
              rw [unaryAsgn_postDec idx x e y he, h1, h2]
              exact ⟨_, rfl, R⟩
            · split at hd
              · rename_i hop
                simp only [beq_iff_eq] at hop
                subst hop
                cases hd
                obtain ⟨fst, snd, h1, h2, R⟩ := refines_preIncDec idx dg x y "+" (Or.inl rfl) hx hy
                rw [unaryAsgn_preInc idx x e y he, h1, h2]
                exact ⟨_, rfl, R⟩
              · split at hd
                · rename_i hop
                  simp only [beq_iff_eq] at hop
                  subst hop
                  cases hd
                  obtain ⟨fst, snd, h1, h2, R⟩ := refines_preIncDec idx dg x y "-" (Or.inr (Or.inl rfl)) hx hy
                  rw [unaryAsgn_preDec idx x e y he, h1, h2]
                  exact ⟨_, rfl, R⟩
                · cases hd
    · cases hd

theorem compute_id (q : Bool) (idx : Nat) (dg : DG.Graph) (n : String) :
    Analysis.compute q idx dg (.id n) = .ok (Analysis.skip idx dg ["ID"]) := by
  simp [Analysis.compute, Node.cls]; rfl
theorem compute_const (q : Bool) (idx : Nat) (dg : DG.Graph) (a b : String) :
    Analysis.compute q idx dg (.const a b) = .ok (Analysis.skip idx dg ["Constant"]) := by
  simp [Analysis.compute, Node.cls]; rfl
theorem compute_binop (q : Bool) (idx : Nat) (dg : DG.Graph) (o : String) (l r : Node) :
    Analysis.compute q idx dg (.binop o l r) = .ok (Analysis.skip idx dg ["BinaryOp"]) := by
  simp [Analysis.compute, Node.cls]; rfl

/-- the statement `y++;` etc. once the operator is known to be an increment/decrement -/
theorem incDec_stmt_refines (idx : Nat) (dg : DG.Graph) (op bop : String) (e : Node) (y : String)
    (he : e.rmCast = .id y) (hy : y ≠ "") (hmem : Gen.incDec.contains op = true)
    (hlast : String.ofList (op.toList.drop (op.length - 1)) = bop) (hbop : bop = "+" ∨ bop = "-" ∨ bop = "*") :
    ∃ out, (if (Gen.incDec.contains op && e.rmCast.isId) = true then (do
        let (nm, bop) ← Analysis.incDecParts op e
        let (i, rl) ← Analysis.binaryOp idx nm bop (.id nm) (.const "int" "1")
        pure (⟨i, rl, false, dg, []⟩ : Analysis.Out))
      else pure (Analysis.skip idx dg)) = .ok out ∧ Refines B idx dg (.bin bop y (.var y) .const) out := by
  obtain ⟨rl, h1, R⟩ := refines_bin idx dg y bop (.id y) (.const "int" "1") (.var y) .const rfl rfl
    hbop hy (by simpa [atomOk] using hy) rfl
  have hcond : (Gen.incDec.contains op && e.rmCast.isId) = true := by
    rw [hmem, he]; rfl
  rw [if_pos hcond, incDecParts_id op e y he, hlast]
  simp only [bind, Except.bind, h1]
  exact ⟨_, rfl, R⟩

theorem compute_refines_aux0 (N : Nat) : ∀ node : Node, sizeOf node < N → NodeRefines B (Ok0 B) node := by
  induction N with
  | zero => intro node h; omega
  | succ N ih =>
    intro node hsz cmd hd hlf hok q idx dg
    rw [desugar.eq_def] at hd
    split at hd
    · -- return
      split at hd
      · cases hd
      cases hd
      exact ⟨_, by rw [Analysis.compute] <;> rfl, refines_skip idx dg [] notSkip_nil⟩
    · cases hd
      exact ⟨_, by rw [Analysis.compute] <;> rfl, refines_skip idx dg [] notSkip_nil⟩
    · cases hd
      exact ⟨_, by rw [Analysis.compute] <;> rfl, refines_skip idx dg [] notSkip_nil⟩
    · cases hd
      exact ⟨_, by rw [Analysis.compute] <;> rfl, refines_skip idx dg [] notSkip_nil⟩
    · cases hd
      exact ⟨_, by rw [Analysis.compute] <;> rfl, refines_skip idx dg [] notSkip_nil⟩
    · -- x = r
      rename_i x r
      have hx : x ≠ "" := by
        have := hok.names
        simp only [namesOk, Bool.and_eq_true] at this
        simpa using this.1
      have hnr : namesOk r.rmCast = true := by
        have := hok.names
        simp only [namesOk, Bool.and_eq_true] at this
        exact namesOk_rmCast r this.2
      rw [Analysis.compute]
      split at hd
      · -- x = y
        rename_i y hr
        cases hd
        rw [hr] at hnr
        obtain ⟨rl, h1, R⟩ := refines_asgnVar idx dg x y hx (by simpa [namesOk] using hnr)
        simp only [hr, h1]
        exact ⟨_, rfl, R⟩
      · -- x = const
        rename_i ty v hr
        cases hd
        simp only [hr]
        exact ⟨_, rfl, refines_asgnConst idx dg x hx⟩
      · -- x = l op rr
        rename_i op l rr hr
        rw [hr] at hnr
        simp only [namesOk, Bool.and_eq_true] at hnr
        split at hd
        · rename_i hop
          split at hd
          · rename_i a b ha hb
            cases hd
            simp only [Bool.or_eq_true, beq_iff_eq] at hop
            obtain ⟨rl, h1, R⟩ := refines_bin idx dg x op l rr a b ha hb
              (by rcases hop with (h | h) | h <;> simp [h]) hx
              (atomOk_of_namesOk hnr.1 ha) (atomOk_of_namesOk hnr.2 hb)
            simp only [hr, h1]
            exact ⟨_, rfl, R⟩
          · cases hd
        · cases hd
      · -- x = op e
        rename_i op e hr
        rw [hr] at hnr
        simp only [hr]
        exact unaryAsgn_refines idx dg x op e cmd _ hx (by simpa [namesOk] using hnr) hd
      · cases hd
    · -- op e;
      rename_i op e
      rw [Analysis.compute]
      split at hd
      · rename_i y he
        have hy : y ≠ "" := by
          have := namesOk_rmCast e (by simpa [namesOk] using hok.names)
          rw [he] at this
          simpa [namesOk] using this
        split at hd
        · rename_i hop
          cases hd
          simp only [Bool.or_eq_true, beq_iff_eq] at hop
          rcases hop with rfl | rfl
          · exact incDec_stmt_refines idx dg "p++" "+" e y he hy (by decide) (by decide) (Or.inl rfl)
          · exact incDec_stmt_refines idx dg "++" "+" e y he hy (by decide) (by decide) (Or.inl rfl)
        · split at hd
          · rename_i hop
            cases hd
            simp only [Bool.or_eq_true, beq_iff_eq] at hop
            rcases hop with rfl | rfl
            · exact incDec_stmt_refines idx dg "p--" "-" e y he hy (by decide) (by decide) (Or.inr (Or.inl rfl))
            · exact incDec_stmt_refines idx dg "--" "-" e y he hy (by decide) (by decide) (Or.inr (Or.inl rfl))
          · rename_i h1 h2
            cases hd
            simp only [Bool.or_eq_true, beq_iff_eq, not_or] at h1 h2
            have : Gen.incDec.contains op = false := by
              simp [Gen.incDec, h1.1, h1.2, h2.1, h2.2]
            simp only [this, Bool.false_and, Bool.false_eq_true, if_false]
            exact ⟨_, rfl, refines_skip idx dg [] notSkip_nil⟩
      · rename_i hne
        split at hd
        · cases hd
        cases hd
        have : e.rmCast.isId = false := by
          cases he : e.rmCast <;> first | rfl | exact absurd he (hne _)
        simp only [this, Bool.and_false, Bool.false_eq_true, if_false]
        exact ⟨_, rfl, refines_skip idx dg [] notSkip_nil⟩
    · -- call
      rw [Analysis.compute]
      split at hd
      · rename_i h
        cases hd
        simp only [h, if_true]
        exact ⟨_, rfl, refines_skip idx dg [] notSkip_nil⟩
      · cases hd
    · -- if
      rename_i cond t f
      split at hd
      · cases hd
      split at hd
      · rename_i a b ha hb
        cases hd
        simp only [Cmd.loopFree, Bool.and_eq_true] at hlf
        have hn := hok.names
        simp only [namesOk, Bool.and_eq_true] at hn
        have hst : sizeOf t < N := by
          simp only [Node.ifs.sizeOf_spec] at hsz; omega
        have hsf : sizeOf f < N := by
          simp only [Node.ifs.sizeOf_spec] at hsz; omega
        have hbt : B = bareClasses ∨ noBareO t = true :=
          hok.bare.imp id (fun h => by simp only [noBare, Bool.and_eq_true] at h; exact h.1)
        have hbf : B = bareClasses ∨ noBareO f = true :=
          hok.bare.imp id (fun h => by simp only [noBare, Bool.and_eq_true] at h; exact h.2)
        obtain ⟨rt, hrt, Rt⟩ := branch_refines t (fun n hn' => ih n (by omega)) a ha hlf.1 hn.1 hbt q idx dg
        obtain ⟨rf, hrf, Rf⟩ := branch_refines f (fun n hn' => ih n (by omega)) b hb hlf.2 hn.2 hbf
          q rt.index rt.dg
        refine ⟨_, ?_, refines_ite Rt Rf⟩
        rw [Analysis.compute, hrt]
        simp only [bind, Except.bind, Rt.exit, hrf, Rf.exit]
        rfl
      · cases hd
    · -- while
      rename_i b
      split at hd
      · cases hd
      cases hdb : desugar b <;> simp [hdb] at hd
      subst hd
      simp [Cmd.loopFree] at hlf
    · rename_i b
      split at hd
      · cases hd
      cases hdb : desugar b <;> simp [hdb] at hd
      subst hd
      simp [Cmd.loopFree] at hlf
    · rename_i b
      split at hd
      · cases hdb : desugar b <;> simp [hdb] at hd
        subst hd
        simp [Cmd.loopFree] at hlf
      · cases hd
    · -- {}
      cases hd
      exact ⟨_, by rw [Analysis.compute] <;> rfl, refines_skip idx dg [] notSkip_nil⟩
    · -- { l }
      rename_i l
      rw [Analysis.compute]
      have hn := hok.names
      rw [namesOk] at hn
      refine list_refines l (fun m hm => ih m ?_) cmd hd hlf hn
        (hok.bare.imp id (fun h => by rw [noBare] at h; exact h)) q idx dg
      have := sizeOf_mem_lt hm
      simp only [Node.compound.sizeOf_spec, Option.some.sizeOf_spec] at hsz
      omega
    · -- label
      rename_i name st
      rw [Analysis.compute]
      have hn := hok.names
      rw [namesOk] at hn
      exact ih st (by simp only [Node.label.sizeOf_spec] at hsz; omega) cmd hd hlf
        ⟨hn, hok.bare.imp id (fun h => by rw [noBare] at h; exact h)⟩ q idx dg
    · -- e1, e2
      rename_i es
      rw [Analysis.compute]
      have hn := hok.names
      rw [namesOk] at hn
      refine list_refines es (fun m hm => ih m ?_) cmd hd hlf hn
        (hok.bare.imp id (fun h => by rw [noBare] at h; exact h)) q idx dg
      have := sizeOf_mem_lt hm
      simp only [Node.exprList.sizeOf_spec] at hsz
      omega
    · -- (T) e;
      rename_i e
      rw [Analysis.compute]
      have hn := hok.names
      rw [namesOk] at hn
      exact ih e (by simp only [Node.cast.sizeOf_spec] at hsz; omega) cmd hd hlf
        ⟨hn, hok.bare.imp id (fun h => by rw [noBare] at h; exact h)⟩ q idx dg
    · -- x;
      cases hd
      exact ⟨_, compute_id q idx dg _,
        refines_skip idx dg _ (by
          intro s hs
          simp only [List.mem_singleton] at hs; subst hs
          rcases hok.bare with rfl | h
          · decide
          · simp [noBare] at h)⟩
    · cases hd
      exact ⟨_, compute_const q idx dg _ _,
        refines_skip idx dg _ (by
          intro s hs
          simp only [List.mem_singleton] at hs; subst hs
          rcases hok.bare with rfl | h
          · decide
          · simp [noBare] at h)⟩
    · split at hd
      · cases hd
      · cases hd
        exact ⟨_, compute_binop q idx dg _ _ _,
          refines_skip idx dg _ (by
          intro s hs
          simp only [List.mem_singleton] at hs; subst hs
          rcases hok.bare with rfl | h
          · decide
          · simp [noBare] at h)⟩
    · cases hd

end Refine

open Spec Refine in
/-- **Loop-free refinement.**  For a statement in the supported fragment whose reading `cmd` has
    no loop, the analysis succeeds without setting the exit flag or touching the delta graph,
    consumes exactly `cmd.arity` derivation indices, and returns ONE well-formed relation over
    variables of the command which, at every choice vector that is valid on the statement's index
    range, has no ∞ and means exactly the matrix the calculus derives (alternatives renumbered by
    `relabelAt`), over any universe `U ⊇ cmd.vars`.

    `out.skipped` is `[]` when the tree has no effect-free expression statement (`noBare`); in
    general it lists only classes of such statements (`x;`, `1;`, `a+b;`), which `desugar` reads
    as no-ops while the analysis notes them as unsupported. -/
theorem compute_refines_loopfree (node : Node) (cmd : Cmd) (hd : desugar node = some cmd)
    (hlf : cmd.loopFree = true) (q : Bool) (idx : Nat) (dg : DG.Graph)
    (hnames : namesOk node = true) :
    ∃ out, Analysis.compute q idx dg node = .ok out ∧ out.exit = false ∧ out.dg = dg ∧
      (∀ s ∈ out.skipped, s ∈ bareClasses) ∧ (noBare node = true → out.skipped = []) ∧
      out.index = idx + cmd.arity ∧
      ∃ r, out.rels = [r] ∧ r.WF ∧ (∀ v ∈ r.vars, v ∈ cmd.vars) ∧
        ∀ (U : List String), U.Nodup → (∀ v ∈ cmd.vars, v ∈ U) →
        ∀ (c : Choice), (∀ k, idx ≤ k → k < idx + cmd.arity → ∃ a, c[k]? = some a ∧ a < 3) →
          (∀ a b, r.den c a b ≠ .i) ∧
          ∃ M, sem U cmd idx (relabelAt idx cmd c) = some (idx + cmd.arity, M) ∧
            ∀ x y, x ∈ U → y ∈ U → r.den c x y = SMat.den U M x y := by
  obtain ⟨out, ho, R⟩ := compute_refines_aux0 (B := bareClasses) (sizeOf node + 1) node
    (Nat.lt_succ_self _) cmd hd hlf ⟨hnames, Or.inl rfl⟩ q idx dg
  obtain ⟨r, hr, wr, vr, semr⟩ := R.rel
  refine ⟨out, ho, R.exit, R.dg, R.skipped, ?_, R.index, r, hr, wr, vr, ?_⟩
  · intro hnb
    obtain ⟨out', ho', R'⟩ := compute_refines_aux0 (B := []) (sizeOf node + 1) node
      (Nat.lt_succ_self _) cmd hd hlf ⟨hnames, Or.inr hnb⟩ q idx dg
    rw [ho] at ho'
    cases ho'
    exact List.eq_nil_iff_forall_not_mem.2 (fun s hs => by cases R'.skipped s hs)
  · intro U hU hsub c hval
    obtain ⟨fr, sr⟩ := semr U hU hsub c hval
    refine ⟨fr, matOf U (r.den c), sr _ (relabelAt_relab idx cmd c), ?_⟩
    intro x y hx hy
    exact (den_matOf U _ hx hy).symm

open Spec Refine in
/-- a cast of a cast around a right-hand side is transparent for the analysis, as it is for
    `desugar`: `x = (T)(T)y` is analysed exactly like `x = y` -/
theorem double_cast_transparent :
    desugar (.assign "=" (.id "x") (.cast (.cast (.id "y")))) = some (.asgnVar "x" "y") ∧
    ∀ q idx dg, Analysis.compute q idx dg (.assign "=" (.id "x") (.cast (.cast (.id "y")))) =
      Analysis.compute q idx dg (.assign "=" (.id "x") (.id "y")) := by
  refine ⟨by simp [desugar, Node.rmCast], ?_⟩
  intro q idx dg
  simp [Analysis.compute, Node.rmCast]

open Spec Refine in
/-- non-vacuity: a program using every construct of the loop-free fragment (binary operation with
    the swapped numbering, `if` with a block and a single statement, cast, `y = x++`, `z--`,
    empty statement) satisfies all hypotheses of `compute_refines_loopfree` -/
example : ∃ cmd,
    desugar (.compound (some [
      .assign "=" (.id "x") (.binop "+" (.id "y") (.id "x")),
      .ifs (.id "c")
        (some (.compound (some [.assign "=" (.id "y") (.cast (.unop "p++" (.id "x")))])))
        (some (.assign "=" (.id "z") (.binop "*" (.cast (.id "y")) (.const "int" "2")))),
      .unop "--" (.id "z"), .empty])) = some cmd ∧
    cmd.loopFree = true ∧ cmd.arity = 4 ∧ cmd.swaps = [true, false, false, false] := by
  refine ⟨_, by simp [desugar, desugarL, desugarO, Node.rmCast, atomOf, changesVariable]; rfl, by decide, by decide,
    by decide⟩

open Refine in
example :
    namesOk (.compound (some [
      .assign "=" (.id "x") (.binop "+" (.id "y") (.id "x")),
      .ifs (.id "c")
        (some (.compound (some [.assign "=" (.id "y") (.cast (.unop "p++" (.id "x")))])))
        (some (.assign "=" (.id "z") (.binop "*" (.cast (.id "y")) (.const "int" "2")))),
      .unop "--" (.id "z"), .empty])) = true := by decide

export Refine (vector_table_documented binaryOp_den idAsgn_den constAsgn_den sem_frame sem_index
  namesOk noBare bareClasses swapAlt)

end Mwp
