/-
  (C07, part 2) the removal pass only shrinks variable sets; a second pass changes nothing.
-/
import Mwp.Lemmas.SyntaxThmsCov
namespace Mwp
open Mwp Mwp.Syntax

/-! ### the removal pass can only shrink the variable set -/

theorem mem_insertName (x n : String) (l : List String) :
    x ∈ insertName n l ↔ x = n ∨ x ∈ l := by
  induction l with
  | nil => simp [insertName]
  | cons a as ih =>
    simp only [insertName]
    split
    · simp
    · split
      · rename_i h; subst h; simp
      · simp [ih]; exact or_left_comm

theorem mem_normVars (x : String) (l : List String) : x ∈ normVars l ↔ x ∈ l := by
  induction l with
  | nil => simp [normVars]
  | cons a as ih =>
    have : normVars (a :: as) = insertName a (normVars as) := rfl
    rw [this, mem_insertName, ih]; simp

/-- shrinking the body of a compatible `for` keeps it compatible, with the same guard -/
theorem lcP_mono (init cond next : Option Node) (b b' : Node)
    (hs : varsP b' ⊆ varsP b) (h : (lcP init cond next b).1 = true) :
    lcP init cond next b' = lcP init cond next b := by
  unfold lcP at *
  split at h
  · cases h
  rename_i he
  simp only [he]
  rw [loopCompatOf_eq] at h ⊢
  rw [loopCompatOf_eq]
  split at h
  · rename_i x hx
    split at h
    · cases h
    · rename_i hb
      have : (normVars (varsP b')).contains x = false := by
        cases hc : (normVars (varsP b')).contains x
        · rfl
        · exfalso; apply hb
          rw [List.contains_iff_mem, mem_normVars] at hc ⊢
          exact hs hc
      simp only [this, hb]
  · cases h


theorem app_sub {α : Type} {a a' b b' : List α} (h1 : a' ⊆ a) (h2 : b' ⊆ b) : a' ++ b' ⊆ a ++ b :=
  List.append_subset.2 ⟨List.Subset.trans h1 (List.subset_append_left ..),
    List.Subset.trans h2 (List.subset_append_right ..)⟩

mutual
theorem covN_vars : (n : Node) → ∀ c, covN n = .ok c → varsP c.mod ⊆ varsP n
  | .id _ | .const .. | .brk | .cont | .empty | .typeDecl | .ternary .. | .arrayRef ..
  | .switch .. | .goto _ | .funcCall .. | .binop .. | .other .. | .funcDecl _
  | .compound none | .ret none => by
    intro c h
    simp only [covN, pure_eq_ok, Except.ok.injEq] at h
    subst h
    first | exact List.Subset.refl _ | (split <;> exact List.Subset.refl _)
  | .decl .. => by
    intro c h
    simp only [covN_decl, Except.ok.injEq] at h
    subst h; exact List.Subset.refl _
  | .cast e => by
    intro c h
    simp only [covN_cast, bind_eq_ok, Except.ok.injEq] at h
    obtain ⟨a, ha, rfl⟩ := h
    simpa only [varsP] using covN_vars e a ha
  | .label _ e => by
    intro c h
    simp only [covN, bind_eq_ok, pure_eq_ok, Except.ok.injEq] at h
    obtain ⟨a, ha, rfl⟩ := h
    simpa only [varsP] using covN_vars e a ha
  | .ret (some e) => by
    intro c h
    simp only [covN] at h
    split at h
    · simp only [pure_eq_ok, Except.ok.injEq] at h; subst h; exact List.Subset.refl _
    simp only [bind_eq_ok, pure_eq_ok, Except.ok.injEq] at h
    obtain ⟨a, ha, rfl⟩ := h
    simpa only [varsP, varsPO] using covN_vars e a ha
  | .unop op e => by
    intro c h
    rw [covN_unop] at h
    split at h
    · simp only [bind_eq_ok, Except.ok.injEq] at h
      obtain ⟨a, ha, rfl⟩ := h
      simp only [varsP]
      split
      · exact covN_vars e a ha
      · exact List.Subset.refl _
    · cases h; exact List.Subset.refl _
  | .assign op l r => by
    intro c h
    rw [covN_assign] at h
    split at h
    · cases h; exact List.Subset.refl _
    · simp only [bind_eq_ok, Except.ok.injEq] at h
      obtain ⟨a, ha, rfl⟩ := h
      simp only [varsP]
      exact app_sub (List.Subset.refl _) (covN_vars r a ha)
  | .case_ _ l | .default_ l | .compound (some l) | .declList l | .exprList l | .paramList l => by
    intro c h
    simp only [covN, bind_eq_ok, pure_eq_ok, Except.ok.injEq] at h
    obtain ⟨a, ha, rfl⟩ := h
    simpa only [varsP] using covList_vars l a.1 a.2 ha
  | .while_ _ b | .doWhile _ b => by
    intro c h
    simp only [covN] at h
    split at h
    · simp only [pure_eq_ok, Except.ok.injEq] at h; subst h; exact List.Subset.refl _
    simp only [bind_eq_ok, pure_eq_ok, Except.ok.injEq] at h
    obtain ⟨a, ha, rfl⟩ := h
    simp only [varsP]
    exact app_sub (List.Subset.refl _) (covBody_vars b a.1 a.2 ha)
  | .for_ init cond next b => by
    intro c h
    rw [covN_for] at h
    split at h
    · rename_i hl
      simp only [bind_eq_ok, Except.ok.injEq] at h
      obtain ⟨a, ha, rfl⟩ := h
      have hs := covBody_vars b a.1 a.2 ha
      rw [varsP_for, varsP_for, lcP_mono init cond next b a.2 hs hl]
      exact app_sub (List.Subset.refl _) hs
    · cases h; exact List.Subset.refl _
  | .ifs _ t f => by
    intro c h
    simp only [covN] at h
    split at h
    · simp only [pure_eq_ok, Except.ok.injEq] at h; subst h; exact List.Subset.refl _
    simp only [bind_eq_ok, pure_eq_ok, Except.ok.injEq] at h
    obtain ⟨a, ha, b, hb, rfl⟩ := h
    simp only [varsP]
    exact app_sub (covSlot_vars t a.1 a.2 ha) (covSlot_vars f b.1 b.2 hb)
  | .funcDef d b => by
    intro c h
    cases d with
    | decl nm ty i =>
      cases ty with
      | funcDecl oa =>
        cases oa with
        | some a =>
          rw [covN_funcDef_some] at h
          obtain ⟨ca, cb, ha, hua, hb, hub, rfl⟩ := h
          simp only [varsP, varsPO]
          exact app_sub (covN_vars a ca ha) (covN_vars b cb hb)
        | none =>
          rw [covN_funcDef_other _ _ _ (by intro _ _ _ h; cases h)] at h
          obtain ⟨cb, hb, hub, rfl⟩ := h
          simp only [varsP]
          exact app_sub (List.Subset.refl _) (covN_vars b cb hb)
      | _ =>
        rw [covN_funcDef_other _ _ _ (by intro _ _ _ h; cases h)] at h
        obtain ⟨cb, hb, hub, rfl⟩ := h
        simp only [varsP]
        exact app_sub (List.Subset.refl _) (covN_vars b cb hb)
    | _ =>
      rw [covN_funcDef_other _ _ _ (by intro _ _ _ h; cases h)] at h
      obtain ⟨cb, hb, hub, rfl⟩ := h
      simp only [varsP]
      exact app_sub (List.Subset.refl _) (covN_vars b cb hb)
termination_by n => (sizeOf n, 0)
theorem covList_vars :
    (l : List Node) → ∀ k l', covList l = .ok (k, l') → varsPL l' ⊆ varsPL l
  | [] => by
    intro k l' h
    simp only [covList, pure_eq_ok, Except.ok.injEq, Prod.mk.injEq] at h
    rw [← h.2]; exact List.Subset.refl _
  | n :: ns => by
    intro k l' h
    simp only [covList, bind_eq_ok, pure_eq_ok, Except.ok.injEq] at h
    obtain ⟨c, hc, r, hr, h⟩ := h
    have h2 := covList_vars ns r.1 r.2 hr
    split at h
    · cases h
      simp only [varsPL]
      exact List.Subset.trans h2 (List.subset_append_right ..)
    · cases h
      simp only [varsPL]
      exact app_sub (covN_vars n c hc) h2
termination_by l => (sizeOf l, 0)
theorem covSlot_vars :
    (o : Option Node) → ∀ k o', covSlot o = .ok (k, o') → varsPO o' ⊆ varsPO o
  | none => by
    intro k l' h
    simp only [covSlot, pure_eq_ok, Except.ok.injEq, Prod.mk.injEq] at h
    rw [← h.2]; exact List.Subset.refl _
  | some n => by
    intro k l' h
    simp only [covSlot, bind_eq_ok, pure_eq_ok, Except.ok.injEq] at h
    obtain ⟨c, hc, h⟩ := h
    split at h
    · cases h
      simp only [varsPO, varsP]
      exact List.nil_subset _
    · cases h
      simp only [varsPO]
      exact covN_vars n c hc
termination_by o => (sizeOf o, 0)
theorem covBody_vars (b : Node) :
    ∀ k b', covBody b = .ok (k, b') → varsP b' ⊆ varsP b := by
  intro k b' h
  cases hc : b.isCompound
  · rw [covBody_nc b hc] at h
    simp only [bind_eq_ok, Except.ok.injEq] at h
    obtain ⟨c, hc, h⟩ := h
    split at h
    · cases h
      simp only [varsP]
      exact List.nil_subset _
    · cases h
      exact covN_vars b c hc
  · obtain ⟨items, rfl⟩ := isCompound_elim hc
    cases items with
    | none =>
      simp only [covBody, pure_eq_ok, Except.ok.injEq, Prod.mk.injEq] at h
      rw [← h.2]; exact List.Subset.refl _
    | some l =>
      simp only [covBody, bind_eq_ok, pure_eq_ok, Except.ok.injEq] at h
      obtain ⟨a, ha, h⟩ := h
      cases h
      simpa only [varsP] using covList_vars l a.1 a.2 ha
termination_by (sizeOf b, 1)
end

/-! ### the removal pass cannot create an effect -/

theorem or_true_of {a b a' b' : Bool} (h1 : a' = true → a = true) (h2 : b' = true → b = true)
    (h : (a' || b') = true) : (a || b) = true := by
  cases a' <;> cases b' <;> simp_all

mutual
theorem covN_hasEffect : (n : Node) → ∀ c, covN n = .ok c → hasEffect c.mod = true →
    hasEffect n = true
  | .id _ | .const .. | .brk | .cont | .empty | .typeDecl | .ternary .. | .arrayRef ..
  | .switch .. | .goto _ | .funcCall .. | .binop .. | .other .. | .funcDecl _
  | .compound none | .ret none => by
    intro c h
    simp only [covN, pure_eq_ok, Except.ok.injEq] at h
    subst h
    first | exact id | (split <;> exact id)
  | .decl .. => by
    intro c h
    simp only [covN_decl, Except.ok.injEq] at h
    subst h; exact id
  | .assign .. => by
    intro _ _ _
    simp only [hasEffect]
  | .cast e => by
    intro c h
    simp only [covN_cast, bind_eq_ok, Except.ok.injEq] at h
    obtain ⟨a, ha, rfl⟩ := h
    simpa only [hasEffect] using covN_hasEffect e a ha
  | .label _ e => by
    intro c h
    simp only [covN, bind_eq_ok, pure_eq_ok, Except.ok.injEq] at h
    obtain ⟨a, ha, rfl⟩ := h
    simpa only [hasEffect] using covN_hasEffect e a ha
  | .ret (some e) => by
    intro c h
    simp only [covN] at h
    split at h
    · simp only [pure_eq_ok, Except.ok.injEq] at h; subst h; exact id
    simp only [bind_eq_ok, pure_eq_ok, Except.ok.injEq] at h
    obtain ⟨a, ha, rfl⟩ := h
    simpa only [hasEffect, hasEffectO] using covN_hasEffect e a ha
  | .unop op e => by
    intro c h
    rw [covN_unop] at h
    split at h
    · simp only [bind_eq_ok, Except.ok.injEq] at h
      obtain ⟨a, ha, rfl⟩ := h
      simp only [hasEffect]
      exact or_true_of id (covN_hasEffect e a ha)
    · cases h; exact id
  | .case_ x l => by
    intro c h
    simp only [covN, bind_eq_ok, pure_eq_ok, Except.ok.injEq] at h
    obtain ⟨a, ha, rfl⟩ := h
    simp only [hasEffect]
    exact or_true_of id (covList_hasEffect l a.1 a.2 ha)
  | .default_ l | .compound (some l) | .declList l | .exprList l | .paramList l => by
    intro c h
    simp only [covN, bind_eq_ok, pure_eq_ok, Except.ok.injEq] at h
    obtain ⟨a, ha, rfl⟩ := h
    simpa only [hasEffect] using covList_hasEffect l a.1 a.2 ha
  | .while_ _ b | .doWhile _ b => by
    intro c h
    simp only [covN] at h
    split at h
    · simp only [pure_eq_ok, Except.ok.injEq] at h; subst h; exact id
    simp only [bind_eq_ok, pure_eq_ok, Except.ok.injEq] at h
    obtain ⟨a, ha, rfl⟩ := h
    simp only [hasEffect]
    exact or_true_of id (covBody_hasEffect b a.1 a.2 ha)
  | .for_ init cond next b => by
    intro c h
    rw [covN_for] at h
    split at h
    · simp only [bind_eq_ok, Except.ok.injEq] at h
      obtain ⟨a, ha, rfl⟩ := h
      simp only [hasEffect]
      exact or_true_of id (covBody_hasEffect b a.1 a.2 ha)
    · cases h; exact id
  | .ifs _ t f => by
    intro c h
    simp only [covN] at h
    split at h
    · simp only [pure_eq_ok, Except.ok.injEq] at h; subst h; exact id
    simp only [bind_eq_ok, pure_eq_ok, Except.ok.injEq] at h
    obtain ⟨a, ha, b, hb, rfl⟩ := h
    simp only [hasEffect]
    exact or_true_of (or_true_of id (covSlot_hasEffect t a.1 a.2 ha))
      (covSlot_hasEffect f b.1 b.2 hb)
  | .funcDef d b => by
    intro c h
    cases d with
    | decl nm ty i =>
      cases ty with
      | funcDecl oa =>
        cases oa with
        | some a =>
          rw [covN_funcDef_some] at h
          obtain ⟨ca, cb, ha, hua, hb, hub, rfl⟩ := h
          simp only [hasEffect, hasEffectO]
          exact or_true_of (or_true_of (covN_hasEffect a ca ha) id) (covN_hasEffect b cb hb)
        | none =>
          rw [covN_funcDef_other _ _ _ (by intro _ _ _ h; cases h)] at h
          obtain ⟨cb, hb, hub, rfl⟩ := h
          simp only [hasEffect]
          exact or_true_of id (covN_hasEffect b cb hb)
      | _ =>
        rw [covN_funcDef_other _ _ _ (by intro _ _ _ h; cases h)] at h
        obtain ⟨cb, hb, hub, rfl⟩ := h
        simp only [hasEffect]
        exact or_true_of id (covN_hasEffect b cb hb)
    | _ =>
      rw [covN_funcDef_other _ _ _ (by intro _ _ _ h; cases h)] at h
      obtain ⟨cb, hb, hub, rfl⟩ := h
      simp only [hasEffect]
      exact or_true_of id (covN_hasEffect b cb hb)
termination_by n => (sizeOf n, 0)
theorem covList_hasEffect : (l : List Node) → ∀ k l', covList l = .ok (k, l') →
    hasEffectL l' = true → hasEffectL l = true
  | [] => by
    intro k l' h
    simp only [covList, pure_eq_ok, Except.ok.injEq, Prod.mk.injEq] at h
    rw [← h.2]; exact id
  | n :: ns => by
    intro k l' h
    simp only [covList, bind_eq_ok, pure_eq_ok, Except.ok.injEq] at h
    obtain ⟨c, hc, r, hr, h⟩ := h
    have h2 := covList_hasEffect ns r.1 r.2 hr
    split at h
    · cases h
      simp only [hasEffectL]
      intro hh; rw [h2 hh]; exact Bool.or_true _
    · cases h
      simp only [hasEffectL]
      exact or_true_of (covN_hasEffect n c hc) h2
termination_by l => (sizeOf l, 0)
theorem covSlot_hasEffect : (o : Option Node) → ∀ k o', covSlot o = .ok (k, o') →
    hasEffectO o' = true → hasEffectO o = true
  | none => by
    intro k l' h
    simp only [covSlot, pure_eq_ok, Except.ok.injEq, Prod.mk.injEq] at h
    rw [← h.2]; exact id
  | some n => by
    intro k l' h
    simp only [covSlot, bind_eq_ok, pure_eq_ok, Except.ok.injEq] at h
    obtain ⟨c, hc, h⟩ := h
    split at h
    · cases h
      simp only [hasEffectO, hasEffect]
      intro hh; cases hh
    · cases h
      simp only [hasEffectO]
      exact covN_hasEffect n c hc
termination_by o => (sizeOf o, 0)
theorem covBody_hasEffect (b : Node) :
    ∀ k b', covBody b = .ok (k, b') → hasEffect b' = true → hasEffect b = true := by
  intro k b' h
  cases hc : b.isCompound
  · rw [covBody_nc b hc] at h
    simp only [bind_eq_ok, Except.ok.injEq] at h
    obtain ⟨c, hc, h⟩ := h
    split at h
    · cases h
      simp only [hasEffect]
      intro hh; cases hh
    · cases h
      exact covN_hasEffect b c hc
  · obtain ⟨items, rfl⟩ := isCompound_elim hc
    cases items with
    | none =>
      simp only [covBody, pure_eq_ok, Except.ok.injEq, Prod.mk.injEq] at h
      rw [← h.2]; exact id
    | some l =>
      simp only [covBody, bind_eq_ok, pure_eq_ok, Except.ok.injEq] at h
      obtain ⟨a, ha, h⟩ := h
      cases h
      simpa only [hasEffect] using covList_hasEffect l a.1 a.2 ha
termination_by (sizeOf b, 1)
end

/-! ### (C07, part 2) after the removal pass everything left is supported -/

theorem allowRhs_congr {a b : Node} (h : a.ctorIdx = b.ctorIdx) : allowRhs a = allowRhs b := by
  simp only [allowRhs, isBinop_ctorIdx, isConst_ctorIdx, isId_ctorIdx, isUnop_ctorIdx, h]

theorem rmCast_nc (n : Node) (h : n.isCast = false) : n.rmCast = n := by
  cases n
  case cast => cases h
  all_goals rfl

/-- the removal pass keeps the class of a node under its casts -/
theorem covN_rmCast_ctorIdx (e : Node) :
    ∀ a, covN e = .ok a → a.mod.rmCast.ctorIdx = e.rmCast.ctorIdx := by
  intro a h
  by_cases hc : e.isCast = true
  · cases e with
    | cast e' =>
      simp only [covN_cast, bind_eq_ok, Except.ok.injEq] at h
      obtain ⟨a', ha', rfl⟩ := h
      simp only [Node.rmCast]
      exact covN_rmCast_ctorIdx e' a' ha'
    | _ => cases hc
  · have hc : e.isCast = false := by simpa using hc
    have hi := covN_ctorIdx e a h
    have h1 : a.mod.isCast = false := by rw [isCast_ctorIdx, hi, ← isCast_ctorIdx]; exact hc
    rw [rmCast_nc _ h1, rmCast_nc _ hc]; exact hi

theorem isCompound_congr {a b : Node} (h : a.ctorIdx = b.ctorIdx) :
    a.isCompound = b.isCompound := by
  simp only [isCompound_ctorIdx, h]

/-- the operator of a unary operation -/
def unopOp? : Node → Option String
  | .unop op _ => some op
  | _ => none

theorem nestedOk_eq (op : String) (m : Node) :
    nestedOk op m = match unopOp? m with
      | some op' => (op == "!" || op == "sizeof") && !Gen.incDec.contains op'
      | none => false := by
  cases m <;> rfl

theorem unopOp?_of_not_unop {m : Node} (h : m.isUnop = false) : unopOp? m = none := by
  cases m
  case unop => cases h
  all_goals rfl

/-- the removal pass keeps the operator of a unary operation, also under casts -/
theorem covN_rmCast_unopOp (e : Node) :
    ∀ a, covN e = .ok a → unopOp? a.mod.rmCast = unopOp? e.rmCast := by
  intro a h
  cases e with
  | cast e' =>
    simp only [covN_cast, bind_eq_ok, Except.ok.injEq] at h
    obtain ⟨a', ha', rfl⟩ := h
    simp only [Node.rmCast]
    exact covN_rmCast_unopOp e' a' ha'
  | unop op e' =>
    rw [covN_unop] at h
    split at h
    · simp only [bind_eq_ok, Except.ok.injEq] at h
      obtain ⟨a', _, rfl⟩ := h
      rfl
    · cases h; rfl
  | _ =>
    have hi := covN_ctorIdx _ a h
    have h1 : a.mod.isCast = false := by rw [isCast_ctorIdx, hi]; rfl
    have h2 : a.mod.isUnop = false := by rw [isUnop_ctorIdx, hi]; rfl
    rw [rmCast_nc _ h1, unopOp?_of_not_unop h2]
    rfl

theorem unopArg_mod (op : String) (e : Node) (a : Cov) (h : covN e = .ok a) :
    (a.mod.rmCast.isId || a.mod.rmCast.isConst || nestedOk op a.mod.rmCast) =
      (e.rmCast.isId || e.rmCast.isConst || nestedOk op e.rmCast) := by
  rw [nestedOk_eq, nestedOk_eq, covN_rmCast_unopOp e a h, isId_ctorIdx, isConst_ctorIdx,
    isId_ctorIdx e.rmCast, isConst_ctorIdx e.rmCast, covN_rmCast_ctorIdx e a h]

theorem allowRhs_mod (r : Node) (c : Cov) (h : covN r = .ok c) :
    allowRhs c.mod.rmCast = allowRhs r.rmCast :=
  allowRhs_congr (covN_rmCast_ctorIdx r c h)

theorem cov_leaf (n : Node) (c : Cov) (h : covN n = .ok c) (hm : c.mod = n) (hi : c.inner = 0)
    (hu : c.up = 0) : covN c.mod = .ok ⟨0, 0, c.mod⟩ := by
  rw [hm, h]
  cases c
  simp only at hm hi hu
  subst hm hi hu
  rfl

mutual
theorem covN_mod_full :
    (n : Node) → ∀ c, covN n = .ok c → c.up = 0 → covN c.mod = .ok ⟨0, 0, c.mod⟩
  | .id _ | .const .. | .brk | .cont | .empty | .typeDecl | .ternary .. | .arrayRef ..
  | .switch .. | .goto _ | .funcCall .. | .binop .. | .other .. | .funcDecl _
  | .compound none | .ret none => by
    intro c h0 hu
    have h := h0
    simp only [covN, pure_eq_ok, Except.ok.injEq] at h
    refine cov_leaf _ c h0 ?_ ?_ hu <;> subst h <;> first | rfl | (split <;> rfl)
  | .decl .. => by
    intro c h0 hu
    have h := h0
    simp only [covN_decl, Except.ok.injEq] at h
    refine cov_leaf _ c h0 ?_ ?_ hu <;> subst h <;> rfl
  | .cast e => by
    intro c h hu
    simp only [covN_cast, bind_eq_ok, Except.ok.injEq] at h
    obtain ⟨a, ha, rfl⟩ := h
    simp only [covN_cast, covN_mod_full e a ha hu, ok_bind]
  | .label _ e => by
    intro c h hu
    simp only [covN, bind_eq_ok, pure_eq_ok, Except.ok.injEq] at h
    obtain ⟨a, ha, rfl⟩ := h
    simp only [covN, covN_mod_full e a ha hu, ok_bind, pure_eq_ok]
  | .ret (some e) => by
    intro c h hu
    simp only [covN] at h
    split at h
    · simp only [pure_eq_ok, Except.ok.injEq] at h; subst h; cases hu
    rename_i hc
    simp only [bind_eq_ok, pure_eq_ok, Except.ok.injEq] at h
    obtain ⟨a, ha, rfl⟩ := h
    have hm : hasEffect a.mod = false := by
      cases hm : hasEffect a.mod
      · rfl
      · exact absurd (covN_hasEffect e a ha hm) hc
    simp only [covN, hm, Bool.false_eq_true, if_false, covN_mod_full e a ha hu, ok_bind,
      pure_eq_ok]
  | .unop op e => by
    intro c h hu
    rw [covN_unop] at h
    split at h
    · rename_i hc
      simp only [bind_eq_ok, Except.ok.injEq] at h
      obtain ⟨a, ha, rfl⟩ := h
      rw [← unopArg_mod op e a ha] at hc
      simp only [covN_unop, hc, if_true, covN_mod_full e a ha hu, ok_bind]
    · cases h; cases hu
  | .assign op l r => by
    intro c h hu
    rw [covN_assign] at h
    split at h
    · cases h; cases hu
    · rename_i hc
      simp only [bind_eq_ok, Except.ok.injEq] at h
      obtain ⟨a, ha, rfl⟩ := h
      rw [← allowRhs_mod r a ha] at hc
      simp only [covN_assign, hc, Bool.false_eq_true, if_false, covN_mod_full r a ha hu, ok_bind]
  | .case_ _ l | .default_ l | .compound (some l) | .declList l | .exprList l | .paramList l => by
    intro c h _
    simp only [covN, bind_eq_ok, pure_eq_ok, Except.ok.injEq] at h
    obtain ⟨a, ha, rfl⟩ := h
    simp only [covN, covList_mod_full l a.1 a.2 ha, ok_bind, pure_eq_ok]
  | .while_ _ b | .doWhile _ b => by
    intro c h hu
    simp only [covN] at h
    split at h
    · simp only [pure_eq_ok, Except.ok.injEq] at h; subst h; cases hu
    rename_i hc
    simp only [bind_eq_ok, pure_eq_ok, Except.ok.injEq] at h
    obtain ⟨a, ha, rfl⟩ := h
    simp only [covN, hc, covBody_mod_full b a.1 a.2 ha, ok_bind, pure_eq_ok]
    rfl
  | .for_ init cond next b => by
    intro c h hu
    rw [covN_for] at h
    split at h
    · rename_i hl
      simp only [bind_eq_ok, Except.ok.injEq] at h
      obtain ⟨a, ha, rfl⟩ := h
      have hs := covBody_vars b a.1 a.2 ha
      simp only [covN_for, lcP_mono init cond next b a.2 hs hl, hl, if_true,
        covBody_mod_full b a.1 a.2 ha, ok_bind]
    · cases h; cases hu
  | .ifs _ t f => by
    intro c h hu
    simp only [covN] at h
    split at h
    · simp only [pure_eq_ok, Except.ok.injEq] at h; subst h; cases hu
    rename_i hc
    simp only [bind_eq_ok, pure_eq_ok, Except.ok.injEq] at h
    obtain ⟨a, ha, b, hb, rfl⟩ := h
    simp only [covN, hc, covSlot_mod_full t a.1 a.2 ha, covSlot_mod_full f b.1 b.2 hb,
      ok_bind, pure_eq_ok]
    rfl
  | .funcDef d b => by
    intro c h _
    cases d with
    | decl nm ty i =>
      cases ty with
      | funcDecl oa =>
        cases oa with
        | some a =>
          rw [covN_funcDef_some] at h
          obtain ⟨ca, cb, ha, hua, hb, hub, rfl⟩ := h
          rw [covN_funcDef_some]
          exact ⟨_, _, covN_mod_full a ca ha hua, rfl, covN_mod_full b cb hb hub, rfl, rfl⟩
        | none =>
          rw [covN_funcDef_other _ _ _ (by intro _ _ _ h; cases h)] at h
          obtain ⟨cb, hb, hub, rfl⟩ := h
          rw [covN_funcDef_other _ _ _ (by intro _ _ _ h; cases h)]
          exact ⟨_, covN_mod_full b cb hb hub, rfl, rfl⟩
      | _ =>
        rw [covN_funcDef_other _ _ _ (by intro _ _ _ h; cases h)] at h
        obtain ⟨cb, hb, hub, rfl⟩ := h
        rw [covN_funcDef_other _ _ _ (by intro _ _ _ h; cases h)]
        exact ⟨_, covN_mod_full b cb hb hub, rfl, rfl⟩
    | _ =>
      rw [covN_funcDef_other _ _ _ (by intro _ _ _ h; cases h)] at h
      obtain ⟨cb, hb, hub, rfl⟩ := h
      rw [covN_funcDef_other _ _ _ (by intro _ _ _ h; cases h)]
      exact ⟨_, covN_mod_full b cb hb hub, rfl, rfl⟩
termination_by n => (sizeOf n, 0)
theorem covList_mod_full :
    (l : List Node) → ∀ k l', covList l = .ok (k, l') → covList l' = .ok (0, l')
  | [] => by
    intro k l' h
    simp only [covList, pure_eq_ok, Except.ok.injEq, Prod.mk.injEq] at h
    rw [← h.2]; simp only [covList]; rfl
  | n :: ns => by
    intro k l' h
    simp only [covList, bind_eq_ok, pure_eq_ok, Except.ok.injEq] at h
    obtain ⟨c, hc, r, hr, h⟩ := h
    have h2 := covList_mod_full ns r.1 r.2 hr
    split at h
    · cases h; exact h2
    · cases h
      simp only [covList, covN_mod_full n c hc (by omega), h2, ok_bind]
      rfl
termination_by l => (sizeOf l, 0)
theorem covSlot_mod_full :
    (o : Option Node) → ∀ k o', covSlot o = .ok (k, o') → covSlot o' = .ok (0, o')
  | none => by
    intro k l' h
    simp only [covSlot, pure_eq_ok, Except.ok.injEq, Prod.mk.injEq] at h
    rw [← h.2]; simp only [covSlot]; rfl
  | some n => by
    intro k l' h
    simp only [covSlot, bind_eq_ok, pure_eq_ok, Except.ok.injEq] at h
    obtain ⟨c, hc, h⟩ := h
    split at h
    · cases h
      simp only [covSlot, covN]; rfl
    · cases h
      simp only [covSlot, covN_mod_full n c hc (by omega), ok_bind]
      rfl
termination_by o => (sizeOf o, 0)
theorem covBody_mod_full (b : Node) :
    ∀ k b', covBody b = .ok (k, b') → covBody b' = .ok (0, b') := by
  intro k b' h
  cases hc : b.isCompound
  · rw [covBody_nc b hc] at h
    simp only [bind_eq_ok, Except.ok.injEq] at h
    obtain ⟨c, hcv, h⟩ := h
    split at h
    · cases h
      simp only [covBody, covN]; rfl
    · cases h
      have : c.mod.isCompound = false := by
        rw [isCompound_congr (covN_ctorIdx b c hcv)]; exact hc
      simp only [covBody_nc _ this, covN_mod_full b c hcv (by omega), ok_bind]
      rfl
  · obtain ⟨items, rfl⟩ := isCompound_elim hc
    cases items with
    | none =>
      simp only [covBody, pure_eq_ok, Except.ok.injEq, Prod.mk.injEq] at h
      rw [← h.2]; simp only [covBody]; rfl
    | some l =>
      simp only [covBody, bind_eq_ok, pure_eq_ok, Except.ok.injEq] at h
      obtain ⟨a, ha, h⟩ := h
      cases h
      simp only [covBody, covList_mod_full l a.1 a.2 ha, ok_bind, pure_eq_ok]
termination_by (sizeOf b, 1)
end

/-! ### (C07) the statements about `coverage` -/

theorem coverage_inv (n m : Node) (k : Nat) (h : coverage n = .ok (k, m)) :
    ∃ c, covN n = .ok c ∧ c.up = 0 ∧ c.inner = k ∧ c.mod = m := by
  simp only [coverage, bind_eq_ok, throw_eq, pure_eq_ok] at h
  obtain ⟨c, hc, h⟩ := h
  split at h
  · cases h
  · cases h
    exact ⟨c, hc, by omega, rfl, rfl⟩

/-- a fully supported tree is left untouched by the removal pass -/
theorem coverage_full_untouched (n m : Node) (h : coverage n = .ok (0, m)) : m = n := by
  obtain ⟨c, hc, hu, hi, rfl⟩ := coverage_inv n m 0 h
  exact covN_untouched n c hc hu hi

/-- after the removal pass the syntax check is satisfied and a second pass changes nothing -/
theorem coverage_mod_full (n m : Node) (k : Nat) (h : coverage n = .ok (k, m)) :
    coverage m = .ok (0, m) := by
  obtain ⟨c, hc, hu, _, rfl⟩ := coverage_inv n m k h
  simp only [coverage, covN_mod_full n c hc hu, ok_bind]
  rfl

end Mwp
