/-
  Refinement with loops, part 4a: `Relation.loop_correction` cell by cell under a WEAKER column
  hypothesis than `Relation.loopCorrection_cells_scoped`: column `X` off the diagonal may contain
  ∞-monomials (the repaired matrix product copies the ∞-monomials of a row into every cell of that
  row, so inside nested loops column `X` does contain them); what matters is that it contains no
  `p`-monomial.  The proofs are those of `RelFix.walk_cells` and
  `Relation.loopCorrection_cells_scoped` with `hcol` weakened.
-/
import Mwp.Lemmas.RelFix
namespace Mwp.RelFix
open Mwp Mwp.Props.C16 Mwp.Lemmas.Poly

theorem filter_p_of_no_p {p : Poly} (h : ∀ m ∈ p, m.scalar ≠ .p) :
    p.filter (fun m => m.scalar == .p) = [] := by
  rw [List.filter_eq_nil_iff]
  intro m hm
  simpa using h m hm

theorem evalD_ne_p_of_no_p {p : Poly} (c : Choice) (h : ∀ m ∈ p, m.scalar ≠ .p) : p.evalD c ≠ .p := by
  intro e
  have hne : Poly.sumAll (Poly.matching p c) ≠ .o := by
    show p.evalD c ≠ .o
    rw [e]; simp
  have h2 := sumAll_mem hne
  change p.evalD c ∈ _ at h2
  rw [e] at h2
  obtain ⟨m, hm, _, hs⟩ := mem_matching.1 h2
  exact h m hm hs

theorem walk_cells' (r : Relation) (h : r.WF) (c : Choice) (ell : Nat) (hell : ell < r.vars.length)
    (hcol : ∀ i, i ≠ ell → ∀ m ∈ Matrix.get r.mat i ell, m.scalar ≠ .p)
    (g : DG.Graph) (res : Matrix × DG.Graph)
    (hw : (loopCells r.mat).foldlM (loopStep ell) (r.mat, g) = .ok res) :
    InvC r c ell (loopCells r.mat) res.1 := by
  have hsq := wf_sq h
  have hnd := nodup_loopCells r.mat
  refine foldlM_inv (loopStep ell) (fun pre s => InvC r c ell pre s.1) (loopCells r.mat) ?_
    (loopCells r.mat) [] (r.mat, g) res rfl ?_ hw
  · -- one step
    intro pre x post s s' htot hinv hstep
    obtain ⟨mat, g1⟩ := s
    obtain ⟨i, j⟩ := x
    have hxm : (i, j) ∈ loopCells r.mat := by rw [htot]; simp
    obtain ⟨hi, hj⟩ := (mem_loopCells hsq i j).1 hxm
    have hnp : (i, j) ∉ pre := not_mem_pre hnd htot
    obtain ⟨s1, s2, _⟩ := loopStep_spec hinv.sq hi hj hell g1 s' hstep
    simp only at hinv ⊢
    refine ⟨s1, ?_, ?_, ?_⟩
    · -- diagonal cells
      intro a ha
      rw [s2, stepCell]
      by_cases hij : i = j
      · subst hij
        by_cases hai : a = i
        · subst hai
          rw [if_pos ⟨rfl, rfl, rfl⟩, if_pos (by simp), hinv.diag a ha, if_neg hnp]
        · rw [if_neg (fun hh => hai hh.1), if_neg (fun hh => hh.2.2 rfl), hinv.diag a ha]
          have : (a, a) ∈ pre ++ [(i, i)] ↔ (a, a) ∈ pre := by
            simp [hai]
          simp only [this]
      · rw [if_neg (fun hh => hij hh.2.2)]
        have hmem : (a, a) ∈ pre ++ [(i, j)] ↔ (a, a) ∈ pre := by
          simp only [List.mem_append, List.mem_singleton, Prod.mk.injEq]
          constructor
          · rintro (hh | ⟨h1, h2⟩)
            · exact hh
            · exact absurd (h1.symm.trans h2) hij
          · exact Or.inl
        split
        · rename_i hab
          -- (ell, ell) would receive the `p` monomials of (i, ell): there are none
          obtain ⟨hae, haj, _⟩ := hab
          subst haj
          subst hae
          have hio : Matrix.get mat i a = Matrix.get r.mat i a := hinv.other i a hij hij
          rw [hio, filter_p_of_no_p (hcol i hij)]
          show Matrix.get mat a a = _
          rw [hinv.diag a ha]
          simp only [hmem]
        · rw [hinv.diag a ha]
          simp only [hmem]
    · -- cells outside row `ell`, off the diagonal
      intro a b hae hab
      rw [s2, stepCell, if_neg (fun hh => hab (hh.1.trans (hh.2.2.trans hh.2.1.symm))),
        if_neg (fun hh => hae hh.1)]
      exact hinv.other a b hae hab
    · -- row `ell`
      intro b hbe
      rw [s2, stepCell, if_neg (fun hh => hbe (hh.2.1.trans (hh.2.2.symm.trans hh.1.symm))),
        contrib_append]
      by_cases hsec : b = j ∧ i ≠ j
      · obtain ⟨hbj, hij⟩ := hsec
        subst hbj
        rw [if_pos ⟨rfl, rfl, hij⟩,
          (addMonos_spec _ (WF_filter' _ _ (hinv.sq.get_wf i b)) c _ (hinv.sq.get_wf ell b)).2]
        by_cases hie : i = ell
        · subst hie
          have : (((i, b) : Nat × Nat).2 == b && ((i, b) : Nat × Nat).1 != b &&
              ((i, b) : Nat × Nat).1 != i) = false := by simp
          rw [this]
          simp only [Bool.false_eq_true, if_false]
          have hk := evalD_add_kap c (Matrix.get mat i b)
          unfold kap at hk
          rw [hk]
          exact hinv.rowl b hbe
        · have : (((i, b) : Nat × Nat).2 == b && ((i, b) : Nat × Nat).1 != b &&
              ((i, b) : Nat × Nat).1 != ell) = true := by simp [hij, hie]
          rw [this, if_pos rfl, sumAll_append, hinv.rowl b hbe, hinv.other i b hie hij, sumAll_cons,
            sumAll_nil, sum_zero_right, sum_assoc]
          rfl
      · rw [if_neg (fun hh => hsec ⟨hh.2.1, hh.2.2⟩)]
        have : (((i, j) : Nat × Nat).2 == b && ((i, j) : Nat × Nat).1 != b &&
            ((i, j) : Nat × Nat).1 != ell) = false := by
          by_cases hbj : b = j
          · have hij : i = j := Classical.byContradiction fun hne => hsec ⟨hbj, hne⟩
            subst hbj; subst hij; simp
          · have : ¬ j = b := fun e => hbj e.symm
            simp [this]
        rw [this]
        simp only [Bool.false_eq_true, if_false]
        exact hinv.rowl b hbe
  · -- initially
    exact ⟨hsq, fun a _ => by simp, fun _ _ _ _ => rfl, fun b _ => by
      simp [contrib, sumAll_nil, sum_zero_right]⟩

end Mwp.RelFix

namespace Mwp
open RelFix Mwp.Props.C16 Mwp.Lemmas.Poly

open Classical in
/-- `loop_correction`, cell by cell.  Clause (1) of the statement as first asked is FALSE when a
    diagonal cell has no term at all at `c` (value `o ≠ m`, yet nothing is rewritten); here the
    first disjunct of (1) carries the extra condition `eval? c ≠ none` for that diagonal cell. -/
theorem Relation.loopCorrection_cells_scoped' (r r' : Relation) (g g' : DG.Graph) (x : String)
    (h : r.WF) (hx : x ∈ r.vars)
    (hcanon : ∀ row ∈ r.mat, ∀ p ∈ row, (1 < p.length → ∀ m ∈ p, m.scalar ≠ .o))
    (hcol : ∀ i, i ≠ r.vars.idxOf x → ∀ m ∈ Matrix.get r.mat i (r.vars.idxOf x), m.scalar ≠ .p)
    (hl : Relation.loopCorrection r x g = .ok (r', g')) (c : Choice) :
    r'.vars = r.vars ∧ r'.WF ∧
    ((∃ i, i < r.vars.length ∧ (Matrix.get r.mat i i).evalD c ≠ .m ∧
          (Matrix.get r.mat i i).eval? c ≠ none) ∨
        (∃ i j, (Matrix.get r.mat i j).evalD c = .i)
        → ∃ i j, (Matrix.get r'.mat i j).evalD c = .i) ∧
    ((∀ i, i < r.vars.length → (Matrix.get r.mat i i).evalD c = .m) →
      (∀ i j, (Matrix.get r.mat i j).evalD c ≠ .i) →
      ∀ i j, i < r.vars.length → j < r.vars.length →
        (Matrix.get r'.mat i j).evalD c =
          if i = r.vars.idxOf x ∧ (∃ i', i' < r.vars.length ∧ (Matrix.get r.mat i' j).evalD c = .p)
          then (Matrix.get r.mat i j).evalD c + .p else (Matrix.get r.mat i j).evalD c) := by
  obtain ⟨mat', _, e, hwalk⟩ := loopCorrection_walk r r' g g' x hl
  subst e
  have hell : r.vars.idxOf x < r.vars.length := List.idxOf_lt_length_of_mem hx
  have hsq := wf_sq h
  have inv := walk_cells' r h c (r.vars.idxOf x) hell hcol g (mat', g') hwalk
  simp only at inv
  generalize r.vars.idxOf x = ell at *
  have hmem : ∀ a b, a < r.vars.length → b < r.vars.length → (a, b) ∈ loopCells r.mat :=
    fun a b ha hb => (mem_loopCells hsq a b).2 ⟨ha, hb⟩
  have hdiag' : ∀ a, a < r.vars.length →
      Matrix.get mat' a a = (Matrix.get r.mat a a).map (lfix true) := by
    intro a ha
    rw [inv.diag a ha, if_pos (hmem a a ha ha)]
  refine ⟨rfl, ⟨h.1, h.2.1, inv.sq.len, inv.sq.rows, inv.sq.wf⟩, ?_, ?_⟩
  · -- (1) failure is ∞
    show _ → ∃ i j, (Matrix.get mat' i j).evalD c = .i
    rintro (⟨i, hi, hne, hsup⟩ | ⟨i, j, hinf⟩)
    · obtain ⟨m0, hm0, hmatch0⟩ := exists_matching_of_eval? hsup
      by_cases hall : ∀ m ∈ Matrix.get r.mat i i, m.matchesC c = true → m.scalar = .m
      · exfalso
        apply hne
        apply sumAll_all_m
        · intro hnil
          have : m0.scalar ∈ Poly.matching (Matrix.get r.mat i i) c :=
            mem_matching.2 ⟨m0, hm0, hmatch0, rfl⟩
          rw [hnil] at this
          cases this
        · intro s hs
          obtain ⟨m, hm, h1, h2⟩ := mem_matching.1 hs
          rw [← h2]; exact hall m hm h1
      · have hex : ∃ m ∈ Matrix.get r.mat i i, m.matchesC c = true ∧ m.scalar ≠ .m := by
          apply Classical.byContradiction
          intro hno
          apply hall
          intro m hm h1
          apply Classical.byContradiction
          intro h2
          exact hno ⟨m, hm, h1, h2⟩
        obtain ⟨m, hm, h1, h2⟩ := hex
        refine ⟨i, i, ?_⟩
        rw [hdiag' i hi]
        apply evalD_eq_i_of_mem (m := lfix true m) (List.mem_map.2 ⟨m, hm, rfl⟩)
        · rw [lfix_matches]; exact h1
        · rw [lfix_true_scalar, if_neg h2]
    · have hr : i < r.vars.length ∧ j < r.vars.length := by
        apply Classical.byContradiction
        intro hno
        rw [get_out_of_range hsq hno, evalD_zero] at hinf
        cases hinf
      refine ⟨i, j, ?_⟩
      by_cases hij : i = j
      · subst hij
        rw [hdiag' i hr.1]
        exact evalD_map_lfix_i hinf
      · by_cases hie : i = ell
        · subst hie
          have hje : j ≠ i := fun e => hij e.symm
          rw [inv.rowl j hje, hinf]
          exact (infty_absorbs_sum _).1
        · rw [inv.other i j hie hij]
          exact hinf
  · -- (2) otherwise: row `ell` receives `p` wherever a column has one
    intro hd hfin a b ha hb
    show (Matrix.get mat' a b).evalD c = _
    -- all matching monomials of a diagonal cell have scalar `m`
    have hmatchm : ∀ a, a < r.vars.length → ∀ m ∈ Matrix.get r.mat a a,
        m.matchesC c = true → m.scalar = .m := by
      intro a ha m hm h1
      have hV := hd a ha
      have hs : m.scalar ∈ Poly.matching (Matrix.get r.mat a a) c := mem_matching.2 ⟨m, hm, h1, rfl⟩
      have habs := sumAll_absorb hs
      change m.scalar + (Matrix.get r.mat a a).evalD c = (Matrix.get r.mat a a).evalD c at habs
      rw [hV] at habs
      have hom : m.scalar = .o ∨ m.scalar = .m := by
        revert habs
        cases m.scalar <;> simp [Scalar.add_def, Gen.sumTable]
      rcases hom with ho | hm'
      · exfalso
        have hne : Poly.sumAll (Poly.matching (Matrix.get r.mat a a) c) ≠ .o := by
          show (Matrix.get r.mat a a).evalD c ≠ .o
          rw [hV]; simp
        have h2 := sumAll_mem hne
        change (Matrix.get r.mat a a).evalD c ∈ _ at h2
        rw [hV] at h2
        obtain ⟨m1, hm1, _, hs1⟩ := mem_matching.1 h2
        have hne' : m ≠ m1 := by
          intro e
          rw [e, hs1] at ho
          cases ho
        obtain ⟨row, hrow, hcell⟩ := get_mem hsq ha ha
        exact hcanon row hrow _ hcell (two_mem_length hm hm1 hne') m hm ho
      · exact hm'
    have hdiagV : ∀ a, a < r.vars.length →
        (Matrix.get mat' a a).evalD c = (Matrix.get r.mat a a).evalD c := by
      intro a ha
      rw [hdiag' a ha]
      exact evalD_map_lfix_of (hmatchm a ha)
    by_cases hae : a = ell
    · subst hae
      by_cases hbe : b = a
      · subst hbe
        have hno : ¬ (b = b ∧ ∃ i', i' < r.vars.length ∧ (Matrix.get r.mat i' b).evalD c = .p) := by
          rintro ⟨_, i', hi', hp⟩
          by_cases hib : i' = b
          · subst hib
            rw [hd i' hi'] at hp
            cases hp
          · exact evalD_ne_p_of_no_p c (hcol i' hib) hp
        rw [if_neg hno]
        exact hdiagV b hb
      · rw [inv.rowl b hbe]
        have hC : ∀ s ∈ contrib r c a b (loopCells r.mat), ∃ a', a' < r.vars.length ∧ a' ≠ b ∧
            a' ≠ a ∧ s = kap c (Matrix.get r.mat a' b) := by
          intro s hs
          unfold contrib at hs
          obtain ⟨y, hy, rfl⟩ := List.mem_map.1 hs
          obtain ⟨hy1, hy2⟩ := List.mem_filter.1 hy
          obtain ⟨y1, y2⟩ := y
          simp only [Bool.and_eq_true, beq_iff_eq, bne_iff_ne, ne_eq] at hy2
          obtain ⟨⟨e1, e2⟩, e3⟩ := hy2
          subst e1
          exact ⟨y1, ((mem_loopCells hsq y1 y2).1 hy1).1, e2, e3, rfl⟩
        have hCop : ∀ s ∈ contrib r c a b (loopCells r.mat), s = .o ∨ s = .p := by
          intro s hs
          obtain ⟨a', _, _, _, rfl⟩ := hC s hs
          exact kap_o_or_p c _
        by_cases hex : ∃ i', i' < r.vars.length ∧ (Matrix.get r.mat i' b).evalD c = .p
        · rw [if_pos ⟨rfl, hex⟩]
          obtain ⟨i', hi', hp⟩ := hex
          by_cases hia : i' = a
          · subst hia
            rw [hp]
            rcases sumAll_o_or_p hCop with e | e <;> rw [e] <;> rfl
          · have hib : i' ≠ b := by
              intro e
              subst e
              rw [hd i' hi'] at hp
              cases hp
            have hin : kap c (Matrix.get r.mat i' b) ∈ contrib r c a b (loopCells r.mat) := by
              unfold contrib
              apply List.mem_map.2
              refine ⟨(i', b), List.mem_filter.2 ⟨hmem i' b hi' hb, ?_⟩, rfl⟩
              simp [hib, hia]
            rw [kap_of_evalD_p hp] at hin
            have habs := sumAll_absorb hin
            have : Poly.sumAll (contrib r c a b (loopCells r.mat)) = .p := by
              rcases sumAll_o_or_p hCop with e | e
              · rw [e] at habs; cases habs
              · exact e
            rw [this]
        · rw [if_neg (fun hh => hex hh.2)]
          have : Poly.sumAll (contrib r c a b (loopCells r.mat)) = .o := by
            apply sumAll_all_o
            intro s hs
            obtain ⟨a', ha', _, _, rfl⟩ := hC s hs
            rcases kap_o_or_p c (Matrix.get r.mat a' b) with e | e
            · exact e
            · exfalso
              rcases evalD_of_kap_p e with e' | e'
              · exact hex ⟨a', ha', e'⟩
              · exact hfin a' b e'
          rw [this, sum_zero_right]
    · rw [if_neg (fun hh => hae hh.1)]
      by_cases hab : a = b
      · subst hab
        exact hdiagV a ha
      · rw [inv.other a b hae hab]

end Mwp
