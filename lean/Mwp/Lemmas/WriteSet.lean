/-
  Helpers for C13 (write set of the two loop corrections, shape of fixpoint cells) and C06
  (the corrections never raise under the delta-graph invariant).
-/
import Mwp.Lemmas.RelFix
import Mwp.Lemmas.DeltaGraph
import Mwp.Props.C09
namespace Mwp.WriteSet
open Mwp Mwp.RelFix Mwp.Lemmas.Poly

/-! ## totality of the while correction under the graph invariant -/

theorem whileFixPoly_total (diag : Bool) (p : Poly) (g : DG.Graph) (hg : DG.GInv g) :
    ∃ p' g', Relation.whileFixPoly diag p g = .ok (p', g') ∧ DG.GInv g' := by
  unfold Relation.whileFixPoly
  have key := DG.foldlM_total (ε := String)
    (fun (_ : List Mono) (st : List Mono × DG.Graph) => DG.GInv st.2)
    (fun (st : List Mono × DG.Graph) mon =>
      if mon.scalar == .p || (mon.scalar == .w && diag) then do
        let g' ← DG.insertNode st.2 mon.deltas
        pure (st.1 ++ [{ mon with scalar := .i }], g')
      else pure (st.1 ++ [mon], st.2)) ?_ p ([], g) hg
  · obtain ⟨⟨p', g'⟩, h1, h2⟩ := key
    exact ⟨p', g', h1, h2⟩
  · rintro ⟨acc, g1⟩ mon rest h1
    dsimp only at h1 ⊢
    split
    · obtain ⟨g2, hrun, hG2, _⟩ := DG.insertNode_total mon.deltas h1
      rw [hrun]
      exact ⟨_, rfl, hG2⟩
    · exact ⟨_, rfl, h1⟩

theorem whileCorrection_total (r : Relation) (g : DG.Graph) (hg : DG.GInv g) :
    ∃ r' g', Relation.whileCorrection r g = .ok (r', g') ∧ DG.GInv g' := by
  unfold Relation.whileCorrection
  have key := DG.foldlM_total (ε := String)
    (fun (_ : List (List Poly × Nat)) (st : List (List Poly) × DG.Graph) => DG.GInv st.2)
    (fun (st : List (List Poly) × DG.Graph) (ri : List Poly × Nat) => do
      let (cells, g) ← (ri.1.zipIdx).foldlM (init := (([] : List Poly), st.2))
        fun (st2 : List Poly × DG.Graph) (pj : Poly × Nat) => do
          let (p', g') ← Relation.whileFixPoly (ri.2 == pj.2) pj.1 st2.2
          pure (st2.1 ++ [p'], g')
      pure (st.1 ++ [cells], g)) ?_ r.mat.zipIdx ([], g) hg
  · obtain ⟨⟨rows, g'⟩, h1, h2⟩ := key
    refine ⟨{ r with mat := rows }, g', ?_, h2⟩
    have : (r.mat.zipIdx).foldlM (init := (([] : List (List Poly)), g))
        (fun (x : List (List Poly) × DG.Graph) (y : List Poly × Nat) =>
          match x, y with
          | (rows, g), (row, i) => do
            let (cells, g) ← (row.zipIdx).foldlM (init := (([] : List Poly), g))
              fun (x : List Poly × DG.Graph) (y : Poly × Nat) =>
                match x, y with
                | (cells, g), (p, j) => do
                  let (p', g') ← Relation.whileFixPoly (i == j) p g
                  pure (cells ++ [p'], g')
            pure (rows ++ [cells], g)) = .ok (rows, g') := h1
    rw [this]
    rfl
  · rintro ⟨rows, g1⟩ ⟨row, i⟩ rest h1
    dsimp only at h1 ⊢
    have key2 := DG.foldlM_total (ε := String)
      (fun (_ : List (Poly × Nat)) (st : List Poly × DG.Graph) => DG.GInv st.2)
      (fun (st2 : List Poly × DG.Graph) (pj : Poly × Nat) => do
          let (p', g') ← Relation.whileFixPoly (i == pj.2) pj.1 st2.2
          pure (st2.1 ++ [p'], g')) ?_ row.zipIdx ([], g1) h1
    · obtain ⟨⟨cells, g2⟩, h3, h4⟩ := key2
      rw [h3]
      exact ⟨_, rfl, h4⟩
    · rintro ⟨cells, g2⟩ ⟨p, j⟩ rest2 h2
      dsimp only at h2 ⊢
      obtain ⟨p', g3, h5, h6⟩ := whileFixPoly_total (i == j) p g2 h2
      rw [h5]
      exact ⟨_, rfl, h6⟩

end Mwp.WriteSet
