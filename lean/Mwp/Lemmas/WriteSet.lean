/-
  Helpers for C13 (write set of the two loop corrections, shape of fixpoint cells) and C06
  (the corrections never raise under the delta-graph invariant).
-/
import Mwp.Lemmas.RelFix
import Mwp.Lemmas.DeltaGraph
import Mwp.Props.C09
namespace Mwp.WriteSet
open Mwp Mwp.RelFix Mwp.Lemmas.Poly

/-! ## totality of the while correction under the graph invariant -/

theorem whileFixPoly_total (diag : Bool) (p : Poly) (g : DG.Graph) (hg : DG.GInv g) :
    ∃ p' g', Relation.whileFixPoly diag p g = .ok (p', g') ∧ DG.GInv g' := by
  unfold Relation.whileFixPoly
  have key := DG.foldlM_total (ε := String)
    (fun (_ : List Mono) (st : List Mono × DG.Graph) => DG.GInv st.2)
    (fun (st : List Mono × DG.Graph) mon =>
      if mon.scalar == .p || (mon.scalar == .w && diag) then do
        let g' ← DG.insertNode st.2 mon.deltas
        pure (st.1 ++ [{ mon with scalar := .i }], g')
      else pure (st.1 ++ [mon], st.2)) ?_ p ([], g) hg
  · obtain ⟨⟨p', g'⟩, h1, h2⟩ := key
    exact ⟨p', g', h1, h2⟩
  · rintro ⟨acc, g1⟩ mon rest h1
    dsimp only at h1 ⊢
    split
    · obtain ⟨g2, hrun, hG2, _⟩ := DG.insertNode_total mon.deltas h1
      rw [hrun]
      exact ⟨_, rfl, hG2⟩
    · exact ⟨_, rfl, h1⟩

theorem whileCorrection_total (r : Relation) (g : DG.Graph) (hg : DG.GInv g) :
    ∃ r' g', Relation.whileCorrection r g = .ok (r', g') ∧ DG.GInv g' := by
  unfold Relation.whileCorrection
  have key := DG.foldlM_total (ε := String)
    (fun (_ : List (List Poly × Nat)) (st : List (List Poly) × DG.Graph) => DG.GInv st.2)
    (fun (st : List (List Poly) × DG.Graph) (ri : List Poly × Nat) => do
      let (cells, g) ← (ri.1.zipIdx).foldlM (init := (([] : List Poly), st.2))
        fun (st2 : List Poly × DG.Graph) (pj : Poly × Nat) => do
          let (p', g') ← Relation.whileFixPoly (ri.2 == pj.2) pj.1 st2.2
          pure (st2.1 ++ [p'], g')
      pure (st.1 ++ [cells], g)) ?_ r.mat.zipIdx ([], g) hg
  · obtain ⟨⟨rows, g'⟩, h1, h2⟩ := key
    refine ⟨{ r with mat := rows }, g', ?_, h2⟩
    have : (r.mat.zipIdx).foldlM (init := (([] : List (List Poly)), g))
        (fun (x : List (List Poly) × DG.Graph) (y : List Poly × Nat) =>
          match x, y with
          | (rows, g), (row, i) => do
            let (cells, g) ← (row.zipIdx).foldlM (init := (([] : List Poly), g))
              fun (x : List Poly × DG.Graph) (y : Poly × Nat) =>
                match x, y with
                | (cells, g), (p, j) => do
                  let (p', g') ← Relation.whileFixPoly (i == j) p g
                  pure (cells ++ [p'], g')
            pure (rows ++ [cells], g)) = .ok (rows, g') := h1
    rw [this]
    rfl
  · rintro ⟨rows, g1⟩ ⟨row, i⟩ rest h1
    dsimp only at h1 ⊢
    have key2 := DG.foldlM_total (ε := String)
      (fun (_ : List (Poly × Nat)) (st : List Poly × DG.Graph) => DG.GInv st.2)
      (fun (st2 : List Poly × DG.Graph) (pj : Poly × Nat) => do
          let (p', g') ← Relation.whileFixPoly (i == pj.2) pj.1 st2.2
          pure (st2.1 ++ [p'], g')) ?_ row.zipIdx ([], g1) h1
    · obtain ⟨⟨cells, g2⟩, h3, h4⟩ := key2
      rw [h3]
      exact ⟨_, rfl, h4⟩
    · rintro ⟨cells, g2⟩ ⟨p, j⟩ rest2 h2
      dsimp only at h2 ⊢
      obtain ⟨p', g3, h5, h6⟩ := whileFixPoly_total (i == j) p g2 h2
      rw [h5]
      exact ⟨_, rfl, h6⟩

/-! ## write sets of the two monomial loops -/

theorem wpred_iff (diag : Bool) (m : Mono) :
    wpred diag m = true ↔ (m.scalar = .p ∨ (diag = true ∧ m.scalar = .w)) := by
  unfold wpred
  cases diag <;> cases m.scalar <;> decide

theorem lpred_iff (diag : Bool) (m : Mono) :
    lpred diag m = true ↔ (diag = true ∧ m.scalar ≠ .m) := by
  unfold lpred
  cases diag <;> cases m.scalar <;> decide

theorem wfix_ne (diag : Bool) (m : Mono) (h : wfix diag m ≠ m) :
    (m.scalar = .p ∨ (diag = true ∧ m.scalar = .w)) ∧ (wfix diag m).scalar = .i := by
  unfold wfix at h ⊢
  by_cases hp : wpred diag m = true
  · rw [if_pos hp]
    exact ⟨(wpred_iff diag m).1 hp, rfl⟩
  · rw [if_neg hp] at h
    exact absurd rfl h

theorem lfix_ne (diag : Bool) (m : Mono) (h : lfix diag m ≠ m) :
    diag = true ∧ m.scalar ≠ .m ∧ (lfix diag m).scalar = .i := by
  unfold lfix at h ⊢
  by_cases hp : lpred diag m = true
  · rw [if_pos hp]
    obtain ⟨h1, h2⟩ := (lpred_iff diag m).1 hp
    exact ⟨h1, h2, rfl⟩
  · rw [if_neg hp] at h
    exact absurd rfl h

theorem whileFixPoly_write_set (diag : Bool) (p p' : Poly) (g g' : DG.Graph)
    (h : Relation.whileFixPoly diag p g = .ok (p', g')) :
    p'.length = p.length ∧ ∀ k (hk : k < p.length) (hk' : k < p'.length),
      p'[k].deltas = p[k].deltas ∧
      (p'[k] ≠ p[k] →
        (p[k].scalar = .p ∨ (diag = true ∧ p[k].scalar = .w)) ∧ p'[k].scalar = .i) := by
  obtain ⟨e, _⟩ := whileFixPoly_spec diag p g (p', g') h
  simp only at e
  subst e
  refine ⟨List.length_map _, ?_⟩
  intro k hk hk'
  rw [List.getElem_map]
  exact ⟨wfix_deltas _ _, wfix_ne _ _⟩

theorem loopFixCell_write_set (diag : Bool) (p ell : Poly) (g : DG.Graph) (p' ell' : Poly)
    (g' : DG.Graph) (h : Relation.loopFixCell diag p ell g = .ok (p', ell', g')) :
    p'.length = p.length ∧ ∀ k (hk : k < p.length) (hk' : k < p'.length),
      p'[k].deltas = p[k].deltas ∧
      (p'[k] ≠ p[k] → diag = true ∧ p[k].scalar ≠ .m ∧ p'[k].scalar = .i) := by
  obtain ⟨e, _⟩ := loopFixCell_spec diag p ell g (p', ell', g') h
  simp only at e
  subst e
  refine ⟨List.length_map _, ?_⟩
  intro k hk hk'
  rw [List.getElem_map]
  exact ⟨lfix_deltas _ _, lfix_ne _ _⟩

/-! ## evaluation above `o` -/

theorem evalD_ne_o_iff (p : Poly) (c : Choice) :
    p.evalD c ≠ .o ↔ ∃ m ∈ p, m.matchesC c = true ∧ m.scalar ≠ .o := by
  induction p with
  | nil => simp [evalD_nil]
  | cons x t ih =>
    rw [evalD_cons]
    constructor
    · intro h
      by_cases hx : termAt x c = .o
      · have ht : Poly.evalD t c ≠ .o := by
          intro ht
          apply h
          rw [hx, ht]
          rfl
        obtain ⟨m, hm, h1, h2⟩ := ih.1 ht
        exact ⟨m, List.mem_cons_of_mem _ hm, h1, h2⟩
      · refine ⟨x, List.mem_cons_self .., ?_⟩
        unfold termAt at hx
        split at hx
        · rename_i hmc
          exact ⟨hmc, hx⟩
        · exact absurd rfl hx
    · rintro ⟨m, hm, h1, h2⟩ h
      obtain ⟨e1, e2⟩ := add_eq_o h
      rcases List.mem_cons.1 hm with rfl | hm
      · unfold termAt at e1
        rw [if_pos h1] at e1
        exact h2 e1
      · exact (ih.2 ⟨m, hm, h1, h2⟩) e2

/-- no zero alongside + a value above `o` somewhere = no zero at all -/
theorem no_o_of_NZA {p : Poly} (hn : NZA p) {c : Choice} (hv : p.evalD c ≠ .o) :
    ∀ m ∈ p, m.scalar ≠ .o := by
  by_cases hl : 1 < p.length
  · exact hn.2 hl
  · intro m hm hs
    obtain ⟨m', hm', _, h2⟩ := (evalD_ne_o_iff p c).1 hv
    match p, hl, hm, hm' with
    | [x], _, hm, hm' =>
      rw [List.mem_singleton] at hm hm'
      subst hm
      subst hm'
      exact h2 hs
    | [], _, hm, _ => cases hm
    | _ :: _ :: _, hl, _, _ => exact hl (by simp)

/-- the property of a diagonal cell that the loop correction keeps: no monomial carries `o`
    and the value is above `o` at every choice -/
def DiagOK (p : Poly) : Prop := (∀ m ∈ p, m.scalar ≠ .o) ∧ ∀ c, p.evalD c ≠ .o

theorem DiagOK.map_lfix {p : Poly} (h : DiagOK p) (d : Bool) : DiagOK (p.map (lfix d)) := by
  have hsc : ∀ m : Mono, m.scalar ≠ .o → (lfix d m).scalar ≠ .o := by
    intro m hm
    unfold lfix
    split
    · intro hh; cases hh
    · exact hm
  refine ⟨?_, ?_⟩
  · intro m hm
    obtain ⟨m0, hm0, rfl⟩ := List.mem_map.1 hm
    exact hsc m0 (h.1 m0 hm0)
  · intro c
    obtain ⟨m, hm, h1, h2⟩ := (evalD_ne_o_iff p c).1 (h.2 c)
    exact (evalD_ne_o_iff _ c).2 ⟨lfix d m, List.mem_map.2 ⟨m, hm, rfl⟩,
      by rw [lfix_matches]; exact h1, hsc m h2⟩

theorem add_ne_nil {p q : Poly} (hp : p ≠ []) (hq : q ≠ []) : NZA (Poly.add p q) :=
  NZA_add p q (fun h => absurd h hq) (fun h => absurd h hp)

theorem ne_nil_of_evalD {p : Poly} {c : Choice} (h : p.evalD c ≠ .o) : p ≠ [] := by
  rintro rfl
  exact h (evalD_nil c)

theorem DiagOK.addMonos {e : Poly} (h : DiagOK e) (he : e.WF = true) (ms : List Mono)
    (hms : Poly.WF ms = true) : DiagOK (addMonos e ms) ∧ Poly.WF (addMonos e ms) = true := by
  induction ms generalizing e with
  | nil => exact ⟨h, he⟩
  | cons x t ih =>
    rw [WF_cons] at hms
    have hx1 : Poly.WF [x.copy] = true := by
      rw [copy_of_WF hms.1, WF_cons]
      exact ⟨hms.1, rfl⟩
    have hw : Poly.WF (Poly.add e [x.copy]) = true := WF_add e [x.copy] he hx1
    have hv : ∀ c, (Poly.add e [x.copy]).evalD c ≠ .o := by
      intro c hc
      rw [evalD_add e [x.copy] c he hx1] at hc
      exact h.2 c (add_eq_o hc).1
    have hn := add_ne_nil (ne_nil_of_evalD (h.2 [])) (List.cons_ne_nil x.copy [])
    exact ih (e := Poly.add e [x.copy]) ⟨no_o_of_NZA hn (hv []), hv⟩ hw hms.2

/-! ## shape of fixpoint cells -/

theorem ofList_ne_nil (l : List Mono) : Poly.ofList l ≠ [] := by
  unfold Poly.ofList
  split
  · simp [Poly.zero]
  · rename_i h
    simpa [List.isEmpty_iff] using h

theorem foldl_add_ne_nil {α : Type} (l : List α) (f : α → Poly) (hf : ∀ x, f x ≠ []) (init : Poly)
    (hi : init ≠ []) : l.foldl (fun t x => Poly.add t (f x)) init ≠ [] := by
  induction l generalizing init with
  | nil => exact hi
  | cons x t ih =>
    rw [List.foldl_cons]
    exact ih _ (add_ne_nil hi (hf x)).1

theorem zero_ne_nil : Poly.zero ≠ [] := by simp [Poly.zero]

theorem prodCell_ne_nil (a b : Matrix) (i j : Nat) : Matrix.prodCell a b i j ≠ [] := by
  unfold Matrix.prodCell
  refine (add_ne_nil (add_ne_nil ?_ ?_).1 ?_).1
  · exact foldl_add_ne_nil _ _ (fun k => (NZA_times _ _).1) _ zero_ne_nil
  · exact foldl_add_ne_nil _ _ (fun p => ofList_ne_nil _) _ zero_ne_nil
  · exact foldl_add_ne_nil _ _ (fun p => ofList_ne_nil _) _ zero_ne_nil

/-- cells of a tabulated matrix are non-empty when the entries are (out of range: `Poly.zero`) -/
theorem get_tab_ne_nil (n m : Nat) (f : Nat → Nat → Poly) (hf : ∀ i j, f i j ≠ []) (i j : Nat) :
    Matrix.get ((List.range n).map fun i => (List.range m).map fun j => f i j) i j ≠ [] := by
  by_cases hi : i < n
  · by_cases hj : j < m
    · rw [Matrix.get_tabulate n m f i j hi hj]
      exact hf i j
    · unfold Matrix.get
      rw [getD_map_range n _ i hi, getD_of_le _ _ _ (by simp; omega)]
      exact zero_ne_nil
  · unfold Matrix.get
    rw [getD_of_le _ i [] (by simp; omega)]
    exact zero_ne_nil

/-- what the fixpoint loop keeps for `fix`: all cells non-empty, diagonal values above `o` -/
structure FixInv (n : Nat) (m : Matrix) : Prop where
  ne : ∀ i j, Matrix.get m i j ≠ []
  diag : ∀ c i, i < n → (Matrix.get m i i).evalD c ≠ .o

theorem FixInv.identity (n : Nat) : FixInv n (Matrix.identity n) := by
  refine ⟨?_, ?_⟩
  · intro i j
    unfold Matrix.identity
    apply get_tab_ne_nil
    intro i j
    split
    · simp [Poly.unit]
    · exact zero_ne_nil
  · intro c i hi
    unfold Matrix.identity
    rw [Matrix.get_tabulate n n _ i i hi hi, if_pos (beq_self_eq_true i)]
    intro h
    cases h

theorem step_inv (r fix cur : Relation) (h : r.WF) (hfw : fix.WF) (hfv : fix.vars = r.vars)
    (hcw : cur.WF) (hcv : cur.vars = r.vars) (hI : FixInv r.vars.length fix.mat) :
    FixInv r.vars.length (Relation.sum fix (Relation.composition cur r)).mat ∧
    ∀ i j, i < r.vars.length → j < r.vars.length →
      NZA (Matrix.get (Relation.sum fix (Relation.composition cur r)).mat i j) := by
  have hcomp := fun c => composition_spec cur r hcw h hcv c
  obtain ⟨c1, c2, _⟩ := hcomp []
  have hv : fix.vars = (Relation.composition cur r).vars := by rw [hfv, c1, hcv]
  have hsum := fun c => sum_spec fix (Relation.composition cur r) hfw c2 hv c
  have hmat : (Relation.sum fix (Relation.composition cur r)).mat =
      Matrix.sum fix.mat (Relation.composition cur r).mat := by
    rw [sum_same fix _ hfw hv]
  have hpm : (Relation.composition cur r).mat = Matrix.prod cur.mat r.mat := by
    rw [composition_same cur r hcw hcv]
  have hpne : ∀ i j, Matrix.get (Matrix.prod cur.mat r.mat) i j ≠ [] := by
    intro i j
    rw [Matrix.prod_eq]
    exact get_tab_ne_nil _ _ _ (prodCell_ne_nil _ _) i j
  have hlen : fix.mat.length = r.vars.length := by rw [hfw.2.2.1, hfv]
  refine ⟨⟨?_, ?_⟩, ?_⟩
  · intro i j
    rw [hmat, hpm]
    unfold Matrix.sum
    exact get_tab_ne_nil _ _ _ (fun i j => (add_ne_nil (hI.ne i j) (hpne i j)).1) i j
  · intro c i hi hc
    obtain ⟨_, _, s3⟩ := hsum c
    rw [hfv] at s3
    have := s3 i hi i hi
    unfold fn fadd at this
    rw [this] at hc
    exact hI.diag c i hi (add_eq_o hc).1
  · intro i j hi hj
    rw [hmat, hpm]
    unfold Matrix.sum
    simp only [hlen]
    rw [Matrix.get_tabulate _ _ _ i j hi hj]
    exact add_ne_nil (hI.ne i j) (hpne i j)

theorem fixpointAux_inv (r : Relation) (h : r.WF) :
    ∀ (fuel : Nat) (fix cur : Relation) (k : Nat) (res : Relation × Nat),
      fix.WF → fix.vars = r.vars → cur.WF → cur.vars = r.vars →
      FixInv r.vars.length fix.mat →
      Relation.fixpointAux r fuel fix cur k = .ok res →
      FixInv r.vars.length res.1.mat ∧
      ∀ i j, i < r.vars.length → j < r.vars.length → NZA (Matrix.get res.1.mat i j) := by
  intro fuel
  induction fuel with
  | zero =>
    intro fix cur k res _ _ _ _ _ hres
    simp [Relation.fixpointAux, throw, throwThe, MonadExceptOf.throw] at hres
  | succ fuel ih =>
    intro fix cur k res hfw hfv hcw hcv hI hres
    obtain ⟨c1, c2, _⟩ := composition_spec cur r hcw h hcv []
    have hv : fix.vars = (Relation.composition cur r).vars := by rw [hfv, c1, hcv]
    obtain ⟨s1, s2, _⟩ := sum_spec fix (Relation.composition cur r) hfw c2 hv []
    have hstep := step_inv r fix cur h hfw hfv hcw hcv hI
    rw [Relation.fixpointAux] at hres
    split at hres
    · have hr : res = (Relation.sum fix (Relation.composition cur r), k + 1) := by
        cases hres; rfl
      subst hr
      exact hstep
    · exact ih _ _ _ res s2 (by rw [s1, hfv]) c2 (by rw [c1, hcv]) hstep.1 hres

/-- every cell of a fixpoint result is non-empty with no zero alongside other terms; the diagonal
    cells contain no zero at all and are above `o` at every choice -/
theorem fixpoint_cells (r f : Relation) (h : r.WF) (hf : Relation.fixpoint r = .ok f) :
    f.vars = r.vars ∧ f.WF ∧
    (∀ i j, i < r.vars.length → j < r.vars.length → NZA (Matrix.get f.mat i j)) ∧
    ∀ i, i < r.vars.length → DiagOK (Matrix.get f.mat i i) := by
  obtain ⟨hv, hw, _⟩ := Relation.fixpoint_toSMat r f h hf []
  unfold Relation.fixpoint at hf
  rw [new_some_eq _ _ h.2.1 (by simp [Matrix.identity])] at hf
  dsimp only at hf
  cases hres : Relation.fixpointAux r (Relation.fixFuel r) ⟨r.vars, Matrix.identity r.vars.length⟩
      ⟨r.vars, Matrix.identity r.vars.length⟩ 0 with
  | error e => rw [hres] at hf; cases hf
  | ok res =>
    rw [hres] at hf
    have hfe : res.1 = f := by cases hf; rfl
    have hid := identity_wf r.vars h.1 h.2.1
    obtain ⟨hI, hN⟩ := fixpointAux_inv r h _ _ _ 0 res hid rfl hid rfl
      (FixInv.identity r.vars.length) hres
    rw [hfe] at hI hN
    refine ⟨hv, hw, hN, ?_⟩
    intro i hi
    exact ⟨no_o_of_NZA (hN i i hi hi) (hI.diag [] i hi), fun c => hI.diag c i hi⟩

/-! ## the walk of the loop correction keeps the diagonal free of `o` -/

theorem foldlM_inv_mem {σ α : Type} (step : σ → α → Except String σ) (Inv : σ → Prop)
    (l : List α) (hstep : ∀ x ∈ l, ∀ s s', Inv s → step s x = .ok s' → Inv s') :
    ∀ (s s' : σ), Inv s → l.foldlM step s = .ok s' → Inv s' := by
  induction l with
  | nil =>
    intro s s' hi h
    rw [List.foldlM_nil] at h
    cases h
    exact hi
  | cons x t ih =>
    intro s s' hi h
    rw [List.foldlM_cons] at h
    obtain ⟨s1, h1, h2⟩ := bind_ok h
    exact ih (fun y hy => hstep y (List.mem_cons_of_mem _ hy)) s1 s'
      (hstep x (List.mem_cons_self ..) s s1 hi h1) h2

/-- state of the walk: square matrix of well-formed cells whose diagonal is free of `o` -/
def WalkInv (n : Nat) (mat : Matrix) : Prop :=
  Sq n mat ∧ ∀ a, a < n → DiagOK (Matrix.get mat a a)

theorem loopStep_keeps {n ell : Nat} (hell : ell < n) {mat : Matrix} (hinv : WalkInv n mat)
    {i j : Nat} (hi : i < n) (hj : j < n) (g : DG.Graph) (res : Matrix × DG.Graph)
    (h : loopStep ell (mat, g) (i, j) = .ok res) : WalkInv n res.1 := by
  obtain ⟨hs, hd⟩ := hinv
  obtain ⟨s1, s2, _⟩ := loopStep_spec hs hi hj hell g res h
  refine ⟨s1, ?_⟩
  intro a ha
  rw [s2 a a]
  unfold stepCell
  split
  · exact (hd i hi).map_lfix true
  · split
    · rename_i hc
      obtain ⟨hae, haj, _⟩ := hc
      subst hae
      subst haj
      exact (DiagOK.addMonos (hd a ha) (hs.get_wf a a) _ (WF_filter' _ _ (hs.get_wf i a))).1
    · exact hd a ha

theorem walk_prefix_inv {n ell : Nat} (hell : ell < n) {mat0 : Matrix} (h0 : WalkInv n mat0)
    (pre : List (Nat × Nat)) (hpre : ∀ x ∈ pre, x.1 < n ∧ x.2 < n) (g : DG.Graph)
    (res : Matrix × DG.Graph) (h : pre.foldlM (loopStep ell) (mat0, g) = .ok res) :
    WalkInv n res.1 := by
  refine foldlM_inv_mem (loopStep ell) (fun s => WalkInv n s.1) pre ?_ (mat0, g) res h0 h
  rintro ⟨i, j⟩ hx ⟨mat, g1⟩ s' hinv hstep
  obtain ⟨hi, hj⟩ := hpre _ hx
  exact loopStep_keeps hell hinv hi hj g1 s' hstep

/-! ## cell-wise form of the while correction; the write set along the for walk -/

theorem getElem_of_eq_map {p' p : Poly} {φ : Mono → Mono} (e : p' = p.map φ) (k : Nat)
    (hk : k < p.length) (hk' : k < p'.length) : p'[k] = φ p[k] := by
  subst e
  rw [List.getElem_map]

theorem whileCorrection_cell (r r' : Relation) (g g' : DG.Graph)
    (hw : Relation.whileCorrection r g = .ok (r', g')) (i j : Nat) :
    Matrix.get r'.mat i j = (Matrix.get r.mat i j).map (wfix (i == j)) := by
  obtain ⟨e, _⟩ := whileCorrection_spec r r' g g' hw
  subst e
  exact get_wMat r.mat i j

/-- every in-place write of the while correction of any relation: same shape, and a monomial
    with scalar `o` or `m` is never changed -/
theorem whileCorrection_spares (r r' : Relation) (g g' : DG.Graph)
    (hw : Relation.whileCorrection r g = .ok (r', g')) (i j : Nat) :
    (Matrix.get r'.mat i j).length = (Matrix.get r.mat i j).length ∧
    ∀ k (hk : k < (Matrix.get r.mat i j).length) (hk' : k < (Matrix.get r'.mat i j).length),
      (Matrix.get r'.mat i j)[k] ≠ (Matrix.get r.mat i j)[k] →
        (Matrix.get r.mat i j)[k].scalar ≠ .o ∧ (Matrix.get r.mat i j)[k].scalar ≠ .m := by
  have e := whileCorrection_cell r r' g g' hw i j
  refine ⟨by rw [e, List.length_map], ?_⟩
  intro k hk hk' hne
  rw [getElem_of_eq_map e k hk hk'] at hne
  obtain ⟨h1, _⟩ := wfix_ne _ _ hne
  rcases h1 with h1 | ⟨_, h1⟩ <;> rw [h1] <;> exact ⟨by decide, by decide⟩

/-- every cell visit of the for correction of a relation whose diagonal is free of `o`: the
    monomials rewritten in place carried neither `o` nor `m` -/
theorem loopWalk_spares {n : Nat} (mat0 : Matrix) (h0 : WalkInv n mat0) (ell : Nat) (hell : ell < n)
    (g : DG.Graph) (pre post : List (Nat × Nat)) (i j : Nat)
    (hsplit : loopCells mat0 = pre ++ (i, j) :: post)
    (mat : Matrix) (g1 : DG.Graph)
    (hpre : pre.foldlM (loopStep ell) (mat0, g) = .ok (mat, g1))
    (p' e' : Poly) (g2 : DG.Graph)
    (hcell : Relation.loopFixCell (i == j) (Matrix.get mat i j) (Matrix.get mat ell j) g1 =
      .ok (p', e', g2)) :
    p'.length = (Matrix.get mat i j).length ∧
    ∀ k (hk : k < (Matrix.get mat i j).length) (hk' : k < p'.length),
      p'[k] ≠ (Matrix.get mat i j)[k] →
        (Matrix.get mat i j)[k].scalar ≠ .o ∧ (Matrix.get mat i j)[k].scalar ≠ .m := by
  have hmem : ∀ x ∈ pre, x.1 < n ∧ x.2 < n := by
    intro x hx
    exact (mem_loopCells h0.1 x.1 x.2).1 (by rw [hsplit]; exact List.mem_append_left _ hx)
  have hij : i < n ∧ j < n :=
    (mem_loopCells h0.1 i j).1 (by rw [hsplit]; simp)
  have hinv := walk_prefix_inv hell h0 pre hmem g (mat, g1) hpre
  obtain ⟨hlen, hw⟩ := loopFixCell_write_set _ _ _ _ _ _ _ hcell
  refine ⟨hlen, ?_⟩
  intro k hk hk' hne
  obtain ⟨hd, hm, _⟩ := (hw k hk hk').2 hne
  have hije : i = j := by simpa using hd
  subst hije
  exact ⟨(hinv.2 i hij.1).1 _ (List.getElem_mem hk), hm⟩

/-! ## totality of the for correction under the graph invariant -/

theorem loopFixCell_total (diag : Bool) (p e : Poly) (g : DG.Graph) (hg : DG.GInv g) :
    ∃ p' e' g', Relation.loopFixCell diag p e g = .ok (p', e', g') ∧ DG.GInv g' := by
  unfold Relation.loopFixCell
  have key := DG.foldlM_total (ε := String)
    (fun (_ : List Mono) (st : List Mono × Poly × DG.Graph) => DG.GInv st.2.2)
    (fun (st : List Mono × Poly × DG.Graph) mon => do
      let (mon', g') ← (if diag && mon.scalar != .m then do
          let g' ← DG.insertNode st.2.2 mon.deltas
          pure ({ mon with scalar := Scalar.i }, g')
        else pure (mon, st.2.2))
      let ellCell' := if mon'.scalar == .p then Poly.add st.2.1 [mon'.copy] else st.2.1
      pure (st.1 ++ [mon'], ellCell', g')) ?_ p ([], e, g) hg
  · obtain ⟨⟨p', e', g'⟩, h1, h2⟩ := key
    exact ⟨p', e', g', h1, h2⟩
  · rintro ⟨acc, e1, g1⟩ mon rest h1
    dsimp only at h1 ⊢
    split
    · obtain ⟨g2, hrun, hG2, _⟩ := DG.insertNode_total mon.deltas h1
      rw [hrun]
      exact ⟨_, rfl, hG2⟩
    · exact ⟨_, rfl, h1⟩

theorem loopCorrection_total (r : Relation) (x : String) (hx : x ∈ r.vars) (g : DG.Graph)
    (hg : DG.GInv g) :
    ∃ r' g', Relation.loopCorrection r x g = .ok (r', g') ∧ DG.GInv g' := by
  rw [loopCorrection_eq]
  have hidx : r.vars.idxOf? x = some (r.vars.idxOf x) :=
    List.findIdx?_eq_some_of_exists ⟨x, hx, beq_self_eq_true x⟩
  rw [hidx]
  dsimp only
  have key := DG.foldlM_total (ε := String)
    (fun (_ : List (Nat × Nat)) (st : Matrix × DG.Graph) => DG.GInv st.2)
    (loopStep (r.vars.idxOf x)) ?_ (loopCells r.mat) (r.mat, g) hg
  · obtain ⟨⟨mat', g'⟩, h1, h2⟩ := key
    rw [h1]
    exact ⟨_, _, rfl, h2⟩
  · rintro ⟨mat, g1⟩ ⟨i, j⟩ rest h1
    unfold loopStep
    dsimp only at h1 ⊢
    obtain ⟨p', e', g2, h2, h3⟩ := loopFixCell_total (i == j) (Matrix.get mat i j)
      (Matrix.get mat (r.vars.idxOf x) j) g1 h1
    rw [h2]
    exact ⟨_, rfl, h3⟩

end Mwp.WriteSet
