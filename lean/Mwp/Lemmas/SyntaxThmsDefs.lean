/-
  Predicates used as hypotheses of the C05 theorem `full_implies_modellable_partial`:
  one gap of `Coverage` (a shape of `x = op e` it accepts but the calculus reading rejects)
  and one well-formedness condition on trees.  All are decidable and recursive (`stmtAll`).
-/
import Mwp.Spec.Syntax
namespace Mwp
open Mwp Mwp.Syntax

mutual
/-- `p` holds at every node standing in a statement position (or in the position of an
    expression evaluated as a statement) that `Coverage` visits and keeps: function body, block
    items, branches, loop bodies, labelled statements, comma-expression items, cast operands. -/
def stmtAll (p : Node → Bool) : Node → Bool
  | .cast e => p (.cast e) && stmtAll p e
  | .exprList es => p (.exprList es) && stmtAllL p es
  | .ifs c t f => p (.ifs c t f) && stmtAllO p t && stmtAllO p f
  | .while_ c b => p (.while_ c b) && stmtAll p b
  | .doWhile c b => p (.doWhile c b) && stmtAll p b
  | .for_ i c x b => p (.for_ i c x b) && stmtAll p b
  | .compound (some l) => p (.compound (some l)) && stmtAllL p l
  | .label nm s => p (.label nm s) && stmtAll p s
  | .funcDef d b => p (.funcDef d b) && stmtAll p b
  | n => p n
def stmtAllL (p : Node → Bool) : List Node → Bool
  | [] => true
  | n :: ns => stmtAll p n && stmtAllL p ns
def stmtAllO (p : Node → Bool) : Option Node → Bool
  | none => true
  | some n => stmtAll p n
end

/-- `x = op e` / `x = (T)…(T') op e` (any number of casts on the right-hand side): the operator
    and the operand with its casts removed -/
def rhsUnop? : Node → Option (String × Node)
  | .assign _ _ r =>
    match r.rmCast with
    | .unop op e => some (op, e.rmCast)
    | _ => none
  | _ => none

def noIncDecOfConstAt (n : Node) : Bool :=
  match rhsUnop? n with
  | some (op, e) => !(Gen.incDec.contains op && e.isConst)
  | none => true

/-- classes that the C grammar never puts in a statement / expression-statement position -/
def stmtCtor : Node → Bool
  | .typeDecl | .declList _ | .paramList _ | .funcDef .. | .case_ .. | .default_ _ => false
  | .other cls _ _ => !Gen.coveragePass.contains cls
  | _ => true

/-- gap (not valid C, but pycparser parses it): no `x = ++c` / `x = c--` ... on a constant -/
def NoIncDecOfConst (n : Node) : Prop := stmtAll noIncDecOfConstAt n = true
/-- well-formedness: positions of statements hold statements or expressions -/
def StmtShaped : Node → Prop
  | .funcDef _ b => stmtAll stmtCtor b = true
  | _ => False

instance (n : Node) : Decidable (NoIncDecOfConst n) := by unfold NoIncDecOfConst; infer_instance
instance (n : Node) : Decidable (StmtShaped n) := by
  cases n <;> unfold StmtShaped <;> infer_instance

end Mwp
