/-
  Refinement with loops, part 3: the invariants.

  * `Ghost P g g'`  : the delta graph `g'` arises from `g` through `insert_node` / `fusion` steps
                      (a history `ops` as in the C11 development, `ops.foldlM DG.step g = .ok g'`),
                      and every inserted tuple satisfies `P`;
  * `FailsAt idx cmd t` : at every valid choice vector the tuple `t` matches, the derivation of
                      `cmd` fails;
  * `Agrees`        : at one choice vector, either the derivation fails and the relation has an ∞,
                      or the derivation succeeds, the relation is ∞-free and means the derived matrix;
  * `RefG`, `RefGL` : what `compute` / `computeList` guarantee, early exit included.
-/
import Mwp.Lemmas.RefineLoopsWhile
import Mwp.Lemmas.RefineFrame
namespace Mwp
namespace Refine
open Mwp.Props.C16 Mwp.Lemmas.Poly Spec RelFix

/-! ## delta-graph histories -/

def Ghost (P : DG.Node → Prop) (g g' : DG.Graph) : Prop :=
  ∃ ops : List DG.Op, ops.foldlM DG.step g = .ok g' ∧ ∀ t ∈ DG.inserted ops, P t

theorem inserted_append (a b : List DG.Op) : DG.inserted (a ++ b) = DG.inserted a ++ DG.inserted b := by
  induction a with
  | nil => rfl
  | cons x t ih => cases x <;> simp [DG.inserted, ih]

theorem inserted_map_insert (ts : List DG.Node) : DG.inserted (ts.map DG.Op.insert) = ts := by
  induction ts with
  | nil => rfl
  | cons x t ih => simp [DG.inserted, ih]

theorem Ghost.refl (P : DG.Node → Prop) (g : DG.Graph) : Ghost P g g :=
  ⟨[], rfl, by intro t ht; cases ht⟩

theorem Ghost.trans {P : DG.Node → Prop} {g g' g'' : DG.Graph} (h1 : Ghost P g g') (h2 : Ghost P g' g'') :
    Ghost P g g'' := by
  obtain ⟨o1, e1, p1⟩ := h1
  obtain ⟨o2, e2, p2⟩ := h2
  refine ⟨o1 ++ o2, ?_, ?_⟩
  · rw [List.foldlM_append, e1]; exact e2
  · intro t ht
    rw [inserted_append, List.mem_append] at ht
    exact ht.elim (p1 t) (p2 t)

theorem Ghost.mono {P Q : DG.Node → Prop} {g g' : DG.Graph} (h : ∀ t, P t → Q t) (hg : Ghost P g g') :
    Ghost Q g g' := by
  obtain ⟨o, e, p⟩ := hg
  exact ⟨o, e, fun t ht => h t (p t ht)⟩

theorem Ghost.of_inserts {P : DG.Node → Prop} {g g' : DG.Graph} {ts : List DG.Node}
    (h : ts.foldlM DG.insertNode g = .ok g') (hP : ∀ t ∈ ts, P t) : Ghost P g g' := by
  refine ⟨ts.map DG.Op.insert, ?_, by rw [inserted_map_insert]; exact hP⟩
  rw [List.foldlM_map]
  exact h

theorem Ghost.fuse {P : DG.Node → Prop} {g g' : DG.Graph} (h : DG.fusion g = .ok g') : Ghost P g g' :=
  ⟨[.fuse], by simp only [List.foldlM_cons, List.foldlM_nil, DG.step, h]; rfl, by
    intro t ht; simp [DG.inserted] at ht⟩

theorem Ghost.of_eq {P : DG.Node → Prop} {g g' : DG.Graph} (h : g' = g) : Ghost P g g' :=
  h ▸ Ghost.refl P g

/-! ## tuples at which the derivation fails -/

def FailsAt (idx : Nat) (cmd : Cmd) (t : DG.Node) : Prop :=
  ∀ U : List String, U.Nodup → (∀ v ∈ cmd.vars, v ∈ U) → ∀ c, Valid idx cmd.arity c →
    matchesT t c = true → ∀ c', Relab idx cmd.swaps c c' → sem U cmd idx c' = none

theorem FailsAt.while_ {idx : Nat} {b : Cmd} {t : DG.Node} (h : FailsAt idx b t) :
    FailsAt idx (.while_ b) t := by
  intro U hU hsub c hval hm c' hrel
  have := h U hU hsub c hval hm c' hrel
  simp only [sem, this]

theorem FailsAt.loop {idx : Nat} {X : String} {b : Cmd} {t : DG.Node} (h : FailsAt idx b t) :
    FailsAt idx (.loop X b) t := by
  intro U hU hsub c hval hm c' hrel
  have := h U hU (fun v hv => hsub v (by rw [Cmd.vars]; exact List.mem_cons_of_mem _ hv)) c hval hm c' hrel
  simp only [sem, this]

theorem FailsAt.seq_head {idx : Nat} {cmd : Cmd} {rest : List Cmd} {t : DG.Node} (h : FailsAt idx cmd t) :
    FailsAt idx (.seq (cmd :: rest)) t := by
  intro U hU hsub c hval hm c' hrel
  simp only [Cmd.vars, varsL, Cmd.arity, arityL, Cmd.swaps, swapsL] at hsub hval hrel
  have := h U hU (fun v hv => hsub v (List.mem_append_left _ hv)) c hval.left hm c' hrel.left
  simp only [sem, semSeq, this]

theorem FailsAt.seq_tail {idx : Nat} {cmd : Cmd} {rest : List Cmd} {t : DG.Node}
    (h : FailsAt (idx + cmd.arity) (.seq rest) t) : FailsAt idx (.seq (cmd :: rest)) t := by
  intro U hU hsub c hval hm c' hrel
  simp only [Cmd.vars, varsL, Cmd.arity, arityL, Cmd.swaps, swapsL] at hsub hval hrel
  have hrel2 : Relab (idx + cmd.arity) (swapsL rest) c c' := by
    rw [← swaps_length cmd]; exact hrel.right
  have := h U hU (fun v hv => hsub v (by rw [Cmd.vars] at hv; exact List.mem_append_right _ hv)) c
    (by rw [Cmd.arity]; exact hval.right) hm c' (by rw [Cmd.swaps]; exact hrel2)
  simp only [sem] at this
  simp only [sem, semSeq]
  cases h1 : sem U cmd idx c' with
  | none => rfl
  | some p =>
    obtain ⟨i1, a⟩ := p
    have e1 := sem_index U cmd idx c' i1 a h1
    subst e1
    simp only [this]

theorem FailsAt.ite_then {idx : Nat} {a b : Cmd} {t : DG.Node} (h : FailsAt idx a t) :
    FailsAt idx (.ite a b) t := by
  intro U hU hsub c hval hm c' hrel
  simp only [Cmd.vars, Cmd.arity, Cmd.swaps] at hsub hval hrel
  have := h U hU (fun v hv => hsub v (List.mem_append_left _ hv)) c hval.left hm c' hrel.left
  simp only [sem, this]

theorem FailsAt.ite_else {idx : Nat} {a b : Cmd} {t : DG.Node} (h : FailsAt (idx + a.arity) b t) :
    FailsAt idx (.ite a b) t := by
  intro U hU hsub c hval hm c' hrel
  simp only [Cmd.vars, Cmd.arity, Cmd.swaps] at hsub hval hrel
  have hrel2 : Relab (idx + a.arity) b.swaps c c' := by
    rw [← swaps_length a]; exact hrel.right
  have := h U hU (fun v hv => hsub v (List.mem_append_right _ hv)) c hval.right hm c' hrel2
  simp only [sem]
  cases h1 : sem U a idx c' with
  | none => rfl
  | some p =>
    obtain ⟨i1, m⟩ := p
    have e1 := sem_index U a idx c' i1 m h1
    subst e1
    simp only [this]

/-! ## agreement at one choice vector -/

def Agrees (U : List String) (idx : Nat) (cmd : Cmd) (r : Relation) (c c' : Choice) : Prop :=
  (sem U cmd idx c' = none ∧ HasInf r c) ∨
  (sem U cmd idx c' = some (idx + cmd.arity, matOf U (r.den c)) ∧ Fin' r c)

/-- what `compute` guarantees for one command -/
structure RefG (q : Bool) (idx : Nat) (dg : DG.Graph) (cmd : Cmd) (out : Analysis.Out) : Prop where
  noexit : q = true → out.exit = false
  ghost : Ghost (FailsAt idx cmd) dg out.dg
  main : out.exit = false → out.index = idx + cmd.arity ∧
    ∃ r, out.rels = [r] ∧ r.WF ∧ (∀ v ∈ r.vars, v ∈ cmd.vars) ∧
      ∀ (U : List String), U.Nodup → (∀ v ∈ cmd.vars, v ∈ U) →
      ∀ (c : Choice), Valid idx cmd.arity c → ∀ c', Relab idx cmd.swaps c c' → Agrees U idx cmd r c c'

/-- the loop-free invariant is an instance -/
theorem refG_of_refines {B : List String} {q : Bool} {idx : Nat} {dg : DG.Graph} {cmd : Cmd}
    {out : Analysis.Out} (R : Refines B idx dg cmd out) : RefG q idx dg cmd out := by
  refine ⟨fun _ => R.exit, Ghost.of_eq R.dg, fun _ => ⟨R.index, ?_⟩⟩
  obtain ⟨r, hr, wr, vr, semr⟩ := R.rel
  refine ⟨r, hr, wr, vr, ?_⟩
  intro U hU hsub c hval c' hrel
  obtain ⟨fr, sr⟩ := semr U hU hsub c hval
  exact Or.inr ⟨sr c' hrel, fr⟩

theorem refG_skip (q : Bool) (idx : Nat) (dg : DG.Graph) (sk : List String) :
    RefG q idx dg .skip (Analysis.skip idx dg sk) :=
  refG_of_refines (refines_skip (B := sk) idx dg sk (fun _ h => h))

/-- an exited result only carries the ghost fact -/
theorem refG_exit {q : Bool} {idx : Nat} {dg : DG.Graph} {cmd : Cmd} {out : Analysis.Out}
    (he : out.exit = true) (hq : q = true → False) (hg : Ghost (FailsAt idx cmd) dg out.dg) :
    RefG q idx dg cmd out :=
  ⟨fun h => (hq h).elim, hg, fun h => by rw [he] at h; cases h⟩

/-! ## sequences -/

structure RefGL (q : Bool) (idx : Nat) (dg : DG.Graph) (ra : Relation) (cs : List Cmd)
    (out : Analysis.Out) : Prop where
  noexit : q = true → out.exit = false
  ghost : Ghost (FailsAt idx (.seq cs)) dg out.dg
  main : out.exit = false → out.index = idx + arityL cs ∧
    ∃ r, out.rels = [r] ∧ r.WF ∧ (∀ v ∈ r.vars, v ∈ ra.vars ∨ v ∈ varsL cs) ∧
      ∀ (U : List String), U.Nodup → (∀ v ∈ ra.vars, v ∈ U) → (∀ v ∈ varsL cs, v ∈ U) →
      ∀ (c : Choice), Valid idx (arityL cs) c → ∀ c', Relab idx (swapsL cs) c c' →
        (HasInf ra c → HasInf r c) ∧
        (Fin' ra c →
          (semSeq U cs idx c' = none ∧ HasInf r c) ∨
          (Fin' r c ∧ ∃ S, semSeq U cs idx c' = some (idx + arityL cs, mk U.length S) ∧
            EqOn U.length (dn U (r.den c)) (fmul U.length (dn U (ra.den c)) S)))

theorem RefGL.nil (q : Bool) (idx : Nat) (dg : DG.Graph) (ra : Relation) (sk : List String) (hra : ra.WF) :
    RefGL q idx dg ra [] ⟨idx, [ra], false, dg, sk⟩ := by
  refine ⟨fun _ => rfl, Ghost.refl _ _, fun _ => ⟨rfl, ra, rfl, hra, fun v hv => Or.inl hv, ?_⟩⟩
  intro U hU _ _ c _ c' _
  refine ⟨id, fun hfin => Or.inr ⟨hfin, fI, ?_, ?_⟩⟩
  · simp only [semSeq, arityL, Nat.add_zero, identity_eq]
  · exact (fmul_fI_right (fun i _ j _ => hfin _ _)).symm

/-- the head exits: `compound` composes, then returns with the flag set -/
theorem RefGL.cons_exit {q : Bool} {idx : Nat} {dg : DG.Graph} {ra : Relation} {cmd : Cmd}
    {cs' : List Cmd} {o1 : Analysis.Out} (R1 : RefG q idx dg cmd o1) (he : o1.exit = true)
    (acc : RelList) (sk : List String) :
    RefGL q idx dg ra (cmd :: cs') ⟨o1.index, acc, true, o1.dg, sk⟩ := by
  refine ⟨fun hq => ?_, R1.ghost.mono (fun t h => h.seq_head), fun h => by cases h⟩
  rw [R1.noexit hq] at he; cases he

theorem RefGL.cons {q : Bool} {idx : Nat} {dg : DG.Graph} {ra r1 : Relation} {cmd : Cmd}
    {cs' : List Cmd} {o1 o2 : Analysis.Out} (hra : ra.WF) (R1 : RefG q idx dg cmd o1)
    (he : o1.exit = false) (hr1 : o1.rels = [r1])
    (R2 : RefGL q o1.index o1.dg (Relation.composition ra r1) cs' o2) :
    RefGL q idx dg ra (cmd :: cs') o2 := by
  obtain ⟨hi1, r1', hr1', w1, v1, sem1⟩ := R1.main he
  have : r1' = r1 := by rw [hr1] at hr1'; exact (List.cons.inj hr1').1.symm
  subst this
  refine ⟨R2.noexit, ?_, ?_⟩
  · refine (R1.ghost.mono (fun t h => h.seq_head)).trans (R2.ghost.mono (fun t h => ?_))
    rw [hi1] at h
    exact h.seq_tail
  · intro he2
    obtain ⟨hi2, r, hr, wr, vr, semr⟩ := R2.main he2
    refine ⟨by rw [hi2, hi1, arityL]; omega, r, hr, wr, ?_, ?_⟩
    · intro v hv
      rcases vr v hv with h | h
      · rcases (Relation.composition_vars_mem ra r1' hra w1 v).1 h with h | h
        · exact Or.inl h
        · exact Or.inr (by rw [varsL]; exact List.mem_append_left _ (v1 v h))
      · exact Or.inr (by rw [varsL]; exact List.mem_append_right _ h)
    · intro U hU hsa hsl c hval c' hrel
      have hs1 : ∀ v ∈ cmd.vars, v ∈ U := fun v hv => hsl v (by rw [varsL]; exact List.mem_append_left _ hv)
      have hs2 : ∀ v ∈ varsL cs', v ∈ U := fun v hv => hsl v (by rw [varsL]; exact List.mem_append_right _ hv)
      rw [arityL] at hval
      rw [swapsL] at hrel
      have hsacc : ∀ v ∈ (Relation.composition ra r1').vars, v ∈ U := by
        intro v hv
        rcases (Relation.composition_vars_mem ra r1' hra w1 v).1 hv with h | h
        · exact hsa v h
        · exact hs1 v (v1 v h)
      have hval2 : Valid o1.index (arityL cs') c := by rw [hi1]; exact hval.right
      have hrel2 : Relab o1.index (swapsL cs') c c' := by
        rw [hi1, ← swaps_length cmd]; exact hrel.right
      obtain ⟨inf2, fin2⟩ := semr U hU hsacc hs2 c hval2 c' hrel2
      have A1 := sem1 U hU hs1 c hval.left c' hrel.left
      constructor
      · intro hinf
        exact inf2 (Relation.composition_infty_persists ra r1' hra w1 c (Or.inl hinf))
      · intro hfin
        rcases A1 with ⟨s1, i1⟩ | ⟨s1, f1⟩
        · left
          refine ⟨by simp only [semSeq, s1], ?_⟩
          exact inf2 (Relation.composition_infty_persists ra r1' hra w1 c (Or.inr i1))
        · have facc := comp_fin hra w1 hfin f1
          rcases fin2 facc with ⟨s2, i2⟩ | ⟨fr, S', hS', hE⟩
          · left
            refine ⟨?_, i2⟩
            rw [semSeq, s1]
            simp only
            rw [← hi1, s2]
          · right
            refine ⟨fr, fmul U.length (dn U (r1'.den c)) S', ?_, ?_⟩
            · rw [semSeq, s1]
              simp only
              rw [← hi1, hS']
              simp only
              rw [mul_matOf, hi1, arityL, Nat.add_assoc]
            · refine hE.trans ?_
              rw [fmul_assoc]
              exact fmul_congr (comp_dn hra w1 hfin f1 U hU hsa (fun v hv => hs1 v (v1 v hv)))
                (EqOn.refl _ _)

/-- a statement list analysed from the empty relation list is the sequence command -/
theorem refG_seq {q : Bool} {idx : Nat} {dg : DG.Graph} {cs : List Cmd} {out : Analysis.Out}
    (R : RefGL q idx dg (Relation.new []) cs out) : RefG q idx dg (.seq cs) out := by
  refine ⟨R.noexit, R.ghost, fun he => ?_⟩
  obtain ⟨hi, r, hr, wr, vr, semr⟩ := R.main he
  refine ⟨by rw [Cmd.arity]; exact hi, r, hr, wr, ?_, ?_⟩
  · intro v hv
    rcases vr v hv with h | h
    · cases h
    · rw [Cmd.vars]; exact h
  · intro U hU hsub c hval c' hrel
    rw [Cmd.vars] at hsub
    rw [Cmd.arity] at hval
    rw [Cmd.swaps] at hrel
    obtain ⟨_, fin⟩ := semr U hU (by intro v hv; cases hv) hsub c hval c' hrel
    rcases fin (emptyRel_fin c) with ⟨s, i⟩ | ⟨fr, S, hS, hE⟩
    · exact Or.inl ⟨by rw [sem]; exact s, i⟩
    · right
      refine ⟨?_, fr⟩
      rw [sem, hS, Cmd.arity]
      congr 2
      apply mk_congr
      have h1 : EqOn U.length (dn U (r.den c)) (fmul U.length fI S) :=
        hE.trans (fmul_congr (dn_idS hU) (EqOn.refl _ _))
      have h2 : EqOn U.length (fmul U.length fI S) S := by
        apply fmul_fI_left_of_result
        intro i hi j hj
        rw [← h1 i hi j hj]
        exact fr _ _
      exact (h1.trans h2).symm

/-! ## `if` -/

/-- `if_branch` on a single statement that did not exit composes the empty relation list in front -/
theorem refG_comp_empty {q : Bool} {idx : Nat} {dg : DG.Graph} {cmd : Cmd} {out : Analysis.Out}
    (R : RefG q idx dg cmd out) (he : out.exit = false) :
    RefG q idx dg cmd ⟨out.index, RelList.composition RelList.empty out.rels, false, out.dg, out.skipped⟩ := by
  obtain ⟨hi, r, hr, wr, vr, semr⟩ := R.main he
  refine ⟨fun _ => rfl, R.ghost, fun _ => ⟨hi, Relation.composition (Relation.new []) r, ?_,
    Relation.composition_wf _ r emptyRel_wf wr, ?_, ?_⟩⟩
  · simp only [hr, RelList.empty, relList_composition_single]
  · intro v hv
    exact vr v ((comp_empty_mem wr v).1 hv)
  · intro U hU hsub c hval c' hrel
    rcases semr U hU hsub c hval c' hrel with ⟨s, i⟩ | ⟨s, fr⟩
    · exact Or.inl ⟨s, Relation.composition_infty_persists _ r emptyRel_wf wr c (Or.inr i)⟩
    · right
      refine ⟨?_, comp_fin emptyRel_wf wr (emptyRel_fin c) fr⟩
      rw [s]
      congr 2
      exact matOf_congr (fun u _ v _ => (comp_empty_den wr fr u v).symm)

theorem refG_ite_exit_then {q : Bool} {idx : Nat} {dg : DG.Graph} {a b : Cmd} {rt : Analysis.Out}
    (Rt : RefG q idx dg a rt) (he : rt.exit = true) : RefG q idx dg (.ite a b) rt :=
  refG_exit he (fun hq => by rw [Rt.noexit hq] at he; cases he) (Rt.ghost.mono (fun t h => h.ite_then))

theorem refG_ite_exit_else {q : Bool} {idx : Nat} {dg : DG.Graph} {a b : Cmd} {rt rf out : Analysis.Out}
    (Rt : RefG q idx dg a rt) (het : rt.exit = false) (Rf : RefG q rt.index rt.dg b rf)
    (he : rf.exit = true) (ho : out.exit = true) (hd : out.dg = rf.dg) : RefG q idx dg (.ite a b) out := by
  refine refG_exit ho (fun hq => by rw [Rf.noexit hq] at he; cases he) ?_
  rw [hd]
  refine (Rt.ghost.mono (fun t h => h.ite_then)).trans (Rf.ghost.mono (fun t h => ?_))
  rw [(Rt.main het).1] at h
  exact h.ite_else

theorem refG_ite {q : Bool} {idx : Nat} {dg : DG.Graph} {a b : Cmd} {rt rf : Analysis.Out}
    (Rt : RefG q idx dg a rt) (het : rt.exit = false) (Rf : RefG q rt.index rt.dg b rf)
    (hef : rf.exit = false) :
    RefG q idx dg (.ite a b)
      ⟨rf.index, RelList.add rf.rels rt.rels, false, rf.dg, rt.skipped ++ rf.skipped⟩ := by
  obtain ⟨hi1, r1, hr1, w1, v1, sem1⟩ := Rt.main het
  obtain ⟨hi2, r2, hr2, w2, v2, sem2⟩ := Rf.main hef
  refine ⟨fun _ => rfl, ?_, fun _ => ⟨?_, Relation.sum r2 r1, ?_, Relation.sum_wf r2 r1 w2 w1, ?_, ?_⟩⟩
  · refine (Rt.ghost.mono (fun t h => h.ite_then)).trans (Rf.ghost.mono (fun t h => ?_))
    rw [hi1] at h
    exact h.ite_else
  · show rf.index = _
    rw [hi2, hi1, Cmd.arity, Nat.add_assoc]
  · simp only [hr1, hr2, relList_add_single]
  · intro v hv
    rw [Cmd.vars]
    rcases (Relation.sum_vars_mem r2 r1 w2 w1 v).1 hv with h | h
    · exact List.mem_append_right _ (v2 v h)
    · exact List.mem_append_left _ (v1 v h)
  · intro U hU hsub c hval c' hrel
    rw [Cmd.vars] at hsub
    rw [Cmd.arity] at hval
    rw [Cmd.swaps] at hrel
    have hrel2 : Relab rt.index b.swaps c c' := by
      rw [hi1, ← swaps_length a]; exact hrel.right
    have A1 := sem1 U hU (fun v hv => hsub v (List.mem_append_left _ hv)) c hval.left c' hrel.left
    have A2 := sem2 U hU (fun v hv => hsub v (List.mem_append_right _ hv)) c
      (by rw [hi1]; exact hval.right) c' hrel2
    rcases A1 with ⟨s1, i1⟩ | ⟨s1, f1⟩
    · left
      refine ⟨by simp only [sem, s1], Relation.sum_infty_persists r2 r1 w2 w1 c (Or.inr i1)⟩
    · rcases A2 with ⟨s2, i2⟩ | ⟨s2, f2⟩
      · left
        refine ⟨?_, Relation.sum_infty_persists r2 r1 w2 w1 c (Or.inl i2)⟩
        rw [sem, s1]
        simp only
        rw [← hi1, s2]
      · right
        refine ⟨?_, sum_fin w2 w1 f2 f1⟩
        rw [sem, s1]
        simp only
        rw [← hi1, s2]
        simp only
        rw [add_matOf, hi1, Cmd.arity, Nat.add_assoc]
        congr 2
        apply matOf_congr
        intro u _ v _
        rw [Relation.sum_den r2 r1 w2 w1, sum_comm]

/-! ## `while` -/

theorem cell_inf_hasInf {r : Relation} (wr : r.WF) {c : Choice}
    (h : ∃ i j, (Matrix.get r.mat i j).evalD c = .i) : HasInf r c := by
  obtain ⟨i, j, hij⟩ := h
  have hr : i < r.vars.length ∧ j < r.vars.length := by
    apply Classical.byContradiction
    intro hno
    rw [get_out_of_range (wf_sq wr) hno, evalD_zero] at hij
    cases hij
  refine ⟨r.vars.getD i "", r.vars.getD j "", ?_⟩
  rw [Relation.den_of_idx (idx_of_get wr.1 i hr.1 "") (idx_of_get wr.1 j hr.2 "")]
  exact hij

theorem fails_of_agrees {U : List String} {idx : Nat} {cmd : Cmd} {r : Relation} {c c' : Choice}
    (A : Agrees U idx cmd r c c') (h : HasInf r c) : sem U cmd idx c' = none := by
  rcases A with ⟨s, _⟩ | ⟨_, f⟩
  · exact s
  · exact absurd f (not_fin_of_hasInf h)

theorem refG_while {q : Bool} {idx : Nat} {dg : DG.Graph} {b : Cmd} {rb out : Analysis.Out}
    (Rb : RefG q idx dg b rb) (h : Analysis.whileFinish q rb = .ok out) :
    RefG q idx dg (.while_ b) out := by
  cases he : rb.exit with
  | true =>
    rw [whileFinish_exit h he]
    exact refG_exit he (fun hq => by rw [Rb.noexit hq] at he; cases he) (Rb.ghost.mono (fun t h => h.while_))
  | false =>
    obtain ⟨hi, r, hr, wr, vr, semr⟩ := Rb.main he
    obtain ⟨f, r', g, g', hf, hw, ho, hoi, hcase⟩ := whileFinish_inv h he hr
    obtain ⟨w', hvm, _, H⟩ := while_rel wr hf hw
    have hA : ∀ (U : List String), U.Nodup → (∀ v ∈ (Cmd.while_ b).vars, v ∈ U) →
        ∀ (c : Choice), Valid idx (Cmd.while_ b).arity c → ∀ c', Relab idx (Cmd.while_ b).swaps c c' →
        Agrees U idx (.while_ b) r' c c' := by
      intro U hU hsub c hval c' hrel
      rw [Cmd.vars] at hsub
      rw [Cmd.arity] at hval
      rw [Cmd.swaps] at hrel
      rcases semr U hU hsub c hval c' hrel with ⟨s, i⟩ | ⟨s, fr⟩
      · exact Or.inl ⟨by simp only [sem, s], (H c).2.1 i⟩
      · rcases while_point wr hf hw c fr U hU (fun v hv => hsub v (vr v hv)) b idx _ c' s with h1 | h1
        · exact Or.inl h1
        · exact Or.inr (by rw [Cmd.arity]; exact h1)
    have hmain : out.index = idx + (Cmd.while_ b).arity ∧
        ∃ r, out.rels = [r] ∧ r.WF ∧ (∀ v ∈ r.vars, v ∈ (Cmd.while_ b).vars) ∧
        ∀ (U : List String), U.Nodup → (∀ v ∈ (Cmd.while_ b).vars, v ∈ U) →
        ∀ (c : Choice), Valid idx (Cmd.while_ b).arity c → ∀ c', Relab idx (Cmd.while_ b).swaps c c' →
        Agrees U idx (.while_ b) r c c' :=
      ⟨by rw [hoi, hi, Cmd.arity], r', ho, w', fun v hv => by rw [Cmd.vars]; exact vr v ((hvm v).1 hv), hA⟩
    have hg0 : Ghost (FailsAt idx (.while_ b)) dg rb.dg := Rb.ghost.mono (fun t h => h.while_)
    rcases hcase with ⟨hq, hex, hdg⟩ | ⟨hq, hg, hfu, hex⟩
    · exact ⟨fun _ => hex, hdg ▸ hg0, fun _ => hmain⟩
    · refine ⟨fun hq' => (by rw [hq] at hq'; cases hq'), ?_, fun _ => hmain⟩
      subst hg
      obtain ⟨ts, hts, hP⟩ := Relation.whileCorrection_inserted f r' rb.dg g'
        (fixpoint_den (Relation.composition_wf _ r emptyRel_wf wr) hf).2.1 hw
      refine hg0.trans ((Ghost.of_inserts hts ?_).trans (Ghost.fuse hfu))
      intro t ht U hU hsub c hval hm c' hrel
      exact fails_of_agrees (hA U hU hsub c hval c' hrel) (cell_inf_hasInf w' (hP t ht c hm))

end Refine
end Mwp
