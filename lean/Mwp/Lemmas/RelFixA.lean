/-
  RelFix, part A: the scalar side.  Dense scalar matrices of `Mwp.Spec.Calculus` as functions
  `Nat → Nat → Scalar` restricted to `[0,n)²`, matrix algebra over the (non-annihilating:
  `o * i = i`) coefficient structure, and the theorem that any stationary point of the chain
  the CODE computes (`P₀ = I, Pₖ₊₁ = Pₖ·A, Sₖ₊₁ = Sₖ ⊕ Pₖ₊₁`) is `Spec.SMat.closure`.
  Nothing here mentions polynomials.
-/
import Mwp.Lemmas.RelDefs
import Mwp.Lemmas.Poly

namespace Mwp.RelFix
open Mwp Mwp.Props.C16 Mwp.Lemmas.Poly

abbrev SF := Nat → Nat → Scalar

def mk (n : Nat) (f : SF) : Spec.SMat :=
  (List.range n).map fun i => (List.range n).map fun j => f i j

def EqOn (n : Nat) (f g : SF) : Prop := ∀ i, i < n → ∀ j, j < n → f i j = g i j

theorem EqOn.refl (n : Nat) (f : SF) : EqOn n f f := fun _ _ _ _ => rfl
theorem EqOn.symm {n : Nat} {f g : SF} (h : EqOn n f g) : EqOn n g f :=
  fun i hi j hj => (h i hi j hj).symm
theorem EqOn.trans {n : Nat} {f g h : SF} (h1 : EqOn n f g) (h2 : EqOn n g h) : EqOn n f h :=
  fun i hi j hj => (h1 i hi j hj).trans (h2 i hi j hj)

theorem mk_length (n : Nat) (f : SF) : (mk n f).length = n := by simp [mk]

theorem get_mk (n : Nat) (f : SF) {i j : Nat} (hi : i < n) (hj : j < n) :
    Spec.SMat.get (mk n f) i j = f i j := by
  simp [Spec.SMat.get, mk, hi, hj]

theorem mk_congr {n : Nat} {f g : SF} (h : EqOn n f g) : mk n f = mk n g := by
  unfold mk
  apply List.map_congr_left
  intro i hi
  apply List.map_congr_left
  intro j hj
  exact h i (List.mem_range.1 hi) j (List.mem_range.1 hj)

theorem mk_inj {n : Nat} {f g : SF} (h : mk n f = mk n g) : EqOn n f g := by
  intro i hi j hj
  rw [← get_mk n f hi hj, ← get_mk n g hi hj, h]

/-! ## list sums -/

theorem sumScalars_eq_sumAll (l : List Scalar) : sumScalars l = Poly.sumAll l := rfl

theorem sumS_eq (l : List Scalar) : Spec.SMat.sumS l = Poly.sumAll l := by
  unfold Spec.SMat.sumS Poly.sumAll
  have : Spec.docSum = (· + ·) := by
    funext a b; exact (sum_documented a b).symm
  rw [this]

theorem sumAll_map_add {α : Type} (l : List α) (f g : α → Scalar) :
    Poly.sumAll (l.map fun k => f k + g k) = Poly.sumAll (l.map f) + Poly.sumAll (l.map g) := by
  induction l with
  | nil => rfl
  | cons x t ih =>
    simp only [List.map_cons, sumAll_cons, ih]
    ac_rfl

theorem sumAll_map_o' {α : Type} (l : List α) : Poly.sumAll (l.map (fun _ => Scalar.o)) = .o := by
  induction l with
  | nil => rfl
  | cons x xs ih => rw [List.map_cons, sumAll_cons, ih, sum_zero_left]

theorem sumAll_swap {α β : Type} (l : List α) (l' : List β) (f : α → β → Scalar) :
    Poly.sumAll (l.map fun k => Poly.sumAll (l'.map fun j => f k j)) =
      Poly.sumAll (l'.map fun j => Poly.sumAll (l.map fun k => f k j)) := by
  induction l with
  | nil =>
    simp only [List.map_nil, sumAll_nil]
    exact (sumAll_map_o' l').symm
  | cons x t ih =>
    simp only [List.map_cons, sumAll_cons]
    rw [ih, ← sumAll_map_add]

theorem sumAll_eq_i {l : List Scalar} (h : Scalar.i ∈ l) : Poly.sumAll l = .i := by
  induction l with
  | nil => cases h
  | cons x t ih =>
    rw [sumAll_cons]
    rcases List.mem_cons.1 h with h | h
    · rw [← h]; exact (infty_absorbs_sum _).1
    · rw [ih h]; exact (infty_absorbs_sum _).2

theorem sumAll_map_congr {α : Type} {l : List α} {f g : α → Scalar} (h : ∀ x ∈ l, f x = g x) :
    Poly.sumAll (l.map f) = Poly.sumAll (l.map g) := by
  rw [List.map_congr_left h]

/-! ## matrix operations on functions -/

def fI : SF := fun i j => if i == j then Scalar.m else Scalar.o
def fadd (f g : SF) : SF := fun i j => f i j + g i j
def fmul (n : Nat) (f g : SF) : SF :=
  fun i j => Poly.sumAll ((List.range n).map fun k => f i k * g k j)

theorem identity_eq (n : Nat) : Spec.SMat.identity n = mk n fI := rfl

theorem add_mk (n : Nat) (f g : SF) :
    Spec.SMat.add (mk n f) (mk n g) = mk n (fadd f g) := by
  unfold Spec.SMat.add
  rw [mk_length]
  show _ = mk n (fadd f g)
  unfold mk
  apply List.map_congr_left
  intro i hi
  apply List.map_congr_left
  intro j hj
  have hi' := List.mem_range.1 hi
  have hj' := List.mem_range.1 hj
  have h1 := get_mk n f hi' hj'
  have h2 := get_mk n g hi' hj'
  unfold mk at h1 h2
  rw [h1, h2, ← sum_documented]
  rfl

theorem mul_mk (n : Nat) (f g : SF) :
    Spec.SMat.mul (mk n f) (mk n g) = mk n (fmul n f g) := by
  unfold Spec.SMat.mul
  rw [mk_length]
  show _ = mk n (fmul n f g)
  unfold mk
  apply List.map_congr_left
  intro i hi
  apply List.map_congr_left
  intro j hj
  have hi' := List.mem_range.1 hi
  have hj' := List.mem_range.1 hj
  rw [sumS_eq]
  unfold fmul
  apply sumAll_map_congr
  intro k hk
  have hk' := List.mem_range.1 hk
  have h1 := get_mk n f hi' hk'
  have h2 := get_mk n g hk' hj'
  unfold mk at h1 h2
  rw [h1, h2, ← prod_documented]

theorem fadd_congr {n : Nat} {f f' g g' : SF} (h1 : EqOn n f f') (h2 : EqOn n g g') :
    EqOn n (fadd f g) (fadd f' g') := by
  intro i hi j hj
  unfold fadd
  rw [h1 i hi j hj, h2 i hi j hj]

theorem fmul_congr {n : Nat} {f f' g g' : SF} (h1 : EqOn n f f') (h2 : EqOn n g g') :
    EqOn n (fmul n f g) (fmul n f' g') := by
  intro i hi j hj
  unfold fmul
  apply sumAll_map_congr
  intro k hk
  have hk' := List.mem_range.1 hk
  rw [h1 i hi k hk', h2 k hk' j hj]

theorem fmul_assoc (n : Nat) (a x b : SF) :
    fmul n a (fmul n x b) = fmul n (fmul n a x) b := by
  funext i j
  unfold fmul
  cases hn : List.range n with
  | nil => rfl
  | cons r0 rs =>
    rw [← hn]
    have hne : List.range n ≠ [] := by rw [hn]; exact List.cons_ne_nil _ _
    have hL : ∀ k, a i k * Poly.sumAll ((List.range n).map fun l => x k l * b l j) =
        Poly.sumAll ((List.range n).map fun l => a i k * x k l * b l j) := by
      intro k
      rw [← sumAll_map_mul_left _ _ (by simpa using hne), List.map_map]
      apply sumAll_map_congr
      intro l _
      exact (prod_assoc _ _ _).symm
    have hR : ∀ l, Poly.sumAll ((List.range n).map fun k => a i k * x k l) * b l j =
        Poly.sumAll ((List.range n).map fun k => a i k * x k l * b l j) := by
      intro l
      rw [← sumAll_map_mul_right _ (by simpa using hne), List.map_map]
      rfl
    simp only [hL, hR]
    exact sumAll_swap _ _ _

theorem fmul_fadd (n : Nat) (a x y : SF) :
    fmul n a (fadd x y) = fadd (fmul n a x) (fmul n a y) := by
  funext i j
  unfold fmul fadd
  rw [← sumAll_map_add]
  apply sumAll_map_congr
  intro k _
  exact distrib_left _ _ _

theorem fadd_assoc (x y z : SF) : fadd (fadd x y) z = fadd x (fadd y z) := by
  funext i j; exact sum_assoc _ _ _

/-- `Σₖ f k` when only `k = j` can contribute -/
theorem sumAll_single {n : Nat} {j : Nat} (hj : j < n) (f : Nat → Scalar)
    (h : ∀ k, k < n → k ≠ j → f k = .o) :
    Poly.sumAll ((List.range n).map f) = f j := by
  induction n with
  | zero => omega
  | succ n ih =>
    rw [List.range_succ, List.map_append, sumAll_append, List.map_cons, List.map_nil, sumAll_cons,
      sumAll_nil, sum_zero_right]
    by_cases hjn : j = n
    · subst hjn
      have : Poly.sumAll ((List.range j).map f) = .o := by
        rw [sumAll_map_congr (g := fun _ => Scalar.o)]
        · exact sumAll_map_o' _
        · intro k hk
          have := List.mem_range.1 hk
          exact h k (by omega) (by omega)
      rw [this, sum_zero_left]
    · rw [ih (by omega) (fun k hk hkj => h k (by omega) hkj), h n (by omega) (fun e => hjn e.symm),
        sum_zero_right]

/-- without `∞` in `a`, the identity commutes with it (both sides are `a`) -/
theorem fmul_fI_comm {n : Nat} {a : SF} (hfin : ∀ i, i < n → ∀ j, j < n → a i j ≠ .i) :
    EqOn n (fmul n a fI) (fmul n fI a) := by
  intro i hi j hj
  unfold fmul
  rw [sumAll_single hj, sumAll_single hi]
  · simp only [fI, beq_self_eq_true, if_true]
    rw [prod_unit_left, prod_unit_right]
  · intro k hk hki
    have : (i == k) = false := by simpa using fun e => hki e.symm
    simp only [fI, this]
    exact (zero_annihilates _ (hfin k hk j hj)).1
  · intro k hk hkj
    have : (k == j) = false := by simpa using hkj
    simp only [fI, this]
    exact (zero_annihilates _ (hfin i hi k hk)).2

/-! ## the two chains -/

/-- `Pₖ`: the code's `current` after `k` rounds -/
def P (n : Nat) (a : SF) : Nat → SF
  | 0 => fI
  | k + 1 => fmul n (P n a k) a

/-- `Sₖ`: the code's `fix` after `k` rounds -/
def S (n : Nat) (a : SF) : Nat → SF
  | 0 => fI
  | k + 1 => fadd (S n a k) (P n a (k + 1))

/-- one round of the reference iteration -/
def step (n : Nat) (a s : SF) : SF := fadd fI (fmul n a s)

theorem step_congr {n : Nat} (a : SF) {s s' : SF} (h : EqOn n s s') :
    EqOn n (step n a s) (step n a s') :=
  fadd_congr (EqOn.refl _ _) (fmul_congr (EqOn.refl _ _) h)

theorem closureFrom_succ (n : Nat) (a s : SF) (fuel : Nat) :
    Spec.SMat.closureFrom (mk n a) (fuel + 1) (mk n s) =
      if mk n (step n a s) = mk n s then mk n s
      else Spec.SMat.closureFrom (mk n a) fuel (mk n (step n a s)) := by
  have hs : Spec.SMat.add (Spec.SMat.identity (mk n a).length) (Spec.SMat.mul (mk n a) (mk n s))
      = mk n (step n a s) := by
    rw [mk_length, identity_eq, mul_mk, add_mk]; rfl
  rw [Spec.SMat.closureFrom]
  simp only [hs, beq_iff_eq]

section finite
variable {n : Nat} {a : SF} (hfin : ∀ i, i < n → ∀ j, j < n → a i j ≠ .i)
include hfin

theorem a_mul_P (k : Nat) : EqOn n (fmul n a (P n a k)) (P n a (k + 1)) := by
  induction k with
  | zero => exact fmul_fI_comm hfin
  | succ k ih =>
    show EqOn n (fmul n a (fmul n (P n a k) a)) (fmul n (P n a (k + 1)) a)
    rw [fmul_assoc]
    exact fmul_congr ih (EqOn.refl _ _)

theorem step_S (k : Nat) : EqOn n (step n a (S n a k)) (S n a (k + 1)) := by
  induction k with
  | zero => exact fadd_congr (EqOn.refl _ _) (a_mul_P hfin 0)
  | succ k ih =>
    show EqOn n (fadd fI (fmul n a (fadd (S n a k) (P n a (k + 1)))))
      (fadd (S n a (k + 1)) (P n a (k + 2)))
    rw [fmul_fadd, ← fadd_assoc]
    exact fadd_congr ih (a_mul_P hfin (k + 1))

end finite

/-! ## rank potential -/

theorem sum_map_le {α : Type} (l : List α) (f g : α → Nat) (h : ∀ x ∈ l, f x ≤ g x) :
    (l.map f).sum ≤ (l.map g).sum := by
  induction l with
  | nil => simp
  | cons x t ih =>
    simp only [List.map_cons, List.sum_cons]
    have := h x (List.mem_cons_self ..)
    have := ih (fun y hy => h y (List.mem_cons_of_mem _ hy))
    omega

theorem sum_map_lt {α : Type} (l : List α) (f g : α → Nat) (h : ∀ x ∈ l, f x ≤ g x)
    (hx : ∃ x ∈ l, f x < g x) : (l.map f).sum < (l.map g).sum := by
  induction l with
  | nil => obtain ⟨x, hx, _⟩ := hx; cases hx
  | cons y t ih =>
    simp only [List.map_cons, List.sum_cons]
    have h1 := h y (List.mem_cons_self ..)
    have h2 := sum_map_le t f g (fun z hz => h z (List.mem_cons_of_mem _ hz))
    obtain ⟨x, hxm, hlt⟩ := hx
    rcases List.mem_cons.1 hxm with rfl | hxt
    · omega
    · have := ih (fun z hz => h z (List.mem_cons_of_mem _ hz)) ⟨x, hxt, hlt⟩
      omega

theorem sum_map_le_const {α : Type} (l : List α) (f : α → Nat) (c : Nat) (h : ∀ x ∈ l, f x ≤ c) :
    (l.map f).sum ≤ l.length * c := by
  induction l with
  | nil => simp
  | cons x t ih =>
    simp only [List.map_cons, List.sum_cons, List.length_cons]
    have := h x (List.mem_cons_self ..)
    have := ih (fun y hy => h y (List.mem_cons_of_mem _ hy))
    rw [Nat.succ_mul]
    omega

def Phi (n : Nat) (f : SF) : Nat :=
  ((List.range n).map fun i => ((List.range n).map fun j => (f i j).rank).sum).sum

theorem rank_le_four (s : Scalar) : s.rank ≤ 4 := by cases s <;> decide

theorem Phi_le (n : Nat) (f : SF) : Phi n f ≤ 4 * n * n := by
  unfold Phi
  have h1 : ∀ i ∈ List.range n, ((List.range n).map fun j => (f i j).rank).sum ≤ n * 4 := by
    intro i _
    have := sum_map_le_const (List.range n) (fun j => (f i j).rank) 4 (fun j _ => rank_le_four _)
    simpa using this
  have := sum_map_le_const (List.range n) _ (n * 4) h1
  have e : (List.range n).length * (n * 4) = 4 * n * n := by
    rw [List.length_range]; ac_rfl
  omega

theorem Phi_lt {n : Nat} {f g : SF} (hle : ∀ i, i < n → ∀ j, j < n → (f i j).rank ≤ (g i j).rank)
    (hne : ¬ EqOn n f g) : Phi n f < Phi n g := by
  unfold Phi
  have hex : ∃ i, i < n ∧ ∃ j, j < n ∧ f i j ≠ g i j := by
    apply Classical.byContradiction
    intro hno
    apply hne
    intro i hi j hj
    apply Classical.byContradiction
    intro hfg
    exact hno ⟨i, hi, j, hj, hfg⟩
  obtain ⟨i, hi, j, hj, hfg⟩ := hex
  apply sum_map_lt
  · intro i' hi'
    apply sum_map_le
    intro j' hj'
    exact hle i' (List.mem_range.1 hi') j' (List.mem_range.1 hj')
  · refine ⟨i, List.mem_range.2 hi, ?_⟩
    apply sum_map_lt
    · intro j' hj'
      exact hle i hi j' (List.mem_range.1 hj')
    · refine ⟨j, List.mem_range.2 hj, ?_⟩
      have := hle i hi j hj
      have hr : (f i j).rank ≠ (g i j).rank := by
        intro e
        apply hfg
        revert e
        cases f i j <;> cases g i j <;> simp [Scalar.rank]
      omega

theorem rank_le_add (x y : Scalar) : x.rank ≤ (x + y).rank := by
  cases x <;> cases y <;> decide

/-! ## the chain reaches the reference closure: `∞`-free case -/

theorem closureFrom_chain {n : Nat} {a : SF} (hfin : ∀ i, i < n → ∀ j, j < n → a i j ≠ .i)
    (k : Nat) (hk : EqOn n (S n a (k + 1)) (S n a k)) :
    ∀ fuel j, j ≤ k → (k - j ≤ fuel ∨ 4 * n * n + 1 ≤ fuel + Phi n (S n a j)) →
      Spec.SMat.closureFrom (mk n a) fuel (mk n (S n a j)) = mk n (S n a k) := by
  -- once stationary, always stationary
  have hstat : ∀ j, EqOn n (S n a (j + 1)) (S n a j) → ∀ d, EqOn n (S n a (j + d)) (S n a j) := by
    intro j hj d
    induction d with
    | zero => exact EqOn.refl _ _
    | succ d ih =>
      have h1 : EqOn n (S n a (j + d + 1)) (step n a (S n a (j + d))) := (step_S hfin _).symm
      have h2 : EqOn n (step n a (S n a (j + d))) (step n a (S n a j)) := step_congr a ih
      exact h1.trans (h2.trans ((step_S hfin j).trans hj))
  intro fuel
  induction fuel with
  | zero =>
    intro j hjk hor
    rw [Spec.SMat.closureFrom]
    rcases hor with h | h
    · have : j = k := by omega
      rw [this]
    · have := Phi_le n (S n a j)
      omega
  | succ fuel ih =>
    intro j hjk hor
    rw [closureFrom_succ]
    have hstep := step_S hfin j
    rw [mk_congr hstep]
    split
    · rename_i heq
      have hj := mk_inj heq
      have := hstat j hj (k - j)
      rw [show j + (k - j) = k by omega] at this
      exact (mk_congr this).symm
    · rename_i hneq
      have hne : ¬ EqOn n (S n a j) (S n a (j + 1)) := fun h => hneq (mk_congr h.symm)
      have hjk' : j + 1 ≤ k := by
        rcases Nat.lt_or_ge j k with h | h
        · exact h
        · exfalso
          have : j = k := by omega
          subst this
          exact hne hk.symm
      apply ih (j + 1) hjk'
      rcases hor with h | h
      · left; omega
      · right
        have : Phi n (S n a j) < Phi n (S n a (j + 1)) := by
          apply Phi_lt _ hne
          intro i _ l _
          exact rank_le_add _ _
        omega

theorem closure_of_finite {n : Nat} {a : SF} (hfin : ∀ i, i < n → ∀ j, j < n → a i j ≠ .i)
    (k : Nat) (hk : EqOn n (S n a (k + 1)) (S n a k)) :
    Spec.SMat.closure (mk n a) = mk n (S n a (k + 1)) := by
  unfold Spec.SMat.closure
  rw [mk_length, identity_eq, mk_congr hk]
  exact closureFrom_chain hfin k hk _ 0 (Nat.zero_le _) (Or.inr (by omega))

/-! ## `∞` somewhere in `a`: both chains collapse to the all-`∞` matrix after two rounds -/

def fInf : SF := fun _ _ => Scalar.i

theorem fmul_eq_i {n : Nat} {f g : SF} {i j k : Nat} (hk : k < n) (h : f i k = .i ∨ g k j = .i) :
    fmul n f g i j = .i := by
  unfold fmul
  apply sumAll_eq_i
  apply List.mem_map.2
  refine ⟨k, List.mem_range.2 hk, ?_⟩
  rcases h with h | h
  · rw [h]; exact (infty_absorbs_prod _).1
  · rw [h]; exact (infty_absorbs_prod _).2

theorem fI_ne_i (i j : Nat) : fI i j ≠ .i := by
  unfold fI; split <;> simp

section infinite
variable {n : Nat} {a : SF} {x y : Nat} (hx : x < n) (hy : y < n) (hxy : a x y = .i)
include hx hy hxy

omit hy in
theorem P_one_col (i : Nat) : P n a 1 i y = .i :=
  fmul_eq_i hx (Or.inr hxy)

theorem P_ge_two (j : Nat) : P n a (j + 2) = fInf := by
  induction j with
  | zero =>
    funext i l
    exact fmul_eq_i hy (Or.inl (P_one_col hx hxy i))
  | succ j ih =>
    funext i l
    show fmul n (P n a (j + 2)) a i l = .i
    rw [ih]
    exact fmul_eq_i hx (Or.inl rfl)

theorem S_ge_two (j : Nat) : S n a (j + 2) = fInf := by
  funext i l
  show S n a (j + 1) i l + P n a (j + 2) i l = .i
  rw [P_ge_two hx hy hxy j]
  exact (infty_absorbs_sum _).2

theorem S_stationary_infinite (k : Nat) (hk : EqOn n (S n a (k + 1)) (S n a k)) :
    S n a (k + 1) = fInf := by
  cases k with
  | zero =>
    exfalso
    have h := hk x hx y hy
    have h1 : S n a 1 x y = .i := by
      show fI x y + P n a 1 x y = .i
      rw [P_one_col hx hxy x]
      exact (infty_absorbs_sum _).2
    rw [h1] at h
    exact fI_ne_i x y h.symm
  | succ k => exact S_ge_two hx hy hxy k

theorem closure_of_infinite : Spec.SMat.closure (mk n a) = mk n fInf := by
  have hT1 : ∀ l, step n a fI x l = .i := by
    intro l
    show fI x l + fmul n a fI x l = .i
    rw [fmul_eq_i hy (Or.inl hxy)]
    exact (infty_absorbs_sum _).2
  have hT2 : ∀ s : SF, (∀ l, s x l = .i) → step n a s = fInf := by
    intro s hs
    funext i l
    show fI i l + fmul n a s i l = .i
    rw [fmul_eq_i hx (Or.inr (hs l))]
    exact (infty_absorbs_sum _).2
  have hT2' := hT2 _ hT1
  have hT3 : step n a fInf = fInf := hT2 _ (fun _ => rfl)
  have hfuel : ∃ m, 4 * n * n + 1 = m + 2 := by
    have h1 : 1 ≤ n * n := Nat.mul_pos (by omega) (by omega)
    have h2 : 4 * n * n = 4 * (n * n) := Nat.mul_assoc _ _ _
    exact ⟨4 * n * n - 1, by omega⟩
  obtain ⟨m, hm⟩ := hfuel
  unfold Spec.SMat.closure
  rw [mk_length, identity_eq, hm, closureFrom_succ]
  split
  · rename_i heq
    exfalso
    have := mk_inj heq x hx y hy
    rw [hT1 y] at this
    exact fI_ne_i x y this.symm
  · rw [closureFrom_succ, hT2']
    split
    · rename_i heq; exact heq.symm
    · cases m with
      | zero => rw [Spec.SMat.closureFrom]
      | succ m =>
        rw [closureFrom_succ, hT3]
        simp

end infinite

/-- Whatever `a` is: a stationary point of the code's chain is the reference closure. -/
theorem closure_of_stationary (n : Nat) (a : SF) (k : Nat) (hk : EqOn n (S n a (k + 1)) (S n a k)) :
    Spec.SMat.closure (mk n a) = mk n (S n a (k + 1)) := by
  by_cases hfin : ∀ i, i < n → ∀ j, j < n → a i j ≠ .i
  · exact closure_of_finite hfin k hk
  · have hex : ∃ x, x < n ∧ ∃ y, y < n ∧ a x y = .i := by
      apply Classical.byContradiction
      intro hno
      apply hfin
      intro i hi j hj e
      exact hno ⟨i, hi, j, hj, e⟩
    obtain ⟨x, hx, y, hy, hxy⟩ := hex
    rw [closure_of_infinite hx hy hxy, S_stationary_infinite hx hy hxy k hk]

end Mwp.RelFix
