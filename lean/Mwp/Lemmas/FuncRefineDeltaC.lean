/-
  The syntactic delta invariant along `Analysis.compute`: with NO hypothesis on the node, every
  delta `(value, index)` of every monomial of every relation returned satisfies `value < 3` and
  `index < out.index`; the index only grows; the exit flag is only ever raised together with an
  empty delta graph.
-/
import Mwp.Lemmas.FuncRefineDelta
import Mwp.Model.Analysis
namespace Mwp
namespace Refine
open RelFix

/-- value in the choice domain, index below `hi` -/
def Bnd (hi : Nat) (d : Delta) : Prop := d.1 < 3 ∧ d.2 < hi

theorem Bnd.mono {a b : Nat} (h : a ≤ b) : ∀ d, Bnd a d → Bnd b d :=
  fun _ hd => ⟨hd.1, Nat.lt_of_lt_of_le hd.2 h⟩

theorem RelLD_Bnd_mono {a b : Nat} (h : a ≤ b) {l : RelList} (hl : RelLD (Bnd a) l) :
    RelLD (Bnd b) l := RelLD.mono (Bnd.mono h) hl

/-- the three facts about one result of `compute` -/
def OutOk (idx : Nat) (out : Analysis.Out) : Prop :=
  idx ≤ out.index ∧ (out.exit = true → DG.isEmpty out.dg = true) ∧ RelLD (Bnd out.index) out.rels

theorem OutOk_noexit {idx : Nat} {out : Analysis.Out} (h1 : idx ≤ out.index) (h2 : out.exit = false)
    (h3 : RelLD (Bnd out.index) out.rels) : OutOk idx out :=
  ⟨h1, fun he => (by rw [h2] at he; cases he), h3⟩

theorem OutOk_skip (idx : Nat) (dg : DG.Graph) (sk : List String) :
    OutOk idx (Analysis.skip idx dg sk) :=
  OutOk_noexit (Nat.le_refl _) rfl RelLD_empty

/-! ## leaves -/

theorem entryPoly_bnd (idx : Nat) (e : Gen.VecEntry) : AllD (Bnd (idx + 1)) (Analysis.entryPoly idx e) := by
  cases e with
  | zero => exact AllD_const _
  | tri a b c =>
    refine AllD_fromScalars idx [a, b, c] ?_
    intro k hk
    exact ⟨hk, Nat.lt_succ_self _⟩

theorem createVector_bnd {idx : Nat} {op x : String} {y z : Option String} {res : Nat × List Poly}
    (h : Analysis.createVector idx op x y z = .ok res) :
    res.1 = idx + 1 ∧ ∀ p ∈ res.2, AllD (Bnd (idx + 1)) p := by
  unfold Analysis.createVector at h
  split at h
  · cases h
  · cases h
    refine ⟨rfl, ?_⟩
    intro p hp
    obtain ⟨e, _, rfl⟩ := List.mem_map.1 hp
    exact entryPoly_bnd idx e

theorem binaryOp_bnd {idx : Nat} {x op : String} {l r : Node} {res : Nat × RelList}
    (h : Analysis.binaryOp idx x op l r = .ok res) :
    res.1 = idx + 1 ∧ RelLD (Bnd (idx + 1)) res.2 := by
  unfold Analysis.binaryOp at h
  obtain ⟨y, _, h⟩ := bind_ok h
  obtain ⟨z, _, h⟩ := bind_ok h
  obtain ⟨⟨i, v⟩, hv, h⟩ := bind_ok h
  obtain ⟨rl, hrl, h⟩ := bind_ok h
  cases h
  obtain ⟨e1, e2⟩ := createVector_bnd hv
  simp only at e1 e2
  exact ⟨e1, RelLD_replaceColumn e2 hrl⟩

theorem idAsgn_bnd {P : Delta → Prop} {x y : String} {rl : RelList}
    (h : Analysis.idAsgn x y = .ok rl) : RelLD P rl := by
  unfold Analysis.idAsgn at h
  split at h
  · cases h; exact RelLD_empty
  · refine RelLD_replaceColumn ?_ h
    intro p hp
    simp only [List.mem_cons, List.not_mem_nil, or_false] at hp
    rcases hp with rfl | rfl <;> exact AllD_const _

theorem constAsgn_bnd {P : Delta → Prop} (x : String) : RelLD P (Analysis.constAsgn x) :=
  RelLD_ofVars _

theorem composeAll_bnd {P : Delta → Prop} (ps : List RelList) (h : ∀ l ∈ ps, RelLD P l) :
    RelLD P (Analysis.composeAll ps) := by
  unfold Analysis.composeAll
  suffices ∀ acc, RelLD P acc → RelLD P (ps.foldl RelList.composition acc) from this _ RelLD_empty
  induction ps with
  | nil => intro acc ha; exact ha
  | cons a t ih =>
    intro acc ha
    exact ih (fun l hl => h l (List.mem_cons_of_mem _ hl)) _
      (RelLD_composition ha (h a (List.mem_cons_self ..)))

/-! ### `unaryAsgn` -/

def GoodO (idx : Nat) (o : Option (Nat × RelList)) : Prop :=
  ∀ i rl, o = some (i, rl) → idx ≤ i ∧ RelLD (Bnd i) rl

def GoodM (idx : Nat) (e : Except String (Option (Nat × RelList))) : Prop :=
  ∀ o, e = .ok o → GoodO idx o

theorem GoodO_some {idx i : Nat} {rl : RelList} (h1 : idx ≤ i) (h2 : RelLD (Bnd i) rl) :
    GoodO idx (some (i, rl)) := by
  intro i' rl' h
  cases h
  exact ⟨h1, h2⟩

theorem GoodO_none {idx : Nat} : GoodO idx none := fun _ _ h => by cases h

theorem GoodM_bind {α : Type} {idx : Nat} {e : Except String α}
    {f : α → Except String (Option (Nat × RelList))}
    (h : ∀ a, e = .ok a → GoodM idx (f a)) : GoodM idx (e >>= f) := by
  intro o ho
  obtain ⟨a, ha, hf⟩ := bind_ok ho
  exact h a ha o hf

theorem GoodM_ite {idx : Nat} {c : Prop} [Decidable c] {a b : Except String (Option (Nat × RelList))}
    (ha : GoodM idx a) (hb : GoodM idx b) : GoodM idx (if c then a else b) := by
  split
  · exact ha
  · exact hb

theorem GoodM_tail {idx : Nat} {x : String} {c1 c2 : Prop} [Decidable c1] [Decidable c2]
    {s : Option (Nat × RelList)} (hs : GoodO idx s) :
    GoodM idx ((pure s : Except String _) >>= fun step2 =>
      pure (if c1 then some (idx, Analysis.constAsgn x)
        else if c2 then some (idx, Analysis.constAsgn x) else step2)) := by
  intro o ho
  cases ho
  split
  · exact GoodO_some (Nat.le_refl _) (constAsgn_bnd x)
  · split
    · exact GoodO_some (Nat.le_refl _) (constAsgn_bnd x)
    · exact hs

theorem GoodO_idAsgn {idx : Nat} {x y : String} {l : RelList} (h : Analysis.idAsgn x y = .ok l) :
    GoodO idx (some (idx, l)) :=
  GoodO_some (Nat.le_refl _) (idAsgn_bnd h)

theorem GoodO_binaryOp {idx : Nat} {x op : String} {l r : Node} {p : Nat × RelList}
    (h : Analysis.binaryOp idx x op l r = .ok p) : GoodO idx (some (p.1, p.2)) := by
  obtain ⟨e1, e2⟩ := binaryOp_bnd h
  exact GoodO_some (by omega) (by rw [e1]; exact e2)

theorem GoodO_compose {idx : Nat} {x op x' y' : String} {l r : Node} {p : Nat × RelList} {s : RelList}
    {c : Prop} [Decidable c]
    (h : Analysis.binaryOp idx x op l r = .ok p) (hs : Analysis.idAsgn x' y' = .ok s) :
    GoodO idx (some (p.1, if c then Analysis.composeAll [p.2, s] else Analysis.composeAll [s, p.2])) := by
  obtain ⟨e1, e2⟩ := binaryOp_bnd h
  rw [← e1] at e2
  have hs' : RelLD (Bnd p.1) s := idAsgn_bnd hs
  refine GoodO_some (by omega) ?_
  split
  · refine composeAll_bnd _ ?_
    intro l hl
    simp only [List.mem_cons, List.not_mem_nil, or_false] at hl
    rcases hl with rfl | rfl
    · exact e2
    · exact hs'
  · refine composeAll_bnd _ ?_
    intro l hl
    simp only [List.mem_cons, List.not_mem_nil, or_false] at hl
    rcases hl with rfl | rfl
    · exact hs'
    · exact e2

theorem unaryAsgn_good (idx : Nat) (x op : String) (e0 : Node) :
    GoodM idx (Analysis.unaryAsgn idx x op e0) := by
  unfold Analysis.unaryAsgn
  dsimp only
  have hstep1 : GoodO idx (match e0.rmCast with
      | Node.const _ _ => some (idx, Analysis.constAsgn x)
      | _ => none) := by
    split
    · exact GoodO_some (Nat.le_refl _) (constAsgn_bnd x)
    · exact GoodO_none
  split
  · refine GoodM_ite ?_ ?_
    · refine GoodM_bind ?_; intro p1 hp1
      refine GoodM_bind ?_; intro p2 hp2
      refine GoodM_bind ?_; intro s hs
      refine GoodM_ite ?_ ?_
      · refine GoodM_bind ?_; intro p3 hp3
        refine GoodM_ite ?_ ?_
        · refine GoodM_bind ?_; intro l hl
          exact GoodM_tail (GoodO_idAsgn hl)
        · exact GoodM_tail (GoodO_binaryOp hp3)
      · refine GoodM_ite ?_ ?_
        · refine GoodM_bind ?_; intro l hl
          exact GoodM_tail (GoodO_idAsgn hl)
        · exact GoodM_tail (GoodO_compose hp2 hs)
    · refine GoodM_ite ?_ ?_
      · refine GoodM_bind ?_; intro p3 hp3
        refine GoodM_ite ?_ ?_
        · refine GoodM_bind ?_; intro l hl
          exact GoodM_tail (GoodO_idAsgn hl)
        · exact GoodM_tail (GoodO_binaryOp hp3)
      · refine GoodM_ite ?_ ?_
        · refine GoodM_bind ?_; intro l hl
          exact GoodM_tail (GoodO_idAsgn hl)
        · exact GoodM_tail hstep1
  · exact GoodM_tail hstep1

/-! ## loops -/

theorem whileFinish_ok {q : Bool} {idx : Nat} {rb out : Analysis.Out} (hrb : OutOk idx rb)
    (h : Analysis.whileFinish q rb = .ok out) : OutOk idx out := by
  unfold Analysis.whileFinish at h
  split at h
  · cases h; exact hrb
  · dsimp only at h
    obtain ⟨f, hf, h⟩ := bind_ok h
    have hfD := RelLD_fixpoint (RelLD_composition RelLD_empty hrb.2.2) hf
    split at h
    · obtain ⟨⟨rels, g⟩, hw, h⟩ := bind_ok h
      cases h
      exact OutOk_noexit (hrb.1) rfl (RelLD_whileCorrection hfD hw)
    · obtain ⟨⟨rels, g⟩, hw, h⟩ := bind_ok h
      obtain ⟨d, _, h⟩ := bind_ok h
      cases h
      exact ⟨hrb.1, fun he => he, RelLD_whileCorrection hfD hw⟩

theorem forFinish_ok {q : Bool} {x : String} {idx : Nat} {rb out : Analysis.Out} (hrb : OutOk idx rb)
    (h : Analysis.forFinish q x rb = .ok out) : OutOk idx out := by
  unfold Analysis.forFinish at h
  split at h
  · cases h; exact hrb
  · dsimp only at h
    obtain ⟨f, hf, h⟩ := bind_ok h
    have hfD := RelLD_fixpoint (RelLD_composition (RelLD_ofVars _) hrb.2.2) hf
    split at h
    · obtain ⟨⟨rels, g⟩, hw, h⟩ := bind_ok h
      cases h
      exact OutOk_noexit (hrb.1) rfl (RelLD_loopCorrection hfD hw)
    · obtain ⟨⟨rels, g⟩, hw, h⟩ := bind_ok h
      obtain ⟨d, _, h⟩ := bind_ok h
      cases h
      exact ⟨hrb.1, fun he => he, RelLD_loopCorrection hfD hw⟩

/-! ## statement lists and branches -/

def NodeOk (n : Node) : Prop :=
  ∀ (q : Bool) (idx : Nat) (dg : DG.Graph) (out : Analysis.Out),
    Analysis.compute q idx dg n = .ok out → OutOk idx out

theorem computeList_ok (l : List Node) (IH : ∀ n ∈ l, NodeOk n) :
    ∀ (q : Bool) (idx : Nat) (dg : DG.Graph) (acc : RelList) (sk : List String) (out : Analysis.Out),
      RelLD (Bnd idx) acc → Analysis.computeList q idx dg acc sk l = .ok out → OutOk idx out := by
  induction l with
  | nil =>
    intro q idx dg acc sk out hacc h
    rw [Analysis.computeList] at h
    cases h
    exact OutOk_noexit (Nat.le_refl _) rfl (hacc)
  | cons n ns ih =>
    intro q idx dg acc sk out hacc h
    rw [Analysis.computeList] at h
    obtain ⟨o1, ho1, h⟩ := bind_ok h
    obtain ⟨i1, x1, r1⟩ := IH n (List.mem_cons_self ..) q idx dg o1 ho1
    have hacc' : RelLD (Bnd o1.index) (RelList.composition acc o1.rels) :=
      RelLD_composition (RelLD_Bnd_mono i1 hacc) r1
    dsimp only at h
    split at h
    · rename_i he
      cases h
      exact ⟨i1, fun _ => x1 he, hacc'⟩
    · obtain ⟨i2, x2, r2⟩ := ih (fun m hm => IH m (List.mem_cons_of_mem _ hm)) q o1.index o1.dg _ _ out
        hacc' h
      exact ⟨Nat.le_trans i1 i2, x2, r2⟩

theorem branchList_ok (l : List Node) (IH : ∀ n ∈ l, NodeOk n) :
    ∀ (q : Bool) (idx : Nat) (dg : DG.Graph) (acc : RelList) (sk : List String) (out : Analysis.Out),
      RelLD (Bnd idx) acc → Analysis.branchList q idx dg acc sk l = .ok out → OutOk idx out := by
  induction l with
  | nil =>
    intro q idx dg acc sk out hacc h
    rw [Analysis.branchList] at h
    cases h
    exact OutOk_noexit (Nat.le_refl _) rfl (hacc)
  | cons n ns ih =>
    intro q idx dg acc sk out hacc h
    rw [Analysis.branchList] at h
    obtain ⟨o1, ho1, h⟩ := bind_ok h
    obtain ⟨i1, x1, r1⟩ := IH n (List.mem_cons_self ..) q idx dg o1 ho1
    have hacc1 : RelLD (Bnd o1.index) acc := RelLD_Bnd_mono i1 hacc
    split at h
    · rename_i he
      cases h
      exact ⟨i1, fun _ => x1 he, hacc1⟩
    · obtain ⟨i2, x2, r2⟩ := ih (fun m hm => IH m (List.mem_cons_of_mem _ hm)) q o1.index o1.dg _ _ out
        (RelLD_composition hacc1 r1) h
      exact ⟨Nat.le_trans i1 i2, x2, r2⟩

theorem sizeOf_mem_lt'' {l : List Node} {n : Node} (h : n ∈ l) : sizeOf n < sizeOf l :=
  List.sizeOf_lt_of_mem h

theorem branch_ok (o : Option Node) (IH : ∀ n : Node, sizeOf n < sizeOf o → NodeOk n)
    (q : Bool) (idx : Nat) (dg : DG.Graph) (out : Analysis.Out)
    (h : Analysis.branch q idx dg o = .ok out) : OutOk idx out := by
  cases o with
  | none =>
    rw [Analysis.branch] at h
    cases h
    exact OutOk_skip idx dg []
  | some n =>
    by_cases hcomp : ∃ items, n = .compound items
    · obtain ⟨items, rfl⟩ := hcomp
      cases items with
      | none =>
        rw [Analysis.branch] at h
        cases h
        exact OutOk_skip idx dg []
      | some l =>
        rw [Analysis.branch] at h
        refine branchList_ok l (fun m hm => IH m ?_) q idx dg _ _ out RelLD_empty h
        have := sizeOf_mem_lt'' hm
        simp only [Option.some.sizeOf_spec, Node.compound.sizeOf_spec]
        omega
    · rw [Analysis.branch.eq_4 q idx dg n (fun e => hcomp ⟨_, e⟩) (fun l e => hcomp ⟨_, e⟩)] at h
      obtain ⟨o1, ho1, h⟩ := bind_ok h
      obtain ⟨i1, x1, r1⟩ := IH n (by simp only [Option.some.sizeOf_spec]; omega) q idx dg o1 ho1
      split at h
      · rename_i he
        cases h
        exact ⟨i1, fun _ => x1 he, RelLD_empty⟩
      · cases h
        exact OutOk_noexit (i1) rfl (RelLD_composition RelLD_empty r1)

/-! ## the induction -/

theorem compute_ok_aux (N : Nat) : ∀ node : Node, sizeOf node < N → NodeOk node := by
  induction N with
  | zero => intro node h; omega
  | succ N ih =>
    intro node hsz q idx dg out h
    rw [Analysis.compute.eq_def] at h
    split at h
    · cases h; exact OutOk_skip idx dg []
    · cases h; exact OutOk_skip idx dg []
    · cases h; exact OutOk_skip idx dg []
    · cases h; exact OutOk_skip idx dg []
    · cases h; exact OutOk_skip idx dg []
    · -- x = r
      split at h
      · obtain ⟨⟨i, rl⟩, hb, h⟩ := bind_ok h
        cases h
        obtain ⟨e1, e2⟩ := binaryOp_bnd hb
        simp only at e1 e2
        subst e1
        exact OutOk_noexit (Nat.le_succ _) rfl (e2)
      · cases h
        exact OutOk_noexit (Nat.le_refl _) rfl (constAsgn_bnd _)
      · obtain ⟨o, ho, h⟩ := bind_ok h
        have hg := unaryAsgn_good _ _ _ _ o ho
        split at h
        · cases h
          obtain ⟨g1, g2⟩ := hg _ _ rfl
          exact OutOk_noexit (g1) rfl (g2)
        · cases h
          exact OutOk_skip idx dg _
      · obtain ⟨rl, hrl, h⟩ := bind_ok h
        cases h
        exact OutOk_noexit (Nat.le_refl _) rfl (idAsgn_bnd hrl)
      · cases h
        exact OutOk_skip idx dg _
    · -- op e;
      split at h
      · obtain ⟨⟨nm, bop⟩, _, h⟩ := bind_ok h
        obtain ⟨⟨i, rl⟩, hb, h⟩ := bind_ok h
        cases h
        obtain ⟨e1, e2⟩ := binaryOp_bnd hb
        simp only at e1 e2
        subst e1
        exact OutOk_noexit (Nat.le_succ _) rfl (e2)
      · cases h; exact OutOk_skip idx dg []
    · -- if
      rename_i cond t f
      have hst : sizeOf t < N := by
        simp only [Node.ifs.sizeOf_spec] at hsz; omega
      have hsf : sizeOf f < N := by
        simp only [Node.ifs.sizeOf_spec] at hsz; omega
      obtain ⟨rt, hrt, h⟩ := bind_ok h
      obtain ⟨it, xt, dt⟩ := branch_ok t (fun n hn => ih n (by omega)) q idx dg rt hrt
      split at h
      · cases h
        exact ⟨it, xt, dt⟩
      · obtain ⟨rf, hrf, h⟩ := bind_ok h
        obtain ⟨if_, xf, df⟩ := branch_ok f (fun n hn => ih n (by omega)) q rt.index rt.dg rf hrf
        split at h
        · cases h
          exact ⟨Nat.le_trans it if_, xf, df⟩
        · cases h
          exact OutOk_noexit (Nat.le_trans it if_) rfl (RelLD_add df (RelLD_Bnd_mono if_ dt))
    · -- while
      rename_i cond b
      obtain ⟨rb, hrb, h⟩ := bind_ok h
      exact whileFinish_ok (ih b (by simp only [Node.while_.sizeOf_spec] at hsz; omega) q idx dg rb hrb) h
    · -- do-while
      rename_i cond b
      obtain ⟨rb, hrb, h⟩ := bind_ok h
      exact whileFinish_ok (ih b (by simp only [Node.doWhile.sizeOf_spec] at hsz; omega) q idx dg rb hrb) h
    · -- for
      rename_i init cond next b
      obtain ⟨⟨comp, x⟩, _, h⟩ := bind_ok h
      dsimp only at h
      split at h
      · obtain ⟨rb, hrb, h⟩ := bind_ok h
        exact forFinish_ok (ih b (by simp only [Node.for_.sizeOf_spec] at hsz; omega) q idx dg rb hrb) h
      · cases h; exact OutOk_skip idx dg []
    · cases h; exact OutOk_skip idx dg []
    · -- { l }
      rename_i l
      refine computeList_ok l (fun m hm => ih m ?_) q idx dg _ _ out RelLD_empty h
      have := sizeOf_mem_lt'' hm
      simp only [Node.compound.sizeOf_spec, Option.some.sizeOf_spec] at hsz
      omega
    · -- label
      rename_i name st
      exact ih st (by simp only [Node.label.sizeOf_spec] at hsz; omega) q idx dg out h
    · -- e1, e2
      rename_i es
      refine computeList_ok es (fun m hm => ih m ?_) q idx dg _ _ out RelLD_empty h
      have := sizeOf_mem_lt'' hm
      simp only [Node.exprList.sizeOf_spec] at hsz
      omega
    · -- (T) e;
      rename_i e
      exact ih e (by simp only [Node.cast.sizeOf_spec] at hsz; omega) q idx dg out h
    · split at h
      · cases h; exact OutOk_skip idx dg []
      · cases h; exact OutOk_skip idx dg _
    · cases h; exact OutOk_skip idx dg _

theorem compute_dbnd (q : Bool) (idx : Nat) (dg : DG.Graph) (n : Node) (out : Analysis.Out)
    (h : Analysis.compute q idx dg n = .ok out) :
    idx ≤ out.index ∧ (out.exit = true → DG.isEmpty out.dg = true) ∧ RelLD (Bnd out.index) out.rels :=
  compute_ok_aux (sizeOf n + 1) n (Nat.lt_succ_self _) q idx dg out h

theorem computeList_dbnd (q : Bool) (idx : Nat) (dg : DG.Graph) (acc : RelList) (sk : List String)
    (l : List Node) (out : Analysis.Out) (hacc : RelLD (Bnd idx) acc)
    (h : Analysis.computeList q idx dg acc sk l = .ok out) :
    idx ≤ out.index ∧ (out.exit = true → DG.isEmpty out.dg = true) ∧ RelLD (Bnd out.index) out.rels :=
  computeList_ok l (fun n _ q idx dg out h => compute_dbnd q idx dg n out h) q idx dg acc sk out hacc h

end Refine
end Mwp
