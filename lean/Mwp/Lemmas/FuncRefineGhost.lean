/-
  Ghost histories with well-formed tuples: the history of `insert_node` / `fusion` steps that
  `Analysis.compute` performs on the delta graph only inserts tuples that (1) match failing choice
  vectors only (`FailsAt`, as in `RefG.ghost`) and (2) are well formed (`WFTuple`: strictly
  increasing indices, values in the choice domain) -- for ONE AND THE SAME history.

  The induction of `compute_refG_aux` is re-run with the stronger predicate; `compute_refG_aux`
  itself serves as a black box for index equalities, the shape of the relation lists and the
  `Agrees` fact of loop bodies.  The only input about delta VALUES is the hypothesis `FixV3`.
-/
import Mwp.Lemmas.FuncRefineGhostA
namespace Mwp
namespace Refine
open Mwp.Props.C16 Mwp.Lemmas.Poly Spec RelFix Mwp.Props.C11

/-- what every tuple inserted into the delta graph satisfies -/
def TupOk (idx : Nat) (cmd : Cmd) (t : DG.Node) : Prop := FailsAt idx cmd t ∧ Mwp.Props.C11.WFTuple t

/-- the delta VALUES of the fixpoint relation that a loop handler corrects are in the choice
    domain.  (Discharged elsewhere from a syntactic invariant of `compute`; here a hypothesis.) -/
def FixV3 : Prop :=
  ∀ (q : Bool) (idx : Nat) (dg : DG.Graph) (b : Node) (rb : Analysis.Out) (r ra f : Relation),
    Analysis.compute q idx dg b = .ok rb → rb.rels = [r] →
    (ra = Relation.new [] ∨ ∃ X, ra = Relation.new [X]) →
    Relation.fixpoint (Relation.composition ra r) = .ok f →
    ∀ row ∈ f.mat, ∀ p ∈ row, ∀ m ∈ p, ∀ d ∈ m.deltas, d.1 < 3

theorem TupOk.while_ {idx : Nat} {b : Cmd} {t : DG.Node} (h : TupOk idx b t) :
    TupOk idx (.while_ b) t := ⟨h.1.while_, h.2⟩

theorem TupOk.loop {idx : Nat} {X : String} {b : Cmd} {t : DG.Node} (h : TupOk idx b t) :
    TupOk idx (.loop X b) t := ⟨h.1.loop, h.2⟩

theorem TupOk.seq_head {idx : Nat} {cmd : Cmd} {rest : List Cmd} {t : DG.Node} (h : TupOk idx cmd t) :
    TupOk idx (.seq (cmd :: rest)) t := ⟨h.1.seq_head, h.2⟩

theorem TupOk.seq_tail {idx : Nat} {cmd : Cmd} {rest : List Cmd} {t : DG.Node}
    (h : TupOk (idx + cmd.arity) (.seq rest) t) : TupOk idx (.seq (cmd :: rest)) t :=
  ⟨h.1.seq_tail, h.2⟩

theorem TupOk.ite_then {idx : Nat} {a b : Cmd} {t : DG.Node} (h : TupOk idx a t) :
    TupOk idx (.ite a b) t := ⟨h.1.ite_then, h.2⟩

theorem TupOk.ite_else {idx : Nat} {a b : Cmd} {t : DG.Node} (h : TupOk (idx + a.arity) b t) :
    TupOk idx (.ite a b) t := ⟨h.1.ite_else, h.2⟩

/-! ## the loop handlers -/

theorem ghostW_while {q : Bool} {idx : Nat} {dg : DG.Graph} {b : Cmd} {rb out : Analysis.Out}
    (Rb : RefG q idx dg b rb) (Gb : Ghost (TupOk idx b) dg rb.dg)
    (hv : ∀ r f, rb.rels = [r] → Relation.fixpoint (Relation.composition (Relation.new []) r) = .ok f →
      ∀ row ∈ f.mat, ∀ p ∈ row, ∀ m ∈ p, ∀ d ∈ m.deltas, d.1 < 3)
    (h : Analysis.whileFinish q rb = .ok out) :
    Ghost (TupOk idx (.while_ b)) dg out.dg := by
  have hg0 : Ghost (TupOk idx (.while_ b)) dg rb.dg := Gb.mono (fun t h => h.while_)
  cases he : rb.exit with
  | true =>
    rw [whileFinish_exit h he]
    exact hg0
  | false =>
    obtain ⟨hi, r, hr, wr, vr, semr⟩ := Rb.main he
    obtain ⟨f, r', g, g', hf, hw, ho, hoi, hcase⟩ := whileFinish_inv h he hr
    obtain ⟨w', hvm, _, H⟩ := while_rel wr hf hw
    have hA : ∀ (U : List String), U.Nodup → (∀ v ∈ (Cmd.while_ b).vars, v ∈ U) →
        ∀ (c : Choice), Valid idx (Cmd.while_ b).arity c → ∀ c', Relab idx (Cmd.while_ b).swaps c c' →
        Agrees U idx (.while_ b) r' c c' := by
      intro U hU hsub c hval c' hrel
      rw [Cmd.vars] at hsub
      rw [Cmd.arity] at hval
      rw [Cmd.swaps] at hrel
      rcases semr U hU hsub c hval c' hrel with ⟨s, i⟩ | ⟨s, fr⟩
      · exact Or.inl ⟨by simp only [sem, s], (H c).2.1 i⟩
      · rcases while_point wr hf hw c fr U hU (fun v hv => hsub v (vr v hv)) b idx _ c' s with h1 | h1
        · exact Or.inl h1
        · exact Or.inr (by rw [Cmd.arity]; exact h1)
    rcases hcase with ⟨hq, hex, hdg⟩ | ⟨hq, hg, hfu, hex⟩
    · exact hdg ▸ hg0
    · subst hg
      have fw := (fixpoint_den (Relation.composition_wf _ r emptyRel_wf wr) hf).2.1
      obtain ⟨ts, hts, hP, hW⟩ := whileCorrection_insertedW f r' rb.dg g' fw (hv r f hr hf) hw
      refine hg0.trans ((Ghost.of_inserts hts ?_).trans (Ghost.fuse hfu))
      intro t ht
      refine ⟨?_, hW t ht⟩
      intro U hU hsub c hval hm c' hrel
      exact fails_of_agrees (hA U hU hsub c hval c' hrel) (cell_inf_hasInf w' (hP t ht c hm))

theorem ghostW_for {q : Bool} {idx : Nat} {dg : DG.Graph} {X : String} {b : Cmd} {rb out : Analysis.Out}
    (Rb : RefG q idx dg b rb) (Gb : Ghost (TupOk idx b) dg rb.dg) (hX : X ≠ "") (hfresh : X ∉ b.vars)
    (hv : ∀ r f, rb.rels = [r] → Relation.fixpoint (Relation.composition (Relation.new [X]) r) = .ok f →
      ∀ row ∈ f.mat, ∀ p ∈ row, ∀ m ∈ p, ∀ d ∈ m.deltas, d.1 < 3)
    (h : Analysis.forFinish q X rb = .ok out) :
    Ghost (TupOk idx (.loop X b)) dg out.dg := by
  have hg0 : Ghost (TupOk idx (.loop X b)) dg rb.dg := Gb.mono (fun t h => h.loop)
  cases he : rb.exit with
  | true =>
    rw [forFinish_exit h he]
    exact hg0
  | false =>
    obtain ⟨hi, r, hr, wr, vr, semr⟩ := Rb.main he
    obtain ⟨f, r', g, g', hf, hw, ho, hoi, hcase⟩ := forFinish_inv h he hr
    have hfr : X ∉ r.vars := fun hx => hfresh (vr X hx)
    obtain ⟨w', hvm, _, fw, H⟩ := for_rel wr hX hfr hf hw
    have hA : ∀ (U : List String), U.Nodup → (∀ v ∈ (Cmd.loop X b).vars, v ∈ U) →
        ∀ (c : Choice), Valid idx (Cmd.loop X b).arity c → ∀ c', Relab idx (Cmd.loop X b).swaps c c' →
        Agrees U idx (.loop X b) r' c c' := by
      intro U hU hsub c hval c' hrel
      rw [Cmd.vars] at hsub
      rw [Cmd.arity] at hval
      rw [Cmd.swaps] at hrel
      have hsubb : ∀ v ∈ b.vars, v ∈ U := fun v hv => hsub v (List.mem_cons_of_mem _ hv)
      rcases semr U hU hsubb c hval c' hrel with ⟨s, i⟩ | ⟨s, fr⟩
      · exact Or.inl ⟨by simp only [sem, s], (H c).1 i⟩
      · rcases for_point wr hX hfr hf hw c fr U hU (hsub X (List.mem_cons_self ..))
          (fun v hv => hsubb v (vr v hv)) b idx _ c' s with h1 | h1
        · exact Or.inl h1
        · exact Or.inr (by rw [Cmd.arity]; exact h1)
    rcases hcase with ⟨hq, hex, hdg⟩ | ⟨hq, hg, hfu, hex⟩
    · exact hdg ▸ hg0
    · subst hg
      obtain ⟨ts, hts, hP, hW⟩ := loopCorrection_inserted' f r' rb.dg g' X fw (hv r f hr hf) hw
      refine hg0.trans ((Ghost.of_inserts hts ?_).trans (Ghost.fuse hfu))
      intro t ht
      refine ⟨?_, hW t ht⟩
      intro U hU hsub c hval hm c' hrel
      exact fails_of_agrees (hA U hU hsub c hval c' hrel) (cell_inf_hasInf w' (hP t ht c hm))

/-! ## the statement proved for every node -/

def NodeGhostW (n : Node) : Prop :=
  ∀ cmd, desugar n = some cmd → namesOkA n = true → guardsFresh cmd = true →
    ∀ (q : Bool) idx dg out, Analysis.compute q idx dg n = .ok out → Ghost (TupOk idx cmd) dg out.dg

/-- the black box -/
theorem nodeRefG (n : Node) : NodeRefG n := compute_refG_aux (sizeOf n + 1) n (Nat.lt_succ_self _)

theorem leaf_ghostW (n : Node) (hleaf : isRec n = false) : NodeGhostW n := by
  intro cmd hd hn _ q idx dg out hco
  have hlf := desugar_leaf_loopFree n hleaf cmd hd
  rw [namesOkA_leaf n hleaf] at hn
  obtain ⟨out', ho', R⟩ := compute_refines_aux0 (B := bareClasses) (sizeOf n + 1) n (Nat.lt_succ_self _)
    cmd hd hlf ⟨hn, Or.inl rfl⟩ q idx dg
  rw [ho'] at hco
  cases hco
  exact Ghost.of_eq R.dg

/-! ## statement lists -/

theorem computeList_ghostW_aux (l : List Node) :
    ∀ (cs : List Cmd), desugarL l = some cs → namesOkAL l = true →
    guardsFreshL cs = true → (∀ n ∈ l, NodeGhostW n) →
    ∀ (q : Bool) (idx : Nat) (dg : DG.Graph) (ra : Relation) (sk : List String) (out : Analysis.Out), ra.WF →
      Analysis.computeList q idx dg [ra] sk l = .ok out → Ghost (TupOk idx (.seq cs)) dg out.dg := by
  induction l with
  | nil =>
    intro cs hd _ _ _ q idx dg ra sk out hra hc
    rw [Analysis.computeList] at hc
    cases hc
    exact Ghost.refl _ _
  | cons n ns ih =>
    intro cs hd hn hg IH q idx dg ra sk out hra hco
    rw [desugarL] at hd
    cases hdn : desugar n with
    | none => simp [hdn] at hd
    | some cmd =>
      cases hdl : desugarL ns with
      | none => simp [hdn, hdl] at hd
      | some cs' =>
        simp only [hdn, hdl, Option.some.injEq] at hd
        subst hd
        simp only [namesOkAL, guardsFreshL, Bool.and_eq_true] at hn hg
        rw [Analysis.computeList] at hco
        cases ho1 : Analysis.compute q idx dg n with
        | error e => rw [ho1] at hco; cases hco
        | ok o1 =>
          rw [ho1] at hco
          simp only [bind, Except.bind] at hco
          have R1 := nodeRefG n cmd hdn hn.1 hg.1 q idx dg o1 ho1
          have G1 : Ghost (TupOk idx (.seq (cmd :: cs'))) dg o1.dg :=
            (IH n (List.mem_cons_self ..) cmd hdn hn.1 hg.1 q idx dg o1 ho1).mono
              (fun t h => h.seq_head)
          cases he : o1.exit with
          | true =>
            rw [he] at hco
            simp only [if_true] at hco
            cases hco
            exact G1
          | false =>
            rw [he] at hco
            simp only [Bool.false_eq_true, if_false] at hco
            obtain ⟨hi1, r1, hr1, w1, _, _⟩ := R1.main he
            have hacc : RelList.composition [ra] o1.rels = [Relation.composition ra r1] := by
              rw [hr1, relList_composition_single]
            rw [hacc] at hco
            have wacc := Relation.composition_wf ra r1 hra w1
            have G2 := ih cs' hdl hn.2 hg.2 (fun m hm => IH m (List.mem_cons_of_mem _ hm)) q o1.index o1.dg
              (Relation.composition ra r1) (sk ++ o1.skipped) out wacc hco
            refine G1.trans (G2.mono (fun t h => ?_))
            rw [hi1] at h
            exact h.seq_tail

theorem okAL_of_ltW {l : List Node} {N : Nat} (ih : ∀ n : Node, sizeOf n < N → NodeGhostW n)
    (h : sizeOf l < N) : ∀ n ∈ l, NodeGhostW n :=
  fun n hn => ih n (Nat.lt_trans (sizeOf_mem_lt' hn) h)

/-- `Analysis.if_branch` -/
theorem branch_ghostW (o : Option Node) (IH : ∀ n : Node, sizeOf n < sizeOf o → NodeGhostW n)
    (a : Cmd) (hd : desugarO o = some a) (hn : namesOkAO o = true)
    (hg : guardsFresh a = true) (q : Bool) (idx : Nat) (dg : DG.Graph) (out : Analysis.Out)
    (hco : Analysis.branch q idx dg o = .ok out) : Ghost (TupOk idx a) dg out.dg := by
  cases o with
  | none =>
    rw [Analysis.branch] at hco
    cases hco
    exact Ghost.refl _ _
  | some n =>
    rw [desugarO] at hd
    rw [namesOkAO] at hn
    by_cases hcomp : ∃ items, n = .compound items
    · obtain ⟨items, rfl⟩ := hcomp
      cases items with
      | none =>
        rw [Analysis.branch] at hco
        cases hco
        exact Ghost.refl _ _
      | some l =>
        rw [desugar] at hd
        rw [namesOkA] at hn
        rw [Analysis.branch] at hco
        cases hdl : desugarL l with
        | none => simp [hdl] at hd
        | some cs =>
          simp only [hdl, Option.map_some, Option.some.injEq] at hd
          subst hd
          rw [guardsFresh] at hg
          obtain ⟨out', ho', _, e2, _⟩ := branchList_computeList l q idx dg RelList.empty [] out hco
          have G := computeList_ghostW_aux l cs hdl hn hg (fun m hm => IH m (by
            have := sizeOf_mem_lt' hm
            simp only [Option.some.sizeOf_spec, Node.compound.sizeOf_spec]
            omega)) q idx dg (Relation.new []) [] out' emptyRel_wf ho'
          exact e2 ▸ G
    · rw [Analysis.branch.eq_4 q idx dg n (fun e => hcomp ⟨_, e⟩) (fun l e => hcomp ⟨_, e⟩)] at hco
      cases ho1 : Analysis.compute q idx dg n with
      | error e => rw [ho1] at hco; cases hco
      | ok o1 =>
        rw [ho1] at hco
        simp only [bind, Except.bind] at hco
        have G := IH n (by simp only [Option.some.sizeOf_spec]; omega) a hd hn hg q idx dg o1 ho1
        cases he : o1.exit with
        | true =>
          rw [he] at hco
          simp only [if_true] at hco
          cases hco
          exact G
        | false =>
          rw [he] at hco
          simp only [Bool.false_eq_true, if_false] at hco
          cases hco
          exact G

/-! ## the induction -/

theorem compute_ghostW_aux (H : FixV3) (N : Nat) : ∀ node : Node, sizeOf node < N → NodeGhostW node := by
  induction N with
  | zero => intro node h; omega
  | succ N ih =>
    intro node hsz
    by_cases hrec : isRec node = false
    · exact leaf_ghostW node hrec
    intro cmd hd hn hg q idx dg out hco
    cases node <;> first | (exfalso; exact hrec rfl) | skip
    · -- (T) e;
      rename_i e
      rw [desugar] at hd
      rw [namesOkA] at hn
      rw [Analysis.compute] at hco
      exact ih e (by simp only [Node.cast.sizeOf_spec] at hsz; omega) cmd hd hn hg q idx dg out hco
    · -- e1, e2
      rename_i es
      rw [desugar] at hd
      rw [namesOkA] at hn
      rw [Analysis.compute] at hco
      cases hdl : desugarL es with
      | none => simp [hdl] at hd
      | some cs =>
        simp only [hdl, Option.map_some, Option.some.injEq] at hd
        subst hd
        rw [guardsFresh] at hg
        exact computeList_ghostW_aux es cs hdl hn hg (okAL_of_ltW ih (by
          simp only [Node.exprList.sizeOf_spec] at hsz; omega)) q idx dg (Relation.new []) [] out emptyRel_wf hco
    · -- { l }
      rename_i items
      cases items with
      | none => exact absurd rfl hrec
      | some l =>
        rw [desugar] at hd
        rw [namesOkA] at hn
        rw [Analysis.compute] at hco
        cases hdl : desugarL l with
        | none => simp [hdl] at hd
        | some cs =>
          simp only [hdl, Option.map_some, Option.some.injEq] at hd
          subst hd
          rw [guardsFresh] at hg
          exact computeList_ghostW_aux l cs hdl hn hg (okAL_of_ltW ih (by
            simp only [Node.compound.sizeOf_spec, Option.some.sizeOf_spec] at hsz; omega))
            q idx dg (Relation.new []) [] out emptyRel_wf hco
    · -- if
      rename_i cond t f
      rw [desugar] at hd
      by_cases hcv : changesVariable cond = true
      · rw [if_pos hcv] at hd; cases hd
      rw [if_neg hcv] at hd
      rw [namesOkA] at hn
      simp only [Bool.and_eq_true] at hn
      cases ha : desugarO t with
      | none => simp [ha] at hd
      | some a =>
        cases hb : desugarO f with
        | none => simp [ha, hb] at hd
        | some b =>
          simp only [ha, hb, Option.some.injEq] at hd
          subst hd
          simp only [guardsFresh, Bool.and_eq_true] at hg
          have hst : sizeOf t < N := by
            simp only [Node.ifs.sizeOf_spec] at hsz; omega
          have hsf : sizeOf f < N := by
            simp only [Node.ifs.sizeOf_spec] at hsz; omega
          rw [Analysis.compute] at hco
          cases hrt : Analysis.branch q idx dg t with
          | error e => rw [hrt] at hco; cases hco
          | ok rt =>
            rw [hrt] at hco
            simp only [bind, Except.bind] at hco
            have Rt := branch_refG t (fun n _ => nodeRefG n) a ha hn.1 hg.1 q idx dg rt hrt
            have Gt : Ghost (TupOk idx (.ite a b)) dg rt.dg :=
              (branch_ghostW t (fun n hn' => ih n (by omega)) a ha hn.1 hg.1 q idx dg rt hrt).mono
                (fun t h => h.ite_then)
            cases het : rt.exit with
            | true =>
              rw [het] at hco
              simp only [if_true] at hco
              cases hco
              exact Gt
            | false =>
              rw [het] at hco
              simp only [Bool.false_eq_true, if_false] at hco
              cases hrf : Analysis.branch q rt.index rt.dg f with
              | error e => rw [hrf] at hco; cases hco
              | ok rf =>
                rw [hrf] at hco
                simp only at hco
                have Gf := branch_ghostW f (fun n hn' => ih n (by omega)) b hb hn.2 hg.2 q rt.index rt.dg rf hrf
                have Gtf : Ghost (TupOk idx (.ite a b)) dg rf.dg := by
                  refine Gt.trans (Gf.mono (fun t h => ?_))
                  rw [(Rt.main het).1] at h
                  exact h.ite_else
                cases hef : rf.exit with
                | true =>
                  rw [hef] at hco
                  simp only [if_true] at hco
                  cases hco
                  exact Gtf
                | false =>
                  rw [hef] at hco
                  simp only [Bool.false_eq_true, if_false] at hco
                  cases hco
                  exact Gtf
    · -- while
      rename_i cond b
      rw [desugar] at hd
      by_cases hcv : changesVariable cond = true
      · rw [if_pos hcv] at hd; cases hd
      rw [if_neg hcv] at hd
      rw [namesOkA] at hn
      cases hdb : desugar b with
      | none => simp [hdb] at hd
      | some cb =>
        simp only [hdb, Option.map_some, Option.some.injEq] at hd
        subst hd
        rw [guardsFresh] at hg
        rw [Analysis.compute] at hco
        cases hrb : Analysis.compute q idx dg b with
        | error e => rw [hrb] at hco; cases hco
        | ok rb =>
          rw [hrb] at hco
          simp only [bind, Except.bind] at hco
          have Rb := nodeRefG b cb hdb hn hg q idx dg rb hrb
          have Gb := ih b (by simp only [Node.while_.sizeOf_spec] at hsz; omega) cb hdb hn hg q idx dg rb hrb
          exact ghostW_while Rb Gb (fun r f hr hf => H q idx dg b rb r _ f hrb hr (Or.inl rfl) hf) hco
    · -- do-while
      rename_i cond b
      rw [desugar] at hd
      by_cases hcv : changesVariable cond = true
      · rw [if_pos hcv] at hd; cases hd
      rw [if_neg hcv] at hd
      rw [namesOkA] at hn
      cases hdb : desugar b with
      | none => simp [hdb] at hd
      | some cb =>
        simp only [hdb, Option.map_some, Option.some.injEq] at hd
        subst hd
        rw [guardsFresh] at hg
        rw [Analysis.compute] at hco
        cases hrb : Analysis.compute q idx dg b with
        | error e => rw [hrb] at hco; cases hco
        | ok rb =>
          rw [hrb] at hco
          simp only [bind, Except.bind] at hco
          have Rb := nodeRefG b cb hdb hn hg q idx dg rb hrb
          have Gb := ih b (by simp only [Node.doWhile.sizeOf_spec] at hsz; omega) cb hdb hn hg q idx dg rb hrb
          exact ghostW_while Rb Gb (fun r f hr hf => H q idx dg b rb r _ f hrb hr (Or.inl rfl) hf) hco
    · -- for
      rename_i init cond next b
      rw [desugar] at hd
      rw [namesOkA] at hn
      rw [Analysis.compute] at hco
      cases hlc : Syntax.loopCompat (.for_ init cond next b) with
      | error e => simp [hlc] at hd
      | ok p =>
        obtain ⟨comp, x⟩ := p
        rw [hlc] at hd hco
        cases comp with
        | false => simp at hd
        | true =>
          cases x with
          | none => simp at hd
          | some X =>
            simp only at hd
            cases hdb : desugar b with
            | none => simp [hdb] at hd
            | some cb =>
              simp only [hdb, Option.map_some, Option.some.injEq] at hd
              subst hd
              simp only [guardsFresh, Bool.and_eq_true, bne_iff_ne, ne_eq, Bool.not_eq_true',
                List.contains_eq_mem, decide_eq_false_iff_not] at hg
              simp only [bind, Except.bind] at hco
              cases hrb : Analysis.compute q idx dg b with
              | error e => rw [hrb] at hco; cases hco
              | ok rb =>
                rw [hrb] at hco
                simp only at hco
                have Rb := nodeRefG b cb hdb hn hg.2 q idx dg rb hrb
                have Gb := ih b (by simp only [Node.for_.sizeOf_spec] at hsz; omega) cb hdb hn hg.2 q idx dg rb hrb
                exact ghostW_for Rb Gb hg.1.1 hg.1.2
                  (fun r f hr hf => H q idx dg b rb r _ f hrb hr (Or.inr ⟨X, rfl⟩) hf) hco
    · -- label
      rename_i name st
      rw [desugar] at hd
      rw [namesOkA] at hn
      rw [Analysis.compute] at hco
      exact ih st (by simp only [Node.label.sizeOf_spec] at hsz; omega) cmd hd hn hg q idx dg out hco

/-! ## the statements -/

/-- **One history, both facts.**  The delta graph returned by `compute` arises from the one it was
    given through a history of `insert_node` / `fusion` steps in which every inserted tuple matches
    failing choice vectors only AND is well formed. -/
theorem compute_ghostW (H : FixV3) (node : Node) (cmd : Cmd) (hd : desugar node = some cmd)
    (hn : namesOkA node = true) (hg : guardsFresh cmd = true)
    (q : Bool) (idx : Nat) (dg : DG.Graph) (out : Analysis.Out)
    (hco : Analysis.compute q idx dg node = .ok out) : Ghost (TupOk idx cmd) dg out.dg :=
  compute_ghostW_aux H (sizeOf node + 1) node (Nat.lt_succ_self _) cmd hd hn hg q idx dg out hco

theorem computeList_ghostW (H : FixV3) (l : List Node) (cs : List Cmd) (hd : desugarL l = some cs)
    (hn : namesOkAL l = true) (hg : guardsFreshL cs = true)
    (q : Bool) (idx : Nat) (dg : DG.Graph) (ra : Relation) (sk : List String) (out : Analysis.Out)
    (hra : ra.WF) (hco : Analysis.computeList q idx dg [ra] sk l = .ok out) :
    Ghost (TupOk idx (.seq cs)) dg out.dg :=
  computeList_ghostW_aux l cs hd hn hg
    (fun n _ => compute_ghostW_aux H (sizeOf n + 1) n (Nat.lt_succ_self _)) q idx dg ra sk out hra hco


end Refine
end Mwp
