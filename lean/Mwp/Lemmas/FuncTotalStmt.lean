/-
  TOTALITY of the analysis model, statement level: `Analysis.compute` never takes an error branch
  on a supported statement -- loops included, any nesting -- from any delta graph satisfying the
  structural invariant `DG.GInv` (`compute_total`).  Ingredients: the refinement theorems (every
  successful sub-analysis returns ONE well-formed relation), termination of `Relation.fixpoint`
  (`FixTerm`), totality of the two corrections and of `fusion` under `GInv` (`WriteSet`,
  `DeltaGraphD`).
-/
import Mwp.Lemmas.FuncRefine
import Mwp.Lemmas.FixTerm
import Mwp.Lemmas.WriteSet
namespace Mwp
namespace Refine
open Mwp.Props.C16 Mwp.Lemmas.Poly Spec RelFix Analysis

/-! ## the loop finishers never raise -/

theorem whileFinish_total (q : Bool) (rb : Analysis.Out)
    (hr : rb.exit = false → ∃ r, rb.rels = [r] ∧ r.WF) (hg : DG.GInv rb.dg) :
    ∃ out, Analysis.whileFinish q rb = .ok out ∧ DG.GInv out.dg := by
  unfold Analysis.whileFinish
  cases he : rb.exit with
  | true => exact ⟨rb, by simp; rfl, hg⟩
  | false =>
    obtain ⟨r, hrr, wr⟩ := hr he
    rw [hrr]
    have wc := Relation.composition_wf _ r emptyRel_wf wr
    obtain ⟨f, hf⟩ := Relation.fixpoint_terminates _ wc
    simp only [Bool.false_eq_true, if_false, RelList.empty, relList_composition_single,
      RelList.fixpoint, List.mapM_cons, List.mapM_nil, RelList.whileCorrection, hf]
    simp only [bind, Except.bind, pure, Except.pure, List.foldlM_cons, List.foldlM_nil]
    cases q with
    | true =>
      obtain ⟨r', g', hw, _⟩ := WriteSet.whileCorrection_total f [] DG.GInv.nil
      simp only [if_true, hw]
      exact ⟨_, rfl, hg⟩
    | false =>
      obtain ⟨r', g', hw, hg'⟩ := WriteSet.whileCorrection_total f rb.dg hg
      obtain ⟨g'', hfu, hg''⟩ := DG.fusion_total hg'
      simp only [Bool.false_eq_true, if_false, hw, hfu]
      exact ⟨_, rfl, hg''⟩

theorem forFinish_total (q : Bool) (X : String) (hX : X ≠ "") (rb : Analysis.Out)
    (hr : rb.exit = false → ∃ r, rb.rels = [r] ∧ r.WF) (hg : DG.GInv rb.dg) :
    ∃ out, Analysis.forFinish q X rb = .ok out ∧ DG.GInv out.dg := by
  unfold Analysis.forFinish
  cases he : rb.exit with
  | true => exact ⟨rb, by simp; rfl, hg⟩
  | false =>
    obtain ⟨r, hrr, wr⟩ := hr he
    rw [hrr]
    have wz : (Relation.new [X]).WF := by rw [new_single X hX]; exact zrel_wf X hX
    have wc := Relation.composition_wf _ r wz wr
    obtain ⟨f, hf, hfv, _, _⟩ := Relation.fixpoint_total _ wc
    have hXf : X ∈ f.vars := by
      rw [hfv, Relation.composition_vars_mem _ r wz wr, new_single X hX]
      exact Or.inl (List.mem_singleton.2 rfl)
    simp only [Bool.false_eq_true, if_false, RelList.ofVars, relList_composition_single,
      RelList.fixpoint, List.mapM_cons, List.mapM_nil, RelList.loopCorrection, hf]
    simp only [bind, Except.bind, pure, Except.pure, List.foldlM_cons, List.foldlM_nil]
    cases q with
    | true =>
      obtain ⟨r', g', hw, _⟩ := WriteSet.loopCorrection_total f X hXf [] DG.GInv.nil
      simp only [if_true, hw]
      exact ⟨_, rfl, hg⟩
    | false =>
      obtain ⟨r', g', hw, hg'⟩ := WriteSet.loopCorrection_total f X hXf rb.dg hg
      obtain ⟨g'', hfu, hg''⟩ := DG.fusion_total hg'
      simp only [Bool.false_eq_true, if_false, hw, hfu]
      exact ⟨_, rfl, hg''⟩

/-! ## statements -/

/-- the statement proved for every node by induction on its size -/
def NodeTot (n : Node) : Prop :=
  ∀ cmd, desugar n = some cmd → namesOkA n = true → guardsFresh cmd = true →
    ∀ (q : Bool) (idx : Nat) (dg : DG.Graph), DG.GInv dg →
      ∃ out, Analysis.compute q idx dg n = .ok out ∧ DG.GInv out.dg

theorem leaf_tot (n : Node) (hleaf : isRec n = false) : NodeTot n := by
  intro cmd hd hn _ q idx dg hg
  have hlf := desugar_leaf_loopFree n hleaf cmd hd
  rw [namesOkA_leaf n hleaf] at hn
  obtain ⟨out, ho, R⟩ := compute_refines_aux0 (B := bareClasses) (sizeOf n + 1) n (Nat.lt_succ_self _)
    cmd hd hlf ⟨hn, Or.inl rfl⟩ q idx dg
  exact ⟨out, ho, by rw [R.dg]; exact hg⟩

/-- `compound`'s item walk: the accumulated relation list plays no role for totality -/
theorem computeList_tot (l : List Node) :
    ∀ (cs : List Cmd), desugarL l = some cs → namesOkAL l = true → guardsFreshL cs = true →
    (∀ n ∈ l, NodeTot n) →
    ∀ (q : Bool) (idx : Nat) (dg : DG.Graph) (acc : RelList) (sk : List String), DG.GInv dg →
      ∃ out, Analysis.computeList q idx dg acc sk l = .ok out ∧ DG.GInv out.dg := by
  induction l with
  | nil =>
    intro cs _ _ _ _ q idx dg acc sk hg
    exact ⟨_, by rw [Analysis.computeList]; rfl, hg⟩
  | cons n ns ih =>
    intro cs hd hn hgf IH q idx dg acc sk hg
    rw [desugarL] at hd
    cases hdn : desugar n with
    | none => simp [hdn] at hd
    | some cmd =>
      cases hdl : desugarL ns with
      | none => simp [hdn, hdl] at hd
      | some cs' =>
        simp only [hdn, hdl, Option.some.injEq] at hd
        subst hd
        simp only [namesOkAL, guardsFreshL, Bool.and_eq_true] at hn hgf
        obtain ⟨o1, ho1, g1⟩ := IH n (List.mem_cons_self ..) cmd hdn hn.1 hgf.1 q idx dg hg
        rw [Analysis.computeList, ho1]
        simp only [bind, Except.bind]
        cases he : o1.exit with
        | true =>
          simp only [if_true]
          exact ⟨_, rfl, g1⟩
        | false =>
          simp only [Bool.false_eq_true, if_false]
          exact ih cs' hdl hn.2 hgf.2 (fun m hm => IH m (List.mem_cons_of_mem _ hm)) q o1.index o1.dg _ _ g1

theorem branchList_tot (l : List Node) :
    ∀ (cs : List Cmd), desugarL l = some cs → namesOkAL l = true → guardsFreshL cs = true →
    (∀ n ∈ l, NodeTot n) →
    ∀ (q : Bool) (idx : Nat) (dg : DG.Graph) (acc : RelList) (sk : List String), DG.GInv dg →
      ∃ out, Analysis.branchList q idx dg acc sk l = .ok out ∧ DG.GInv out.dg := by
  induction l with
  | nil =>
    intro cs _ _ _ _ q idx dg acc sk hg
    exact ⟨_, by rw [Analysis.branchList]; rfl, hg⟩
  | cons n ns ih =>
    intro cs hd hn hgf IH q idx dg acc sk hg
    rw [desugarL] at hd
    cases hdn : desugar n with
    | none => simp [hdn] at hd
    | some cmd =>
      cases hdl : desugarL ns with
      | none => simp [hdn, hdl] at hd
      | some cs' =>
        simp only [hdn, hdl, Option.some.injEq] at hd
        subst hd
        simp only [namesOkAL, guardsFreshL, Bool.and_eq_true] at hn hgf
        obtain ⟨o1, ho1, g1⟩ := IH n (List.mem_cons_self ..) cmd hdn hn.1 hgf.1 q idx dg hg
        rw [Analysis.branchList, ho1]
        simp only [bind, Except.bind]
        cases he : o1.exit with
        | true =>
          simp only [if_true]
          exact ⟨_, rfl, g1⟩
        | false =>
          simp only [Bool.false_eq_true, if_false]
          exact ih cs' hdl hn.2 hgf.2 (fun m hm => IH m (List.mem_cons_of_mem _ hm)) q o1.index o1.dg _ _ g1

theorem totL_of_lt {l : List Node} {N : Nat} (ih : ∀ n : Node, sizeOf n < N → NodeTot n)
    (h : sizeOf l < N) : ∀ n ∈ l, NodeTot n :=
  fun n hn => ih n (Nat.lt_trans (sizeOf_mem_lt' hn) h)

/-- `Analysis.if_branch` -/
theorem branch_tot (o : Option Node) (IH : ∀ n : Node, sizeOf n < sizeOf o → NodeTot n)
    (a : Cmd) (hd : desugarO o = some a) (hn : namesOkAO o = true) (hgf : guardsFresh a = true)
    (q : Bool) (idx : Nat) (dg : DG.Graph) (hg : DG.GInv dg) :
    ∃ out, Analysis.branch q idx dg o = .ok out ∧ DG.GInv out.dg := by
  cases o with
  | none => exact ⟨_, by rw [Analysis.branch]; rfl, hg⟩
  | some n =>
    rw [desugarO] at hd
    rw [namesOkAO] at hn
    by_cases hcomp : ∃ items, n = .compound items
    · obtain ⟨items, rfl⟩ := hcomp
      cases items with
      | none => exact ⟨_, by rw [Analysis.branch]; rfl, hg⟩
      | some l =>
        rw [desugar] at hd
        rw [namesOkA] at hn
        rw [Analysis.branch]
        cases hdl : desugarL l with
        | none => simp [hdl] at hd
        | some cs =>
          simp only [hdl, Option.map_some, Option.some.injEq] at hd
          subst hd
          rw [guardsFresh] at hgf
          exact branchList_tot l cs hdl hn hgf (fun m hm => IH m (by
            have := sizeOf_mem_lt' hm
            simp only [Option.some.sizeOf_spec, Node.compound.sizeOf_spec]
            omega)) q idx dg _ _ hg
    · rw [Analysis.branch.eq_4 q idx dg n (fun e => hcomp ⟨_, e⟩) (fun l e => hcomp ⟨_, e⟩)]
      obtain ⟨o1, ho1, g1⟩ := IH n (by simp only [Option.some.sizeOf_spec]; omega) a hd hn hgf q idx dg hg
      rw [ho1]
      simp only [bind, Except.bind]
      cases he : o1.exit with
      | true =>
        simp only [if_true]
        exact ⟨_, rfl, g1⟩
      | false =>
        simp only [Bool.false_eq_true, if_false]
        exact ⟨_, rfl, g1⟩

/-- a successful sub-analysis returns one well-formed relation unless it exits -/
theorem rels_wf_of_compute {n : Node} {cmd : Cmd} (hd : desugar n = some cmd) (hn : namesOkA n = true)
    (hgf : guardsFresh cmd = true) {q : Bool} {idx : Nat} {dg : DG.Graph} {out : Analysis.Out}
    (h : Analysis.compute q idx dg n = .ok out) : out.exit = false → ∃ r, out.rels = [r] ∧ r.WF := by
  intro he
  have R := compute_refG_aux (sizeOf n + 1) n (Nat.lt_succ_self _) cmd hd hn hgf q idx dg out h
  obtain ⟨_, r, hr, wr, _⟩ := R.main he
  exact ⟨r, hr, wr⟩

theorem compute_tot_aux (N : Nat) : ∀ node : Node, sizeOf node < N → NodeTot node := by
  induction N with
  | zero => intro node h; omega
  | succ N ih =>
    intro node hsz
    by_cases hrec : isRec node = false
    · exact leaf_tot node hrec
    intro cmd hd hn hgf q idx dg hg
    cases node <;> first | (exfalso; exact hrec rfl) | skip
    · -- (T) e;
      rename_i e
      rw [desugar] at hd
      rw [namesOkA] at hn
      rw [Analysis.compute]
      exact ih e (by simp only [Node.cast.sizeOf_spec] at hsz; omega) cmd hd hn hgf q idx dg hg
    · -- e1, e2
      rename_i es
      rw [desugar] at hd
      rw [namesOkA] at hn
      rw [Analysis.compute]
      cases hdl : desugarL es with
      | none => simp [hdl] at hd
      | some cs =>
        simp only [hdl, Option.map_some, Option.some.injEq] at hd
        subst hd
        rw [guardsFresh] at hgf
        exact computeList_tot es cs hdl hn hgf (totL_of_lt ih (by
          simp only [Node.exprList.sizeOf_spec] at hsz; omega)) q idx dg _ _ hg
    · -- { l }
      rename_i items
      cases items with
      | none => exact absurd rfl hrec
      | some l =>
        rw [desugar] at hd
        rw [namesOkA] at hn
        rw [Analysis.compute]
        cases hdl : desugarL l with
        | none => simp [hdl] at hd
        | some cs =>
          simp only [hdl, Option.map_some, Option.some.injEq] at hd
          subst hd
          rw [guardsFresh] at hgf
          exact computeList_tot l cs hdl hn hgf (totL_of_lt ih (by
            simp only [Node.compound.sizeOf_spec, Option.some.sizeOf_spec] at hsz; omega))
            q idx dg _ _ hg
    · -- if
      rename_i cond t f
      rw [desugar] at hd
      by_cases hcv : changesVariable cond = true
      · rw [if_pos hcv] at hd; cases hd
      rw [if_neg hcv] at hd
      rw [namesOkA] at hn
      simp only [Bool.and_eq_true] at hn
      cases ha : desugarO t with
      | none => simp [ha] at hd
      | some a =>
        cases hb : desugarO f with
        | none => simp [ha, hb] at hd
        | some b =>
          simp only [ha, hb, Option.some.injEq] at hd
          subst hd
          simp only [guardsFresh, Bool.and_eq_true] at hgf
          have hst : sizeOf t < N := by
            simp only [Node.ifs.sizeOf_spec] at hsz; omega
          have hsf : sizeOf f < N := by
            simp only [Node.ifs.sizeOf_spec] at hsz; omega
          obtain ⟨rt, hrt, gt⟩ := branch_tot t (fun n hn' => ih n (by omega)) a ha hn.1 hgf.1 q idx dg hg
          rw [Analysis.compute, hrt]
          simp only [bind, Except.bind]
          cases het : rt.exit with
          | true =>
            simp only [if_true]
            exact ⟨_, rfl, gt⟩
          | false =>
            simp only [Bool.false_eq_true, if_false]
            obtain ⟨rf, hrf, gf⟩ := branch_tot f (fun n hn' => ih n (by omega)) b hb hn.2 hgf.2 q rt.index rt.dg gt
            rw [hrf]
            simp only
            cases hef : rf.exit with
            | true =>
              simp only [if_true]
              exact ⟨_, rfl, gf⟩
            | false =>
              simp only [Bool.false_eq_true, if_false]
              exact ⟨_, rfl, gf⟩
    · -- while
      rename_i cond b
      rw [desugar] at hd
      by_cases hcv : changesVariable cond = true
      · rw [if_pos hcv] at hd; cases hd
      rw [if_neg hcv] at hd
      rw [namesOkA] at hn
      cases hdb : desugar b with
      | none => simp [hdb] at hd
      | some cb =>
        simp only [hdb, Option.map_some, Option.some.injEq] at hd
        subst hd
        rw [guardsFresh] at hgf
        obtain ⟨rb, hrb, gb⟩ := ih b (by simp only [Node.while_.sizeOf_spec] at hsz; omega) cb hdb hn hgf q idx dg hg
        rw [Analysis.compute, hrb]
        simp only [bind, Except.bind]
        exact whileFinish_total q rb (rels_wf_of_compute hdb hn hgf hrb) gb
    · -- do-while
      rename_i cond b
      rw [desugar] at hd
      by_cases hcv : changesVariable cond = true
      · rw [if_pos hcv] at hd; cases hd
      rw [if_neg hcv] at hd
      rw [namesOkA] at hn
      cases hdb : desugar b with
      | none => simp [hdb] at hd
      | some cb =>
        simp only [hdb, Option.map_some, Option.some.injEq] at hd
        subst hd
        rw [guardsFresh] at hgf
        obtain ⟨rb, hrb, gb⟩ := ih b (by simp only [Node.doWhile.sizeOf_spec] at hsz; omega) cb hdb hn hgf q idx dg hg
        rw [Analysis.compute, hrb]
        simp only [bind, Except.bind]
        exact whileFinish_total q rb (rels_wf_of_compute hdb hn hgf hrb) gb
    · -- for
      rename_i init cond next b
      rw [desugar] at hd
      rw [namesOkA] at hn
      rw [Analysis.compute]
      cases hlc : Syntax.loopCompat (.for_ init cond next b) with
      | error e => simp [hlc] at hd
      | ok p =>
        obtain ⟨comp, x⟩ := p
        rw [hlc] at hd
        cases comp with
        | false => simp at hd
        | true =>
          cases x with
          | none => simp at hd
          | some X =>
            simp only at hd
            cases hdb : desugar b with
            | none => simp [hdb] at hd
            | some cb =>
              simp only [hdb, Option.map_some, Option.some.injEq] at hd
              subst hd
              simp only [guardsFresh, Bool.and_eq_true, bne_iff_ne, ne_eq, Bool.not_eq_true',
                List.contains_eq_mem, decide_eq_false_iff_not] at hgf
              obtain ⟨rb, hrb, gb⟩ := ih b (by simp only [Node.for_.sizeOf_spec] at hsz; omega) cb hdb hn hgf.2 q idx dg hg
              simp only [bind, Except.bind, hrb]
              exact forFinish_total q X hgf.1.1 rb (rels_wf_of_compute hdb hn hgf.2 hrb) gb
    · -- label
      rename_i name st
      rw [desugar] at hd
      rw [namesOkA] at hn
      rw [Analysis.compute]
      exact ih st (by simp only [Node.label.sizeOf_spec] at hsz; omega) cmd hd hn hgf q idx dg hg

end Refine

open Spec Refine in
/-- **The analysis of a supported statement never raises** (loops included, any nesting, any
    size): from any derivation index, in either mode, and from any delta graph satisfying the
    structural invariant `DG.GInv` (every graph the analysis builds does: it starts from `[]` and
    only inserts / fuses), `compute_relation` returns a result -- no `"Diverged"`, `IndexError`,
    `KeyError`, `ValueError`, `AssertionError` or `AttributeError` branch is taken -- and the
    graph it returns satisfies the invariant again. -/
theorem compute_total (node : Node) (cmd : Cmd) (hd : desugar node = some cmd)
    (hnames : namesOkA node = true) (hfresh : guardsFresh cmd = true)
    (q : Bool) (idx : Nat) (dg : DG.Graph) (hg : DG.GInv dg) :
    ∃ out, Analysis.compute q idx dg node = .ok out ∧ DG.GInv out.dg :=
  compute_tot_aux (sizeOf node + 1) node (Nat.lt_succ_self _) cmd hd hnames hfresh q idx dg hg

end Mwp
