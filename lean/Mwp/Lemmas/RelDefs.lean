/-
  Shared specification-side definitions for relations (C10, C01, C02): the meaning of a
  relation at a choice vector, well-formedness, and the bridge to the dense matrices of
  Spec.Calculus.
-/
import Mwp.Model.Relation
import Mwp.Spec.Calculus
namespace Mwp

/-- Value of a relation at a choice vector for a pair of variable names: the cell's value
    ("no term" read as `o`), and the identity outside the relation's own variables. -/
def Relation.den (r : Relation) (c : Choice) (x y : String) : Scalar :=
  match r.vars.idxOf? x, r.vars.idxOf? y with
  | some i, some j => (Matrix.get r.mat i j).evalD c
  | _, _ => if x = y then .m else .o

/-- square matrix of the size of the variable list, distinct names, well-formed monomials -/
def Relation.WF (r : Relation) : Prop :=
  r.vars.Nodup ∧ (∀ v ∈ r.vars, v ≠ "") ∧ r.mat.length = r.vars.length ∧
  (∀ row ∈ r.mat, row.length = r.vars.length) ∧
  (∀ row ∈ r.mat, ∀ p ∈ row, Poly.WF p = true)

/-- semiring sum of a list of scalars with the live tables -/
def sumScalars (l : List Scalar) : Scalar := l.foldl (· + ·) .o

/-- the scalar matrix of a relation at a choice, dense over its own variable list -/
def Relation.toSMat (r : Relation) (c : Choice) : Spec.SMat :=
  (List.range r.vars.length).map fun i => (List.range r.vars.length).map fun j =>
    (Matrix.get r.mat i j).evalD c

/-- no cell evaluates to ∞ at this choice -/
def Relation.inftyFree (r : Relation) (c : Choice) : Prop :=
  ∀ i j, (Matrix.get r.mat i j).evalD c ≠ .i

end Mwp
