/-
  Total correctness of insertion and fusion: the structural invariant `GInv`
  (node lengths, distinct adjacency keys, symmetric adjacency without dangling
  edges) is preserved and no operation raises.
-/
import Mwp.Lemmas.DeltaGraphC

namespace Mwp.DG

/-! ## The structural invariant -/

structure LInv (s : Nat) (lvl : Level) : Prop where
  wf : ∀ n adj, get? lvl n = some adj → n.length = s ∧ (adj.map (·.1)).Nodup
  sym : ∀ x y, E lvl x y → E lvl y x

def GInv (g : Graph) : Prop := ∀ s lvl, get? g s = some lvl → LInv s lvl

/-- `g'` keeps every level of `g` -/
def Keeps (g g' : Graph) : Prop := ∀ s, has g s = true → has g' s = true

theorem Keeps.refl (g : Graph) : Keeps g g := fun _ h => h
theorem Keeps.trans {g1 g2 g3 : Graph} (h1 : Keeps g1 g2) (h2 : Keeps g2 g3) : Keeps g1 g3 :=
  fun s h => h2 s (h1 s h)
theorem Keeps.set (g : Graph) (s : Nat) (lvl : Level) : Keeps g (set g s lvl) := by
  intro s' h; rw [has_set, h]; simp

theorem GInv.nil : GInv [] := by intro s lvl h; simp [get?] at h

theorem GInv.set {g : Graph} {s : Nat} {lvl : Level} (h : GInv g) (hl : LInv s lvl) :
    GInv (set g s lvl) := by
  intro s' lvl' hs
  rw [get?_set] at hs
  split at hs
  · rename_i heq
    rw [beq_iff_eq] at heq
    cases hs; subst heq; exact hl
  · exact h s' lvl' hs

theorem LInv.rpre {s : Nat} {lvl : Level} (h : LInv s lvl) : RPre s lvl :=
  ⟨h.wf, fun x y hxy _ => h.sym x y hxy⟩

theorem LInv.of_post {s : Nat} {lvl lvl' : Level} (h : LInv s lvl) (hp : RPost lvl lvl') :
    LInv s lvl' := by
  refine ⟨?_, ?_⟩
  · intro n a' ha'
    obtain ⟨a, ha, hsub, _⟩ := hp.adj n a' ha'
    exact ⟨(h.wf n a ha).1, (hsub.map (·.1)).nodup (h.wf n a ha).2⟩
  · intro x y hxy
    apply hp.sym x y hxy
    cases hy : has lvl' y
    · have h1 := hp.dang x y hxy hy
      have h2 := (h.sym x y (E_of_adj hp.adj hxy)).has_left
      rw [h1] at h2; cases h2
    · rfl

/-! ## `insertEdge` -/

/-- one direction of `insert_edge` on a level -/
def half (lvl : Level) (x y : Node) (l : Nat) : Level :=
  let lvl' := if has lvl x then lvl else set lvl x []
  set lvl' x (set ((get? lvl' x).getD []) y l)

theorem insertEdge_eq {g : Graph} {n1 n2 : Node} {l : Nat} {lvl : Level}
    (h : get? g n1.length = some lvl) :
    insertEdge g n1 n2 l = .ok (set g n1.length (half (half lvl n1 n2 l) n2 n1 l)) := by
  unfold insertEdge
  simp only [levelOf_ok h]
  rfl

theorem get?_half (lvl : Level) (x y m : Node) (l : Nat) :
    get? (half lvl x y l) m =
      if x == m then some (set ((get? lvl x).getD []) y l) else get? lvl m := by
  unfold half
  simp only
  rw [get?_set]
  cases hx : has lvl x
  · have hn : get? lvl x = none := has_false_iff.1 hx
    simp only [Bool.false_eq_true, if_false, get?_set, beq_self_eq_true, if_true, hn,
      Option.getD_some, Option.getD_none]
    cases x == m <;> rfl
  · simp only [if_true]

theorem has_half (lvl : Level) (x y m : Node) (l : Nat) :
    has (half lvl x y l) m = (x == m || has lvl m) := by
  rw [has_eq_isSome, get?_half, has_eq_isSome]
  cases x == m <;> simp

theorem E_half {lvl : Level} {x y a b : Node} {l : Nat} :
    E (half lvl x y l) a b ↔ E lvl a b ∨ (a = x ∧ b = y) := by
  unfold E
  rw [get?_half]
  by_cases hx : x = a
  · subst hx
    simp only [beq_self_eq_true, if_true, Option.some.injEq, exists_eq_left', has_set,
      Bool.or_eq_true, beq_iff_eq, true_and]
    cases hg : get? lvl x with
    | none =>
      simp [has]
      exact eq_comm
    | some adj =>
      simp only [Option.getD_some, Option.some.injEq, exists_eq_left']
      constructor
      · rintro (h | h)
        · exact Or.inr h.symm
        · exact Or.inl h
      · rintro (h | h)
        · exact Or.inr h
        · exact Or.inl h.symm
  · have : (x == a) = false := by simpa using hx
    simp only [this, Bool.false_eq_true, if_false]
    constructor
    · intro h; exact Or.inl h
    · rintro (h | ⟨h, _⟩)
      · exact h
      · exact absurd h.symm hx

theorem LInv.half_wf {s : Nat} {lvl : Level} {x y : Node} {l : Nat}
    (h : ∀ n adj, get? lvl n = some adj → n.length = s ∧ (adj.map (·.1)).Nodup)
    (hx : x.length = s) :
    ∀ n adj, get? (half lvl x y l) n = some adj → n.length = s ∧ (adj.map (·.1)).Nodup := by
  intro n adj hn
  rw [get?_half] at hn
  split at hn
  · rename_i heq
    rw [beq_iff_eq] at heq
    subst heq
    cases hn
    refine ⟨hx, nodup_keys_set _ _ ?_⟩
    cases hg : get? lvl x with
    | none => simp
    | some a => exact (h x a hg).2
  · exact h n adj hn

theorem LInv.insertEdge {s : Nat} {lvl : Level} {n1 n2 : Node} {l : Nat} (h : LInv s lvl)
    (h1 : n1.length = s) (h2 : n2.length = s) : LInv s (half (half lvl n1 n2 l) n2 n1 l) := by
  refine ⟨LInv.half_wf (LInv.half_wf h.wf h1) h2, ?_⟩
  intro x y hxy
  rw [E_half, E_half] at hxy ⊢
  rcases hxy with (hxy | ⟨hx, hy⟩) | ⟨hx, hy⟩
  · exact Or.inl (Or.inl (h.sym x y hxy))
  · exact Or.inr ⟨hy, hx⟩
  · exact Or.inl (Or.inr ⟨hy, hx⟩)

/-! ## `insertNode` -/

theorem LInv.single (node : Node) : LInv node.length [(node, [])] := by
  refine ⟨?_, ?_⟩
  · intro n adj hn
    rw [get?_cons] at hn
    split at hn
    · rename_i heq
      rw [beq_iff_eq] at heq
      simp only [Option.some.injEq] at hn
      subst hn; subst heq
      exact ⟨rfl, by simp⟩
    · simp [get?] at hn
  · rintro x y ⟨adj, ha, hy⟩
    rw [get?_cons] at ha
    split at ha
    · simp only [Option.some.injEq] at ha
      subst ha
      simp [has] at hy
    · simp [get?] at ha

theorem LInv.fresh {s : Nat} {lvl : Level} {node : Node} (h : LInv s lvl) (hlen : node.length = s)
    (hnot : has lvl node = false) : LInv s (set lvl node []) := by
  have hE : ∀ x y, E (set lvl node []) x y ↔ E lvl x y := by
    intro x y
    rw [E_set]
    by_cases hx : node = x
    · subst hx
      simp only [if_true]
      constructor
      · intro h'; simp [has] at h'
      · intro h'; have := h'.has_left; rw [hnot] at this; cases this
    · simp [hx]
  refine ⟨?_, ?_⟩
  · intro n adj hn
    rw [get?_set] at hn
    split at hn
    · rename_i heq
      rw [beq_iff_eq] at heq
      cases hn; subst heq
      exact ⟨hlen, by simp⟩
    · exact h.wf n adj hn
  · intro x y hxy
    rw [hE] at hxy ⊢
    exact h.sym x y hxy

/-- invariant of the `for node2 in keys` loop of `insert_node` -/
structure InsLI (g : Graph) (node : Node) (rest : List Node) (st : Graph × Bool) : Prop where
  inv : GInv st.1
  keeps : Keeps g st.1
  lvl : ∃ cur, get? st.1 node.length = some cur ∧ ∀ x ∈ rest, has cur x = true
  same : st.2 = false → st.1 = g

theorem insertNodeStep_total {g : Graph} {node node2 : Node} {rest : List Node}
    {st : Graph × Bool} (h : InsLI g node (node2 :: rest) st) :
    ∃ st', insertNodeStep node st node2 = .ok st' ∧ InsLI g node rest st' := by
  obtain ⟨cur, hcur, hkeys⟩ := h.lvl
  unfold insertNodeStep
  split
  · rename_i i hnd
    rw [insertEdge_eq hcur]
    refine ⟨_, rfl, ?_, ?_, ?_, ?_⟩
    · apply h.inv.set
      have hL := h.inv _ _ hcur
      obtain ⟨a2, ha2⟩ := has_true_iff.1 (hkeys node2 (List.mem_cons_self ..))
      exact hL.insertEdge rfl (hL.wf node2 a2 ha2).1
    · exact h.keeps.trans (Keeps.set _ _ _)
    · refine ⟨_, get?_set_self, ?_⟩
      intro x hx
      rw [has_half, has_half, hkeys x (List.mem_cons_of_mem _ hx)]
      simp
    · intro hf; cases hf
  · rename_i hnd
    exact absurd hnd (nodeDiff_ne_true_none _ _)
  · exact ⟨st, rfl, h.inv, h.keeps, ⟨cur, hcur, fun x hx => hkeys x (List.mem_cons_of_mem _ hx)⟩,
      h.same⟩

theorem insertNode_total {g : Graph} (node : Node) (hG : GInv g) :
    ∃ g', insertNode g node = .ok g' ∧ GInv g' ∧ Keeps g g' := by
  unfold insertNode
  simp only
  split
  · exact ⟨_, rfl, hG.set (LInv.single node), Keeps.set _ _ _⟩
  · rename_i lvl hlvl
    split
    · exact ⟨g, rfl, hG, Keeps.refl g⟩
    · rename_i hnot
      have hnot' : has lvl node = false := by simpa using hnot
      have key := foldlM_total (ε := String) (InsLI g node) (insertNodeStep node)
        (fun st x rest h => insertNodeStep_total h) (lvl.map (·.1)) (g, false)
        ⟨hG, Keeps.refl g, ⟨lvl, hlvl, fun x hx => (has_iff_mem_keys lvl x).2 hx⟩, fun _ => rfl⟩
      obtain ⟨⟨g1, ins⟩, hfold, hli⟩ := key
      rw [hfold]
      simp only [bind, Except.bind]
      cases ins with
      | true => exact ⟨g1, rfl, hli.inv, hli.keeps⟩
      | false =>
        have hsame : g1 = g := hli.same rfl
        subst hsame
        simp only [Bool.false_eq_true, if_false]
        rw [levelOf_ok hlvl]
        exact ⟨_, rfl, hG.set ((hG _ _ hlvl).fresh rfl hnot'), Keeps.set _ _ _⟩

/-! ## Fusion -/

theorem foldl_add_init (l : List Nat) (a : Nat) : l.foldl (· + ·) a = a + l.foldl (· + ·) 0 := by
  induction l generalizing a with
  | nil => simp
  | cons x t ih => simp only [List.foldl_cons]; rw [ih (a + x), ih (0 + x)]; omega

theorem length_le_nodeCount {g : Graph} {s : Nat} {lvl : Level} (h : get? g s = some lvl) :
    lvl.length ≤ nodeCount g := by
  unfold nodeCount
  induction g with
  | nil => simp [get?] at h
  | cons x t ih =>
    rw [get?_cons] at h
    simp only [List.map_cons, List.foldl_cons]
    rw [foldl_add_init]
    split at h
    · simp only [Option.some.injEq] at h
      subst h; omega
    · have := ih h; omega

theorem fuseIndex_total {g : Graph} {size index : Nat} {node : Node} (hG : GInv g)
    (hs : has g size = true) :
    ∃ g', fuseIndex 3 size node g index = .ok g' ∧ GInv g' ∧ Keeps g g' := by
  obtain ⟨lvl, hlvl⟩ := has_true_iff.1 hs
  unfold fuseIndex isFull
  rw [levelOf_ok hlvl]
  simp only [bind, Except.bind]
  cases hn : has lvl node with
  | false => exact ⟨g, rfl, hG, Keeps.refl g⟩
  | true =>
    obtain ⟨adj, hadj⟩ := has_true_iff.1 hn
    simp only [if_true, hadj, pure, Except.pure]
    split
    · have hL := hG _ _ hlvl
      have hlen : node.length = size := (hL.wf node adj hadj).1
      have hfuel : lvl.length < nodeCount g + 1 := by
        have := length_le_nodeCount hlvl; omega
      obtain ⟨lvl', hrm, hpost, _, _⟩ :=
        removeNode_total g size hs (nodeCount g + 1) lvl node index hL.rpre hn hfuel
      rw [set_get_self hlvl] at hrm
      rw [hrm]
      obtain ⟨g2, hins, hG2, hk2⟩ :=
        insertNode_total (removeIndex node index) (hG.set (hL.of_post hpost))
      exact ⟨g2, hins, hG2, (Keeps.set _ _ _).trans hk2⟩
    · exact ⟨g, rfl, hG, Keeps.refl g⟩

theorem fuseNode_total {g : Graph} {size : Nat} (node : Node) (hG : GInv g)
    (hs : has g size = true) :
    ∃ g', fuseNode 3 size g node = .ok g' ∧ GInv g' ∧ Keeps g g' := by
  unfold fuseNode
  have key := foldlM_total (ε := String) (fun (_ : List Nat) g' => GInv g' ∧ Keeps g g')
    (fuseIndex 3 size node) ?_ (node.map (·.2)) g ⟨hG, Keeps.refl g⟩
  · obtain ⟨r, hr, h1, h2⟩ := key
    exact ⟨r, hr, h1, h2⟩
  · rintro g1 index rest ⟨h1, h2⟩
    obtain ⟨g2, hrun, hG2, hk⟩ := fuseIndex_total (index := index) (node := node) h1 (h2 size hs)
    exact ⟨g2, hrun, hG2, h2.trans hk⟩

theorem fuseLevel_total {g : Graph} {size : Nat} (hG : GInv g) (hs : has g size = true) :
    ∃ g', fuseLevel 3 g size = .ok g' ∧ GInv g' ∧ Keeps g g' := by
  obtain ⟨lvl, hlvl⟩ := has_true_iff.1 hs
  unfold fuseLevel
  rw [levelOf_ok hlvl]
  simp only [bind, Except.bind]
  have key := foldlM_total (ε := String) (fun (_ : List Node) g' => GInv g' ∧ Keeps g g')
    (fuseNode 3 size) ?_ (lvl.map (·.1)) g ⟨hG, Keeps.refl g⟩
  · obtain ⟨r, hr, h1, h2⟩ := key
    exact ⟨r, hr, h1, h2⟩
  · rintro g1 node rest ⟨h1, h2⟩
    obtain ⟨g2, hrun, hG2, hk⟩ := fuseNode_total node h1 (h2 size hs)
    exact ⟨g2, hrun, hG2, h2.trans hk⟩

theorem span_loop_eq {α : Type} (p : α → Bool) : ∀ (l acc : List α),
    List.span.loop p l acc = (acc.reverse ++ l.takeWhile p, l.dropWhile p)
  | [], acc => by simp [List.span.loop]
  | a :: t, acc => by
    rw [List.span.loop]
    cases h : p a
    · simp [List.takeWhile, List.dropWhile, h]
    · simp [span_loop_eq p t, List.takeWhile, List.dropWhile, h]

theorem span_eq {α : Type} (p : α → Bool) (l : List α) :
    l.span p = (l.takeWhile p, l.dropWhile p) := by
  unfold List.span; rw [span_loop_eq]; simp

theorem mem_sortDesc {l : List Nat} {x : Nat} (h : x ∈ sortDesc l) : x ∈ l := by
  unfold sortDesc at h
  induction l with
  | nil => simp at h
  | cons a t ih =>
    rw [List.foldr_cons] at h
    generalize List.foldr (fun x acc => let (a, b) := acc.span (· > x); a ++ x :: b) [] t = acc at h ih
    simp only [span_eq, List.mem_append, List.mem_cons] at h
    rcases h with h | h | h
    · exact List.mem_cons_of_mem _ (ih ((List.takeWhile_sublist _).subset h))
    · rw [h]; exact List.mem_cons_self ..
    · exact List.mem_cons_of_mem _ (ih ((List.dropWhile_sublist _).subset h))

theorem fusion_total {g : Graph} (hG : GInv g) : ∃ g', fusion g = .ok g' ∧ GInv g' := by
  unfold fusion
  have key := foldlM_total (ε := String)
    (fun (rest : List Nat) g' => GInv g' ∧ ∀ s ∈ rest, has g' s = true)
    (fuseLevel 3) ?_ (sortDesc (g.map (·.1))) g
    ⟨hG, fun s hs => (has_iff_mem_keys g s).2 (mem_sortDesc hs)⟩
  · obtain ⟨r, hr, h1, _⟩ := key
    exact ⟨r, hr, h1⟩
  · rintro g1 size rest ⟨h1, h2⟩
    obtain ⟨g2, hrun, hG2, hk⟩ := fuseLevel_total h1 (h2 size (List.mem_cons_self ..))
    exact ⟨g2, hrun, hG2, fun s hs => hk s (h2 s (List.mem_cons_of_mem _ hs))⟩

/-- Whatever is inserted (well-formed or not), no insertion and no fusion pass raises. -/
theorem run_total (ops : List Op) : ∃ g, run ops = .ok g ∧ GInv g := by
  unfold run
  have key := foldlM_total (ε := String) (fun (_ : List Op) g' => GInv g') step ?_ ops []
    GInv.nil
  · exact key
  · intro g1 op rest h1
    cases op with
    | insert t =>
      obtain ⟨g2, hrun, hG2, _⟩ := insertNode_total t h1
      exact ⟨g2, hrun, hG2⟩
    | fuse => exact fusion_total h1

end Mwp.DG
