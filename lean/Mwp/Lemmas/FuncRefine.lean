/-
  From one statement to a whole function, part 3: `Analysis.func` against the calculus.
  `func_sem` packages, for a function satisfying `FuncOk`, everything the property files need:
  the verdict in terms of derivability (both modes), and for a finite result the choice object
  and the reported relation in terms of `sem`.
-/
import Mwp.Lemmas.FuncRefineCore
namespace Mwp
namespace Refine
open Mwp.Props.C16 Mwp.Lemmas.Poly Spec RelFix Analysis

/-- every ∞ delta list of a well-formed relation with bounded deltas is a well-formed sequence -/
theorem infDeltas_wfseq {r : Relation} (wr : r.WF) {index : Nat} (hb : RelD (Bnd index) r) :
    ∀ s ∈ r.infDeltas [], Choices.WFSeq Gen.domain index s := by
  intro s hs
  simp only [Relation.infDeltas, Poly.evalInf, List.mem_flatMap, List.mem_map, List.mem_filter] at hs
  obtain ⟨row, hrow, p, hp, m, ⟨hm, _⟩, rfl⟩ := hs
  have hwf := wr.2.2.2.2 row hrow p hp
  unfold Poly.WF at hwf
  rw [List.all_eq_true] at hwf
  refine ⟨hwf m hm, ?_⟩
  intro d hd
  have := matD_iff_mem.1 hb row hrow p hp m hm d hd
  refine ⟨this.2, ?_⟩
  have h3 := this.1
  simp only [Gen.domain, List.mem_cons, List.not_mem_nil, or_false]
  omega

/-- `Relation.apply_choice` is the dense scalar matrix of the relation -/
theorem applyChoice_eq_toSMat (r : Relation) (c : Choice) : r.applyChoice c = r.toSMat c := by
  unfold Relation.applyChoice Relation.toSMat
  simp only
  apply List.map_congr_left
  intro i _
  apply List.map_congr_left
  intro j _
  unfold Poly.choiceScalar
  cases h : (Matrix.get r.mat i j).eval? c with
  | none => rw [eval?_none_evalD h]; rfl
  | some s => rw [eval?_some_evalD h]; rfl

/-- what the choice object generated from a relation accepts -/
theorem eval_exact {r : Relation} (wr : r.WF) {index : Nat} (hb : RelD (Bnd index) r) (ch : Choices.T)
    (he : r.eval Gen.domain index = .ok ch) :
    (∀ v, v.length = index → (∀ x ∈ v, x < 3) → (Choices.isValid ch v = true ↔ Fin' r v)) ∧
    (Choices.infinite ch = true ↔ ∀ v, v.length = index → (∀ x ∈ v, x < 3) → HasInf r v) ∧
    (Choices.infinite ch = false → ∃ f, Choices.first ch = .ok (some f) ∧ f.length = index ∧
      (∀ x ∈ f, x < 3) ∧ Choices.isValid ch f = true) := by
  obtain ⟨c', hgen, hvalid, _, hinf, hfirst⟩ := Props.C04.generate_exact Gen.domain index
    (Choices.dedup (r.infDeltas [])) (by decide) (by decide)
    (fun s hs => infDeltas_wfseq wr hb s ((Choices.mem_dedup _ _).1 hs))
  have : c' = ch := by
    have h2 : Choices.generate Gen.domain index (Choices.dedup (r.infDeltas [])) = .ok ch := he
    rw [hgen] at h2
    simpa using h2
  subst this
  have hav : ∀ v, Choices.Avoids (Choices.dedup (r.infDeltas [])) v ↔ Fin' r v := by
    intro v
    rw [Misc15.avoids_infDeltas, fin_iff_not_hasInf, hasInf_iff_cell wr]
    constructor
    · rintro h ⟨row, hrow, p, hp, e⟩; exact h row hrow p hp e
    · intro h row hrow p hp e; exact h ⟨row, hrow, p, hp, e⟩
  refine ⟨?_, ?_, ?_⟩
  · intro v hl h3
    rw [hvalid v ((vecOK_iff index v).2 ⟨hl, h3⟩), hav]
  · rw [hinf]
    constructor
    · intro h v hl h3
      apply Classical.byContradiction
      intro hno
      exact h ⟨v, (vecOK_iff index v).2 ⟨hl, h3⟩, (hav v).2 ((fin_iff_not_hasInf r v).2 hno)⟩
    · rintro h ⟨v, hv, ha⟩
      obtain ⟨hl, h3⟩ := (vecOK_iff index v).1 hv
      exact (fin_iff_not_hasInf r v).1 ((hav v).1 ha) (h v hl h3)
  · intro hf
    obtain ⟨f, h1, h2, h3⟩ := hfirst hf
    obtain ⟨hl, hx⟩ := (vecOK_iff index f).1 h2
    exact ⟨f, h1, hl, hx, (hvalid f h2).2 h3⟩

/-- **`Analysis.func` against the calculus.**  For a function definition satisfying `FuncOk`,
    read as the command `cmd`, whenever `func` returns (either mode):

    * the variable list `vs` of the function is duplicate-free, contains every variable of `cmd`, and
      is contained in the reported (duplicate-free) variable list;
    * over any universe `U ⊇ vs`: the result is infinite iff the derivation fails at every vector;
    * run to completion (`stop = false`) no early exit is reported; and whenever the result is not
      infinite: relation and choice object are reported, the index is `cmd.arity`, the relation is
      well formed over `r.variables`, the choice object accepts exactly the vectors at which the
      relation is ∞-free and has a first choice, and at every valid vector the relation `Agrees`
      with the calculus. -/
theorem func_sem (node : Node) (stop : Bool) (r : FuncRes) (hok : FuncOk node = true)
    (h : func node stop = .ok r) (cmd : Cmd) (hd : desugarFunc node = some cmd) :
    ∃ vs, Syntax.variables node = .ok vs ∧ vs.Nodup ∧ (∀ v ∈ cmd.vars, v ∈ vs) ∧
      (∀ v ∈ vs, v ∈ r.variables) ∧ r.variables.Nodup ∧
      (∀ U : List String, U.Nodup → (∀ v ∈ vs, v ∈ U) →
        (r.infinite = true ↔
          ∀ c : Choice, c.length = cmd.arity → (∀ v ∈ c, v < 3) → sem U cmd 0 c = none)) ∧
      (r.infinite = false → ∃ rel ch, r.relation = some rel ∧ r.choices = some ch ∧
        rel.WF ∧ rel.vars = r.variables ∧ r.index = cmd.arity ∧
        (∀ v : Choice, v.length = cmd.arity → (∀ x ∈ v, x < 3) →
          (Choices.isValid ch v = true ↔ Fin' rel v)) ∧
        (∃ f, Choices.first ch = .ok (some f) ∧ f.length = cmd.arity ∧ (∀ x ∈ f, x < 3) ∧
          Choices.isValid ch f = true) ∧
        ∀ U : List String, U.Nodup → (∀ v ∈ vs, v ∈ U) →
          ∀ c : Choice, Valid 0 cmd.arity c → ∀ c', Relab 0 cmd.swaps c c' → Agrees U 0 cmd rel c c') := by
  obtain ⟨d, l, cs, vs, rfl, hdl, hvs, hn, hg, hcov, hdf, hbody⟩ := FuncOk.unpack hok
  have hcmd : cmd = .seq cs := by rw [hdf] at hd; exact (Option.some.inj hd).symm
  subst hcmd
  obtain ⟨vars, dI, index, rels, sk, hv, hcm, hvar, hidx, hT, hF⟩ := func_inv2 _ stop r h
  have hvv : vars = vs := by rw [hvs] at hv; exact (Except.ok.inj hv).symm
  subst hvv
  rw [hbody] at hcm
  obtain ⟨hnd, hne, _⟩ := variables_wf _ vars hvs
  obtain ⟨r0, hr0, w0, hsub0, _, hfin, hexit⟩ := cmds_core stop vars hnd hne l cs hdl hn hg dI index rels sk hcm
  have hfirst : rels.headD (Relation.new []) = r0 := by rw [hr0]; rfl
  rw [hfirst] at hvar hF
  have hcov' : ∀ v ∈ (Cmd.seq cs).vars, v ∈ vars := by rw [Cmd.vars]; exact hcov
  refine ⟨vars, hvs, hnd, hcov', by rw [hvar]; exact hsub0, by rw [hvar]; exact w0.1, ?_, ?_⟩
  · intro U hU hsU
    have hsc : ∀ v ∈ (Cmd.seq cs).vars, v ∈ U := fun v hv => hsU v (hcov' v hv)
    cases dI with
    | true =>
      obtain ⟨ops, g, hrun, hemp, hP⟩ := hexit rfl
      constructor
      · intro _ c hl h3
        exact fails_of_collapse _ ops g hrun hemp hP U hU hsc c hl h3
      · intro _; exact (hT rfl).1
    | false =>
      obtain ⟨hi, hb, hA⟩ := hfin rfl
      obtain ⟨ch, heval, hinfeq, _⟩ := hF rfl
      obtain ⟨_, hinf, _⟩ := eval_exact w0 hb ch heval
      rw [hinfeq, hinf, hi]
      constructor
      · intro hall c hl h3
        obtain ⟨hl0, h30⟩ := relabelAt0_vec (Cmd.seq cs) hl h3
        have A := hA U hU hsU hsc (relabelAt 0 (Cmd.seq cs) c) (valid_of_vec hl0 h30) c
          (relabelAt_relab 0 (Cmd.seq cs) c).symm
        exact fails_of_agrees A (hall _ hl0 h30)
      · intro hall v hl h3
        obtain ⟨hl0, h30⟩ := relabelAt0_vec (Cmd.seq cs) hl h3
        have A := hA U hU hsU hsc v (valid_of_vec hl h3) _ (relabelAt_relab 0 (Cmd.seq cs) v)
        rcases A with ⟨_, i⟩ | ⟨s, _⟩
        · exact i
        · rw [hall _ hl0 h30] at s; cases s
  · intro hf
    have hdI : dI = false := by
      cases dI with
      | false => rfl
      | true => have := (hT rfl).1; rw [hf] at this; cases this
    subst hdI
    obtain ⟨hi, hb, hA⟩ := hfin rfl
    obtain ⟨ch, heval, hinfeq, hrc⟩ := hF rfl
    obtain ⟨hch, hrel⟩ := hrc hf
    obtain ⟨hval, _, hfst⟩ := eval_exact w0 hb ch heval
    rw [hi] at hval hfst
    refine ⟨r0, ch, hrel, hch, w0, hvar.symm, by rw [hidx, hi], hval, hfst (by rw [← hinfeq]; exact hf), ?_⟩
    intro U hU hsU c hv c' hr
    exact hA U hU hsU (fun v hv => hsU v (hcov' v hv)) c hv c' hr

/-! ## `relabel`: a bijection on the vectors over {0,1,2} of length `cmd.arity` -/

theorem relabel_invol (cmd : Cmd) (c : Choice) : relabel cmd (relabel cmd c) = c := by
  rw [relabel_eq_relabelAt, relabel_eq_relabelAt, relabelAt0_invol]

theorem relabel_vec (cmd : Cmd) {c : Choice} (hl : c.length = cmd.arity) (h3 : ∀ v ∈ c, v < 3) :
    (relabel cmd c).length = cmd.arity ∧ ∀ v ∈ relabel cmd c, v < 3 := by
  rw [relabel_eq_relabelAt]; exact relabelAt0_vec cmd hl h3

theorem relabel_relab (cmd : Cmd) (c : Choice) : Relab 0 cmd.swaps c (relabel cmd c) := by
  rw [relabel_eq_relabelAt]; exact relabelAt_relab 0 cmd c

/-- the two readings of an agreement -/
theorem Agrees.some_iff_fin {U : List String} {idx : Nat} {cmd : Cmd} {r : Relation} {c c' : Choice}
    (A : Agrees U idx cmd r c c') : (∃ k M, sem U cmd idx c' = some (k, M)) ↔ Fin' r c := by
  rcases A with ⟨s, i⟩ | ⟨s, f⟩
  · constructor
    · rintro ⟨k, M, e⟩; rw [s] at e; cases e
    · intro f; exact absurd f (not_fin_of_hasInf i)
  · exact ⟨fun _ => f, fun _ => ⟨_, _, s⟩⟩

theorem Agrees.matrix {U : List String} {idx : Nat} {cmd : Cmd} {r : Relation} {c c' : Choice}
    (A : Agrees U idx cmd r c c') {k : Nat} {M : SMat} (e : sem U cmd idx c' = some (k, M)) :
    M = matOf U (r.den c) := by
  rcases A with ⟨s, _⟩ | ⟨s, _⟩
  · rw [s] at e; cases e
  · rw [s] at e; cases e; rfl

/-! ## `FuncOk` from checks on the syntax tree -/

/-- `FuncOk` holds for a function whose body is a block of supported statements satisfying
    `namesOkA`, whose accepted `for` guards are plain names (`guardsPlain`), and whose
    reading mentions neither a reserved name (`true` / `false`) nor an empty name as a variable. -/
theorem funcOk_of_plain (d : Node) (l : List Node) (cs : List Cmd) (hdl : desugarL l = some cs)
    (hn : namesOkAL l = true) (hp : guardsPlainL l = true)
    (hres : ∀ v ∈ varsL cs, v ≠ "" ∧ v ∉ Gen.reserved) :
    FuncOk (.funcDef d (.compound (some l))) = true := by
  have hg : guardsFreshL cs = true :=
    guardsFreshL_of_plain l (fun n _ cmd hd hp => guardsFresh_of_guardsPlain n cmd hd hp) cs hdl hp
  have hrec := desugarL_vars l (fun n _ cmd hd => desugar_vars (sizeOf n + 1) n (Nat.lt_succ_self _) cmd hd)
    cs hdl
  unfold FuncOk
  simp only [hn, hdl, Bool.true_and]
  unfold Syntax.variables
  rw [varsN_eq]
  simp only [bind, Except.bind, pure, Except.pure, hg, Bool.true_and, List.all_eq_true,
    List.contains_eq_mem, decide_eq_true_eq]
  intro v hv
  rw [mem_normVars']
  rcases hrec v hv with h | h | h
  · cases d with
    | decl nm ty i =>
      cases ty with
      | funcDecl a => simp only [varsP]; exact List.mem_append_right _ h
      | _ => simp only [varsP]; exact List.mem_append_right _ h
    | _ => simp only [varsP]; exact List.mem_append_right _ h
  · exact absurd h (hres v hv).2
  · exact absurd h (hres v hv).1

end Refine
end Mwp
