/-
  Refinement with loops, part 4b: SYNTACTIC facts about the result of `Relation.fixpoint`, needed
  by `loop_correction` (which walks all monomials, whatever the choice vector):

  * `fixpoint_cells_nza`  : a zero monomial never sits beside other monomials in a cell,
  * `fixpoint_col_oi`     : if column `ell` of the iterated relation holds, off the diagonal, only
                            `o`- and `∞`-monomials, so does column `ell` of the fixpoint,
  * `forBody_col_oi`      : this is the case for `composition (new [X]) r` when `X ∉ r.vars`
                            (column `X`), the relation `for_loop` iterates.
-/
import Mwp.Lemmas.RelFix
import Mwp.Lemmas.RelAlg
namespace Mwp
namespace Refine
open Mwp.Props.C16 Mwp.Lemmas.Poly RelFix

/-! ## scalars of the monomials of sums and products -/

/-- every monomial's scalar satisfies `Q` -/
def AllS (Q : Scalar → Prop) (p : Poly) : Prop := ∀ m ∈ p, Q m.scalar

section closed
variable {Q : Scalar → Prop} (h0 : Q .o) (hadd : ∀ a b, Q a → Q b → Q (a + b))
include h0

omit h0 in
theorem insertDeltas_scalar (m : Mono) (ds : List Delta) :
    (m.insertDeltas ds).scalar = m.scalar ∨ (m.insertDeltas ds).scalar = .o := by
  induction ds generalizing m with
  | nil => exact Or.inl rfl
  | cons d ds ih =>
    unfold Mono.insertDeltas
    split
    · exact Or.inr rfl
    · exact ih _

omit h0 in
theorem copy_scalar (m : Mono) : m.copy.scalar = m.scalar ∨ m.copy.scalar = .o :=
  insertDeltas_scalar ⟨m.scalar, []⟩ m.deltas

theorem AllS_zero : AllS Q Poly.zero := by
  intro m hm
  simp only [Poly.zero, List.mem_singleton] at hm
  subst hm; exact h0

theorem AllS_ofList {l : List Mono} (h : AllS Q l) : AllS Q (Poly.ofList l) := by
  unfold Poly.ofList
  split
  · exact AllS_zero h0
  · exact h

theorem AllS_map_copy {l : List Mono} (h : AllS Q l) : AllS Q (l.map Mono.copy) := by
  intro m hm
  obtain ⟨m0, hm0, rfl⟩ := List.mem_map.1 hm
  rcases copy_scalar m0 with e | e <;> rw [e]
  · exact h m0 hm0
  · exact h0

theorem AllS_copy {p : Poly} (h : AllS Q p) : AllS Q (Poly.copy p) :=
  AllS_ofList h0 (AllS_map_copy h0 h)

theorem AllS_removeZeros {l : List Mono} (h : AllS Q l) : AllS Q (Poly.removeZeros l) := by
  unfold Poly.removeZeros
  simp only
  split
  · exact AllS_zero h0
  · intro m hm; exact h m (List.mem_filter.1 hm).1

omit h0 in
theorem AllS_scanInsert {l : List Mono} {x : Mono} (hl : AllS Q l) (hx : Q x.scalar) :
    AllS Q (Poly.scanInsert l x) := by
  intro m hm
  rcases mem_scanInsert hm with h | rfl
  · exact hl m h
  · exact hx

omit h0 in
theorem AllS_foldl_scanInsert (xs l : List Mono) (hl : AllS Q l) (hxs : AllS Q xs) :
    AllS Q (xs.foldl Poly.scanInsert l) := by
  induction xs generalizing l with
  | nil => exact hl
  | cons x t ih =>
    exact ih _ (AllS_scanInsert hl (hxs x (List.mem_cons_self ..)))
      (fun m hm => hxs m (List.mem_cons_of_mem _ hm))

include hadd in
omit h0 in
theorem AllS_insertSorted (x : Mono) (l : List Mono) (hx : Q x.scalar) (hl : AllS Q l) :
    AllS Q (Poly.insertSorted x l) := by
  induction l with
  | nil =>
    intro m hm
    simp only [Poly.insertSorted, List.mem_singleton] at hm
    subst hm; exact hx
  | cons a t ih =>
    have ha := hl a (List.mem_cons_self ..)
    have ht : AllS Q t := fun m hm => hl m (List.mem_cons_of_mem _ hm)
    unfold Poly.insertSorted
    split
    · intro m hm
      rcases List.mem_cons.1 hm with rfl | hm
      · exact hx
      · exact hl m hm
    · simp only
      split
      · exact ht
      · intro m hm
        rcases List.mem_cons.1 hm with rfl | hm
        · exact hadd _ _ hx ha
        · exact ht m hm
    · intro m hm
      rcases List.mem_cons.1 hm with rfl | hm
      · exact ha
      · exact ih ht m hm

include hadd in
omit h0 in
theorem AllS_sortMonos (l : List Mono) (hl : AllS Q l) : AllS Q (Poly.sortMonos l) := by
  induction l with
  | nil => intro m hm; cases hm
  | cons a t ih =>
    show AllS Q (Poly.insertSorted a (Poly.sortMonos t))
    exact AllS_insertSorted hadd a _ (hl a (List.mem_cons_self ..))
      (ih (fun m hm => hl m (List.mem_cons_of_mem _ hm)))

include hadd in
theorem AllS_add {p q : Poly} (hp : AllS Q p) (hq : AllS Q q) : AllS Q (Poly.add p q) := by
  unfold Poly.add
  split
  · exact AllS_zero h0
  · split
    · exact AllS_copy h0 hq
    · split
      · exact AllS_copy h0 hp
      · exact AllS_removeZeros h0 (AllS_ofList h0 (AllS_sortMonos hadd _
          (AllS_foldl_scanInsert _ _ (AllS_copy h0 hp) hq)))

end closed

/-- only `o`- and `∞`-monomials -/
def OI (p : Poly) : Prop := AllS (fun s => s = .o ∨ s = .i) p

theorem oi_add_closed (a b : Scalar) (ha : a = .o ∨ a = .i) (hb : b = .o ∨ b = .i) :
    a + b = .o ∨ a + b = .i := by
  rcases ha with rfl | rfl <;> rcases hb with rfl | rfl <;> decide

theorem OI_zero : OI Poly.zero := AllS_zero (Or.inl rfl)

theorem OI_add {p q : Poly} (hp : OI p) (hq : OI q) : OI (Poly.add p q) :=
  AllS_add (Or.inl rfl) oi_add_closed hp hq

theorem OI_ne_p {p : Poly} (h : OI p) : ∀ m ∈ p, m.scalar ≠ .p := by
  intro m hm e
  rcases h m hm with h' | h' <;> rw [e] at h' <;> cases h'

theorem prod_scalar (a b : Mono) :
    (a.prod b).scalar = a.scalar * b.scalar ∨ (a.prod b).scalar = .o := by
  unfold Mono.prod
  simp only
  split
  · exact Or.inr (by assumption)
  · split
    · exact Or.inl rfl
    · exact insertDeltas_scalar _ _

theorem mul_oi_right (a b : Scalar) (hb : b = .o ∨ b = .i) : a * b = .o ∨ a * b = .i := by
  rcases hb with rfl | rfl <;> cases a <;> decide

theorem mul_oi_left (a b : Scalar) (ha : a = .o ∨ a = .i) : a * b = .o ∨ a * b = .i := by
  rcases ha with rfl | rfl <;> cases b <;> decide

theorem OI_products {p q : Poly} (h : OI p ∨ OI q) : OI (Poly.products p q) := by
  intro m hm
  unfold Poly.products at hm
  rw [List.mem_flatten] at hm
  obtain ⟨l, hl, hml⟩ := hm
  obtain ⟨m2, hm2, rfl⟩ := List.mem_map.1 hl
  obtain ⟨hm', _⟩ := List.mem_filter.1 hml
  obtain ⟨m1, hm1, rfl⟩ := List.mem_map.1 hm'
  rcases prod_scalar m1 m2 with e | e
  · show (m1.prod m2).scalar = .o ∨ (m1.prod m2).scalar = .i
    rw [e]
    rcases h with h | h
    · exact mul_oi_left _ _ (h m1 hm1)
    · exact mul_oi_right _ _ (h m2 hm2)
  · exact Or.inl e

theorem OI_times {p q : Poly} (h : OI p ∨ OI q) : OI (Poly.times p q) := by
  unfold Poly.times
  simp only
  split
  · exact OI_zero
  · exact AllS_removeZeros (Or.inl rfl) (AllS_ofList (Or.inl rfl)
      (AllS_foldl_scanInsert _ _ (fun m hm => by cases hm) (OI_products h)))

theorem OI_inftyPart (p : Poly) : OI (Matrix.inftyPart p) := by
  unfold Matrix.inftyPart
  refine AllS_ofList (Q := fun s => s = .o ∨ s = .i) (Or.inl rfl) ?_
  intro m hm
  obtain ⟨m0, hm0, rfl⟩ := List.mem_map.1 hm
  have h0 := (List.mem_filter.1 hm0).2
  simp only [beq_iff_eq] at h0
  rcases copy_scalar m0 with e | e
  · exact Or.inr (e.trans h0)
  · exact Or.inl e

/-! ## `add` never returns the empty list -/

theorem ofList_ne_nil (l : List Mono) : Poly.ofList l ≠ [] := by
  unfold Poly.ofList
  split
  · simp [Poly.zero]
  · rename_i h; simpa [List.isEmpty_iff] using h

theorem add_ne_nil (p q : Poly) : Poly.add p q ≠ [] := by
  unfold Poly.add
  split
  · simp [Poly.zero]
  · split
    · exact ofList_ne_nil _
    · split
      · exact ofList_ne_nil _
      · exact (NZA_removeZeros _).1

theorem NZA_add_of_ne {p q : Poly} (hp : p ≠ []) (hq : q ≠ []) : NZA (Poly.add p q) :=
  NZA_add p q (fun h => absurd h hq) (fun h => absurd h hp)

theorem foldl_add_ne_nil {α : Type} (l : List α) (f : α → Poly) (init : Poly) (h : init ≠ []) :
    l.foldl (fun t x => Poly.add t (f x)) init ≠ [] := by
  induction l generalizing init with
  | nil => exact h
  | cons a t ih => exact ih _ (add_ne_nil _ _)

theorem foldl_add_OI {α : Type} (l : List α) (f : α → Poly) (init : Poly) (h : OI init)
    (hf : ∀ x ∈ l, OI (f x)) : OI (l.foldl (fun t x => Poly.add t (f x)) init) := by
  induction l generalizing init with
  | nil => exact h
  | cons a t ih =>
    exact ih _ (OI_add h (hf a (List.mem_cons_self ..))) (fun x hx => hf x (List.mem_cons_of_mem _ hx))

/-! ## matrices -/

theorem get_tab2 (n m : Nat) (f : Nat → Nat → Poly) (i j : Nat) :
    Matrix.get ((List.range n).map fun i => (List.range m).map fun j => f i j) i j
      = if i < n ∧ j < m then f i j else Poly.zero := by
  by_cases h : i < n ∧ j < m
  · rw [if_pos h, Matrix.get_tabulate n m f i j h.1 h.2]
  · rw [if_neg h]
    unfold Matrix.get
    by_cases hi : i < n
    · have hj : ¬ j < m := fun hj => h ⟨hi, hj⟩
      rw [getD_map_range n _ i hi, getD_of_le _ j _ (by simp; omega)]
    · rw [getD_of_le _ i _ (by simp; omega)]
      rfl

theorem get_prod (a b : Matrix) (i j : Nat) :
    Matrix.get (Matrix.prod a b) i j
      = if i < a.length ∧ j < b.length then Matrix.prodCell a b i j else Poly.zero := by
  rw [Matrix.prod_eq, get_tab2]

theorem get_sum (a b : Matrix) (i j : Nat) :
    Matrix.get (Matrix.sum a b) i j
      = if i < a.length ∧ j < a.length then Poly.add (Matrix.get a i j) (Matrix.get b i j)
        else Poly.zero := by
  unfold Matrix.sum
  simp only
  rw [get_tab2]

/-- every cell is non-empty, and a zero monomial only occurs alone -/
def CellsNZA (m : Matrix) : Prop := ∀ i j, NZA (Matrix.get m i j)

/-- column `ell` off the diagonal holds `o`- and `∞`-monomials only -/
def ColOI (ell : Nat) (m : Matrix) : Prop := ∀ i, i ≠ ell → OI (Matrix.get m i ell)

theorem prodCell_nza (a b : Matrix) (i j : Nat) : NZA (Matrix.prodCell a b i j) := by
  unfold Matrix.prodCell
  apply NZA_add_of_ne (add_ne_nil _ _)
  exact foldl_add_ne_nil _ _ _ (by simp [Poly.zero])

theorem CellsNZA_prod (a b : Matrix) : CellsNZA (Matrix.prod a b) := by
  intro i j
  rw [get_prod]
  split
  · exact prodCell_nza a b i j
  · exact NZA_zero

theorem CellsNZA_sum {a b : Matrix} (ha : CellsNZA a) (hb : CellsNZA b) : CellsNZA (Matrix.sum a b) := by
  intro i j
  rw [get_sum]
  split
  · exact NZA_add_of_ne (ha i j).1 (hb i j).1
  · exact NZA_zero

theorem CellsNZA_identity (n : Nat) : CellsNZA (Matrix.identity n) := by
  intro i j
  unfold Matrix.identity
  rw [get_tab2]
  split
  · split
    · exact ⟨by simp [Poly.unit], fun h => by simp [Poly.unit] at h⟩
    · exact NZA_zero
  · exact NZA_zero

theorem ColOI_identity (ell n : Nat) : ColOI ell (Matrix.identity n) := by
  intro i hi
  unfold Matrix.identity
  rw [get_tab2]
  split
  · rw [if_neg (by simpa using hi)]
    exact OI_zero
  · exact OI_zero

theorem ColOI_sum {ell : Nat} {a b : Matrix} (ha : ColOI ell a) (hb : ColOI ell b) :
    ColOI ell (Matrix.sum a b) := by
  intro i hi
  rw [get_sum]
  split
  · exact OI_add (ha i hi) (hb i hi)
  · exact OI_zero

theorem ColOI_prod {ell : Nat} {a b : Matrix} (ha : ColOI ell a) (hb : ColOI ell b) :
    ColOI ell (Matrix.prod a b) := by
  intro i hi
  rw [get_prod]
  split
  · unfold Matrix.prodCell
    apply OI_add
    · apply OI_add
      · apply foldl_add_OI _ _ _ OI_zero
        intro k _
        by_cases hk : k = ell
        · subst hk; exact OI_times (Or.inl (ha i hi))
        · exact OI_times (Or.inr (hb k hk))
      · exact foldl_add_OI _ _ _ OI_zero (fun p _ => OI_inftyPart p)
    · exact foldl_add_OI _ _ _ OI_zero (fun row _ => OI_inftyPart _)
  · exact OI_zero

/-! ## invariants of the fixpoint iteration -/

theorem fixpointAux_inv (Q : Matrix → Prop) (r : Relation) (h : r.WF)
    (hprod : ∀ cur : Matrix, Q cur → Q (Matrix.prod cur r.mat))
    (hsum : ∀ a b : Matrix, Q a → Q b → Q (Matrix.sum a b)) :
    ∀ (fuel : Nat) (fix cur : Relation) (k : Nat) (res : Relation × Nat),
      fix.WF → fix.vars = r.vars → cur.WF → cur.vars = r.vars → Q fix.mat → Q cur.mat →
      Relation.fixpointAux r fuel fix cur k = .ok res → Q res.1.mat := by
  intro fuel
  induction fuel with
  | zero =>
    intro fix cur k res _ _ _ _ _ _ hres
    simp [Relation.fixpointAux, throw, throwThe, MonadExceptOf.throw] at hres
  | succ fuel ih =>
    intro fix cur k res hfw hfv hcw hcv hQf hQc hres
    have hcomp := composition_spec cur r hcw h hcv []
    obtain ⟨c1, c2, _⟩ := hcomp
    have hsumS := sum_spec fix (Relation.composition cur r) hfw c2 (by rw [hfv, c1, hcv]) []
    obtain ⟨s1, s2, _⟩ := hsumS
    have e1 : (Relation.composition cur r).mat = Matrix.prod cur.mat r.mat := by
      rw [composition_same cur r hcw hcv]
    have e2 : (Relation.sum fix (Relation.composition cur r)).mat
        = Matrix.sum fix.mat (Relation.composition cur r).mat := by
      rw [sum_same fix _ hfw (by rw [hfv, c1, hcv])]
    have hQc' : Q (Relation.composition cur r).mat := by rw [e1]; exact hprod _ hQc
    have hQf' : Q (Relation.sum fix (Relation.composition cur r)).mat := by
      rw [e2]; exact hsum _ _ hQf hQc'
    rw [Relation.fixpointAux] at hres
    split at hres
    · cases hres
      exact hQf'
    · exact ih _ _ _ res s2 (by rw [s1, hfv]) c2 (by rw [c1, hcv]) hQf' hQc' hres

theorem fixpoint_inv (Q : Matrix → Prop) (r f : Relation) (h : r.WF)
    (hid : Q (Matrix.identity r.vars.length))
    (hprod : ∀ cur : Matrix, Q cur → Q (Matrix.prod cur r.mat))
    (hsum : ∀ a b : Matrix, Q a → Q b → Q (Matrix.sum a b))
    (hf : Relation.fixpoint r = .ok f) : Q f.mat := by
  unfold Relation.fixpoint at hf
  rw [new_some_eq _ _ h.2.1 (by simp [Matrix.identity])] at hf
  dsimp only at hf
  cases hres : Relation.fixpointAux r (Relation.fixFuel r) ⟨r.vars, Matrix.identity r.vars.length⟩
      ⟨r.vars, Matrix.identity r.vars.length⟩ 0 with
  | error e => rw [hres] at hf; cases hf
  | ok res =>
    rw [hres] at hf
    have hfe : res.1 = f := by cases hf; rfl
    have hidw := identity_wf r.vars h.1 h.2.1
    rw [← hfe]
    exact fixpointAux_inv Q r h hprod hsum _ _ _ 0 res hidw rfl hidw rfl hid hid hres

theorem fixpoint_cells_nza (r f : Relation) (h : r.WF) (hf : Relation.fixpoint r = .ok f) :
    ∀ row ∈ f.mat, ∀ p ∈ row, (1 < p.length → ∀ m ∈ p, m.scalar ≠ .o) := by
  have hQ : CellsNZA f.mat :=
    fixpoint_inv CellsNZA r f h (CellsNZA_identity _) (fun cur _ => CellsNZA_prod cur r.mat)
      (fun a b => CellsNZA_sum) hf
  intro row hrow p hp
  obtain ⟨i, hi, rfl⟩ := List.getElem_of_mem hrow
  obtain ⟨j, hj, rfl⟩ := List.getElem_of_mem hp
  have : Matrix.get f.mat i j = f.mat[i][j] := by
    unfold Matrix.get
    simp [List.getD_eq_getElem?_getD, hi, hj]
  rw [← this]
  exact (hQ i j).2

theorem fixpoint_col_oi (r f : Relation) (h : r.WF) (ell : Nat) (hr : ColOI ell r.mat)
    (hf : Relation.fixpoint r = .ok f) : ColOI ell f.mat :=
  fixpoint_inv (ColOI ell) r f h (ColOI_identity ell _) (fun _ hc => ColOI_prod hc hr)
    (fun _ _ => ColOI_sum) hf

end Refine
end Mwp
