/-
  Syntax theorems (C05, C07, C19): entry point.

  * `Mwp.loopsN_eq_allLoops`            (C19)  SyntaxThmsVars
  * `Mwp.coverage_full_untouched`       (C07)  SyntaxThmsCov2
  * `Mwp.coverage_mod_full`             (C07)  SyntaxThmsCov2
  * `Mwp.full_implies_modellable_partial` (C05) SyntaxThmsCalc
  * `Mwp.full_implies_effect_free_conditions` (C05) SyntaxThmsConds

  Below: the witnesses showing that each hypothesis of the C05 theorem is needed, and positive
  examples for the repaired behaviours (effectful conditions, nested unary).  (`covN`, `desugar`, `unmodellable` are compiled by
  well-founded recursion and do not reduce in the kernel, so these are evaluated with `simp`
  over the defining equations rather than `decide`.)
-/
import Mwp.Lemmas.SyntaxThmsVars
import Mwp.Lemmas.SyntaxThmsCov2
import Mwp.Lemmas.SyntaxThmsCalc
import Mwp.Lemmas.SyntaxThmsConds
namespace Mwp
open Mwp Mwp.Syntax

/-- `void f() { s }` -/
def wrapF (s : Node) : Node :=
  .funcDef (.decl (some "f") (.funcDecl none) none) (.compound (some [s]))

/-- `if (x = y + z) { z = x + y; }` -/
def witEffectfulCond : Node :=
  wrapF (.ifs (.assign "=" (.id "x") (.binop "+" (.id "y") (.id "z")))
    (some (.compound (some [.assign "=" (.id "z") (.binop "+" (.id "x") (.id "y"))]))) none)

/-- `while (x++ < 10) { y = y + 1; }` -/
def witEffectfulWhile : Node :=
  wrapF (.while_ (.binop "<" (.unop "p++" (.id "x")) (.const "int" "10"))
    (.compound (some [.assign "=" (.id "y") (.binop "+" (.id "y") (.const "int" "1"))])))

/-- `while (x < 10) { y = y + 1; }` -/
def exPlainWhile : Node :=
  wrapF (.while_ (.binop "<" (.id "x") (.const "int" "10"))
    (.compound (some [.assign "=" (.id "y") (.binop "+" (.id "y") (.const "int" "1"))])))

/-- `return x++;` -/
def witEffectfulReturn : Node := wrapF (.ret (some (.unop "p++" (.id "x"))))

/-- `return x + y;` -/
def exPlainReturn : Node := wrapF (.ret (some (.binop "+" (.id "x") (.id "y"))))

/-- `x = - -y;` -/
def witNestedUnary : Node := wrapF (.assign "=" (.id "x") (.unop "-" (.unop "-" (.id "y"))))

/-- `x = (int)(int) - -y;` -/
def witNestedUnaryCasts : Node :=
  wrapF (.assign "=" (.id "x") (.cast (.cast (.unop "-" (.unop "-" (.id "y"))))))

/-- `x = !(-y);` -/
def exNotOfNeg : Node := wrapF (.assign "=" (.id "x") (.unop "!" (.unop "-" (.id "y"))))

/-- `x = !(++y);` -/
def exNotOfInc : Node := wrapF (.assign "=" (.id "x") (.unop "!" (.unop "++" (.id "y"))))

/-- `void f() { }`: what is left when the single statement is removed -/
def emptyF : Node := .funcDef (.decl (some "f") (.funcDecl none) none) (.compound (some []))

/-- `x = -(int)(y + z);` (accepted before the unary-operand repair; now rejected) -/
def witUnaryOfCastExpr : Node :=
  wrapF (.assign "=" (.id "x") (.unop "-" (.cast (.binop "+" (.id "y") (.id "z")))))

/-- `x = ++5;` (pycparser parses it; not valid C) -/
def witIncDecOfConst : Node := wrapF (.assign "=" (.id "x") (.unop "++" (.const "int" "5")))

/-- a `TypeDecl` node as a block item (never produced by the parser) -/
def witIllShaped : Node := wrapF .typeDecl

macro "cov_eval" : tactic => `(tactic|
  simp [witEffectfulCond, witEffectfulWhile, exPlainWhile, witEffectfulReturn, exPlainReturn, witNestedUnary, witNestedUnaryCasts, witUnaryOfCastExpr, witIncDecOfConst,
    witIllShaped, exNotOfNeg, exNotOfInc, emptyF, wrapF, coverage, covN, covList, covSlot, allowRhs,
    allowOperand, nestedOk, Gen.incDec, hasEffect, covBody, Node.isId, Node.isUnop,
    Node.isBinop, Node.isConst, Node.isCast, Node.rmCast1, Node.rmCast, Gen.binOps, Gen.uOps, bind,
    Except.bind, pure, Except.pure])

macro "unmod_eval" : tactic => `(tactic|
  simp [witIncDecOfConst, witIllShaped, exNotOfNeg, exPlainReturn, wrapF, Spec.unmodellable,
    Spec.changesVariable, Spec.changesVariableO,
    Spec.unmodellableL, Spec.desugar, Spec.hasSideEffect, Node.rmCast, Spec.describe, Node.cls])

/-! a condition that changes a variable makes the statement unsupported (formerly accepted:
    `if (x = y + z) { z = x + y; }`, `while (x++ < 10) { y = y + 1; }`); the same loop with an
    effect-free condition is accepted -/
example : Spec.effectfulConds witEffectfulCond = ["If"] := by decide
example : coverage witEffectfulCond = .ok (1, emptyF) := by cov_eval
example : Spec.effectfulConds witEffectfulWhile = ["While"] := by decide
example : coverage witEffectfulWhile = .ok (1, emptyF) := by cov_eval
example : coverage exPlainWhile = .ok (0, exPlainWhile) := by cov_eval
example : Spec.effectfulConds exPlainWhile = [] := by decide

/-! `return x++;` changes `x`: unsupported (formerly accepted); `return x + y;` is supported and
    readable -/
example : coverage witEffectfulReturn = .ok (1, emptyF) := by cov_eval
example : coverage exPlainReturn = .ok (0, exPlainReturn) := by cov_eval
example : Spec.unmodellable exPlainReturn = [] := by unmod_eval

/-! `x = - -y` (formerly accepted: a nested unary operand is now accepted only under `!` /
    `sizeof`, and only if it is not `++`/`--`) is charged and removed by the syntax check;
    the same under two casts -/
example : coverage witNestedUnary = .ok (1, emptyF) := by cov_eval
example : coverage witNestedUnaryCasts = .ok (1, emptyF) := by cov_eval

/-! `x = !(-y)` is accepted, and readable: `x` receives a constant -/
example : coverage exNotOfNeg = .ok (0, exNotOfNeg) := by cov_eval
example : Spec.unmodellable exNotOfNeg = [] := by unmod_eval

/-! `x = !(++y)` would change `y` on the side: refused -/
example : coverage exNotOfInc = .ok (1, emptyF) := by cov_eval

/-! `x = -(int)(y + z)` (formerly accepted: the unary operand is now tested with its casts
    removed) is charged and removed by the syntax check -/
example : coverage witUnaryOfCastExpr = .ok (1, emptyF) := by cov_eval

/-! the model accepts `x = ++5` although `desugar` cannot read it -/
example : coverage witIncDecOfConst = .ok (0, witIncDecOfConst) := by cov_eval
example : Spec.unmodellable witIncDecOfConst = ["Assignment(rhs UnaryOp ++ of Constant)"] := by
  unmod_eval
example : ¬ NoIncDecOfConst witIncDecOfConst ∧ StmtShaped witIncDecOfConst := by decide

/-! an ill-shaped tree: a bare `TypeDecl` where a statement should be -/
example : coverage witIllShaped = .ok (0, witIllShaped) := by cov_eval
example : Spec.unmodellable witIllShaped = ["TypeDecl"] := by unmod_eval
example : NoIncDecOfConst witIllShaped ∧ ¬ StmtShaped witIllShaped := by decide

end Mwp
