/-
  RelFix, part F: the statements about `Relation.loop_correction`.
-/
import Mwp.Lemmas.RelFixE

namespace Mwp.RelFix
open Mwp Mwp.Props.C16 Mwp.Lemmas.Poly

theorem two_mem_length {α : Type} {l : List α} {x y : α} (hx : x ∈ l) (hy : y ∈ l) (hne : x ≠ y) :
    1 < l.length := by
  cases l with
  | nil => cases hx
  | cons a t =>
    cases t with
    | nil =>
      rw [List.mem_singleton] at hx hy
      exact absurd (hx.trans hy.symm) hne
    | cons b t' => simp

theorem sumAll_all_m {l : List Scalar} (hne : l ≠ []) (h : ∀ s ∈ l, s = .m) : Poly.sumAll l = .m := by
  induction l with
  | nil => exact absurd rfl hne
  | cons x t ih =>
    rw [sumAll_cons, h x (List.mem_cons_self ..)]
    cases t with
    | nil => rfl
    | cons y t' =>
      rw [ih (List.cons_ne_nil _ _) (fun s hs => h s (List.mem_cons_of_mem _ hs))]
      rfl

theorem exists_matching_of_eval? {p : Poly} {c : Choice} (h : p.eval? c ≠ none) :
    ∃ m ∈ p, m.matchesC c = true := by
  unfold Poly.eval? at h
  cases hm : Poly.matching p c with
  | nil => rw [hm] at h; exact absurd rfl h
  | cons s ss =>
    have : s ∈ Poly.matching p c := by rw [hm]; exact List.mem_cons_self ..
    obtain ⟨m, h1, h2, _⟩ := mem_matching.1 this
    exact ⟨m, h1, h2⟩

theorem get_mem {n : Nat} {m : Matrix} (hs : Sq n m) {a b : Nat} (ha : a < n) (hb : b < n) :
    ∃ row ∈ m, Matrix.get m a b ∈ row :=
  ⟨m.getD a [], getD_mem m a [] (by rw [hs.len]; exact ha),
    getD_mem _ b _ (by rw [hs.getD_row ha]; exact hb)⟩

end Mwp.RelFix

namespace Mwp
open RelFix Mwp.Props.C16 Mwp.Lemmas.Poly

/-- the tuples handed to the delta graph by `loop_correction` match only choices at which the
    corrected relation has ∞ (no side hypothesis besides well-formedness is needed) -/
theorem Relation.loopCorrection_inserted (r r' : Relation) (g g' : DG.Graph) (x : String)
    (h : r.WF) (hl : Relation.loopCorrection r x g = .ok (r', g')) :
    ∃ ts : List DG.Node, (ts.foldlM DG.insertNode g = .ok g') ∧
      ∀ t ∈ ts, ∀ c : Choice, (t.all fun d => c[d.2]? == some d.1) = true →
        ∃ i j, (Matrix.get r'.mat i j).evalD c = .i := by
  obtain ⟨mat', hx, e, hwalk⟩ := loopCorrection_walk r r' g g' x hl
  subst e
  have hell : r.vars.idxOf x < r.vars.length := List.idxOf_lt_length_of_mem hx
  have hsq := wf_sq h
  obtain ⟨_, ts, h1, h2⟩ := walk_inserted hell g (loopCells r.mat)
    (fun y hy => (mem_loopCells hsq y.1 y.2).1 hy) r.mat g (mat', g') [] hsq rfl
    (fun t ht => by cases ht) hwalk
  exact ⟨ts, h1, h2⟩

open Classical in
/-- `loop_correction`, cell by cell.  Clause (1) of the statement as first asked is FALSE when a
    diagonal cell has no term at all at `c` (value `o ≠ m`, yet nothing is rewritten); here the
    first disjunct of (1) carries the extra condition `eval? c ≠ none` for that diagonal cell. -/
theorem Relation.loopCorrection_cells_scoped (r r' : Relation) (g g' : DG.Graph) (x : String)
    (h : r.WF) (hx : x ∈ r.vars)
    (hcanon : ∀ row ∈ r.mat, ∀ p ∈ row, (1 < p.length → ∀ m ∈ p, m.scalar ≠ .o))
    (hcol : ∀ i, i ≠ r.vars.idxOf x → ∀ m ∈ Matrix.get r.mat i (r.vars.idxOf x), m.scalar = .o)
    (hl : Relation.loopCorrection r x g = .ok (r', g')) (c : Choice) :
    r'.vars = r.vars ∧ r'.WF ∧
    ((∃ i, i < r.vars.length ∧ (Matrix.get r.mat i i).evalD c ≠ .m ∧
          (Matrix.get r.mat i i).eval? c ≠ none) ∨
        (∃ i j, (Matrix.get r.mat i j).evalD c = .i)
        → ∃ i j, (Matrix.get r'.mat i j).evalD c = .i) ∧
    ((∀ i, i < r.vars.length → (Matrix.get r.mat i i).evalD c = .m) →
      (∀ i j, (Matrix.get r.mat i j).evalD c ≠ .i) →
      ∀ i j, i < r.vars.length → j < r.vars.length →
        (Matrix.get r'.mat i j).evalD c =
          if i = r.vars.idxOf x ∧ (∃ i', i' < r.vars.length ∧ (Matrix.get r.mat i' j).evalD c = .p)
          then (Matrix.get r.mat i j).evalD c + .p else (Matrix.get r.mat i j).evalD c) := by
  obtain ⟨mat', _, e, hwalk⟩ := loopCorrection_walk r r' g g' x hl
  subst e
  have hell : r.vars.idxOf x < r.vars.length := List.idxOf_lt_length_of_mem hx
  have hsq := wf_sq h
  have inv := walk_cells r h c (r.vars.idxOf x) hell hcol g (mat', g') hwalk
  simp only at inv
  generalize r.vars.idxOf x = ell at *
  have hmem : ∀ a b, a < r.vars.length → b < r.vars.length → (a, b) ∈ loopCells r.mat :=
    fun a b ha hb => (mem_loopCells hsq a b).2 ⟨ha, hb⟩
  have hdiag' : ∀ a, a < r.vars.length →
      Matrix.get mat' a a = (Matrix.get r.mat a a).map (lfix true) := by
    intro a ha
    rw [inv.diag a ha, if_pos (hmem a a ha ha)]
  refine ⟨rfl, ⟨h.1, h.2.1, inv.sq.len, inv.sq.rows, inv.sq.wf⟩, ?_, ?_⟩
  · -- (1) failure is ∞
    show _ → ∃ i j, (Matrix.get mat' i j).evalD c = .i
    rintro (⟨i, hi, hne, hsup⟩ | ⟨i, j, hinf⟩)
    · obtain ⟨m0, hm0, hmatch0⟩ := exists_matching_of_eval? hsup
      by_cases hall : ∀ m ∈ Matrix.get r.mat i i, m.matchesC c = true → m.scalar = .m
      · exfalso
        apply hne
        apply sumAll_all_m
        · intro hnil
          have : m0.scalar ∈ Poly.matching (Matrix.get r.mat i i) c :=
            mem_matching.2 ⟨m0, hm0, hmatch0, rfl⟩
          rw [hnil] at this
          cases this
        · intro s hs
          obtain ⟨m, hm, h1, h2⟩ := mem_matching.1 hs
          rw [← h2]; exact hall m hm h1
      · have hex : ∃ m ∈ Matrix.get r.mat i i, m.matchesC c = true ∧ m.scalar ≠ .m := by
          apply Classical.byContradiction
          intro hno
          apply hall
          intro m hm h1
          apply Classical.byContradiction
          intro h2
          exact hno ⟨m, hm, h1, h2⟩
        obtain ⟨m, hm, h1, h2⟩ := hex
        refine ⟨i, i, ?_⟩
        rw [hdiag' i hi]
        apply evalD_eq_i_of_mem (m := lfix true m) (List.mem_map.2 ⟨m, hm, rfl⟩)
        · rw [lfix_matches]; exact h1
        · rw [lfix_true_scalar, if_neg h2]
    · have hr : i < r.vars.length ∧ j < r.vars.length := by
        apply Classical.byContradiction
        intro hno
        rw [get_out_of_range hsq hno, evalD_zero] at hinf
        cases hinf
      refine ⟨i, j, ?_⟩
      by_cases hij : i = j
      · subst hij
        rw [hdiag' i hr.1]
        exact evalD_map_lfix_i hinf
      · by_cases hie : i = ell
        · subst hie
          have hje : j ≠ i := fun e => hij e.symm
          rw [inv.rowl j hje, hinf]
          exact (infty_absorbs_sum _).1
        · rw [inv.other i j hie hij]
          exact hinf
  · -- (2) otherwise: row `ell` receives `p` wherever a column has one
    intro hd hfin a b ha hb
    show (Matrix.get mat' a b).evalD c = _
    -- all matching monomials of a diagonal cell have scalar `m`
    have hmatchm : ∀ a, a < r.vars.length → ∀ m ∈ Matrix.get r.mat a a,
        m.matchesC c = true → m.scalar = .m := by
      intro a ha m hm h1
      have hV := hd a ha
      have hs : m.scalar ∈ Poly.matching (Matrix.get r.mat a a) c := mem_matching.2 ⟨m, hm, h1, rfl⟩
      have habs := sumAll_absorb hs
      change m.scalar + (Matrix.get r.mat a a).evalD c = (Matrix.get r.mat a a).evalD c at habs
      rw [hV] at habs
      have hom : m.scalar = .o ∨ m.scalar = .m := by
        revert habs
        cases m.scalar <;> simp [Scalar.add_def, Gen.sumTable]
      rcases hom with ho | hm'
      · exfalso
        have hne : Poly.sumAll (Poly.matching (Matrix.get r.mat a a) c) ≠ .o := by
          show (Matrix.get r.mat a a).evalD c ≠ .o
          rw [hV]; simp
        have h2 := sumAll_mem hne
        change (Matrix.get r.mat a a).evalD c ∈ _ at h2
        rw [hV] at h2
        obtain ⟨m1, hm1, _, hs1⟩ := mem_matching.1 h2
        have hne' : m ≠ m1 := by
          intro e
          rw [e, hs1] at ho
          cases ho
        obtain ⟨row, hrow, hcell⟩ := get_mem hsq ha ha
        exact hcanon row hrow _ hcell (two_mem_length hm hm1 hne') m hm ho
      · exact hm'
    have hdiagV : ∀ a, a < r.vars.length →
        (Matrix.get mat' a a).evalD c = (Matrix.get r.mat a a).evalD c := by
      intro a ha
      rw [hdiag' a ha]
      exact evalD_map_lfix_of (hmatchm a ha)
    by_cases hae : a = ell
    · subst hae
      by_cases hbe : b = a
      · subst hbe
        have hno : ¬ (b = b ∧ ∃ i', i' < r.vars.length ∧ (Matrix.get r.mat i' b).evalD c = .p) := by
          rintro ⟨_, i', hi', hp⟩
          by_cases hib : i' = b
          · subst hib
            rw [hd i' hi'] at hp
            cases hp
          · rw [evalD_all_o c (hcol i' hib)] at hp
            cases hp
        rw [if_neg hno]
        exact hdiagV b hb
      · rw [inv.rowl b hbe]
        have hC : ∀ s ∈ contrib r c a b (loopCells r.mat), ∃ a', a' < r.vars.length ∧ a' ≠ b ∧
            a' ≠ a ∧ s = kap c (Matrix.get r.mat a' b) := by
          intro s hs
          unfold contrib at hs
          obtain ⟨y, hy, rfl⟩ := List.mem_map.1 hs
          obtain ⟨hy1, hy2⟩ := List.mem_filter.1 hy
          obtain ⟨y1, y2⟩ := y
          simp only [Bool.and_eq_true, beq_iff_eq, bne_iff_ne, ne_eq] at hy2
          obtain ⟨⟨e1, e2⟩, e3⟩ := hy2
          subst e1
          exact ⟨y1, ((mem_loopCells hsq y1 y2).1 hy1).1, e2, e3, rfl⟩
        have hCop : ∀ s ∈ contrib r c a b (loopCells r.mat), s = .o ∨ s = .p := by
          intro s hs
          obtain ⟨a', _, _, _, rfl⟩ := hC s hs
          exact kap_o_or_p c _
        by_cases hex : ∃ i', i' < r.vars.length ∧ (Matrix.get r.mat i' b).evalD c = .p
        · rw [if_pos ⟨rfl, hex⟩]
          obtain ⟨i', hi', hp⟩ := hex
          by_cases hia : i' = a
          · subst hia
            rw [hp]
            rcases sumAll_o_or_p hCop with e | e <;> rw [e] <;> rfl
          · have hib : i' ≠ b := by
              intro e
              subst e
              rw [hd i' hi'] at hp
              cases hp
            have hin : kap c (Matrix.get r.mat i' b) ∈ contrib r c a b (loopCells r.mat) := by
              unfold contrib
              apply List.mem_map.2
              refine ⟨(i', b), List.mem_filter.2 ⟨hmem i' b hi' hb, ?_⟩, rfl⟩
              simp [hib, hia]
            rw [kap_of_evalD_p hp] at hin
            have habs := sumAll_absorb hin
            have : Poly.sumAll (contrib r c a b (loopCells r.mat)) = .p := by
              rcases sumAll_o_or_p hCop with e | e
              · rw [e] at habs; cases habs
              · exact e
            rw [this]
        · rw [if_neg (fun hh => hex hh.2)]
          have : Poly.sumAll (contrib r c a b (loopCells r.mat)) = .o := by
            apply sumAll_all_o
            intro s hs
            obtain ⟨a', ha', _, _, rfl⟩ := hC s hs
            rcases kap_o_or_p c (Matrix.get r.mat a' b) with e | e
            · exact e
            · exfalso
              rcases evalD_of_kap_p e with e' | e'
              · exact hex ⟨a', ha', e'⟩
              · exact hfin a' b e'
          rw [this, sum_zero_right]
    · rw [if_neg (fun hh => hae hh.1)]
      by_cases hab : a = b
      · subst hab
        exact hdiagV a ha
      · rw [inv.other a b hae hab]

open Classical in
/-- The statement as first asked, under the extra hypothesis `htot` (every diagonal cell has a
    term at `c`); without it clause (1) is false, see `loopCorrection_cells_scoped`. -/
theorem Relation.loopCorrection_cells_partial (r r' : Relation) (g g' : DG.Graph) (x : String)
    (h : r.WF) (hx : x ∈ r.vars)
    (hcanon : ∀ row ∈ r.mat, ∀ p ∈ row, (1 < p.length → ∀ m ∈ p, m.scalar ≠ .o))
    (hcol : ∀ i, i ≠ r.vars.idxOf x → ∀ m ∈ Matrix.get r.mat i (r.vars.idxOf x), m.scalar = .o)
    (hl : Relation.loopCorrection r x g = .ok (r', g')) (c : Choice)
    (htot : ∀ i, i < r.vars.length → (Matrix.get r.mat i i).eval? c ≠ none) :
    r'.vars = r.vars ∧ r'.WF ∧
    ((∃ i, i < r.vars.length ∧ (Matrix.get r.mat i i).evalD c ≠ .m) ∨
        (∃ i j, (Matrix.get r.mat i j).evalD c = .i)
        → ∃ i j, (Matrix.get r'.mat i j).evalD c = .i) ∧
    ((∀ i, i < r.vars.length → (Matrix.get r.mat i i).evalD c = .m) →
      (∀ i j, (Matrix.get r.mat i j).evalD c ≠ .i) →
      ∀ i j, i < r.vars.length → j < r.vars.length →
        (Matrix.get r'.mat i j).evalD c =
          if i = r.vars.idxOf x ∧ (∃ i', i' < r.vars.length ∧ (Matrix.get r.mat i' j).evalD c = .p)
          then (Matrix.get r.mat i j).evalD c + .p else (Matrix.get r.mat i j).evalD c) := by
  obtain ⟨h1, h2, h3, h4⟩ := Relation.loopCorrection_cells_scoped r r' g g' x h hx hcanon hcol hl c
  refine ⟨h1, h2, ?_, h4⟩
  rintro (⟨i, hi, hne⟩ | hinf)
  · exact h3 (Or.inl ⟨i, hi, hne, htot i hi⟩)
  · exact h3 (Or.inr hinf)

end Mwp
