/-
  Helper lemmas and invariants for C11 (DeltaGraph).

  A: association-list dictionaries, `foldlM` in `Except`, sorted tuples, `nodeDiff`.
  B: coverage invariant `Inv`; soundness of collapse (`collapse_sound_aux`).
  C: total correctness of `removeNode` (`removeNode_total`).
  D: structural invariant `GInv`; insertion and fusion never raise (`run_total`).
-/
import Mwp.Lemmas.DeltaGraphA
import Mwp.Lemmas.DeltaGraphB
import Mwp.Lemmas.DeltaGraphC
import Mwp.Lemmas.DeltaGraphD
