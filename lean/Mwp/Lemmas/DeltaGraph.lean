/-
  Helper lemmas and invariants for C11 (DeltaGraph).
  A: dictionaries, `foldlM`, sorted tuples, `nodeDiff`.
  B: coverage invariant, soundness of collapse.
-/
import Mwp.Lemmas.DeltaGraphA
import Mwp.Lemmas.DeltaGraphB
