/-
  ExecSound, part 4: the invariant on stores.  `Inv U σ F`: the current value of every variable
  `x ∈ U` is bounded (`Bnd`) by column `x` of the flow matrix `F`.  The invariant is upward closed
  in `F`, and each matrix operation of the calculus preserves it in the direction the soundness
  argument needs (composition is associative, a branch lies below the sum, the identity and every
  power of the body lie below the closure, rule L's fix only adds).  The leaf: after `x := p`
  where `p` is bounded by the scaled columns, the invariant holds for `F ⊗ setColumn I x col`.
-/
import Mwp.Lemmas.ExecSoundClosure
import Mwp.Lemmas.ExecSoundBnd
namespace Mwp.Spec.ExecSound
open Mwp Mwp.Spec

/-! ## positions of variables -/

theorem idxOf?_some_of_mem {U : List Var} {v : Var} (h : v ∈ U) :
    ∃ i, U.idxOf? v = some i ∧ U[i]? = some v := by
  induction U with
  | nil => cases h
  | cons a t ih =>
    rw [List.idxOf?_cons]
    by_cases e : a = v
    · subst e; exact ⟨0, by simp, rfl⟩
    · have hne : (a == v) = false := beq_eq_false_iff_ne.2 e
      rcases List.mem_cons.1 h with h | h
      · exact absurd h.symm e
      · obtain ⟨i, h1, h2⟩ := ih h
        exact ⟨i + 1, by simp [hne, h1], by simpa using h2⟩

theorem getElem?_idxOf {U : List Var} {v : Var} (h : v ∈ U) : U[idxOf U v]? = some v := by
  obtain ⟨i, h1, h2⟩ := idxOf?_some_of_mem h
  unfold idxOf; rw [h1]; exact h2

theorem idxOf_lt {U : List Var} {v : Var} (h : v ∈ U) : idxOf U v < U.length := by
  have := getElem?_idxOf h
  exact (List.getElem?_eq_some_iff.1 this).1

theorem idxOf_inj {U : List Var} {u v : Var} (hu : u ∈ U) (hv : v ∈ U) (h : idxOf U u = idxOf U v) :
    u = v := by
  have h1 := getElem?_idxOf hu
  have h2 := getElem?_idxOf hv
  rw [h] at h1
  rw [h1] at h2
  exact Option.some.inj h2

theorem idxOf_getElem {U : List Var} (hU : U.Nodup) {i : Nat} {v : Var} (h : U[i]? = some v) :
    idxOf U v = i := by
  obtain ⟨hi, e⟩ := List.getElem?_eq_some_iff.1 h
  have hv : v ∈ U := e ▸ List.getElem_mem hi
  have h2 := getElem?_idxOf hv
  obtain ⟨hj, e2⟩ := List.getElem?_eq_some_iff.1 h2
  exact (List.getElem_inj hU).1 (e2.trans e.symm)

/-! ## the invariant -/

/-- column `x` of `F`, read on names -/
def colFn (U : List Var) (F : SF) (x : Var) (v : Var) : Scalar :=
  if v ∈ U then F (idxOf U v) (idxOf U x) else .o

def Inv (U : List Var) (σ : Store) (F : SF) : Prop := ∀ x ∈ U, Bnd (σ.get x) (colFn U F x)

theorem colFn_mono {U : List Var} {F G : SF} (h : fle U.length F G) {x : Var} (hx : x ∈ U) (v : Var) :
    (colFn U F x v).rank ≤ (colFn U G x v).rank := by
  unfold colFn
  split
  · rename_i hv; exact h _ (idxOf_lt hv) _ (idxOf_lt hx)
  · exact Nat.le_refl _

theorem Inv.mono {U : List Var} {σ : Store} {F G : SF} (h : Inv U σ F) (hFG : fle U.length F G) :
    Inv U σ G := fun x hx => (h x hx).mono (colFn_mono hFG hx)

theorem Inv.congr {U : List Var} {σ σ' : Store} {F : SF} (h : Inv U σ F)
    (e : ∀ x, σ'.get x = σ.get x) : Inv U σ' F := fun x hx => by rw [e x]; exact h x hx

theorem inv_nil (U : List Var) : Inv U [] fI := by
  intro x hx
  rw [get_nil]
  apply bnd_single
  simp [colFn, hx, fI, Scalar.rank]

theorem inv_mul {U : List Var} {σ : Store} {F : SF} {a : SMat} (b : SMat) (ha : a.length = U.length)
    (h : Inv U σ (fmul U.length (fmul U.length F (SMat.get a)) (SMat.get b))) :
    Inv U σ (fmul U.length F (SMat.get (SMat.mul a b))) := by
  apply h.mono
  apply (fmul_assoc_le _ _ _ _).trans
  apply fmul_mono_right
  apply fle_of_eq
  intro i hi j hj
  rw [get_mul b (by rw [ha]; exact hi) (by rw [ha]; exact hj), ha]

theorem inv_add_left {U : List Var} {σ : Store} {F : SF} {a : SMat} (b : SMat) (ha : a.length = U.length)
    (h : Inv U σ (fmul U.length F (SMat.get a))) :
    Inv U σ (fmul U.length F (SMat.get (SMat.add a b))) := by
  apply h.mono
  apply fmul_mono_right
  intro i hi j hj
  rw [get_add b (by rw [ha]; exact hi) (by rw [ha]; exact hj)]
  exact rank_docSum_left _ _

theorem inv_add_right {U : List Var} {σ : Store} {F : SF} {a : SMat} (b : SMat) (ha : a.length = U.length)
    (h : Inv U σ (fmul U.length F (SMat.get b))) :
    Inv U σ (fmul U.length F (SMat.get (SMat.add a b))) := by
  apply h.mono
  apply fmul_mono_right
  intro i hi j hj
  rw [get_add b (by rw [ha]; exact hi) (by rw [ha]; exact hj)]
  exact rank_docSum_right _ _

theorem inv_identity {U : List Var} {σ : Store} {F : SF} (h : Inv U σ F) :
    Inv U σ (fmul U.length F (SMat.get (SMat.identity U.length))) := by
  apply h.mono
  apply fle_fmul_right
  exact fle_of_eq fun i hi j hj => (get_identity hi hj).symm

theorem inv_closure_base {U : List Var} {σ : Store} {F : SF} {a : SMat} (ha : a.length = U.length)
    (h : Inv U σ F) : Inv U σ (fmul U.length F (SMat.get (SMat.closure a))) := by
  apply h.mono
  apply fle_fmul_right
  rw [← ha]; exact fI_le_closure a

theorem inv_closure_step {U : List Var} {σ : Store} {F : SF} {a : SMat} (ha : a.length = U.length)
    (h : Inv U σ (fmul U.length (fmul U.length F (SMat.get a)) (SMat.get (SMat.closure a)))) :
    Inv U σ (fmul U.length F (SMat.get (SMat.closure a))) := by
  apply h.mono
  apply (fmul_assoc_le _ _ _ _).trans
  apply fmul_mono_right
  rw [← ha]; exact mul_closure_le a

theorem inv_loopFix {U : List Var} {σ : Store} {F : SF} {s : SMat} (ell : Nat) (P : Nat → Bool)
    (h : Inv U σ (fmul U.length F (SMat.get s))) :
    Inv U σ (fmul U.length F (SMat.get ((s.zipIdx).map fun x =>
      if x.2 == ell then (x.1.zipIdx).map fun y => if P y.2 then docSum y.1 .p else y.1 else x.1))) := by
  apply h.mono
  apply fmul_mono_right
  intro i _ j _
  exact get_loopFix_ge s ell P i j

/-! ## the leaf -/

/-- after `x := p`, where `p` is bounded by every column that dominates the old columns `k`
    scaled by `g k`, the invariant holds for `F ⊗ setColumn I x (g on U)` -/
theorem inv_setColumn {U : List Var} {σ : Store} {F : SF} {x : Var} (hx : x ∈ U) (g : Var → Scalar)
    (hg : ∀ k, g k ≠ .i) (p : PolyN) (hI : Inv U σ F)
    (hp : ∀ h : Var → Scalar,
      (∀ k ∈ U, ∀ v, (docProd (colFn U F k v) (g k)).rank ≤ (h v).rank) → Bnd p h) :
    Inv U (σ.set x p) (fmul U.length F (SMat.get
      (SMat.setColumn (SMat.identity U.length) (idxOf U x) (U.map g)))) := by
  have hcol : (U.map g).length = U.length := List.length_map _
  have hjx := idxOf_lt hx
  intro u hu
  have hiu := idxOf_lt hu
  rw [get_set]
  split
  · rename_i e
    subst e
    apply hp
    intro k hk v
    have hik := idxOf_lt hk
    unfold colFn
    split
    · rename_i hv
      have hiv := idxOf_lt hv
      have := fmul_ge F (SMat.get (SMat.setColumn (SMat.identity U.length) (idxOf U u) (U.map g)))
        (idxOf U v) (idxOf U u) hik
      rw [get_setColumn_identity _ _ hcol hik hjx] at this
      have hgk : (U.map g).getD (idxOf U k) .o = g k := by
        rw [List.getD_eq_getElem?_getD, List.getElem?_map, getElem?_idxOf hk]; rfl
      rw [if_pos rfl, hgk] at this
      exact this
    · rw [docProd_o_left (hg k)]; exact Nat.zero_le _
  · rename_i hne
    apply (hI u hu).mono
    intro v
    unfold colFn
    split
    · rename_i hv
      have := fmul_ge F (SMat.get (SMat.setColumn (SMat.identity U.length) (idxOf U x) (U.map g)))
        (idxOf U v) (idxOf U u) hiu
      rw [get_setColumn_identity _ _ hcol hiu hiu] at this
      have hne' : ¬ idxOf U u = idxOf U x := fun e => hne (idxOf_inj hu hx e)
      simpa [hne', fI, docProd_m_right] using this
    · exact Nat.le_refl _

end Mwp.Spec.ExecSound
