/-
  Helper lemmas for C12: every matrix `Spec.sem` returns is `|U| × |U|` and free of ∞ (`Good`),
  hence the identity matrix is a two-sided unit for it; renaming of commands.
-/
import Mwp.Lemmas.RefineSpec
namespace Mwp
namespace Misc12
open Spec RelFix Mwp.Props.C16 Mwp.Lemmas.Poly

/-- an `n × n` matrix without ∞ -/
def Good (n : Nat) (M : SMat) : Prop :=
  M.length = n ∧ ∀ row ∈ M, row.length = n ∧ ∀ s ∈ row, s ≠ Scalar.i

theorem Good.get_ne_i {n : Nat} {M : SMat} (h : Good n M) (i j : Nat) : SMat.get M i j ≠ .i := by
  unfold SMat.get
  rw [List.getD_eq_getElem?_getD, List.getD_eq_getElem?_getD]
  cases hi : M[i]? with
  | none => simp
  | some row =>
    have hrow := List.mem_of_getElem? hi
    simp only [Option.getD_some]
    cases hj : row[j]? with
    | none => simp
    | some s =>
      simp only [Option.getD_some]
      exact (h.2 row hrow).2 s (List.mem_of_getElem? hj)

theorem Good.eq_mk {n : Nat} {M : SMat} (h : Good n M) : M = mk n (SMat.get M) := by
  apply List.ext_getElem
  · rw [mk_length]; exact h.1
  · intro i h1 h2
    have hr := (h.2 M[i] (List.getElem_mem h1)).1
    apply List.ext_getElem
    · simp [mk, hr]
    · intro j h3 h4
      simp [mk, SMat.get, h1, h3]

theorem good_mk {n : Nat} {f : SF} (h : ∀ i, i < n → ∀ j, j < n → f i j ≠ .i) : Good n (mk n f) := by
  refine ⟨mk_length n f, ?_⟩
  intro row hrow
  simp only [mk, List.mem_map, List.mem_range] at hrow
  obtain ⟨i, hi, rfl⟩ := hrow
  refine ⟨by simp, ?_⟩
  intro s hs
  simp only [List.mem_map, List.mem_range] at hs
  obtain ⟨j, hj, rfl⟩ := hs
  exact h i hi j hj

theorem good_identity (n : Nat) : Good n (SMat.identity n) := by
  rw [identity_eq]
  apply good_mk
  intro i _ j _
  unfold fI
  split <;> decide

theorem sumAll_ne_i {l : List Scalar} (h : ∀ s ∈ l, s ≠ .i) : Poly.sumAll l ≠ .i := by
  induction l with
  | nil => rw [sumAll_nil]; decide
  | cons a l ih =>
    rw [sumAll_cons]
    exact Refine.add_ne_i (h a List.mem_cons_self) (ih fun s hs => h s (List.mem_cons_of_mem _ hs))

theorem good_mul {n : Nat} {a b : SMat} (ha : Good n a) (hb : Good n b) : Good n (SMat.mul a b) := by
  have ea := ha.eq_mk
  have eb := hb.eq_mk
  have fa := ha.get_ne_i
  have fb := hb.get_ne_i
  generalize SMat.get a = f at ea fa
  generalize SMat.get b = g at eb fb
  subst ea eb
  rw [mul_mk]
  apply good_mk
  intro i _ j _
  unfold fmul
  apply sumAll_ne_i
  intro s hs
  simp only [List.mem_map] at hs
  obtain ⟨k, _, rfl⟩ := hs
  exact Refine.mul_ne_i (fa i k) (fb k j)

theorem good_add {n : Nat} {a b : SMat} (ha : Good n a) (hb : Good n b) : Good n (SMat.add a b) := by
  have ea := ha.eq_mk
  have eb := hb.eq_mk
  have fa := ha.get_ne_i
  have fb := hb.get_ne_i
  generalize SMat.get a = f at ea fa
  generalize SMat.get b = g at eb fb
  subst ea eb
  rw [add_mk]
  apply good_mk
  intro i _ j _
  exact Refine.add_ne_i (fa i j) (fb i j)

theorem mul_identity_left {n : Nat} {M : SMat} (h : Good n M) : SMat.mul (SMat.identity n) M = M := by
  have e := h.eq_mk
  have f := h.get_ne_i
  generalize SMat.get M = g at e f
  subst e
  rw [identity_eq, mul_mk]
  exact mk_congr (Refine.fmul_fI_left fun i _ j _ => f i j)

theorem mul_identity_right {n : Nat} {M : SMat} (h : Good n M) : SMat.mul M (SMat.identity n) = M := by
  have e := h.eq_mk
  have f := h.get_ne_i
  generalize SMat.get M = g at e f
  subst e
  rw [identity_eq, mul_mk]
  exact mk_congr (Refine.fmul_fI_right fun i _ j _ => f i j)

theorem good_setColumn {n : Nat} {a : SMat} (ha : Good n a) (j : Nat) (col : List Scalar)
    (hl : col.length = n) (hc : ∀ s ∈ col, s ≠ .i) : Good n (SMat.setColumn a j col) := by
  unfold SMat.setColumn
  refine ⟨by simp [ha.1, hl], ?_⟩
  intro row hrow
  simp only [List.mem_map] at hrow
  obtain ⟨⟨r, s⟩, hmem, rfl⟩ := hrow
  obtain ⟨hr, hs⟩ := List.of_mem_zip hmem
  refine ⟨by simp [(ha.2 r hr).1], ?_⟩
  intro t ht
  rcases List.mem_or_eq_of_mem_set ht with h | h
  · exact (ha.2 r hr).2 t h
  · rw [h]; exact hc s hs

theorem good_closureFrom {n : Nat} {a : SMat} (ha : Good n a) :
    ∀ (fuel : Nat) (s : SMat), Good n s → Good n (SMat.closureFrom a fuel s)
  | 0, s, hs => hs
  | fuel + 1, s, hs => by
    simp only [SMat.closureFrom]
    split
    · exact hs
    · apply good_closureFrom ha fuel
      rw [ha.1]
      exact good_add (good_identity n) (good_mul ha hs)

theorem good_closure {n : Nat} {a : SMat} (ha : Good n a) : Good n (SMat.closure a) := by
  unfold SMat.closure
  apply good_closureFrom ha
  rw [ha.1]; exact good_identity n

theorem docSum_p_ne_i {v : Scalar} (h : v ≠ .i) : docSum v .p ≠ .i := by
  cases v <;> first | decide | exact absurd rfl h

/-- the row fix of rule L -/
theorem good_loopFix {n : Nat} {s : SMat} (hs : Good n s) (ell : Nat) (P : Nat → Bool) :
    Good n ((s.zipIdx).map fun x =>
      if x.2 == ell then (x.1.zipIdx).map fun y => if P y.2 then docSum y.1 .p else y.1 else x.1) := by
  refine ⟨by simp [hs.1], ?_⟩
  intro row hrow
  simp only [List.mem_map] at hrow
  obtain ⟨⟨r, i⟩, hmem, rfl⟩ := hrow
  have hr : r ∈ s := by
    have := List.mem_zipIdx hmem
    rw [this.2.2]; exact List.getElem_mem _
  simp only
  split
  · refine ⟨by simp [(hs.2 r hr).1], ?_⟩
    intro t ht
    simp only [List.mem_map] at ht
    obtain ⟨⟨v, j⟩, hv, rfl⟩ := ht
    have hvr : v ∈ r := by
      have := List.mem_zipIdx hv
      rw [this.2.2]; exact List.getElem_mem _
    simp only
    split
    · exact docSum_p_ne_i ((hs.2 r hr).2 v hvr)
    · exact (hs.2 r hr).2 v hvr
  · exact hs.2 r hr

theorem operandFlow_ne_i (op : String) (a b : Atom) (alt : Nat) (v : String) :
    operandFlow op a b alt v ≠ .i := by
  unfold operandFlow
  cases a <;> cases b <;> simp only <;> (repeat' split) <;> decide

mutual
theorem sem_good (U : List String) : ∀ (cmd : Cmd) (idx : Nat) (c : Choice) (i : Nat) (M : SMat),
    sem U cmd idx c = some (i, M) → Good U.length M
  | .skip, idx, c, i, M, h => by
    simp only [sem, Option.some.injEq, Prod.mk.injEq] at h
    rw [← h.2]; exact good_identity _
  | .asgnVar x y, idx, c, i, M, h => by
    simp only [sem] at h
    split at h <;> simp only [Option.some.injEq, Prod.mk.injEq] at h <;> rw [← h.2]
    · exact good_identity _
    · apply good_setColumn (good_identity _) _ _ (by simp)
      intro s hs
      simp only [List.mem_map] at hs
      obtain ⟨v, _, rfl⟩ := hs
      split <;> decide
  | .asgnConst x, idx, c, i, M, h => by
    simp only [sem, Option.some.injEq, Prod.mk.injEq] at h
    rw [← h.2]
    apply good_setColumn (good_identity _) _ _ (by simp)
    intro s hs
    simp only [List.mem_map] at hs
    obtain ⟨v, _, rfl⟩ := hs
    decide
  | .bin op x a b, idx, c, i, M, h => by
    simp only [sem] at h
    split at h
    · cases h
    · split at h
      · cases h
      · simp only [Option.some.injEq, Prod.mk.injEq] at h
        rw [← h.2]
        apply good_setColumn (good_identity _) _ _ (by simp)
        intro s hs
        simp only [List.mem_map] at hs
        obtain ⟨v, _, rfl⟩ := hs
        exact operandFlow_ne_i _ _ _ _ _
  | .seq l, idx, c, i, M, h => by
    simp only [sem] at h
    exact semSeq_good U l idx c i M h
  | .ite t f, idx, c, i, M, h => by
    simp only [sem] at h
    split at h
    · cases h
    · rename_i i1 a h1
      split at h
      · cases h
      · rename_i i2 b h2
        simp only [Option.some.injEq, Prod.mk.injEq] at h
        rw [← h.2]
        exact good_add (sem_good U t idx c i1 a h1) (sem_good U f i1 c i2 b h2)
  | .while_ b, idx, c, i, M, h => by
    simp only [sem] at h
    split at h
    · cases h
    · rename_i i1 a h1
      split at h
      · cases h
      · simp only [Option.some.injEq, Prod.mk.injEq] at h
        rw [← h.2]; exact good_closure (sem_good U b idx c i1 a h1)
  | .loop X b, idx, c, i, M, h => by
    simp only [sem] at h
    split at h
    · cases h
    · rename_i i1 a h1
      split at h
      · cases h
      · simp only [Option.some.injEq, Prod.mk.injEq] at h
        rw [← h.2]
        exact good_loopFix (good_closure (sem_good U b idx c i1 a h1)) (idxOf U X)
          (fun j => (List.range U.length).any fun i' => SMat.get (SMat.closure a) i' j == .p)
theorem semSeq_good (U : List String) : ∀ (l : List Cmd) (idx : Nat) (c : Choice) (i : Nat) (M : SMat),
    semSeq U l idx c = some (i, M) → Good U.length M
  | [], idx, c, i, M, h => by
    simp only [semSeq, Option.some.injEq, Prod.mk.injEq] at h
    rw [← h.2]; exact good_identity _
  | cmd :: rest, idx, c, i, M, h => by
    simp only [semSeq] at h
    split at h
    · cases h
    · rename_i i1 a h1
      split at h
      · cases h
      · rename_i i2 b h2
        simp only [Option.some.injEq, Prod.mk.injEq] at h
        rw [← h.2]
        exact good_mul (sem_good U cmd idx c i1 a h1) (semSeq_good U rest i1 c i2 b h2)
end

/-! ## a `skip` in a sequence, a singleton sequence -/

theorem semSeq_skip_mid (U : List String) : ∀ (l1 l2 : List Cmd) (idx : Nat) (c : Choice),
    semSeq U (l1 ++ Cmd.skip :: l2) idx c = semSeq U (l1 ++ l2) idx c
  | [], l2, idx, c => by
    simp only [List.nil_append, semSeq, sem]
    cases h : semSeq U l2 idx c with
    | none => rfl
    | some p =>
      obtain ⟨i2, b⟩ := p
      simp only
      rw [mul_identity_left (semSeq_good U l2 idx c i2 b h)]
  | cmd :: l1, l2, idx, c => by
    simp only [List.cons_append, semSeq]
    cases sem U cmd idx c with
    | none => rfl
    | some p => simp only [semSeq_skip_mid U l1 l2]

theorem semSeq_singleton (U : List String) (cmd : Cmd) (idx : Nat) (c : Choice) :
    semSeq U [cmd] idx c = sem U cmd idx c := by
  simp only [semSeq]
  cases h : sem U cmd idx c with
  | none => rfl
  | some p =>
    obtain ⟨i1, a⟩ := p
    simp only
    rw [mul_identity_right (sem_good U cmd idx c i1 a h)]

end Misc12

/-! ## renaming -/
namespace Spec

def Atom.rename (ρ : String → String) : Atom → Atom
  | .var x => .var (ρ x)
  | .const => .const

mutual
/-- apply `ρ` to every variable name of a command -/
def Cmd.rename (ρ : String → String) : Cmd → Cmd
  | .skip => .skip
  | .asgnVar x y => .asgnVar (ρ x) (ρ y)
  | .asgnConst x => .asgnConst (ρ x)
  | .bin op x a b => .bin op (ρ x) (a.rename ρ) (b.rename ρ)
  | .seq l => .seq (renameL ρ l)
  | .ite t f => .ite (t.rename ρ) (f.rename ρ)
  | .while_ b => .while_ (b.rename ρ)
  | .loop X b => .loop (ρ X) (b.rename ρ)
def renameL (ρ : String → String) : List Cmd → List Cmd
  | [] => []
  | c :: cs => c.rename ρ :: renameL ρ cs
end

end Spec

namespace Misc12
open Spec

theorem beq_rename (ρ : String → String) (hρ : Function.Injective ρ) (a b : String) :
    (ρ a == ρ b) = (a == b) := by
  by_cases h : a = b
  · subst h; simp
  · have : ρ a ≠ ρ b := fun e => h (hρ e)
    rw [beq_eq_false_iff_ne.2 this, beq_eq_false_iff_ne.2 h]

theorem idxOf?_rename (ρ : String → String) (hρ : Function.Injective ρ) (U : List String) (x : String) :
    (U.map ρ).idxOf? (ρ x) = U.idxOf? x := by
  induction U with
  | nil => rfl
  | cons a l ih =>
    rw [List.map_cons, List.idxOf?_cons, List.idxOf?_cons, ih, beq_rename ρ hρ]

theorem idxOf_rename (ρ : String → String) (hρ : Function.Injective ρ) (U : List String) (x : String) :
    idxOf (U.map ρ) (ρ x) = idxOf U x := by
  unfold idxOf
  rw [idxOf?_rename ρ hρ, List.length_map]

theorem operandFlow_rename (ρ : String → String) (hρ : Function.Injective ρ) (op : String)
    (a b : Atom) (alt : Nat) (v : String) :
    operandFlow op (a.rename ρ) (b.rename ρ) alt (ρ v) = operandFlow op a b alt v := by
  cases a <;> cases b <;> simp only [operandFlow, Atom.rename, beq_rename ρ hρ]

mutual
theorem sem_rename_aux (ρ : String → String) (hρ : Function.Injective ρ) (U : List String) :
    ∀ (cmd : Cmd) (idx : Nat) (c : Choice), sem (U.map ρ) (cmd.rename ρ) idx c = sem U cmd idx c
  | .skip, idx, c => by simp only [Cmd.rename, sem, List.length_map]
  | .asgnVar x y, idx, c => by
    simp only [Cmd.rename, sem, List.length_map, idxOf_rename ρ hρ, beq_rename ρ hρ, List.map_map,
      Function.comp_def]
  | .asgnConst x, idx, c => by
    simp only [Cmd.rename, sem, List.length_map, idxOf_rename ρ hρ, List.map_map, Function.comp_def]
  | .bin op x a b, idx, c => by
    simp only [Cmd.rename, sem, List.length_map, idxOf_rename ρ hρ, List.map_map, Function.comp_def,
      operandFlow_rename ρ hρ]
  | .seq l, idx, c => by
    simp only [Cmd.rename, sem]
    exact semSeq_rename_aux ρ hρ U l idx c
  | .ite t f, idx, c => by
    simp only [Cmd.rename, sem, sem_rename_aux ρ hρ U t, sem_rename_aux ρ hρ U f]
  | .while_ b, idx, c => by
    simp only [Cmd.rename, sem, sem_rename_aux ρ hρ U b, List.length_map]
  | .loop X b, idx, c => by
    simp only [Cmd.rename, sem, sem_rename_aux ρ hρ U b, List.length_map, idxOf_rename ρ hρ]
theorem semSeq_rename_aux (ρ : String → String) (hρ : Function.Injective ρ) (U : List String) :
    ∀ (l : List Cmd) (idx : Nat) (c : Choice),
      semSeq (U.map ρ) (renameL ρ l) idx c = semSeq U l idx c
  | [], idx, c => by simp only [renameL, semSeq, List.length_map]
  | cmd :: rest, idx, c => by
    simp only [renameL, semSeq, sem_rename_aux ρ hρ U cmd, semSeq_rename_aux ρ hρ U rest]
end

end Misc12
end Mwp
