/-
  Loop mode soundness: ancestors.  The dense closure of a failure-free matrix on names
  (`ClosureOf`: fixpoint equation, support induction, transitive support, isolated rows / columns),
  and the property `AncOK` of the relation of a LOOP: every variable with a non-zero path into a
  variable `v` whose column does not fail either flows directly into `v` or has a failure-free
  column (`compute_anc`).
-/
import Mwp.Lemmas.LoopSoundStmt
namespace Mwp
namespace LoopSound
open Mwp.Props.C16 Mwp.Lemmas.Poly Spec RelFix Refine Analysis

/-! ## the dense closure of a failure-free matrix, on names -/

theorem matOf_inj {U : List String} {g h : NF} (e : matOf U g = matOf U h) :
    ∀ x ∈ U, ∀ y ∈ U, g x y = h x y := by
  intro x hx y hy
  rw [← den_matOf U g hx hy, ← den_matOf U h hx hy, e]

/-- the chain of the code is the chain of the reference closure: `Sₖ₊₁ = I ⊕ A·Sₖ` -/
theorem SN_step {U : List String} (hU : U.Nodup) {A : NF} (hA : ∀ x y, A x y ≠ .i) (k : Nat) :
    ∀ x ∈ U, ∀ y ∈ U, SN U A (k + 1) x y = idS x y + mulN U A (SN U A k) x y := by
  intro x hx y hy
  obtain ⟨i, hi, rfl⟩ := mem_getD_idx hx
  obtain ⟨j, hj, rfl⟩ := mem_getD_idx hy
  have hfin : ∀ i, i < U.length → ∀ j, j < U.length → dn U A i j ≠ .i := fun i _ j _ => hA _ _
  have h1 := dn_SN hU A (k + 1) i hi j hj
  have h2 := step_S hfin k i hi j hj
  have h3 : EqOn U.length (fmul U.length (dn U A) (S U.length (dn U A) k))
      (fmul U.length (dn U A) (dn U (SN U A k))) :=
    fmul_congr (EqOn.refl _ _) (dn_SN hU A k).symm
  show dn U (SN U A (k + 1)) i j = _
  rw [h1, ← h2]
  show fI i j + fmul U.length (dn U A) (S U.length (dn U A) k) i j = _
  rw [h3 i hi j hj, fmul_dn, ← dn_idS hU i hi j hj]
  rfl

theorem mul_ne_o {a b : Scalar} (ha : a ≠ .o) (hb : b ≠ .o) : a * b ≠ .o := by
  cases a <;> cases b <;> simp_all <;> decide

theorem mul_ne_o_inv {a b : Scalar} (ha : a ≠ .i) (hb : b ≠ .i) (h : a * b ≠ .o) : a ≠ .o ∧ b ≠ .o := by
  cases a <;> cases b <;> simp_all <;> revert h <;> decide

theorem add_ne_o_left {a b : Scalar} (ha : a ≠ .o) : a + b ≠ .o := fun e => ha (add_eq_o e).1
theorem add_ne_o_right {a b : Scalar} (hb : b ≠ .o) : a + b ≠ .o := fun e => hb (add_eq_o e).2

theorem sumScalars_ne_o_of_mem {l : List Scalar} {s : Scalar} (hs : s ∈ l) (h : s ≠ .o) :
    sumScalars l ≠ .o := by
  induction l with
  | nil => cases hs
  | cons a t ih =>
    rw [sumScalars_cons]
    rcases List.mem_cons.1 hs with rfl | hs
    · exact add_ne_o_left h
    · exact add_ne_o_right (ih hs)

theorem exists_of_sumScalars_ne_o {l : List Scalar} (h : sumScalars l ≠ .o) : ∃ s ∈ l, s ≠ .o := by
  induction l with
  | nil => exact absurd rfl h
  | cons a t ih =>
    rw [sumScalars_cons] at h
    by_cases ha : a = .o
    · rw [ha, sum_zero_left] at h
      obtain ⟨s, hs, hne⟩ := ih h
      exact ⟨s, List.mem_cons_of_mem _ hs, hne⟩
    · exact ⟨a, List.mem_cons_self .., ha⟩

/-- facts about the closure `F` of a failure-free `A` over `U` -/
structure ClosureOf (U : List String) (A F : NF) : Prop where
  fin : ∀ x ∈ U, ∀ y ∈ U, F x y ≠ .i
  refl : ∀ x ∈ U, F x x ≠ .o
  /-- support induction: the support of `F` is the least reflexive relation closed under a step of `A` in front -/
  ind : ∀ (P : String → String → Prop), (∀ x ∈ U, P x x) →
    (∀ x ∈ U, ∀ z ∈ U, ∀ y ∈ U, A x z ≠ .o → P z y → P x y) → ∀ x ∈ U, ∀ y ∈ U, F x y ≠ .o → P x y
  step : ∀ x ∈ U, ∀ z ∈ U, ∀ y ∈ U, A x z ≠ .o → F z y ≠ .o → F x y ≠ .o
  /-- a row of `A` that is the identity row stays the identity row -/
  row : ∀ X ∈ U, (∀ z ∈ U, A X z = idS X z) → ∀ y ∈ U, F X y = idS X y

theorem closureOf {U : List String} (hU : U.Nodup) {A F : NF} (hA : ∀ x y, A x y ≠ .i)
    (hcl : SMat.closure (matOf U A) = matOf U F) : ClosureOf U A F := by
  obtain ⟨k, hk⟩ := exists_statN hU A
  have hF : ∀ x ∈ U, ∀ y ∈ U, F x y = SN U A (k + 1) x y := by
    rw [closure_matOf hU A k hk] at hcl
    exact fun x hx y hy => (matOf_inj hcl x hx y hy).symm
  have hfinS : ∀ j x y, SN U A j x y ≠ .i := fun j => SN_fin hA j
  -- the fixpoint equation
  have hfix : ∀ x ∈ U, ∀ y ∈ U, F x y = idS x y + mulN U A F x y := by
    intro x hx y hy
    rw [hF x hx y hy, SN_step hU hA k x hx y hy]
    congr 1
    unfold mulN
    apply sumScalars_map_congr
    intro z hz
    rw [hF z hz y hy, hk z hz y hy]
  have hind : ∀ (P : String → String → Prop), (∀ x ∈ U, P x x) →
      (∀ x ∈ U, ∀ z ∈ U, ∀ y ∈ U, A x z ≠ .o → P z y → P x y) →
      ∀ j, ∀ x ∈ U, ∀ y ∈ U, SN U A j x y ≠ .o → P x y := by
    intro P h0 hs j
    induction j with
    | zero =>
      intro x hx y _ hne
      have : x = y := by
        apply Classical.byContradiction
        intro hxy; exact hne (idS_of_ne hxy)
      exact this ▸ h0 x hx
    | succ j ih =>
      intro x hx y hy hne
      rw [SN_step hU hA j x hx y hy] at hne
      by_cases hxy : x = y
      · exact hxy ▸ h0 x hx
      · rw [idS_of_ne hxy, sum_zero_left] at hne
        obtain ⟨t, ht, hso⟩ := exists_of_sumScalars_ne_o hne
        obtain ⟨z, hz, rfl⟩ := List.mem_map.1 ht
        obtain ⟨h1, h2⟩ := mul_ne_o_inv (hA x z) (hfinS j z y) hso
        exact hs x hx z hz y hy h1 (ih z hz y hy h2)
  refine ⟨fun x hx y hy => by rw [hF x hx y hy]; exact hfinS _ x y, ?_,
    fun P h0 hs x hx y hy hne => hind P h0 hs (k + 1) x hx y hy (by rw [← hF x hx y hy]; exact hne), ?_, ?_⟩
  · intro x hx
    rw [hfix x hx x hx, idS_self]
    exact add_ne_o_left (by simp)
  · intro x hx z hz y hy h1 h2
    rw [hfix x hx y hy]
    apply add_ne_o_right
    unfold mulN
    apply sumScalars_ne_o_of_mem (List.mem_map.2 ⟨z, hz, rfl⟩)
    exact mul_ne_o h1 h2
  · intro X hX hrow y hy
    rw [hF X hX y hy]
    have : ∀ j, ∀ y ∈ U, SN U A j X y = idS X y := by
      intro j
      induction j with
      | zero => intro y _; rfl
      | succ j ih =>
        intro y hy
        rw [SN_step hU hA j X hX y hy]
        unfold mulN
        have e : ∀ z ∈ U, A X z * SN U A j z y = idS X z * SN U A j z y := by
          intro z hz; rw [hrow z hz]
        rw [sumScalars_map_congr U _ _ e, sum_idS_left hX (fun z => SN U A j z y) (fun z => hfinS j z y),
          ih y hy, sum_idem]
    exact this (k + 1) y hy

/-- the support of a closure is transitive -/
theorem ClosureOf.trans {U : List String} {A F : NF} (h : ClosureOf U A F) :
    ∀ x ∈ U, ∀ y ∈ U, ∀ z ∈ U, F x y ≠ .o → F y z ≠ .o → F x z ≠ .o := by
  intro x hx y hy z hz hxy hyz
  have := h.ind (fun a b => F b z ≠ .o → F a z ≠ .o) (fun _ _ hh => hh)
    (fun a ha w hw b _ haw hP hb => h.step a ha w hw z hz haw (hP hb)) x hx y hy hxy
  exact this hyz

/-- a column of `A` that is the identity column stays the identity column -/
theorem ClosureOf.col {U : List String} {A F : NF} (h : ClosureOf U A F) {X : String}
    (hcol : ∀ z ∈ U, A z X = idS z X) : ∀ z ∈ U, z ≠ X → ∀ _hX : X ∈ U, F z X = .o := by
  intro z hz hzX hX
  apply Classical.byContradiction
  intro hne
  have := h.ind (fun a b => b = X → a = X) (fun _ _ hh => hh)
    (fun a ha w hw b _ haw hP hb => by
      have hwX := hP hb
      subst hwX
      apply Classical.byContradiction
      intro haX
      rw [hcol a ha, idS_of_ne haX] at haw
      exact haw rfl) z hz X hX hne
  exact hzX (this rfl)

/-! ## ancestors -/

/-- every column of the model relation on which it does not fail has a set of variables `T`,
    closed under "has a non-zero flow into", all of whose members either flow DIRECTLY into the
    column's variable or have a failure-free column in the calculus -/
def AncOK (U : List String) (r : Relation) (c : Choice) (g : NF) : Prop :=
  ∀ v ∈ U, (∀ x ∈ U, r.den c x v ≠ .i) → ∃ T : String → Prop, T v ∧
    (∀ w ∈ U, T w → ∀ u ∈ U, g u w ≠ .o → T u) ∧
    (∀ u ∈ U, T u → u = v ∨ g u v ≠ .o ∨ ∀ x ∈ U, g x u ≠ .i)

theorem AncOK.congr {U : List String} {r : Relation} {c : Choice} {g g' : NF} (h : AncOK U r c g)
    (e : ∀ x ∈ U, ∀ y ∈ U, g x y = g' x y) : AncOK U r c g' := by
  intro v hv hf
  obtain ⟨T, h1, h2, h3⟩ := h v hv hf
  refine ⟨T, h1, fun w hw hT u hu hne => h2 w hw hT u hu (by rw [e u hu w hw]; exact hne), ?_⟩
  intro u hu hT
  rcases h3 u hu hT with h | h | h
  · exact Or.inl h
  · exact Or.inr (Or.inl (by rw [← e u hu v hv]; exact h))
  · exact Or.inr (Or.inr (fun x hx => by rw [← e x hx u hu]; exact h x hx))

/-- the failing regime: the only ancestor of a variable outside the relation is itself -/
theorem AncOK.of_allInf {U : List String} {r : Relation} {c : Choice} {g : NF}
    (hs : Supp U r.vars g) (hinf : ∀ x ∈ r.vars, ∀ y ∈ r.vars, r.den c x y = .i) : AncOK U r c g := by
  intro v hv hf
  have hvr : v ∉ r.vars := fun h => hf v hv (hinf v h v h)
  refine ⟨fun u => u = v, rfl, ?_, fun u _ hu => Or.inl hu⟩
  intro w hw hwv u hu hne
  subst hwv
  rw [hs u hu w hw (Or.inr hvr)] at hne
  apply Classical.byContradiction
  intro huw
  exact hne (idS_of_ne huw)

theorem wCorr_ne_o {d : Bool} {s : Scalar} : wCorr d s ≠ .o ↔ s ≠ .o := by
  cases d <;> cases s <;> decide

theorem while_allInf {r f r' : Relation} {g0 g' : DG.Graph} {c : Choice} (wr : r.WF)
    (hf : Relation.fixpoint (Relation.composition (Relation.new []) r) = .ok f)
    (hw : Relation.whileCorrection f g0 = .ok (r', g')) (fr : ¬ Fin' r c) :
    ∀ x ∈ r'.vars, ∀ y ∈ r'.vars, r'.den c x y = .i := by
  obtain ⟨w', hvm, e', H⟩ := while_rel wr hf hw
  obtain ⟨cden, _, _⟩ := H c
  intro x hx y hy
  obtain ⟨a, b, hab⟩ := not_fin_exists fr
  have w0 := Relation.composition_wf _ r emptyRel_wf wr
  obtain ⟨fv, fw, fden⟩ := fixpoint_den w0 hf
  obtain ⟨a', b', hab'⟩ := Relation.composition_infty_persists _ r emptyRel_wf wr c (Or.inr ⟨a, b, hab⟩)
  have hm := Relation.mem_of_den_i hab'
  have hx0 : x ∈ (Relation.composition (Relation.new []) r).vars := by rw [← fv, ← e']; exact hx
  have hy0 : y ∈ (Relation.composition (Relation.new []) r).vars := by rw [← fv, ← e']; exact hy
  rw [cden, fden, closure_inf hm.1 hm.2 hab', den_matOf _ _ hx0 hy0]
  rfl

theorem anc_while {U : List String} (hU : U.Nodup) {r f r' : Relation} {g0 g' : DG.Graph} {c : Choice}
    {gb gW : NF} (wr : r.WF) (sr : ∀ v ∈ r.vars, v ∈ U) (hb : CInv U r c gb)
    (hf : Relation.fixpoint (Relation.composition (Relation.new []) r) = .ok f)
    (hw : Relation.whileCorrection f g0 = .ok (r', g'))
    (hgW : wInf (closureP (matOf U gb)) = matOf U gW) (iW : CInv U r' c gW) : AncOK U r' c gW := by
  by_cases fr : Fin' r c
  · obtain ⟨w', hvm, e', H⟩ := while_rel wr hf hw
    obtain ⟨_, hcl⟩ := (H c).2.2 fr
    have hclU := hcl U hU sr
    have eb : ∀ x ∈ U, ∀ y ∈ U, r.den c x y = gb x y :=
      fun x hx y hy => hb.colEq y hy (fun x' _ => fr x' y) x hx
    have e1 : matOf U gb = matOf U (r.den c) := matOf_congr (fun x hx y hy => (eb x hx y hy).symm)
    rw [e1, closureP_eq_closure hU (fun x _ y _ => fr x y), hclU, wInf_matOf hU] at hgW
    have hgWe := matOf_inj hgW
    have CO := closureOf hU (fun x y => fr x y) hclU
    apply AncOK.congr (g := wN (f.den c)) _ hgWe
    intro v hv _
    refine ⟨fun u => f.den c u v ≠ .o, CO.refl v hv, ?_, ?_⟩
    · intro w hw hT u hu hne
      exact CO.trans u hu w hw v hv (wCorr_ne_o.1 hne) hT
    · intro u _ hT
      exact Or.inr (Or.inl (wCorr_ne_o.2 hT))
  · exact AncOK.of_allInf iW.supp (while_allInf wr hf hw fr)

theorem dN_off {g : NF} {x y : String} (h : x ≠ y) : dN g x y = g x y := by
  unfold dN; rw [if_neg (fun hh => h hh.1)]

theorem anc_for {U : List String} (hU : U.Nodup) {r f r' : Relation} {g0 g' : DG.Graph} {c : Choice}
    {X : String} {gb gL : NF} (wr : r.WF) (sr : ∀ v ∈ r.vars, v ∈ U) (hXU : X ∈ U) (hX : X ≠ "")
    (hfresh : X ∉ r.vars) (hb : CInv U r c gb)
    (hf : Relation.fixpoint (Relation.composition (Relation.new [X]) r) = .ok f)
    (hl : Relation.loopCorrection f X g0 = .ok (r', g'))
    (hgL : lInf (Spec.idxOf U X) (closureP (matOf U gb)) = matOf U gL) (iL : CInv U r' c gL) :
    AncOK U r' c gL := by
  obtain ⟨w', e', fw, hfmem, HC⟩ := for_cells wr hX hfresh hf hl
  by_cases fr : Fin' r c
  · obtain ⟨_, _, _, _, H⟩ := for_rel wr hX hfresh hf hl
    obtain ⟨_, hcl, _, _⟩ := (H c).2 fr
    have hclU := hcl U hU hXU sr
    have eb : ∀ x ∈ U, ∀ y ∈ U, r.den c x y = gb x y :=
      fun x hx y hy => hb.colEq y hy (fun x' _ => fr x' y) x hx
    have e1 : matOf U gb = matOf U (r.den c) := matOf_congr (fun x hx y hy => (eb x hx y hy).symm)
    rw [e1, closureP_eq_closure hU (fun x _ y _ => fr x y), hclU, lInf_matOf hU hXU] at hgL
    have hgLe := matOf_inj hgL
    have CO := closureOf hU (fun x y => fr x y) hclU
    have hrowX : ∀ y ∈ U, f.den c X y = idS X y :=
      CO.row X hXU (fun z _ => Relation.den_of_not_mem_left hfresh c z)
    have hcolX : ∀ z ∈ U, z ≠ X → f.den c z X = .o :=
      fun z hz hzX => CO.col (fun z' _ => Relation.den_of_not_mem_right hfresh c z') z hz hzX hXU
    -- column X of the result is the identity column
    have hdX : ∀ z ∈ U, dN (f.den c) z X = idS z X := by
      intro z hz
      by_cases hzX : z = X
      · subst hzX; exact dN_of_eq_idS (hrowX z hz)
      · rw [dN_off hzX, hcolX z hz hzX, idS_of_ne hzX]
    apply AncOK.congr (g := lN U X (f.den c)) _ hgLe
    intro v hv _
    refine ⟨fun u => f.den c u v ≠ .o ∨ u = X, Or.inl (CO.refl v hv), ?_, ?_⟩
    · intro w hw hT u hu hne
      by_cases huX : u = X
      · exact Or.inr huX
      · left
        unfold lN at hne
        rw [if_neg (fun hh => huX hh.1)] at hne
        by_cases huw : u = w
        · subst huw
          rcases hT with h | h
          · exact h
          · exact absurd h huX
        · rw [dN_off huw] at hne
          rcases hT with h | h
          · exact CO.trans u hu w hw v hv hne h
          · subst h; exact absurd (hcolX u hu huX) hne
    · intro u hu hT
      by_cases huX : u = X
      · subst huX
        right; right
        intro x hx
        unfold lN
        rw [if_neg, hdX x hx]
        · exact idS_ne_i x u
        · rintro ⟨_, z, hz, hp⟩
          rw [hdX z hz] at hp
          exact idS_ne_p z u hp
      · rcases hT with h | h
        · by_cases huv : u = v
          · exact Or.inl huv
          · right; left
            unfold lN
            rw [if_neg (fun hh => huX hh.1), dN_off huv]
            exact h
        · exact absurd h huX
  · apply AncOK.of_allInf iL.supp
    rw [e']
    exact (HC c).1 (not_fin_exists fr)

/-! ## the outermost statement is a loop -/

def isLoopCmd : Cmd → Bool
  | .while_ _ => true
  | .loop _ _ => true
  | _ => false

theorem not_loop_of_loopFree {cmd : Cmd} (h : cmd.loopFree = true) : isLoopCmd cmd = false := by
  cases cmd <;> first | rfl | (simp [Cmd.loopFree] at h)

def NodeAnc (n : Node) : Prop :=
  ∀ cmd, desugar n = some cmd → isLoopCmd cmd = true → namesOkA n = true → guardsFresh cmd = true →
    ∀ (idx : Nat) (dg : DG.Graph) (out : Analysis.Out), Analysis.compute true idx dg n = .ok out →
    ∀ (U : List String), U.Nodup → (∀ v ∈ cmd.vars, v ∈ U) →
    ∀ (c : Choice), Valid idx cmd.arity c → ∀ c', Relab idx cmd.swaps c c' →
    ∀ r g, out.rels = [r] → semI U cmd idx c' = (idx + cmd.arity, matOf U g) → AncOK U r c g

theorem compute_anc_aux (N : Nat) : ∀ node : Node, sizeOf node < N → NodeAnc node := by
  induction N with
  | zero => intro node h; omega
  | succ N ih =>
    intro node hsz cmd hd hloop hn hg idx dg out hco U hU hsub c hval c' hrel r0 g hr0 hsem
    by_cases hrec : isRec node = false
    · have := not_loop_of_loopFree (desugar_leaf_loopFree node hrec cmd hd)
      rw [this] at hloop; cases hloop
    cases node <;> first | (exfalso; exact hrec rfl) | skip
    · -- (T) e;
      rename_i e
      rw [desugar] at hd
      rw [namesOkA] at hn
      rw [Analysis.compute] at hco
      exact ih e (by simp only [Node.cast.sizeOf_spec] at hsz; omega) cmd hd hloop hn hg idx dg out hco U hU hsub
        c hval c' hrel r0 g hr0 hsem
    · -- e1, e2
      rename_i es
      rw [desugar] at hd
      cases hdl : desugarL es with
      | none => simp [hdl] at hd
      | some cs =>
        simp only [hdl, Option.map_some, Option.some.injEq] at hd
        subst hd
        cases hloop
    · -- { l }
      rename_i items
      cases items with
      | none => exact absurd rfl hrec
      | some l =>
        rw [desugar] at hd
        cases hdl : desugarL l with
        | none => simp [hdl] at hd
        | some cs =>
          simp only [hdl, Option.map_some, Option.some.injEq] at hd
          subst hd
          cases hloop
    · -- if
      rename_i cond t f
      rw [desugar] at hd
      by_cases hcv : changesVariable cond = true
      · rw [if_pos hcv] at hd; cases hd
      rw [if_neg hcv] at hd
      cases ha : desugarO t with
      | none => simp [ha] at hd
      | some a =>
        cases hb : desugarO f with
        | none => simp [ha, hb] at hd
        | some b =>
          simp only [ha, hb, Option.some.injEq] at hd
          subst hd
          cases hloop
    · -- while
      rename_i cond b
      rw [desugar] at hd
      by_cases hcv : changesVariable cond = true
      · rw [if_pos hcv] at hd; cases hd
      rw [if_neg hcv] at hd
      rw [namesOkA] at hn
      cases hdb : desugar b with
      | none => simp [hdb] at hd
      | some cb =>
        simp only [hdb, Option.map_some, Option.some.injEq] at hd
        subst hd
        rw [guardsFresh] at hg
        rw [Cmd.vars] at hsub
        rw [Cmd.arity] at hval hsem
        rw [Cmd.swaps] at hrel
        rw [Analysis.compute] at hco
        cases hrb : Analysis.compute true idx dg b with
        | error e => rw [hrb] at hco; cases hco
        | ok rb =>
          rw [hrb] at hco
          simp only [bind, Except.bind] at hco
          have Cb := compute_ci b cb hdb hn hg idx dg rb hrb U hU hsub c hval c' hrel
          obtain ⟨r, gb, hr, wr, vr, sb, ib⟩ := Cb.main
          obtain ⟨f, r', g0, g', hf, hw, ho, _, _⟩ := whileFinish_inv hco Cb.exit hr
          obtain ⟨gW, hgW, iW⟩ := CInv.while_ hU wr (fun v hv => hsub v (vr v hv)) ib hf hw
          have hrr : r0 = r' := by rw [ho] at hr0; exact ((List.cons.inj hr0).1).symm
          subst hrr
          simp only [semI, sb, Prod.mk.injEq, true_and] at hsem
          have hgg : ∀ x ∈ U, ∀ y ∈ U, gW x y = g x y := matOf_inj (hgW.symm.trans hsem)
          exact anc_while hU wr (fun v hv => hsub v (vr v hv)) ib hf hw hsem (iW.congr hgg)
    · -- do-while
      rename_i cond b
      rw [desugar] at hd
      by_cases hcv : changesVariable cond = true
      · rw [if_pos hcv] at hd; cases hd
      rw [if_neg hcv] at hd
      rw [namesOkA] at hn
      cases hdb : desugar b with
      | none => simp [hdb] at hd
      | some cb =>
        simp only [hdb, Option.map_some, Option.some.injEq] at hd
        subst hd
        rw [guardsFresh] at hg
        rw [Cmd.vars] at hsub
        rw [Cmd.arity] at hval hsem
        rw [Cmd.swaps] at hrel
        rw [Analysis.compute] at hco
        cases hrb : Analysis.compute true idx dg b with
        | error e => rw [hrb] at hco; cases hco
        | ok rb =>
          rw [hrb] at hco
          simp only [bind, Except.bind] at hco
          have Cb := compute_ci b cb hdb hn hg idx dg rb hrb U hU hsub c hval c' hrel
          obtain ⟨r, gb, hr, wr, vr, sb, ib⟩ := Cb.main
          obtain ⟨f, r', g0, g', hf, hw, ho, _, _⟩ := whileFinish_inv hco Cb.exit hr
          obtain ⟨gW, hgW, iW⟩ := CInv.while_ hU wr (fun v hv => hsub v (vr v hv)) ib hf hw
          have hrr : r0 = r' := by rw [ho] at hr0; exact ((List.cons.inj hr0).1).symm
          subst hrr
          simp only [semI, sb, Prod.mk.injEq, true_and] at hsem
          have hgg : ∀ x ∈ U, ∀ y ∈ U, gW x y = g x y := matOf_inj (hgW.symm.trans hsem)
          exact anc_while hU wr (fun v hv => hsub v (vr v hv)) ib hf hw hsem (iW.congr hgg)
    · -- for
      rename_i init cond next b
      rw [desugar] at hd
      rw [namesOkA] at hn
      rw [Analysis.compute] at hco
      cases hlc : Syntax.loopCompat (.for_ init cond next b) with
      | error e => simp [hlc] at hd
      | ok p =>
        obtain ⟨comp, x⟩ := p
        rw [hlc] at hd hco
        cases comp with
        | false => simp at hd
        | true =>
          cases x with
          | none => simp at hd
          | some X =>
            simp only at hd
            cases hdb : desugar b with
            | none => simp [hdb] at hd
            | some cb =>
              simp only [hdb, Option.map_some, Option.some.injEq] at hd
              subst hd
              simp only [guardsFresh, Bool.and_eq_true, bne_iff_ne, ne_eq, Bool.not_eq_true',
                List.contains_eq_mem, decide_eq_false_iff_not] at hg
              rw [Cmd.vars] at hsub
              rw [Cmd.arity] at hval hsem
              rw [Cmd.swaps] at hrel
              simp only [bind, Except.bind] at hco
              cases hrb : Analysis.compute true idx dg b with
              | error e => rw [hrb] at hco; cases hco
              | ok rb =>
                rw [hrb] at hco
                simp only at hco
                have hsb : ∀ v ∈ cb.vars, v ∈ U := fun v hv => hsub v (List.mem_cons_of_mem _ hv)
                have Cb := compute_ci b cb hdb hn hg.2 idx dg rb hrb U hU hsb c hval c' hrel
                obtain ⟨r, gb, hr, wr, vr, sb, ib⟩ := Cb.main
                obtain ⟨f, r', g0, g', hf, hl, ho, _, _⟩ := forFinish_inv hco Cb.exit hr
                have hfr : X ∉ r.vars := fun hx => hg.1.2 (vr X hx)
                have hXU := hsub X (List.mem_cons_self ..)
                obtain ⟨gL, hgL, iL⟩ := CInv.for_ hU wr (fun v hv => hsb v (vr v hv)) hXU hg.1.1 hfr ib hf hl
                have hrr : r0 = r' := by rw [ho] at hr0; exact ((List.cons.inj hr0).1).symm
                subst hrr
                simp only [semI, sb, Prod.mk.injEq, true_and] at hsem
                have hgg : ∀ x ∈ U, ∀ y ∈ U, gL x y = g x y := matOf_inj (hgL.symm.trans hsem)
                exact anc_for hU wr (fun v hv => hsb v (vr v hv)) hXU hg.1.1 hfr ib hf hl hsem (iL.congr hgg)
    · -- label
      rename_i name st
      rw [desugar] at hd
      rw [namesOkA] at hn
      rw [Analysis.compute] at hco
      exact ih st (by simp only [Node.label.sizeOf_spec] at hsz; omega) cmd hd hloop hn hg idx dg out hco U hU hsub
        c hval c' hrel r0 g hr0 hsem

theorem compute_anc (node : Node) : NodeAnc node := compute_anc_aux (sizeOf node + 1) node (Nat.lt_succ_self _)

end LoopSound
end Mwp
