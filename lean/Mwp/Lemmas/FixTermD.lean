/-
  FixTerm, part D: the loop of `Relation.fixpoint`.

  Invariant of `fixpointAux`: `fix`, `current` well formed over `r.vars`, meaning `Sₖ` / `Pₖ` at
  every choice vector, every cell of `fix` canonical.  When the scalar chain is stationary at
  every choice vector (round `4n²` at the latest, part C), the new `fix` has cell by cell the
  same values as the old one, hence IS the old one (part B), and the syntactic test stops.
-/
import Mwp.Lemmas.RelFixC
import Mwp.Lemmas.FixTermB
import Mwp.Lemmas.FixTermC

namespace Mwp.FixTerm
open Mwp Mwp.RelFix Mwp.Props.C16 Mwp.Lemmas.Poly

/-! ## square matrices, cell by cell -/

theorem get_eq_getElem (a : Matrix) (i j : Nat) (hi : i < a.length) (hj : j < a[i].length) :
    Matrix.get a i j = a[i][j] := by
  unfold Matrix.get
  simp [List.getD, hi, hj]

theorem mat_ext {n : Nat} {a b : Matrix} (ha : a.length = n) (hb : b.length = n)
    (hra : ∀ row ∈ a, row.length = n) (hrb : ∀ row ∈ b, row.length = n)
    (h : ∀ i, i < n → ∀ j, j < n → Matrix.get a i j = Matrix.get b i j) : a = b := by
  apply List.ext_getElem (by rw [ha, hb])
  intro i h1 h2
  have la : a[i].length = n := hra _ (List.getElem_mem h1)
  have lb : b[i].length = n := hrb _ (List.getElem_mem h2)
  apply List.ext_getElem (by rw [la, lb])
  intro j h3 h4
  have := h i (by omega) j (by omega)
  rwa [get_eq_getElem a i j h1 h3, get_eq_getElem b i j h2 h4] at this

/-- every cell canonical -/
def CanonM (n : Nat) (m : Matrix) : Prop := ∀ i, i < n → ∀ j, j < n → Canon (Matrix.get m i j)

theorem CanonM_identity (n : Nat) : CanonM n (Matrix.identity n) := by
  intro i hi j hj
  unfold Matrix.identity
  rw [Matrix.get_tabulate _ _ _ i j hi hj]
  split
  · exact Canon_unit
  · exact Canon_zero

theorem CanonM_sum (n : Nat) (a b : Matrix) (ha : a.length = n) (hc : CanonM n a)
    (hwb : ∀ row ∈ b, ∀ p ∈ row, Poly.WF p = true) : CanonM n (Matrix.sum a b) := by
  intro i hi j hj
  unfold Matrix.sum
  simp only
  rw [ha, Matrix.get_tabulate _ _ _ i j hi hj]
  exact Canon_add _ _ (hc i hi j hj) (Matrix.get_wf b hwb i j)

/-! ## the stop test on identical relations -/

theorem zip_self_all {α : Type} (l : List α) (f : α × α → Bool) :
    (l.zip l).all f = l.all (fun x => f (x, x)) := by
  induction l with
  | nil => rfl
  | cons x t ih => simp [ih]

theorem equal_self (a : Relation) : Relation.equal a a = true := by
  unfold Relation.equal
  have h1 : (a.vars.all a.vars.contains && a.vars.all a.vars.contains) = true := by
    simp
  rw [h1, homog_same a a rfl]
  simp [zip_self_all, Poly.equal]

/-! ## one round -/

structure Inv (r fix cur : Relation) (k : Nat) : Prop where
  fwf : fix.WF
  fvars : fix.vars = r.vars
  cwf : cur.WF
  cvars : cur.vars = r.vars
  fsem : ∀ c, EqOn r.vars.length (fn fix c) (S r.vars.length (fn r c) k)
  csem : ∀ c, EqOn r.vars.length (fn cur c) (P r.vars.length (fn r c) k)
  canon : CanonM r.vars.length fix.mat

theorem Inv_step {r fix cur : Relation} {k : Nat} (h : r.WF) (inv : Inv r fix cur k) :
    Inv r (Relation.sum fix (Relation.composition cur r)) (Relation.composition cur r) (k + 1) := by
  obtain ⟨hfw, hfv, hcw, hcv, hfS, hcP, hcan⟩ := inv
  have hc1 : (Relation.composition cur r).vars = r.vars := by
    rw [(composition_spec cur r hcw h hcv []).1, hcv]
  have hc2 : (Relation.composition cur r).WF := (composition_spec cur r hcw h hcv []).2.1
  have hv : fix.vars = (Relation.composition cur r).vars := by rw [hfv, hc1]
  have hs1 : (Relation.sum fix (Relation.composition cur r)).vars = r.vars := by
    rw [(sum_spec fix _ hfw hc2 hv []).1, hfv]
  have hs2 : (Relation.sum fix (Relation.composition cur r)).WF := (sum_spec fix _ hfw hc2 hv []).2.1
  have hcur' : ∀ c, EqOn r.vars.length (fn (Relation.composition cur r) c)
      (P r.vars.length (fn r c) (k + 1)) := by
    intro c
    have c3 := (composition_spec cur r hcw h hcv c).2.2
    rw [hcv] at c3
    exact c3.trans (fmul_congr (hcP c) (EqOn.refl _ _))
  refine ⟨hs2, hs1, hc2, hc1, ?_, hcur', ?_⟩
  · intro c
    have s3 := (sum_spec fix _ hfw hc2 hv c).2.2
    rw [hfv] at s3
    exact s3.trans (fadd_congr (hfS c) (hcur' c))
  · rw [sum_same fix _ hfw hv]
    show CanonM r.vars.length (Matrix.sum fix.mat (Relation.composition cur r).mat)
    exact CanonM_sum _ _ _ (by rw [hfw.2.2.1, hfv]) hcan hc2.2.2.2.2

/-- same values at every choice vector: the relation is unchanged -/
theorem eq_of_sem {r a b : Relation} (ha : a.WF) (hb : b.WF) (hav : a.vars = r.vars)
    (hbv : b.vars = r.vars) (hca : CanonM r.vars.length a.mat) (hcb : CanonM r.vars.length b.mat)
    (hsem : ∀ c, EqOn r.vars.length (fn a c) (fn b c)) : a = b := by
  have hm : a.mat = b.mat := by
    apply mat_ext (n := r.vars.length)
    · rw [ha.2.2.1, hav]
    · rw [hb.2.2.1, hbv]
    · intro row hr; rw [ha.2.2.2.1 row hr, hav]
    · intro row hr; rw [hb.2.2.2.1 row hr, hbv]
    · intro i hi j hj
      exact canon_ext (hca i hi j hj) (hcb i hi j hj) (fun c => hsem c i hi j hj)
  cases a; cases b
  simp only at hm hav hbv
  rw [hm, hav, hbv]

/-! ## the loop stops -/

theorem fixpointAux_stops (r : Relation) (h : r.WF) :
    ∀ (fuel : Nat) (fix cur : Relation) (k : Nat), Inv r fix cur k →
      k ≤ 4 * r.vars.length * r.vars.length →
      4 * r.vars.length * r.vars.length + 1 ≤ fuel + k →
      ∃ f k', Relation.fixpointAux r fuel fix cur k = .ok (f, k') ∧
        k' ≤ 4 * r.vars.length * r.vars.length + 1 := by
  intro fuel
  induction fuel with
  | zero => intro fix cur k _ h1 h2; omega
  | succ fuel ih =>
    intro fix cur k inv h1 h2
    have inv' := Inv_step h inv
    rw [Relation.fixpointAux]
    split
    · exact ⟨_, _, rfl, by omega⟩
    · rename_i hne
      have hk : k < 4 * r.vars.length * r.vars.length := by
        apply Classical.byContradiction
        intro hge
        apply hne
        have hstat := fun c => stationary_at r.vars.length (fn r c) k (by omega)
        have hsem : ∀ c, EqOn r.vars.length
            (fn (Relation.sum fix (Relation.composition cur r)) c) (fn fix c) :=
          fun c => (inv'.fsem c).trans ((hstat c).trans (inv.fsem c).symm)
        rw [eq_of_sem inv'.fwf inv.fwf inv'.fvars inv.fvars inv'.canon inv.canon hsem]
        exact equal_self fix
      exact ih _ _ (k + 1) inv' (by omega) (by omega)

theorem Inv_start (r : Relation) (h : r.WF) :
    Inv r ⟨r.vars, Matrix.identity r.vars.length⟩ ⟨r.vars, Matrix.identity r.vars.length⟩ 0 :=
  ⟨identity_wf r.vars h.1 h.2.1, rfl, identity_wf r.vars h.1 h.2.1, rfl,
    fun c => identity_fn r.vars c, fun c => identity_fn r.vars c, CanonM_identity _⟩

/-! ## more fuel never changes the answer -/

theorem fuel_mono (r : Relation) :
    ∀ (fuel fuel' : Nat) (fix cur : Relation) (k : Nat) (res : Relation × Nat),
      Relation.fixpointAux r fuel fix cur k = .ok res → fuel ≤ fuel' →
      Relation.fixpointAux r fuel' fix cur k = .ok res := by
  intro fuel
  induction fuel with
  | zero =>
    intro fuel' fix cur k res h _
    simp [Relation.fixpointAux, throw, throwThe, MonadExceptOf.throw] at h
  | succ fuel ih =>
    intro fuel' fix cur k res h hle
    cases fuel' with
    | zero => omega
    | succ fuel' =>
      rw [Relation.fixpointAux] at h ⊢
      split
      · rename_i heq
        rw [if_pos heq] at h
        exact h
      · rename_i hne
        rw [if_neg hne] at h
        exact ih fuel' _ _ _ res h (by omega)

end Mwp.FixTerm
