/-
  RelFix, part C: the code side of `Relation.fixpoint`.  Loop invariant of `fixpointAux`
  (`current` means `Pₖ`, `fix` means `Sₖ` at every choice), stop test = syntactic equality,
  and the bridge to `Spec.SMat.closure` through part A.
-/
import Mwp.Lemmas.RelFixA
import Mwp.Lemmas.RelAlgMatrix

namespace Mwp.RelFix
open Mwp Mwp.Props.C16 Mwp.Lemmas.Poly

/-- the scalar matrix of a relation at a choice, as a function -/
def fn (r : Relation) (c : Choice) : SF := fun i j => (Matrix.get r.mat i j).evalD c

theorem toSMat_eq (r : Relation) (c : Choice) : r.toSMat c = mk r.vars.length (fn r c) := rfl

/-! ## constructor and homogenisation on equal variable lists -/

theorem filter_nonempty_eq (vs : List String) (hne : ∀ v ∈ vs, v ≠ "") :
    vs.filter (fun v => !v.isEmpty) = vs := by
  rw [List.filter_eq_self]
  intro v hv
  have := hne v hv
  simp [this]

theorem new_some_eq (vs : List String) (m : Matrix) (hne : ∀ v ∈ vs, v ≠ "")
    (hl : m.length = vs.length) : Relation.new vs (some m) = ⟨vs, m⟩ := by
  unfold Relation.new
  simp only [filter_nonempty_eq vs hne]
  split
  · rename_i h
    rw [List.isEmpty_iff] at h
    subst h
    have : vs = [] := List.eq_nil_of_length_eq_zero hl.symm
    subst this
    rfl
  · rfl

theorem homog_same (a b : Relation) (h : a.vars = b.vars) :
    Relation.homogenisation a b = (a, b) := by
  unfold Relation.homogenisation
  rw [if_pos (by rw [h]; exact beq_self_eq_true _)]

theorem sum_same (a b : Relation) (ha : a.WF) (h : a.vars = b.vars) :
    Relation.sum a b = ⟨a.vars, Matrix.sum a.mat b.mat⟩ := by
  unfold Relation.sum
  rw [homog_same a b h]
  exact new_some_eq _ _ ha.2.1 (by rw [Matrix.sum_length]; exact ha.2.2.1)

theorem composition_same (a b : Relation) (ha : a.WF) (h : a.vars = b.vars) :
    Relation.composition a b = ⟨a.vars, Matrix.prod a.mat b.mat⟩ := by
  unfold Relation.composition
  rw [homog_same a b h]
  exact new_some_eq _ _ ha.2.1 (by rw [Matrix.prod_length]; exact ha.2.2.1)

theorem sum_spec (a b : Relation) (ha : a.WF) (hb : b.WF) (h : a.vars = b.vars) (c : Choice) :
    (Relation.sum a b).vars = a.vars ∧ (Relation.sum a b).WF ∧
    EqOn a.vars.length (fn (Relation.sum a b) c) (fadd (fn a c) (fn b c)) := by
  rw [sum_same a b ha h]
  obtain ⟨a1, a2, a3, a4, a5⟩ := ha
  obtain ⟨b1, b2, b3, b4, b5⟩ := hb
  refine ⟨rfl, ⟨a1, a2, ?_, ?_, ?_⟩, ?_⟩
  · show (Matrix.sum a.mat b.mat).length = a.vars.length
    rw [Matrix.sum_length, a3]
  · intro row hr
    show row.length = a.vars.length
    rw [Matrix.sum_row_length a.mat b.mat row hr, a3]
  · exact Matrix.sum_cell_wf a.mat b.mat a5 b5
  · intro i hi j hj
    exact Matrix.sum_eval a.mat b.mat a.vars.length a3 (by rw [b3, h]) a4 (by rw [h]; exact b4)
      a5 b5 i j hi hj c

theorem composition_spec (a b : Relation) (ha : a.WF) (hb : b.WF) (h : a.vars = b.vars)
    (c : Choice) :
    (Relation.composition a b).vars = a.vars ∧ (Relation.composition a b).WF ∧
    EqOn a.vars.length (fn (Relation.composition a b) c) (fmul a.vars.length (fn a c) (fn b c)) := by
  rw [composition_same a b ha h]
  obtain ⟨a1, a2, a3, a4, a5⟩ := ha
  obtain ⟨b1, b2, b3, b4, b5⟩ := hb
  refine ⟨rfl, ⟨a1, a2, ?_, ?_, ?_⟩, ?_⟩
  · show (Matrix.prod a.mat b.mat).length = a.vars.length
    rw [Matrix.prod_length, a3]
  · intro row hr
    show row.length = a.vars.length
    rw [Matrix.prod_row_length a.mat b.mat row hr, b3, h]
  · exact Matrix.prod_cell_wf a.mat b.mat a5 b5
  · intro i hi j hj
    exact Matrix.prod_eval a.mat b.mat a.vars.length a3 (by rw [b3, h]) a4 (by rw [h]; exact b4)
      a5 b5 i j hi hj c

/-! ## the stop test -/

theorem zip_all_eq {α : Type} (R : α × α → Bool) (hR : ∀ x y, R (x, y) = true → x = y) :
    ∀ (l1 l2 : List α), l1.length = l2.length → (l1.zip l2).all R = true → l1 = l2 := by
  intro l1
  induction l1 with
  | nil =>
    intro l2 hl _
    cases l2 with
    | nil => rfl
    | cons _ _ => cases hl
  | cons x t ih =>
    intro l2 hl hall
    cases l2 with
    | nil => cases hl
    | cons y t' =>
      rw [List.zip_cons_cons, List.all_cons, Bool.and_eq_true] at hall
      rw [hR x y hall.1, ih t' (by simpa using hl) hall.2]

theorem equal_same (a b : Relation) (ha : a.WF) (hb : b.WF) (h : a.vars = b.vars)
    (he : Relation.equal a b = true) : a.mat = b.mat := by
  unfold Relation.equal at he
  split at he
  · cases he
  · rw [homog_same a b h] at he
    simp only at he
    have hlen : a.mat.length = b.mat.length := by rw [ha.2.2.1, hb.2.2.1, h]
    have hmem : ∀ p ∈ a.mat.zip b.mat, p.1.length = p.2.length := by
      intro p hp
      have h1 := ha.2.2.2.1 p.1 (List.of_mem_zip hp).1
      have h2 := hb.2.2.2.1 p.2 (List.of_mem_zip hp).2
      rw [h1, h2, h]
    -- strengthen the row test with the row lengths, then apply `zip_all_eq` twice
    have he' : (a.mat.zip b.mat).all (fun p => decide (p.1 = p.2)) = true := by
      rw [List.all_eq_true] at he ⊢
      intro p hp
      have := he p hp
      have hrow := zip_all_eq (fun q : Poly × Poly => Poly.equal q.1 q.2)
        (fun x y hxy => by simpa [Poly.equal] using hxy) p.1 p.2 (hmem p hp)
      simp only [decide_eq_true_eq]
      apply hrow
      obtain ⟨p1, p2⟩ := p
      exact this
    exact zip_all_eq _ (fun x y hxy => by simpa using hxy) _ _ hlen he'

/-! ## the identity relation -/

theorem identity_wf (vs : List String) (hv : vs.Nodup) (hne : ∀ v ∈ vs, v ≠ "") :
    Relation.WF ⟨vs, Matrix.identity vs.length⟩ := by
  refine ⟨hv, hne, by simp [Matrix.identity], ?_, ?_⟩
  · intro row hr
    simp only [Matrix.identity, List.mem_map] at hr
    obtain ⟨i, _, rfl⟩ := hr
    simp
  · intro row hr p hp
    simp only [Matrix.identity, List.mem_map] at hr
    obtain ⟨i, _, rfl⟩ := hr
    simp only [List.mem_map] at hp
    obtain ⟨j, _, rfl⟩ := hp
    split <;> rfl

theorem identity_fn (vs : List String) (c : Choice) :
    EqOn vs.length (fn ⟨vs, Matrix.identity vs.length⟩ c) fI := by
  intro i hi j hj
  unfold fn Matrix.identity
  simp only
  rw [Matrix.get_tabulate _ _ _ i j hi hj]
  unfold fI
  split <;> rfl

/-! ## loop invariant -/

theorem fixpointAux_spec (r : Relation) (h : r.WF) (c : Choice) :
    ∀ (fuel : Nat) (fix cur : Relation) (k : Nat) (res : Relation × Nat),
      fix.WF → fix.vars = r.vars → cur.WF → cur.vars = r.vars →
      EqOn r.vars.length (fn fix c) (S r.vars.length (fn r c) k) →
      EqOn r.vars.length (fn cur c) (P r.vars.length (fn r c) k) →
      Relation.fixpointAux r fuel fix cur k = .ok res →
      res.1.WF ∧ res.1.vars = r.vars ∧
        ∃ k', EqOn r.vars.length (fn res.1 c) (S r.vars.length (fn r c) (k' + 1)) ∧
          EqOn r.vars.length (S r.vars.length (fn r c) (k' + 1)) (S r.vars.length (fn r c) k') := by
  intro fuel
  induction fuel with
  | zero =>
    intro fix cur k res _ _ _ _ _ _ hres
    simp [Relation.fixpointAux, throw, throwThe, MonadExceptOf.throw] at hres
  | succ fuel ih =>
    intro fix cur k res hfw hfv hcw hcv hfS hcP hres
    have hcomp := composition_spec cur r hcw h hcv c
    rw [hcv] at hcomp
    obtain ⟨c1, c2, c3⟩ := hcomp
    have hsum := sum_spec fix (Relation.composition cur r) hfw c2 (by rw [hfv, c1]) c
    rw [hfv] at hsum
    obtain ⟨s1, s2, s3⟩ := hsum
    have hcur' : EqOn r.vars.length (fn (Relation.composition cur r) c)
        (P r.vars.length (fn r c) (k + 1)) :=
      c3.trans (fmul_congr hcP (EqOn.refl _ _))
    have hfix' : EqOn r.vars.length (fn (Relation.sum fix (Relation.composition cur r)) c)
        (S r.vars.length (fn r c) (k + 1)) :=
      s3.trans (fadd_congr hfS hcur')
    rw [Relation.fixpointAux] at hres
    split at hres
    · rename_i heq
      have hr : res = (Relation.sum fix (Relation.composition cur r), k + 1) := by
        cases hres; rfl
      subst hr
      refine ⟨s2, s1, k, hfix', ?_⟩
      have hm := equal_same _ _ s2 hfw (by rw [s1, hfv]) heq
      have hfn : fn (Relation.sum fix (Relation.composition cur r)) c = fn fix c := by
        unfold fn; rw [hm]
      exact hfix'.symm.trans (hfn ▸ hfS)
    · exact ih _ _ _ res s2 s1 c2 c1 hfix' hcur' hres

end Mwp.RelFix

namespace Mwp
open Mwp.RelFix

/-- If the syntactic fixpoint loop of the code stops, the result MEANS the reflexive-transitive
    closure at every choice vector. -/
theorem Relation.fixpoint_toSMat (r f : Relation) (h : r.WF) (hf : Relation.fixpoint r = .ok f)
    (c : Choice) :
    f.vars = r.vars ∧ f.WF ∧ f.toSMat c = Spec.SMat.closure (r.toSMat c) := by
  unfold Relation.fixpoint at hf
  rw [new_some_eq _ _ h.2.1 (by simp [Matrix.identity])] at hf
  dsimp only at hf
  cases hres : Relation.fixpointAux r (Relation.fixFuel r) ⟨r.vars, Matrix.identity r.vars.length⟩
      ⟨r.vars, Matrix.identity r.vars.length⟩ 0 with
  | error e => rw [hres] at hf; cases hf
  | ok res =>
    rw [hres] at hf
    have hfe : res.1 = f := by cases hf; rfl
    have hid := identity_wf r.vars h.1 h.2.1
    have hidf := identity_fn r.vars c
    obtain ⟨w, v, k', e1, e2⟩ := fixpointAux_spec r h c _ _ _ 0 res hid rfl hid rfl hidf hidf hres
    rw [hfe] at w v e1
    refine ⟨v, w, ?_⟩
    rw [toSMat_eq, toSMat_eq, v, mk_congr e1]
    exact (closure_of_stationary _ _ k' e2).symm

end Mwp
