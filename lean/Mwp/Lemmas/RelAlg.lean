/-
  Algebra of relations over arbitrary (differently ordered, partially overlapping) variable
  lists: `Relation.sum` is the pointwise sum of the meanings, `Relation.composition` their
  matrix product; well-formedness, variable sets, persistence of ∞.

  Cell level (`Matrix.sum_eval`, `Matrix.prod_eval`) : `Mwp.Lemmas.RelAlgMatrix`.
  Homogenisation / identity (`Relation.identity_den`, `Relation.identity_wf`,
  `Relation.homogenisation_spec`) : `Mwp.Lemmas.RelAlgHomog`.

  `composition_den` is FALSE as first stated (universe `U` strictly larger than the union of the
  variable lists, and an ∞ in an operand): with r1 = ⟨["a"], [[m]]⟩, r2 = ⟨["a"], [[∞]]⟩,
  U = ["a","z"], c = [] the composition has `den c "z" "a" = o` while the product over `U`
  contains `[z=a] * ∞ = o * ∞ = ∞`.  `composition_den_partial` carries the exact side condition.
-/
import Mwp.Lemmas.RelAlgHomog
namespace Mwp
open Mwp.Props.C16 Mwp.Lemmas.Poly

/-! ## Operands over one variable list -/

theorem Relation.sum_same (e1 e2 : Relation) (w1 : e1.WF) (w2 : e2.WF) (hv : e2.vars = e1.vars) :
    (Relation.new e1.vars (some (Matrix.sum e1.mat e2.mat))).WF ∧
    (Relation.new e1.vars (some (Matrix.sum e1.mat e2.mat))).vars = e1.vars ∧
    ∀ c x y, (Relation.new e1.vars (some (Matrix.sum e1.mat e2.mat))).den c x y
      = e1.den c x y + e2.den c x y := by
  obtain ⟨nd1, ne1, l1, rl1, c1⟩ := w1
  obtain ⟨_, _, l2, rl2, c2⟩ := w2
  rw [hv] at l2 rl2
  rw [Relation.new_some_eq _ _ ne1 (by rw [Matrix.sum_length, l1])]
  refine ⟨⟨nd1, ne1, by rw [Matrix.sum_length, l1], ?_, Matrix.sum_cell_wf _ _ c1 c2⟩, rfl, ?_⟩
  · intro row hr; rw [Matrix.sum_row_length _ _ row hr, l1]
  · intro c x y
    rcases idx_cases e1.vars x with ⟨hx, _⟩ | ⟨_, i, hi, hxi, _⟩
    · rw [Relation.den_of_not_mem_left (r := ⟨e1.vars, Matrix.sum e1.mat e2.mat⟩) hx, Relation.den_of_not_mem_left hx,
        Relation.den_of_not_mem_left (hv ▸ hx), sum_idem]
    · rcases idx_cases e1.vars y with ⟨hy, _⟩ | ⟨_, j, hj, hyj, _⟩
      · rw [Relation.den_of_not_mem_right (r := ⟨e1.vars, Matrix.sum e1.mat e2.mat⟩) hy,
          Relation.den_of_not_mem_right hy, Relation.den_of_not_mem_right (hv ▸ hy), sum_idem]
      · rw [Relation.den_of_idx (r := ⟨e1.vars, Matrix.sum e1.mat e2.mat⟩) hxi hyj, Relation.den_of_idx hxi hyj,
          Relation.den_of_idx (r := e2) (hv ▸ hxi) (hv ▸ hyj)]
        exact Matrix.sum_eval _ _ _ l1 l2 rl1 rl2 c1 c2 i j hi hj c

theorem Relation.comp_same (e1 e2 : Relation) (w1 : e1.WF) (w2 : e2.WF) (hv : e2.vars = e1.vars) :
    (Relation.new e1.vars (some (Matrix.prod e1.mat e2.mat))).WF ∧
    (Relation.new e1.vars (some (Matrix.prod e1.mat e2.mat))).vars = e1.vars ∧
    ∀ c x y, (Relation.new e1.vars (some (Matrix.prod e1.mat e2.mat))).den c x y
      = if x ∈ e1.vars ∧ y ∈ e1.vars
        then sumScalars (e1.vars.map fun k => e1.den c x k * e2.den c k y)
        else idS x y := by
  obtain ⟨nd1, ne1, l1, rl1, c1⟩ := w1
  obtain ⟨_, _, l2, rl2, c2⟩ := w2
  rw [hv] at l2 rl2
  rw [Relation.new_some_eq _ _ ne1 (by rw [Matrix.prod_length, l1])]
  refine ⟨⟨nd1, ne1, by rw [Matrix.prod_length, l1], ?_, Matrix.prod_cell_wf _ _ c1 c2⟩, rfl, ?_⟩
  · intro row hr; rw [Matrix.prod_row_length _ _ row hr, l2]
  · intro c x y
    rcases idx_cases e1.vars x with ⟨hx, _⟩ | ⟨hx, i, hi, hxi, _⟩
    · rw [Relation.den_of_not_mem_left (r := ⟨e1.vars, Matrix.prod e1.mat e2.mat⟩) hx, if_neg (fun h => hx h.1)]
    · rcases idx_cases e1.vars y with ⟨hy, _⟩ | ⟨hy, j, hj, hyj, _⟩
      · rw [Relation.den_of_not_mem_right (r := ⟨e1.vars, Matrix.prod e1.mat e2.mat⟩) hy, if_neg (fun h => hy h.2)]
      · rw [if_pos ⟨hx, hy⟩, Relation.den_of_idx (r := ⟨e1.vars, Matrix.prod e1.mat e2.mat⟩) hxi hyj]
        simp only
        rw [Matrix.prod_eval _ _ _ l1 l2 rl1 rl2 c1 c2 i j hi hj c,
          map_eq_map_range_getD e1.vars ""]
        apply sumScalars_map_congr
        intro k hk
        have hk' : k < e1.vars.length := List.mem_range.1 hk
        have hkk := idx_of_get nd1 k hk' ""
        have hkk2 : e2.vars.idxOf? (e1.vars.getD k "") = some k := by rw [hv]; exact hkk
        have hyj2 : e2.vars.idxOf? y = some j := by rw [hv]; exact hyj
        rw [Relation.den_of_idx hxi hkk, Relation.den_of_idx hkk2 hyj2]

/-! ## Well-formedness and variables -/

theorem Relation.sum_wf (r1 r2 : Relation) (h1 : r1.WF) (h2 : r2.WF) : (Relation.sum r1 r2).WF := by
  have H := Relation.homogenisation_spec r1 r2 h1 h2
  exact (Relation.sum_same _ _ H.wf1 H.wf2 H.vars_eq).1

theorem Relation.composition_wf (r1 r2 : Relation) (h1 : r1.WF) (h2 : r2.WF) :
    (Relation.composition r1 r2).WF := by
  have H := Relation.homogenisation_spec r1 r2 h1 h2
  exact (Relation.comp_same _ _ H.wf1 H.wf2 H.vars_eq).1

/-- variables of the result: r1's, then r2's new ones (or the other's when one is empty) -/
theorem Relation.composition_vars_mem (r1 r2 : Relation) (h1 : r1.WF) (h2 : r2.WF) (v : String) :
    v ∈ (Relation.composition r1 r2).vars ↔ v ∈ r1.vars ∨ v ∈ r2.vars := by
  have H := Relation.homogenisation_spec r1 r2 h1 h2
  have := (Relation.comp_same _ _ H.wf1 H.wf2 H.vars_eq).2.1
  unfold Relation.composition
  simp only
  rw [this]
  exact H.mem v

theorem Relation.sum_vars_mem (r1 r2 : Relation) (h1 : r1.WF) (h2 : r2.WF) (v : String) :
    v ∈ (Relation.sum r1 r2).vars ↔ v ∈ r1.vars ∨ v ∈ r2.vars := by
  have H := Relation.homogenisation_spec r1 r2 h1 h2
  have := (Relation.sum_same _ _ H.wf1 H.wf2 H.vars_eq).2.1
  unfold Relation.sum
  simp only
  rw [this]
  exact H.mem v

/-! ## Meaning -/

/-- sum of relations = pointwise sum of their meanings (identity outside own variables) -/
theorem Relation.sum_den (r1 r2 : Relation) (h1 : r1.WF) (h2 : r2.WF) (c : Choice) (x y : String) :
    (Relation.sum r1 r2).den c x y = r1.den c x y + r2.den c x y := by
  have H := Relation.homogenisation_spec r1 r2 h1 h2
  have := (Relation.sum_same _ _ H.wf1 H.wf2 H.vars_eq).2.2 c x y
  rw [H.den1, H.den2] at this
  exact this

/-- composition over the variables of the result: the matrix product of the meanings inside,
    the identity outside -/
theorem Relation.composition_den_own (r1 r2 : Relation) (h1 : r1.WF) (h2 : r2.WF) (c : Choice)
    (x y : String) :
    (Relation.composition r1 r2).den c x y
      = if x ∈ (Relation.composition r1 r2).vars ∧ y ∈ (Relation.composition r1 r2).vars
        then sumScalars ((Relation.composition r1 r2).vars.map fun k =>
          r1.den c x k * r2.den c k y)
        else if x = y then .m else .o := by
  have H := Relation.homogenisation_spec r1 r2 h1 h2
  have S := Relation.comp_same _ _ H.wf1 H.wf2 H.vars_eq
  have hvars : (Relation.composition r1 r2).vars = (Relation.homogenisation r1 r2).1.vars := S.2.1
  rw [hvars]
  have := S.2.2 c x y
  simp only [H.den1, H.den2] at this
  exact this

/-- permutation invariance of `sumScalars` -/
theorem sumScalars_perm {l₁ l₂ : List Scalar} (h : l₁.Perm l₂) : sumScalars l₁ = sumScalars l₂ := by
  unfold sumScalars
  apply List.Perm.foldl_eq' h
  intro a _ b _ z
  rw [sum_assoc, sum_assoc, sum_comm a b]

/-- summing over a larger list of distinct names whose extra members contribute `o` -/
theorem sumScalars_extend (vs U : List String) (hvs : vs.Nodup) (hU : U.Nodup)
    (hsub : ∀ v ∈ vs, v ∈ U) (g : String → Scalar) (hg : ∀ k ∈ U, k ∉ vs → g k = .o) :
    sumScalars (U.map g) = sumScalars (vs.map g) := by
  have hperm : U.Perm (vs ++ U.filter (fun k => !vs.contains k)) := by
    rw [List.perm_ext_iff_of_nodup hU]
    · intro a
      simp only [List.mem_append, List.mem_filter, List.contains_eq_mem, Bool.not_eq_true',
        decide_eq_false_iff_not]
      constructor
      · intro ha
        by_cases h : a ∈ vs
        · exact Or.inl h
        · exact Or.inr ⟨ha, h⟩
      · rintro (h | h)
        · exact hsub a h
        · exact h.1
    · rw [List.nodup_append]
      refine ⟨hvs, hU.sublist List.filter_sublist, ?_⟩
      intro a ha b hb hab
      subst hab
      simp only [List.mem_filter, List.contains_eq_mem, Bool.not_eq_true',
        decide_eq_false_iff_not] at hb
      exact hb.2 ha
  rw [sumScalars_perm (hperm.map g), List.map_append, sumScalars_append]
  rw [sumScalars_map_o (U.filter _) g, sum_zero_right]
  intro k hk
  simp only [List.mem_filter, List.contains_eq_mem, Bool.not_eq_true',
    decide_eq_false_iff_not] at hk
  exact hg k hk.1 hk.2

theorem o_mul_of_ne_i {b : Scalar} (h : b ≠ .i) : Scalar.o * b = .o := (zero_annihilates b h).1
theorem mul_o_of_ne_i {a : Scalar} (h : a ≠ .i) : a * Scalar.o = .o := (zero_annihilates a h).2

/-- composition = matrix product of the meanings, over any finite universe `U` of distinct names
    containing both variable lists and x, y -- PROVIDED an outside name does not meet an ∞:
    if `x` is a variable of neither operand, column `y` of `r2` must be ∞-free at `c`; if `y` is
    a variable of neither, row `x` of `r1` must be.  (The condition is also necessary: without
    it the right-hand side contains `o * ∞ = ∞` and the left-hand side is `[x = y]`.) -/
theorem Relation.composition_den_partial (r1 r2 : Relation) (h1 : r1.WF) (h2 : r2.WF) (c : Choice)
    (U : List String) (hU : U.Nodup) (hsub : ∀ v, v ∈ r1.vars ∨ v ∈ r2.vars → v ∈ U)
    (x y : String) (hx : x ∈ U) (hy : y ∈ U)
    (hxy : (x ∈ r1.vars ∨ x ∈ r2.vars ∨ ∀ k, r2.den c k y ≠ .i) ∧
           (y ∈ r1.vars ∨ y ∈ r2.vars ∨ ∀ k, r1.den c x k ≠ .i)) :
    (Relation.composition r1 r2).den c x y
      = sumScalars (U.map fun k => r1.den c x k * r2.den c k y) := by
  have W := Relation.composition_wf r1 r2 h1 h2
  have hmem := Relation.composition_vars_mem r1 r2 h1 h2
  rw [Relation.composition_den_own r1 r2 h1 h2]
  by_cases hxv : x ∈ (Relation.composition r1 r2).vars
  · by_cases hyv : y ∈ (Relation.composition r1 r2).vars
    · -- both inside: the other names of `U` contribute `o * o`
      rw [if_pos ⟨hxv, hyv⟩]
      symm
      apply sumScalars_extend _ U W.1 hU (fun v hv => hsub v ((hmem v).1 hv))
      intro k _ hk
      have hk1 : k ∉ r1.vars := fun h => hk ((hmem k).2 (Or.inl h))
      have hk2 : k ∉ r2.vars := fun h => hk ((hmem k).2 (Or.inr h))
      rw [Relation.den_of_not_mem_right hk1, Relation.den_of_not_mem_left hk2,
        idS_of_ne (fun h : x = k => hk (h ▸ hxv)), idS_of_ne (fun h : k = y => hk (h ▸ hyv))]
      rfl
    · -- y outside: only `k = y` can contribute
      rw [if_neg (fun h => hyv h.2)]
      have hy1 : y ∉ r1.vars := fun h => hyv ((hmem y).2 (Or.inl h))
      have hy2 : y ∉ r2.vars := fun h => hyv ((hmem y).2 (Or.inr h))
      have hfin : ∀ k, r1.den c x k ≠ .i := by
        rcases hxy.2 with h | h | h
        · exact absurd h hy1
        · exact absurd h hy2
        · exact h
      rw [sumScalars_map_single U _ y, if_pos hy, Relation.den_of_not_mem_right hy1,
        Relation.den_of_not_mem_left hy2, idS_self, prod_unit_right]
      · rfl
      · intro k _ hky
        rw [Relation.den_of_not_mem_right hy2, idS_of_ne hky]
        exact mul_o_of_ne_i (hfin k)
  · -- x outside: only `k = x` can contribute
    rw [if_neg (fun h => hxv h.1)]
    have hx1 : x ∉ r1.vars := fun h => hxv ((hmem x).2 (Or.inl h))
    have hx2 : x ∉ r2.vars := fun h => hxv ((hmem x).2 (Or.inr h))
    have hfin : ∀ k, r2.den c k y ≠ .i := by
      rcases hxy.1 with h | h | h
      · exact absurd h hx1
      · exact absurd h hx2
      · exact h
    rw [sumScalars_map_single U _ x, if_pos hx, Relation.den_of_not_mem_left hx1,
      Relation.den_of_not_mem_left hx2, idS_self, prod_unit_left]
    · rfl
    · intro k _ hkx
      rw [Relation.den_of_not_mem_left hx1, idS_of_ne (fun h => hkx h.symm)]
      exact o_mul_of_ne_i (hfin k)

/-- the stated equation for `x`, `y` among the variables of the operands (any universe) -/
theorem Relation.composition_den_of_mem (r1 r2 : Relation) (h1 : r1.WF) (h2 : r2.WF) (c : Choice)
    (U : List String) (hU : U.Nodup) (hsub : ∀ v, v ∈ r1.vars ∨ v ∈ r2.vars → v ∈ U)
    (x y : String) (hx : x ∈ r1.vars ∨ x ∈ r2.vars) (hy : y ∈ r1.vars ∨ y ∈ r2.vars) :
    (Relation.composition r1 r2).den c x y
      = sumScalars (U.map fun k => r1.den c x k * r2.den c k y) :=
  Relation.composition_den_partial r1 r2 h1 h2 c U hU hsub x y (hsub x hx) (hsub y hy)
    ⟨by rcases hx with h | h <;> simp [h], by rcases hy with h | h <;> simp [h]⟩

/-- the stated equation for all `x`, `y` of the universe when no operand has an ∞ at `c` -/
theorem Relation.composition_den_of_finite (r1 r2 : Relation) (h1 : r1.WF) (h2 : r2.WF) (c : Choice)
    (U : List String) (hU : U.Nodup) (hsub : ∀ v, v ∈ r1.vars ∨ v ∈ r2.vars → v ∈ U)
    (x y : String) (hx : x ∈ U) (hy : y ∈ U)
    (hf1 : ∀ a b, r1.den c a b ≠ .i) (hf2 : ∀ a b, r2.den c a b ≠ .i) :
    (Relation.composition r1 r2).den c x y
      = sumScalars (U.map fun k => r1.den c x k * r2.den c k y) :=
  Relation.composition_den_partial r1 r2 h1 h2 c U hU hsub x y hx hy
    ⟨Or.inr (Or.inr fun k => hf2 k y), Or.inr (Or.inr fun k => hf1 x k)⟩

/-- the side condition of `composition_den_partial` cannot be dropped -/
theorem Relation.composition_den_counterexample :
    ∃ (r1 r2 : Relation) (c : Choice) (U : List String) (x y : String),
      r1.WF ∧ r2.WF ∧ U.Nodup ∧ (∀ v, v ∈ r1.vars ∨ v ∈ r2.vars → v ∈ U) ∧ x ∈ U ∧ y ∈ U ∧
      (Relation.composition r1 r2).den c x y
        ≠ sumScalars (U.map fun k => r1.den c x k * r2.den c k y) := by
  refine ⟨⟨["a"], [[Poly.unit]]⟩, ⟨["a"], [[Poly.const .i]]⟩, [], ["a", "z"], "z", "a",
    ?_, ?_, by decide, ?_, by decide, by decide, by decide⟩
  · refine ⟨by decide, by decide, rfl, by decide, ?_⟩
    intro row hr p hp
    simp only [List.mem_singleton] at hr; subst hr
    simp only [List.mem_singleton] at hp; subst hp; rfl
  · refine ⟨by decide, by decide, rfl, by decide, ?_⟩
    intro row hr p hp
    simp only [List.mem_singleton] at hr; subst hr
    simp only [List.mem_singleton] at hp; subst hp; rfl
  · intro v hv
    simp only [List.mem_singleton, or_self] at hv
    subst hv; decide

/-! ## ∞ persists -/

/-- an ∞ in an operand at some choice is still present in the result at that choice -/
theorem Relation.composition_infty_persists (r1 r2 : Relation) (h1 : r1.WF) (h2 : r2.WF)
    (c : Choice) (h : (∃ x y, r1.den c x y = .i) ∨ (∃ x y, r2.den c x y = .i)) :
    ∃ x y, (Relation.composition r1 r2).den c x y = .i := by
  have hmem := Relation.composition_vars_mem r1 r2 h1 h2
  rcases h with ⟨x, y, hxy⟩ | ⟨x, y, hxy⟩
  · have hm := Relation.mem_of_den_i hxy
    have hxv := (hmem x).2 (Or.inl hm.1)
    have hyv := (hmem y).2 (Or.inl hm.2)
    refine ⟨x, y, ?_⟩
    rw [Relation.composition_den_own r1 r2 h1 h2, if_pos ⟨hxv, hyv⟩]
    apply sumScalars_eq_i_of_mem
    rw [List.mem_map]
    exact ⟨y, hyv, by rw [hxy]; exact (infty_absorbs_prod _).1⟩
  · have hm := Relation.mem_of_den_i hxy
    have hxv := (hmem x).2 (Or.inr hm.1)
    have hyv := (hmem y).2 (Or.inr hm.2)
    refine ⟨x, y, ?_⟩
    rw [Relation.composition_den_own r1 r2 h1 h2, if_pos ⟨hxv, hyv⟩]
    apply sumScalars_eq_i_of_mem
    rw [List.mem_map]
    exact ⟨x, hxv, by rw [hxy]; exact (infty_absorbs_prod _).2⟩

theorem Relation.sum_infty_persists (r1 r2 : Relation) (h1 : r1.WF) (h2 : r2.WF)
    (c : Choice) (h : (∃ x y, r1.den c x y = .i) ∨ (∃ x y, r2.den c x y = .i)) :
    ∃ x y, (Relation.sum r1 r2).den c x y = .i := by
  rcases h with ⟨x, y, hxy⟩ | ⟨x, y, hxy⟩
  · exact ⟨x, y, by rw [Relation.sum_den r1 r2 h1 h2, hxy]; exact (infty_absorbs_sum _).1⟩
  · exact ⟨x, y, by rw [Relation.sum_den r1 r2 h1 h2, hxy]; exact (infty_absorbs_sum _).2⟩

end Mwp
