/-
  ExecSound, part 2: `SMat.closure a` is a fixed point of `S ↦ I ⊕ a·S` (the chain is increasing
  in a lattice of height `4·n²`, and the fuel is `4·n²+1`), hence lies above the identity and is
  closed under multiplication by `a`; the row fix of rule L only increases entries.
-/
import Mwp.Lemmas.ExecSoundScalar
namespace Mwp.Spec.ExecSound
open Mwp Mwp.Spec

def step (a s : SMat) : SMat := SMat.add (SMat.identity a.length) (SMat.mul a s)

theorem sq_step (a s : SMat) : Sq a.length (step a s) := by
  have := sq_add (SMat.identity a.length) (SMat.mul a s)
  rwa [(sq_identity _).1] at this

theorem get_step {a : SMat} (s : SMat) {i j : Nat} (hi : i < a.length) (hj : j < a.length) :
    SMat.get (step a s) i j = docSum (fI i j) (fmul a.length (SMat.get a) (SMat.get s) i j) := by
  unfold step
  rw [get_add _ (by rw [(sq_identity _).1]; exact hi) (by rw [(sq_identity _).1]; exact hj),
    get_identity hi hj, get_mul _ hi hj]

theorem step_mono {a s t : SMat} (h : fle a.length (SMat.get s) (SMat.get t)) :
    fle a.length (SMat.get (step a s)) (SMat.get (step a t)) := by
  intro i hi j hj
  rw [get_step s hi hj, get_step t hi hj]
  apply rank_docSum_le
  · exact rank_docSum_left _ _
  · exact Nat.le_trans (fmul_mono_right _ h i hi j hj) (rank_docSum_right _ _)

/-! ## rank potential -/

theorem sum_map_le {α : Type} (l : List α) (f g : α → Nat) (h : ∀ x ∈ l, f x ≤ g x) :
    (l.map f).sum ≤ (l.map g).sum := by
  induction l with
  | nil => simp
  | cons x t ih =>
    simp only [List.map_cons, List.sum_cons]
    have := h x (List.mem_cons_self ..)
    have := ih (fun y hy => h y (List.mem_cons_of_mem _ hy))
    omega

theorem sum_map_lt {α : Type} (l : List α) (f g : α → Nat) (h : ∀ x ∈ l, f x ≤ g x)
    (hx : ∃ x ∈ l, f x < g x) : (l.map f).sum < (l.map g).sum := by
  induction l with
  | nil => obtain ⟨x, hx, _⟩ := hx; cases hx
  | cons y t ih =>
    simp only [List.map_cons, List.sum_cons]
    have h1 := h y (List.mem_cons_self ..)
    have h2 := sum_map_le t f g (fun z hz => h z (List.mem_cons_of_mem _ hz))
    obtain ⟨x, hxm, hlt⟩ := hx
    rcases List.mem_cons.1 hxm with rfl | hxt
    · omega
    · have := ih (fun z hz => h z (List.mem_cons_of_mem _ hz)) ⟨x, hxt, hlt⟩
      omega

theorem sum_map_le_const {α : Type} (l : List α) (f : α → Nat) (c : Nat) (h : ∀ x ∈ l, f x ≤ c) :
    (l.map f).sum ≤ l.length * c := by
  induction l with
  | nil => simp
  | cons x t ih =>
    simp only [List.map_cons, List.sum_cons, List.length_cons]
    have := h x (List.mem_cons_self ..)
    have := ih (fun y hy => h y (List.mem_cons_of_mem _ hy))
    rw [Nat.succ_mul]
    omega

def phi (n : Nat) (f : SF) : Nat :=
  ((List.range n).map fun i => ((List.range n).map fun j => (f i j).rank).sum).sum

theorem phi_le (n : Nat) (f : SF) : phi n f ≤ 4 * n * n := by
  unfold phi
  have h1 : ∀ i ∈ List.range n, ((List.range n).map fun j => (f i j).rank).sum ≤ n * 4 := by
    intro i _
    have := sum_map_le_const (List.range n) (fun j => (f i j).rank) 4 (fun j _ => rank_le_four _)
    simpa using this
  have := sum_map_le_const (List.range n) _ (n * 4) h1
  have e : (List.range n).length * (n * 4) = 4 * n * n := by
    rw [List.length_range]; ac_rfl
  omega

theorem phi_lt {n : Nat} {f g : SF} (hle : fle n f g)
    (hne : ¬ ∀ i, i < n → ∀ j, j < n → f i j = g i j) : phi n f < phi n g := by
  unfold phi
  have hex : ∃ i, i < n ∧ ∃ j, j < n ∧ f i j ≠ g i j := by
    apply Classical.byContradiction
    intro hno
    apply hne
    intro i hi j hj
    apply Classical.byContradiction
    intro hfg
    exact hno ⟨i, hi, j, hj, hfg⟩
  obtain ⟨i, hi, j, hj, hfg⟩ := hex
  apply sum_map_lt
  · intro i' hi'
    apply sum_map_le
    intro j' hj'
    exact hle i' (List.mem_range.1 hi') j' (List.mem_range.1 hj')
  · refine ⟨i, List.mem_range.2 hi, ?_⟩
    apply sum_map_lt
    · intro j' hj'
      exact hle i hi j' (List.mem_range.1 hj')
    · refine ⟨j, List.mem_range.2 hj, ?_⟩
      have := hle i hi j hj
      have hr : (f i j).rank ≠ (g i j).rank := fun e => hfg (rank_inj e)
      omega

/-! ## the closure is a fixed point -/

theorem closureFrom_fix (a : SMat) : ∀ (fuel : Nat) (s : SMat), Sq a.length s →
    fle a.length (SMat.get s) (SMat.get (step a s)) →
    4 * a.length * a.length < phi a.length (SMat.get s) + fuel →
    step a (SMat.closureFrom a fuel s) = SMat.closureFrom a fuel s
  | 0, s, _, _, hphi => by
    have := phi_le a.length (SMat.get s)
    omega
  | fuel + 1, s, hsq, hle, hphi => by
    simp only [SMat.closureFrom]
    split
    · rename_i h
      exact eq_of_beq h
    · rename_i h
      have hne : ¬ ∀ i, i < a.length → ∀ j, j < a.length →
          SMat.get s i j = SMat.get (step a s) i j := by
        intro hall
        apply h
        have : step a s = s := (sq_ext hsq (sq_step a s) hall).symm
        show (step a s == s) = true
        rw [this]; exact beq_self_eq_true _
      have hlt := phi_lt hle hne
      exact closureFrom_fix a fuel (step a s) (sq_step a s) (step_mono hle) (by omega)

theorem closure_fix (a : SMat) : step a (SMat.closure a) = SMat.closure a := by
  unfold SMat.closure
  apply closureFrom_fix a _ _ (sq_identity _)
  · intro i hi j hj
    rw [get_step _ hi hj, get_identity hi hj]
    exact rank_docSum_left _ _
  · omega

theorem closure_length (a : SMat) : (SMat.closure a).length = a.length := by
  rw [← closure_fix]; exact (sq_step a _).1

theorem fI_le_closure (a : SMat) : fle a.length fI (SMat.get (SMat.closure a)) := by
  intro i hi j hj
  rw [← closure_fix, get_step _ hi hj]
  exact rank_docSum_left _ _

theorem mul_closure_le (a : SMat) :
    fle a.length (fmul a.length (SMat.get a) (SMat.get (SMat.closure a))) (SMat.get (SMat.closure a)) := by
  intro i hi j hj
  conv => rhs; rw [← closure_fix, get_step _ hi hj]
  exact rank_docSum_right _ _

/-! ## rule L's row fix only increases -/

theorem get_loopFix_ge (s : SMat) (ell : Nat) (P : Nat → Bool) (i j : Nat) :
    (SMat.get s i j).rank ≤ (SMat.get ((s.zipIdx).map fun x =>
      if x.2 == ell then (x.1.zipIdx).map fun y => if P y.2 then docSum y.1 .p else y.1 else x.1) i j).rank := by
  unfold SMat.get
  simp only [List.getD_eq_getElem?_getD, List.getElem?_map, List.getElem?_zipIdx]
  cases hr : s[i]? with
  | none => simp
  | some row =>
    simp only [Option.map_some, Option.getD_some, Nat.zero_add]
    split
    · simp only [List.getElem?_map, List.getElem?_zipIdx]
      cases hv : row[j]? with
      | none => simp
      | some v =>
        simp only [Option.map_some, Option.getD_some, Nat.zero_add]
        split
        · exact rank_docSum_left _ _
        · exact Nat.le_refl _
    · exact Nat.le_refl _

end Mwp.Spec.ExecSound
