/-
  Total correctness of `removeNode`: under the structural invariant of a level
  (node lengths, distinct adjacency keys, symmetric adjacency) the recursive
  removal never raises, and re-establishes the invariant.
-/
import Mwp.Lemmas.DeltaGraphB

namespace Mwp.DG

/-! ## More dictionary facts -/
section Dict
variable {κ ν : Type} [BEq κ] [LawfulBEq κ]

theorem has_set (d : List (κ × ν)) (k k' : κ) (v : ν) :
    has (set d k v) k' = (k == k' || has d k') := by
  rw [has_eq_isSome, has_eq_isSome, get?_set]; cases h : k == k' <;> simp

theorem has_del (d : List (κ × ν)) (k k' : κ) :
    has (del d k) k' = (!(k == k') && has d k') := by
  rw [has_eq_isSome, has_eq_isSome, get?_del]; cases h : k == k' <;> simp

omit [LawfulBEq κ] in
theorem has_of_sublist {d' d : List (κ × ν)} (h : d'.Sublist d) {k : κ} (hk : has d' k = true) :
    has d k = true := by
  unfold has at *
  rw [List.any_eq_true] at *
  obtain ⟨x, hx, hxk⟩ := hk
  exact ⟨x, h.subset hx, hxk⟩

omit [LawfulBEq κ] in
theorem has_false_iff {d : List (κ × ν)} {k : κ} : has d k = false ↔ get? d k = none := by
  rw [has_eq_isSome]; cases get? d k <;> simp

omit [LawfulBEq κ] in
theorem has_true_iff {d : List (κ × ν)} {k : κ} : has d k = true ↔ ∃ v, get? d k = some v := by
  rw [has_eq_isSome]; cases get? d k <;> simp

omit [LawfulBEq κ] in
theorem has_of_get? {d : List (κ × ν)} {k : κ} {v : ν} (h : get? d k = some v) : has d k = true :=
  has_true_iff.2 ⟨v, h⟩

omit [LawfulBEq κ] in
theorem set_set {d : List (κ × ν)} {k : κ} (a b : ν) (hk : has d k = true) :
    set (set d k a) k b = set d k b := by
  induction d with
  | nil => simp [has] at hk
  | cons x t ih =>
    unfold set
    cases hx : x.1 == k
    · have : has t k = true := by simpa [has, hx] using hk
      simp only [Bool.false_eq_true, if_false]
      rw [set]
      simp only [hx, Bool.false_eq_true, if_false, ih this]
    · simp only [if_true]
      rw [set]
      simp [hx]

omit [LawfulBEq κ] in
theorem set_get_self {d : List (κ × ν)} {k : κ} {v : ν} (h : get? d k = some v) : set d k v = d := by
  induction d with
  | nil => simp [get?] at h
  | cons x t ih =>
    rw [get?_cons] at h
    unfold set
    cases hx : x.1 == k
    · simp only [hx, Bool.false_eq_true, if_false] at h ⊢
      rw [ih h]
    · simp only [hx, if_true, Option.some.injEq] at h ⊢
      rw [← h]

end Dict

/-! ## Edges of a level -/

/-- `x` is present and lists `y` among its neighbours -/
def E (lvl : Level) (x y : Node) : Prop := ∃ adj, get? lvl x = some adj ∧ has adj y = true

theorem E.has_left {lvl : Level} {x y : Node} (h : E lvl x y) : has lvl x = true :=
  let ⟨_, ha, _⟩ := h; has_of_get? ha

theorem E_del {lvl : Level} {k x y : Node} : E (del lvl k) x y ↔ x ≠ k ∧ E lvl x y := by
  unfold E
  rw [get?_del]
  by_cases h : k = x
  · subst h; simp
  · have : (k == x) = false := by simpa using h
    simp [this, Ne.symm h]

theorem E_set {lvl : Level} {k x y : Node} {a : Adj} :
    E (set lvl k a) x y ↔ (if k = x then has a y = true else E lvl x y) := by
  unfold E
  rw [get?_set]
  by_cases h : k = x
  · subst h; simp
  · have : (k == x) = false := by simpa using h
    simp [this, h]

/-! ## Specification of `removeNode` -/

/-- what the recursion needs of a level (dangling edges towards already removed nodes allowed) -/
structure RPre (s : Nat) (lvl : Level) : Prop where
  wf : ∀ n adj, get? lvl n = some adj → n.length = s ∧ (adj.map (·.1)).Nodup
  sym : ∀ x y, E lvl x y → has lvl y = true → E lvl y x

structure RPost (lvl lvl' : Level) : Prop where
  keys : ∀ x, has lvl' x = true → has lvl x = true
  adj : ∀ x adj', get? lvl' x = some adj' → ∃ adj, get? lvl x = some adj ∧ adj'.Sublist adj ∧
      ∀ y, has adj y = true → has lvl y = false → has adj' y = true
  sym : ∀ x y, E lvl' x y → has lvl' y = true → E lvl' y x
  dang : ∀ x y, E lvl' x y → has lvl' y = false → has lvl y = false
  len : lvl'.length ≤ lvl.length

/-- loop invariant of the neighbour loop of `removeNode lvl node` -/
structure LI (lvl : Level) (node : Node) (rest : List Node) (cur : Level) : Prop where
  keys : ∀ x, has cur x = true → has lvl x = true
  nnode : has cur node = false
  adj : ∀ x adj', get? cur x = some adj' → ∃ adj, get? lvl x = some adj ∧ adj'.Sublist adj ∧
      ∀ y, has adj y = true → has lvl y = false → has adj' y = true
  sym : ∀ x y, E cur x y → has cur y = true → E cur y x
  frame : ∀ nb ∈ rest, has cur nb = true → E cur nb node
  dang : ∀ x y, E cur x y → has cur y = false → has lvl y = false ∨ (y = node ∧ x ∈ rest)
  len : cur.length < lvl.length
  nodup : rest.Nodup

theorem E_of_adj {lvl cur : Level}
    (hadj : ∀ x adj', get? cur x = some adj' → ∃ adj, get? lvl x = some adj ∧ adj'.Sublist adj ∧
      ∀ y, has adj y = true → has lvl y = false → has adj' y = true)
    {x y : Node} (h : E cur x y) : E lvl x y := by
  obtain ⟨a', ha', hy⟩ := h
  obtain ⟨a, ha, hsub, _⟩ := hadj x a' ha'
  exact ⟨a, ha, has_of_sublist hsub hy⟩

theorem LI.rpre {s : Nat} {lvl cur : Level} {node : Node} {rest : List Node} (hp : RPre s lvl)
    (h : LI lvl node rest cur) : RPre s cur := by
  refine ⟨?_, h.sym⟩
  intro n a' ha'
  obtain ⟨a, ha, hsub, _⟩ := h.adj n a' ha'
  exact ⟨(hp.wf n a ha).1, (hsub.map (·.1)).nodup (hp.wf n a ha).2⟩

theorem LI.init {s : Nat} {lvl : Level} {node : Node} {adj : Adj} (hp : RPre s lvl)
    (hadj : get? lvl node = some adj) : LI lvl node (adj.map (·.1)) (del lvl node) := by
  have hnode : has lvl node = true := has_of_get? hadj
  refine ⟨?_, ?_, ?_, ?_, ?_, ?_, length_del_lt hnode, (hp.wf node adj hadj).2⟩
  · intro x hx
    rw [has_del] at hx
    simp only [Bool.and_eq_true] at hx
    exact hx.2
  · rw [has_del]; simp
  · intro x a' ha'
    rw [get?_del] at ha'
    split at ha'
    · cases ha'
    · exact ⟨a', ha', List.Sublist.refl _, fun y h _ => h⟩
  · intro x y hxy hy
    rw [E_del] at hxy ⊢
    rw [has_del] at hy
    simp only [Bool.and_eq_true, Bool.not_eq_true', beq_eq_false_iff_ne, ne_eq] at hy
    exact ⟨fun h => hy.1 h.symm, hp.sym x y hxy.2 hy.2⟩
  · intro nb hnb hcur
    rw [has_del] at hcur
    simp only [Bool.and_eq_true, Bool.not_eq_true', beq_eq_false_iff_ne, ne_eq] at hcur
    rw [E_del]
    refine ⟨fun h => hcur.1 h.symm, hp.sym node nb ⟨adj, hadj, ?_⟩ hcur.2⟩
    exact (has_iff_mem_keys adj nb).2 hnb
  · intro x y hxy hy
    rw [E_del] at hxy
    rw [has_del] at hy
    cases hly : has lvl y
    · exact Or.inl rfl
    · right
      simp only [hly, Bool.and_true, Bool.not_eq_false', beq_iff_eq] at hy
      subst hy
      refine ⟨rfl, ?_⟩
      obtain ⟨a, ha, hx⟩ := hp.sym x node hxy.2 hly
      rw [hadj] at ha
      cases ha
      exact (has_iff_mem_keys _ x).1 hx

theorem LI.skip {lvl cur : Level} {node nb : Node} {rest : List Node}
    (h : LI lvl node (nb :: rest) cur) (hnb : get? cur nb = none) : LI lvl node rest cur := by
  refine ⟨h.keys, h.nnode, h.adj, h.sym, ?_, ?_, h.len, (List.nodup_cons.1 h.nodup).2⟩
  · intro x hx; exact h.frame x (List.mem_cons_of_mem _ hx)
  · intro x y hxy hy
    rcases h.dang x y hxy hy with h1 | ⟨h1, h2⟩
    · exact Or.inl h1
    · right
      refine ⟨h1, ?_⟩
      rcases List.mem_cons.1 h2 with h2 | h2
      · subst h2
        obtain ⟨a, ha, _⟩ := hxy
        rw [hnb] at ha; cases ha
      · exact h2

theorem LI.recur {lvl cur cur' : Level} {node nb : Node} {rest : List Node}
    (h : LI lvl node (nb :: rest) cur) (hpost : RPost cur cur') (hlen : cur'.length < cur.length)
    (hnb : has cur' nb = false) : LI lvl node rest cur' := by
  refine ⟨fun x hx => h.keys x (hpost.keys x hx), ?_, ?_, hpost.sym, ?_, ?_,
    Nat.lt_trans hlen h.len, (List.nodup_cons.1 h.nodup).2⟩
  · cases hc : has cur' node
    · rfl
    · have := hpost.keys node hc
      rw [h.nnode] at this; cases this
  · intro x a'' ha''
    obtain ⟨a', ha', hsub', hp'⟩ := hpost.adj x a'' ha''
    obtain ⟨a, ha, hsub, hp⟩ := h.adj x a' ha'
    refine ⟨a, ha, hsub'.trans hsub, ?_⟩
    intro y hy hly
    apply hp' y (hp y hy hly)
    cases hc : has cur y
    · rfl
    · have := h.keys y hc
      rw [hly] at this; cases this
  · intro nb' hnb' hcur'
    obtain ⟨a', ha', hn⟩ := h.frame nb' (List.mem_cons_of_mem _ hnb') (hpost.keys nb' hcur')
    obtain ⟨a'', ha''⟩ := has_true_iff.1 hcur'
    obtain ⟨a, ha, _, hp⟩ := hpost.adj nb' a'' ha''
    rw [ha'] at ha; cases ha
    exact ⟨a'', ha'', hp node hn h.nnode⟩
  · intro x y hxy hy
    have hy' := hpost.dang x y hxy hy
    have hxy' : E cur x y := E_of_adj hpost.adj hxy
    rcases h.dang x y hxy' hy' with h1 | ⟨h1, h2⟩
    · exact Or.inl h1
    · right
      refine ⟨h1, ?_⟩
      rcases List.mem_cons.1 h2 with h2 | h2
      · subst h2
        have := hxy.has_left
        rw [hnb] at this; cases this
      · exact h2

theorem LI.del {lvl cur : Level} {node nb : Node} {rest : List Node} {nadj : Adj}
    (hnode : has lvl node = true)
    (h : LI lvl node (nb :: rest) cur) (hnb : get? cur nb = some nadj) :
    LI lvl node rest (set cur nb (DG.del nadj node)) := by
  have hhas : has cur nb = true := has_of_get? hnb
  have hne : nb ≠ node := by
    intro he; rw [he, h.nnode] at hhas; cases hhas
  have hkeys : ∀ x, has (set cur nb (DG.del nadj node)) x = has cur x := by
    intro x
    rw [has_set]
    by_cases hx : nb = x
    · subst hx; simp [hhas]
    · have : (nb == x) = false := by simpa using hx
      simp [this]
  have hE : ∀ x y, E (set cur nb (DG.del nadj node)) x y ↔ (y ≠ node ∨ x ≠ nb) ∧ E cur x y := by
    intro x y
    rw [E_set]
    by_cases hx : nb = x
    · subst hx
      simp only [if_true, has_del, Bool.and_eq_true, Bool.not_eq_true', beq_eq_false_iff_ne, ne_eq]
      constructor
      · rintro ⟨h1, h2⟩
        exact ⟨Or.inl (fun h => h1 h.symm), nadj, hnb, h2⟩
      · rintro ⟨h1 | h1, a, ha, h2⟩
        · rw [hnb] at ha; cases ha
          exact ⟨fun h => h1 h.symm, h2⟩
        · exact absurd (by simp) h1
    · simp only [hx, if_false]
      constructor
      · intro h1; exact ⟨Or.inr (Ne.symm hx), h1⟩
      · intro h1; exact h1.2
  refine ⟨?_, ?_, ?_, ?_, ?_, ?_, ?_, (List.nodup_cons.1 h.nodup).2⟩
  · intro x hx; rw [hkeys] at hx; exact h.keys x hx
  · rw [hkeys]; exact h.nnode
  · intro x a' ha'
    rw [get?_set] at ha'
    split at ha'
    · rename_i hx
      rw [beq_iff_eq] at hx
      subst hx
      cases ha'
      obtain ⟨a, ha, hsub, hp⟩ := h.adj nb nadj hnb
      refine ⟨a, ha, (List.filter_sublist).trans hsub, ?_⟩
      intro y hy hly
      rw [has_del]
      have hyn : node ≠ y := by
        intro he; rw [← he, hnode] at hly; cases hly
      have : (node == y) = false := by simpa using hyn
      simp [this, hp y hy hly]
    · exact h.adj x a' ha'
  · intro x y hxy hy
    rw [hkeys] at hy
    rw [hE] at hxy ⊢
    have hyx := h.sym x y hxy.2 hy
    refine ⟨?_, hyx⟩
    left
    intro hxn
    have := hxy.2.has_left
    rw [hxn, h.nnode] at this; cases this
  · intro nb' hnb' hcur'
    rw [hkeys] at hcur'
    rw [hE]
    refine ⟨Or.inr ?_, h.frame nb' (List.mem_cons_of_mem _ hnb') hcur'⟩
    intro he
    subst he
    exact (List.nodup_cons.1 h.nodup).1 hnb'
  · intro x y hxy hy
    rw [hkeys] at hy
    rw [hE] at hxy
    rcases h.dang x y hxy.2 hy with h1 | ⟨h1, h2⟩
    · exact Or.inl h1
    · right
      refine ⟨h1, ?_⟩
      rcases List.mem_cons.1 h2 with h2 | h2
      · rcases hxy.1 with h3 | h3
        · exact absurd h1 h3
        · exact absurd h2 h3
      · exact h2
  · rw [length_set_of_has _ hhas]; exact h.len

theorem LI.post {lvl cur : Level} {node : Node} (h : LI lvl node [] cur) :
    RPost lvl cur ∧ cur.length < lvl.length ∧ has cur node = false := by
  refine ⟨⟨h.keys, h.adj, h.sym, ?_, Nat.le_of_lt h.len⟩, h.len, h.nnode⟩
  intro x y hxy hy
  rcases h.dang x y hxy hy with h1 | ⟨_, h2⟩
  · exact h1
  · cases h2

/-! ## The loop body, unfolded -/

/-- body of the neighbour loop of `removeNode` -/
def rmStep (fuel size : Nat) (node : Node) (index : Nat) (g : Graph) (nb : Node) : M Graph := do
  let lvl ← levelOf g size
  match get? lvl nb with
  | none => pure g
  | some nadj =>
    match get? nadj node with
    | none => throw "KeyError"
    | some label =>
      if label == index then removeNode fuel g nb index
      else pure (set g size (set lvl nb (del nadj node)))

theorem removeNode_succ (fuel : Nat) (g : Graph) (node : Node) (index : Nat) :
    removeNode (fuel + 1) g node index =
      (do
        let lvl ← levelOf g node.length
        match get? lvl node with
        | none => throw "KeyError"
        | some adj =>
          (adj.map (·.1)).foldlM (rmStep fuel node.length node index)
            (set g node.length (del lvl node))) := by
  rw [removeNode]
  rfl

theorem levelOf_ok {g : Graph} {s : Nat} {lvl : Level} (h : get? g s = some lvl) :
    levelOf g s = .ok lvl := levelOf_eq_ok.2 h

theorem get?_set_self {g : Graph} {s : Nat} {lvl : Level} : get? (set g s lvl) s = some lvl := by
  rw [get?_set]; simp

/-- `removeNode` on level `s` never raises when it has fuel for every node of the level. -/
theorem removeNode_total (g0 : Graph) (s : Nat) (hg0 : has g0 s = true) :
    ∀ (fuel : Nat) (lvl : Level) (node : Node) (idx : Nat),
      RPre s lvl → has lvl node = true → lvl.length < fuel →
      ∃ lvl', removeNode fuel (set g0 s lvl) node idx = .ok (set g0 s lvl') ∧
        RPost lvl lvl' ∧ lvl'.length < lvl.length ∧ has lvl' node = false := by
  intro fuel
  induction fuel with
  | zero => intro lvl node idx _ _ h; omega
  | succ fuel ih =>
    intro lvl node idx hp hnode hfuel
    obtain ⟨adj, hadj⟩ := has_true_iff.1 hnode
    have hlen : node.length = s := (hp.wf node adj hadj).1
    rw [removeNode_succ, hlen, levelOf_ok get?_set_self]
    simp only [bind, Except.bind, hadj]
    rw [set_set _ _ hg0]
    have key := foldlM_total (ε := String)
      (fun rest g => ∃ cur, g = set g0 s cur ∧ LI lvl node rest cur)
      (rmStep fuel s node idx) ?_ (adj.map (·.1)) (set g0 s (del lvl node))
      ⟨_, rfl, LI.init hp hadj⟩
    · obtain ⟨r, hr, cur, hrc, hli⟩ := key
      subst hrc
      exact ⟨cur, hr, hli.post⟩
    · rintro g nb rest ⟨cur, rfl, hli⟩
      unfold rmStep
      rw [levelOf_ok get?_set_self]
      simp only [bind, Except.bind]
      cases hnb : get? cur nb with
      | none => exact ⟨_, rfl, cur, rfl, hli.skip hnb⟩
      | some nadj =>
        simp only
        have hhas : has cur nb = true := has_of_get? hnb
        obtain ⟨a, ha, hn⟩ := hli.frame nb (List.mem_cons_self ..) hhas
        rw [hnb] at ha; cases ha
        obtain ⟨label, hlabel⟩ := has_true_iff.1 hn
        rw [hlabel]
        simp only
        cases hl : label == idx with
        | true =>
          simp only [if_true]
          have hlt : cur.length < fuel := by have := hli.len; omega
          obtain ⟨cur', hrun, hpost, hlen', hnb'⟩ := ih cur nb idx (hli.rpre hp) hhas hlt
          exact ⟨_, hrun, cur', rfl, hli.recur hpost hlen' hnb'⟩
        | false =>
          simp only [Bool.false_eq_true, if_false]
          rw [set_set _ _ hg0]
          exact ⟨_, rfl, _, rfl, hli.del hnode hnb⟩

end Mwp.DG
