/-
  Refinement with loops, part 4: `Analysis.forFinish` (counted loops).  PLACEHOLDER
-/
import Mwp.Lemmas.RefineLoopsInv
namespace Mwp
namespace Refine
open Mwp.Props.C16 Mwp.Lemmas.Poly Spec RelFix

theorem refG_for {q : Bool} {idx : Nat} {dg : DG.Graph} {X : String} {b : Cmd} {rb out : Analysis.Out}
    (Rb : RefG q idx dg b rb) (hX : X ≠ "") (hfresh : X ∉ b.vars)
    (h : Analysis.forFinish q X rb = .ok out) :
    RefG q idx dg (.loop X b) out := by
  sorry

end Refine
end Mwp
